(* Non-vacuity of the C04 development: concrete core-IR pairs the validator accepts and rejects,
   and concrete runs showing why.  The pairs named `tests_optimize_*` are the real IR of
   /repo/tests/optimize/*.glu before and after core::optimize::optimize, as written by
   harness/src/bin/c04.rs (symbols numbered by identity). *)
From Coq Require Import List ZArith NArith Bool.
From GV Require Import Lang.Core Lang.OptValid.
Import ListNotations.

Definition fop0 (_ : primop) (x _ : Z) : Z := x.
Definition fcmp0 (_ : primop) (x y : Z) : bool := Z.eqb x y.

(* names: 3 = the record r, 7 = field f, 8 = the pattern's binder, 5 = `_`, 9 = k *)
Definition proj (r f x : N) : cexpr := Match (Ident r) (ACons (PRec [(f, x)]) (Ident x) ANil).

(* `let _ = r.f 1 in k`  =>  `k`  : the known defect of dead_code.rs; must be rejected *)
Definition discard_call : cexpr :=
  Let 5%N (Call (proj 3%N 7%N 8%N) (ECons (Const (LInt 1)) ENil)) (Ident 9%N).

Example rejects_discarded_projection_call : valid_opt discard_call (Ident 9%N) = false.
Proof. vm_compute. reflexivity. Qed.

(* ... and rightly so: with r.f an effectful host function the two programs differ *)
Definition env_eff : env := [(3%N, VRec [(7%N, VHost HEff)]); (9%N, VInt 0)].
Example discarded_call_is_observable :
  eval_core fop0 fcmp0 2 env_eff discard_call = (Val (VInt 0), [1%Z])
  /\ eval_core fop0 fcmp0 2 env_eff (Ident 9%N) = (Val (VInt 0), []).
Proof. split; vm_compute; reflexivity. Qed.

(* with r.f = std.prim.error the failure disappears *)
Definition discard_error : cexpr :=
  Let 5%N (Call (proj 3%N 7%N 8%N) (ECons (Const (LStr [98; 111; 111; 109]%N)) ENil)) (Ident 9%N).
Definition env_err : env := [(3%N, VRec [(7%N, VHost HError)]); (9%N, VInt 0)].
Example discarded_error_is_observable :
  eval_core fop0 fcmp0 2 env_err discard_error = (Err (EExplicit [98; 111; 111; 109]%N), [])
  /\ eval_core fop0 fcmp0 2 env_err (Ident 9%N) = (Val (VInt 0), [])
  /\ valid_opt discard_error (Ident 9%N) = false.
Proof. repeat split; vm_compute; reflexivity. Qed.

(* the other callee shapes the dependency graph overlooks *)
Example rejects_discarded_lambda_call :
  valid_opt (Let 5%N (Call (LetRec (CCons 20%N [21%N] (Call (Ident 4%N) (ECons (Ident 21%N) ENil)) CNil) (Ident 20%N))
                           (ECons (Const (LInt 3)) ENil)) (Ident 9%N))
            (Ident 9%N) = false.
Proof. vm_compute. reflexivity. Qed.

Example rejects_discarded_direct_call :
  valid_opt (Let 5%N (Call (Ident 4%N) (ECons (Const (LInt 3)) ENil)) (Ident 9%N)) (Ident 9%N) = false.
Proof. vm_compute. reflexivity. Qed.

(* R1 with the permitted exception: `let _ = 1 #Int/ 0 in 5` => `5` is accepted; the unoptimised
   program fails with EArith, the optimised one returns 5 *)
Definition unused_div : cexpr :=
  Let 5%N (Call (Prim PIntDiv) (ECons (Const (LInt 1)) (ECons (Const (LInt 0)) ENil))) (Const (LInt 5)).
Example accepts_unused_arithmetic :
  valid_opt unused_div (Const (LInt 5)) = true
  /\ eval_core fop0 fcmp0 0 [] unused_div = (Err EArith, [])
  /\ eval_core fop0 fcmp0 0 [] (Const (LInt 5)) = (Val (VInt 5), []).
Proof. repeat split; vm_compute; reflexivity. Qed.

(* R2: an unreferenced member of a recursive group *)
Example accepts_dropped_group_member :
  valid_opt
    (LetRec (CCons 20%N [21%N] (Ident 21%N) (CCons 22%N [23%N] (Call (Ident 22%N) (ECons (Ident 23%N) ENil)) CNil))
            (Call (Ident 20%N) (ECons (Const (LInt 1)) ENil)))
    (LetRec (CCons 20%N [21%N] (Ident 21%N) CNil) (Call (Ident 20%N) (ECons (Const (LInt 1)) ENil))) = true.
Proof. vm_compute. reflexivity. Qed.

(* R3 (+R1): `match { a = f 1, b = 2 } with { b = y } -> y`  =>  `let d = f 1 in let y = 2 in y`
   (d a fresh name), and the effectful field must stay *)
Example accepts_unnecessary_allocation :
  valid_opt
    (Match (Rec [30; 31]%N (ECons (Call (Ident 4%N) (ECons (Const (LInt 1)) ENil)) (ECons (Const (LInt 2)) ENil)))
           (ACons (PRec [(31%N, 33%N)]) (Ident 33%N) ANil))
    (Let 40%N (Call (Ident 4%N) (ECons (Const (LInt 1)) ENil)) (Let 33%N (Const (LInt 2)) (Ident 33%N))) = true
  /\ valid_opt
    (Match (Rec [30; 31]%N (ECons (Call (Ident 4%N) (ECons (Const (LInt 1)) ENil)) (ECons (Const (LInt 2)) ENil)))
           (ACons (PRec [(31%N, 33%N)]) (Ident 33%N) ANil))
    (Let 33%N (Const (LInt 2)) (Ident 33%N)) = false.
Proof. split; vm_compute; reflexivity. Qed.

(* R4: a record pattern none of whose binders is used *)
Example accepts_unused_record_match :
  valid_opt (Match (Ident 3%N) (ACons (PRec [(7%N, 8%N)]) (Const (LInt 1)) ANil)) (Const (LInt 1)) = true
  /\ valid_opt (Match (Call (Ident 4%N) (ECons (Const (LInt 1)) ENil)) (ACons (PRec [(7%N, 8%N)]) (Const (LInt 1)) ANil))
               (Const (LInt 1)) = false.
Proof. split; vm_compute; reflexivity. Qed.

(* ---- the real IR of /repo/tests/optimize/*.glu, before and after core::optimize::optimize ---- *)

(* tests/optimize/cmp.glu *)
Definition tests_optimize_cmp_off : cexpr :=
 (Match (Ident 38%N) (ACons (PRec []) (LetRec (CCons 39%N [40%N; 41%N] (Match (Ident 40%N) (ACons (PCon 42%N [43%N]) (Ident 43%N) (ACons (PCon 44%N []) (Ident 41%N) ANil))) CNil)
 (LetRec (CCons 45%N [46%N] (LetRec (CCons 47%N [48%N; 49%N] (Data 1%N ENil) CNil)
 (Rec [50%N] (ECons (Call (Ident 39%N) (ECons (Match (Ident 46%N) (ACons (PRec [(50%N, 51%N)]) (Ident 51%N) ANil)) (ECons (Ident 47%N) ENil))) ENil))) CNil)
 (Rec [52%N] (ECons (Ident 45%N) ENil)))) ANil)).
Definition tests_optimize_cmp_on : cexpr :=
 (LetRec (CCons 39%N [40%N; 41%N] (Match (Ident 40%N) (ACons (PCon 42%N [43%N]) (Ident 43%N) (ACons (PCon 44%N []) (Ident 41%N) ANil))) CNil)
 (LetRec (CCons 45%N [46%N] (LetRec (CCons 47%N [48%N; 49%N] (Data 1%N ENil) CNil)
 (Rec [50%N] (ECons (Call (Ident 39%N) (ECons (Match (Ident 46%N) (ACons (PRec [(50%N, 51%N)]) (Ident 51%N) ANil)) (ECons (Ident 47%N) ENil))) ENil))) CNil)
 (Rec [52%N] (ECons (Ident 45%N) ENil)))).
Example accepts_tests_optimize_cmp : valid_opt tests_optimize_cmp_off tests_optimize_cmp_on = true.
Proof. vm_compute. reflexivity. Qed.

(* tests/optimize/inline_num.glu *)
Definition tests_optimize_inline_num_off : cexpr :=
 (Let 38%N (Let 39%N (Rec [40%N] (ECons (LetRec (CCons 41%N [42%N; 43%N] (Call (Prim PIntAdd) (ECons (Ident 42%N) (ECons (Ident 43%N) ENil))) CNil)
 (Ident 41%N)) ENil))
 (Rec [44%N] (ECons (Ident 39%N) ENil)))
 (Rec [45%N; 46%N] (ECons (Match (Match (Ident 38%N) (ACons (PRec [(44%N, 47%N)]) (Ident 47%N) ANil)) (ACons (PRec [(40%N, 48%N)]) (Ident 48%N) ANil)) (ECons (Ident 38%N) ENil)))).
Definition tests_optimize_inline_num_on : cexpr :=
 (Let 38%N (Let 39%N (Rec [40%N] (ECons (LetRec (CCons 41%N [42%N; 43%N] (Call (Prim PIntAdd) (ECons (Ident 42%N) (ECons (Ident 43%N) ENil))) CNil)
 (Ident 41%N)) ENil))
 (Rec [44%N] (ECons (Ident 39%N) ENil)))
 (Rec [45%N; 46%N] (ECons (Match (Match (Ident 38%N) (ACons (PRec [(44%N, 47%N)]) (Ident 47%N) ANil)) (ACons (PRec [(40%N, 48%N)]) (Ident 48%N) ANil)) (ECons (Ident 38%N) ENil)))).
Example accepts_tests_optimize_inline_num : valid_opt tests_optimize_inline_num_off tests_optimize_inline_num_on = true.
Proof. vm_compute. reflexivity. Qed.

(* tests/optimize/inline_through_module.glu *)
Definition tests_optimize_inline_through_module_off : cexpr :=
 (Match (Ident 38%N) (ACons (PRec [(39%N, 40%N); (41%N, 42%N); (43%N, 44%N); (45%N, 46%N)]) (Rec [39%N; 41%N; 43%N; 45%N] (ECons (Ident 40%N) (ECons (Ident 42%N) (ECons (Ident 44%N) (ECons (Ident 46%N) ENil))))) ANil)).
Definition tests_optimize_inline_through_module_on : cexpr :=
 (Match (Ident 38%N) (ACons (PRec [(39%N, 40%N); (41%N, 42%N); (43%N, 44%N); (45%N, 46%N)]) (Rec [39%N; 41%N; 43%N; 45%N] (ECons (Ident 40%N) (ECons (Ident 42%N) (ECons (Ident 44%N) (ECons (Ident 46%N) ENil))))) ANil)).
Example accepts_tests_optimize_inline_through_module : valid_opt tests_optimize_inline_through_module_off tests_optimize_inline_through_module_on = true.
Proof. vm_compute. reflexivity. Qed.

(* tests/optimize/inline_through_module2.glu *)
Definition tests_optimize_inline_through_module2_off : cexpr :=
 (Let 38%N (Rec [39%N; 40%N; 41%N; 42%N] (ECons (LetRec (CCons 43%N [44%N; 45%N] (Call (Prim PIntAdd) (ECons (Ident 44%N) (ECons (Ident 45%N) ENil))) CNil)
 (Ident 43%N)) (ECons (LetRec (CCons 46%N [47%N; 48%N] (Call (Prim PIntSub) (ECons (Ident 47%N) (ECons (Ident 48%N) ENil))) CNil)
 (Ident 46%N)) (ECons (LetRec (CCons 49%N [50%N; 51%N] (Call (Prim PIntMul) (ECons (Ident 50%N) (ECons (Ident 51%N) ENil))) CNil)
 (Ident 49%N)) (ECons (LetRec (CCons 52%N [53%N; 54%N] (Call (Prim PIntDiv) (ECons (Ident 53%N) (ECons (Ident 54%N) ENil))) CNil)
 (Ident 52%N)) ENil)))))
 (LetRec (CCons 55%N [56%N] (Match (Ident 56%N) (ACons (PRec [(39%N, 57%N)]) (Ident 57%N) ANil)) CNil)
 (LetRec (CCons 58%N [59%N] (Match (Ident 59%N) (ACons (PRec [(40%N, 60%N)]) (Ident 60%N) ANil)) CNil)
 (LetRec (CCons 61%N [62%N] (Match (Ident 62%N) (ACons (PRec [(41%N, 63%N)]) (Ident 63%N) ANil)) CNil)
 (LetRec (CCons 64%N [65%N] (Match (Ident 65%N) (ACons (PRec [(42%N, 66%N)]) (Ident 66%N) ANil)) CNil)
 (Rec [39%N; 40%N; 41%N; 42%N; 67%N] (ECons (Ident 55%N) (ECons (Ident 58%N) (ECons (Ident 61%N) (ECons (Ident 64%N) (ECons (Ident 38%N) ENil))))))))))).
Definition tests_optimize_inline_through_module2_on : cexpr :=
 (Let 38%N (Rec [39%N; 40%N; 41%N; 42%N] (ECons (LetRec (CCons 43%N [44%N; 45%N] (Call (Prim PIntAdd) (ECons (Ident 44%N) (ECons (Ident 45%N) ENil))) CNil)
 (Ident 43%N)) (ECons (LetRec (CCons 46%N [47%N; 48%N] (Call (Prim PIntSub) (ECons (Ident 47%N) (ECons (Ident 48%N) ENil))) CNil)
 (Ident 46%N)) (ECons (LetRec (CCons 49%N [50%N; 51%N] (Call (Prim PIntMul) (ECons (Ident 50%N) (ECons (Ident 51%N) ENil))) CNil)
 (Ident 49%N)) (ECons (LetRec (CCons 52%N [53%N; 54%N] (Call (Prim PIntDiv) (ECons (Ident 53%N) (ECons (Ident 54%N) ENil))) CNil)
 (Ident 52%N)) ENil)))))
 (LetRec (CCons 55%N [56%N] (Match (Ident 56%N) (ACons (PRec [(39%N, 57%N)]) (Ident 57%N) ANil)) CNil)
 (LetRec (CCons 58%N [59%N] (Match (Ident 59%N) (ACons (PRec [(40%N, 60%N)]) (Ident 60%N) ANil)) CNil)
 (LetRec (CCons 61%N [62%N] (Match (Ident 62%N) (ACons (PRec [(41%N, 63%N)]) (Ident 63%N) ANil)) CNil)
 (LetRec (CCons 64%N [65%N] (Match (Ident 65%N) (ACons (PRec [(42%N, 66%N)]) (Ident 66%N) ANil)) CNil)
 (Rec [39%N; 40%N; 41%N; 42%N; 67%N] (ECons (Ident 55%N) (ECons (Ident 58%N) (ECons (Ident 61%N) (ECons (Ident 64%N) (ECons (Ident 38%N) ENil))))))))))).
Example accepts_tests_optimize_inline_through_module2 : valid_opt tests_optimize_inline_through_module2_off tests_optimize_inline_through_module2_on = true.
Proof. vm_compute. reflexivity. Qed.

(* ---- recursive values: `rec let r = { f = \x -> s.n, n = <n> }  let s = { n = 7 } in ..` ---- *)
(* names: 60 = r, 61 = s, 62 = field f, 63 = field n, 64 = x, 65/66 = pattern binders *)
Definition rec_values (n_of_r : cexpr) (body : cexpr) : cexpr :=
  LetRec (CCons 60%N [] (Rec [62; 63]%N
                           (ECons (LetRec (CCons 70%N [64%N] (proj 61%N 63%N 65%N) CNil) (Ident 70%N))
                           (ECons n_of_r ENil)))
         (CCons 61%N [] (Rec [63%N] (ECons (Const (LInt 7)) ENil)) CNil))
         body.

(* the members close over each other: r.f reads s.n although s is made after r *)
Example recursive_values_evaluate :
  eval_core fop0 fcmp0 3 [] (rec_values (Const (LInt 1)) (Call (proj 60%N 62%N 66%N) (ECons (Const (LInt 0)) ENil)))
  = (Val (VInt 7), []).
Proof. vm_compute. reflexivity. Qed.

(* an unused group of pure recursive values may go (R2) ... *)
Example accepts_dropped_pure_recursive_values :
  valid_opt (rec_values (Const (LInt 1)) (Const (LInt 0))) (Const (LInt 0)) = true.
Proof. vm_compute. reflexivity. Qed.

(* ... but not when making a member calls something: the call happens when the group is made *)
Definition env_eff4 : env := [(4%N, VHost HEff)].
Example rejects_dropped_effectful_recursive_value :
  valid_opt (rec_values (Call (Ident 4%N) (ECons (Const (LInt 5)) ENil)) (Const (LInt 0))) (Const (LInt 0)) = false
  /\ eval_core fop0 fcmp0 2 env_eff4 (rec_values (Call (Ident 4%N) (ECons (Const (LInt 5)) ENil)) (Const (LInt 0)))
     = (Val (VInt 0), [5%Z])
  /\ eval_core fop0 fcmp0 2 env_eff4 (Const (LInt 0)) = (Val (VInt 0), []).
Proof. repeat split; vm_compute; reflexivity. Qed.
