(* Type soundness of MiniGluon (property C02): a program that [has_type] never reaches the
   [Stuck] outcome of the reference semantics (Lang/Eval.v) — the model of the VM's dynamic
   shape complaints "Cannot call", "GetOffset on", "TestTag", missing field — and a value it
   returns passes [check_shape] at the program's type.

   Proof style: fuel-indexed big-step safety.  Induction on the fuel; every recursive call of
   [eval_step] is on the evaluator one unit down, so inversion of the typing derivation is all
   that is needed for expressions; [apply] is handled by an inner induction on its own fuel;
   patterns by mutual induction on the pattern typing. *)
From Coq Require Import List ZArith NArith Bool Lia.
From GV Require Import Lang.Syntax Lang.Eval Lang.Types.
Import ListNotations.

Scheme vtyp_mind := Minimality for vtyp Sort Prop
  with vstyp_mind := Minimality for vstyp Sort Prop
  with fstyp_mind := Minimality for fstyp Sort Prop
  with vall_mind := Minimality for vall Sort Prop
  with env_typ_mind := Minimality for env_typ Sort Prop.
Combined Scheme vtyp_mutind from vtyp_mind, vstyp_mind, fstyp_mind, vall_mind, env_typ_mind.

Scheme pat_typ_mind := Minimality for pat_typ Sort Prop
  with pats_typ_mind := Minimality for pats_typ Sort Prop
  with fpats_typ_mind := Minimality for fpats_typ Sort Prop.
Combined Scheme pat_typ_mutind from pat_typ_mind, pats_typ_mind, fpats_typ_mind.

(* ---------------------------------------------------------------- arrows *)
Lemma arrows_app : forall ts1 ts2 r, arrows (ts1 ++ ts2) r = arrows ts1 (arrows ts2 r).
Proof. induction ts1; intros; simpl; [reflexivity | now rewrite IHts1]. Qed.

Lemma arrows_split : forall ts1 t1 ts2 t2,
  arrows ts1 t1 = arrows ts2 t2 -> length ts1 <= length ts2 ->
  exists rest, ts2 = ts1 ++ rest /\ t1 = arrows rest t2.
Proof.
  induction ts1 as [|a ts1 IH]; intros t1 ts2 t2 E L.
  - exists ts2. simpl in *. auto.
  - destruct ts2 as [|b ts2]; simpl in L; [lia|].
    simpl in E. injection E as Eab E.
    destruct (IH _ _ _ E) as [rest [E1 E2]]; [lia|].
    exists rest. subst. auto.
Qed.

(* ---------------------------------------------------------------- list typings *)
Lemma vstyp_length : forall D vs ts, vstyp D vs ts -> length vs = length ts.
Proof. induction 1; simpl; congruence. Qed.

Lemma vstyp_app : forall D vs1 ts1, vstyp D vs1 ts1 ->
  forall vs2 ts2, vstyp D vs2 ts2 -> vstyp D (vs1 ++ vs2) (ts1 ++ ts2).
Proof. induction 1; intros; simpl; [assumption | constructor; auto]. Qed.

Lemma vstyp_split : forall D ts1 vs ts2, vstyp D vs (ts1 ++ ts2) ->
  vstyp D (firstn (length ts1) vs) ts1 /\ vstyp D (skipn (length ts1) vs) ts2.
Proof.
  induction ts1 as [|t ts1 IH]; intros vs ts2 H; simpl in *.
  - split; [constructor | assumption].
  - inversion H; subst. destruct (IH _ _ H4). split; [constructor|]; assumption.
Qed.

Lemma fstyp_app : forall D fs1 ts1, fstyp D fs1 ts1 ->
  forall fs2 ts2, fstyp D fs2 ts2 -> fstyp D (fs1 ++ fs2) (ts1 ++ ts2).
Proof. induction 1; intros; simpl; [assumption | constructor; auto]. Qed.

Lemma fstyp_assoc : forall D fs fts, fstyp D fs fts ->
  forall l, match assoc l fts with
            | Some t => exists v, assoc l fs = Some v /\ vtyp D v t
            | None => assoc l fs = None
            end.
Proof.
  induction 1; intros k; simpl; [reflexivity|].
  destruct (N.eqb k l); [eauto | apply IHfstyp].
Qed.

Lemma env_typ_app : forall D r1 G1, env_typ D r1 G1 ->
  forall r2 G2, env_typ D r2 G2 -> env_typ D (r1 ++ r2) (G1 ++ G2).
Proof. induction 1; intros; simpl; [assumption | constructor; auto]. Qed.

Lemma env_typ_lookup : forall D r G, env_typ D r G ->
  forall x S, assoc x G = Some S -> exists v, lookup r x = Some v /\ forall t, S t -> vtyp D v t.
Proof.
  induction 1; intros y S0 E; simpl in *; [discriminate|].
  destruct (N.eqb y x).
  - injection E as <-. eauto.
  - eauto.
Qed.

(* bindings of a pattern (monomorphic) as an environment typing *)
Lemma fstyp_env : forall D b B, fstyp D b B -> env_typ D b (mono_env B).
Proof.
  induction 1; simpl; constructor; auto.
  intros t' <-. assumption.
Qed.

Lemma bind_params_typ : forall D xs vs ts r G,
  vstyp D vs ts -> env_typ D r G -> env_typ D (bind_params xs vs r) (bind_tparams xs ts G).
Proof.
  induction xs as [|x xs IH]; intros vs ts r G Hv He; simpl; [assumption|].
  inversion Hv; subst; [assumption|].
  apply IH; [assumption|]. constructor; [|assumption].
  intros t' <-. assumption.
Qed.

Lemma number_fields_typ : forall D vs ts, vstyp D vs ts ->
  forall i, fstyp D (number_fields i vs) (number_tfields i ts).
Proof. induction 1; intros; simpl; constructor; auto. Qed.

(* ---------------------------------------------------------------- record update *)
Lemma rcd_update_upd : forall fs base, rcd_update fs base = upd fs base.
Proof. reflexivity. Qed.

Lemma fstyp_has_field : forall D fs fts, fstyp D fs fts ->
  forall l, @has_field value l fs = @has_field ty l fts.
Proof.
  intros D fs fts H l. unfold has_field.
  pose proof (fstyp_assoc _ _ _ H l) as A.
  destruct (assoc l fts).
  - destruct A as [v [-> _]]. reflexivity.
  - now rewrite A.
Qed.

Lemma upd_typ : forall D vs fts bvs bts,
  fstyp D vs fts -> fstyp D bvs bts -> fstyp D (upd vs bvs) (upd fts bts).
Proof.
  intros D vs fts bvs bts Hf Hb. unfold upd. apply fstyp_app.
  - clear - Hf Hb. induction Hf; simpl; [constructor|].
    rewrite (fstyp_has_field _ _ _ Hb l).
    destruct (negb (has_field l bts)); [constructor|]; assumption.
  - clear - Hf Hb. induction Hb; simpl; [constructor|].
    pose proof (fstyp_assoc _ _ _ Hf l) as A.
    destruct (assoc l fts).
    + destruct A as [w [-> Hw]]. constructor; assumption.
    + rewrite A. constructor; assumption.
Qed.

(* a closure cannot have a non-function type: discharges the VT_Clo case of an inversion at a
   type that is not an arrow *)
Ltac kill_clo :=
  try (exfalso;
       match goal with
       | HE : _ = arrows ?ts _, HL : length ?xs = length ?ts, HN : ?xs <> [] |- _ =>
           destruct ts; [destruct xs; [congruence | discriminate] | simpl in HE; discriminate]
       end).
Ltac inv_vtyp H := inversion H; subst; kill_clo.

Lemma vtyp_int_inv : forall D v, vtyp D v TInt -> exists z, v = VInt z.
Proof. intros D v H. inv_vtyp H. eauto. Qed.
Lemma vtyp_byte_inv : forall D v, vtyp D v TByte -> exists z, v = VByte z.
Proof. intros D v H. inv_vtyp H. eauto. Qed.
Lemma vtyp_rcd_inv : forall D v fts, vtyp D v (TRcd fts) -> exists fs, v = VRcd fs /\ fstyp D fs fts.
Proof. intros D v fts H. inv_vtyp H. eauto. Qed.
Lemma vtyp_arr_inv : forall D v t, vtyp D v (TArr t) -> exists vs, v = VArr vs /\ vall D vs t.
Proof. intros D v t H. inv_vtyp H. eauto. Qed.
Lemma vtyp_data_inv : forall D v d targs, vtyp D v (TData d targs) ->
  exists tag vs cts, v = VData tag vs /\ ctor_args D d targs tag = Some cts /\ vstyp D vs cts.
Proof. intros D v d targs H. inv_vtyp H. eauto 6. Qed.

(* ---------------------------------------------------------------- booleans *)
Lemma vtyp_bool : forall D v, decls_ok D -> vtyp D v tbool -> exists b, as_bool v = Some b.
Proof.
  intros D v HD H. apply vtyp_data_inv in H. destruct H as [tag [vs [cts [-> [HC HV]]]]].
  unfold ctor_args in HC; rewrite HD in HC; unfold bool_decl in HC.
  destruct (N.to_nat tag) as [|[|k]] eqn:E; simpl in HC.
  - injection HC as <-; inversion HV; subst; assert (tag = 0%N) by lia; subst; simpl; eauto.
  - injection HC as <-; inversion HV; subst; assert (tag = 1%N) by lia; subst; simpl; eauto.
  - destruct k; discriminate.
Qed.

Lemma vbool_typ : forall D b, decls_ok D -> vtyp D (vbool b) tbool.
Proof.
  intros D b HD. unfold vbool, tbool.
  apply VT_Data with (cts := []); [|constructor].
  unfold ctor_args. rewrite HD. destruct b; reflexivity.
Qed.

(* ---------------------------------------------------------------- the outcome predicate *)
(* what safety asks of one run: never Stuck, and a returned value satisfies [P] *)
Definition mres {A} (P : A -> Prop) (x : res A * log) : Prop :=
  match fst x with
  | Ok a => P a
  | Stuck => False
  | _ => True
  end.

Lemma mres_bind : forall A B (m : M A) (f : A -> M B) (P : A -> Prop) (Q : B -> Prop) l,
  mres P (m l) -> (forall a l', P a -> mres Q (f a l')) -> mres Q (bind m f l).
Proof.
  intros A B m f P Q l Hm Hf. unfold bind, mres in *.
  destruct (m l) as [[a|e| |] l1]; simpl in *; [apply Hf; exact Hm | exact I | contradiction | exact I].
Qed.

Lemma mres_ret : forall A (P : A -> Prop) a l, P a -> mres P (ret a l).
Proof. intros. exact H. Qed.

Lemma mres_weaken : forall A (P Q : A -> Prop) x, mres P x -> (forall a, P a -> Q a) -> mres Q x.
Proof. intros A P Q [[a|e| |] l] H HPQ; unfold mres in *; simpl in *; auto. Qed.

(* ---------------------------------------------------------------- primitives *)
Lemma check_int_ok : forall D z l, mres (fun v => vtyp D v TInt) (check_int z l).
Proof. intros. unfold check_int. destruct (_ && _); simpl; constructor. Qed.
Lemma check_byte_ok : forall D z l, mres (fun v => vtyp D v TByte) (check_byte z l).
Proof. intros. unfold check_byte. destruct (_ && _); simpl; constructor. Qed.

Lemma prim_apply_ok : forall D op a b l, decls_ok D ->
  vtyp D a (prim_arg op) -> vtyp D b (prim_arg op) ->
  mres (fun v => vtyp D v (prim_res op)) (prim_apply op a b l).
Proof.
  intros D op a b l HD Ha Hb.
  destruct op; simpl in *;
    first [ apply vtyp_int_inv in Ha; apply vtyp_int_inv in Hb
          | apply vtyp_byte_inv in Ha; apply vtyp_byte_inv in Hb ];
    destruct Ha as [x ->]; destruct Hb as [y ->]; simpl;
    try apply check_int_ok; try apply check_byte_ok;
    try (destruct (Z.eqb _ 0); [exact I | try apply check_int_ok; try apply check_byte_ok]);
    try (apply vbool_typ; assumption).
Qed.

(* ---------------------------------------------------------------- patterns *)
(* the local fixpoints of Eval.pmatch, named *)
Definition pmatch_list (pm : pat -> value -> option env) :=
  fix go (ps : list pat) (vs : list value) {struct ps} : option env :=
    match ps, vs with
    | [], [] => Some []
    | q :: ps', w :: vs' =>
        match pm q w with
        | Some b1 => match go ps' vs' with Some b2 => Some (b2 ++ b1) | None => None end
        | None => None
        end
    | _, _ => None
    end.

Definition pmatch_tup (pm : pat -> value -> option env) :=
  fix go (ps : list pat) (vs : list (name * value)) {struct ps} : option env :=
    match ps, vs with
    | [], [] => Some []
    | q :: ps', w :: vs' =>
        match pm q (snd w) with
        | Some b1 => match go ps' vs' with Some b2 => Some (b2 ++ b1) | None => None end
        | None => None
        end
    | _, _ => None
    end.

Definition pmatch_flds (pm : pat -> value -> option env) (fs : list (name * value)) :=
  fix go (pfs : list (name * pat)) {struct pfs} : option env :=
    match pfs with
    | [] => Some []
    | lq :: pfs' =>
        match assoc (fst lq) fs with
        | Some w =>
            match pm (snd lq) w with
            | Some b1 => match go pfs' with Some b2 => Some (b2 ++ b1) | None => None end
            | None => None
            end
        | None => None
        end
    end.

Lemma pmatch_con_eq : forall tag ps v,
  pmatch (PCon tag ps) v =
  match v with
  | VData t vs => if N.eqb tag t then pmatch_list pmatch ps vs else None
  | _ => None
  end.
Proof. reflexivity. Qed.
Lemma pmatch_tup_eq : forall ps v,
  pmatch (PTup ps) v = match v with VRcd fs => pmatch_tup pmatch ps fs | _ => None end.
Proof. reflexivity. Qed.
Lemma pmatch_rcd_eq : forall pfs v,
  pmatch (PRcd pfs) v = match v with VRcd fs => pmatch_flds pmatch fs pfs | _ => None end.
Proof. reflexivity. Qed.

Lemma pmatch_typ_all : forall D,
  (forall p t B, pat_typ D p t B ->
     forall v b, vtyp D v t -> pmatch p v = Some b -> fstyp D b B) /\
  (forall ps ts B, pats_typ D ps ts B ->
     (forall vs b, vstyp D vs ts -> pmatch_list pmatch ps vs = Some b -> fstyp D b B) /\
     (forall fs fts b, fstyp D fs fts -> map snd fts = ts ->
                       pmatch_tup pmatch ps fs = Some b -> fstyp D b B)) /\
  (forall pfs fts B, fpats_typ D pfs fts B ->
     forall fs b, fstyp D fs fts -> pmatch_flds pmatch fs pfs = Some b -> fstyp D b B).
Proof.
  intros D. apply pat_typ_mutind.
  - (* wild *) intros t v b _ E. injection E as <-. constructor.
  - (* var *) intros x t v b Hv E. injection E as <-. constructor; [assumption | constructor].
  - (* lit *) intros l v b _ E. simpl in E. destruct (lit_matches l v); [|discriminate].
    injection E as <-. constructor.
  - (* as *) intros x q t B _ IH v b Hv E. simpl in E.
    destruct (pmatch q v) as [b0|] eqn:E0; [|discriminate]. injection E as <-.
    apply fstyp_app; [eauto|]. constructor; [assumption | constructor].
  - (* con *) intros tag ps d targs cts B HC _ [IH _] v b Hv E.
    rewrite pmatch_con_eq in E.
    apply vtyp_data_inv in Hv. destruct Hv as [tag' [vs [cts' [-> [HC' Hvs]]]]].
    destruct (N.eqb tag tag') eqn:Et; [|discriminate].
    apply N.eqb_eq in Et. subst tag'. rewrite HC in HC'. injection HC' as <-. eauto.
  - (* tup *) intros ps fts B _ [_ IH] v b Hv E.
    rewrite pmatch_tup_eq in E.
    apply vtyp_rcd_inv in Hv. destruct Hv as [fs [-> Hfs]]. eauto.
  - (* rcd *) intros pfs fts B _ IH v b Hv E.
    rewrite pmatch_rcd_eq in E.
    apply vtyp_rcd_inv in Hv. destruct Hv as [fs [-> Hfs]]. eauto.
  - (* nil *) split.
    + intros vs b Hvs E. inversion Hvs; subst. injection E as <-. constructor.
    + intros fs fts b Hfs Em E. destruct fts; [|discriminate]. inversion Hfs; subst.
      injection E as <-. constructor.
  - (* cons *) intros q ps t ts B1 B2 _ IHq _ [IHl IHt]. split.
    + intros vs b Hvs E. inversion Hvs; subst. simpl in E.
      destruct (pmatch q v) as [b1|] eqn:E1; [|discriminate].
      destruct (pmatch_list pmatch ps vs0) as [b2|] eqn:E2; [|discriminate].
      injection E as <-. apply fstyp_app; eauto.
    + intros fs fts b Hfs Em E. destruct fts as [|[l0 t0] fts]; [discriminate|].
      simpl in Em. injection Em as -> Em. inversion Hfs; subst. simpl in E.
      destruct (pmatch q v) as [b1|] eqn:E1; [|discriminate].
      destruct (pmatch_tup pmatch ps fs0) as [b2|] eqn:E2; [|discriminate].
      injection E as <-. apply fstyp_app; eauto.
  - (* fnil *) intros fts fs b _ E. injection E as <-. constructor.
  - (* fcons *) intros l q pfs fts t B1 B2 Hl _ IHq _ IHr fs b Hfs E. simpl in E.
    pose proof (fstyp_assoc _ _ _ Hfs l) as A. rewrite Hl in A. destruct A as [w [Ew Hw]].
    rewrite Ew in E.
    destruct (pmatch q w) as [b1|] eqn:E1; [|discriminate].
    destruct (pmatch_flds pmatch fs pfs) as [b2|] eqn:E2; [|discriminate].
    injection E as <-. apply fstyp_app; eauto.
Qed.

Lemma pmatch_typ : forall D p t B v b,
  pat_typ D p t B -> vtyp D v t -> pmatch p v = Some b -> env_typ D b (mono_env B).
Proof. intros. apply fstyp_env. eapply (proj1 (pmatch_typ_all D)); eauto. Qed.

(* ---------------------------------------------------------------- lists of expressions *)
(* the induction hypothesis: the evaluator one fuel unit down is safe *)
Definition ev_ok (D : decls) (ev : env -> expr -> M value) : Prop :=
  forall G e t r l, has_type D G e t -> env_typ D r G -> mres (fun v => vtyp D v t) (ev r e l).

Lemma eval_list_ok : forall D ev G r, ev_ok D ev -> env_typ D r G ->
  forall es ts, Forall2 (has_type D G) es ts ->
  forall l, mres (fun vs => vstyp D vs ts) (eval_list ev r es l).
Proof.
  intros D ev G r Hev Hr. unfold ev_ok in Hev. induction 1 as [|e t es ts He _ IH]; intros l; simpl.
  - constructor.
  - eapply mres_bind; [eapply Hev; eassumption|]. intros v l1 Hv.
    eapply mres_bind; [apply IH|]. intros vs l2 Hvs. constructor; assumption.
Qed.

Lemma eval_all_ok : forall D ev G r t, ev_ok D ev -> env_typ D r G ->
  forall es, Forall (fun e => has_type D G e t) es ->
  forall l, mres (fun vs => vall D vs t) (eval_list ev r es l).
Proof.
  intros D ev G r t Hev Hr. unfold ev_ok in Hev. induction 1 as [|e es He _ IH]; intros l; simpl.
  - constructor.
  - eapply mres_bind; [eapply Hev; eassumption|]. intros v l1 Hv.
    eapply mres_bind; [apply IH|]. intros vs l2 Hvs. constructor; assumption.
Qed.

Lemma eval_fields_ok : forall D ev G r, ev_ok D ev -> env_typ D r G ->
  forall fs fts, Forall2 (fun f ft => fst f = fst ft /\ has_type D G (snd f) (snd ft)) fs fts ->
  forall l, mres (fun vs => fstyp D vs fts) (eval_fields ev r fs l).
Proof.
  intros D ev G r Hev Hr. unfold ev_ok in Hev. induction 1 as [|[k e] [k' t] fs fts [Hk He] _ IH]; intros l; simpl in *.
  - constructor.
  - subst k'. eapply mres_bind; [eapply Hev; eassumption|]. intros v l1 Hv.
    eapply mres_bind; [apply IH|]. intros vs l2 Hvs. constructor; assumption.
Qed.

Lemma vall_nth : forall D vs t, vall D vs t -> forall i x, nth_error vs i = Some x -> vtyp D x t.
Proof.
  induction 1; intros i x E; destruct i; simpl in E; try discriminate.
  - injection E as <-. assumption.
  - eauto.
Qed.

(* ---------------------------------------------------------------- rec groups *)
Definition mk_clo (r : env) (g : recs) (b : name * (list name * expr)) : name * value :=
  (fst b, VClo r g (fst (snd b)) (snd (snd b))).

Lemma bind_recs_eq : forall r g, bind_recs r g = map (mk_clo r g) g ++ r.
Proof. reflexivity. Qed.

Lemma Forall2_nth : forall A B (R : A -> B -> Prop) l1 l2, Forall2 R l1 l2 ->
  forall i a b, nth_error l1 i = Some a -> nth_error l2 i = Some b -> R a b.
Proof.
  induction 1; intros i a b Ea Eb; destruct i; simpl in *; try discriminate.
  - injection Ea as <-. injection Eb as <-. assumption.
  - eauto.
Qed.

Lemma clo_typ : forall D r G g Gg b f t,
  env_typ D r G -> Forall2 (rec_ok (has_type D) (mono_env Gg ++ G)) g Gg ->
  rec_ok (has_type D) (mono_env Gg ++ G) b (f, t) ->
  vtyp D (VClo r g (fst (snd b)) (snd (snd b))) t.
Proof.
  intros D r G g Gg b f t Hr Hg [_ [ts [tr [Et [Hn [Hl Hb]]]]]]. simpl in Et.
  eapply VT_Clo; eauto.
Qed.

(* the group's closures at one coherent monomorphic typing *)
Lemma bind_recs_mono : forall D r G g Gg,
  env_typ D r G -> Forall2 (rec_ok (has_type D) (mono_env Gg ++ G)) g Gg ->
  env_typ D (bind_recs r g) (mono_env Gg ++ G).
Proof.
  intros D r G g Gg Hr Hg. rewrite bind_recs_eq. apply env_typ_app; [|assumption].
  assert (forall g' Gg', Forall2 (rec_ok (has_type D) (mono_env Gg ++ G)) g' Gg' ->
                         env_typ D (map (mk_clo r g) g') (mono_env Gg')) as K.
  { induction 1 as [|b [f t] g' Gg' Hb _ IH]; simpl; [constructor|].
    pose proof Hb as [Ef _]. simpl in Ef. unfold mk_clo at 1. rewrite Ef.
    constructor; [|assumption].
    intros t' <-. eapply clo_typ; eauto. }
  apply K. assumption.
Qed.

(* … and at the schemes the body of the `rec` sees *)
Lemma bind_recs_poly : forall D r G g (Gs : list (name * ty) -> Prop),
  env_typ D r G ->
  (forall Gg, Gs Gg -> Forall2 (rec_ok (has_type D) (mono_env Gg ++ G)) g Gg) ->
  env_typ D (bind_recs r g) (rec_schemes Gs g 0 ++ G).
Proof.
  intros D r G g Gs Hr Hg. rewrite bind_recs_eq. apply env_typ_app; [|assumption].
  assert (forall g' i, (forall j b, nth_error g' j = Some b -> nth_error g (i + j) = Some b) ->
                       env_typ D (map (mk_clo r g) g') (rec_schemes Gs g' i)) as K.
  { induction g' as [|b g' IH]; intros i Hsub; simpl; [constructor|]. unfold mk_clo at 1. constructor.
    - intros t [Gg [HG En]].
      pose proof (Hsub 0 b eq_refl) as Eb. rewrite Nat.add_0_r in Eb.
      apply (clo_typ D r G g Gg b (fst b) t Hr (Hg _ HG)).
      eapply Forall2_nth; [apply Hg; exact HG | exact Eb | exact En].
    - apply IH. intros j b' E. replace (S i + j) with (i + S j) by lia. apply Hsub. exact E. }
  apply K. intros j b E. exact E.
Qed.

(* ---------------------------------------------------------------- application *)
Lemma apply_ok : forall D ev, ev_ok D ev ->
  forall k f args ts t l, vtyp D f (arrows ts t) -> vstyp D args ts ->
  mres (fun v => vtyp D v t) (apply ev k f args l).
Proof.
  intros D ev Hev. pose proof Hev as Hev'. unfold ev_ok in Hev. induction k as [|k IH]; intros f args ts t l Hf Ha.
  - destruct args; simpl; [|exact I]. inversion Ha; subst. exact Hf.
  - destruct args as [|a args]; simpl.
    { inversion Ha; subst. exact Hf. }
    inversion Ha as [|a' args' t0 ts' Hva Hargs]; subst. simpl in Hf.
    inversion Hf as [ | | | | | | | | r g xs body G Gg ts1 tr tf Etf Hr Hg Hxs Hlen Hbody
                     | f0 args0 ts0 a0 r0 Hf0 Hargs0 ]; subst.
    + (* closure *)
      simpl. destruct (Nat.ltb (S (length args)) (length xs)) eqn:Elt.
      * apply Nat.ltb_lt in Elt.
        change (TFun t0 (arrows ts' t)) with (arrows (t0 :: ts') t) in Etf.
        pose proof (vstyp_length _ _ _ Ha) as La. simpl length in *.
        destruct (arrows_split _ _ _ _ Etf) as [rest [E1 E2]]; [simpl length; lia|].
        destruct rest as [|r0 rest].
        { rewrite app_nil_r in E1. subst ts1. simpl length in *. lia. }
        subst t. simpl. eapply VT_Pap with (ts := t0 :: ts'); [|exact Ha].
        exact Hf.
      * apply Nat.ltb_ge in Elt.
        change (TFun t0 (arrows ts' t)) with (arrows (t0 :: ts') t) in Etf.
        pose proof (vstyp_length _ _ _ Ha) as La. symmetry in Etf. simpl length in *.
        destruct (arrows_split _ _ _ _ Etf) as [rest [E1 E2]]; [simpl length; lia|].
        rewrite E1 in Ha. apply vstyp_split in Ha. destruct Ha as [Ha1 Ha2].
        rewrite Hlen.
        eapply mres_bind.
        { apply Hev with (G := bind_tparams xs ts1 (mono_env Gg ++ G)) (t := tr); [assumption|].
          apply bind_params_typ; [assumption|]. apply bind_recs_mono; assumption. }
        intros res l1 Hres. subst tr. eapply IH; eassumption.
    + (* partial application *)
      eapply IH with (ts := ts0 ++ t0 :: ts').
      * rewrite arrows_app. exact Hf0.
      * apply vstyp_app; assumption.
Qed.

(* ---------------------------------------------------------------- match *)
Lemma first_match_typ : forall D G ts t alts v b e,
  Forall (fun alt => exists B, pat_typ D (fst alt) ts B /\ has_type D (mono_env B ++ G) (snd alt) t) alts ->
  vtyp D v ts -> first_match v alts = Some (b, e) ->
  exists B, env_typ D b (mono_env B) /\ has_type D (mono_env B ++ G) e t.
Proof.
  intros D G ts t alts v b e H Hv. induction H as [|[p e0] alts [B [Hp He]] _ IH]; simpl; [discriminate|].
  simpl in *. destruct (pmatch p v) as [b0|] eqn:E.
  - intros E'. injection E' as <- <-. exists B. split; [|assumption]. eapply pmatch_typ; eauto.
  - assumption.
Qed.

(* ---------------------------------------------------------------- the main induction *)
Theorem eval_safe : forall D, decls_ok D -> forall n, ev_ok D (eval n).
Proof.
  intros D HD. induction n as [|n IH]; unfold ev_ok; intros G e t r l Ht Hr; [exact I|].
  pose proof IH as IH'. unfold ev_ok in IH.
  simpl. inversion Ht; subst; simpl.
  - (* lit *) destruct l0; constructor.
  - (* var *)
    destruct (env_typ_lookup _ _ _ Hr _ _ H) as [v [E Hv]]. rewrite E. apply Hv. assumption.
  - (* lam *)
    destruct xs as [|x xs]; [congruence|].
    eapply VT_Clo with (Gg := []) (G := G); eauto.
  - (* app *)
    eapply mres_bind; [eapply IH; eassumption|]. intros fv l1 Hfv.
    eapply mres_bind; [eapply eval_list_ok; try exact IH'; eassumption|]. intros vs l2 Hvs.
    eapply apply_ok; try exact IH'; eassumption.
  - (* let, pattern *)
    eapply mres_bind; [eapply IH; eassumption|]. intros v l1 Hv.
    destruct (pmatch p v) as [b|] eqn:E; [|exact I].
    eapply IH; [eassumption|]. apply env_typ_app; [|assumption]. eapply pmatch_typ; eauto.
  - (* let, generalising *)
    destruct H as [t1 Ht1].
    eapply mres_bind with (P := fun v => forall t1, S t1 -> vtyp D v t1).
    + pose proof (IH _ _ _ _ l (H0 _ Ht1) Hr) as K1. unfold mres in *.
      destruct (eval n r e1 l) as [[v|err| |] l1] eqn:E; simpl in *; auto.
      intros t2 Ht2. pose proof (IH _ _ _ _ l (H0 _ Ht2) Hr) as K2.
      unfold mres in K2. rewrite E in K2. exact K2.
    + intros v l1 Hv. simpl. eapply IH; [eassumption|]. constructor; assumption.
  - (* rec *)
    eapply IH; [eassumption|]. apply bind_recs_poly; assumption.
  - (* if *)
    eapply mres_bind; [eapply IH; eassumption|]. intros v l1 Hv.
    destruct (vtyp_bool _ _ HD Hv) as [[|] ->]; eapply IH; eassumption.
  - (* prim *)
    eapply mres_bind; [eapply IH; eassumption|]. intros x l1 Hx.
    eapply mres_bind; [eapply IH; eassumption|]. intros y l2 Hy.
    apply prim_apply_ok; assumption.
  - (* and *)
    eapply mres_bind; [eapply IH; eassumption|]. intros v l1 Hv.
    destruct (vtyp_bool _ _ HD Hv) as [[|] ->]; [eapply IH; eassumption|].
    apply vbool_typ; assumption.
  - (* or *)
    eapply mres_bind; [eapply IH; eassumption|]. intros v l1 Hv.
    destruct (vtyp_bool _ _ HD Hv) as [[|] ->]; [|eapply IH; eassumption].
    apply vbool_typ; assumption.
  - (* record *)
    eapply mres_bind; [eapply eval_fields_ok; try exact IH'; eassumption|]. intros vs l1 Hvs.
    constructor; assumption.
  - (* record update *)
    eapply mres_bind; [eapply eval_fields_ok; try exact IH'; eassumption|]. intros vs l1 Hvs.
    eapply mres_bind; [eapply IH; eassumption|]. intros bv l2 Hbv.
    apply vtyp_rcd_inv in Hbv. destruct Hbv as [bfs [-> Hb]].
    constructor. rewrite rcd_update_upd. apply upd_typ; assumption.
  - (* projection *)
    eapply mres_bind; [eapply IH; eassumption|]. intros v l1 Hv.
    apply vtyp_rcd_inv in Hv. destruct Hv as [fs [-> Hfs]].
    pose proof (fstyp_assoc _ _ _ Hfs l0) as A. rewrite H0 in A.
    destruct A as [x [-> Hx]]. exact Hx.
  - (* tuple *)
    eapply mres_bind; [eapply eval_list_ok; try exact IH'; eassumption|]. intros vs l1 Hvs.
    constructor. apply number_fields_typ; assumption.
  - (* constructor *)
    eapply mres_bind; [eapply eval_list_ok; try exact IH'; eassumption|]. intros vs l1 Hvs.
    econstructor; eassumption.
  - (* array *)
    eapply mres_bind; [eapply eval_all_ok; try exact IH'; eassumption|]. intros vs l1 Hvs.
    constructor; assumption.
  - (* index *)
    eapply mres_bind; [eapply IH; eassumption|]. intros av l1 Hav.
    eapply mres_bind; [eapply IH; eassumption|]. intros iv l2 Hiv.
    apply vtyp_arr_inv in Hav. destruct Hav as [vs [-> Hvs]].
    apply vtyp_int_inv in Hiv. destruct Hiv as [z ->].
    destruct (Z.leb 0 z && Z.ltb z (Z.of_nat (length vs)))%bool eqn:Eb; [|exact I].
    apply andb_true_iff in Eb. destruct Eb as [E1 E2].
    apply Z.leb_le in E1. apply Z.ltb_lt in E2.
    destruct (nth_error vs (Z.to_nat z)) as [x|] eqn:En.
    + eapply vall_nth; eauto.
    + apply nth_error_None in En. lia.
  - (* length *)
    eapply mres_bind; [eapply IH; eassumption|]. intros av l1 Hav.
    apply vtyp_arr_inv in Hav. destruct Hav as [vs [-> Hvs]]. constructor.
  - (* match *)
    eapply mres_bind; [eapply IH; eassumption|]. intros v l1 Hv.
    destruct (first_match v alts) as [[b e']|] eqn:E; [|exact I].
    destruct (first_match_typ _ _ _ _ _ _ _ _ H0 Hv E) as [B [Hb He]].
    eapply IH; [eassumption|]. apply env_typ_app; assumption.
  - (* seq *)
    eapply mres_bind; [eapply IH; eassumption|]. intros v l1 Hv.
    eapply IH; eassumption.
  - (* error *) exact I.
  - (* eff *)
    eapply mres_bind; [eapply IH; eassumption|]. intros v l1 Hv.
    apply vtyp_int_inv in Hv. destruct Hv as [z ->]. constructor.
  - (* annotation *) eapply IH; eassumption.
Qed.
