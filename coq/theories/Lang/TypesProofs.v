(* Type soundness of MiniGluon (property C02): a program that [has_type] never reaches the
   [Stuck] outcome of the reference semantics (Lang/Eval.v) — the model of the VM's dynamic
   shape complaints "Cannot call", "GetOffset on", "TestTag", missing field — and a value it
   returns passes [check_shape] at the program's type.

   Proof style: fuel-indexed big-step safety.  Induction on the fuel; every recursive call of
   [eval_step] is on the evaluator one unit down, so inversion of the typing derivation is all
   that is needed for expressions; [apply] is handled by an inner induction on its own fuel;
   patterns by mutual induction on the pattern typing. *)
From Coq Require Import List ZArith NArith Bool Lia.
From GV Require Import Lang.Syntax Lang.Eval Lang.Types.
Import ListNotations.

Scheme vtyp_mind := Minimality for vtyp Sort Prop
  with vstyp_mind := Minimality for vstyp Sort Prop
  with fstyp_mind := Minimality for fstyp Sort Prop
  with vall_mind := Minimality for vall Sort Prop
  with env_typ_mind := Minimality for env_typ Sort Prop.
Combined Scheme vtyp_mutind from vtyp_mind, vstyp_mind, fstyp_mind, vall_mind, env_typ_mind.

Scheme pat_typ_mind := Minimality for pat_typ Sort Prop
  with pats_typ_mind := Minimality for pats_typ Sort Prop
  with fpats_typ_mind := Minimality for fpats_typ Sort Prop.
Combined Scheme pat_typ_mutind from pat_typ_mind, pats_typ_mind, fpats_typ_mind.

(* ---------------------------------------------------------------- arrows *)
Lemma arrows_app : forall ts1 ts2 r, arrows (ts1 ++ ts2) r = arrows ts1 (arrows ts2 r).
Proof. induction ts1; intros; simpl; [reflexivity | now rewrite IHts1]. Qed.

Lemma arrows_split : forall ts1 t1 ts2 t2,
  arrows ts1 t1 = arrows ts2 t2 -> length ts1 <= length ts2 ->
  exists rest, ts2 = ts1 ++ rest /\ t1 = arrows rest t2.
Proof.
  induction ts1 as [|a ts1 IH]; intros t1 ts2 t2 E L.
  - exists ts2. simpl in *. auto.
  - destruct ts2 as [|b ts2]; simpl in L; [lia|].
    simpl in E. injection E as Eab E.
    destruct (IH _ _ _ E) as [rest [E1 E2]]; [lia|].
    exists rest. subst. auto.
Qed.

(* ---------------------------------------------------------------- list typings *)
Lemma vstyp_length : forall D vs ts, vstyp D vs ts -> length vs = length ts.
Proof. induction 1; simpl; congruence. Qed.

Lemma vstyp_app : forall D vs1 ts1, vstyp D vs1 ts1 ->
  forall vs2 ts2, vstyp D vs2 ts2 -> vstyp D (vs1 ++ vs2) (ts1 ++ ts2).
Proof. induction 1; intros; simpl; [assumption | constructor; auto]. Qed.

Lemma vstyp_split : forall D ts1 vs ts2, vstyp D vs (ts1 ++ ts2) ->
  vstyp D (firstn (length ts1) vs) ts1 /\ vstyp D (skipn (length ts1) vs) ts2.
Proof.
  induction ts1 as [|t ts1 IH]; intros vs ts2 H; simpl in *.
  - split; [constructor | assumption].
  - inversion H; subst. destruct (IH _ _ H4). split; [constructor|]; assumption.
Qed.

Lemma fstyp_app : forall D fs1 ts1, fstyp D fs1 ts1 ->
  forall fs2 ts2, fstyp D fs2 ts2 -> fstyp D (fs1 ++ fs2) (ts1 ++ ts2).
Proof. induction 1; intros; simpl; [assumption | constructor; auto]. Qed.

Lemma fstyp_assoc : forall D fs fts, fstyp D fs fts ->
  forall l, match assoc l fts with
            | Some t => exists v, assoc l fs = Some v /\ vtyp D v t
            | None => assoc l fs = None
            end.
Proof.
  induction 1; intros k; simpl; [reflexivity|].
  destruct (N.eqb k l); [eauto | apply IHfstyp].
Qed.

Lemma env_typ_app : forall D r1 G1, env_typ D r1 G1 ->
  forall r2 G2, env_typ D r2 G2 -> env_typ D (r1 ++ r2) (G1 ++ G2).
Proof. induction 1; intros; simpl; [assumption | constructor; auto]. Qed.

Lemma env_typ_lookup : forall D r G, env_typ D r G ->
  forall x S, assoc x G = Some S -> exists v, lookup r x = Some v /\ forall t, S t -> vtyp D v t.
Proof.
  induction 1; intros y S0 E; simpl in *; [discriminate|].
  destruct (N.eqb y x).
  - injection E as <-. eauto.
  - eauto.
Qed.

(* bindings of a pattern (monomorphic) as an environment typing *)
Lemma fstyp_env : forall D b B, fstyp D b B -> env_typ D b (mono_env B).
Proof.
  induction 1; simpl; constructor; auto.
  intros t' <-. assumption.
Qed.

Lemma bind_params_typ : forall D xs vs ts r G,
  vstyp D vs ts -> env_typ D r G -> env_typ D (bind_params xs vs r) (bind_tparams xs ts G).
Proof.
  induction xs as [|x xs IH]; intros vs ts r G Hv He; simpl; [assumption|].
  inversion Hv; subst; [assumption|].
  apply IH; [assumption|]. constructor; [|assumption].
  intros t' <-. assumption.
Qed.

Lemma number_fields_typ : forall D vs ts, vstyp D vs ts ->
  forall i, fstyp D (number_fields i vs) (number_tfields i ts).
Proof. induction 1; intros; simpl; constructor; auto. Qed.

(* ---------------------------------------------------------------- record update *)
Lemma rcd_update_upd : forall fs base, rcd_update fs base = upd fs base.
Proof. reflexivity. Qed.

Lemma fstyp_has_field : forall D fs fts, fstyp D fs fts ->
  forall l, @has_field value l fs = @has_field ty l fts.
Proof.
  intros D fs fts H l. unfold has_field.
  pose proof (fstyp_assoc _ _ _ H l) as A.
  destruct (assoc l fts).
  - destruct A as [v [-> _]]. reflexivity.
  - now rewrite A.
Qed.

Lemma upd_typ : forall D vs fts bvs bts,
  fstyp D vs fts -> fstyp D bvs bts -> fstyp D (upd vs bvs) (upd fts bts).
Proof.
  intros D vs fts bvs bts Hf Hb. unfold upd. apply fstyp_app.
  - clear - Hf Hb. induction Hf; simpl; [constructor|].
    rewrite (fstyp_has_field _ _ _ Hb l).
    destruct (negb (has_field l bts)); [constructor|]; assumption.
  - clear - Hf Hb. induction Hb; simpl; [constructor|].
    pose proof (fstyp_assoc _ _ _ Hf l) as A.
    destruct (assoc l fts).
    + destruct A as [w [-> Hw]]. constructor; assumption.
    + rewrite A. constructor; assumption.
Qed.

(* a closure cannot have a non-function type: discharges the VT_Clo case of an inversion at a
   type that is not an arrow *)
Ltac kill_clo :=
  try (exfalso;
       match goal with
       | HE : _ = arrows ?ts _, HL : length ?xs = length ?ts, HN : ?xs <> [] |- _ =>
           destruct ts; [destruct xs; [congruence | discriminate] | simpl in HE; discriminate]
       end).
Ltac inv_vtyp H := inversion H; subst; kill_clo.

Lemma vtyp_int_inv : forall D v, vtyp D v TInt -> exists z, v = VInt z.
Proof. intros D v H. inv_vtyp H. eauto. Qed.
Lemma vtyp_byte_inv : forall D v, vtyp D v TByte -> exists z, v = VByte z.
Proof. intros D v H. inv_vtyp H. eauto. Qed.
Lemma vtyp_rcd_inv : forall D v fts, vtyp D v (TRcd fts) -> exists fs, v = VRcd fs /\ fstyp D fs fts.
Proof. intros D v fts H. inv_vtyp H. eauto. Qed.
Lemma vtyp_arr_inv : forall D v t, vtyp D v (TArr t) -> exists vs, v = VArr vs /\ vall D vs t.
Proof. intros D v t H. inv_vtyp H. eauto. Qed.
Lemma vtyp_data_inv : forall D v d targs, vtyp D v (TData d targs) ->
  exists tag vs cts, v = VData tag vs /\ ctor_args D d targs tag = Some cts /\ vstyp D vs cts.
Proof. intros D v d targs H. inv_vtyp H. eauto 6. Qed.

(* ---------------------------------------------------------------- booleans *)
Lemma vtyp_bool : forall D v, decls_ok D -> vtyp D v tbool -> exists b, as_bool v = Some b.
Proof.
  intros D v HD H. apply vtyp_data_inv in H. destruct H as [tag [vs [cts [-> [HC HV]]]]].
  unfold ctor_args in HC; rewrite HD in HC; unfold bool_decl in HC.
  destruct (N.to_nat tag) as [|[|k]] eqn:E; simpl in HC.
  - injection HC as <-; inversion HV; subst; assert (tag = 0%N) by lia; subst; simpl; eauto.
  - injection HC as <-; inversion HV; subst; assert (tag = 1%N) by lia; subst; simpl; eauto.
  - destruct k; discriminate.
Qed.

Lemma vbool_typ : forall D b, decls_ok D -> vtyp D (vbool b) tbool.
Proof.
  intros D b HD. unfold vbool, tbool.
  apply VT_Data with (cts := []); [|constructor].
  unfold ctor_args. rewrite HD. destruct b; reflexivity.
Qed.

(* ---------------------------------------------------------------- the outcome predicate *)
(* what safety asks of one run: never Stuck, and a returned value satisfies [P] *)
Definition mres {A} (P : A -> Prop) (x : res A * log) : Prop :=
  match fst x with
  | Ok a => P a
  | Stuck => False
  | _ => True
  end.

Lemma mres_bind : forall A B (m : M A) (f : A -> M B) (P : A -> Prop) (Q : B -> Prop) l,
  mres P (m l) -> (forall a l', P a -> mres Q (f a l')) -> mres Q (bind m f l).
Proof.
  intros A B m f P Q l Hm Hf. unfold bind, mres in *.
  destruct (m l) as [[a|e| |] l1]; simpl in *; [apply Hf; exact Hm | exact I | contradiction | exact I].
Qed.

Lemma mres_ret : forall A (P : A -> Prop) a l, P a -> mres P (ret a l).
Proof. intros. exact H. Qed.

Lemma mres_weaken : forall A (P Q : A -> Prop) x, mres P x -> (forall a, P a -> Q a) -> mres Q x.
Proof. intros A P Q [[a|e| |] l] H HPQ; unfold mres in *; simpl in *; auto. Qed.

(* ---------------------------------------------------------------- primitives *)
Lemma check_int_ok : forall D z l, mres (fun v => vtyp D v TInt) (check_int z l).
Proof. intros. unfold check_int. destruct (_ && _); simpl; constructor. Qed.
Lemma check_byte_ok : forall D z l, mres (fun v => vtyp D v TByte) (check_byte z l).
Proof. intros. unfold check_byte. destruct (_ && _); simpl; constructor. Qed.

Lemma prim_apply_ok : forall D op a b l, decls_ok D ->
  vtyp D a (prim_arg op) -> vtyp D b (prim_arg op) ->
  mres (fun v => vtyp D v (prim_res op)) (prim_apply op a b l).
Proof.
  intros D op a b l HD Ha Hb.
  destruct op; simpl in *;
    first [ apply vtyp_int_inv in Ha; apply vtyp_int_inv in Hb
          | apply vtyp_byte_inv in Ha; apply vtyp_byte_inv in Hb ];
    destruct Ha as [x ->]; destruct Hb as [y ->]; simpl;
    try apply check_int_ok; try apply check_byte_ok;
    try (destruct (Z.eqb _ 0); [exact I | try apply check_int_ok; try apply check_byte_ok]);
    try (apply vbool_typ; assumption).
Qed.

(* ---------------------------------------------------------------- patterns *)
(* the local fixpoints of Eval.pmatch, named *)
Definition pmatch_list (pm : pat -> value -> option env) :=
  fix go (ps : list pat) (vs : list value) {struct ps} : option env :=
    match ps, vs with
    | [], [] => Some []
    | q :: ps', w :: vs' =>
        match pm q w with
        | Some b1 => match go ps' vs' with Some b2 => Some (b2 ++ b1) | None => None end
        | None => None
        end
    | _, _ => None
    end.

Definition pmatch_tup (pm : pat -> value -> option env) :=
  fix go (ps : list pat) (vs : list (name * value)) {struct ps} : option env :=
    match ps, vs with
    | [], [] => Some []
    | q :: ps', w :: vs' =>
        match pm q (snd w) with
        | Some b1 => match go ps' vs' with Some b2 => Some (b2 ++ b1) | None => None end
        | None => None
        end
    | _, _ => None
    end.

Definition pmatch_flds (pm : pat -> value -> option env) (fs : list (name * value)) :=
  fix go (pfs : list (name * pat)) {struct pfs} : option env :=
    match pfs with
    | [] => Some []
    | lq :: pfs' =>
        match assoc (fst lq) fs with
        | Some w =>
            match pm (snd lq) w with
            | Some b1 => match go pfs' with Some b2 => Some (b2 ++ b1) | None => None end
            | None => None
            end
        | None => None
        end
    end.

Lemma pmatch_con_eq : forall tag ps v,
  pmatch (PCon tag ps) v =
  match v with
  | VData t vs => if N.eqb tag t then pmatch_list pmatch ps vs else None
  | _ => None
  end.
Proof. reflexivity. Qed.
Lemma pmatch_tup_eq : forall ps v,
  pmatch (PTup ps) v = match v with VRcd fs => pmatch_tup pmatch ps fs | _ => None end.
Proof. reflexivity. Qed.
Lemma pmatch_rcd_eq : forall pfs v,
  pmatch (PRcd pfs) v = match v with VRcd fs => pmatch_flds pmatch fs pfs | _ => None end.
Proof. reflexivity. Qed.

Lemma pmatch_typ_all : forall D,
  (forall p t B, pat_typ D p t B ->
     forall v b, vtyp D v t -> pmatch p v = Some b -> fstyp D b B) /\
  (forall ps ts B, pats_typ D ps ts B ->
     (forall vs b, vstyp D vs ts -> pmatch_list pmatch ps vs = Some b -> fstyp D b B) /\
     (forall fs fts b, fstyp D fs fts -> map snd fts = ts ->
                       pmatch_tup pmatch ps fs = Some b -> fstyp D b B)) /\
  (forall pfs fts B, fpats_typ D pfs fts B ->
     forall fs b, fstyp D fs fts -> pmatch_flds pmatch fs pfs = Some b -> fstyp D b B).
Proof.
  intros D. apply pat_typ_mutind.
  - (* wild *) intros t v b _ E. injection E as <-. constructor.
  - (* var *) intros x t v b Hv E. injection E as <-. constructor; [assumption | constructor].
  - (* lit *) intros l v b _ E. simpl in E. destruct (lit_matches l v); [|discriminate].
    injection E as <-. constructor.
  - (* as *) intros x q t B _ IH v b Hv E. simpl in E.
    destruct (pmatch q v) as [b0|] eqn:E0; [|discriminate]. injection E as <-.
    apply fstyp_app; [eauto|]. constructor; [assumption | constructor].
  - (* con *) intros tag ps d targs cts B HC _ [IH _] v b Hv E.
    rewrite pmatch_con_eq in E.
    apply vtyp_data_inv in Hv. destruct Hv as [tag' [vs [cts' [-> [HC' Hvs]]]]].
    destruct (N.eqb tag tag') eqn:Et; [|discriminate].
    apply N.eqb_eq in Et. subst tag'. rewrite HC in HC'. injection HC' as <-. eauto.
  - (* tup *) intros ps fts B _ [_ IH] v b Hv E.
    rewrite pmatch_tup_eq in E.
    apply vtyp_rcd_inv in Hv. destruct Hv as [fs [-> Hfs]]. eauto.
  - (* rcd *) intros pfs fts B _ IH v b Hv E.
    rewrite pmatch_rcd_eq in E.
    apply vtyp_rcd_inv in Hv. destruct Hv as [fs [-> Hfs]]. eauto.
  - (* nil *) split.
    + intros vs b Hvs E. inversion Hvs; subst. injection E as <-. constructor.
    + intros fs fts b Hfs Em E. destruct fts; [|discriminate]. inversion Hfs; subst.
      injection E as <-. constructor.
  - (* cons *) intros q ps t ts B1 B2 _ IHq _ [IHl IHt]. split.
    + intros vs b Hvs E. inversion Hvs; subst. simpl in E.
      destruct (pmatch q v) as [b1|] eqn:E1; [|discriminate].
      destruct (pmatch_list pmatch ps vs0) as [b2|] eqn:E2; [|discriminate].
      injection E as <-. apply fstyp_app; eauto.
    + intros fs fts b Hfs Em E. destruct fts as [|[l0 t0] fts]; [discriminate|].
      simpl in Em. injection Em as -> Em. inversion Hfs; subst. simpl in E.
      destruct (pmatch q v) as [b1|] eqn:E1; [|discriminate].
      destruct (pmatch_tup pmatch ps fs0) as [b2|] eqn:E2; [|discriminate].
      injection E as <-. apply fstyp_app; eauto.
  - (* fnil *) intros fts fs b _ E. injection E as <-. constructor.
  - (* fcons *) intros l q pfs fts t B1 B2 Hl _ IHq _ IHr fs b Hfs E. simpl in E.
    pose proof (fstyp_assoc _ _ _ Hfs l) as A. rewrite Hl in A. destruct A as [w [Ew Hw]].
    rewrite Ew in E.
    destruct (pmatch q w) as [b1|] eqn:E1; [|discriminate].
    destruct (pmatch_flds pmatch fs pfs) as [b2|] eqn:E2; [|discriminate].
    injection E as <-. apply fstyp_app; eauto.
Qed.

Lemma pmatch_typ : forall D p t B v b,
  pat_typ D p t B -> vtyp D v t -> pmatch p v = Some b -> env_typ D b (mono_env B).
Proof. intros. apply fstyp_env. eapply (proj1 (pmatch_typ_all D)); eauto. Qed.

(* ---------------------------------------------------------------- lists of expressions *)
(* the induction hypothesis: the evaluator one fuel unit down is safe *)
Definition ev_ok (D : decls) (ev : env -> expr -> M value) : Prop :=
  forall G e t r l, has_type D G e t -> env_typ D r G -> mres (fun v => vtyp D v t) (ev r e l).

Lemma eval_list_ok : forall D ev G r, ev_ok D ev -> env_typ D r G ->
  forall es ts, Forall2 (has_type D G) es ts ->
  forall l, mres (fun vs => vstyp D vs ts) (eval_list ev r es l).
Proof.
  intros D ev G r Hev Hr. unfold ev_ok in Hev. induction 1 as [|e t es ts He _ IH]; intros l; simpl.
  - constructor.
  - eapply mres_bind; [eapply Hev; eassumption|]. intros v l1 Hv.
    eapply mres_bind; [apply IH|]. intros vs l2 Hvs. constructor; assumption.
Qed.

Lemma eval_all_ok : forall D ev G r t, ev_ok D ev -> env_typ D r G ->
  forall es, Forall (fun e => has_type D G e t) es ->
  forall l, mres (fun vs => vall D vs t) (eval_list ev r es l).
Proof.
  intros D ev G r t Hev Hr. unfold ev_ok in Hev. induction 1 as [|e es He _ IH]; intros l; simpl.
  - constructor.
  - eapply mres_bind; [eapply Hev; eassumption|]. intros v l1 Hv.
    eapply mres_bind; [apply IH|]. intros vs l2 Hvs. constructor; assumption.
Qed.

Lemma eval_fields_ok : forall D ev G r, ev_ok D ev -> env_typ D r G ->
  forall fs fts, Forall2 (fun f ft => fst f = fst ft /\ has_type D G (snd f) (snd ft)) fs fts ->
  forall l, mres (fun vs => fstyp D vs fts) (eval_fields ev r fs l).
Proof.
  intros D ev G r Hev Hr. unfold ev_ok in Hev. induction 1 as [|[k e] [k' t] fs fts [Hk He] _ IH]; intros l; simpl in *.
  - constructor.
  - subst k'. eapply mres_bind; [eapply Hev; eassumption|]. intros v l1 Hv.
    eapply mres_bind; [apply IH|]. intros vs l2 Hvs. constructor; assumption.
Qed.

Lemma vall_nth : forall D vs t, vall D vs t -> forall i x, nth_error vs i = Some x -> vtyp D x t.
Proof.
  induction 1; intros i x E; destruct i; simpl in E; try discriminate.
  - injection E as <-. assumption.
  - eauto.
Qed.

(* ---------------------------------------------------------------- rec groups *)
Definition mk_clo (r : env) (g : recs) (b : name * (list name * expr)) : name * value :=
  (fst b, VClo r g (fst (snd b)) (snd (snd b))).

Lemma bind_recs_eq : forall r g, bind_recs r g = map (mk_clo r g) g ++ r.
Proof. reflexivity. Qed.

Lemma Forall2_nth : forall A B (R : A -> B -> Prop) l1 l2, Forall2 R l1 l2 ->
  forall i a b, nth_error l1 i = Some a -> nth_error l2 i = Some b -> R a b.
Proof.
  induction 1; intros i a b Ea Eb; destruct i; simpl in *; try discriminate.
  - injection Ea as <-. injection Eb as <-. assumption.
  - eauto.
Qed.

Lemma clo_typ : forall D r G g Gg b f t,
  env_typ D r G -> Forall2 (rec_ok (has_type D) (mono_env Gg ++ G)) g Gg ->
  rec_ok (has_type D) (mono_env Gg ++ G) b (f, t) ->
  vtyp D (VClo r g (fst (snd b)) (snd (snd b))) t.
Proof.
  intros D r G g Gg b f t Hr Hg [_ [ts [tr [Et [Hn [Hl Hb]]]]]]. simpl in Et.
  eapply VT_Clo; eauto.
Qed.

(* the group's closures at one coherent monomorphic typing *)
Lemma bind_recs_mono : forall D r G g Gg,
  env_typ D r G -> Forall2 (rec_ok (has_type D) (mono_env Gg ++ G)) g Gg ->
  env_typ D (bind_recs r g) (mono_env Gg ++ G).
Proof.
  intros D r G g Gg Hr Hg. rewrite bind_recs_eq. apply env_typ_app; [|assumption].
  assert (forall g' Gg', Forall2 (rec_ok (has_type D) (mono_env Gg ++ G)) g' Gg' ->
                         env_typ D (map (mk_clo r g) g') (mono_env Gg')) as K.
  { induction 1 as [|b [f t] g' Gg' Hb _ IH]; simpl; [constructor|].
    pose proof Hb as [Ef _]. simpl in Ef. unfold mk_clo at 1. rewrite Ef.
    constructor; [|assumption].
    intros t' <-. eapply clo_typ; eauto. }
  apply K. assumption.
Qed.

(* … and at the schemes the body of the `rec` sees *)
Lemma bind_recs_poly : forall D r G g (Gs : list (name * ty) -> Prop),
  env_typ D r G ->
  (forall Gg, Gs Gg -> Forall2 (rec_ok (has_type D) (mono_env Gg ++ G)) g Gg) ->
  env_typ D (bind_recs r g) (rec_schemes Gs g 0 ++ G).
Proof.
  intros D r G g Gs Hr Hg. rewrite bind_recs_eq. apply env_typ_app; [|assumption].
  assert (forall g' i, (forall j b, nth_error g' j = Some b -> nth_error g (i + j) = Some b) ->
                       env_typ D (map (mk_clo r g) g') (rec_schemes Gs g' i)) as K.
  { induction g' as [|b g' IH]; intros i Hsub; simpl; [constructor|]. unfold mk_clo at 1. constructor.
    - intros t [Gg [HG En]].
      pose proof (Hsub 0 b eq_refl) as Eb. rewrite Nat.add_0_r in Eb.
      apply (clo_typ D r G g Gg b (fst b) t Hr (Hg _ HG)).
      eapply Forall2_nth; [apply Hg; exact HG | exact Eb | exact En].
    - apply IH. intros j b' E. replace (S i + j) with (i + S j) by lia. apply Hsub. exact E. }
  apply K. intros j b E. exact E.
Qed.

(* ---------------------------------------------------------------- application *)
Lemma apply_ok : forall D ev, ev_ok D ev ->
  forall k f args ts t l, vtyp D f (arrows ts t) -> vstyp D args ts ->
  mres (fun v => vtyp D v t) (apply ev k f args l).
Proof.
  intros D ev Hev. pose proof Hev as Hev'. unfold ev_ok in Hev. induction k as [|k IH]; intros f args ts t l Hf Ha.
  - destruct args; simpl; [|exact I]. inversion Ha; subst. exact Hf.
  - destruct args as [|a args]; simpl.
    { inversion Ha; subst. exact Hf. }
    inversion Ha as [|a' args' t0 ts' Hva Hargs]; subst. simpl in Hf.
    inversion Hf as [ | | | | | | | | r g xs body G Gg ts1 tr tf Etf Hr Hg Hxs Hlen Hbody
                     | f0 args0 ts0 a0 r0 Hf0 Hargs0 ]; subst.
    + (* closure *)
      simpl. destruct (Nat.ltb (S (length args)) (length xs)) eqn:Elt.
      * apply Nat.ltb_lt in Elt.
        change (TFun t0 (arrows ts' t)) with (arrows (t0 :: ts') t) in Etf.
        pose proof (vstyp_length _ _ _ Ha) as La. simpl length in *.
        destruct (arrows_split _ _ _ _ Etf) as [rest [E1 E2]]; [simpl length; lia|].
        destruct rest as [|r0 rest].
        { rewrite app_nil_r in E1. subst ts1. simpl length in *. lia. }
        subst t. simpl. eapply VT_Pap with (ts := t0 :: ts'); [|exact Ha].
        exact Hf.
      * apply Nat.ltb_ge in Elt.
        change (TFun t0 (arrows ts' t)) with (arrows (t0 :: ts') t) in Etf.
        pose proof (vstyp_length _ _ _ Ha) as La. symmetry in Etf. simpl length in *.
        destruct (arrows_split _ _ _ _ Etf) as [rest [E1 E2]]; [simpl length; lia|].
        rewrite E1 in Ha. apply vstyp_split in Ha. destruct Ha as [Ha1 Ha2].
        rewrite Hlen.
        eapply mres_bind.
        { apply Hev with (G := bind_tparams xs ts1 (mono_env Gg ++ G)) (t := tr); [assumption|].
          apply bind_params_typ; [assumption|]. apply bind_recs_mono; assumption. }
        intros res l1 Hres. subst tr. eapply IH; eassumption.
    + (* partial application *)
      eapply IH with (ts := ts0 ++ t0 :: ts').
      * rewrite arrows_app. exact Hf0.
      * apply vstyp_app; assumption.
Qed.

(* ---------------------------------------------------------------- match *)
Lemma first_match_typ : forall D G ts t alts v b e,
  Forall (fun alt => exists B, pat_typ D (fst alt) ts B /\ has_type D (mono_env B ++ G) (snd alt) t) alts ->
  vtyp D v ts -> first_match v alts = Some (b, e) ->
  exists B, env_typ D b (mono_env B) /\ has_type D (mono_env B ++ G) e t.
Proof.
  intros D G ts t alts v b e H Hv. induction H as [|[p e0] alts [B [Hp He]] _ IH]; simpl; [discriminate|].
  simpl in *. destruct (pmatch p v) as [b0|] eqn:E.
  - intros E'. injection E' as <- <-. exists B. split; [|assumption]. eapply pmatch_typ; eauto.
  - assumption.
Qed.

(* ---------------------------------------------------------------- the main induction *)
Theorem eval_safe : forall D, decls_ok D -> forall n, ev_ok D (eval n).
Proof.
  intros D HD. induction n as [|n IH]; unfold ev_ok; intros G e t r l Ht Hr; [exact I|].
  pose proof IH as IH'. unfold ev_ok in IH.
  simpl. inversion Ht; subst; simpl.
  - (* lit *) apply mres_ret. destruct l0; constructor.
  - (* var *)
    destruct (env_typ_lookup _ _ _ Hr _ _ H) as [v [E Hv]]. rewrite E. apply mres_ret. apply Hv. assumption.
  - (* lam *)
    destruct xs as [|x xs]; [congruence|]. apply mres_ret.
    eapply VT_Clo with (Gg := []) (G := G); eauto.
  - (* app *)
    eapply mres_bind; [eapply IH; eassumption|]. intros fv l1 Hfv; simpl in Hfv.
    eapply mres_bind; [eapply eval_list_ok; try exact IH'; eassumption|]. intros vs l2 Hvs; simpl in Hvs.
    simpl in Hfv, Hvs. exact (apply_ok D _ IH' n fv vs ts t l2 Hfv Hvs).
  - (* let, pattern *)
    eapply mres_bind; [eapply IH; eassumption|]. intros v l1 Hv; simpl in Hv.
    destruct (pmatch p v) as [b|] eqn:E; [|exact I].
    eapply IH; [eassumption|]. apply env_typ_app; [|assumption]. eapply pmatch_typ; eauto.
  - (* let, generalising *)
    destruct H as [t1 Ht1].
    eapply mres_bind with (P := fun v => forall t1, S t1 -> vtyp D v t1).
    + pose proof (IH _ _ _ _ l (H0 _ Ht1) Hr) as K1. unfold mres in *.
      destruct (eval n r e1 l) as [[v|err| |] l1] eqn:E; simpl in *; auto.
      intros t2 Ht2. pose proof (IH _ _ _ _ l (H0 _ Ht2) Hr) as K2.
      unfold mres in K2. rewrite E in K2. exact K2.
    + intros v l1 Hv; simpl in Hv. simpl. eapply IH; [eassumption|]. constructor; assumption.
  - (* rec *)
    eapply IH; [eassumption|]. apply bind_recs_poly; assumption.
  - (* if *)
    eapply mres_bind; [eapply IH; eassumption|]. intros v l1 Hv; simpl in Hv.
    destruct (vtyp_bool _ _ HD Hv) as [[|] ->]; eapply IH; eassumption.
  - (* prim *)
    eapply mres_bind; [eapply IH; eassumption|]. intros x l1 Hx; simpl in Hx.
    eapply mres_bind; [eapply IH; eassumption|]. intros y l2 Hy; simpl in Hy.
    apply prim_apply_ok; assumption.
  - (* and *)
    eapply mres_bind; [eapply IH; eassumption|]. intros v l1 Hv; simpl in Hv.
    destruct (vtyp_bool _ _ HD Hv) as [[|] ->]; [eapply IH; eassumption|].
    apply mres_ret. apply vbool_typ; assumption.
  - (* or *)
    eapply mres_bind; [eapply IH; eassumption|]. intros v l1 Hv; simpl in Hv.
    destruct (vtyp_bool _ _ HD Hv) as [[|] ->]; [|eapply IH; eassumption].
    apply mres_ret. apply vbool_typ; assumption.
  - (* record *)
    eapply mres_bind; [eapply eval_fields_ok; try exact IH'; eassumption|]. intros vs l1 Hvs; simpl in Hvs.
    apply mres_ret. constructor; assumption.
  - (* record update *)
    eapply mres_bind; [eapply eval_fields_ok; try exact IH'; eassumption|]. intros vs l1 Hvs; simpl in Hvs.
    eapply mres_bind; [eapply IH; eassumption|]. intros bv l2 Hbv; simpl in Hbv.
    apply vtyp_rcd_inv in Hbv. destruct Hbv as [bfs [-> Hb]].
    apply mres_ret. constructor. rewrite rcd_update_upd. apply upd_typ; assumption.
  - (* projection *)
    eapply mres_bind; [eapply IH; eassumption|]. intros v l1 Hv; simpl in Hv.
    apply vtyp_rcd_inv in Hv. destruct Hv as [fs [-> Hfs]].
    pose proof (fstyp_assoc _ _ _ Hfs l0) as A. rewrite H0 in A.
    destruct A as [x [-> Hx]]. apply mres_ret. exact Hx.
  - (* tuple *)
    eapply mres_bind; [eapply eval_list_ok; try exact IH'; eassumption|]. intros vs l1 Hvs; simpl in Hvs.
    apply mres_ret. constructor. apply number_fields_typ; assumption.
  - (* constructor *)
    eapply mres_bind; [eapply eval_list_ok; try exact IH'; eassumption|]. intros vs l1 Hvs; simpl in Hvs.
    apply mres_ret. econstructor; eassumption.
  - (* array *)
    eapply mres_bind; [eapply eval_all_ok; try exact IH'; eassumption|]. intros vs l1 Hvs; simpl in Hvs.
    apply mres_ret. constructor; assumption.
  - (* index *)
    eapply mres_bind; [eapply IH; eassumption|]. intros av l1 Hav; simpl in Hav.
    eapply mres_bind; [eapply IH; eassumption|]. intros iv l2 Hiv; simpl in Hiv.
    apply vtyp_arr_inv in Hav. destruct Hav as [vs [-> Hvs]].
    apply vtyp_int_inv in Hiv. destruct Hiv as [z ->].
    destruct (Z.leb 0 z && Z.ltb z (Z.of_nat (length vs)))%bool eqn:Eb; [|exact I].
    apply andb_true_iff in Eb. destruct Eb as [E1 E2].
    apply Z.leb_le in E1. apply Z.ltb_lt in E2.
    destruct (nth_error vs (Z.to_nat z)) as [x|] eqn:En.
    + apply mres_ret. eapply vall_nth; eauto.
    + apply nth_error_None in En. lia.
  - (* length *)
    eapply mres_bind; [eapply IH; eassumption|]. intros av l1 Hav; simpl in Hav.
    apply vtyp_arr_inv in Hav. destruct Hav as [vs [-> Hvs]]. apply mres_ret. constructor.
  - (* match *)
    eapply mres_bind; [eapply IH; eassumption|]. intros v l1 Hv; simpl in Hv.
    destruct (first_match v alts) as [[b e']|] eqn:E; [|exact I].
    destruct (first_match_typ _ _ _ _ _ _ _ _ H0 Hv E) as [B [Hb He]].
    eapply IH; [eassumption|]. apply env_typ_app; assumption.
  - (* seq *)
    eapply mres_bind; [eapply IH; eassumption|]. intros v l1 Hv; simpl in Hv.
    eapply IH; eassumption.
  - (* error *) exact I.
  - (* eff *)
    eapply mres_bind; [eapply IH; eassumption|]. intros v l1 Hv; simpl in Hv.
    apply vtyp_int_inv in Hv. destruct Hv as [z ->]. apply mres_ret. constructor.
  - (* annotation *) eapply IH; eassumption.
Qed.

(* ---------------------------------------------------------------- the shape check *)
(* the local fixpoints of check_shape, named *)
Definition shape_list (cs : ty -> value -> bool) :=
  fix go (vs : list value) (ts : list ty) {struct vs} : bool :=
    match vs, ts with
    | [], [] => true
    | w :: vs', u :: ts' => cs u w && go vs' ts'
    | _, _ => false
    end.
Definition shape_fields (cs : ty -> value -> bool) :=
  fix go (fs : list (name * value)) (fts : list (name * ty)) {struct fs} : bool :=
    match fs, fts with
    | [], [] => true
    | f :: fs', ft :: fts' => N.eqb (fst f) (fst ft) && cs (snd ft) (snd f) && go fs' fts'
    | _, _ => false
    end.
Definition shape_all (cs : ty -> value -> bool) (u : ty) :=
  fix go (vs : list value) {struct vs} : bool :=
    match vs with
    | [] => true
    | w :: vs' => cs u w && go vs'
    end.

Lemma check_shape_data : forall D d targs tag vs,
  check_shape D (TData d targs) (VData tag vs) =
  match ctor_args D d targs tag with
  | Some cts => shape_list (check_shape D) vs cts
  | None => false
  end.
Proof. reflexivity. Qed.
Lemma check_shape_rcd : forall D fts fs,
  check_shape D (TRcd fts) (VRcd fs) = shape_fields (check_shape D) fs fts.
Proof. reflexivity. Qed.
Lemma check_shape_arr : forall D u vs,
  check_shape D (TArr u) (VArr vs) = shape_all (check_shape D) u vs.
Proof. reflexivity. Qed.

(* every well-typed value passes the shape check *)
Lemma vtyp_check_shape_all : forall D,
  (forall v t, vtyp D v t -> check_shape D t v = true) /\
  (forall vs ts, vstyp D vs ts -> shape_list (check_shape D) vs ts = true) /\
  (forall fs fts, fstyp D fs fts -> shape_fields (check_shape D) fs fts = true) /\
  (forall vs t, vall D vs t -> shape_all (check_shape D) t vs = true) /\
  (forall r G, env_typ D r G -> True).
Proof.
  intros D. apply vtyp_mutind; intros; try reflexivity; auto.
  - (* data *) rewrite check_shape_data. rewrite H. assumption.
  - (* closure *) subst t. destruct ts as [|t0 ts]; [|reflexivity].
    destruct xs; [congruence | discriminate].
  - (* list *) simpl. rewrite H0, H2. reflexivity.
  - (* fields *) simpl. rewrite N.eqb_refl, H0, H2. reflexivity.
  - (* array *) simpl. rewrite H0, H2. reflexivity.
Qed.

Lemma vtyp_check_shape : forall D v t, vtyp D v t -> check_shape D t v = true.
Proof. intros D. exact (proj1 (vtyp_check_shape_all D)). Qed.

(* induction on values through the nested lists (closures are leaves for the shape check) *)
Section value_ind_nested.
  Variable P : value -> Prop.
  Hypothesis HInt : forall z, P (VInt z).
  Hypothesis HByte : forall z, P (VByte z).
  Hypothesis HFloat : forall b, P (VFloat b).
  Hypothesis HStr : forall s, P (VStr s).
  Hypothesis HData : forall tag vs, Forall P vs -> P (VData tag vs).
  Hypothesis HRcd : forall fs, Forall (fun f => P (snd f)) fs -> P (VRcd fs).
  Hypothesis HArr : forall vs, Forall P vs -> P (VArr vs).
  Hypothesis HClo : forall r g xs b, P (VClo r g xs b).
  Hypothesis HPap : forall f args, P (VPap f args).

  Fixpoint value_ind_nested (v : value) : P v :=
    match v with
    | VInt z => HInt z
    | VByte z => HByte z
    | VFloat b => HFloat b
    | VStr s => HStr s
    | VData tag vs =>
        HData tag vs ((fix go (vs : list value) : Forall P vs :=
                         match vs with
                         | [] => Forall_nil _
                         | w :: vs' => Forall_cons _ (value_ind_nested w) (go vs')
                         end) vs)
    | VRcd fs =>
        HRcd fs ((fix go (fs : list (name * value)) : Forall (fun f => P (snd f)) fs :=
                    match fs with
                    | [] => Forall_nil _
                    | f :: fs' => Forall_cons _ (value_ind_nested (snd f)) (go fs')
                    end) fs)
    | VArr vs =>
        HArr vs ((fix go (vs : list value) : Forall P vs :=
                    match vs with
                    | [] => Forall_nil _
                    | w :: vs' => Forall_cons _ (value_ind_nested w) (go vs')
                    end) vs)
    | VClo r g xs b => HClo r g xs b
    | VPap f args => HPap f args
    end.
End value_ind_nested.

(* [check_shape] decides [shaped] *)
Lemma check_shape_sound : forall D v t, check_shape D t v = true -> shaped D v t.
Proof.
  intros D v. induction v using value_ind_nested; intros t E;
    destruct t; try discriminate E; try constructor.
  - (* data *) rewrite check_shape_data in E.
    destruct (ctor_args D d args tag) as [cts|] eqn:EC; [|discriminate].
    econstructor; [exact EC|]. clear EC.
    revert cts E. induction H as [|w vs Hw _ IH]; intros [|u cts] E; simpl in E; try discriminate.
    + constructor.
    + apply andb_true_iff in E. destruct E. constructor; auto.
  - (* record *) rewrite check_shape_rcd in E.
    revert fs0 E. induction H as [|f fs Hf _ IH]; intros [|ft fts] E; simpl in E; try discriminate.
    + constructor.
    + apply andb_true_iff in E. destruct E as [E E3]. apply andb_true_iff in E. destruct E as [E1 E2].
      apply N.eqb_eq in E1. constructor; auto.
  - (* array *) rewrite check_shape_arr in E.
    induction H as [|w vs Hw _ IH]; simpl in E.
    + constructor.
    + apply andb_true_iff in E. destruct E. constructor; auto.
Qed.

Lemma shaped_check_shape : forall D v t, shaped D v t -> check_shape D t v = true.
Proof.
  intros D v. induction v using value_ind_nested; intros t S; inversion S; subst; try reflexivity.
  - (* data *) rewrite check_shape_data.
    match goal with HC : ctor_args _ _ _ _ = Some _ |- _ => rewrite HC; clear HC end.
    match goal with HF : Forall2 _ vs ?cts |- _ => revert cts HF end. clear S.
    induction H as [|w vs Hw _ IH]; intros cts F; inversion F; subst; simpl.
    + reflexivity.
    + rewrite (Hw _ ltac:(eassumption)). simpl. auto.
  - (* record *) rewrite check_shape_rcd.
    clear S. match goal with HF : Forall2 _ fs ?fts |- _ => revert fts HF end.
    induction H as [|f fs Hf _ IH]; intros fts F; inversion F as [|? ft ? ? [E1 E2] F']; subst; simpl.
    + reflexivity.
    + rewrite E1, N.eqb_refl, (Hf _ E2). simpl. auto.
  - (* array *) rewrite check_shape_arr.
    match goal with HF : Forall _ vs |- _ => revert HF end. clear S.
    induction H as [|w vs Hw _ IH]; intros F; simpl.
    + reflexivity.
    + inversion F; subst. rewrite (Hw _ ltac:(eassumption)). simpl. auto.
Qed.

Theorem check_shape_iff : forall D v t, check_shape D t v = true <-> shaped D v t.
Proof. split; [apply check_shape_sound | apply shaped_check_shape]. Qed.

Corollary vtyp_shaped : forall D v t, vtyp D v t -> shaped D v t.
Proof. intros. apply check_shape_sound. apply vtyp_check_shape. assumption. Qed.

(* on first-order data the shape check is the full value typing *)
Lemma check_strict_data : forall D d targs tag vs,
  check_strict D (TData d targs) (VData tag vs) =
  match ctor_args D d targs tag with
  | Some cts => shape_list (check_strict D) vs cts
  | None => false
  end.
Proof. reflexivity. Qed.
Lemma check_strict_rcd : forall D fts fs,
  check_strict D (TRcd fts) (VRcd fs) = shape_fields (check_strict D) fs fts.
Proof. reflexivity. Qed.
Lemma check_strict_arr : forall D u vs,
  check_strict D (TArr u) (VArr vs) = shape_all (check_strict D) u vs.
Proof. reflexivity. Qed.

Theorem check_strict_vtyp : forall D v t, check_strict D t v = true -> vtyp D v t.
Proof.
  intros D v. induction v using value_ind_nested; intros t E;
    destruct t; try discriminate E; try constructor.
  - (* data *) rewrite check_strict_data in E.
    destruct (ctor_args D d args tag) as [cts|] eqn:EC; [|discriminate].
    econstructor; [exact EC|]. clear EC.
    revert cts E. induction H as [|w vs Hw _ IH]; intros [|u cts] E; simpl in E; try discriminate.
    + constructor.
    + apply andb_true_iff in E. destruct E. constructor; auto.
  - (* record *) rewrite check_strict_rcd in E.
    revert fs0 E. induction H as [|[l w] fs Hf _ IH]; intros [|[l' u] fts] E; simpl in E; try discriminate.
    + constructor.
    + apply andb_true_iff in E. destruct E as [E E3]. apply andb_true_iff in E. destruct E as [E1 E2].
      apply N.eqb_eq in E1. subst l'. constructor; auto.
  - (* array *) rewrite check_strict_arr in E.
    induction H as [|w vs Hw _ IH]; simpl in E.
    + constructor.
    + apply andb_true_iff in E. destruct E. constructor; auto.
Qed.

Theorem check_strict_check_shape : forall D v t, check_strict D t v = true -> check_shape D t v = true.
Proof. intros. apply vtyp_check_shape. apply check_strict_vtyp. assumption. Qed.

(* ---------------------------------------------------------------- the harness's view *)
Definition raw_list (cr : ty -> rval -> bool) :=
  fix go (vs : list rval) (ts : list ty) {struct vs} : bool :=
    match vs, ts with
    | [], [] => true
    | w :: vs', u :: ts' => cr u w && go vs' ts'
    | _, _ => false
    end.
Definition raw_fields (cr : ty -> rval -> bool) :=
  fix go (vs : list rval) (fts : list (name * ty)) {struct vs} : bool :=
    match vs, fts with
    | [], [] => true
    | w :: vs', ft :: fts' => cr (snd ft) w && go vs' fts'
    | _, _ => false
    end.
Definition raw_all (cr : ty -> rval -> bool) (u : ty) :=
  fix go (vs : list rval) {struct vs} : bool :=
    match vs with
    | [] => true
    | w :: vs' => cr u w && go vs'
    end.

Lemma erase_data : forall tag vs, erase (VData tag vs) = RData tag (map erase vs).
Proof. reflexivity. Qed.
Lemma erase_rcd : forall fs, erase (VRcd fs) = RData 0 (map (fun f => erase (snd f)) fs).
Proof. reflexivity. Qed.
Lemma erase_arr : forall vs, erase (VArr vs) = RArr (map erase vs).
Proof. reflexivity. Qed.

Lemma check_raw_data : forall D d targs tag vs,
  check_raw D (TData d targs) (RData tag vs) =
  match ctor_args D d targs tag with
  | Some cts => raw_list (check_raw D) vs cts
  | None => false
  end.
Proof. reflexivity. Qed.
Lemma check_raw_rcd : forall D fts tag vs,
  check_raw D (TRcd fts) (RData tag vs) = N.eqb tag 0 && raw_fields (check_raw D) vs fts.
Proof. reflexivity. Qed.
Lemma check_raw_arr : forall D u vs,
  check_raw D (TArr u) (RArr vs) = raw_all (check_raw D) u vs.
Proof. reflexivity. Qed.

(* The shape check on what the harness can observe of a value accepts every value that passes
   the model's shape check: the monitor cannot raise a false alarm on a well-shaped value. *)
Theorem check_raw_erase : forall D v t, check_shape D t v = true -> check_raw D t (erase v) = true.
Proof.
  intros D v. induction v using value_ind_nested; intros t E;
    destruct t; try discriminate E; try reflexivity.
  - (* data *) rewrite check_shape_data in E. rewrite erase_data, check_raw_data.
    destruct (ctor_args D d args tag) as [cts|]; [|discriminate].
    revert cts E. induction H as [|w vs Hw _ IH]; intros [|u cts] E; simpl in *; try discriminate.
    + reflexivity.
    + apply andb_true_iff in E. destruct E as [E1 E2]. rewrite (Hw _ E1). simpl. auto.
  - (* record *) rewrite check_shape_rcd in E. rewrite erase_rcd, check_raw_rcd. simpl.
    revert fs0 E. induction H as [|f fs Hf _ IH]; intros [|ft fts] E; simpl in *; try discriminate.
    + reflexivity.
    + apply andb_true_iff in E. destruct E as [E E3]. apply andb_true_iff in E. destruct E as [E1 E2].
      rewrite (Hf _ E2). simpl. auto.
  - (* array *) rewrite check_shape_arr in E. rewrite erase_arr, check_raw_arr.
    induction H as [|w vs Hw _ IH]; simpl in *.
    + reflexivity.
    + apply andb_true_iff in E. destruct E as [E1 E2]. rewrite (Hw _ E1). simpl. auto.
Qed.

(* ---------------------------------------------------------------- type soundness *)
(* Programs the (model) checker accepts never go wrong, for every fuel and every initial log;
   a returned value has the shape of the program's type. *)
Theorem type_soundness : forall D e t, decls_ok D -> has_type D [] e t ->
  forall n l,
    fst (eval n [] e l) <> Stuck /\
    (forall v l', eval n [] e l = (Ok v, l') -> check_shape D t v = true).
Proof.
  intros D e t HD Ht n l.
  pose proof (eval_safe D HD n [] e t [] l Ht (ET_nil D)) as K. unfold mres in K.
  split.
  - intros E. rewrite E in K. exact K.
  - intros v l' E. rewrite E in K. simpl in K. apply vtyp_check_shape. exact K.
Qed.

(* the same, in any well-typed environment and with the full value typing *)
Theorem type_soundness_open : forall D G e t r, decls_ok D -> has_type D G e t -> env_typ D r G ->
  forall n l,
    fst (eval n r e l) <> Stuck /\
    (forall v l', eval n r e l = (Ok v, l') -> vtyp D v t).
Proof.
  intros D G e t r HD Ht Hr n l.
  pose proof (eval_safe D HD n G e t r l Ht Hr) as K. unfold mres in K.
  split.
  - intros E. rewrite E in K. exact K.
  - intros v l' E. rewrite E in K. exact K.
Qed.

(* what the harness checks on the real VM's value is implied for the model's *)
Corollary type_soundness_observed : forall D e t, decls_ok D -> has_type D [] e t ->
  forall n l v l', eval n [] e l = (Ok v, l') -> check_raw D t (erase v) = true.
Proof.
  intros D e t HD Ht n l v l' E. apply check_raw_erase.
  exact (proj2 (type_soundness D e t HD Ht n l) v l' E).
Qed.

(* contrapositive: a program the reference semantics gets stuck on has no type *)
Corollary stuck_untypable : forall D e n l, decls_ok D ->
  fst (eval n [] e l) = Stuck -> forall t, ~ has_type D [] e t.
Proof.
  intros D e n l HD E t Ht. exact (proj1 (type_soundness D e t HD Ht n l) E).
Qed.

(* ---------------------------------------------------------------- derived HM-style rules *)
(* monomorphic let / rec are instances of the scheme rules *)
Lemma T_Let_mono : forall D G x e1 e2 t1 t,
  has_type D G e1 t1 -> has_type D ((x, mono t1) :: G) e2 t -> has_type D G (ELet (PVar x) e1 e2) t.
Proof.
  intros. eapply T_LetGen with (S := mono t1); [exists t1; reflexivity | | assumption].
  intros t' <-. assumption.
Qed.

(* HM generalisation: e1 typable at every substitution instance of t1 *)
Lemma T_Let_HM : forall D G x e1 e2 t1 t,
  (forall s, has_type D G e1 (subst s t1)) ->
  has_type D ((x, fun t' => exists s, t' = subst s t1) :: G) e2 t ->
  has_type D G (ELet (PVar x) e1 e2) t.
Proof.
  intros D G x e1 e2 t1 t H1 H2. eapply T_LetGen; [| |exact H2].
  - exists (subst [] t1), []. reflexivity.
  - intros t' [s ->]. apply H1.
Qed.

(* ---------------------------------------------------------------- witnesses *)
(* the system is not vacuous: the polymorphic identity used at two types … *)
Example poly_id_typable : forall D, decls_ok D ->
  has_type D [] (ELet (PVar 1%N) (ELam [2%N] (EVar 2%N))
                   (ETup [EApp (EVar 1%N) [ELit (LInt 3)]; EApp (EVar 1%N) [ELit (LStr [])]]))
           (ttuple [TInt; TStr]).
Proof.
  intros D HD.
  eapply T_LetGen with (S := fun t => exists a, t = arrows [a] a).
  - exists (arrows [TInt] TInt), TInt. reflexivity.
  - intros t [a ->]. apply T_Lam; [discriminate | reflexivity |]. simpl.
    eapply T_Var; [reflexivity | reflexivity].
  - apply T_Tup. repeat constructor.
    + eapply T_App with (ts := [TInt]); [|repeat constructor; apply (T_Lit D _ (LInt 3))].
      eapply T_Var; [reflexivity|]. exists TInt. reflexivity.
    + eapply T_App with (ts := [TStr]); [|repeat constructor; apply (T_Lit D _ (LStr []))].
      eapply T_Var; [reflexivity|]. exists TStr. reflexivity.
Qed.

(* … a rec group, polymorphic in its body: rec f x = f x in (f 1, f "") … *)
Example rec_typable : forall D, decls_ok D ->
  has_type D [] (ERec [(1%N, ([2%N], EApp (EVar 1%N) [EVar 2%N]))]
                   (ETup [EApp (EVar 1%N) [ELit (LInt 1)]; EApp (EVar 1%N) [ELit (LStr [])]]))
           (ttuple [TInt; TByte]).
Proof.
  intros D HD.
  eapply T_Rec with (Gs := fun Gg => exists a b, Gg = [(1%N, arrows [a] b)]).
  - intros Gg [a [b ->]]. constructor; [|constructor]. split; [reflexivity|].
    exists [a], b. simpl. repeat split; try discriminate.
    eapply T_App with (ts := [a]).
    + eapply T_Var; [reflexivity | reflexivity].
    + repeat constructor. eapply T_Var; [reflexivity | reflexivity].
  - apply T_Tup. repeat constructor.
    + eapply T_App with (ts := [TInt]); [|repeat constructor; apply (T_Lit D _ (LInt 1))].
      eapply T_Var; [reflexivity|]. simpl. exists [(1%N, arrows [TInt] TInt)]. split; [exists TInt, TInt; reflexivity | reflexivity].
    + eapply T_App with (ts := [TStr]); [|repeat constructor; apply (T_Lit D _ (LStr []))].
      eapply T_Var; [reflexivity|]. simpl. exists [(1%N, arrows [TStr] TByte)]. split; [exists TStr, TByte; reflexivity | reflexivity].
Qed.

(* … and `1 2` ("Cannot call 1") has no type *)
Example cannot_call_untypable : forall D t, decls_ok D ->
  ~ has_type D [] (EApp (ELit (LInt 1)) [ELit (LInt 2)]) t.
Proof.
  intros D t HD. apply (stuck_untypable D _ 3 [] HD). reflexivity.
Qed.
