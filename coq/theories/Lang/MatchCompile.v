(* Gallina port of the decision logic of vm/src/core/mod.rs `PatternTranslator`
   (`translate`, `varcons_compile`, `compile_constructor`, `compile_literal`,
   `compile_variable`): nested `match` equations are compiled column by column,
   - the equations are split into maximal runs ("groups") of consecutive equations whose first
     pattern has the same kind (variable / constructor / literal)      [translate: chunk_by varcon]
   - the groups are folded from the right: the code for the later groups is the `default` of
     the earlier ones                                                    [translate: rev().fold]
   - a constructor group is regrouped by constructor (first-occurrence order), each constructor
     gets one alternative whose body matches the sub-patterns followed by the remaining
     columns; constructors that do not occur fall to `default`          [compile_constructor]
   - a literal group likewise, always with a `default` alternative      [compile_literal]
   - a variable group drops the column                                  [compile_variable]

   This file models the restriction to constructor, literal and variable columns (records /
   tuples are a single-constructor case; `as` patterns and binder hoisting only rename).  The
   Rust code *emits* single-level `match` expressions; here the same recursion is run on the
   scrutinee values, i.e. the emitted decision tree is interpreted while it is built.  Variable
   patterns are wildcards and an equation's right-hand side is its index: the theorem is about
   which equation is selected. *)
From Coq Require Import List ZArith NArith Bool.
Import ListNotations.

Inductive spat := SWild | SCon (tag : N) (args : list spat) | SLit (z : Z).
Inductive sval := SVCon (tag : N) (args : list sval) | SVLit (z : Z).

Definition row := (list spat * nat)%type.

(* ---- reference: first equation, in source order, all of whose patterns match ---- *)
Fixpoint smatch (p : spat) (v : sval) {struct p} : bool :=
  match p with
  | SWild => true
  | SLit z => match v with SVLit z' => Z.eqb z z' | _ => false end
  | SCon t ps =>
      match v with
      | SVCon t' vs =>
          N.eqb t t' &&
          (fix go (ps : list spat) (vs : list sval) {struct ps} : bool :=
             match ps, vs with
             | [], [] => true
             | q :: ps', w :: vs' => smatch q w && go ps' vs'
             | _, _ => false
             end) ps vs
      | _ => false
      end
  end.

Fixpoint smatch_list (ps : list spat) (vs : list sval) : bool :=
  match ps, vs with
  | [], [] => true
  | q :: ps', w :: vs' => smatch q w && smatch_list ps' vs'
  | _, _ => false
  end.

Fixpoint first_row (rows : list row) (vs : list sval) : option nat :=
  match rows with
  | [] => None
  | (ps, k) :: rows' => if smatch_list ps vs then Some k else first_row rows' vs
  end.

(* ---- the translation ---- *)
Inductive kind := KVar | KCon | KLit.
Definition kind_eqb (a b : kind) : bool :=
  match a, b with KVar, KVar | KCon, KCon | KLit, KLit => true | _, _ => false end.
Definition kind_of (p : spat) : kind :=
  match p with SWild => KVar | SCon _ _ => KCon | SLit _ => KLit end.
Definition row_kind (r : row) : kind :=
  match fst r with p :: _ => kind_of p | [] => KVar end.

(* maximal runs of consecutive rows with the same head kind *)
Fixpoint chunks (rows : list row) : list (kind * list row) :=
  match rows with
  | [] => []
  | r :: rows' =>
      match chunks rows' with
      | (k, g) :: cs => if kind_eqb (row_kind r) k then (k, r :: g) :: cs else (row_kind r, [r]) :: (k, g) :: cs
      | [] => [(row_kind r, [r])]
      end
  end.

Definition tail_row (r : row) : row := (tl (fst r), snd r).

(* the rows of a constructor group headed by [tag], sub-patterns prepended *)
Fixpoint select_con (tag : N) (g : list row) : list row :=
  match g with
  | [] => []
  | (SCon t ps :: rest, k) :: g' =>
      if N.eqb t tag then (ps ++ rest, k) :: select_con tag g' else select_con tag g'
  | _ :: g' => select_con tag g'
  end.

Fixpoint select_lit (z : Z) (g : list row) : list row :=
  match g with
  | [] => []
  | (SLit z' :: rest, k) :: g' =>
      if Z.eqb z' z then (rest, k) :: select_lit z g' else select_lit z g'
  | _ :: g' => select_lit z g'
  end.

(* [translate fuel default vs rows]: None = out of fuel; Some None = the "Unmatched pattern"
   default; Some (Some k) = right-hand side k. *)
Fixpoint translate (fuel : nat) (default : option nat) (vs : list sval) (rows : list row)
  : option (option nat) :=
  match fuel with
  | O => None
  | S f =>
      match vs with
      | [] => Some (match rows with [] => default | r :: _ => Some (snd r) end)
      | v :: rest =>
          fold_right
            (fun (c : kind * list row) (dflt : option (option nat)) =>
               match dflt with
               | None => None
               | Some d =>
                   match fst c with
                   | KVar => translate f d rest (map tail_row (snd c))
                   | KCon =>
                       match v with
                       | SVCon tag args =>
                           match select_con tag (snd c) with
                           | [] => Some d                                   (* default alternative *)
                           | sel => translate f d (args ++ rest) sel
                           end
                       | SVLit _ => Some d
                       end
                   | KLit =>
                       match v with
                       | SVLit z =>
                           match select_lit z (snd c) with
                           | [] => Some d
                           | sel => translate f d rest sel
                           end
                       | SVCon _ _ => Some d
                       end
                   end
               end)
            (Some default) (chunks rows)
      end
  end.

(* size measure that bounds the fuel needed *)
Fixpoint spat_size (p : spat) : nat :=
  match p with
  | SWild => 1
  | SLit _ => 1
  | SCon _ ps => S ((fix go (ps : list spat) : nat := match ps with [] => 0 | q :: ps' => spat_size q + go ps' end) ps)
  end.
Fixpoint pats_size (ps : list spat) : nat :=
  match ps with [] => 0 | q :: ps' => spat_size q + pats_size ps' end.
Fixpoint rows_size (rows : list row) : nat :=
  match rows with [] => 0 | r :: rows' => pats_size (fst r) + rows_size rows' end.

(* well-formedness: every row has as many patterns as there are scrutinee values, and the
   sub-patterns of a constructor pattern agree in number with the fields of the value (what the
   type checker guarantees) *)
Fixpoint wf_pat (p : spat) (v : sval) {struct p} : bool :=
  match p with
  | SWild => true
  | SLit _ => match v with SVLit _ => true | _ => false end
  | SCon t ps =>
      match v with
      | SVCon t' vs =>
          if N.eqb t t' then
            (fix go (ps : list spat) (vs : list sval) {struct ps} : bool :=
               match ps, vs with
               | [], [] => true
               | q :: ps', w :: vs' => wf_pat q w && go ps' vs'
               | _, _ => false
               end) ps vs
          else true
      | _ => false
      end
  end.
Fixpoint wf_pats (ps : list spat) (vs : list sval) : bool :=
  match ps, vs with
  | [], [] => true
  | q :: ps', w :: vs' => wf_pat q w && wf_pats ps' vs'
  | _, _ => false
  end.
Definition wf_rows (rows : list row) (vs : list sval) : bool :=
  forallb (fun r => wf_pats (fst r) vs) rows.
