(* C16 — determinism: theorems about Lang/Rename.v.
   1. eval_rename_invariant: evaluation commutes with every injective renaming of variables
      (whole MiniGluon, by induction on fuel) — nothing in the semantics depends on which
      symbols were chosen; first-order outcomes and the effect log are EQUAL.
   2. group_order_perm_invariant: grouping through a hash table read out by the insertion-order
      vector is independent of the table's internal order; iterating the table is not.
   3. canon_rename / canon_idempotent for the first-occurrence canonicaliser of type variables. *)
From Coq Require Import List ZArith NArith Bool Lia Permutation Arith.
From GV Require Import Lang.Syntax Lang.Eval Lang.Rename.
Import ListNotations.

(* ------------------------------------------------------------------ induction principles *)
Section PatInd.
  Variable P : pat -> Prop.
  Hypothesis HWild : P PWild.
  Hypothesis HVar : forall x, P (PVar x).
  Hypothesis HLit : forall l, P (PLit l).
  Hypothesis HCon : forall t ps, Forall P ps -> P (PCon t ps).
  Hypothesis HRcd : forall fs, Forall (fun lp => P (snd lp)) fs -> P (PRcd fs).
  Hypothesis HTup : forall ps, Forall P ps -> P (PTup ps).
  Hypothesis HAs : forall x q, P q -> P (PAs x q).

  Fixpoint pat_ind' (p : pat) : P p :=
    match p with
    | PWild => HWild
    | PVar x => HVar x
    | PLit l => HLit l
    | PCon t ps =>
        HCon t ps ((fix go (ps : list pat) : Forall P ps :=
                      match ps with
                      | [] => Forall_nil _
                      | q :: ps' => Forall_cons _ (pat_ind' q) (go ps')
                      end) ps)
    | PRcd fs =>
        HRcd fs ((fix go (fs : list (name * pat)) : Forall (fun lp => P (snd lp)) fs :=
                    match fs with
                    | [] => Forall_nil _
                    | lp :: fs' => Forall_cons _ (pat_ind' (snd lp)) (go fs')
                    end) fs)
    | PTup ps =>
        HTup ps ((fix go (ps : list pat) : Forall P ps :=
                    match ps with
                    | [] => Forall_nil _
                    | q :: ps' => Forall_cons _ (pat_ind' q) (go ps')
                    end) ps)
    | PAs x q => HAs x q (pat_ind' q)
    end.
End PatInd.

Section ValueInd.
  Variable P : value -> Prop.
  Hypothesis HInt : forall z, P (VInt z).
  Hypothesis HByte : forall z, P (VByte z).
  Hypothesis HFloat : forall z, P (VFloat z).
  Hypothesis HStr : forall b, P (VStr b).
  Hypothesis HData : forall t vs, Forall P vs -> P (VData t vs).
  Hypothesis HRcd : forall fs, Forall (fun lv => P (snd lv)) fs -> P (VRcd fs).
  Hypothesis HArr : forall vs, Forall P vs -> P (VArr vs).
  Hypothesis HClo : forall r g xs b, P (VClo r g xs b).
  Hypothesis HPap : forall f args, P (VPap f args).

  Fixpoint value_ind' (v : value) : P v :=
    match v with
    | VInt z => HInt z
    | VByte z => HByte z
    | VFloat z => HFloat z
    | VStr b => HStr b
    | VData t vs =>
        HData t vs ((fix go (vs : list value) : Forall P vs :=
                       match vs with
                       | [] => Forall_nil _
                       | w :: vs' => Forall_cons _ (value_ind' w) (go vs')
                       end) vs)
    | VRcd fs =>
        HRcd fs ((fix go (fs : list (name * value)) : Forall (fun lv => P (snd lv)) fs :=
                    match fs with
                    | [] => Forall_nil _
                    | lv :: fs' => Forall_cons _ (value_ind' (snd lv)) (go fs')
                    end) fs)
    | VArr vs =>
        HArr vs ((fix go (vs : list value) : Forall P vs :=
                    match vs with
                    | [] => Forall_nil _
                    | w :: vs' => Forall_cons _ (value_ind' w) (go vs')
                    end) vs)
    | VClo r g xs b => HClo r g xs b
    | VPap f args => HPap f args
    end.
End ValueInd.

(* ------------------------------------------------------------------ the monad under a map *)
Definition mrel {A B} (f : A -> B) (m1 : M A) (m2 : M B) : Prop :=
  forall l, m2 l = map_res f (m1 l).

Lemma mrel_ret {A B} (f : A -> B) a : mrel f (ret a) (ret (f a)).
Proof. intro l. reflexivity. Qed.

Lemma mrel_ret' {A B} (f : A -> B) a b : b = f a -> mrel f (ret a) (ret b).
Proof. intros -> l. reflexivity. Qed.

Lemma mrel_fail {A B} (f : A -> B) e : mrel f (fail e) (fail e).
Proof. intro l. reflexivity. Qed.

Lemma mrel_stuck {A B} (f : A -> B) : mrel f stuck stuck.
Proof. intro l. reflexivity. Qed.

Lemma mrel_oof {A B} (f : A -> B) : mrel f out_of_fuel out_of_fuel.
Proof. intro l. reflexivity. Qed.

Lemma mrel_bind {A A' B B'} (f : A -> A') (g : B -> B') m1 m2 k1 k2 :
  mrel f m1 m2 -> (forall a, mrel g (k1 a) (k2 (f a))) -> mrel g (bind m1 k1) (bind m2 k2).
Proof.
  intros H K l. unfold bind. rewrite (H l). unfold map_res.
  destruct (m1 l) as [[a| e | |] l1]; simpl; try reflexivity.
  apply K.
Qed.

(* ------------------------------------------------------------------ 1. renaming *)
Section RenameProofs.
  Variable s : name -> name.
  Hypothesis s_inj : injective s.

  Notation rv := (rename_value s).
  Notation re := (rename_expr s).
  Notation rp := (rename_pat s).
  Notation renv := (rename_env s).
  Notation rvf := (rename_vfields s).

  Lemma s_eqb x y : N.eqb (s x) (s y) = N.eqb x y.
  Proof.
    destruct (N.eqb_spec x y) as [->|H].
    - apply N.eqb_refl.
    - apply N.eqb_neq. intro E. apply H, s_inj, E.
  Qed.

  Lemma renv_app a b : renv (a ++ b) = renv a ++ renv b.
  Proof. apply map_app. Qed.

  Lemma lookup_rename r x : lookup (renv r) (s x) = option_map rv (lookup r x).
  Proof.
    induction r as [|[y v] r IH]; simpl; [reflexivity|].
    rewrite s_eqb. destruct (N.eqb x y); auto.
  Qed.

  Lemma assoc_rename l fs : assoc l (rvf fs) = option_map rv (assoc l fs).
  Proof.
    induction fs as [|[k v] fs IH]; simpl; [reflexivity|].
    destruct (N.eqb l k); auto.
  Qed.

  Lemma has_field_rename l fs : has_field l (rvf fs) = has_field l fs.
  Proof. unfold has_field. rewrite assoc_rename. destruct (assoc l fs); reflexivity. Qed.

  Lemma bind_recs_rename r g : bind_recs (renv r) (rename_recs s g) = renv (bind_recs r g).
  Proof.
    unfold bind_recs. rewrite renv_app. f_equal.
    unfold rename_recs, rename_env. rewrite !map_map. apply map_ext. intros [f [xs b]]. reflexivity.
  Qed.

  Lemma bind_params_rename xs : forall vs r,
    bind_params (map s xs) (map rv vs) (renv r) = renv (bind_params xs vs r).
  Proof.
    induction xs as [|x xs IH]; intros [|v vs] r; simpl; try reflexivity.
    apply (IH vs ((x, v) :: r)).
  Qed.

  Lemma as_bool_rename v : as_bool (rv v) = as_bool v.
  Proof.
    destruct v; try reflexivity. simpl.
    destruct tag as [|p]; [destruct vs; reflexivity|].
    destruct p; try reflexivity. destruct vs; reflexivity.
  Qed.

  Lemma vbool_rename b : rv (vbool b) = vbool b.
  Proof. destruct b; reflexivity. Qed.

  Lemma lit_value_rename l : rv (lit_value l) = lit_value l.
  Proof. destruct l; reflexivity. Qed.

  Lemma lit_matches_rename l v : lit_matches l (rv v) = lit_matches l v.
  Proof. destruct l, v; reflexivity. Qed.

  Lemma check_int_rename z : mrel rv (check_int z) (check_int z).
  Proof. unfold check_int. destruct (_ && _)%bool; intro l; reflexivity. Qed.

  Lemma check_byte_rename z : mrel rv (check_byte z) (check_byte z).
  Proof. unfold check_byte. destruct (_ && _)%bool; intro l; reflexivity. Qed.

  Lemma prim_apply_rename op a b : mrel rv (prim_apply op a b) (prim_apply op (rv a) (rv b)).
  Proof.
    destruct op, a, b; simpl;
      try apply mrel_stuck; try apply check_int_rename; try apply check_byte_rename;
      try (apply mrel_ret'; symmetry; apply vbool_rename);
      try (destruct (Z.eqb _ 0); [apply mrel_fail | apply check_int_rename || apply check_byte_rename]).
  Qed.

  Lemma rcd_update_rename fs base : rcd_update (rvf fs) (rvf base) = rvf (rcd_update fs base).
  Proof.
    unfold rcd_update, rename_vfields. rewrite map_app. f_equal.
    - induction fs as [|[l v] fs IH]; simpl; [reflexivity|].
      fold (rvf base). rewrite has_field_rename. destruct (has_field l base); simpl; [apply IH|].
      f_equal. apply IH.
    - rewrite !map_map. apply map_ext. intros [l v]. simpl.
      fold (rvf fs). rewrite assoc_rename. destruct (assoc l fs); reflexivity.
  Qed.

  Lemma number_fields_rename vs : forall i, number_fields i (map rv vs) = rvf (number_fields i vs).
  Proof. induction vs as [|v vs IH]; intro i; simpl; [reflexivity|]. f_equal. apply IH. Qed.

  (* patterns *)
  Lemma pmatch_rename p : forall v, pmatch (rp p) (rv v) = option_map renv (pmatch p v).
  Proof.
    induction p as [| x | l | t ps IH | fs IH | ps IH | x q IH] using pat_ind'; intro v.
    - reflexivity.
    - reflexivity.
    - simpl. rewrite lit_matches_rename. destruct (lit_matches l v); reflexivity.
    - destruct v; try reflexivity. simpl. destruct (N.eqb t tag); [|reflexivity].
      revert vs. induction IH as [|q ps Hq _ IHps]; intros [|w vs]; simpl; try reflexivity.
      rewrite Hq. destruct (pmatch q w) as [b1|]; simpl; [|reflexivity].
      rewrite IHps. match goal with |- context [option_map renv ?X] => destruct X as [b2|] end; simpl; [|reflexivity].
      rewrite renv_app. reflexivity.
    - destruct v; try reflexivity. simpl. fold (rvf fs0).
      induction IH as [|[l q] fs Hq _ IHfs]; simpl; [reflexivity|].
      rewrite assoc_rename. destruct (assoc l fs0) as [w|]; simpl; [|reflexivity].
      simpl in Hq. rewrite Hq. destruct (pmatch q w) as [b1|]; simpl; [|reflexivity].
      rewrite IHfs. match goal with |- context [option_map renv ?X] => destruct X as [b2|] end; simpl; [|reflexivity].
      rewrite renv_app. reflexivity.
    - destruct v; try reflexivity. simpl.
      revert fs. induction IH as [|q ps Hq _ IHps]; intros [|w vs]; simpl; try reflexivity.
      rewrite Hq. destruct (pmatch q (snd w)) as [b1|]; simpl; [|reflexivity].
      rewrite IHps. match goal with |- context [option_map renv ?X] => destruct X as [b2|] end; simpl; [|reflexivity].
      rewrite renv_app. reflexivity.
    - simpl. rewrite IH. destruct (pmatch q v) as [b|]; simpl; [|reflexivity].
      rewrite renv_app. reflexivity.
  Qed.

  Lemma first_match_rename v alts :
    first_match (rv v) (rename_alts s alts)
    = option_map (fun be => (renv (fst be), re (snd be))) (first_match v alts).
  Proof.
    induction alts as [|[p e] alts IH]; simpl; [reflexivity|].
    rewrite pmatch_rename. destruct (pmatch p v); simpl; [reflexivity|apply IH].
  Qed.

  (* one evaluation step, over any pair of evaluators related by the renaming *)
  Section StepRename.
    Variables ev1 ev2 : env -> expr -> M value.
    Hypothesis EV : forall r e, mrel rv (ev1 r e) (ev2 (renv r) (re e)).

    Lemma eval_list_rename r es :
      mrel (map rv) (eval_list ev1 r es) (eval_list ev2 (renv r) (map re es)).
    Proof.
      induction es as [|e es IH]; simpl.
      - (apply mrel_ret'; reflexivity).
      - eapply mrel_bind; [apply EV|]. intro v.
        eapply mrel_bind; [apply IH|]. intro vs. (apply mrel_ret'; reflexivity).
    Qed.

    Lemma eval_fields_rename r fs :
      mrel rvf (eval_fields ev1 r fs) (eval_fields ev2 (renv r) (rename_fields s fs)).
    Proof.
      induction fs as [|[l e] fs IH]; simpl.
      - (apply mrel_ret'; reflexivity).
      - eapply mrel_bind; [apply EV|]. intro v.
        eapply mrel_bind; [apply IH|]. intro vs. (apply mrel_ret'; reflexivity).
    Qed.

    Lemma apply_rename k : forall f args,
      mrel rv (apply ev1 k f args) (apply ev2 k (rv f) (map rv args)).
    Proof.
      induction k as [|k IH]; intros f [|a args].
      - (apply mrel_ret'; reflexivity).
      - apply mrel_oof.
      - (apply mrel_ret'; reflexivity).
      - destruct f as [z|z|z|b|t vs|fs|vs|env0 grp xs body|f args0]; try apply mrel_stuck.
        + (* closure *)
          change (map rv (a :: args)) with (rv a :: map rv args).
          change (rv (VClo env0 grp xs body)) with (VClo (renv env0) (rename_recs s grp) (map s xs) (re body)).
          cbn [apply].
          change (rv a :: map rv args) with (map rv (a :: args)).
          rewrite !map_length.
          destruct (Nat.ltb (length (a :: args)) (length xs)).
          * (apply mrel_ret'; reflexivity).
          * rewrite firstn_map, skipn_map, bind_recs_rename, bind_params_rename.
            eapply mrel_bind; [apply EV|]. intro res. apply IH.
        + (* partial application *)
          change (rv (VPap f args0)) with (VPap (rv f) (map rv args0)).
          cbn [apply].
          change (rv a :: map rv args) with (map rv (a :: args)).
          rewrite <- map_app. apply IH.
    Qed.

    Lemma eval_step_rename k r e :
      mrel rv (eval_step ev1 k r e) (eval_step ev2 k (renv r) (re e)).
    Proof.
      destruct e; cbn [eval_step rename_expr].
      - (* ELit *) apply mrel_ret'. symmetry. apply lit_value_rename.
      - (* EVar *) rewrite lookup_rename. destruct (lookup r x); simpl; [(apply mrel_ret'; reflexivity) | apply mrel_stuck].
      - (* ELam *) destruct xs; simpl; [apply mrel_stuck | (apply mrel_ret'; reflexivity)].
      - (* EApp *)
        eapply mrel_bind; [apply EV|]. intro fv.
        eapply mrel_bind; [apply eval_list_rename|]. intro vs. apply apply_rename.
      - (* ELet *)
        eapply mrel_bind; [apply EV|]. intro v.
        rewrite pmatch_rename. destruct (pmatch p v) as [b|]; simpl; [|apply mrel_fail].
        rewrite <- renv_app. apply EV.
      - (* ERec *)
        fold (rename_recs s bs). rewrite bind_recs_rename. apply EV.
      - (* EIf *)
        eapply mrel_bind; [apply EV|]. intro v. rewrite as_bool_rename.
        destruct (as_bool v) as [[|]|]; [apply EV | apply EV | apply mrel_stuck].
      - (* EPrim *)
        eapply mrel_bind; [apply EV|]. intro x.
        eapply mrel_bind; [apply EV|]. intro y. apply prim_apply_rename.
      - (* EAnd *)
        eapply mrel_bind; [apply EV|]. intro v. rewrite as_bool_rename.
        destruct (as_bool v) as [[|]|]; [apply EV | (apply mrel_ret'; reflexivity) | apply mrel_stuck].
      - (* EOr *)
        eapply mrel_bind; [apply EV|]. intro v. rewrite as_bool_rename.
        destruct (as_bool v) as [[|]|]; [(apply mrel_ret'; reflexivity) | apply EV | apply mrel_stuck].
      - (* ERcd *)
        fold (rename_fields s fs).
        eapply mrel_bind; [apply eval_fields_rename|]. intro vs. (apply mrel_ret'; reflexivity).
      - (* ERcdU *)
        fold (rename_fields s fs).
        eapply mrel_bind; [apply eval_fields_rename|]. intro vs.
        eapply mrel_bind; [apply EV|]. intro bv.
        destruct bv; try apply mrel_stuck.
        simpl. fold (rvf fs0). rewrite rcd_update_rename. (apply mrel_ret'; reflexivity).
      - (* EProj *)
        eapply mrel_bind; [apply EV|]. intro v.
        destruct v; try apply mrel_stuck.
        simpl. fold (rvf fs). rewrite assoc_rename.
        destruct (assoc l fs); simpl; [(apply mrel_ret'; reflexivity) | apply mrel_stuck].
      - (* ETup *)
        eapply mrel_bind; [apply eval_list_rename|]. intro vs.
        apply mrel_ret'. simpl. rewrite number_fields_rename. reflexivity.
      - (* ECon *)
        eapply mrel_bind; [apply eval_list_rename|]. intro vs. (apply mrel_ret'; reflexivity).
      - (* EArr *)
        eapply mrel_bind; [apply eval_list_rename|]. intro vs. (apply mrel_ret'; reflexivity).
      - (* EAIdx *)
        eapply mrel_bind; [apply EV|]. intro av.
        eapply mrel_bind; [apply EV|]. intro iv.
        destruct av; try apply mrel_stuck; destruct iv; try apply mrel_stuck.
        simpl. rewrite map_length.
        destruct (Z.leb 0 z && Z.ltb z (Z.of_nat (length vs)))%bool; [|apply mrel_fail].
        rewrite nth_error_map. destruct (nth_error vs (Z.to_nat z)); simpl; [(apply mrel_ret'; reflexivity) | apply mrel_stuck].
      - (* EALen *)
        eapply mrel_bind; [apply EV|]. intro av.
        destruct av; try apply mrel_stuck. simpl. rewrite map_length. (apply mrel_ret'; reflexivity).
      - (* EMatch *)
        eapply mrel_bind; [apply EV|]. intro v.
        fold (rename_alts s alts). rewrite first_match_rename.
        destruct (first_match v alts) as [[b e']|]; simpl; [|apply mrel_fail].
        rewrite <- renv_app. apply EV.
      - (* ESeq *)
        eapply mrel_bind; [apply EV|]. intro v. apply EV.
      - (* EError *) apply mrel_fail.
      - (* EEff *)
        eapply mrel_bind; [apply EV|]. intro v.
        destruct v; try apply mrel_stuck. simpl.
        eapply mrel_bind with (f := fun x : unit => x); [intro l; reflexivity|]. intro u. (apply mrel_ret'; reflexivity).
      - (* EAnn *) apply EV.
    Qed.
  End StepRename.

  Lemma eval_rename_mrel n : forall r e, mrel rv (eval n r e) (eval n (renv r) (re e)).
  Proof.
    induction n as [|n IH]; intros r e.
    - apply mrel_oof.
    - simpl. apply eval_step_rename. exact IH.
  Qed.
End RenameProofs.

(* Evaluation commutes with every injective renaming of the variables: the renamed program in
   the renamed environment yields the renamed value (closures renamed inside), the same error,
   the same effect log — for every fuel, environment, expression and initial log. *)
Theorem eval_rename_invariant : forall s, injective s -> forall n r e l,
  eval n (rename_env s r) (rename_expr s e) l = rename_outcome s (eval n r e l).
Proof. intros s Hs n r e l. apply (eval_rename_mrel s Hs n r e l). Qed.

(* stated with the value equivalence [veq] *)
Corollary eval_rename_veq : forall s, injective s -> forall n r e l v l',
  eval n r e l = (Ok v, l') ->
  exists w, eval n (rename_env s r) (rename_expr s e) l = (Ok w, l') /\ veq s v w.
Proof.
  intros s Hs n r e l v l' H. exists (rename_value s v). split; [|reflexivity].
  rewrite eval_rename_invariant by exact Hs. rewrite H. reflexivity.
Qed.

Corollary eval_rename_failure : forall s, injective s -> forall n r e l l',
  (forall x, eval n r e l = (Fail x, l') ->
     eval n (rename_env s r) (rename_expr s e) l = (Fail x, l')) /\
  (eval n r e l = (Stuck, l') -> eval n (rename_env s r) (rename_expr s e) l = (Stuck, l')) /\
  (eval n r e l = (OutOfFuel, l') -> eval n (rename_env s r) (rename_expr s e) l = (OutOfFuel, l')).
Proof.
  intros s Hs n r e l l'. repeat split; intros; rewrite eval_rename_invariant by exact Hs;
    match goal with H : eval _ _ _ _ = _ |- _ => rewrite H end; reflexivity.
Qed.

(* values without functions do not change at all *)
Lemma first_order_rename s v : first_order v = true -> rename_value s v = v.
Proof.
  induction v as [z|z|z|b|t vs IH|fs IH|vs IH|r g xs b|f args] using value_ind'; simpl; intro H;
    try reflexivity; try discriminate.
  - f_equal. induction IH as [|w vs Hw _ IHvs]; simpl in *; [reflexivity|].
    apply andb_prop in H. destruct H as [H1 H2]. rewrite Hw, IHvs by assumption. reflexivity.
  - f_equal. induction IH as [|[l w] fs Hw _ IHfs]; simpl in *; [reflexivity|].
    apply andb_prop in H. destruct H as [H1 H2]. rewrite Hw, IHfs by assumption. reflexivity.
  - f_equal. induction IH as [|w vs Hw _ IHvs]; simpl in *; [reflexivity|].
    apply andb_prop in H. destruct H as [H1 H2]. rewrite Hw, IHvs by assumption. reflexivity.
Qed.

Theorem eval_rename_first_order : forall s, injective s -> forall n e v l,
  run n e = (Ok v, l) -> first_order v = true -> run n (rename_expr s e) = (Ok v, l).
Proof.
  intros s Hs n e v l H F. unfold run in *.
  change (@nil (name * value)) with (rename_env s []).
  rewrite eval_rename_invariant by exact Hs. rewrite H.
  unfold rename_outcome, map_res. simpl. rewrite first_order_rename by exact F. reflexivity.
Qed.

(* the rendering the ties compare (functions opaque) is the same for EVERY program *)
Lemma shape_rename s v : shape (rename_value s v) = shape v.
Proof.
  induction v as [z|z|z|b|t vs IH|fs IH|vs IH|r g xs b|f args] using value_ind'; simpl;
    try reflexivity.
  - f_equal. rewrite map_map. induction IH as [|w vs Hw _ IHvs]; simpl; [reflexivity|].
    rewrite Hw, IHvs. reflexivity.
  - f_equal. rewrite map_map. induction IH as [|[l w] fs Hw _ IHfs]; simpl in *; [reflexivity|].
    rewrite Hw, IHfs. reflexivity.
  - f_equal. rewrite map_map. induction IH as [|w vs Hw _ IHvs]; simpl; [reflexivity|].
    rewrite Hw, IHvs. reflexivity.
Qed.

Theorem observe_rename_invariant : forall s, injective s -> forall n e,
  observe (run n (rename_expr s e)) = observe (run n e).
Proof.
  intros s Hs n e. unfold run.
  change (@nil (name * value)) with (rename_env s []) at 1.
  rewrite eval_rename_invariant by exact Hs.
  unfold observe, rename_outcome, map_res.
  destruct (eval n [] e []) as [[v| x | |] l]; simpl; try reflexivity.
  rewrite shape_rename. reflexivity.
Qed.

(* injectivity is necessary: merging two variables changes a result *)
Theorem eval_rename_noninjective_refuted :
  exists (s : name -> name) n e, run n (rename_expr s e) <> rename_outcome s (run n e).
Proof.
  exists (fun _ => 1000%N), 10%nat,
    (ELet (PVar 1000%N) (ELit (LInt 1)) (ELet (PVar 1001%N) (ELit (LInt 2)) (EVar 1000%N))).
  vm_compute. discriminate.
Qed.

(* ------------------------------------------------------------------ 2. grouping *)
Section GroupProofs.
  Variables K A : Type.
  Variable keqb : K -> K -> bool.
  Hypothesis keqb_spec : forall a b, keqb a b = true <-> a = b.

  Notation table := (list (K * list A)).

  Lemma keqb_refl k : keqb k k = true.
  Proof. apply keqb_spec. reflexivity. Qed.

  Lemma keqb_neq (a b : K) : a <> b -> keqb a b = false.
  Proof. intro H. destruct (keqb a b) eqn:E; [|reflexivity]. apply keqb_spec in E. contradiction. Qed.

  Lemma tget_none_notin k (t : table) : tget keqb k t = None <-> ~ In k (map fst t).
  Proof.
    induction t as [|e t IH]; simpl.
    - split; auto.
    - destruct (keqb k (fst e)) eqn:E.
      + apply keqb_spec in E. subst. split; [discriminate|]. intro H. exfalso. apply H. left. reflexivity.
      + rewrite IH. split.
        * intros H [H1|H1]; [|auto]. subst. rewrite keqb_refl in E. discriminate.
        * intros H H1. apply H. right. exact H1.
  Qed.

  Lemma tpush_none k a (t : table) : tpush keqb k a t = None <-> tget keqb k t = None.
  Proof.
    induction t as [|e t IH]; simpl; [tauto|].
    destruct (keqb k (fst e)); [split; discriminate|].
    destruct (tpush keqb k a t); [|tauto].
    split; [discriminate|]. intro H. apply IH in H. discriminate.
  Qed.

  Lemma tpush_get k a (t t' : table) : tpush keqb k a t = Some t' ->
    map fst t' = map fst t /\
    forall k', tget keqb k' t' =
               if keqb k' k then option_map (fun x => x ++ [a]) (tget keqb k t) else tget keqb k' t.
  Proof.
    revert t'. induction t as [|e t IH]; simpl; intros t' H; [discriminate|].
    destruct (keqb k (fst e)) eqn:E.
    - injection H as <-. apply keqb_spec in E. subst k. split; [reflexivity|].
      intro k'. simpl. destruct (keqb k' (fst e)); reflexivity.
    - destruct (tpush keqb k a t) as [t''|] eqn:P; [|discriminate]. injection H as <-.
      destruct (IH t'' eq_refl) as [F G]. split; [simpl; f_equal; exact F|].
      intro k'. simpl. destruct (keqb k' (fst e)) eqn:E'.
      + destruct (keqb k' k) eqn:E''; [|reflexivity].
        apply keqb_spec in E'. apply keqb_spec in E''. subst. rewrite keqb_refl in E. discriminate.
      + apply G.
  Qed.

  Lemma insert_at_get n k a (t : table) : tget keqb k t = None ->
    forall k', tget keqb k' (insert_at n (k, [a]) t) = if keqb k' k then Some [a] else tget keqb k' t.
  Proof.
    revert n. induction t as [|e t IH]; intros n H k'.
    - destruct n; simpl; destruct (keqb k' k); reflexivity.
    - simpl in H. destruct (keqb k (fst e)) eqn:E; [discriminate|].
      destruct n; simpl.
      + destruct (keqb k' k); reflexivity.
      + destruct (keqb k' (fst e)) eqn:E'.
        * destruct (keqb k' k) eqn:E''; [|reflexivity].
          apply keqb_spec in E'. apply keqb_spec in E''. subst. rewrite keqb_refl in E. discriminate.
        * apply IH. exact H.
  Qed.

  Lemma insert_at_perm {X} n (x : X) l : Permutation (insert_at n x l) (x :: l).
  Proof.
    revert n. induction l as [|y l IH]; intros [|n]; simpl; try apply Permutation_refl.
    eapply perm_trans; [apply perm_skip, IH | apply perm_swap].
  Qed.

  (* the specification on a group list with distinct keys *)
  Lemma add_group_present k a (order : list K) (f : K -> list A) :
    NoDup order -> In k order ->
    add_group keqb k a (map (fun k' => (k', f k')) order)
    = map (fun k' => (k', if keqb k' k then f k' ++ [a] else f k')) order.
  Proof.
    induction order as [|k0 order IH]; intros ND HI; [destruct HI|].
    inversion ND as [|? ? Hn ND']; subst. simpl.
    destruct (keqb k k0) eqn:E.
    - apply keqb_spec in E. subst k0. rewrite keqb_refl. f_equal.
      apply map_ext_in. intros k' Hk'. rewrite keqb_neq; [reflexivity|]. intro; subst; contradiction.
    - destruct HI as [->|HI]; [rewrite keqb_refl in E; discriminate|].
      rewrite (keqb_neq k0 k); [|intro; subst; rewrite keqb_refl in E; discriminate].
      f_equal. apply IH; assumption.
  Qed.

  Lemma add_group_absent k a (gs : list (K * list A)) :
    ~ In k (map fst gs) -> add_group keqb k a gs = gs ++ [(k, [a])].
  Proof.
    induction gs as [|g gs IH]; simpl; intro H; [reflexivity|].
    rewrite keqb_neq; [|intro; subst; apply H; left; reflexivity].
    f_equal. apply IH. intro H1. apply H. right. exact H1.
  Qed.

  Section WithPlace.
    Variable place : K -> table -> nat.

    (* invariant between the specification's group list and the implementation's state *)
    Definition ginv (gs : list (K * list A)) (st : list K * table) : Prop :=
      NoDup (fst st) /\
      (forall k, In k (fst st) <-> tget keqb k (snd st) <> None) /\
      gs = readout keqb (fst st) (snd st).

    Lemma ginv_step gs st ka : ginv gs st ->
      ginv (add_group keqb (fst ka) (snd ka) gs) (gstep keqb place st ka).
    Proof.
      destruct st as [order t]. destruct ka as [k a]. intros (ND & Dom & ->). simpl in *.
      unfold gstep. simpl. destruct (tpush keqb k a t) as [t'|] eqn:P.
      - (* the key has a group already *)
        destruct (tpush_get _ _ _ _ P) as [F G]. simpl.
        assert (Hin : In k order).
        { apply Dom. intro H. apply tpush_none with (a := a) in H. congruence. }
        split; [exact ND|]. split.
        + intro k'. rewrite G. destruct (keqb k' k) eqn:E.
          * apply keqb_spec in E. subst k'. split; [|intros _; exact Hin].
            intros _. destruct (tget keqb k t) eqn:T; simpl; [discriminate|].
            apply Dom in Hin. contradiction.
          * apply Dom.
        + unfold readout. rewrite (add_group_present k a order (fun k' => tgetd keqb k' t) ND Hin).
          apply map_ext. intro k'. f_equal. unfold tgetd. rewrite G.
          destruct (keqb k' k) eqn:E; [|reflexivity].
          apply keqb_spec in E. subst k'. destruct (tget keqb k t) eqn:T; [reflexivity|].
          apply Dom in Hin. contradiction.
      - (* a new key: pushed on the order vector, placed anywhere in the table *)
        apply tpush_none in P. simpl.
        assert (Hnin : ~ In k order). { intro H. apply Dom in H. contradiction. }
        pose proof (insert_at_get (place k t) k a t P) as G.
        unfold ginv. cbn [fst snd].
        split; [|split].
        + eapply Permutation_NoDup; [apply Permutation_cons_append|].
          constructor; assumption.
        + intro k'. rewrite G, in_app_iff. simpl. destruct (keqb k' k) eqn:E.
          * apply keqb_spec in E. subst k'. split; [discriminate | intros _; right; left; reflexivity].
          * rewrite Dom. split; [intros [H|[H|[]]]; [exact H|] | intro H; left; exact H].
            subst k'. rewrite keqb_refl in E. discriminate.
        + rewrite add_group_absent.
          * unfold readout. rewrite map_app. simpl. f_equal.
            -- apply map_ext_in. intros k' Hk'. f_equal. unfold tgetd. rewrite G.
               rewrite keqb_neq; [reflexivity|]. intro; subst; contradiction.
            -- unfold tgetd. rewrite G, keqb_refl. reflexivity.
          * unfold readout. rewrite map_map. simpl. rewrite map_id. exact Hnin.
    Qed.

    Lemma ginv_fold l : forall gs st, ginv gs st ->
      ginv (fold_left (fun gs ka => add_group keqb (fst ka) (snd ka) gs) l gs)
           (fold_left (gstep keqb place) l st).
    Proof.
      induction l as [|ka l IH]; intros gs st H; simpl; [exact H|].
      apply IH. apply ginv_step. exact H.
    Qed.

    Lemma impl_group_spec l : impl_group keqb place l = group_by_key keqb l.
    Proof.
      unfold impl_group, impl_state, group_by_key.
      assert (H0 : ginv [] ([], [])).
      { split; [constructor|]. split; [|reflexivity]. intro k. simpl. split; [intros []|intro H; apply H; reflexivity]. }
      destruct (ginv_fold l [] ([], []) H0) as (_ & _ & E). symmetry. exact E.
    Qed.
  End WithPlace.

  (* reading the table out through the order vector does not see the table's internal order *)
  Lemma tget_perm (t t' : table) : Permutation t t' -> NoDup (map fst t) ->
    forall k, tget keqb k t = tget keqb k t'.
  Proof.
    induction 1 as [|e t t' HP IH|e1 e2 t|t1 t2 t3 HP1 IH1 HP2 IH2]; intros ND k.
    - reflexivity.
    - simpl. inversion ND; subst. destruct (keqb k (fst e)); [reflexivity|apply IH; assumption].
    - simpl. inversion ND as [|? ? Hn ND']; subst.
      destruct (keqb k (fst e1)) eqn:E1, (keqb k (fst e2)) eqn:E2; try reflexivity.
      apply keqb_spec in E1. apply keqb_spec in E2. exfalso. apply Hn. left. congruence.
    - rewrite IH1 by exact ND. apply IH2.
      eapply Permutation_NoDup; [apply Permutation_map, HP1 | exact ND].
  Qed.
End GroupProofs.

(* The alternatives the match compiler emits do not depend on the hash table's iteration order:
   for EVERY placement oracle the implementation computes the specification. *)
Theorem group_order_perm_invariant :
  forall (K A : Type) (keqb : K -> K -> bool),
    (forall a b, keqb a b = true <-> a = b) ->
    forall (place : K -> list (K * list A) -> nat) (l : list (K * A)),
      impl_group keqb place l = group_by_key keqb l.
Proof. intros K A keqb H place l. apply impl_group_spec. exact H. Qed.

Corollary group_by_key_deterministic :
  forall (K A : Type) (keqb : K -> K -> bool),
    (forall a b, keqb a b = true <-> a = b) ->
    forall (place1 place2 : K -> list (K * list A) -> nat) (l : list (K * A)),
      impl_group keqb place1 l = impl_group keqb place2 l.
Proof.
  intros K A keqb H p1 p2 l. rewrite !group_order_perm_invariant by exact H. reflexivity.
Qed.

Theorem group_readout_perm_invariant :
  forall (K A : Type) (keqb : K -> K -> bool),
    (forall a b, keqb a b = true <-> a = b) ->
    forall (order : list K) (t t' : list (K * list A)),
      Permutation t t' -> NoDup (map fst t) -> readout keqb order t = readout keqb order t'.
Proof.
  intros K A keqb H order t t' HP ND. unfold readout. apply map_ext. intro k. f_equal.
  unfold tgetd. rewrite (tget_perm K A keqb H t t' HP ND k). reflexivity.
Qed.

(* … whereas iterating the table itself (what `group_order` exists to avoid) does. *)
Theorem group_iteration_order_refuted :
  exists (place1 place2 : N -> list (N * list nat) -> nat) (l : list (N * nat)),
    impl_group_by_iteration N.eqb place1 l <> impl_group_by_iteration N.eqb place2 l.
Proof.
  exists (fun _ _ => 0%nat), (fun _ t => length t), [(1%N, 0%nat); (2%N, 1%nat)].
  vm_compute. discriminate.
Qed.

(* ------------------------------------------------------------------ 3. canonical type variables *)
Lemma rename_tyvars_comp f g t : rename_tyvars f (rename_tyvars g t) = rename_tyvars (fun x => f (g x)) t.
Proof. induction t; simpl; congruence. Qed.

Lemma rename_tyvars_ext_in f g t :
  (forall x, In x (tyvars t) -> f x = g x) -> rename_tyvars f t = rename_tyvars g t.
Proof.
  induction t as [x|c|a IHa b IHb|x b IHb]; simpl; intro H.
  - rewrite H by (left; reflexivity). reflexivity.
  - reflexivity.
  - rewrite IHa, IHb; [reflexivity| |]; intros y Hy; apply H; apply in_app_iff; auto.
  - rewrite H by (left; reflexivity). rewrite IHb; [reflexivity|]. intros y Hy. apply H. right. exact Hy.
Qed.

Lemma tyvars_rename f t : tyvars (rename_tyvars f t) = map f (tyvars t).
Proof.
  induction t as [x|c|a IHa b IHb|x b IHb]; simpl; try reflexivity.
  - rewrite map_app. congruence.
  - congruence.
Qed.

Lemma memb_in x l : memb x l = true <-> In x l.
Proof.
  induction l as [|y l IH]; simpl; [split; [discriminate|tauto]|].
  rewrite orb_true_iff, IH, N.eqb_eq. split; intros [H|H]; auto.
Qed.

Section InjOn.
  Variable f : N -> N.
  Variable dom : list N.
  Hypothesis f_inj : forall x y, In x dom -> In y dom -> f x = f y -> x = y.

  Lemma memb_map x l : In x dom -> incl l dom -> memb (f x) (map f l) = memb x l.
  Proof.
    intros Hx Hl. induction l as [|y l IH]; simpl; [reflexivity|].
    rewrite IH by (intros z Hz; apply Hl; right; exact Hz). f_equal.
    destruct (N.eqb_spec x y) as [->|Hn]; [apply N.eqb_refl|].
    apply N.eqb_neq. intro E. apply Hn, f_inj; auto. apply Hl. left. reflexivity.
  Qed.

  Lemma uniq_from_map l : forall seen, incl l dom -> incl seen dom ->
    uniq_from (map f seen) (map f l) = map f (uniq_from seen l).
  Proof.
    induction l as [|x l IH]; intros seen Hl Hs; simpl; [reflexivity|].
    assert (Hx : In x dom) by (apply Hl; left; reflexivity).
    assert (Hl' : incl l dom) by (intros z Hz; apply Hl; right; exact Hz).
    rewrite memb_map by assumption. destruct (memb x seen).
    - apply IH; assumption.
    - simpl. f_equal. apply (IH (x :: seen)); [assumption|].
      intros z [<-|Hz]; auto.
  Qed.

  Lemma index_of_map x l : In x dom -> incl l dom -> index_of (f x) (map f l) = index_of x l.
  Proof.
    intros Hx Hl. induction l as [|y l IH]; simpl; [reflexivity|].
    assert (Hy : In y dom) by (apply Hl; left; reflexivity).
    destruct (N.eqb_spec x y) as [->|Hn].
    - rewrite N.eqb_refl. reflexivity.
    - replace (N.eqb (f x) (f y)) with false.
      + f_equal. apply IH. intros z Hz. apply Hl. right. exact Hz.
      + symmetry. apply N.eqb_neq. intro E. apply Hn, f_inj; auto.
  Qed.
End InjOn.

Lemma uniq_from_incl l : forall seen, incl (uniq_from seen l) l.
Proof.
  induction l as [|x l IH]; intro seen; simpl; [apply incl_refl|].
  destruct (memb x seen).
  - intros z Hz. right. apply (IH seen). exact Hz.
  - intros z [<-|Hz]; [left; reflexivity|right; apply (IH (x :: seen)); exact Hz].
Qed.

Lemma uniq_from_complete l : forall seen x, In x l -> In x seen \/ In x (uniq_from seen l).
Proof.
  induction l as [|y l IH]; intros seen x H; [destruct H|].
  simpl. destruct (memb y seen) eqn:M.
  - destruct H as [<-|H]; [left; apply memb_in; exact M | apply IH; exact H].
  - destruct H as [<-|H]; [right; left; reflexivity|].
    destruct (IH (y :: seen) x H) as [[<-|H1]|H1]; [right; left; reflexivity | left; exact H1 | right; right; exact H1].
Qed.

Lemma uniq_from_nodup l : forall seen, NoDup (uniq_from seen l) /\ forall x, In x (uniq_from seen l) -> ~ In x seen.
Proof.
  induction l as [|y l IH]; intro seen; simpl; [split; [constructor|intros x []]|].
  destruct (memb y seen) eqn:M; [apply IH|].
  destruct (IH (y :: seen)) as [ND Hs]. split.
  - constructor; [|exact ND]. intro H. apply (Hs y H). left. reflexivity.
  - intros x [<-|H].
    + intro H1. apply memb_in in H1. congruence.
    + intro H1. apply (Hs x H). right. exact H1.
Qed.

Lemma index_of_inj l x y : In x l -> In y l -> index_of x l = index_of y l -> x = y.
Proof.
  induction l as [|z l IH]; intros Hx Hy; [destruct Hx|]. simpl.
  destruct (N.eqb_spec x z) as [->|Hxz], (N.eqb_spec y z) as [->|Hyz]; intro E; try congruence; try discriminate.
  injection E as E. destruct Hx as [Hx|Hx]; [congruence|]. destruct Hy as [Hy|Hy]; [congruence|].
  apply IH; assumption.
Qed.

(* The canonical form does not depend on which names the type variables had: any renaming that is
   injective on the variables of the type (in particular any injective renaming) gives the same
   canonical form. *)
Theorem canon_rename_inj_on : forall f t,
  (forall x y, In x (tyvars t) -> In y (tyvars t) -> f x = f y -> x = y) ->
  canon (rename_tyvars f t) = canon t.
Proof.
  intros f t Hinj. unfold canon. rewrite rename_tyvars_comp.
  apply rename_tyvars_ext_in. intros x Hx. unfold canon_name. f_equal.
  rewrite tyvars_rename. unfold uniq.
  change (@nil N) with (map f []) at 1.
  rewrite (uniq_from_map f (tyvars t) Hinj (tyvars t) [] (incl_refl _)) by (intros z []).
  apply (index_of_map f (tyvars t) Hinj); [exact Hx|]. apply uniq_from_incl.
Qed.

Theorem canon_rename : forall f, (forall x y, f x = f y -> x = y) ->
  forall t, canon (rename_tyvars f t) = canon t.
Proof. intros f Hf t. apply canon_rename_inj_on. intros x y _ _. apply Hf. Qed.

Theorem canon_idempotent : forall t, canon (canon t) = canon t.
Proof.
  intro t. unfold canon at 2. apply canon_rename_inj_on.
  intros x y Hx Hy E. unfold canon_name in E. apply Nat2N.inj in E.
  assert (U : forall z, In z (tyvars t) -> In z (uniq (tyvars t))).
  { intros z Hz. destruct (uniq_from_complete (tyvars t) [] z Hz) as [[]|H]. exact H. }
  eapply index_of_inj; [apply U, Hx | apply U, Hy | exact E].
Qed.

(* two types have the same canonical form exactly when they are renamings of one another
   (one direction; the other is canon_rename_inj_on) *)
Theorem canon_is_renaming : forall t, exists f,
  canon t = rename_tyvars f t /\
  (forall x y, In x (tyvars t) -> In y (tyvars t) -> f x = f y -> x = y).
Proof.
  intro t. exists (canon_name t). split; [reflexivity|].
  intros x y Hx Hy E. unfold canon_name in E. apply Nat2N.inj in E.
  assert (U : forall z, In z (tyvars t) -> In z (uniq (tyvars t))).
  { intros z Hz. destruct (uniq_from_complete (tyvars t) [] z Hz) as [[]|H]. exact H. }
  eapply index_of_inj; [apply U, Hx | apply U, Hy | exact E].
Qed.

(* ------------------------------------------------------------------ 4. positions in the code map *)
(* Known finding C16 `nondeterministic-diagnostic:implicit-import-position`: the name printed for
   an implicit-import binding contains the absolute position, which depends on the texts compiled
   earlier in the same VM. *)
Theorem implicit_name_absolute_refuted :
  exists gap h1 h2 rel, implicit_name_absolute gap h1 rel <> implicit_name_absolute gap h2 rel.
Proof. exists 0, [], [40], 5. vm_compute. discriminate. Qed.

Lemma codemap_start_total gap h : codemap_start gap h = 1 + fold_right plus 0 h + gap * length h.
Proof. induction h as [|x h IH]; simpl; [lia|]. unfold codemap_start in *. simpl. lia. Qed.

(* exactly: two histories give the same name iff they loaded the same amount of text *)
Theorem implicit_name_absolute_iff : forall gap h1 h2 rel,
  implicit_name_absolute gap h1 rel = implicit_name_absolute gap h2 rel <->
  fold_right plus 0 h1 + gap * length h1 = fold_right plus 0 h2 + gap * length h2.
Proof. intros. unfold implicit_name_absolute. rewrite !codemap_start_total. lia. Qed.

(* the complement: a rendering relative to the module does not depend on the history, and still
   distinguishes two implicit imports of one module *)
Theorem implicit_name_relative_invariant : forall gap h1 h2 rel,
  implicit_name_relative gap h1 rel = implicit_name_relative gap h2 rel.
Proof. reflexivity. Qed.

Theorem implicit_name_relative_distinct : forall gap h rel1 rel2,
  implicit_name_relative gap h rel1 = implicit_name_relative gap h rel2 -> rel1 = rel2.
Proof. intros gap h r1 r2 H. exact H. Qed.
