(* MiniGluon types, declarative typing, value typing and the executable shape check (property C02).
   Definitions only; the theorems are in TypesProofs.v.  Built on Lang/Syntax.v + Lang/Eval.v.

   What the pieces model:
   - [ty]: the types the real checker reports for MiniGluon programs (base/src/types/mod.rs
     [Type]: builtins Int/Byte/Char/String/Float, function, record rows with ORDERED fields,
     applied aliases of variant types, Array, type variables).  Tuples are records with the
     fields 0,1,2,… (vm/src/core/mod.rs builds the same [Data] for both), unit is the empty record,
     Bool is the declared variant [bool_name] = | False | True (std/types.glu).
     [TOpaque] stands for a host type the model says nothing about (IO a, userdata, …).
   - [decls]: the declared variant types; a constructor is identified by its tag (index), as
     the VM does (vm/src/thread.rs TestTag / Split).
   - [has_type]: declarative typing of every MiniGluon construct.  Type environments map a
     variable to a *scheme*, given semantically as the set of monotypes the variable may be
     used at (HM's generic instances of ∀ᾱ.τ, but also the row-polymorphic uses of
     `\r -> r.x`, form such a set), so `let` and `rec` polymorphism need no substitution
     lemma.  λ- and pattern-bound variables are monomorphic ([eq t]).
   - [vtyp]: typing of run-time values; a closure carries the typing of its environment
     and of the rec group it re-binds when applied (Eval.bind_recs).
   - [check_shape]: the executable observable of C02 — "the value returned has the shape of
     the type the checker reported": an Int is an int, a record has the fields of the record
     type in order with well-shaped contents, a variant value's tag and arity belong to the
     declared type, a function is a closure or a partial application.
   - [rval], [erase], [check_raw]: what the harness can see of a real VM value through
     vm::api::ValueRef (no field names, closures opaque) and the shape check on that view.  *)
From Coq Require Import List ZArith NArith Bool.
From GV Require Import Lang.Syntax Lang.Eval.
Import ListNotations.

(* ---------------------------------------------------------------- types *)
Inductive ty :=
| TInt | TByte | TChar | TStr | TFloat
| TFun (a r : ty)
| TRcd (fs : list (name * ty))          (* ordered fields *)
| TData (d : name) (args : list ty)     (* declared variant applied to its parameters *)
| TArr (t : ty)
| TVar (a : name)
| TOpaque.

(* a1 -> … -> an -> r *)
Fixpoint arrows (ts : list ty) (r : ty) : ty :=
  match ts with
  | [] => r
  | t :: ts' => TFun t (arrows ts' r)
  end.

Fixpoint number_tfields (i : N) (ts : list ty) : list (name * ty) :=
  match ts with
  | [] => []
  | t :: ts' => (i, t) :: number_tfields (N.succ i) ts'
  end.

Definition ttuple (ts : list ty) : ty := TRcd (number_tfields 0 ts).
Definition tunit : ty := TRcd [].

(* The atom of the builtin Bool type (the drivers intern "Bool" first). *)
Definition bool_name : name := 0%N.
Definition tbool : ty := TData bool_name [].

(* parameters, constructor argument types by tag *)
Definition decl := (list name * list (list ty))%type.
Definition decls := list (name * decl).

Definition bool_decl : decl := ([], [[]; []]).
Definition decls_ok (D : decls) : Prop := assoc bool_name D = Some bool_decl.

Fixpoint subst (s : list (name * ty)) (t : ty) {struct t} : ty :=
  match t with
  | TFun a r => TFun (subst s a) (subst s r)
  | TRcd fs => TRcd ((fix go (fs : list (name * ty)) : list (name * ty) :=
                        match fs with
                        | [] => []
                        | f :: fs' => (fst f, subst s (snd f)) :: go fs'
                        end) fs)
  | TData d args => TData d ((fix go (ts : list ty) : list ty :=
                                match ts with
                                | [] => []
                                | u :: ts' => subst s u :: go ts'
                                end) args)
  | TArr u => TArr (subst s u)
  | TVar a => match assoc a s with Some u => u | None => TVar a end
  | _ => t
  end.

(* argument types of constructor [tag] of [d] at the instance [targs] *)
Definition ctor_args (D : decls) (d : name) (targs : list ty) (tag : N) : option (list ty) :=
  match assoc d D with
  | Some (ps, ctors) =>
      match nth_error ctors (N.to_nat tag) with
      | Some cts => Some (map (subst (combine ps targs)) cts)
      | None => None
      end
  | None => None
  end.

Definition lit_ty (l : lit) : ty :=
  match l with
  | LInt _ => TInt
  | LByte _ => TByte
  | LChar _ => TChar
  | LStr _ => TStr
  | LFloat _ => TFloat
  end.

Definition prim_arg (op : primop) : ty :=
  match op with
  | IntAdd | IntSub | IntMul | IntDiv | IntEq | IntLt => TInt
  | _ => TByte
  end.

Definition prim_res (op : primop) : ty :=
  match op with
  | IntAdd | IntSub | IntMul | IntDiv => TInt
  | ByteAdd | ByteSub | ByteMul | ByteDiv => TByte
  | _ => tbool
  end.

(* { fs, .. base } on any field payload; Eval.rcd_update is the instance at [value] *)
Definition upd {A} (fs base : list (name * A)) : list (name * A) :=
  filter (fun f => negb (has_field (fst f) base)) fs
  ++ map (fun b => match assoc (fst b) fs with Some v => (fst b, v) | None => b end) base.

(* ---------------------------------------------------------------- type environments *)
(* a scheme is the set of monotypes a variable may be used at *)
Definition scheme := ty -> Prop.
Definition tenv := list (name * scheme).

Definition mono (t : ty) : scheme := eq t.
Definition mono_env (G : list (name * ty)) : tenv := map (fun b => (fst b, mono (snd b))) G.

(* mirrors Eval.bind_params: later parameters shadow earlier ones *)
Fixpoint bind_tparams (xs : list name) (ts : list ty) (G : tenv) : tenv :=
  match xs, ts with
  | x :: xs', t :: ts' => bind_tparams xs' ts' ((x, mono t) :: G)
  | _, _ => G
  end.

(* ---------------------------------------------------------------- patterns *)
(* [pat_typ D p t B]: [p] can be matched against values of type [t] and binds [B], in the order
   in which Eval.pmatch returns the bindings *)
Inductive pat_typ (D : decls) : pat -> ty -> list (name * ty) -> Prop :=
| PT_Wild t : pat_typ D PWild t []
| PT_Var x t : pat_typ D (PVar x) t [(x, t)]
| PT_Lit l : pat_typ D (PLit l) (lit_ty l) []
| PT_As x q t B : pat_typ D q t B -> pat_typ D (PAs x q) t (B ++ [(x, t)])
| PT_Con tag ps d targs cts B :
    ctor_args D d targs tag = Some cts -> pats_typ D ps cts B ->
    pat_typ D (PCon tag ps) (TData d targs) B
| PT_Tup ps fts B : pats_typ D ps (map snd fts) B -> pat_typ D (PTup ps) (TRcd fts) B
| PT_Rcd pfs fts B : fpats_typ D pfs fts B -> pat_typ D (PRcd pfs) (TRcd fts) B
with pats_typ (D : decls) : list pat -> list ty -> list (name * ty) -> Prop :=
| PTs_nil : pats_typ D [] [] []
| PTs_cons q ps t ts B1 B2 :
    pat_typ D q t B1 -> pats_typ D ps ts B2 -> pats_typ D (q :: ps) (t :: ts) (B2 ++ B1)
with fpats_typ (D : decls) : list (name * pat) -> list (name * ty) -> list (name * ty) -> Prop :=
| FPs_nil fts : fpats_typ D [] fts []
| FPs_cons l q pfs fts t B1 B2 :
    assoc l fts = Some t -> pat_typ D q t B1 -> fpats_typ D pfs fts B2 ->
    fpats_typ D ((l, q) :: pfs) fts (B2 ++ B1).

(* ---------------------------------------------------------------- expressions *)
(* one member `f xs = body` of a rec group against its monotype, under [G] *)
Definition rec_ok (ht : tenv -> expr -> ty -> Prop) (G : tenv)
           (b : name * (list name * expr)) (ft : name * ty) : Prop :=
  fst b = fst ft /\
  exists ts tr, snd ft = arrows ts tr /\ fst (snd b) <> [] /\ length (fst (snd b)) = length ts /\
                ht (bind_tparams (fst (snd b)) ts G) (snd (snd b)) tr.

(* the scheme of the i-th member of a rec group whose coherent monomorphic typings are [Gs] *)
Fixpoint rec_schemes (Gs : list (name * ty) -> Prop) (bs : recs) (i : nat) : tenv :=
  match bs with
  | [] => []
  | b :: bs' => (fst b, fun t => exists Gg, Gs Gg /\ nth_error Gg i = Some (fst b, t))
                :: rec_schemes Gs bs' (S i)
  end.

Inductive has_type (D : decls) : tenv -> expr -> ty -> Prop :=
| T_Lit G l : has_type D G (ELit l) (lit_ty l)
| T_Var (G : tenv) x (S : scheme) t : assoc x G = Some S -> S t -> has_type D G (EVar x) t
| T_Lam G xs ts b tr :
    xs <> [] -> length xs = length ts -> has_type D (bind_tparams xs ts G) b tr ->
    has_type D G (ELam xs b) (arrows ts tr)
| T_App G f args ts t :
    has_type D G f (arrows ts t) -> Forall2 (has_type D G) args ts -> has_type D G (EApp f args) t
(* let with a pattern: monomorphic bindings *)
| T_Let G p e1 e2 t1 B t :
    has_type D G e1 t1 -> pat_typ D p t1 B -> has_type D (mono_env B ++ G) e2 t ->
    has_type D G (ELet p e1 e2) t
(* let x = e1: x may be used at every type e1 has (let-polymorphism) *)
| T_LetGen G x e1 e2 (S : scheme) t :
    (exists t1, S t1) -> (forall t1, S t1 -> has_type D G e1 t1) ->
    has_type D ((x, S) :: G) e2 t ->
    has_type D G (ELet (PVar x) e1 e2) t
(* rec group: monomorphic inside the group (at each coherent typing in [Gs]), polymorphic in the body *)
| T_Rec G bs body (Gs : list (name * ty) -> Prop) t :
    (forall Gg, Gs Gg -> Forall2 (rec_ok (has_type D) (mono_env Gg ++ G)) bs Gg) ->
    has_type D (rec_schemes Gs bs 0 ++ G) body t ->
    has_type D G (ERec bs body) t
| T_If G c a b t :
    has_type D G c tbool -> has_type D G a t -> has_type D G b t -> has_type D G (EIf c a b) t
| T_Prim G op a b :
    has_type D G a (prim_arg op) -> has_type D G b (prim_arg op) ->
    has_type D G (EPrim op a b) (prim_res op)
| T_And G a b : has_type D G a tbool -> has_type D G b tbool -> has_type D G (EAnd a b) tbool
| T_Or G a b : has_type D G a tbool -> has_type D G b tbool -> has_type D G (EOr a b) tbool
| T_Rcd G fs fts :
    Forall2 (fun f ft => fst f = fst ft /\ has_type D G (snd f) (snd ft)) fs fts ->
    has_type D G (ERcd fs) (TRcd fts)
| T_RcdU G fs base fts bts :
    Forall2 (fun f ft => fst f = fst ft /\ has_type D G (snd f) (snd ft)) fs fts ->
    has_type D G base (TRcd bts) ->
    has_type D G (ERcdU fs base) (TRcd (upd fts bts))
| T_Proj G e l fts t :
    has_type D G e (TRcd fts) -> assoc l fts = Some t -> has_type D G (EProj e l) t
| T_Tup G es ts : Forall2 (has_type D G) es ts -> has_type D G (ETup es) (ttuple ts)
| T_Con G tag es d targs cts :
    ctor_args D d targs tag = Some cts -> Forall2 (has_type D G) es cts ->
    has_type D G (ECon tag es) (TData d targs)
| T_Arr G es t : Forall (fun e => has_type D G e t) es -> has_type D G (EArr es) (TArr t)
| T_AIdx G a i t :
    has_type D G a (TArr t) -> has_type D G i TInt -> has_type D G (EAIdx a i) t
| T_ALen G a t : has_type D G a (TArr t) -> has_type D G (EALen a) TInt
| T_Match G s alts ts t :
    has_type D G s ts ->
    Forall (fun alt => exists B, pat_typ D (fst alt) ts B /\ has_type D (mono_env B ++ G) (snd alt) t) alts ->
    has_type D G (EMatch s alts) t
| T_Seq G a b ta t : has_type D G a ta -> has_type D G b t -> has_type D G (ESeq a b) t
| T_Error G msg t : has_type D G (EError msg) t
| T_Eff G e : has_type D G e TInt -> has_type D G (EEff e) TInt
| T_Ann G e t : has_type D G e t -> has_type D G (EAnn e) t.

(* ---------------------------------------------------------------- values *)
Inductive vtyp (D : decls) : value -> ty -> Prop :=
| VT_Int z : vtyp D (VInt z) TInt
| VT_Char z : vtyp D (VInt z) TChar          (* a Char is stored as an Int-like value *)
| VT_Byte z : vtyp D (VByte z) TByte
| VT_Float b : vtyp D (VFloat b) TFloat
| VT_Str s : vtyp D (VStr s) TStr
| VT_Data tag vs d targs cts :
    ctor_args D d targs tag = Some cts -> vstyp D vs cts -> vtyp D (VData tag vs) (TData d targs)
| VT_Rcd fs fts : fstyp D fs fts -> vtyp D (VRcd fs) (TRcd fts)
| VT_Arr vs t : vall D vs t -> vtyp D (VArr vs) (TArr t)
| VT_Clo r g xs body G Gg ts tr t :
    t = arrows ts tr ->
    env_typ D r G ->
    Forall2 (rec_ok (has_type D) (mono_env Gg ++ G)) g Gg ->
    xs <> [] -> length xs = length ts ->
    has_type D (bind_tparams xs ts (mono_env Gg ++ G)) body tr ->
    vtyp D (VClo r g xs body) t
| VT_Pap f args ts a r :
    vtyp D f (arrows ts (TFun a r)) -> vstyp D args ts -> vtyp D (VPap f args) (TFun a r)
with vstyp (D : decls) : list value -> list ty -> Prop :=
| VTs_nil : vstyp D [] []
| VTs_cons v vs t ts : vtyp D v t -> vstyp D vs ts -> vstyp D (v :: vs) (t :: ts)
with fstyp (D : decls) : list (name * value) -> list (name * ty) -> Prop :=
| FTs_nil : fstyp D [] []
| FTs_cons l v fs t fts : vtyp D v t -> fstyp D fs fts -> fstyp D ((l, v) :: fs) ((l, t) :: fts)
with vall (D : decls) : list value -> ty -> Prop :=
| VA_nil t : vall D [] t
| VA_cons v vs t : vtyp D v t -> vall D vs t -> vall D (v :: vs) t
with env_typ (D : decls) : env -> tenv -> Prop :=
| ET_nil : env_typ D [] []
| ET_cons x v r (S : scheme) G :
    (forall t, S t -> vtyp D v t) -> env_typ D r G -> env_typ D ((x, v) :: r) ((x, S) :: G).

(* ---------------------------------------------------------------- the shape check *)
Fixpoint check_shape (D : decls) (t : ty) (v : value) {struct v} : bool :=
  match t with
  | TOpaque => true
  | _ =>
    match v with
    | VInt _ => match t with TInt | TChar => true | _ => false end
    | VByte _ => match t with TByte => true | _ => false end
    | VFloat _ => match t with TFloat => true | _ => false end
    | VStr _ => match t with TStr => true | _ => false end
    | VData tag vs =>
        match t with
        | TData d targs =>
            match ctor_args D d targs tag with
            | Some cts =>
                (fix go (vs : list value) (ts : list ty) {struct vs} : bool :=
                   match vs, ts with
                   | [], [] => true
                   | w :: vs', u :: ts' => check_shape D u w && go vs' ts'
                   | _, _ => false
                   end) vs cts
            | None => false
            end
        | _ => false
        end
    | VRcd fs =>
        match t with
        | TRcd fts =>
            (fix go (fs : list (name * value)) (fts : list (name * ty)) {struct fs} : bool :=
               match fs, fts with
               | [], [] => true
               | f :: fs', ft :: fts' =>
                   N.eqb (fst f) (fst ft) && check_shape D (snd ft) (snd f) && go fs' fts'
               | _, _ => false
               end) fs fts
        | _ => false
        end
    | VArr vs =>
        match t with
        | TArr u =>
            (fix go (vs : list value) {struct vs} : bool :=
               match vs with
               | [] => true
               | w :: vs' => check_shape D u w && go vs'
               end) vs
        | _ => false
        end
    | VClo _ _ _ _ | VPap _ _ => match t with TFun _ _ => true | _ => false end
    end
  end.

(* the declarative reading of [check_shape] *)
Inductive shaped (D : decls) : value -> ty -> Prop :=
| SH_Opaque v : shaped D v TOpaque
| SH_Int z : shaped D (VInt z) TInt
| SH_Char z : shaped D (VInt z) TChar
| SH_Byte z : shaped D (VByte z) TByte
| SH_Float b : shaped D (VFloat b) TFloat
| SH_Str s : shaped D (VStr s) TStr
| SH_Data tag vs d targs cts :
    ctor_args D d targs tag = Some cts -> Forall2 (shaped D) vs cts ->
    shaped D (VData tag vs) (TData d targs)
| SH_Rcd fs fts :
    Forall2 (fun f ft => fst f = fst ft /\ shaped D (snd f) (snd ft)) fs fts ->
    shaped D (VRcd fs) (TRcd fts)
| SH_Arr vs t : Forall (fun v => shaped D v t) vs -> shaped D (VArr vs) (TArr t)
| SH_Clo r g xs b a t : shaped D (VClo r g xs b) (TFun a t)
| SH_Pap f args a t : shaped D (VPap f args) (TFun a t).

(* does the value contain no function? *)
Fixpoint first_order (v : value) : bool :=
  match v with
  | VData _ vs => (fix go (vs : list value) : bool :=
                     match vs with [] => true | w :: vs' => first_order w && go vs' end) vs
  | VRcd fs => (fix go (fs : list (name * value)) : bool :=
                  match fs with [] => true | f :: fs' => first_order (snd f) && go fs' end) fs
  | VArr vs => (fix go (vs : list value) : bool :=
                  match vs with [] => true | w :: vs' => first_order w && go vs' end) vs
  | VClo _ _ _ _ | VPap _ _ => false
  | _ => true
  end.

(* the shape check on first-order data (no function inside the value, no unmodelled type
   reached): there it coincides with the full value typing [vtyp] (TypesProofs.check_strict_vtyp) *)
Fixpoint check_strict (D : decls) (t : ty) (v : value) {struct v} : bool :=
  match v with
  | VInt _ => match t with TInt | TChar => true | _ => false end
  | VByte _ => match t with TByte => true | _ => false end
  | VFloat _ => match t with TFloat => true | _ => false end
  | VStr _ => match t with TStr => true | _ => false end
  | VData tag vs =>
      match t with
      | TData d targs =>
          match ctor_args D d targs tag with
          | Some cts =>
              (fix go (vs : list value) (ts : list ty) {struct vs} : bool :=
                 match vs, ts with
                 | [], [] => true
                 | w :: vs', u :: ts' => check_strict D u w && go vs' ts'
                 | _, _ => false
                 end) vs cts
          | None => false
          end
      | _ => false
      end
  | VRcd fs =>
      match t with
      | TRcd fts =>
          (fix go (fs : list (name * value)) (fts : list (name * ty)) {struct fs} : bool :=
             match fs, fts with
             | [], [] => true
             | f :: fs', ft :: fts' =>
                 N.eqb (fst f) (fst ft) && check_strict D (snd ft) (snd f) && go fs' fts'
             | _, _ => false
             end) fs fts
      | _ => false
      end
  | VArr vs =>
      match t with
      | TArr u =>
          (fix go (vs : list value) {struct vs} : bool :=
             match vs with
             | [] => true
             | w :: vs' => check_strict D u w && go vs'
             end) vs
      | _ => false
      end
  | VClo _ _ _ _ | VPap _ _ => false
  end.

(* ---------------------------------------------------------------- what the harness sees *)
(* A real VM value through vm::api::ValueRef: records and variants are both [Data] (a record has
   tag 0 and no field names), closures / partial applications / extern functions are opaque. *)
Inductive rval :=
| RInt (z : Z)
| RByte (z : Z)
| RFloat (bits : Z)
| RStr (s : list N)
| RData (tag : N) (vs : list rval)
| RArr (vs : list rval)
| RFun
| ROther.                         (* userdata, thread, … *)

Fixpoint erase (v : value) : rval :=
  match v with
  | VInt z => RInt z
  | VByte z => RByte z
  | VFloat b => RFloat b
  | VStr s => RStr s
  | VData tag vs => RData tag ((fix go (vs : list value) : list rval :=
                                  match vs with [] => [] | w :: vs' => erase w :: go vs' end) vs)
  | VRcd fs => RData 0 ((fix go (fs : list (name * value)) : list rval :=
                           match fs with [] => [] | f :: fs' => erase (snd f) :: go fs' end) fs)
  | VArr vs => RArr ((fix go (vs : list value) : list rval :=
                        match vs with [] => [] | w :: vs' => erase w :: go vs' end) vs)
  | VClo _ _ _ _ | VPap _ _ => RFun
  end.

Fixpoint check_raw (D : decls) (t : ty) (v : rval) {struct v} : bool :=
  match t with
  | TOpaque => true
  | _ =>
    match v with
    | RInt z =>
        match t with
        | TInt | TChar => true
        (* the unit value made by HOST code is the integer 0 (vm/src/api/mod.rs:818
           `impl Pushable for ()` pushes ValueRepr::Int(0)); Gluon code builds the empty record *)
        | TRcd [] => Z.eqb z 0
        | _ => false
        end
    | RByte _ => match t with TByte => true | _ => false end
    | RFloat _ => match t with TFloat => true | _ => false end
    | RStr _ => match t with TStr => true | _ => false end
    | RData tag vs =>
        match t with
        | TData d targs =>
            match ctor_args D d targs tag with
            | Some cts =>
                (fix go (vs : list rval) (ts : list ty) {struct vs} : bool :=
                   match vs, ts with
                   | [], [] => true
                   | w :: vs', u :: ts' => check_raw D u w && go vs' ts'
                   | _, _ => false
                   end) vs cts
            | None => false
            end
        | TRcd fts =>
            N.eqb tag 0 &&
            (fix go (vs : list rval) (fts : list (name * ty)) {struct vs} : bool :=
               match vs, fts with
               | [], [] => true
               | w :: vs', ft :: fts' => check_raw D (snd ft) w && go vs' fts'
               | _, _ => false
               end) vs fts
        | _ => false
        end
    | RArr vs =>
        match t with
        | TArr u =>
            (fix go (vs : list rval) {struct vs} : bool :=
               match vs with
               | [] => true
               | w :: vs' => check_raw D u w && go vs'
               end) vs
        | _ => false
        end
    | RFun => match t with TFun _ _ => true | _ => false end
    | ROther => false
    end
  end.

(* the monitor's verdict on a model run: used by coq/extract/c02 to re-check, on every generated
   program, that the reference semantics itself never goes wrong and returns a value of the
   constructed type *)
Inductive verdict := VOk | VFail | VFuel | VStuck | VShape.

Definition run_verdict (D : decls) (fuel : nat) (e : expr) (t : ty) : verdict :=
  match run fuel e with
  | (Ok v, _) => if check_shape D t v then VOk else VShape
  | (Fail _, _) => VFail
  | (OutOfFuel, _) => VFuel
  | (Stuck, _) => VStuck
  end.
