(* MiniGluon reference semantics: strict, call-by-value, function before arguments, arguments
   left to right, record fields in source order then the base.  Definitions only (extracted by
   coq/extract/c01); the theorems are in EvalProofs.v.

   Every clause was fixed by reading the implementation and probing the real VM:
   - checked arithmetic: vm/src/thread.rs:2801/2831 ("Arithmetic overflow" for overflow and for
     division by zero; `checked_div` truncates toward zero);
   - `&&` / `||` are jumps (vm/src/compiler.rs), the right operand is not evaluated;
   - application: vm/src/thread.rs do_call — too few arguments build a PartialApplication, excess
     arguments are applied to the result;
   - `let f x = e` with parameters is a recursive group of one (base/src/ast.rs is_recursive);
   - record update: vm/src/core/mod.rs:1063 — fields in source order, then the base; the result
     lists the fields that are new first, then the base's fields in the base's order;
   - match: first alternative (source order) whose pattern matches, otherwise the panic
     "Unmatched pattern" (vm/src/core/mod.rs:1972);
   - `error s` is vm::Error::Panic(s); `array.index` out of range panics with
     "Index <i> is out of range" (vm/src/primitives.rs array::index). *)
From Coq Require Import List ZArith NArith Bool.
From GV Require Import Lang.Syntax.
Import ListNotations.

(* ---------------------------------------------------------------- the monad *)
Definition M (A : Type) := log -> res A * log.

Definition ret {A} (a : A) : M A := fun l => (Ok a, l).
Definition fail {A} (e : err) : M A := fun l => (Fail e, l).
Definition stuck {A} : M A := fun l => (Stuck, l).
Definition out_of_fuel {A} : M A := fun l => (OutOfFuel, l).

Definition bind {A B} (m : M A) (f : A -> M B) : M B :=
  fun l => match m l with
           | (Ok a, l1) => f a l1
           | (Fail e, l1) => (Fail e, l1)
           | (Stuck, l1) => (Stuck, l1)
           | (OutOfFuel, l1) => (OutOfFuel, l1)
           end.

Definition emit (z : Z) : M unit := fun l => (Ok tt, z :: l).

(* ---------------------------------------------------------------- environments *)
Fixpoint lookup (r : env) (x : name) : option value :=
  match r with
  | [] => None
  | (y, v) :: r' => if N.eqb x y then Some v else lookup r' x
  end.

Fixpoint assoc {A} (l : name) (fs : list (name * A)) : option A :=
  match fs with
  | [] => None
  | (k, v) :: fs' => if N.eqb l k then Some v else assoc l fs'
  end.

Definition has_field {A} (l : name) (fs : list (name * A)) : bool :=
  match assoc l fs with Some _ => true | None => false end.

(* the closures of a recursive group, over the environment [r] of the group's definition *)
Definition bind_recs (r : env) (g : recs) : env :=
  map (fun b => (fst b, VClo r g (fst (snd b)) (snd (snd b)))) g ++ r.

Fixpoint bind_params (xs : list name) (vs : list value) (r : env) : env :=
  match xs, vs with
  | x :: xs', v :: vs' => bind_params xs' vs' ((x, v) :: r)
  | _, _ => r
  end.

(* ---------------------------------------------------------------- primitive data *)
Definition vbool (b : bool) : value := VData (if b then 1%N else 0%N) [].

Definition as_bool (v : value) : option bool :=
  match v with
  | VData 0%N [] => Some false
  | VData 1%N [] => Some true
  | _ => None
  end.

Definition lit_value (l : lit) : value :=
  match l with
  | LInt z => VInt z
  | LByte z => VByte z
  | LChar z => VInt z
  | LStr s => VStr s
  | LFloat b => VFloat b
  end.

Definition i64_min : Z := (-9223372036854775808)%Z.
Definition i64_max : Z := 9223372036854775807%Z.

Definition check_int (z : Z) : M value :=
  if (Z.leb i64_min z && Z.leb z i64_max)%bool then ret (VInt z) else fail Arith.
Definition check_byte (z : Z) : M value :=
  if (Z.leb 0 z && Z.leb z 255)%bool then ret (VByte z) else fail Arith.

Definition prim_apply (op : primop) (a b : value) : M value :=
  match op, a, b with
  | IntAdd, VInt x, VInt y => check_int (x + y)
  | IntSub, VInt x, VInt y => check_int (x - y)
  | IntMul, VInt x, VInt y => check_int (x * y)
  | IntDiv, VInt x, VInt y => if Z.eqb y 0 then fail Arith else check_int (Z.quot x y)
  | IntEq, VInt x, VInt y => ret (vbool (Z.eqb x y))
  | IntLt, VInt x, VInt y => ret (vbool (Z.ltb x y))
  | ByteAdd, VByte x, VByte y => check_byte (x + y)
  | ByteSub, VByte x, VByte y => check_byte (x - y)
  | ByteMul, VByte x, VByte y => check_byte (x * y)
  | ByteDiv, VByte x, VByte y => if Z.eqb y 0 then fail Arith else check_byte (Z.quot x y)
  | ByteEq, VByte x, VByte y => ret (vbool (Z.eqb x y))
  | ByteLt, VByte x, VByte y => ret (vbool (Z.ltb x y))
  | _, _, _ => stuck
  end.

Fixpoint bytes_eqb (a b : list N) : bool :=
  match a, b with
  | [], [] => true
  | x :: a', y :: b' => N.eqb x y && bytes_eqb a' b'
  | _, _ => false
  end.

Definition lit_matches (l : lit) (v : value) : bool :=
  match l, v with
  | LInt z, VInt z' => Z.eqb z z'
  | LChar z, VInt z' => Z.eqb z z'
  | LByte z, VByte z' => Z.eqb z z'
  | LStr s, VStr s' => bytes_eqb s s'
  | LFloat b, VFloat b' => Z.eqb b b'
  | _, _ => false
  end.

(* decimal rendering of an integer as ASCII bytes (for the "Index i is out of range" panic) *)
Fixpoint digits (fuel : nat) (n : N) (acc : list N) : list N :=
  match fuel with
  | O => acc
  | S f => let acc' := (48 + N.modulo n 10)%N :: acc in
           if N.ltb n 10 then acc' else digits f (N.div n 10) acc'
  end.
Definition decimal (z : Z) : list N :=
  match z with
  | Z0 => [48%N]
  | Zpos p => digits 70 (Npos p) []
  | Zneg p => 45%N :: digits 70 (Npos p) []
  end.
(* "Index " … " is out of range" *)
Definition index_msg (z : Z) : list N :=
  [73;110;100;101;120;32]%N ++ decimal z ++ [32;105;115;32;111;117;116;32;111;102;32;114;97;110;103;101]%N.

(* ---------------------------------------------------------------- records *)
(* { fs, .. base }: the explicit fields that the base does not have, in source order, then the
   base's fields in the base's order, overridden where an explicit field has the same name *)
Definition rcd_update (fs base : list (name * value)) : list (name * value) :=
  filter (fun f => negb (has_field (fst f) base)) fs
  ++ map (fun b => match assoc (fst b) fs with Some v => (fst b, v) | None => b end) base.

Fixpoint number_fields (i : N) (vs : list value) : list (name * value) :=
  match vs with
  | [] => []
  | v :: vs' => (i, v) :: number_fields (N.succ i) vs'
  end.

(* ---------------------------------------------------------------- patterns *)
(* [pmatch p v] = Some bindings (to be put in FRONT of the environment) when [v] matches [p] *)
Fixpoint pmatch (p : pat) (v : value) {struct p} : option env :=
  match p with
  | PWild => Some []
  | PVar x => Some [(x, v)]
  | PLit l => if lit_matches l v then Some [] else None
  | PAs x q => match pmatch q v with Some b => Some (b ++ [(x, v)]) | None => None end
  | PCon tag ps =>
      match v with
      | VData t vs =>
          if N.eqb tag t then
            (fix go (ps : list pat) (vs : list value) {struct ps} : option env :=
               match ps, vs with
               | [], [] => Some []
               | q :: ps', w :: vs' =>
                   match pmatch q w with
                   | Some b1 => match go ps' vs' with Some b2 => Some (b2 ++ b1) | None => None end
                   | None => None
                   end
               | _, _ => None
               end) ps vs
          else None
      | _ => None
      end
  | PTup ps =>
      match v with
      | VRcd fs =>
          (fix go (ps : list pat) (vs : list (name * value)) {struct ps} : option env :=
             match ps, vs with
             | [], [] => Some []
             | q :: ps', w :: vs' =>
                 match pmatch q (snd w) with
                 | Some b1 => match go ps' vs' with Some b2 => Some (b2 ++ b1) | None => None end
                 | None => None
                 end
             | _, _ => None
             end) ps fs
      | _ => None
      end
  | PRcd pfs =>
      match v with
      | VRcd fs =>
          (fix go (pfs : list (name * pat)) {struct pfs} : option env :=
             match pfs with
             | [] => Some []
             | lq :: pfs' =>
                 match assoc (fst lq) fs with
                 | Some w =>
                     match pmatch (snd lq) w with
                     | Some b1 => match go pfs' with Some b2 => Some (b2 ++ b1) | None => None end
                     | None => None
                     end
                 | None => None
                 end
             end) pfs
      | _ => None
      end
  end.

(* the first alternative, in source order, whose pattern matches *)
Fixpoint first_match (v : value) (alts : list (pat * expr)) : option (env * expr) :=
  match alts with
  | [] => None
  | (p, e) :: alts' =>
      match pmatch p v with
      | Some b => Some (b, e)
      | None => first_match v alts'
      end
  end.

(* ---------------------------------------------------------------- evaluation *)
Section Step.
  (* the evaluator one fuel unit down *)
  Variable ev : env -> expr -> M value.

  Fixpoint eval_list (r : env) (es : list expr) : M (list value) :=
    match es with
    | [] => ret []
    | e :: es' => bind (ev r e) (fun v => bind (eval_list r es') (fun vs => ret (v :: vs)))
    end.

  Fixpoint eval_fields (r : env) (fs : list (name * expr)) : M (list (name * value)) :=
    match fs with
    | [] => ret []
    | f :: fs' => bind (ev r (snd f)) (fun v => bind (eval_fields r fs') (fun vs => ret ((fst f, v) :: vs)))
    end.

  (* [apply k f args]: apply a function value to ≥ 0 arguments.  Too few: partial application.
     Enough: bind the first |xs|, evaluate the body, apply the result to the rest. *)
  Fixpoint apply (k : nat) (f : value) (args : list value) : M value :=
    match args with
    | [] => ret f
    | _ :: _ =>
        match k with
        | O => out_of_fuel
        | S k' =>
            match f with
            | VClo r g xs body =>
                if Nat.ltb (length args) (length xs) then ret (VPap f args)
                else bind (ev (bind_params xs (firstn (length xs) args) (bind_recs r g)) body)
                          (fun res => apply k' res (skipn (length xs) args))
            | VPap f0 args0 => apply k' f0 (args0 ++ args)
            | _ => stuck
            end
        end
    end.

  Definition eval_step (k : nat) (r : env) (e : expr) : M value :=
    match e with
    | ELit l => ret (lit_value l)
    | EVar x => match lookup r x with Some v => ret v | None => stuck end
    | ELam xs b => match xs with [] => stuck | _ => ret (VClo r [] xs b) end
    | EApp f args =>
        bind (ev r f) (fun fv => bind (eval_list r args) (fun vs => apply k fv vs))
    | ELet p e1 e2 =>
        bind (ev r e1) (fun v =>
          match pmatch p v with Some b => ev (b ++ r) e2 | None => fail Unmatched end)
    | ERec bs body => ev (bind_recs r bs) body
    | EIf c t f =>
        bind (ev r c) (fun v =>
          match as_bool v with Some true => ev r t | Some false => ev r f | None => stuck end)
    | EPrim op a b => bind (ev r a) (fun x => bind (ev r b) (fun y => prim_apply op x y))
    | EAnd a b =>
        bind (ev r a) (fun v =>
          match as_bool v with Some true => ev r b | Some false => ret (vbool false) | None => stuck end)
    | EOr a b =>
        bind (ev r a) (fun v =>
          match as_bool v with Some true => ret (vbool true) | Some false => ev r b | None => stuck end)
    | ERcd fs => bind (eval_fields r fs) (fun vs => ret (VRcd vs))
    | ERcdU fs base =>
        bind (eval_fields r fs) (fun vs =>
          bind (ev r base) (fun bv =>
            match bv with VRcd bfs => ret (VRcd (rcd_update vs bfs)) | _ => stuck end))
    | EProj e l =>
        bind (ev r e) (fun v =>
          match v with
          | VRcd fs => match assoc l fs with Some x => ret x | None => stuck end
          | _ => stuck
          end)
    | ETup es => bind (eval_list r es) (fun vs => ret (VRcd (number_fields 0 vs)))
    | ECon tag es => bind (eval_list r es) (fun vs => ret (VData tag vs))
    | EArr es => bind (eval_list r es) (fun vs => ret (VArr vs))
    | EAIdx a i =>
        bind (ev r a) (fun av => bind (ev r i) (fun iv =>
          match av, iv with
          | VArr vs, VInt z =>
              if (Z.leb 0 z && Z.ltb z (Z.of_nat (length vs)))%bool
              then match nth_error vs (Z.to_nat z) with Some x => ret x | None => stuck end
              else fail (Explicit (index_msg z))
          | _, _ => stuck
          end))
    | EALen a =>
        bind (ev r a) (fun av =>
          match av with VArr vs => ret (VInt (Z.of_nat (length vs))) | _ => stuck end)
    | EMatch s alts =>
        bind (ev r s) (fun v =>
          match first_match v alts with
          | Some (b, e') => ev (b ++ r) e'
          | None => fail Unmatched
          end)
    | ESeq a b => bind (ev r a) (fun _ => ev r b)
    | EError msg => fail (Explicit msg)
    | EEff e' =>
        bind (ev r e') (fun v =>
          match v with VInt z => bind (emit z) (fun _ => ret v) | _ => stuck end)
    | EAnn e' => ev r e'
    end.
End Step.

Fixpoint eval (n : nat) : env -> expr -> M value :=
  match n with
  | O => fun _ _ => out_of_fuel
  | S n' => eval_step (fun r e => eval n' r e) n'
             (* eta-expanded so that the extracted (strict) code does not unfold all the fuel
                at every call; convertible with [eval_step (eval n') n'] *)
  end.

(* a whole program: empty environment, empty log *)
Definition run (fuel : nat) (e : expr) : res value * log := eval fuel [] e [].
