(* Soundness of the optimisation validator (Lang/OptValid.v) with respect to the core
   evaluator (Lang/Core.v).

   Main results
     droppable_pure   : a droppable expression has an empty log and is a value, or fails with
                        EArith / EStuck (or runs out of fuel where a recursive value is unfolded).
     valid_opt_sound  : valid_opt a b = true -> for every fuel n and related environments,
                        the outcome of b is related ([rrel]) to that of a: same value (up to
                        [vrel]: closures carry optimised code), same error, same log -- except
                        that where a stops with EArith (or EStuck, which type-correct programs
                        do not reach) b may go on, its log extending a's.
   All of R1-R4 of OptValid.v and congruence are covered. *)
From Coq Require Import List ZArith NArith Bool Lia.
From GV Require Import Lang.Core Lang.OptValid.
Import ListNotations.

(* ------------------------------------------------------------------------------------------ *)
(* lists of names *)

Lemma memb_In : forall x l, memb x l = true <-> In x l.
Proof.
  induction l as [|y l IH]; cbn [memb In]; [split; [discriminate | tauto]|].
  rewrite orb_true_iff, IH, N.eqb_eq. split; intros [H|H]; auto.
Qed.

Lemma memb_false : forall x l, memb x l = false <-> ~ In x l.
Proof. intros. rewrite <- memb_In. destruct (memb x l); split; congruence. Qed.

Lemma In_removeb : forall y x l, In y (removeb x l) <-> In y l /\ y <> x.
Proof.
  induction l as [|z l IH]; cbn [removeb In]; [tauto|].
  destruct (N.eqb x z) eqn:E.
  - apply N.eqb_eq in E. subst z. rewrite IH. split; [tauto|]. intros [[H|H] Hn]; [congruence|tauto].
  - apply N.eqb_neq in E. cbn [In]. rewrite IH. split.
    + intros [H|[H Hn]]; [subst; split; auto; congruence | tauto].
    + intros [[H|H] Hn]; auto.
Qed.

Lemma In_remove_all : forall y xs l, In y (remove_all xs l) <-> In y l /\ ~ In y xs.
Proof.
  induction l as [|z l IH]; cbn [remove_all In]; [tauto|].
  destruct (memb z xs) eqn:E.
  - apply memb_In in E. rewrite IH. split; [tauto|]. intros [[H|H] Hn]; [subst; tauto|tauto].
  - apply memb_false in E. cbn [In]. rewrite IH. split.
    + intros [H|[H Hn]]; [subst; tauto | tauto].
    + intros [[H|H] Hn]; auto.
Qed.

Lemma disjointb_spec : forall xs l, disjointb xs l = true <-> (forall x, In x xs -> ~ In x l).
Proof.
  induction xs as [|x xs IH]; intros l; cbn [disjointb In].
  - split; [intros _ x []|auto].
  - rewrite andb_true_iff, negb_true_iff, memb_false, IH. split.
    + intros [H1 H2] y [<-|Hy]; auto.
    + intros H. split; [apply H; auto|]. intros y Hy. apply H. auto.
Qed.

Lemma nodupb_spec : forall l, nodupb l = true <-> NoDup l.
Proof.
  induction l as [|x l IH]; cbn [nodupb].
  - split; [constructor|auto].
  - rewrite andb_true_iff, negb_true_iff, memb_false, IH. split.
    + intros [H1 H2]. constructor; auto.
    + intros H. inversion H. auto.
Qed.

Lemma inclb_spec : forall xs l, inclb xs l = true <-> (forall x, In x xs -> In x l).
Proof.
  induction xs as [|x xs IH]; intros l; cbn [inclb In].
  - split; [intros _ x []|auto].
  - rewrite andb_true_iff, memb_In, IH. split.
    + intros [H1 H2] y [<-|Hy]; auto.
    + intros H. split; [apply H; auto|]. intros y Hy. apply H. auto.
Qed.

Lemma list_N_eqb_eq : forall a b, list_N_eqb a b = true -> a = b.
Proof.
  induction a as [|x a IH]; destruct b as [|y b]; cbn [list_N_eqb]; try discriminate; auto.
  rewrite andb_true_iff, N.eqb_eq. intros [-> H]. f_equal. auto.
Qed.

Lemma lit_eqb_eq : forall a b, lit_eqb a b = true -> a = b.
Proof.
  destruct a, b; cbn [lit_eqb]; try discriminate; intros H;
    try (apply Z.eqb_eq in H; congruence).
  apply list_N_eqb_eq in H. congruence.
Qed.

Lemma primop_eqb_eq : forall a b, primop_eqb a b = true -> a = b.
Proof. destruct a, b; cbn; congruence. Qed.

Lemma fields_eqb_eq : forall a b, fields_eqb a b = true -> a = b.
Proof.
  induction a as [|[f x] a IH]; destruct b as [|[g y] b]; cbn [fields_eqb]; try discriminate; auto.
  rewrite !andb_true_iff, !N.eqb_eq. intros [[-> ->] H]. f_equal. auto.
Qed.

Lemma pat_eqb_eq : forall p q, pat_eqb p q = true -> p = q.
Proof.
  destruct p, q; cbn [pat_eqb]; try discriminate.
  - rewrite andb_true_iff, N.eqb_eq. intros [-> H]. apply list_N_eqb_eq in H. congruence.
  - intros H. apply fields_eqb_eq in H. congruence.
  - rewrite N.eqb_eq. congruence.
  - intros H. apply lit_eqb_eq in H. congruence.
Qed.

(* ------------------------------------------------------------------------------------------ *)
(* association lists *)

Lemma lookup_app_l : forall (A : Type) x (l1 l2 : list (N * A)) v,
  lookup x l1 = Some v -> lookup x (l1 ++ l2) = Some v.
Proof.
  induction l1 as [|[y a] l1 IH]; cbn [lookup app]; [discriminate|].
  intros l2 v. destruct (N.eqb x y); auto.
Qed.

Lemma lookup_app_notin : forall (A : Type) x (l1 l2 : list (N * A)),
  ~ In x (map fst l1) -> lookup x (l1 ++ l2) = lookup x l2.
Proof.
  induction l1 as [|[y a] l1 IH]; cbn [lookup app map fst In]; auto.
  intros l2 H. destruct (N.eqb x y) eqn:E.
  - apply N.eqb_eq in E. subst. tauto.
  - apply IH. tauto.
Qed.

Lemma lookup_In_fst : forall (A : Type) x (l : list (N * A)) v, lookup x l = Some v -> In x (map fst l).
Proof.
  induction l as [|[y a] l IH]; cbn [lookup map fst In]; [discriminate|].
  intros v. destruct (N.eqb x y) eqn:E; [apply N.eqb_eq in E; auto | eauto].
Qed.

Lemma lookup_In_snd : forall x (l : list (N * N)) v, lookup x l = Some v -> In v (map snd l).
Proof.
  induction l as [|[y a] l IH]; cbn [lookup map snd In]; [discriminate|].
  intros v. destruct (N.eqb x y); [intros [= ->]; auto | eauto].
Qed.

Lemma lookup_notin_none : forall (A : Type) x (l : list (N * A)), ~ In x (map fst l) -> lookup x l = None.
Proof.
  induction l as [|[y a] l IH]; cbn [lookup map fst In]; auto.
  intros H. destruct (N.eqb x y) eqn:E; [apply N.eqb_eq in E; subst; tauto | tauto].
Qed.

Lemma lookup_app_r_new : forall (A : Type) x (l : list (N * A)) a,
  ~ In x (map fst l) -> lookup x (l ++ [(x, a)]) = Some a.
Proof.
  intros. rewrite lookup_app_notin by assumption. cbn [lookup]. rewrite N.eqb_refl. reflexivity.
Qed.

(* ------------------------------------------------------------------------------------------ *)
(* the monad *)

Lemma bind_assoc : forall (A B C : Type) (r : out A * log) (f : A -> out B * log) (g : B -> out C * log),
  bind (bind r f) g = bind r (fun a => bind (f a) g).
Proof.
  intros A B C [[a|e|] l] f g; cbn [bind]; auto.
  destruct (f a) as [[b|e|] l1]; cbn [bind]; auto.
  destruct (g b) as [o l2]. rewrite app_assoc. reflexivity.
Qed.

Lemma bind_ret_l : forall (A B : Type) (a : A) (f : A -> out B * log), bind (ret a) f = f a.
Proof. intros. unfold ret. cbn [bind]. destruct (f a). reflexivity. Qed.

Lemma bind_val_nil : forall (A B : Type) (a : A) (f : A -> out B * log), bind (Val a, []) f = f a.
Proof. intros. cbn [bind]. destruct (f a). reflexivity. Qed.

(* ------------------------------------------------------------------------------------------ *)
(* relations between the two runs *)

Inductive vrel : value -> value -> Prop :=
| vr_int z : vrel (VInt z) (VInt z)
| vr_byte z : vrel (VByte z) (VByte z)
| vr_float z : vrel (VFloat z) (VFloat z)
| vr_str s : vrel (VStr s) (VStr s)
| vr_data c vs1 vs2 : Forall2 vrel vs1 vs2 -> vrel (VData c vs1) (VData c vs2)
| vr_rec fs1 fs2 :
    Forall2 (fun p q => fst p = fst q /\ vrel (snd p) (snd q)) fs1 fs2 -> vrel (VRec fs1) (VRec fs2)
| vr_clo r1 r2 cs1 cs2 f k kfv :
    NoDup (clo_names cs1) ->
    vo_clos k cs1 cs2 kfv = true ->
    (forall x, In x (fv_clos cs2) -> In x kfv) ->
    In f (clo_names cs2) ->
    (forall x v1, In x (remove_all (clo_names cs2) (fv_clos cs2)) -> lookup x r1 = Some v1 ->
        exists v2, lookup x r2 = Some v2 /\ vrel v1 v2) ->
    vrel (VClo r1 cs1 f) (VClo r2 cs2 f)
| vr_pap f1 f2 a1 a2 : vrel f1 f2 -> Forall2 vrel a1 a2 -> vrel (VPap f1 a1) (VPap f2 a2)
| vr_host h : vrel (VHost h) (VHost h).

Definition brel (p q : N * value) : Prop := fst p = fst q /\ vrel (snd p) (snd q).

(* on the variables in S, whatever the first run finds the second finds too, related *)
Definition erel (S : list ident) (r1 r2 : env) : Prop :=
  forall x v1, In x S -> lookup x r1 = Some v1 -> exists v2, lookup x r2 = Some v2 /\ vrel v1 v2.

Definition lenient (e : err) : Prop := e = EArith \/ e = EStuck.

Definition rrel {A B : Type} (R : A -> B -> Prop) (r1 : out A * log) (r2 : out B * log) : Prop :=
  match r1 with
  | (Val a, l1) => exists b, r2 = (Val b, l1) /\ R a b
  | (Err e, l1) => r2 = (Err e, l1) \/ (lenient e /\ exists o2 l2, r2 = (o2, l1 ++ l2))
  | (OOF, _) => True
  end.

Lemma rrel_lenient_nil : forall (A B : Type) (R : A -> B -> Prop) e (r2 : out B * log),
  lenient e -> rrel R (Err e, []) r2.
Proof. intros. cbn. right. split; auto. destruct r2 as [o l]. exists o, l. reflexivity. Qed.

Lemma rrel_stuck : forall (A B : Type) (R : A -> B -> Prop) (r2 : out B * log), rrel R (@stuck A) r2.
Proof. intros. apply rrel_lenient_nil. right. reflexivity. Qed.

Lemma rrel_bind : forall (A B A' B' : Type) (R : A -> B -> Prop) (R' : A' -> B' -> Prop)
    (r1 : out A * log) (r2 : out B * log) (k1 : A -> out A' * log) (k2 : B -> out B' * log),
  rrel R r1 r2 -> (forall a b, R a b -> rrel R' (k1 a) (k2 b)) -> rrel R' (bind r1 k1) (bind r2 k2).
Proof.
  intros A B A' B' R R' [[a|e|] l1] r2 k1 k2 H HK; cbn [rrel bind] in *; auto.
  - destruct H as (b & -> & Hab). cbn [bind]. specialize (HK a b Hab).
    destruct (k1 a) as [[a'|e|] l1']; cbn [rrel] in *; auto.
    + destruct HK as (b' & -> & Hb). exists b'. auto.
    + destruct HK as [->|(Hl & o2 & l2 & ->)]; [left; auto|].
      right. split; auto. exists o2, l2. rewrite app_assoc. reflexivity.
  - destruct H as [->|(Hl & o2 & l2 & ->)]; [left; auto|].
    right. split; auto. destruct o2 as [b|e2|]; cbn [bind].
    + destruct (k2 b) as [o l']. exists o, (l2 ++ l'). rewrite app_assoc. reflexivity.
    + exists (Err e2), l2. reflexivity.
    + exists OOF, l2. reflexivity.
Qed.

Lemma rrel_ret : forall (A B : Type) (R : A -> B -> Prop) a b, R a b -> rrel R (ret a) (ret b).
Proof. intros. cbn. exists b. auto. Qed.

Lemma rrel_same_err : forall (A B : Type) (R : A -> B -> Prop) e l, rrel R (Err e, l) (Err e, l).
Proof. intros. cbn. left. reflexivity. Qed.

(* ------------------------------------------------------------------------------------------ *)
(* environments *)

Lemma erel_sub : forall S S' r1 r2, (forall x, In x S' -> In x S) -> erel S r1 r2 -> erel S' r1 r2.
Proof. unfold erel. intros. eauto. Qed.

Lemma Forall2_brel_fst : forall b1 b2, Forall2 brel b1 b2 -> map fst b1 = map fst b2.
Proof. induction 1 as [|p q b1 b2 [H _] _ IH]; cbn [map]; congruence. Qed.

Lemma lookup_brel : forall x b1 b2, Forall2 brel b1 b2 ->
  match lookup x b1 with
  | Some v1 => exists v2, lookup x b2 = Some v2 /\ vrel v1 v2
  | None => lookup x b2 = None
  end.
Proof.
  induction 1 as [|[y1 v1] [y2 v2] b1 b2 [H1 H2] _ IH]; cbn [lookup]; auto.
  cbn [fst snd] in *. subst y2. destruct (N.eqb x y1); eauto.
Qed.

(* extending both environments with related bindings *)
Lemma erel_app : forall S b1 b2 r1 r2,
  Forall2 brel b1 b2 ->
  erel (remove_all (map fst b1) S) r1 r2 ->
  erel S (b1 ++ r1) (b2 ++ r2).
Proof.
  intros S b1 b2 r1 r2 Hb Hr x v1 Hx Hl.
  pose proof (lookup_brel x _ _ Hb) as Hlk.
  destruct (lookup x b1) as [w1|] eqn:E1.
  - destruct Hlk as (w2 & E2 & Hw). rewrite (lookup_app_l _ _ _ _ _ E1) in Hl. injection Hl as <-.
    exists w2. split; auto. apply lookup_app_l. auto.
  - assert (Hn : ~ In x (map fst b1)).
    { intros Hin. destruct (lookup x b1) eqn:E; [discriminate|].
      clear - Hin E. induction b1 as [|[y a] b1 IH]; cbn in *; [tauto|].
      destruct (N.eqb x y) eqn:E'; [discriminate|]. apply N.eqb_neq in E'. destruct Hin; [congruence|auto]. }
    rewrite lookup_app_notin in Hl by assumption.
    rewrite lookup_app_notin by (rewrite <- (Forall2_brel_fst _ _ Hb); assumption).
    apply Hr; auto. apply In_remove_all. auto.
Qed.

Lemma erel_cons : forall S x v1 v2 r1 r2,
  vrel v1 v2 -> erel (removeb x S) r1 r2 -> erel S ((x, v1) :: r1) ((x, v2) :: r2).
Proof.
  intros. apply (erel_app S [(x, v1)] [(x, v2)]).
  - constructor; [split; auto | constructor].
  - eapply erel_sub; [|eassumption]. intros y Hy. apply In_remove_all in Hy. cbn in Hy.
    apply In_removeb. split; [tauto|]. intros ->. tauto.
Qed.

(* an extra binding on the first side only, for a variable the second run does not look at *)
Lemma erel_drop_l : forall S b1 r1 r2,
  (forall x, In x S -> ~ In x (map fst b1)) -> erel S r1 r2 -> erel S (b1 ++ r1) r2.
Proof.
  intros S b1 r1 r2 Hd Hr x v1 Hx Hl. rewrite lookup_app_notin in Hl by auto. apply Hr; auto.
Qed.

(* ------------------------------------------------------------------------------------------ *)
(* induction over the syntax *)

Scheme cexpr_mut := Induction for cexpr Sort Prop
  with cexprs_mut := Induction for cexprs Sort Prop
  with closures_mut := Induction for closures Sort Prop
  with calts_mut := Induction for calts Sort Prop.

Fixpoint all_list (P : cexpr -> Prop) (es : cexprs) : Prop :=
  match es with ENil => True | ECons e r => P e /\ all_list P r end.
Fixpoint all_clos (P : cexpr -> Prop) (cs : closures) : Prop :=
  match cs with CNil => True | CCons _ _ b r => P b /\ all_clos P r end.
Fixpoint all_alts (P : cexpr -> Prop) (alts : calts) : Prop :=
  match alts with ANil => True | ACons _ e r => P e /\ all_alts P r end.

Lemma cexpr_ind' : forall P : cexpr -> Prop,
  (forall l, P (Const l)) -> (forall x, P (Ident x)) -> (forall p, P (Prim p)) ->
  (forall f args, P f -> all_list P args -> P (Call f args)) ->
  (forall c args, all_list P args -> P (Data c args)) ->
  (forall ns args, all_list P args -> P (Rec ns args)) ->
  (forall x rhs body, P rhs -> P body -> P (Let x rhs body)) ->
  (forall cs body, all_clos P cs -> P body -> P (LetRec cs body)) ->
  (forall s alts, P s -> all_alts P alts -> P (Match s alts)) ->
  (forall e, P e -> P (Cast e)) ->
  forall e, P e.
Proof.
  intros P H1 H2 H3 H4 H5 H6 H7 H8 H9 H10.
  apply (cexpr_mut P (all_list P) (all_clos P) (all_alts P)); cbn; auto.
Qed.

(* ------------------------------------------------------------------------------------------ *)
(* the evaluator *)

Definition prim_view (f : cexpr) (args : cexprs) : option (primop * cexpr * cexpr) :=
  match f, args with
  | Prim p, ECons a (ECons b ENil) => Some (p, a, b)
  | _, _ => None
  end.

Section Sound.
Variable fop : primop -> Z -> Z -> Z.
Variable fcmp : primop -> Z -> Z -> bool.

Notation ev := (Core.ev fop fcmp).
Notation evl := (Core.evl fop fcmp).
Notation eva := (Core.eva fop fcmp).
Notation evm := (Core.evm fop fcmp).
Notation force := (Core.force fop fcmp).
Notation apply := (Core.apply fop fcmp).
Notation eval := (Core.eval fop fcmp).
Notation prim_sem := (Core.prim_sem fop fcmp).
Notation prim_apply := (Core.prim_apply fop fcmp).
Notation match_pat := (Core.match_pat fcmp).
Notation lit_matches := (Core.lit_matches fcmp).

Lemma ev_call : forall ap fr r f args,
  ev ap fr r (Call f args) =
  match prim_view f args with
  | Some (p, a, b) => prim_sem p (ev ap fr r a) (fun _ => ev ap fr r b)
  | None => bind (ev ap fr r f) (fun vf => bind (evl ap fr r args) (fun vs => ap vf vs))
  end.
Proof.
  intros. destruct f; try reflexivity.
  destruct args as [|a [|b [|c r']]]; reflexivity.
Qed.

(* unfolding equations (cbn does not fold the sibling functions of a mutual fixpoint back) *)
Lemma ev_const : forall ap fr r l, ev ap fr r (Const l) = ret (lit_value l). Proof. reflexivity. Qed.
Lemma ev_ident : forall ap fr r x, ev ap fr r (Ident x) = match lookup x r with Some v => ret v | None => stuck end.
Proof. reflexivity. Qed.
Lemma ev_prim : forall ap fr r p, ev ap fr r (Prim p) = stuck. Proof. reflexivity. Qed.
Lemma ev_data : forall ap fr r c args, ev ap fr r (Data c args) = bind (evl ap fr r args) (fun vs => ret (VData c vs)).
Proof. reflexivity. Qed.
Lemma ev_rec : forall ap fr r ns args, ev ap fr r (Rec ns args) =
  bind (evl ap fr r args) (fun vs => if Nat.eqb (length ns) (length vs) then ret (VRec (combine ns vs)) else stuck).
Proof. reflexivity. Qed.
Lemma ev_let : forall ap fr r x rhs body, ev ap fr r (Let x rhs body) = bind (ev ap fr r rhs) (fun v => ev ap fr ((x, v) :: r) body).
Proof. reflexivity. Qed.
Lemma ev_letrec : forall ap fr r cs body, ev ap fr r (LetRec cs body) =
  bind (evm ap fr (bind_group r cs) cs) (fun _ => ev ap fr (bind_group r cs) body).
Proof. reflexivity. Qed.
Lemma ev_match : forall ap fr r s alts, ev ap fr r (Match s alts) =
  bind (ev ap fr r s) (fun v => bind (fr v) (fun w => eva ap fr r w alts)).
Proof. reflexivity. Qed.
Lemma evm_nil : forall ap fr r, evm ap fr r CNil = ret tt. Proof. reflexivity. Qed.
Lemma evm_cons : forall ap fr r f ps body cs, evm ap fr r (CCons f ps body cs) =
  match ps with [] => bind (ev ap fr r body) (fun _ => evm ap fr r cs) | _ :: _ => evm ap fr r cs end.
Proof. reflexivity. Qed.
Lemma ev_cast : forall ap fr r e, ev ap fr r (Cast e) = ev ap fr r e. Proof. reflexivity. Qed.
Lemma evl_nil : forall ap fr r, evl ap fr r ENil = ret []. Proof. reflexivity. Qed.
Lemma evl_cons : forall ap fr r e es, evl ap fr r (ECons e es) =
  bind (ev ap fr r e) (fun v => bind (evl ap fr r es) (fun vs => ret (v :: vs))).
Proof. reflexivity. Qed.
Lemma eva_nil : forall ap fr r v, eva ap fr r v ANil = stuck. Proof. reflexivity. Qed.
Lemma eva_cons : forall ap fr r v p e alts, eva ap fr r v (ACons p e alts) =
  match match_pat p v with MYes binds => ev ap fr (binds ++ r) e | MNo => eva ap fr r v alts | MStuck => stuck end.
Proof. reflexivity. Qed.

(* no effect, and only the arithmetic (or the "cannot happen") failure; fuel is only needed where
   a recursive value is unfolded *)
Definition pure_out {A : Type} (r : out A * log) : Prop :=
  snd r = [] /\ match fst r with Val _ => True | Err e => lenient e | OOF => True end.

Lemma pure_bind : forall (A B : Type) (r : out A * log) (k : A -> out B * log),
  pure_out r -> (forall a, pure_out (k a)) -> pure_out (bind r k).
Proof.
  intros A B [[a|e|] l] k [Hl Ho] Hk; cbn [snd fst] in *; subst l; cbn [bind].
  - specialize (Hk a). destruct (k a) as [o l']. exact Hk.
  - split; auto.
  - split; auto.
Qed.

Lemma pure_ret : forall (A : Type) (a : A), pure_out (ret a).
Proof. intros. split; cbn; auto. Qed.

Lemma pure_stuck : forall (A : Type), pure_out (@stuck A).
Proof. intros. split; cbn; auto. right. reflexivity. Qed.

Lemma chk_int_pure : forall z, match chk_int z with Val _ => True | Err e => lenient e | OOF => True end.
Proof. intros. unfold chk_int. destruct (in_i64 z); cbn; auto. left. reflexivity. Qed.
Lemma chk_byte_pure : forall z, match chk_byte z with Val _ => True | Err e => lenient e | OOF => True end.
Proof. intros. unfold chk_byte. destruct (in_u8 z); cbn; auto. left. reflexivity. Qed.

Lemma prim_apply_pure : forall p a b,
  match prim_apply p a b with Val _ => True | Err e => lenient e | OOF => True end.
Proof.
  intros. unfold Core.prim_apply.
  assert (Hs : lenient EStuck) by (right; reflexivity).
  assert (Ha : lenient EArith) by (left; reflexivity).
  destruct p, (num_view a), (num_view b); cbn [prim_num]; auto;
    try apply chk_int_pure; try apply chk_byte_pure;
    match goal with |- context [Z.eqb ?y 0] => destruct (Z.eqb y 0); auto; try apply chk_int_pure; try apply chk_byte_pure end.
Qed.

(* [fr] (looking at a value) is pure *)
Definition fr_pure (fr : value -> res) : Prop := forall v, pure_out (fr v).

Definition dp (e : cexpr) : Prop := forall ap fr r, fr_pure fr -> droppable e = true -> pure_out (ev ap fr r e).

Lemma dp_list : forall args, all_list dp args ->
  forall ap fr r, fr_pure fr -> droppable_list args = true -> pure_out (evl ap fr r args).
Proof.
  induction args as [|e es IH]; cbn [all_list droppable_list]; intros H ap fr r Hfr Hd.
  - rewrite evl_nil. apply pure_ret.
  - apply andb_true_iff in Hd. destruct Hd as [Hd1 Hd2]. destruct H as [He Hes]. rewrite evl_cons.
    apply pure_bind; [apply He; auto|]. intros v.
    apply pure_bind; [apply IH; auto|]. intros vs. apply pure_ret.
Qed.

Lemma dp_alts : forall alts, all_alts dp alts ->
  forall ap fr r v, fr_pure fr -> droppable_alts alts = true -> pure_out (eva ap fr r v alts).
Proof.
  induction alts as [|p e alts IH]; cbn [all_alts droppable_alts]; intros H ap fr r v Hfr Hd.
  - rewrite eva_nil. apply pure_stuck.
  - apply andb_true_iff in Hd. destruct Hd as [Hd1 Hd2]. destruct H as [He Hes]. rewrite eva_cons.
    destruct (match_pat p v); [apply He; auto | apply IH; auto | apply pure_stuck].
Qed.

(* making a group whose value members are droppable is pure *)
Lemma dp_members : forall cs, all_clos dp cs ->
  forall ap fr r, fr_pure fr -> values_droppable cs = true -> pure_out (evm ap fr r cs).
Proof.
  unfold values_droppable.
  induction cs as [|f ps body cs IH]; cbn [all_clos droppable_clos]; intros H ap fr r Hfr Hd.
  - rewrite evm_nil. apply pure_ret.
  - apply andb_true_iff in Hd. destruct Hd as [Hd1 Hd2]. destruct H as [Hb Hcs]. rewrite evm_cons.
    destruct ps as [|p0 ps]; [|apply IH; auto].
    cbn [is_nil negb orb] in Hd1. apply pure_bind; [apply Hb; auto|]. intros _. apply IH; auto.
Qed.

Lemma droppable_pure_all : forall e, dp e.
Proof.
  induction e using cexpr_ind'; unfold dp in *; intros ap fr r Hfr Hd; cbn [droppable] in Hd.
  - rewrite ev_const. apply pure_ret.
  - rewrite ev_ident. destruct (lookup x r); [apply pure_ret | apply pure_stuck].
  - discriminate.
  - (* Call *)
    destruct e; try discriminate.
    destruct args as [|a [|b [|c r']]]; try discriminate.
    cbn [all_list] in H. destruct H as (Ha & Hb & _).
    apply andb_true_iff in Hd. destruct Hd as [Hd Hdb]. apply andb_true_iff in Hd. destruct Hd as [Hp Hda].
    rewrite ev_call. cbn [prim_view]. unfold Core.prim_sem.
    assert (G : pure_out (bind (ev ap fr r a) (fun va => bind (ev ap fr r b) (fun vb => (prim_apply p va vb, []))))).
    { apply pure_bind; [apply Ha; auto|]. intros va. apply pure_bind; [apply Hb; auto|]. intros vb.
      split; [reflexivity|]. apply prim_apply_pure. }
    destruct p; try exact G; discriminate.
  - rewrite ev_data. apply pure_bind; [apply dp_list; auto|]. intros. apply pure_ret.
  - rewrite ev_rec. apply pure_bind; [apply dp_list; auto|]. intros vs.
    destruct (Nat.eqb (length ns) (length vs)); [apply pure_ret | apply pure_stuck].
  - apply andb_true_iff in Hd. destruct Hd. rewrite ev_let. apply pure_bind; auto.
  - (* LetRec: droppable requires the value members to be droppable too *)
    apply andb_true_iff in Hd. destruct Hd as [Hv Hb]. rewrite ev_letrec.
    apply pure_bind; [apply dp_members; auto|]. intros _. auto.
  - apply andb_true_iff in Hd. destruct Hd. rewrite ev_match. apply pure_bind; auto.
    intros v. apply pure_bind; [apply Hfr|]. intros w. apply dp_alts; auto.
  - rewrite ev_cast. auto.
Qed.

(* ------------------------------------------------------------------------------------------ *)
(* related values behave alike under the primitive operations *)

Lemma num_view_rel : forall v1 v2, vrel v1 v2 -> num_view v1 = num_view v2.
Proof. destruct 1; reflexivity. Qed.

Lemma as_bool_rel : forall v1 v2, vrel v1 v2 -> as_bool v1 = as_bool v2.
Proof.
  destruct 1; try reflexivity. cbn [as_bool].
  match goal with H : Forall2 _ _ _ |- _ => destruct H; reflexivity end.
Qed.

Lemma vrel_vbool : forall b, vrel (vbool b) (vbool b).
Proof. intros. unfold vbool. constructor. constructor. Qed.

Lemma vrel_lit : forall l, vrel (lit_value l) (lit_value l).
Proof. destruct l; constructor. Qed.

Lemma prim_apply_rel : forall p a1 a2 b1 b2, vrel a1 a2 -> vrel b1 b2 ->
  rrel vrel (prim_apply p a1 b1, @nil Z) (prim_apply p a2 b2, @nil Z).
Proof.
  intros p a1 a2 b1 b2 Ha Hb. unfold Core.prim_apply.
  rewrite (num_view_rel _ _ Ha), (num_view_rel _ _ Hb).
  destruct (prim_num fop fcmp p (num_view a2) (num_view b2)) as [v|e|] eqn:E; cbn [rrel]; auto.
  exists v. split; auto.
  (* the result of a primitive is a number or a boolean *)
  unfold prim_num, chk_int, chk_byte in E.
  destruct p, (num_view a2), (num_view b2); try discriminate;
    repeat match type of E with
           | (if ?c then _ else _) = _ => destruct c
           end; try discriminate; injection E as <-; first [apply vrel_vbool | constructor].
Qed.

Lemma host_call_rel : forall h v1 v2, vrel v1 v2 -> rrel vrel (host_call h v1) (host_call h v2).
Proof.
  intros h v1 v2 H. destruct h; destruct H; cbn [host_call]; try apply rrel_stuck.
  - cbn. eexists. split; [reflexivity|constructor].
  - apply rrel_same_err.
Qed.

Lemma lit_matches_rel : forall l v1 v2, vrel v1 v2 -> lit_matches l v1 = lit_matches l v2.
Proof. intros l v1 v2 H. destruct l; destruct H; reflexivity. Qed.

Lemma Forall2_length' : forall (A B : Type) (R : A -> B -> Prop) l1 l2, Forall2 R l1 l2 -> length l1 = length l2.
Proof. induction 1; cbn; auto. Qed.

Lemma Forall2_combine_brel : forall xs vs1 vs2, Forall2 vrel vs1 vs2 ->
  Forall2 brel (combine xs vs1) (combine xs vs2).
Proof.
  induction xs as [|x xs IH]; intros vs1 vs2 H; cbn [combine]; [constructor|].
  destruct H; [constructor|]. constructor; [split; auto|auto].
Qed.

Lemma lookup_fields_rel : forall pfs f1 f2, Forall2 brel f1 f2 ->
  match lookup_fields pfs f1 with
  | Some b1 => exists b2, lookup_fields pfs f2 = Some b2 /\ Forall2 brel b1 b2
  | None => lookup_fields pfs f2 = None
  end.
Proof.
  induction pfs as [|[fn x] pfs IH]; intros f1 f2 H; cbn [lookup_fields].
  - exists []. split; auto.
  - pose proof (lookup_brel fn _ _ H) as Hl. specialize (IH _ _ H).
    destruct (lookup fn f1) as [v1|].
    + destruct Hl as (v2 & -> & Hv).
      destruct (lookup_fields pfs f1) as [b1|].
      * destruct IH as (b2 & -> & Hb). eexists. split; [reflexivity|]. constructor; [split; auto|auto].
      * rewrite IH. reflexivity.
    + rewrite Hl. reflexivity.
Qed.

(* matching related values against the same pattern *)
Lemma match_pat_rel : forall p v1 v2, vrel v1 v2 ->
  match match_pat p v1 with
  | MYes b1 => exists b2, match_pat p v2 = MYes b2 /\ Forall2 brel b1 b2
  | MNo => match_pat p v2 = MNo
  | MStuck => match_pat p v2 = MStuck
  end.
Proof.
  intros p v1 v2 H. destruct p as [c xs|pfs|x|l]; cbn [Core.match_pat].
  - destruct H; auto.
    destruct (N.eqb c c0); auto.
    rewrite <- (Forall2_length' _ _ _ _ _ H).
    destruct (Nat.eqb (length xs) (length vs1)); auto.
    eexists. split; [reflexivity|]. apply Forall2_combine_brel. auto.
  - destruct H; auto.
    pose proof (lookup_fields_rel pfs fs1 fs2 H) as Hl.
    destruct (lookup_fields pfs fs1).
    + destruct Hl as (b2 & -> & Hb). eauto.
    + rewrite Hl. reflexivity.
  - eexists. split; [reflexivity|]. constructor; [split; auto|constructor].
  - rewrite <- (lit_matches_rel l _ _ H). destruct (lit_matches l v1) as [[|]|]; auto.
    exists []. split; auto.
Qed.

Lemma lookup_fields_dom : forall pfs fvs b, lookup_fields pfs fvs = Some b -> map fst b = map snd pfs.
Proof.
  induction pfs as [|[fn x] pfs IH]; cbn [lookup_fields]; intros fvs b H.
  - injection H as <-. reflexivity.
  - destruct (lookup fn fvs); [|discriminate]. destruct (lookup_fields pfs fvs) eqn:E; [|discriminate].
    injection H as <-. cbn. f_equal. eauto.
Qed.

Lemma match_pat_dom : forall p v b, match_pat p v = MYes b -> map fst b = pat_binders p.
Proof.
  intros p v b. destruct p as [c xs|pfs|x|l]; cbn [Core.match_pat pat_binders].
  - destruct v; try discriminate. destruct (N.eqb c c0); try discriminate.
    destruct (Nat.eqb (length xs) (length vs)) eqn:E; try discriminate. intros [= <-].
    apply Nat.eqb_eq in E. clear - E. revert vs E. induction xs; destruct vs; cbn; intros; try discriminate; auto.
    f_equal. auto.
  - destruct v; try discriminate. destruct (lookup_fields pfs fs) eqn:E; try discriminate.
    intros [= <-]. eapply lookup_fields_dom; eauto.
  - intros [= <-]. reflexivity.
  - destruct (lit_matches l v) as [[|]|]; try discriminate. intros [= <-]. reflexivity.
Qed.

(* ------------------------------------------------------------------------------------------ *)
(* recursive groups *)

Lemma lookup_group : forall (F : ident -> value) x names r,
  lookup x (map (fun g => (g, F g)) names ++ r) = if memb x names then Some (F x) else lookup x r.
Proof.
  induction names as [|g names IH]; intros r; cbn [map app lookup memb]; auto.
  destruct (N.eqb x g) eqn:E; cbn [orb]; auto. apply N.eqb_eq in E. subst. reflexivity.
Qed.

Lemma lookup_bind_group : forall x r cs,
  lookup x (bind_group r cs) = if memb x (clo_names cs) then Some (VClo r cs x) else lookup x r.
Proof. intros. unfold bind_group. apply lookup_group. Qed.

Lemma vo_clos_names : forall k cs cs' kfv, vo_clos k cs cs' kfv = true ->
  forall g, In g (clo_names cs') -> In g (clo_names cs).
Proof.
  induction k as [|k IH]; intros cs cs' kfv H g Hg; cbn [vo_clos] in H; [discriminate|].
  destruct cs as [|f ps body r].
  - destruct cs'; [destruct Hg|discriminate].
  - apply orb_true_iff in H. destruct H as [H|H].
    + destruct cs' as [|f' ps' body' r']; [discriminate|].
      rewrite !andb_true_iff in H. destruct H as [[[Hf _] _] Hr]. apply N.eqb_eq in Hf. subst f'.
      cbn [clo_names In] in *. destruct Hg; eauto.
    + apply andb_true_iff in H. destruct H as [_ Hr]. cbn [clo_names In]. right. eauto.
Qed.

Lemma vo_clos_dropped : forall k cs cs' kfv, vo_clos k cs cs' kfv = true ->
  forall g, In g (clo_names cs) -> In g (clo_names cs') \/ ~ In g kfv.
Proof.
  induction k as [|k IH]; intros cs cs' kfv H g Hg; cbn [vo_clos] in H; [discriminate|].
  destruct cs as [|f ps body r]; [destruct Hg|].
  apply orb_true_iff in H. destruct H as [H|H].
  - destruct cs' as [|f' ps' body' r']; [discriminate|].
    rewrite !andb_true_iff in H. destruct H as [[[Hf _] _] Hr]. apply N.eqb_eq in Hf. subst f'.
    cbn [clo_names In] in *. destruct Hg as [->|Hg]; [auto|]. destruct (IH _ _ _ Hr g Hg); auto.
  - apply andb_true_iff in H. destruct H as [Hn Hr]. apply andb_true_iff in Hn. destruct Hn as [Hn _].
    apply negb_true_iff, memb_false in Hn.
    cbn [clo_names In] in Hg. destruct Hg as [<-|Hg]; [auto|]. eauto.
Qed.

Lemma find_clo_notin : forall g cs, ~ In g (clo_names cs) -> find_clo g cs = None.
Proof.
  induction cs as [|f ps b r IH]; cbn [find_clo clo_names In]; auto.
  intros H. destruct (N.eqb g f) eqn:E; [apply N.eqb_eq in E; subst; tauto | tauto].
Qed.

Lemma vo_clos_find : forall k cs cs' kfv, vo_clos k cs cs' kfv = true -> NoDup (clo_names cs) ->
  forall g, In g (clo_names cs') ->
  exists ps b1 b2 k', find_clo g cs = Some (ps, b1) /\ find_clo g cs' = Some (ps, b2) /\ vo k' b1 b2 = true.
Proof.
  induction k as [|k IH]; intros cs cs' kfv H Hnd g Hg; cbn [vo_clos] in H; [discriminate|].
  destruct cs as [|f ps body r].
  - destruct cs'; [destruct Hg|discriminate].
  - cbn [clo_names] in Hnd. inversion Hnd as [|? ? Hnotin Hnd']. subst.
    apply orb_true_iff in H. destruct H as [H|H].
    + destruct cs' as [|f' ps' body' r']; [discriminate|].
      rewrite !andb_true_iff in H. destruct H as [[[Hf Hps] Hb] Hr].
      apply N.eqb_eq in Hf. subst f'. apply list_N_eqb_eq in Hps. subst ps'.
      cbn [find_clo]. destruct (N.eqb g f) eqn:E.
      * exists ps, body, body', k. repeat split; auto.
      * apply N.eqb_neq in E. cbn [clo_names In] in Hg. destruct Hg as [Hg|Hg]; [congruence|].
        apply (IH _ _ _ Hr Hnd' g Hg).
    + apply andb_true_iff in H. destruct H as [_ Hr].
      assert (Hgr : In g (clo_names r)) by (eapply vo_clos_names; eauto).
      cbn [find_clo]. destruct (N.eqb g f) eqn:E; [apply N.eqb_eq in E; subst; tauto|].
      apply (IH _ _ _ Hr Hnd' g Hg).
Qed.

(* ------------------------------------------------------------------------------------------ *)
(* record patterns *)

Lemma In_lookup_nodup : forall (l : list (N * N)) k v, NoDup (map fst l) -> In (k, v) l -> lookup k l = Some v.
Proof.
  induction l as [|[k0 v0] l IH]; cbn [map fst In lookup]; intros k v Hnd Hin; [tauto|].
  inversion Hnd as [|? ? Hn Hnd']. subst. destruct Hin as [[= -> ->]|Hin].
  - rewrite N.eqb_refl. reflexivity.
  - destruct (N.eqb k k0) eqn:E; [|auto]. apply N.eqb_eq in E. subst.
    exfalso. apply Hn. change k0 with (fst (k0, v)). apply in_map. assumption.
Qed.

Lemma lookup_fields_lookup : forall pfs fvs bs fn x v,
  NoDup (map snd pfs) -> lookup fn pfs = Some x -> lookup_fields pfs fvs = Some bs ->
  lookup fn fvs = Some v -> lookup x bs = Some v.
Proof.
  induction pfs as [|[f0 x0] pfs IH]; cbn [lookup lookup_fields map snd]; intros fvs bs fn x v Hnd Hl Hf Hv;
    [discriminate|].
  inversion Hnd as [|? ? Hn Hnd']. subst.
  destruct (lookup f0 fvs) as [v0|] eqn:E0; [|discriminate].
  destruct (lookup_fields pfs fvs) as [bs'|] eqn:E1; [|discriminate]. injection Hf as <-.
  cbn [lookup]. destruct (N.eqb fn f0) eqn:E.
  - apply N.eqb_eq in E. subst f0. injection Hl as <-. rewrite N.eqb_refl. congruence.
  - destruct (N.eqb x x0) eqn:Ex.
    + apply N.eqb_eq in Ex. subst x0. exfalso. apply Hn. eapply lookup_In_snd; eauto.
    + eapply IH; eauto.
Qed.

Lemma In_snd_exists : forall (l : list (N * N)) x, In x (map snd l) -> exists k, In (k, x) l.
Proof.
  induction l as [|[k0 v0] l IH]; cbn [map snd In]; intros x H; [tauto|].
  destruct H as [<-|H]; [eauto|]. destruct (IH _ H) as [k Hk]. eauto.
Qed.

Lemma lookup_app_pres : forall (A : Type) x (l1 l2 : list (N * A)) v, lookup x l1 = Some v -> lookup x (l1 ++ l2) = Some v.
Proof. intros. apply lookup_app_l. assumption. Qed.

Lemma bind_cons_assoc : forall (A B : Type) (ra : out A * log) (rl : out (list A) * log) (K : list A -> out B * log),
  bind (bind ra (fun v => bind rl (fun vs => ret (v :: vs)))) K = bind ra (fun v => bind rl (fun vs => K (v :: vs))).
Proof.
  intros. rewrite bind_assoc. destruct ra as [[a|e|] l]; cbn [bind]; auto.
  rewrite bind_assoc. destruct rl as [[vs|e|] l']; cbn [bind]; auto.
  unfold ret. cbn [bind]. destruct (K (a :: vs)) as [o l'']. cbn. reflexivity.
Qed.

Lemma bind_ext_val : forall (A B : Type) (r : out A * log) (f g : A -> out B * log),
  (forall a l, r = (Val a, l) -> f a = g a) -> bind r f = bind r g.
Proof. intros A B [[a|e|] l] f g H; cbn [bind]; auto. rewrite (H a l eq_refl). reflexivity. Qed.

Lemma evl_length : forall ap fr r es vs l, evl ap fr r es = (Val vs, l) -> length vs = length_list es.
Proof.
  induction es as [|e es IH]; intros vs l H; cbn [length_list].
  - rewrite evl_nil in H. unfold ret in H. injection H as <- _. reflexivity.
  - rewrite evl_cons in H.
    destruct (ev ap fr r e) as [[v|e0|] l1]; cbn [bind] in H; try discriminate.
    destruct (evl ap fr r es) as [[vs'|e0|] l2] eqn:E; unfold ret in H; cbn [bind] in H; try discriminate.
    injection H as <- _. cbn [length]. f_equal. eauto.
Qed.

(* ------------------------------------------------------------------------------------------ *)
(* unfolding equations of the syntactic functions *)

Lemma fv_call : forall f args, fv (Call f args) = fv f ++ fv_list args. Proof. reflexivity. Qed.
Lemma fv_data : forall c args, fv (Data c args) = fv_list args. Proof. reflexivity. Qed.
Lemma fv_rec : forall ns args, fv (Rec ns args) = fv_list args. Proof. reflexivity. Qed.
Lemma fv_let : forall x rhs body, fv (Let x rhs body) = fv rhs ++ removeb x (fv body). Proof. reflexivity. Qed.
Lemma fv_letrec : forall cs body, fv (LetRec cs body) = remove_all (clo_names cs) (fv_clos cs ++ fv body).
Proof. reflexivity. Qed.
Lemma fv_match : forall s alts, fv (Match s alts) = fv s ++ fv_alts alts. Proof. reflexivity. Qed.
Lemma fv_cast : forall e, fv (Cast e) = fv e. Proof. reflexivity. Qed.
Lemma fv_list_cons : forall e es, fv_list (ECons e es) = fv e ++ fv_list es. Proof. reflexivity. Qed.
Lemma fv_alts_cons : forall p e alts, fv_alts (ACons p e alts) = remove_all (pat_binders p) (fv e) ++ fv_alts alts.
Proof. reflexivity. Qed.

Lemma vo_const : forall k l b, vo (S k) (Const l) b = match b with Const l' => lit_eqb l l' | _ => false end.
Proof. reflexivity. Qed.
Lemma vo_ident : forall k x b, vo (S k) (Ident x) b = match b with Ident y => N.eqb x y | _ => false end.
Proof. reflexivity. Qed.
Lemma vo_prim : forall k p b, vo (S k) (Prim p) b = match b with Prim q => primop_eqb p q | _ => false end.
Proof. reflexivity. Qed.
Lemma vo_call : forall k f args b, vo (S k) (Call f args) b =
  match b with
  | Call f' args' => (negb (is_prim f') || is_prim f) && vo k f f' && vo_list k args args'
  | _ => false
  end.
Proof. reflexivity. Qed.
Lemma vo_data : forall k c args b, vo (S k) (Data c args) b =
  match b with Data c' args' => N.eqb c c' && vo_list k args args' | _ => false end.
Proof. reflexivity. Qed.
Lemma vo_rec : forall k ns args b, vo (S k) (Rec ns args) b =
  match b with Rec ns' args' => list_N_eqb ns ns' && vo_list k args args' | _ => false end.
Proof. reflexivity. Qed.
Lemma vo_cast : forall k e b, vo (S k) (Cast e) b = match b with Cast e' => vo k e e' | _ => false end.
Proof. reflexivity. Qed.
Lemma vo_let : forall k x rhs body b, vo (S k) (Let x rhs body) b =
  (match b with Let x' rhs' body' => N.eqb x x' && vo k rhs rhs' && vo k body body' | _ => false end)
  || (droppable rhs && negb (memb x (fv b)) && vo k body b).
Proof. reflexivity. Qed.
Lemma vo_letrec : forall k cs body b, vo (S k) (LetRec cs body) b =
  (match b with
   | LetRec cs' body' => nodupb (clo_names cs) && vo_clos k cs cs' (fv_clos cs' ++ fv body') && vo k body body'
   | _ => false
   end)
  || (disjointb (clo_names cs) (fv b) && values_droppable cs && vo k body b).
Proof. reflexivity. Qed.
Lemma vo_match : forall k s alts b, vo (S k) (Match s alts) b =
  (match b with Match s' alts' => vo k s s' && vo_alts k alts alts' | _ => false end)
  || (match s, alts with
      | Rec ns args, ACons (PRec pfs) body ANil =>
          nodupb ns && nodupb (map snd pfs) && nodupb (map fst pfs) && inclb (map fst pfs) ns
          && Nat.eqb (length ns) (length_list args)
          && vo_fields k ns args pfs body [] b
      | _, _ => false
      end)
  || (match alts with
      | ACons (PRec pfs) body ANil => droppable s && disjointb (map snd pfs) (fv b) && vo k body b
      | _ => false
      end).
Proof. reflexivity. Qed.
Lemma vo_list_S : forall k es es', vo_list (S k) es es' =
  match es, es' with
  | ENil, ENil => true
  | ECons e r, ECons e' r' => vo k e e' && vo_list k r r'
  | _, _ => false
  end.
Proof. reflexivity. Qed.
Lemma vo_alts_S : forall k alts alts', vo_alts (S k) alts alts' =
  match alts, alts' with
  | ANil, ANil => true
  | ACons p e r, ACons p' e' r' => pat_eqb p p' && vo k e e' && vo_alts k r r'
  | _, _ => false
  end.
Proof. reflexivity. Qed.
Lemma vo_fields_S : forall k ns args pfs body kept b, vo_fields (S k) ns args pfs body kept b =
  match ns, args with
  | [], ENil => vo k body b
  | fn :: ns', ECons e args' =>
      (match b with
       | Let p e' b' =>
           (match binder_of fn pfs with
            | Some x => N.eqb x p
            | None => negb (memb p (fv b')) && negb (memb p (map snd pfs))
            end)
           && negb (memb p kept)
           && disjointb kept (fv e')
           && vo k e e'
           && vo_fields k ns' args' pfs body (p :: kept) b'
       | _ => false
       end)
      || (droppable e
          && (match binder_of fn pfs with Some x => negb (memb x (fv b)) | None => true end)
          && vo_fields k ns' args' pfs body kept b)
  | _, _ => false
  end.
Proof. reflexivity. Qed.

(* ------------------------------------------------------------------------------------------ *)
(* soundness of the checker, for any two application functions that respect [vrel] *)

Definition apply_ok (ap1 ap2 : value -> list value -> res) : Prop :=
  forall vf1 vf2 vs1 vs2, vrel vf1 vf2 -> Forall2 vrel vs1 vs2 -> rrel vrel (ap1 vf1 vs1) (ap2 vf2 vs2).

Lemma prim_sem_rel : forall p ra1 ra2 rb1 rb2,
  rrel vrel ra1 ra2 -> rrel vrel (rb1 tt) (rb2 tt) -> rrel vrel (prim_sem p ra1 rb1) (prim_sem p ra2 rb2).
Proof.
  intros p ra1 ra2 rb1 rb2 Ha Hb.
  assert (G : rrel vrel (bind ra1 (fun va => bind (rb1 tt) (fun vb => (prim_apply p va vb, []))))
                        (bind ra2 (fun va => bind (rb2 tt) (fun vb => (prim_apply p va vb, []))))).
  { eapply rrel_bind; [exact Ha|]. intros va1 va2 Hva. eapply rrel_bind; [exact Hb|].
    intros vb1 vb2 Hvb. apply prim_apply_rel; auto. }
  destruct p; try exact G; unfold Core.prim_sem.
  - eapply rrel_bind; [exact Ha|]. intros v1 v2 Hv. rewrite (as_bool_rel _ _ Hv).
    destruct (as_bool v2) as [[|]|]; [exact Hb | apply rrel_ret, vrel_vbool | apply rrel_stuck].
  - eapply rrel_bind; [exact Ha|]. intros v1 v2 Hv. rewrite (as_bool_rel _ _ Hv).
    destruct (as_bool v2) as [[|]|]; [apply rrel_ret, vrel_vbool | exact Hb | apply rrel_stuck].
Qed.

Lemma prim_view_some : forall f args p a b, prim_view f args = Some (p, a, b) ->
  f = Prim p /\ args = ECons a (ECons b ENil).
Proof.
  intros f args p a b H. destruct f; try discriminate.
  destruct args as [|a0 [|b0 [|c r']]]; try discriminate. injection H as -> -> ->. auto.
Qed.

Lemma prim_view_not_prim : forall f args, is_prim f = false -> prim_view f args = None.
Proof. intros f args H. destruct f; try reflexivity. discriminate. Qed.

Definition force_ok (fr1 fr2 : value -> res) : Prop :=
  forall v1 v2, vrel v1 v2 -> rrel vrel (fr1 v1) (fr2 v2).
(* looking at a record that is not a recursive value leaves it as it is *)
Definition fr_data (fr : value -> res) : Prop := forall fs, fr (VRec fs) = ret (VRec fs).

Section WithAp.
Variables ap1 ap2 : value -> list value -> res.
Variables fr1 fr2 : value -> res.
Hypothesis Hap : apply_ok ap1 ap2.
Hypothesis Hfr : force_ok fr1 fr2.
Hypothesis Hfp : fr_pure fr1.
Hypothesis Hfd : fr_data fr1.

Definition P_ev (k : nat) : Prop := forall a b r1 r2,
  vo k a b = true -> erel (fv b) r1 r2 -> rrel vrel (ev ap1 fr1 r1 a) (ev ap2 fr2 r2 b).
Definition P_evl (k : nat) : Prop := forall es es' r1 r2,
  vo_list k es es' = true -> erel (fv_list es') r1 r2 -> rrel (Forall2 vrel) (evl ap1 fr1 r1 es) (evl ap2 fr2 r2 es').
Definition P_eva (k : nat) : Prop := forall alts alts' r1 r2 v1 v2,
  vo_alts k alts alts' = true -> vrel v1 v2 -> erel (fv_alts alts') r1 r2 ->
  rrel vrel (eva ap1 fr1 r1 v1 alts) (eva ap2 fr2 r2 v2 alts').

Lemma P_evl_step : forall k, P_ev k -> P_evl k -> P_evl (S k).
Proof.
  intros k Hev Hevl es es' r1 r2 H He. rewrite vo_list_S in H.
  destruct es as [|e r], es' as [|e' r']; try discriminate.
  - rewrite !evl_nil. apply rrel_ret. constructor.
  - apply andb_true_iff in H. destruct H as [H1 H2]. rewrite !evl_cons.
    eapply rrel_bind.
    + apply Hev; [exact H1|]. eapply erel_sub; [|exact He]. intros x Hx. rewrite fv_list_cons.
      apply in_or_app. auto.
    + intros v1 v2 Hv. eapply rrel_bind.
      * apply Hevl; [exact H2|]. eapply erel_sub; [|exact He]. intros x Hx. rewrite fv_list_cons.
        apply in_or_app. auto.
      * intros vs1 vs2 Hvs. apply rrel_ret. constructor; auto.
Qed.

Lemma P_eva_step : forall k, P_ev k -> P_eva k -> P_eva (S k).
Proof.
  intros k Hev Heva alts alts' r1 r2 v1 v2 H Hv He. rewrite vo_alts_S in H.
  destruct alts as [|p e r], alts' as [|p' e' r']; try discriminate.
  - rewrite eva_nil. apply rrel_stuck.
  - rewrite !andb_true_iff in H. destruct H as [[Hp H1] H2]. apply pat_eqb_eq in Hp. subst p'.
    rewrite !eva_cons. pose proof (match_pat_rel p v1 v2 Hv) as Hm.
    destruct (match_pat p v1) as [b1| |] eqn:M1.
    + destruct Hm as (b2 & -> & Hb). apply Hev; [exact H1|]. apply erel_app; [exact Hb|].
      eapply erel_sub; [|exact He]. intros x Hx. rewrite fv_alts_cons. apply in_or_app. left.
      rewrite (match_pat_dom _ _ _ M1) in Hx. exact Hx.
    + rewrite Hm. apply Heva; [exact H2|exact Hv|]. eapply erel_sub; [|exact He]. intros x Hx.
      rewrite fv_alts_cons. apply in_or_app. auto.
    + apply rrel_stuck.
Qed.


(* the bookkeeping of R3: [done] are the fields evaluated so far on the first side, [r2k] the
   bindings the second side has kept for them (their binders are [kept]) *)
Definition Inv (pfs : list (N * N)) (done : list (N * value)) (kept : list N) (r2k : env)
               (S : list N) (r1 r2 : env) : Prop :=
  forall x, In x S ->
    (In x kept -> exists fn v1 v2,
        lookup fn pfs = Some x /\ lookup fn done = Some v1 /\ lookup x r2k = Some v2 /\ vrel v1 v2)
    /\ (~ In x kept ->
        (forall fn, In fn (map fst done) -> lookup fn pfs <> Some x)
        /\ (forall v1, lookup x r1 = Some v1 -> exists v2, lookup x r2 = Some v2 /\ vrel v1 v2)).

Definition fields_kont (ap : value -> list value -> res) (fr : value -> res) (pfs : list (N * N)) (done : list (N * value))
    (ns : list N) (r1 : env) (body : cexpr) (vs : list value) : res :=
  match lookup_fields pfs (done ++ combine ns vs) with
  | Some bs => ev ap fr (bs ++ r1) body
  | None => stuck
  end.


Definition P_fields (k : nat) : Prop := forall ns args pfs body kept b done r1 r2 r2k,
  vo_fields k ns args pfs body kept b = true ->
  NoDup (map snd pfs) -> NoDup (map fst pfs) ->
  NoDup (map fst done ++ ns) ->
  map fst r2k = kept -> NoDup kept ->
  (forall fn x, In (fn, x) pfs -> In fn (map fst done ++ ns)) ->
  Inv pfs done kept r2k (fv b) r1 r2 ->
  rrel vrel (bind (evl ap1 fr1 r1 args) (fields_kont ap1 fr1 pfs done ns r1 body)) (ev ap2 fr2 (r2k ++ r2) b).

Lemma lookup_snoc_old : forall (A : Type) x (l : list (N * A)) y a v,
  lookup x l = Some v -> lookup x (l ++ [(y, a)]) = Some v.
Proof. intros. apply lookup_app_l. assumption. Qed.

Lemma P_fields_step : forall k, P_ev k -> P_fields k -> P_fields (S k).
Proof.
  intros k Hev Hfl ns args pfs body kept b done r1 r2 r2k H Hnd2 Hnd1 Hndn Hk Hndk Hincl HI.
  rewrite vo_fields_S in H.
  destruct ns as [|fn ns'], args as [|e args']; try discriminate.
  - (* all fields done: the body *)
    rewrite evl_nil, bind_ret_l. unfold fields_kont. cbn [combine]. rewrite app_nil_r.
    destruct (lookup_fields pfs done) as [bs|] eqn:EL; [|apply rrel_stuck].
    apply Hev; [exact H|].
    intros x v1 Hx Hl. destruct (HI x Hx) as [HI1 HI2].
    destruct (in_dec N.eq_dec x kept) as [Hin|Hnin].
    + destruct (HI1 Hin) as (fn & w1 & w2 & Hp & Hd & Hr & Hw).
      pose proof (lookup_fields_lookup _ _ _ _ _ _ Hnd2 Hp EL Hd) as Hb.
      rewrite (lookup_app_l _ _ _ _ _ Hb) in Hl. injection Hl as <-.
      exists w2. split; auto. apply lookup_app_l. exact Hr.
    + destruct (HI2 Hnin) as [HA HB].
      assert (Hnb : ~ In x (map fst bs)).
      { rewrite (lookup_fields_dom _ _ _ EL). intros Hc. apply In_snd_exists in Hc. destruct Hc as [fn Hfn].
        apply (HA fn).
        - specialize (Hincl _ _ Hfn). rewrite app_nil_r in Hincl. exact Hincl.
        - apply In_lookup_nodup; auto. }
      rewrite lookup_app_notin in Hl by exact Hnb.
      destruct (HB _ Hl) as (v2 & Hv2 & Hr). exists v2. split; auto.
      rewrite lookup_app_notin; [exact Hv2|]. rewrite Hk. exact Hnin.
  - (* a field *)
    rewrite evl_cons, bind_cons_assoc.
    assert (Hfresh : ~ In fn (map fst done)).
    { intros Hc. apply NoDup_remove_2 in Hndn. apply Hndn. apply in_or_app. auto. }
    assert (Hkont : forall v vs, fields_kont ap1 fr1 pfs done (fn :: ns') r1 body (v :: vs)
                               = fields_kont ap1 fr1 pfs (done ++ [(fn, v)]) ns' r1 body vs).
    { intros. unfold fields_kont. cbn [combine]. rewrite <- app_assoc. reflexivity. }
    assert (Hndn' : forall v : value, NoDup (map fst (done ++ [(fn, v)]) ++ ns')).
    { intros. rewrite map_app, <- app_assoc. exact Hndn. }
    assert (Hincl' : forall v : value, forall f x, In (f, x) pfs -> In f (map fst (done ++ [(fn, v)]) ++ ns')).
    { intros. rewrite map_app, <- app_assoc. eauto. }
    apply orb_true_iff in H. destruct H as [H|H].
    + (* the binding is kept *)
      destruct b as [| | | | | |p e' b'| | |]; try discriminate.
      rewrite !andb_true_iff in H. destruct H as [[[[Hbind Hpk] Hdis] Hve] Hrest].
      apply negb_true_iff, memb_false in Hpk. rewrite disjointb_spec in Hdis.
      rewrite ev_let. eapply rrel_bind.
      * apply Hev; [exact Hve|]. intros x v1 Hx Hl.
        assert (Hxb : In x (fv (Let p e' b'))) by (rewrite fv_let; apply in_or_app; auto).
        destruct (HI x Hxb) as [_ HI2].
        assert (Hnin : ~ In x kept) by (intros Hc; exact (Hdis x Hc Hx)).
        destruct (HI2 Hnin) as [_ HB]. destruct (HB _ Hl) as (v2 & Hv2 & Hr). exists v2. split; auto.
        rewrite lookup_app_notin; [exact Hv2|]. rewrite Hk. exact Hnin.
      * intros v1 v2 Hv.
        erewrite bind_ext_val; [|intros vs l _; apply Hkont].
        change ((p, v2) :: r2k ++ r2) with (((p, v2) :: r2k) ++ r2).
        apply Hfl with (kept := p :: kept);
          [exact Hrest | exact Hnd2 | exact Hnd1 | apply Hndn' | cbn [map fst]; congruence
          | constructor; auto | apply Hincl' | ].
        -- (* the invariant *)
           intros x Hx. split.
           ++ intros Hin. destruct (N.eq_dec x p) as [->|Hne].
              ** (* the binding just made *)
                 destruct (binder_of fn pfs) as [x0|] eqn:EB.
                 --- apply N.eqb_eq in Hbind. subst x0. exists fn, v1, v2. repeat split; auto.
                     +++ apply lookup_app_r_new. exact Hfresh.
                     +++ cbn [lookup]. rewrite N.eqb_refl. reflexivity.
                 --- apply andb_true_iff in Hbind. destruct Hbind as [Hb1 _].
                     apply negb_true_iff, memb_false in Hb1. contradiction.
              ** destruct Hin as [Hin|Hin]; [congruence|].
                 assert (Hxb : In x (fv (Let p e' b'))).
                 { rewrite fv_let. apply in_or_app. right. apply In_removeb. auto. }
                 destruct (HI x Hxb) as [HI1 _]. destruct (HI1 Hin) as (f0 & w1 & w2 & Hp & Hd & Hr & Hw).
                 exists f0, w1, w2. repeat split; auto.
                 --- apply lookup_app_l. exact Hd.
                 --- cbn [lookup]. destruct (N.eqb x p) eqn:E; [apply N.eqb_eq in E; congruence|exact Hr].
           ++ intros Hnin. cbn [In] in Hnin.
              assert (Hne : x <> p) by (intros ->; tauto).
              assert (Hnk : ~ In x kept) by tauto.
              assert (Hxb : In x (fv (Let p e' b'))).
              { rewrite fv_let. apply in_or_app. right. apply In_removeb. auto. }
              destruct (HI x Hxb) as [_ HI2]. destruct (HI2 Hnk) as [HA HB]. split; [|exact HB].
              intros f0 Hf0. rewrite map_app in Hf0. apply in_app_or in Hf0. destruct Hf0 as [Hf0|Hf0]; [auto|].
              cbn in Hf0. destruct Hf0 as [<-|[]]. unfold binder_of in Hbind.
              destruct (lookup fn pfs) as [x0|] eqn:EB; [|congruence].
              apply N.eqb_eq in Hbind. congruence.
    + (* the binding is dropped *)
      rewrite !andb_true_iff in H. destruct H as [[Hd Hbind] Hrest].
      destruct (droppable_pure_all e ap1 fr1 r1 Hfp Hd) as [Hl Ho].
      destruct (ev ap1 fr1 r1 e) as [[v1|e0|] l]; cbn [fst snd] in *; subst l.
      * rewrite bind_val_nil. erewrite bind_ext_val; [|intros vs l _; apply Hkont].
        apply Hfl with (kept := kept);
          [exact Hrest | exact Hnd2 | exact Hnd1 | apply Hndn' | exact Hk | exact Hndk | apply Hincl' | ].
        intros x Hx. destruct (HI x Hx) as [HI1 HI2]. split.
        -- intros Hin. destruct (HI1 Hin) as (f0 & w1 & w2 & Hp & Hdn & Hr & Hw).
           exists f0, w1, w2. repeat split; auto. apply lookup_app_l. exact Hdn.
        -- intros Hnin. destruct (HI2 Hnin) as [HA HB]. split; [|exact HB].
           intros f0 Hf0. rewrite map_app in Hf0. apply in_app_or in Hf0. destruct Hf0 as [Hf0|Hf0]; [auto|].
           cbn in Hf0. destruct Hf0 as [<-|[]]. unfold binder_of in Hbind.
           destruct (lookup fn pfs) as [x0|] eqn:EB; [|congruence].
           apply negb_true_iff, memb_false in Hbind. congruence.
      * cbn [bind]. apply rrel_lenient_nil. exact Ho.
      * cbn [bind]. exact I.
Qed.



Lemma map_fst_group : forall (F : N -> value) names, map fst (map (fun g => (g, F g)) names) = names.
Proof. induction names; cbn; congruence. Qed.

Lemma remove_all_nil : forall l, remove_all [] l = l.
Proof. induction l as [|y l IH]; cbn [remove_all memb]; congruence. Qed.

Lemma all_clos_dp : forall cs, all_clos dp cs.
Proof. induction cs as [|f ps b cs IH]; cbn [all_clos]; auto. split; [apply droppable_pure_all|exact IH]. Qed.

(* making the group: the kept value members are evaluated alike, the dropped ones are pure *)
Lemma evm_sound : forall k, (forall j, j < k -> P_ev j) ->
  forall cs cs' kfv R1 R2, vo_clos k cs cs' kfv = true -> erel (fv_clos cs') R1 R2 ->
  rrel (fun _ _ : unit => True) (evm ap1 fr1 R1 cs) (evm ap2 fr2 R2 cs').
Proof.
  induction k as [|k IH]; intros HP cs cs' kfv R1 R2 H He; cbn [vo_clos] in H; [discriminate|].
  destruct cs as [|f ps body r].
  - destruct cs'; [|discriminate]. rewrite !evm_nil. apply rrel_ret. exact I.
  - apply orb_true_iff in H. destruct H as [H|H].
    + destruct cs' as [|f' ps' body' r']; [discriminate|].
      rewrite !andb_true_iff in H. destruct H as [[[Hf Hps] Hb] Hr].
      apply list_N_eqb_eq in Hps. subst ps'. rewrite !evm_cons.
      change (fv_clos (CCons f' ps body' r')) with (remove_all ps (fv body') ++ fv_clos r') in He.
      assert (Hrest : rrel (fun _ _ : unit => True) (evm ap1 fr1 R1 r) (evm ap2 fr2 R2 r')).
      { eapply IH; [intros j Hj; apply HP; lia|exact Hr|]. eapply erel_sub; [|exact He].
        intros x Hx. apply in_or_app. auto. }
      destruct ps as [|p0 ps]; [|exact Hrest].
      eapply rrel_bind.
      * apply (HP k); [lia|exact Hb|]. eapply erel_sub; [|exact He]. intros x Hx. apply in_or_app. left.
        rewrite remove_all_nil. exact Hx.
      * intros _ _ _. exact Hrest.
    + rewrite !andb_true_iff in H. destruct H as [[_ Hd] Hr]. rewrite evm_cons.
      assert (Hrest : rrel (fun _ _ : unit => True) (evm ap1 fr1 R1 r) (evm ap2 fr2 R2 cs')).
      { eapply IH; [intros j Hj; apply HP; lia|exact Hr|exact He]. }
      destruct ps as [|p0 ps]; [|exact Hrest].
      cbn [is_nil negb orb] in Hd.
      destruct (droppable_pure_all body ap1 fr1 R1 Hfp Hd) as [Hl Ho].
      destruct (ev ap1 fr1 R1 body) as [[v|e0|] l]; cbn [fst snd] in *; subst l.
      * rewrite bind_val_nil. exact Hrest.
      * cbn [bind]. apply rrel_lenient_nil. exact Ho.
      * cbn [bind]. exact I.
Qed.

(* strong form: the induction hypothesis at every smaller fuel of the checker *)
Definition IHs (k : nat) : Prop :=
  forall j, j <= k -> P_ev j /\ P_evl j /\ P_eva j /\ P_fields j.

Lemma vo_zero : forall a b, vo 0 a b = false. Proof. reflexivity. Qed.

Lemma P_ev_step : forall k, IHs k -> P_ev (S k).
Proof.
  intros k IH a b r1 r2 H He.
  destruct (IH k (le_n k)) as (Hev & Hevl & Heva & Hfl).
  destruct a as [l|x|p|f args|c args|ns args|x rhs body|cs body|s alts|e].
  - (* Const *)
    rewrite vo_const in H. destruct b; try discriminate. apply lit_eqb_eq in H. subst.
    rewrite !ev_const. apply rrel_ret, vrel_lit.
  - (* Ident *)
    rewrite vo_ident in H. destruct b; try discriminate. apply N.eqb_eq in H. subst.
    rewrite !ev_ident. destruct (lookup x0 r1) as [v1|] eqn:E; [|apply rrel_stuck].
    destruct (He x0 v1 (or_introl eq_refl) E) as (v2 & -> & Hv). apply rrel_ret. exact Hv.
  - (* Prim *)
    rewrite ev_prim. apply rrel_stuck.
  - (* Call *)
    rewrite vo_call in H. destruct b as [| | |f' args'| | | | | |]; try discriminate.
    rewrite !andb_true_iff in H. destruct H as [[Hpr Hf] Hargs].
    rewrite !ev_call. rewrite fv_call in He.
    destruct (prim_view f args) as [[[p a0] b0]|] eqn:PV.
    + apply prim_view_some in PV. destruct PV as [-> ->].
      destruct k as [|k1]; [discriminate|]. rewrite vo_prim in Hf.
      destruct f'; try discriminate. apply primop_eqb_eq in Hf. subst p0.
      rewrite vo_list_S in Hargs. destruct args' as [|a0' args']; [discriminate|].
      apply andb_true_iff in Hargs. destruct Hargs as [Ha Hargs].
      destruct k1 as [|k2]; [discriminate|]. rewrite vo_list_S in Hargs.
      destruct args' as [|b0' args']; [discriminate|].
      apply andb_true_iff in Hargs. destruct Hargs as [Hb Hargs].
      destruct k2 as [|k3]; [discriminate|]. rewrite vo_list_S in Hargs.
      destruct args'; [|discriminate]. cbn [prim_view].
      destruct (IH (S (S k3))) as (Hev1 & _); [lia|]. destruct (IH (S k3)) as (Hev2 & _); [lia|].
      apply prim_sem_rel.
      * apply Hev1; [exact Ha|]. eapply erel_sub; [|exact He]. intros y Hy. apply in_or_app. right.
        rewrite fv_list_cons. apply in_or_app. auto.
      * apply Hev2; [exact Hb|]. eapply erel_sub; [|exact He]. intros y Hy. apply in_or_app. right.
        rewrite !fv_list_cons. apply in_or_app. right. apply in_or_app. auto.
    + destruct (is_prim f) eqn:IP.
      * destruct f; try discriminate. rewrite ev_prim. cbn [bind stuck]. apply rrel_stuck.
      * rewrite orb_false_r in Hpr. apply negb_true_iff in Hpr. rewrite (prim_view_not_prim _ _ Hpr).
        eapply rrel_bind.
        -- apply Hev; [exact Hf|]. eapply erel_sub; [|exact He]. intros y Hy. apply in_or_app. auto.
        -- intros vf1 vf2 Hvf. eapply rrel_bind.
           ++ apply Hevl; [exact Hargs|]. eapply erel_sub; [|exact He]. intros y Hy. apply in_or_app. auto.
           ++ intros vs1 vs2 Hvs. apply Hap; auto.
  - (* Data *)
    rewrite vo_data in H. destruct b as [| | | |c' args'| | | | |]; try discriminate.
    apply andb_true_iff in H. destruct H as [Hc Hargs]. apply N.eqb_eq in Hc. subst c'.
    rewrite !ev_data. rewrite fv_data in He. eapply rrel_bind; [apply Hevl; eauto|].
    intros vs1 vs2 Hvs. apply rrel_ret. constructor. exact Hvs.
  - (* Rec *)
    rewrite vo_rec in H. destruct b as [| | | | |ns' args'| | | |]; try discriminate.
    apply andb_true_iff in H. destruct H as [Hn Hargs]. apply list_N_eqb_eq in Hn. subst ns'.
    rewrite !ev_rec. rewrite fv_rec in He. eapply rrel_bind; [apply Hevl; eauto|].
    intros vs1 vs2 Hvs. rewrite <- (Forall2_length' _ _ _ _ _ Hvs).
    destruct (Nat.eqb (length ns) (length vs1)); [|apply rrel_stuck].
    apply rrel_ret. constructor. apply Forall2_combine_brel. exact Hvs.
  - (* Let *)
    rewrite vo_let in H. apply orb_true_iff in H. destruct H as [H|H].
    + destruct b as [| | | | | |x' rhs' body'| | |]; try discriminate.
      rewrite !andb_true_iff in H. destruct H as [[Hx Hr] Hb]. apply N.eqb_eq in Hx. subst x'.
      rewrite !ev_let. rewrite fv_let in He. eapply rrel_bind.
      * apply Hev; [exact Hr|]. eapply erel_sub; [|exact He]. intros y Hy. apply in_or_app. auto.
      * intros v1 v2 Hv. apply Hev; [exact Hb|]. apply erel_cons; [exact Hv|].
        eapply erel_sub; [|exact He]. intros y Hy. apply in_or_app. auto.
    + rewrite !andb_true_iff in H. destruct H as [[Hd Hx] Hb].
      apply negb_true_iff, memb_false in Hx.
      rewrite ev_let. destruct (droppable_pure_all rhs ap1 fr1 r1 Hfp Hd) as [Hl Ho].
      destruct (ev ap1 fr1 r1 rhs) as [[v|e0|] l]; cbn [fst snd] in *; subst l.
      * rewrite bind_val_nil. apply Hev; [exact Hb|].
        apply (erel_drop_l (fv b) [(x, v)] r1 r2); [|exact He].
        intros y Hy [<-|[]]. exact (Hx Hy).
      * cbn [bind]. apply rrel_lenient_nil. exact Ho.
      * cbn [bind]. exact I.
  - (* LetRec *)
    rewrite vo_letrec in H. apply orb_true_iff in H. destruct H as [H|H].
    + destruct b as [| | | | | | |cs' body'| |]; try discriminate.
      rewrite !andb_true_iff in H. destruct H as [[Hnd Hcs] Hb]. apply nodupb_spec in Hnd.
      rewrite !ev_letrec. rewrite fv_letrec in He.
      assert (HG : erel (fv_clos cs' ++ fv body') (bind_group r1 cs) (bind_group r2 cs')).
      { intros x v1 Hx Hl. rewrite lookup_bind_group in Hl. rewrite lookup_bind_group.
        destruct (memb x (clo_names cs')) eqn:M2.
        * apply memb_In in M2. pose proof (vo_clos_names _ _ _ _ Hcs x M2) as M1.
          apply memb_In in M1. rewrite M1 in Hl. injection Hl as <-.
          eexists. split; [reflexivity|].
          eapply vr_clo with (k := k) (kfv := fv_clos cs' ++ fv body'); eauto.
          -- intros y Hy. apply in_or_app. auto.
          -- intros y w1 Hy Hw. apply He; auto. apply In_remove_all in Hy. destruct Hy as [Hy1 Hy2].
             apply In_remove_all. split; [apply in_or_app; auto|exact Hy2].
        * apply memb_false in M2.
          assert (M1 : ~ In x (clo_names cs)).
          { intros Hc. destruct (vo_clos_dropped _ _ _ _ Hcs x Hc) as [Hc'|Hc']; [tauto|]. exact (Hc' Hx). }
          apply memb_false in M1. rewrite M1 in Hl. apply He; auto.
          apply In_remove_all. split; [exact Hx|exact M2]. }
      eapply rrel_bind.
      * eapply evm_sound; [|exact Hcs|].
        -- intros j Hj. destruct (IH j) as (Hj1 & _); [lia|exact Hj1].
        -- eapply erel_sub; [|exact HG]. intros x Hx. apply in_or_app. auto.
      * intros _ _ _. apply Hev; [exact Hb|]. eapply erel_sub; [|exact HG]. intros x Hx. apply in_or_app. auto.
    + rewrite !andb_true_iff in H. destruct H as [[Hd Hvd] Hb]. rewrite disjointb_spec in Hd.
      rewrite ev_letrec.
      assert (Henv : erel (fv b) (bind_group r1 cs) r2).
      { unfold bind_group. apply erel_drop_l; [|exact He].
        intros y Hy Hc. rewrite map_fst_group in Hc. exact (Hd y Hc Hy). }
      destruct (dp_members cs (all_clos_dp cs) ap1 fr1 (bind_group r1 cs) Hfp Hvd) as [Hl Ho].
      destruct (evm ap1 fr1 (bind_group r1 cs) cs) as [[u|e0|] l]; cbn [fst snd] in *; subst l.
      * rewrite bind_val_nil. apply Hev; [exact Hb|exact Henv].
      * cbn [bind]. apply rrel_lenient_nil. exact Ho.
      * cbn [bind]. exact I.
  - (* Match *)
    rewrite vo_match in H. apply orb_true_iff in H. destruct H as [H|H]; [apply orb_true_iff in H; destruct H as [H|H]|].
    + (* congruence *)
      destruct b as [| | | | | | | |s' alts'|]; try discriminate.
      apply andb_true_iff in H. destruct H as [Hs Ha]. rewrite !ev_match. rewrite fv_match in He.
      eapply rrel_bind.
      * apply Hev; [exact Hs|]. eapply erel_sub; [|exact He]. intros y Hy. apply in_or_app. auto.
      * intros v1 v2 Hv. eapply rrel_bind; [apply Hfr; exact Hv|]. intros w1 w2 Hw.
        apply Heva; [exact Ha|exact Hw|]. eapply erel_sub; [|exact He].
        intros y Hy. apply in_or_app. auto.
    + (* R3: a record that is taken apart at once *)
      destruct s as [| | | | |ns args| | | |]; try discriminate.
      destruct alts as [|[| pfs | |] body [|]]; try discriminate.
      rewrite !andb_true_iff in H. destruct H as [[[[[Hn1 Hn2] Hn3] Hinc] Hlen] Hfs].
      apply nodupb_spec in Hn1. apply nodupb_spec in Hn2. apply nodupb_spec in Hn3.
      rewrite inclb_spec in Hinc. apply Nat.eqb_eq in Hlen.
      rewrite ev_match, ev_rec, bind_assoc.
      erewrite bind_ext_val.
      2:{ intros vs l Hvs. apply evl_length in Hvs. rewrite Hlen, <- Hvs, Nat.eqb_refl, bind_ret_l, Hfd, bind_ret_l, eva_cons.
          cbn [Core.match_pat].
          instantiate (1 := fields_kont ap1 fr1 pfs [] ns r1 body). unfold fields_kont. cbn [app].
          destruct (lookup_fields pfs (combine ns vs)); reflexivity. }
      change r2 with ([] ++ r2).
      apply Hfl with (kept := []); auto.
      * constructor.
      * cbn [map app]. intros fn x Hin. apply Hinc. change fn with (fst (fn, x)). apply in_map. exact Hin.
      * intros x Hx. split; [intros []|]. intros _. split; [intros fn []|].
        intros v1 Hl. apply He; auto.
    + (* R4: a record match none of whose binders is used *)
      destruct alts as [|[| pfs | |] body [|]]; try discriminate.
      rewrite !andb_true_iff in H. destruct H as [[Hd Hdis] Hb]. rewrite disjointb_spec in Hdis.
      rewrite ev_match. destruct (droppable_pure_all s ap1 fr1 r1 Hfp Hd) as [Hl Ho].
      destruct (ev ap1 fr1 r1 s) as [[v|e0|] l]; cbn [fst snd] in *; subst l.
      * rewrite bind_val_nil. destruct (Hfp v) as [Hl2 Ho2].
        destruct (fr1 v) as [[w|e1|] l2]; cbn [fst snd] in *; subst l2;
          [|cbn [bind]; apply rrel_lenient_nil; exact Ho2|cbn [bind]; exact I].
        rewrite bind_val_nil, eva_cons. destruct (match_pat (PRec pfs) w) as [bs| |] eqn:MP.
        -- apply Hev; [exact Hb|]. apply erel_drop_l; [|exact He].
           intros y Hy Hc. rewrite (match_pat_dom _ _ _ MP) in Hc. cbn [pat_binders] in Hc. exact (Hdis y Hc Hy).
        -- rewrite eva_nil. apply rrel_stuck.
        -- apply rrel_stuck.
      * cbn [bind]. apply rrel_lenient_nil. exact Ho.
      * cbn [bind]. exact I.
  - (* Cast *)
    rewrite vo_cast in H. destruct b; try discriminate. rewrite !ev_cast. rewrite fv_cast in He. apply Hev; auto.
Qed.



Lemma IHs_all : forall k, IHs k.
Proof.
  induction k as [|k IH]; intros j Hj.
  - assert (j = 0) by lia. subst j. repeat split.
    + intros a b r1 r2 H. discriminate.
    + intros es es' r1 r2 H. discriminate.
    + intros alts alts' r1 r2 v1 v2 H. discriminate.
    + intros ns args pfs body kept b done r1 r2 r2k H. discriminate.
  - destruct (Nat.eq_dec j (S k)) as [->|Hne]; [|apply IH; lia].
    destruct (IH k (le_n k)) as (Hev & Hevl & Heva & Hfl). repeat split.
    + apply P_ev_step; assumption.
    + apply P_evl_step; assumption.
    + apply P_eva_step; assumption.
    + apply P_fields_step; assumption.
Qed.

Lemma vo_sound_ap : forall k a b r1 r2,
  vo k a b = true -> erel (fv b) r1 r2 -> rrel vrel (ev ap1 fr1 r1 a) (ev ap2 fr2 r2 b).
Proof. intros k. destruct (IHs_all k k (le_n k)) as (H & _). exact H. Qed.

End WithAp.

(* ------------------------------------------------------------------------------------------ *)
(* function application *)

Lemma Forall2_firstn : forall (A B : Type) (R : A -> B -> Prop) n l1 l2,
  Forall2 R l1 l2 -> Forall2 R (firstn n l1) (firstn n l2).
Proof. induction n; intros l1 l2 H; cbn [firstn]; [constructor|]. destruct H; constructor; auto. Qed.

Lemma Forall2_skipn : forall (A B : Type) (R : A -> B -> Prop) n l1 l2,
  Forall2 R l1 l2 -> Forall2 R (skipn n l1) (skipn n l2).
Proof. induction n; intros l1 l2 H; cbn [skipn]; [exact H|]. destruct H; [constructor|auto]. Qed.

Lemma map_fst_combine : forall (A : Type) (xs : list N) (ys : list A),
  length xs <= length ys -> map fst (combine xs ys) = xs.
Proof.
  induction xs as [|x xs IH]; intros ys H; cbn [combine map]; auto.
  destruct ys as [|y ys]; cbn [length] in H; [lia|]. cbn [map fst]. f_equal. apply IH. lia.
Qed.

Lemma find_clo_fv : forall f cs ps b, find_clo f cs = Some (ps, b) ->
  forall x, In x (remove_all ps (fv b)) -> In x (fv_clos cs).
Proof.
  induction cs as [|g ps0 b0 r IH]; cbn [find_clo]; intros ps b H x Hx; [discriminate|].
  change (fv_clos (CCons g ps0 b0 r)) with (remove_all ps0 (fv b0) ++ fv_clos r).
  apply in_or_app. destruct (N.eqb f g).
  - injection H as -> ->. auto.
  - right. eauto.
Qed.

Lemma force_eq : forall n v, force n v =
  match v with
  | VClo rc cs g =>
      match find_clo g cs with
      | Some ([], body) =>
          match n with
          | O => (OOF, [])
          | S n' =>
              match ev (apply n') (force n') (bind_group rc cs) body with
              | (Val w, _) => (Val w, [])
              | (Err _, _) => (Err EStuck, [])
              | (OOF, _) => (OOF, [])
              end
          end
      | _ => ret v
      end
  | _ => ret v
  end.
Proof. destruct n; reflexivity. Qed.

Lemma apply_S : forall n vf vs, apply (S n) vf vs =
    if is_nil vs then ret vf else
    match vf with
    | VClo rc cs f =>
        match find_clo f cs with
        | None => stuck
        | Some (params, body) =>
            if is_nil params then stuck
            else if Nat.ltb (length vs) (length params) then ret (VPap vf vs)
            else
              bind (ev (apply n) (force n) (combine params (firstn (length params) vs) ++ bind_group rc cs) body)
                   (fun v => apply n v (skipn (length params) vs))
        end
    | VPap g vs0 => apply n g (vs0 ++ vs)
    | VHost h =>
        match vs with
        | [] => ret vf
        | v :: later => bind (host_call h v) (fun w => apply n w later)
        end
    | _ => stuck
    end.
Proof. reflexivity. Qed.

Lemma force_pure : forall n, fr_pure (force n).
Proof.
  intros n v. rewrite force_eq. destruct v; try apply pure_ret.
  destruct (find_clo f cs) as [[[|p0 ps] body]|]; try apply pure_ret.
  destruct n; [split; cbn; auto|].
  destruct (ev (apply n) (force n) (bind_group env cs) body) as [[w|e|] l]; split; cbn; auto. right. reflexivity.
Qed.

Lemma force_data : forall n, fr_data (force n).
Proof. intros n fs. rewrite force_eq. reflexivity. Qed.

(* inside a group both runs see related members and related captured variables *)
Lemma group_env_rel : forall r1 r2 cs1 cs2 k kfv,
  NoDup (clo_names cs1) ->
  vo_clos k cs1 cs2 kfv = true ->
  (forall x, In x (fv_clos cs2) -> In x kfv) ->
  (forall x v1, In x (remove_all (clo_names cs2) (fv_clos cs2)) -> lookup x r1 = Some v1 ->
      exists v2, lookup x r2 = Some v2 /\ vrel v1 v2) ->
  erel (fv_clos cs2) (bind_group r1 cs1) (bind_group r2 cs2).
Proof.
  intros r1 r2 cs1 cs2 k kfv Hnd Hcs Hkfv Henv x v1 Hxc Hl.
  rewrite lookup_bind_group in Hl. rewrite lookup_bind_group.
  destruct (memb x (clo_names cs2)) eqn:M2.
  - apply memb_In in M2. pose proof (vo_clos_names _ _ _ _ Hcs x M2) as M1.
    apply memb_In in M1. rewrite M1 in Hl. injection Hl as <-.
    eexists. split; [reflexivity|]. econstructor; eauto.
  - apply memb_false in M2.
    assert (M1 : ~ In x (clo_names cs1)).
    { intros Hc. destruct (vo_clos_dropped _ _ _ _ Hcs x Hc) as [Hc'|Hc']; [tauto|]. apply Hc'. auto. }
    apply memb_false in M1. rewrite M1 in Hl. apply Henv; [|exact Hl].
    apply In_remove_all. auto.
Qed.

Lemma apply_force_sound : forall n, apply_ok (apply n) (apply n) /\ force_ok (force n) (force n).
Proof.
  induction n as [|n [IHa IHf]].
  - split; [intros vf1 vf2 vs1 vs2 _ _; exact I|].
    intros v1 v2 Hv. rewrite !force_eq.
    destruct Hv as [z|z|z|s|c ws1 ws2 Hw|fs1 fs2 Hfs|r1 r2 cs1 cs2 f k kfv Hnd Hcs Hkfv Hin Henv|g1 g2 b1 b2 Hg Hb|h];
      try (apply rrel_ret; constructor; assumption).
    destruct (vo_clos_find _ _ _ _ Hcs Hnd f Hin) as (ps & body1 & body2 & k' & F1 & F2 & Hvo).
    rewrite F1, F2. destruct ps; [exact I|].
    apply rrel_ret. econstructor; eauto.
  - split.
    + intros vf1 vf2 vs1 vs2 Hf Hvs. rewrite !apply_S.
      destruct Hvs as [|a1 a2 t1 t2 Ha Ht]; cbn [is_nil]; [apply rrel_ret; exact Hf|].
      assert (Hvs : Forall2 vrel (a1 :: t1) (a2 :: t2)) by (constructor; auto).
      destruct Hf as [z|z|z|s|c ws1 ws2 Hw|fs1 fs2 Hfs|r1 r2 cs1 cs2 f k kfv Hnd Hcs Hkfv Hin Henv|g1 g2 b1 b2 Hg Hb|h];
        try apply rrel_stuck.
      * (* closures *)
        destruct (vo_clos_find _ _ _ _ Hcs Hnd f Hin) as (ps & body1 & body2 & k' & F1 & F2 & Hvo).
        rewrite F1, F2. destruct (is_nil ps); [apply rrel_stuck|].
        rewrite <- (Forall2_length' _ _ _ _ _ Hvs).
        destruct (Nat.ltb (length (a1 :: t1)) (length ps)) eqn:LT.
        -- apply rrel_ret. constructor; [|exact Hvs]. econstructor; eauto.
        -- apply Nat.ltb_ge in LT. eapply rrel_bind.
           ++ eapply (vo_sound_ap _ _ _ _ IHa IHf (force_pure n) (force_data n)); [exact Hvo|].
              apply erel_app; [apply Forall2_combine_brel, Forall2_firstn; exact Hvs|].
              rewrite map_fst_combine by (rewrite firstn_length; lia).
              eapply erel_sub; [|eapply group_env_rel; eauto].
              intros x Hx. eapply find_clo_fv; eauto.
           ++ intros w1 w2 Hw. apply IHa; [exact Hw|]. apply Forall2_skipn. exact Hvs.
      * (* partial applications *)
        apply IHa; [exact Hg|]. apply Forall2_app; assumption.
      * (* host functions *)
        eapply rrel_bind; [apply host_call_rel; exact Ha|]. intros w1 w2 Hw. apply IHa; assumption.
    + intros v1 v2 Hv. rewrite !force_eq.
      destruct Hv as [z|z|z|s|c ws1 ws2 Hw|fs1 fs2 Hfs|r1 r2 cs1 cs2 f k kfv Hnd Hcs Hkfv Hin Henv|g1 g2 b1 b2 Hg Hb|h];
        try (apply rrel_ret; constructor; assumption).
      destruct (vo_clos_find _ _ _ _ Hcs Hnd f Hin) as (ps & body1 & body2 & k' & F1 & F2 & Hvo).
      rewrite F1, F2. destruct ps as [|p0 ps]; [|apply rrel_ret; econstructor; eauto].
      assert (Hs : rrel vrel (ev (apply n) (force n) (bind_group r1 cs1) body1)
                             (ev (apply n) (force n) (bind_group r2 cs2) body2)).
      { eapply (vo_sound_ap _ _ _ _ IHa IHf (force_pure n) (force_data n)); [exact Hvo|].
        eapply erel_sub; [|eapply group_env_rel; eauto].
        intros x Hx. eapply find_clo_fv; [exact F2|]. rewrite remove_all_nil. exact Hx. }
      destruct (ev (apply n) (force n) (bind_group r1 cs1) body1) as [[w1|e|] l1]; cbn [rrel] in Hs.
      * destruct Hs as (w2 & -> & Hw). cbn. exists w2. auto.
      * apply rrel_stuck.
      * exact I.
Qed.

Lemma apply_sound : forall n, apply_ok (apply n) (apply n).
Proof. intros n. apply apply_force_sound. Qed.
Lemma force_sound : forall n, force_ok (force n) (force n).
Proof. intros n. apply apply_force_sound. Qed.

(* a droppable expression: empty log; a value, EArith or EStuck -- or out of fuel, which only
   happens where a recursive value has to be unfolded *)
Theorem droppable_pure : forall e n r o l,
  droppable e = true -> eval n r e = (o, l) ->
  l = [] /\ ((exists v, o = Val v) \/ o = Err EArith \/ o = Err EStuck \/ o = OOF).
Proof.
  intros e n r o l Hd He. unfold Core.eval in He.
  destruct (droppable_pure_all e (apply n) (force n) r (force_pure n) Hd) as [H1 H2].
  rewrite He in H1, H2. cbn [fst snd] in *.
  split; auto. destruct o as [v|e0|]; [eauto | destruct H2; subst; auto | auto].
Qed.

(* ------------------------------------------------------------------------------------------ *)
(* the theorems *)

Theorem valid_opt_sound : forall a b, valid_opt a b = true ->
  forall n r1 r2, erel (fv b) r1 r2 -> rrel vrel (eval n r1 a) (eval n r2 b).
Proof.
  intros a b H n r1 r2 He. unfold Core.eval, valid_opt in *.
  eapply vo_sound_ap; [apply apply_sound|apply force_sound|apply force_pure|apply force_data|exact H|exact He].
Qed.


(* first-order values (numbers, strings, data and records of such): what a host can observe *)
Fixpoint fo (v : value) : bool :=
  match v with
  | VInt _ | VByte _ | VFloat _ | VStr _ => true
  | VData _ vs => (fix all (l : list value) : bool := match l with [] => true | x :: r => fo x && all r end) vs
  | VRec fs =>
      (fix all (l : list (N * value)) : bool := match l with [] => true | (_, x) :: r => fo x && all r end) fs
  | _ => false
  end.

(* on first-order values [vrel] is equality: the optimised run returns the same value *)
Fixpoint vrel_fo_eq (v1 : value) : forall v2, fo v1 = true -> vrel v1 v2 -> v1 = v2.
Proof.
  destruct v1 as [z|z|z|s|c vs|fs|r cs f|g args|h]; intros v2 Hfo Hr;
    try (inversion Hr; subst; reflexivity); try discriminate.
  - cbn [fo] in Hfo.
    assert (G : forall l, Forall2 vrel vs l ->
                (fix all (l : list value) : bool := match l with [] => true | x :: r => fo x && all r end) vs = true ->
                vs = l).
    { clear Hr Hfo v2. induction vs as [|x vs IHvs]; intros l HF Hall; inversion HF; subst; [reflexivity|].
      apply andb_true_iff in Hall. destruct Hall as [Hx Hrest]. f_equal.
      - apply vrel_fo_eq; assumption.
      - apply IHvs; assumption. }
    inversion Hr; subst. f_equal. apply G; assumption.
  - cbn [fo] in Hfo.
    assert (G : forall l, Forall2 (fun p q => fst p = fst q /\ vrel (snd p) (snd q)) fs l ->
                (fix all (l : list (N * value)) : bool := match l with [] => true | (_, x) :: r => fo x && all r end) fs = true ->
                fs = l).
    { clear Hr Hfo v2. induction fs as [|[fn x] fs IHfs]; intros l HF Hall;
        inversion HF as [|? [fn' y] ? ? [Hk Hv] HF']; subst; [reflexivity|].
      apply andb_true_iff in Hall. destruct Hall as [Hx Hrest]. cbn [fst snd] in *. subst fn'. f_equal.
      - f_equal. apply vrel_fo_eq; assumption.
      - apply IHfs; assumption. }
    inversion Hr; subst. f_equal. apply G; assumption.
Qed.

Fixpoint vrel_fo_refl (v : value) : fo v = true -> vrel v v.
Proof.
  destruct v as [z|z|z|s|c vs|fs|r cs f|g args|h]; intros Hfo; try discriminate; try constructor.
  - cbn [fo] in Hfo. induction vs as [|x vs IHvs]; [constructor|].
    apply andb_true_iff in Hfo. destruct Hfo as [Hx Hrest]. constructor; [apply vrel_fo_refl; exact Hx|auto].
  - cbn [fo] in Hfo. induction fs as [|[fn x] fs IHfs]; [constructor|].
    apply andb_true_iff in Hfo. destruct Hfo as [Hx Hrest]. constructor; [split; [reflexivity|apply vrel_fo_refl; exact Hx]|auto].
Qed.

Lemma vrel_host_record : forall fs, (forall fn v, In (fn, v) fs -> exists h, v = VHost h) -> vrel (VRec fs) (VRec fs).
Proof.
  intros fs H. constructor. induction fs as [|[fn v] fs IH]; constructor.
  - split; [reflexivity|]. destruct (H fn v (or_introl eq_refl)) as [h ->]. constructor.
  - apply IH. intros fn' v' Hin. eapply H. right. exact Hin.
Qed.

(* The statement with its relation spelled out, for one environment whose values relate to
   themselves (first-order values and records of host functions do): a program and its accepted
   optimisation have the same value, the same error and the same log of host calls; where the
   unoptimised program stops in an arithmetic failure (or gets stuck, which type-correct programs
   do not), the optimised one has at least the same calls. *)
Theorem valid_opt_sound_same_env : forall a b, valid_opt a b = true ->
  forall n r, (forall x v, lookup x r = Some v -> vrel v v) ->
  match eval n r a with
  | (Val v1, l) => exists v2, eval n r b = (Val v2, l) /\ vrel v1 v2 /\ (fo v1 = true -> v2 = v1)
  | (Err e, l) =>
      eval n r b = (Err e, l)
      \/ ((e = EArith \/ e = EStuck) /\ exists o l2, eval n r b = (o, l ++ l2))
  | (OOF, _) => True
  end.
Proof.
  intros a b H n r Hr.
  assert (He : erel (fv b) r r) by (intros x v _ Hl; exists v; split; [exact Hl|eapply Hr; eauto]).
  pose proof (valid_opt_sound a b H n r r He) as Hs. unfold rrel in Hs.
  destruct (eval n r a) as [[v1|e|] l]; auto.
  destruct Hs as (v2 & E & Hv). exists v2. repeat split; auto.
  intros Hfo. symmetry. apply vrel_fo_eq; assumption.
Qed.

End Sound.
