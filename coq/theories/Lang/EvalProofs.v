(* Theorems about the MiniGluon reference semantics (Lang/Eval.v). *)
From Coq Require Import List ZArith NArith Bool Lia.
From GV Require Import Lang.Syntax Lang.Eval.
Import ListNotations.

(* ================================================================ approximation order *)
(* [m1] is below [m2]: whenever [m1] produces a result other than OutOfFuel, [m2] produces the
   same result and the same log. *)
Definition le_M {A} (m1 m2 : M A) : Prop :=
  forall l r l', m1 l = (r, l') -> r <> OutOfFuel -> m2 l = (r, l').

Definition ev_le (ev1 ev2 : env -> expr -> M value) : Prop :=
  forall r e, le_M (ev1 r e) (ev2 r e).

Lemma le_refl : forall A (m : M A), le_M m m.
Proof. unfold le_M; auto. Qed.

Lemma le_oof : forall A (m : M A), le_M out_of_fuel m.
Proof. unfold le_M, out_of_fuel; intros A m l r l' H Hr. inversion H; subst. congruence. Qed.

Lemma le_bind : forall A B (m1 m2 : M A) (f1 f2 : A -> M B),
  le_M m1 m2 -> (forall a, le_M (f1 a) (f2 a)) -> le_M (bind m1 f1) (bind m2 f2).
Proof.
  unfold le_M, bind; intros A B m1 m2 f1 f2 Hm Hf l r l' H Hr.
  destruct (m1 l) as [r1 l1] eqn:E1.
  destruct r1 as [a | e | | ].
  - rewrite (Hm l (Ok a) l1 E1) by discriminate. eapply Hf; eauto.
  - rewrite (Hm l (Fail e) l1 E1) by discriminate. exact H.
  - rewrite (Hm l Stuck l1 E1) by discriminate. exact H.
  - inversion H; subst. congruence.
Qed.

Lemma apply_nil : forall ev k f, apply ev k f [] = ret f.
Proof. intros ev k f; destruct k; reflexivity. Qed.

Section StepMono.
  Variables ev1 ev2 : env -> expr -> M value.
  Hypothesis Hev : ev_le ev1 ev2.

  Lemma eval_list_mono : forall r es, le_M (eval_list ev1 r es) (eval_list ev2 r es).
  Proof.
    induction es as [| e es IH]; cbn [eval_list].
    - apply le_refl.
    - apply le_bind; [apply Hev |]. intro v. apply le_bind; [apply IH |]. intro vs. apply le_refl.
  Qed.

  Lemma eval_fields_mono : forall r fs, le_M (eval_fields ev1 r fs) (eval_fields ev2 r fs).
  Proof.
    induction fs as [| f fs IH]; cbn [eval_fields].
    - apply le_refl.
    - apply le_bind; [apply Hev |]. intro v. apply le_bind; [apply IH |]. intro vs. apply le_refl.
  Qed.

  Lemma apply_mono : forall k1 k2 f args, k1 <= k2 -> le_M (apply ev1 k1 f args) (apply ev2 k2 f args).
  Proof.
    induction k1 as [| k1 IH]; intros k2 f args Hk.
    - destruct args; [rewrite !apply_nil; apply le_refl | cbn [apply]; apply le_oof].
    - destruct k2 as [| k2]; [lia |].
      destruct args as [| a args]; [rewrite !apply_nil; apply le_refl | cbn [apply]].
      destruct f; try apply le_refl.
      + destruct (Nat.ltb (length (a :: args)) (length xs)); [apply le_refl |].
        apply le_bind; [apply Hev |]. intro res. apply IH. lia.
      + apply IH. lia.
  Qed.

  Lemma eval_step_mono : forall k1 k2 r e, k1 <= k2 -> le_M (eval_step ev1 k1 r e) (eval_step ev2 k2 r e).
  Proof.
    intros k1 k2 r e Hk.
    destruct e; cbn [eval_step];
      repeat first
        [ apply le_refl
        | apply Hev
        | apply eval_list_mono
        | apply eval_fields_mono
        | apply apply_mono; assumption
        | apply le_bind; [| intro]
        | match goal with
          | |- le_M (match ?x with _ => _ end) (match ?x with _ => _ end) => destruct x
          end ].
  Qed.
End StepMono.

(* ================================================================ fuel monotonicity *)
Lemma eval_S : forall n, eval (S n) = eval_step (eval n) n.
Proof. reflexivity. Qed.

Lemma eval_le : forall n m, n <= m -> ev_le (eval n) (eval m).
Proof.
  induction n as [| n IH]; intros m Hm r e.
  - cbn [eval]. apply le_oof.
  - destruct m as [| m]; [lia |].
    rewrite !eval_S. apply eval_step_mono; [| lia].
    apply IH. lia.
Qed.

(* The semantics is a function of the program: more fuel never changes a result. *)
Theorem eval_fuel_mono : forall n m r e l res l',
  eval n r e l = (res, l') -> res <> OutOfFuel -> n <= m -> eval m r e l = (res, l').
Proof. intros n m r e l res l' H Hr Hnm. exact (eval_le n m Hnm r e l res l' H Hr). Qed.

(* Two runs with any two amounts of fuel that both finish agree on outcome and effect log. *)
Theorem eval_deterministic : forall n m r e l r1 l1 r2 l2,
  eval n r e l = (r1, l1) -> eval m r e l = (r2, l2) ->
  r1 <> OutOfFuel -> r2 <> OutOfFuel -> r1 = r2 /\ l1 = l2.
Proof.
  intros n m r e l r1 l1 r2 l2 H1 H2 N1 N2.
  destruct (Nat.le_ge_cases n m) as [Hnm | Hnm].
  - pose proof (eval_fuel_mono _ _ _ _ _ _ _ H1 N1 Hnm) as H. rewrite H in H2. inversion H2; auto.
  - pose proof (eval_fuel_mono _ _ _ _ _ _ _ H2 N2 Hnm) as H. rewrite H in H1. inversion H1; auto.
Qed.

(* ================================================================ the effect log only grows *)
Definition grows {A} (m : M A) : Prop := forall l r l', m l = (r, l') -> exists d, l' = d ++ l.

Lemma grows_ret : forall A (a : A), grows (ret a).
Proof. unfold grows, ret; intros. inversion H; subst. exists []; reflexivity. Qed.
Lemma grows_fail : forall A e, grows (@fail A e).
Proof. unfold grows, fail; intros. inversion H; subst. exists []; reflexivity. Qed.
Lemma grows_stuck : forall A, grows (@stuck A).
Proof. unfold grows, stuck; intros. inversion H; subst. exists []; reflexivity. Qed.
Lemma grows_oof : forall A, grows (@out_of_fuel A).
Proof. unfold grows, out_of_fuel; intros. inversion H; subst. exists []; reflexivity. Qed.
Lemma grows_emit : forall z, grows (emit z).
Proof. unfold grows, emit; intros. inversion H; subst. exists [z]; reflexivity. Qed.

Lemma grows_bind : forall A B (m : M A) (f : A -> M B),
  grows m -> (forall a, grows (f a)) -> grows (bind m f).
Proof.
  unfold grows, bind; intros A B m f Hm Hf l r l' H.
  destruct (m l) as [r1 l1] eqn:E1. destruct (Hm _ _ _ E1) as [d1 ->].
  destruct r1; try (inversion H; subst; eexists; reflexivity).
  destruct (Hf _ _ _ _ H) as [d2 ->]. exists (d2 ++ d1). rewrite app_assoc. reflexivity.
Qed.

Lemma grows_check_int : forall z, grows (check_int z).
Proof. intro z; unfold check_int. destruct (_ && _)%bool; [apply grows_ret | apply grows_fail]. Qed.
Lemma grows_check_byte : forall z, grows (check_byte z).
Proof. intro z; unfold check_byte. destruct (_ && _)%bool; [apply grows_ret | apply grows_fail]. Qed.

Lemma grows_prim : forall op a b, grows (prim_apply op a b).
Proof.
  intros op a b; unfold prim_apply.
  destruct op, a, b; try apply grows_stuck; try apply grows_ret;
    try apply grows_check_int; try apply grows_check_byte;
    (destruct (Z.eqb _ 0); [apply grows_fail | first [apply grows_check_int | apply grows_check_byte]]).
Qed.

Section StepGrows.
  Variable ev : env -> expr -> M value.
  Hypothesis Hev : forall r e, grows (ev r e).

  Lemma eval_list_grows : forall r es, grows (eval_list ev r es).
  Proof.
    induction es; cbn [eval_list]; [apply grows_ret |].
    apply grows_bind; [apply Hev |]. intro. apply grows_bind; [assumption |]. intro. apply grows_ret.
  Qed.
  Lemma eval_fields_grows : forall r fs, grows (eval_fields ev r fs).
  Proof.
    induction fs; cbn [eval_fields]; [apply grows_ret |].
    apply grows_bind; [apply Hev |]. intro. apply grows_bind; [assumption |]. intro. apply grows_ret.
  Qed.
  Lemma apply_grows : forall k f args, grows (apply ev k f args).
  Proof.
    induction k as [| k IH]; intros f args; destruct args; cbn [apply];
      try apply grows_ret; try apply grows_oof.
    destruct f; try apply grows_stuck.
    - destruct (Nat.ltb _ _); [apply grows_ret |]. apply grows_bind; [apply Hev | intro; apply IH].
    - apply IH.
  Qed.
  Lemma eval_step_grows : forall k r e, grows (eval_step ev k r e).
  Proof.
    intros k r e.
    destruct e; cbn [eval_step];
      repeat first
        [ apply grows_ret | apply grows_fail | apply grows_stuck | apply grows_emit | apply grows_prim
        | apply Hev | apply eval_list_grows | apply eval_fields_grows | apply apply_grows
        | apply grows_bind; [| intro]
        | match goal with |- grows (match ?x with _ => _ end) => destruct x end ].
  Qed.
End StepGrows.

Theorem eval_log_grows : forall n r e l res l', eval n r e l = (res, l') -> exists d, l' = d ++ l.
Proof.
  induction n as [| n IH]; intros r e.
  - cbn [eval]. apply grows_oof.
  - rewrite eval_S. apply eval_step_grows. intros r0 e0 l res l' H. eapply IH; eauto.
Qed.

(* ================================================================ pattern matching *)
(* [first_match] picks the first alternative, in source order, whose pattern matches. *)
Lemma first_match_spec : forall v alts b e,
  first_match v alts = Some (b, e) <->
  exists pre p post, alts = pre ++ (p, e) :: post /\ pmatch p v = Some b /\
                     Forall (fun a => pmatch (fst a) v = None) pre.
Proof.
  intros v alts b e; split.
  - induction alts as [| [p0 e0] alts IH]; cbn [first_match]; [discriminate |].
    destruct (pmatch p0 v) as [b0 |] eqn:E0.
    + intro H; inversion H; subst. exists [], p0, alts. auto.
    + intro H. destruct (IH H) as (pre & p & post & -> & Hp & Hpre).
      exists ((p0, e0) :: pre), p, post. repeat split; auto.
  - intros (pre & p & post & -> & Hp & Hpre).
    induction pre as [| [p0 e0] pre IH]; cbn [first_match app].
    + rewrite Hp. reflexivity.
    + inversion Hpre; subst. cbn [fst] in *. rewrite H1. apply IH. assumption.
Qed.

Lemma first_match_none : forall v alts,
  first_match v alts = None <-> Forall (fun a => pmatch (fst a) v = None) alts.
Proof.
  intros v alts; induction alts as [| [p0 e0] alts IH]; cbn [first_match]; split; auto.
  - destruct (pmatch p0 v) eqn:E0; [discriminate |]. intro H. constructor; [exact E0 | apply IH; exact H].
  - intro H; inversion H; subst. cbn [fst] in *. rewrite H2. apply IH. assumption.
Qed.

(* `match`: once the scrutinee has a value, the alternative taken is the first one in source
   order whose pattern matches, evaluated under that pattern's bindings; when none matches the
   outcome is the Unmatched failure, and no further effect happens. *)
Theorem match_first_alternative : forall n r s alts l v l1,
  eval n r s l = (Ok v, l1) ->
  (forall pre p e post b,
      alts = pre ++ (p, e) :: post -> pmatch p v = Some b ->
      Forall (fun a => pmatch (fst a) v = None) pre ->
      eval (S n) r (EMatch s alts) l = eval n (b ++ r) e l1)
  /\ (Forall (fun a => pmatch (fst a) v = None) alts ->
      eval (S n) r (EMatch s alts) l = (Fail Unmatched, l1)).
Proof.
  intros n r s alts l v l1 Hs; split.
  - intros pre p e post b Halts Hp Hpre.
    assert (first_match v alts = Some (b, e)) as Hfm
      by (apply first_match_spec; exists pre, p, post; auto).
    rewrite eval_S. cbn [eval_step]. unfold bind. rewrite Hs, Hfm. reflexivity.
  - intro Hall. apply first_match_none in Hall.
    rewrite eval_S. cbn [eval_step]. unfold bind. rewrite Hs, Hall. reflexivity.
Qed.

(* ================================================================ short-circuit operators *)
Theorem short_circuit_and : forall n r a b l l1,
  eval n r a l = (Ok (vbool false), l1) ->
  eval (S n) r (EAnd a b) l = (Ok (vbool false), l1).
Proof. intros. rewrite eval_S. cbn [eval_step]. unfold bind. rewrite H. reflexivity. Qed.

Theorem short_circuit_or : forall n r a b l l1,
  eval n r a l = (Ok (vbool true), l1) ->
  eval (S n) r (EOr a b) l = (Ok (vbool true), l1).
Proof. intros. rewrite eval_S. cbn [eval_step]. unfold bind. rewrite H. reflexivity. Qed.

(* when the left operand does not decide, the result is the right operand's *)
Theorem and_true_right : forall n r a b l l1,
  eval n r a l = (Ok (vbool true), l1) -> eval (S n) r (EAnd a b) l = eval n r b l1.
Proof. intros. rewrite eval_S. cbn [eval_step]. unfold bind. rewrite H. reflexivity. Qed.

Theorem or_false_right : forall n r a b l l1,
  eval n r a l = (Ok (vbool false), l1) -> eval (S n) r (EOr a b) l = eval n r b l1.
Proof. intros. rewrite eval_S. cbn [eval_step]. unfold bind. rewrite H. reflexivity. Qed.

(* ================================================================ record update order *)
(* { fs, .. base }: the explicit fields are evaluated first, in source order, then the base,
   each exactly once; a failure of a field prevents the evaluation of the base. *)
Theorem record_update_order : forall n r fs base l,
  eval (S n) r (ERcdU fs base) l =
  match eval_fields (eval n) r fs l with
  | (Ok vs, l1) =>
      match eval n r base l1 with
      | (Ok (VRcd bfs), l2) => (Ok (VRcd (rcd_update vs bfs)), l2)
      | (Ok _, l2) => (Stuck, l2)
      | (Fail e, l2) => (Fail e, l2)
      | (Stuck, l2) => (Stuck, l2)
      | (OutOfFuel, l2) => (OutOfFuel, l2)
      end
  | (Fail e, l1) => (Fail e, l1)
  | (Stuck, l1) => (Stuck, l1)
  | (OutOfFuel, l1) => (OutOfFuel, l1)
  end.
Proof.
  intros. rewrite eval_S. cbn [eval_step]. unfold bind.
  destruct (eval_fields (eval n) r fs l) as [[vs | e | | ] l1]; try reflexivity.
  destruct (eval n r base l1) as [[bv | e | | ] l2]; try reflexivity.
  destruct bv; reflexivity.
Qed.

(* the fields of a record expression are evaluated left to right: the first failing field decides *)
Theorem eval_fields_left_to_right : forall ev r f fs l,
  eval_fields ev r (f :: fs) l =
  match ev r (snd f) l with
  | (Ok v, l1) =>
      match eval_fields ev r fs l1 with
      | (Ok vs, l2) => (Ok ((fst f, v) :: vs), l2)
      | (Fail e, l2) => (Fail e, l2)
      | (Stuck, l2) => (Stuck, l2)
      | (OutOfFuel, l2) => (OutOfFuel, l2)
      end
  | (Fail e, l1) => (Fail e, l1)
  | (Stuck, l1) => (Stuck, l1)
  | (OutOfFuel, l1) => (OutOfFuel, l1)
  end.
Proof.
  intros. cbn [eval_fields]. unfold bind, ret.
  destruct (ev r (snd f) l) as [[v | e | | ] l1]; reflexivity.
Qed.

(* ================================================================ checked arithmetic *)
Theorem int_arith_in_range : forall op x y l v l',
  In op [IntAdd; IntSub; IntMul; IntDiv] ->
  prim_apply op (VInt x) (VInt y) l = (Ok v, l') ->
  exists z, v = VInt z /\ (i64_min <= z <= i64_max)%Z /\ l' = l.
Proof.
  intros op x y l v l' Hop H.
  assert (forall z, check_int z l = (Ok v, l') -> exists z0, v = VInt z0 /\ (i64_min <= z0 <= i64_max)%Z /\ l' = l) as Hc.
  { intros z Hz. unfold check_int in Hz.
    destruct (Z.leb i64_min z && Z.leb z i64_max)%bool eqn:E; [| discriminate].
    apply andb_prop in E. destruct E as [E1 E2]. apply Z.leb_le in E1. apply Z.leb_le in E2.
    inversion Hz; subst. exists z. auto. }
  cbn in Hop. destruct Hop as [<- | [<- | [<- | [<- | []]]]]; cbn [prim_apply] in H; eauto.
  destruct (Z.eqb y 0); [discriminate | eauto].
Qed.

Theorem int_div_by_zero : forall x l, prim_apply IntDiv (VInt x) (VInt 0) l = (Fail Arith, l).
Proof. reflexivity. Qed.

Theorem int_overflow_is_arith : forall op x y l,
  In op [IntAdd; IntSub; IntMul] ->
  let z := match op with IntAdd => (x + y)%Z | IntSub => (x - y)%Z | _ => (x * y)%Z end in
  (z < i64_min \/ i64_max < z)%Z ->
  prim_apply op (VInt x) (VInt y) l = (Fail Arith, l).
Proof.
  intros op x y l Hop z Hz.
  assert (check_int z l = (Fail Arith, l)) as Hc.
  { unfold check_int. destruct (Z.leb i64_min z && Z.leb z i64_max)%bool eqn:E; [| reflexivity].
    apply andb_prop in E. destruct E as [E1 E2]. apply Z.leb_le in E1. apply Z.leb_le in E2. lia. }
  cbn in Hop. destruct Hop as [<- | [<- | [<- | []]]]; exact Hc.
Qed.
