(* The core IR of vm/src/core/mod.rs:55-170 and a big-step evaluator for it (structural on the
   expression; the fuel of [eval_core] bounds the depth of nested function calls).
   Definitions only (executable, extracted by coq/extract/c04); proofs are in
   Lang/OptValidProofs.v.

   Correspondence with the Rust types (gluon_vm::core):
     Expr::Const(lit)                         Const l
     Expr::Ident(id)                          Ident x     (x : one number per distinct Symbol; gluon compares
                                                           symbols by pointer, base/src/symbol.rs:258)
                                              Prim p      an identifier with a reserved name: `#Int+` ... `&&` `||`
                                                          (core::is_primitive, mod.rs:2362)
     Expr::Call(f, args)                      Call f args
     Expr::Data(id, args) of a variant type   Data c args (c : the constructor's name)
     Expr::Data(id, args) of a record type    Rec names args (names: the rows of id.typ, compiler.rs:921-935)
     Expr::Data(id, args) of an array type    Data c args with the reserved constructor the harness uses
     Expr::Let(b, body), b.expr = Named::Expr     Let x rhs body
     Expr::Let(b, body), b.expr = Named::Recursive LetRec closures body
     Expr::Match(s, alts)                     Match s alts
     Expr::Cast(e, _)                         Cast e

   The evaluator is strict, callee before arguments, arguments left to right
   (vm/src/compiler.rs:772-794), with partial and over-application (vm/src/thread.rs do_call),
   checked Int/Byte arithmetic (thread.rs:2493-2503: overflow and division by zero both give
   "Arithmetic overflow") and two host functions: [HEff] stands for a side-effecting extern
   function (it appends its argument to the log) and [HError] for `std.prim.error`.
   Float arithmetic is not interpreted: it is a parameter of the evaluator.

   Recursive groups (Named::Recursive): a member with parameters is a function; a member without
   parameters is a recursive VALUE (compiler.rs:688-745 allocates all members first and fills each
   in with CloseData).  Both are represented by [VClo env group name]; the value members are
   evaluated once, in order, when the group is made ([evm]: effects and failures happen there) and
   are unfolded on demand when a `match` looks at them ([force]), which gives members that close
   over each other without cyclic data in the model. *)
From Coq Require Import List ZArith NArith Bool.
Import ListNotations.

Notation ident := N (only parsing).
Notation fname := N (only parsing).
Notation ctor := N (only parsing).

Inductive primop :=
| PIntAdd | PIntSub | PIntMul | PIntDiv | PIntLt | PIntEq
| PByteAdd | PByteSub | PByteMul | PByteDiv | PByteLt | PByteEq
| PFloatAdd | PFloatSub | PFloatMul | PFloatDiv | PFloatLt | PFloatEq
| PAnd | POr.

Inductive lit := LInt (z : Z) | LByte (z : Z) | LFloat (bits : Z) | LStr (s : list N).

Inductive pat :=
| PCon (c : ctor) (xs : list ident)
| PRec (fs : list (fname * ident))
| PVar (x : ident)
| PLit (l : lit).

Inductive cexpr :=
| Const (l : lit)
| Ident (x : ident)
| Prim (p : primop)
| Call (f : cexpr) (args : cexprs)
| Data (c : ctor) (args : cexprs)
| Rec (names : list fname) (args : cexprs)
| Let (x : ident) (rhs body : cexpr)
| LetRec (cs : closures) (body : cexpr)
| Match (s : cexpr) (alts : calts)
| Cast (e : cexpr)
with cexprs := ENil | ECons (e : cexpr) (es : cexprs)
with closures := CNil | CCons (f : ident) (params : list ident) (body : cexpr) (cs : closures)
with calts := ANil | ACons (p : pat) (e : cexpr) (alts : calts).

Inductive hostfn := HEff | HError.

Inductive value :=
| VInt (z : Z)
| VByte (z : Z)
| VFloat (bits : Z)
| VStr (s : list N)
| VData (c : ctor) (vs : list value)
| VRec (fs : list (fname * value))
| VClo (env : list (ident * value)) (cs : closures) (f : ident)
| VPap (f : value) (args : list value)
| VHost (h : hostfn).

Definition env := list (ident * value).
Definition log := list Z.

(* EStuck: the evaluator met a situation a type-correct program never reaches (unbound
   variable, applying a non-function, a record pattern on a non-record ...), or a construct it
   does not model. *)
Inductive err := EExplicit (msg : list N) | EUnmatched | EArith | EStuck.

Inductive out (A : Type) := Val (a : A) | Err (e : err) | OOF.
Arguments Val {A}. Arguments Err {A}. Arguments OOF {A}.

Definition res := (out value * log)%type.

Definition bind {A B : Type} (r : out A * log) (k : A -> out B * log) : out B * log :=
  match r with
  | (Val a, l) => match k a with (o, l') => (o, l ++ l') end
  | (Err e, l) => (Err e, l)
  | (OOF, l) => (OOF, l)
  end.

Definition ret {A : Type} (a : A) : out A * log := (Val a, []).
Definition stuck {A : Type} : out A * log := (Err EStuck, []).

Fixpoint lookup {A : Type} (x : N) (l : list (N * A)) : option A :=
  match l with
  | [] => None
  | (y, a) :: l' => if N.eqb x y then Some a else lookup x l'
  end.

Fixpoint list_N_eqb (a b : list N) : bool :=
  match a, b with
  | [], [] => true
  | x :: a', y :: b' => N.eqb x y && list_N_eqb a' b'
  | _, _ => false
  end.

(* Bool is `type Bool = | False | True` (std/types.glu): False has tag 0 (compiler.rs:985). The
   harness gives these two constructors the numbers 0 and 1. *)
Definition ctor_false : ctor := 0%N.
Definition ctor_true : ctor := 1%N.
Definition vbool (b : bool) : value := VData (if b then ctor_true else ctor_false) [].
Definition as_bool (v : value) : option bool :=
  match v with
  | VData c [] => if N.eqb c ctor_true then Some true else if N.eqb c ctor_false then Some false else None
  | _ => None
  end.

Definition lit_value (l : lit) : value :=
  match l with LInt z => VInt z | LByte z => VByte z | LFloat b => VFloat b | LStr s => VStr s end.

Definition i64_min : Z := (- 9223372036854775808)%Z.
Definition i64_max : Z := 9223372036854775807%Z.
Definition in_i64 (z : Z) : bool := (Z.leb i64_min z && Z.leb z i64_max)%bool.
Definition in_u8 (z : Z) : bool := (Z.leb 0 z && Z.leb z 255)%bool.

Definition chk_int (z : Z) : out value := if in_i64 z then Val (VInt z) else Err EArith.
Definition chk_byte (z : Z) : out value := if in_u8 z then Val (VByte z) else Err EArith.

(* "Unmatched pattern" (core/mod.rs:1972) *)
Definition unmatched_msg : list N :=
  [85;110;109;97;116;99;104;101;100;32;112;97;116;116;101;114;110]%N.

Fixpoint find_clo (f : ident) (cs : closures) : option (list ident * cexpr) :=
  match cs with
  | CNil => None
  | CCons g ps b cs' => if N.eqb f g then Some (ps, b) else find_clo f cs'
  end.

Fixpoint clo_names (cs : closures) : list ident :=
  match cs with CNil => [] | CCons g _ _ cs' => g :: clo_names cs' end.

(* a member without parameters is a recursive value (compiler.rs:688-745): not modelled *)
Fixpoint has_value_member (cs : closures) : bool :=
  match cs with
  | CNil => false
  | CCons _ ps _ cs' => match ps with [] => true | _ => has_value_member cs' end
  end.

Definition bind_group (r : env) (all : closures) : env :=
  map (fun g => (g, VClo r all g)) (clo_names all) ++ r.

Fixpoint lookup_fields (pfs : list (fname * ident)) (fvs : list (fname * value)) : option env :=
  match pfs with
  | [] => Some []
  | (fn, x) :: pfs' =>
      match lookup fn fvs, lookup_fields pfs' fvs with
      | Some v, Some r => Some ((x, v) :: r)
      | _, _ => None
      end
  end.

Inductive mres := MYes (binds : env) | MNo | MStuck.

Section Eval.
(* float arithmetic / comparison on bit patterns: not interpreted *)
Variable fop : primop -> Z -> Z -> Z.
Variable fcmp : primop -> Z -> Z -> bool.

Definition lit_matches (l : lit) (v : value) : option bool :=
  match l, v with
  | LInt a, VInt b => Some (Z.eqb a b)
  | LByte a, VByte b => Some (Z.eqb a b)
  | LFloat a, VFloat b => Some (fcmp PFloatEq b a)
  | LStr a, VStr b => Some (list_N_eqb a b)
  | _, _ => None
  end.

(* compiler.rs:796-918 *)
Definition match_pat (p : pat) (v : value) : mres :=
  match p with
  | PVar x => MYes [(x, v)]
  | PCon c xs =>
      match v with
      | VData c' vs =>
          if N.eqb c c' then (if Nat.eqb (length xs) (length vs) then MYes (combine xs vs) else MStuck)
          else MNo
      | _ => MStuck
      end
  | PRec pfs =>
      match v with
      | VRec fvs => match lookup_fields pfs fvs with Some r => MYes r | None => MStuck end
      | _ => MStuck
      end
  | PLit l => match lit_matches l v with Some true => MYes [] | Some false => MNo | None => MStuck end
  end.

(* the numeric content of a value, all a primitive looks at *)
Inductive numv := NI (z : Z) | NB (z : Z) | NF (z : Z) | NOther.
Definition num_view (v : value) : numv :=
  match v with VInt z => NI z | VByte z => NB z | VFloat z => NF z | _ => NOther end.

Definition prim_num (p : primop) (a b : numv) : out value :=
  match p, a, b with
  | PIntAdd, NI x, NI y => chk_int (x + y)
  | PIntSub, NI x, NI y => chk_int (x - y)
  | PIntMul, NI x, NI y => chk_int (x * y)
  | PIntDiv, NI x, NI y => if Z.eqb y 0 then Err EArith else chk_int (Z.quot x y)
  | PIntLt, NI x, NI y => Val (vbool (Z.ltb x y))
  | PIntEq, NI x, NI y => Val (vbool (Z.eqb x y))
  | PByteAdd, NB x, NB y => chk_byte (x + y)
  | PByteSub, NB x, NB y => chk_byte (x - y)
  | PByteMul, NB x, NB y => chk_byte (x * y)
  | PByteDiv, NB x, NB y => if Z.eqb y 0 then Err EArith else chk_byte (Z.quot x y)
  | PByteLt, NB x, NB y => Val (vbool (Z.ltb x y))
  | PByteEq, NB x, NB y => Val (vbool (Z.eqb x y))
  | PFloatAdd, NF x, NF y => Val (VFloat (fop p x y))
  | PFloatSub, NF x, NF y => Val (VFloat (fop p x y))
  | PFloatMul, NF x, NF y => Val (VFloat (fop p x y))
  | PFloatDiv, NF x, NF y => Val (VFloat (fop p x y))
  | PFloatLt, NF x, NF y => Val (vbool (fcmp p x y))
  | PFloatEq, NF x, NF y => Val (vbool (fcmp p x y))
  | _, _, _ => Err EStuck
  end.

(* thread.rs:2493-2510, binop_int / binop_byte / binop_f64 *)
Definition prim_apply (p : primop) (a b : value) : out value := prim_num p (num_view a) (num_view b).

Definition host_call (h : hostfn) (v : value) : res :=
  match h, v with
  | HEff, VInt z => (Val (VInt z), [z])
  | HError, VStr s => (Err (if list_N_eqb s unmatched_msg then EUnmatched else EExplicit s), [])
  | _, _ => stuck
  end.

(* `Call(Ident p, [a; b])` with a primitive name is compiled to an instruction
   (compiler.rs:772-778, compile_primitive: exactly two arguments); `&&` and `||` become jumps
   (compiler.rs:975-1002): the right operand is only evaluated when needed *)
Definition prim_sem (p : primop) (ra : res) (rb : unit -> res) : res :=
  match p with
  | PAnd =>
      bind ra (fun v =>
        match as_bool v with
        | Some true => rb tt
        | Some false => ret (vbool false)
        | None => stuck
        end)
  | POr =>
      bind ra (fun v =>
        match as_bool v with
        | Some true => ret (vbool true)
        | Some false => rb tt
        | None => stuck
        end)
  | _ => bind ra (fun va => bind (rb tt) (fun vb => (prim_apply p va vb, [])))
  end.

Definition is_nil {A : Type} (l : list A) : bool := match l with [] => true | _ => false end.

(* Evaluation of an expression is structural; only function application (the parameter [ap])
   consumes fuel, so the fuel of [eval] bounds the depth of nested calls. *)
Section WithApply.
Variable ap : value -> list value -> res.
(* [fr v]: look at a value: a member without parameters of a recursive group (a recursive VALUE,
   compiler.rs:688-745 NewRecord/CloseData) is represented by [VClo env cs g] like the function
   members and is unfolded on demand; every other value is returned as it is *)
Variable fr : value -> res.

Fixpoint ev (r : env) (e : cexpr) {struct e} : res :=
  match e with
  | Const l => ret (lit_value l)
  | Ident x => match lookup x r with Some v => ret v | None => stuck end
  | Prim _ => stuck
  | Call f args =>
      match f, args with
      | Prim p, ECons a (ECons b ENil) => prim_sem p (ev r a) (fun _ => ev r b)
      | _, _ => bind (ev r f) (fun vf => bind (evl r args) (fun vs => ap vf vs))
      end
  | Data c args => bind (evl r args) (fun vs => ret (VData c vs))
  | Rec names args =>
      bind (evl r args) (fun vs =>
        if Nat.eqb (length names) (length vs) then ret (VRec (combine names vs)) else stuck)
  | Let x rhs body => bind (ev r rhs) (fun v => ev ((x, v) :: r) body)
  (* the value members are evaluated once, in order, when the group is made (their effects and
     failures happen here); the function members need no evaluation *)
  | LetRec cs body => bind (evm (bind_group r cs) cs) (fun _ => ev (bind_group r cs) body)
  | Match s alts => bind (ev r s) (fun v => bind (fr v) (fun w => eva r w alts))
  | Cast e => ev r e
  end
with evl (r : env) (es : cexprs) {struct es} : out (list value) * log :=
  match es with
  | ENil => ret []
  | ECons e es' => bind (ev r e) (fun v => bind (evl r es') (fun vs => ret (v :: vs)))
  end
with evm (r : env) (cs : closures) {struct cs} : out unit * log :=
  match cs with
  | CNil => ret tt
  | CCons _ ps body cs' =>
      match ps with
      | [] => bind (ev r body) (fun _ => evm r cs')
      | _ :: _ => evm r cs'
      end
  end
with eva (r : env) (v : value) (alts : calts) {struct alts} : res :=
  match alts with
  | ANil => stuck
  | ACons p e alts' =>
      match match_pat p v with
      | MYes binds => ev (binds ++ r) e
      | MNo => eva r v alts'
      | MStuck => stuck
      end
  end.

End WithApply.

(* vm/src/thread.rs do_call: too few arguments make a partial application, too many are applied
   to the result.  [force]: a recursive value is unfolded by evaluating its member again in the
   group's environment; its effects happened when the group was made, so the log of the
   re-evaluation is dropped (it yields the same value: the evaluator is deterministic). *)
Fixpoint apply (n : nat) (vf : value) (vs : list value) {struct n} : res :=
  match n with
  | O => (OOF, [])
  | S n =>
    if is_nil vs then ret vf else
    match vf with
    | VClo rc cs f =>
        match find_clo f cs with
        | None => stuck
        | Some (params, body) =>
            if is_nil params then stuck
            else if Nat.ltb (length vs) (length params) then ret (VPap vf vs)
            else
              bind (ev (apply n) (force n) (combine params (firstn (length params) vs) ++ bind_group rc cs) body)
                   (fun v => apply n v (skipn (length params) vs))
        end
    | VPap g vs0 => apply n g (vs0 ++ vs)
    | VHost h =>
        match vs with
        | [] => ret vf
        | v :: later => bind (host_call h v) (fun w => apply n w later)
        end
    | _ => stuck
    end
  end
with force (n : nat) (v : value) {struct n} : res :=
  match v with
  | VClo rc cs g =>
      match find_clo g cs with
      | Some ([], body) =>
          match n with
          | O => (OOF, [])
          | S n =>
              match ev (apply n) (force n) (bind_group rc cs) body with
              | (Val w, _) => (Val w, [])
              | (Err _, _) => (Err EStuck, [])
              | (OOF, _) => (OOF, [])
              end
          end
      | _ => ret v
      end
  | _ => ret v
  end.

(* [eval_core n r e]: the outcome and the log of calls to the effect primitive, with at most n
   nested function calls / unfoldings of recursive values *)
Definition eval (n : nat) (r : env) (e : cexpr) : res := ev (apply n) (force n) r e.
Definition eval_core := eval.

End Eval.
