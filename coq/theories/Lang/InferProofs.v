(* Proofs about Lang/Infer.v: unification (sound up to field order, most general and complete for
   syntactic unifiers, fuel monotone, terminating on row-free input), algorithm W (sound), the
   instance check used for triage. *)
From Coq Require Import List Arith Bool PeanoNat Lia.
From GV Require Import Lang.Infer.
Import ListNotations.

Local Ltac inv H := inversion H; subst; clear H.

(* ------------------------------------------------------------------ substitutions *)

Definition sfun (s : subst) : nat -> ty := fun x => apply s (TVar x).

Lemma tsubst_ext : forall f g t, (forall x, f x = g x) -> tsubst f t = tsubst g t.
Proof. induction t; simpl; intros; auto; try (rewrite IHt1, IHt2; auto); try (rewrite IHt; auto). Qed.

Lemma tsubst_ext_in : forall f g t, (forall x, In x (ftv t) -> f x = g x) -> tsubst f t = tsubst g t.
Proof.
  induction t; simpl; intros H; auto.
  - rewrite IHt1, IHt2; auto; intros; apply H; apply in_or_app; auto.
  - rewrite IHt; auto.
  - rewrite IHt1, IHt2; auto; intros; apply H; apply in_or_app; auto.
Qed.

Lemma tsubst_id : forall t, tsubst TVar t = t.
Proof. induction t; simpl; congruence. Qed.

Lemma tsubst_comp : forall f g t, tsubst f (tsubst g t) = tsubst (fun x => tsubst f (g x)) t.
Proof. induction t; simpl; congruence. Qed.

Lemma apply_fun : forall s a b, apply s (TFun a b) = TFun (apply s a) (apply s b).
Proof. induction s as [|[x u] s]; simpl; intros; auto; unfold subst1; simpl; apply IHs. Qed.
Lemma apply_array : forall s a, apply s (TArray a) = TArray (apply s a).
Proof. induction s as [|[x u] s]; simpl; intros; auto; unfold subst1; simpl; apply IHs. Qed.
Lemma apply_cons : forall s l a r, apply s (RCons l a r) = RCons l (apply s a) (apply s r).
Proof. induction s as [|[x u] s]; simpl; intros; auto; unfold subst1; simpl; apply IHs. Qed.
Lemma apply_nil : forall s, apply s RNil = RNil.
Proof. induction s as [|[x u] s]; simpl; intros; auto; unfold subst1; simpl; apply IHs. Qed.
Lemma apply_con : forall s c, apply s (TCon c) = TCon c.
Proof. induction s as [|[x u] s]; simpl; intros; auto; unfold subst1; simpl; apply IHs. Qed.
Lemma apply_gen : forall s k, apply s (TGen k) = TGen k.
Proof. induction s as [|[x u] s]; simpl; intros; auto; unfold subst1; simpl; apply IHs. Qed.

Lemma apply_tsubst : forall s t, apply s t = tsubst (sfun s) t.
Proof.
  intros s t; induction t; simpl.
  - reflexivity.
  - apply apply_gen.
  - apply apply_con.
  - rewrite apply_fun; congruence.
  - rewrite apply_array; congruence.
  - apply apply_nil.
  - rewrite apply_cons; congruence.
Qed.

Lemma apply_app : forall s1 s2 t, apply (s1 ++ s2) t = apply s2 (apply s1 t).
Proof. induction s1 as [|[x u] s1]; simpl; intros; auto. Qed.

Lemma subst1_noccur : forall x u t, occurs x t = false -> subst1 x u t = t.
Proof.
  unfold subst1; induction t; simpl; intros H; auto.
  - unfold single. rewrite H. reflexivity.
  - apply orb_false_iff in H as [H1 H2]. rewrite IHt1, IHt2; auto.
  - rewrite IHt; auto.
  - apply orb_false_iff in H as [H1 H2]. rewrite IHt1, IHt2; auto.
Qed.

Lemma subst1_var_same : forall x u, subst1 x u (TVar x) = u.
Proof. intros. unfold subst1, single; simpl. rewrite Nat.eqb_refl. reflexivity. Qed.

(* ------------------------------------------------------------------ teq *)

Lemma teq_tsubst : forall f t u, teq t u -> teq (tsubst f t) (tsubst f u).
Proof.
  induction 1; simpl.
  - apply teq_refl.
  - apply teq_sym; auto.
  - eapply teq_trans; eauto.
  - apply teq_fun; auto.
  - apply teq_array; auto.
  - apply teq_cons; auto.
  - apply teq_swap; auto.
Qed.

Lemma teq_apply : forall s t u, teq t u -> teq (apply s t) (apply s u).
Proof. intros. rewrite !apply_tsubst. apply teq_tsubst; auto. Qed.

Lemma extract_found : forall l d row a r, extract l d row = ExFound a r -> teq row (RCons l a r).
Proof.
  induction row; simpl; intros a0 r0 H; try discriminate.
  destruct (l =? l0) eqn:E.
  - apply Nat.eqb_eq in E; subst. inv H. apply teq_refl.
  - apply Nat.eqb_neq in E.
    destruct (extract l d row2) eqn:X; try discriminate. inv H.
    eapply teq_trans.
    + apply teq_cons. apply teq_refl. apply IHrow2. reflexivity.
    + apply teq_swap. auto.
Qed.

Lemma extract_tail : forall l a n b row r,
  extract l (TVar n) row = ExTail b r -> b <> n -> occurs b a = false ->
  teq (subst1 b (RCons l a (TVar n)) row) (RCons l a (subst1 b (RCons l a (TVar n)) r)).
Proof.
  induction row; simpl; intros r0 H Hn Ho; try discriminate.
  - inv H. rewrite subst1_var_same.
    unfold subst1 at 1; simpl. unfold single.
    destruct (b =? n) eqn:E. { apply Nat.eqb_eq in E; congruence. }
    apply teq_refl.
  - destruct (l =? l0) eqn:E; try discriminate.
    apply Nat.eqb_neq in E.
    destruct (extract l (TVar n) row2) eqn:X; try discriminate. inv H.
    specialize (IHrow2 _ eq_refl Hn Ho).
    unfold subst1 in *; simpl.
    eapply teq_trans.
    + apply teq_cons. apply teq_refl. apply IHrow2.
    + apply teq_swap. auto.
Qed.

(* ------------------------------------------------------------------ unification: soundness *)

Definition unifies_teq (s : subst) (eqs : list (ty * ty)) : Prop :=
  Forall (fun p => teq (apply s (fst p)) (apply s (snd p))) eqs.

Lemma unifies_subst_eqs : forall x u s eqs,
  unifies_teq s (subst_eqs x u eqs) -> unifies_teq ((x, u) :: s) eqs.
Proof.
  unfold unifies_teq, subst_eqs; intros x u s eqs H.
  rewrite Forall_map in H. eapply Forall_impl; [|exact H]. simpl; auto.
Qed.

Lemma bind_sound : forall x t s rest,
  occurs x t = false -> unifies_teq s (subst_eqs x t rest) ->
  unifies_teq ((x, t) :: s) ((TVar x, t) :: rest) /\ unifies_teq ((x, t) :: s) ((t, TVar x) :: rest).
Proof.
  intros x t s rest Ho H.
  assert (E : apply ((x, t) :: s) (TVar x) = apply ((x, t) :: s) t).
  { simpl. rewrite subst1_var_same, subst1_noccur; auto. }
  split; constructor; simpl fst; simpl snd; try (rewrite E; apply teq_refl);
    apply unifies_subst_eqs; auto.
Qed.

Theorem unify_sound : forall fuel n eqs s n',
  unify fuel n eqs = Ok (s, n') -> unifies_teq s eqs.
Proof.
  induction fuel as [|fuel IH]; intros n eqs s n' H; simpl in H; try discriminate.
  destruct eqs as [|[t1 t2] rest].
  { inv H. constructor. }
  (* the generic "bind" step *)
  assert (BIND : forall x t,
    (if occurs x t then Fail else
       match unify fuel n (subst_eqs x t rest) with
       | Ok (s0, n0) => Ok ((x, t) :: s0, n0) | Fail => Fail | OutOfFuel => OutOfFuel end) = Ok (s, n') ->
    unifies_teq s ((TVar x, t) :: rest) /\ unifies_teq s ((t, TVar x) :: rest)).
  { intros x t Hb. destruct (occurs x t) eqn:Ho; try discriminate.
    destruct (unify fuel n (subst_eqs x t rest)) as [[s0 n0]| |] eqn:U; try discriminate.
    inv Hb. apply bind_sound; auto. eapply IH; eauto. }
  assert (SKIP : forall t, unify fuel n rest = Ok (s, n') -> unifies_teq s ((t, t) :: rest)).
  { intros t Hs. constructor. apply teq_refl. eapply IH; eauto. }
  destruct t1, t2; try discriminate;
    try (apply BIND in H; tauto).
  - (* var var *)
    destruct (n0 =? n1) eqn:E.
    + apply Nat.eqb_eq in E; subst. auto.
    + apply BIND in H; tauto.
  - destruct (k =? k0) eqn:E; try discriminate. apply Nat.eqb_eq in E; subst; auto.
  - destruct (c =? c0) eqn:E; try discriminate. apply Nat.eqb_eq in E; subst; auto.
  - (* fun *)
    apply IH in H. inv H. inv H3. constructor; auto. simpl in *. rewrite !apply_fun. apply teq_fun; auto.
  - apply IH in H. inv H. constructor; auto. simpl in *. rewrite !apply_array. apply teq_array; auto.
  - auto.
  - (* rows *)
    destruct (l =? l0) eqn:E.
    + apply Nat.eqb_eq in E; subst.
      apply IH in H. inv H. inv H3. constructor; auto. simpl in *. rewrite !apply_cons. apply teq_cons; auto.
    + destruct (row_closed t1_2 && row_closed t2_2); try discriminate.
      destruct (extract l (TVar n) (RCons l0 t2_1 t2_2)) eqn:X; try discriminate.
      * apply IH in H. inv H. inv H3. constructor; auto. simpl fst in *; simpl snd in *.
        apply extract_found in X.
        eapply teq_trans; [| apply teq_sym; apply teq_apply; exact X].
        rewrite !apply_cons. apply teq_cons; auto.
      * destruct ((b =? n) || occurs b t1_1 || row_tail_is b t1_2) eqn:G0; try discriminate.
        apply orb_false_iff in G0 as [G _].
        apply orb_false_iff in G as [G1 G2]. apply Nat.eqb_neq in G1.
        match type of H with context [unify ?f ?m ?e] =>
          destruct (unify f m e) as [[s0 n0]| |] eqn:U; try discriminate end.
        inv H. apply IH in U.
        assert (U' : unifies_teq s0 (subst_eqs b (RCons l t1_1 (TVar n)) ((t1_2, r) :: rest))) by exact U.
        clear U. apply unifies_subst_eqs in U'. inv U'.
        constructor; auto. simpl fst in *; simpl snd in *.
        pose proof (extract_tail _ _ _ _ _ _ X G1 G2) as T.
        change (apply ((b, RCons l t1_1 (TVar n)) :: s0) (RCons l0 t2_1 t2_2))
          with (apply s0 (subst1 b (RCons l t1_1 (TVar n)) (RCons l0 t2_1 t2_2))).
        change (apply ((b, RCons l t1_1 (TVar n)) :: s0) (RCons l t1_1 t1_2))
          with (apply s0 (subst1 b (RCons l t1_1 (TVar n)) (RCons l t1_1 t1_2))).
        eapply teq_trans; [| apply teq_sym; apply teq_apply; exact T].
        assert (Es : subst1 b (RCons l t1_1 (TVar n)) (RCons l t1_1 t1_2) =
                     RCons l t1_1 (subst1 b (RCons l t1_1 (TVar n)) t1_2)).
        { unfold subst1 at 1; simpl. fold (subst1 b (RCons l t1_1 (TVar n)) t1_1).
          rewrite subst1_noccur; auto. }
        rewrite Es. rewrite !apply_cons. apply teq_cons. apply teq_refl.
        exact H1.
Qed.

(* ------------------------------------------------------------------ unification: most general *)

Definition unifier (th : nat -> ty) (eqs : list (ty * ty)) : Prop :=
  Forall (fun p => tsubst th (fst p) = tsubst th (snd p)) eqs.

Lemma tsubst_subst1 : forall th x u t,
  th x = tsubst th u -> tsubst th (subst1 x u t) = tsubst th t.
Proof.
  intros th x u t H. unfold subst1. rewrite tsubst_comp. apply tsubst_ext.
  intros y. unfold single. destruct (x =? y) eqn:E.
  - apply Nat.eqb_eq in E; subst; auto.
  - reflexivity.
Qed.

Lemma unifier_subst_eqs : forall th x u eqs,
  th x = tsubst th u -> unifier th eqs -> unifier th (subst_eqs x u eqs).
Proof.
  unfold unifier, subst_eqs; intros. rewrite Forall_map. eapply Forall_impl; [|eassumption].
  simpl; intros. rewrite !tsubst_subst1; auto.
Qed.

(* Every syntactic unifier of the equations factors through the computed one (th o s = th). *)
Theorem unify_mgu : forall fuel n eqs s n' th,
  unify fuel n eqs = Ok (s, n') -> unifier th eqs ->
  forall t, tsubst th (apply s t) = tsubst th t.
Proof.
  induction fuel as [|fuel IH]; intros n eqs s n' th H U t; simpl in H; try discriminate.
  destruct eqs as [|[t1 t2] rest].
  { inv H. reflexivity. }
  inv U. simpl in H2. rename H2 into HU, H3 into UR.
  assert (BIND : forall x u, th x = tsubst th u ->
    (if occurs x u then Fail else
       match unify fuel n (subst_eqs x u rest) with
       | Ok (s0, n0) => Ok ((x, u) :: s0, n0) | Fail => Fail | OutOfFuel => OutOfFuel end) = Ok (s, n') ->
    tsubst th (apply s t) = tsubst th t).
  { intros x u Hx Hb. destruct (occurs x u); try discriminate.
    destruct (unify fuel n (subst_eqs x u rest)) as [[s0 n0]| |] eqn:E; try discriminate.
    inv Hb. simpl. erewrite IH; eauto. apply tsubst_subst1; auto. apply unifier_subst_eqs; auto. }
  Ltac usebind BIND H :=
    match type of H with
    | (if occurs ?x ?u then _ else _) = _ => apply (BIND x u); [simpl; congruence | exact H]
    end.
  destruct t1, t2; try discriminate; simpl in HU;
    try (usebind BIND H; fail).
  - destruct (n0 =? n1) eqn:E.
    + eapply IH; eauto.
    + usebind BIND H.
  - inv HU. rewrite Nat.eqb_refl in H. eapply IH; eauto.
  - inv HU. rewrite Nat.eqb_refl in H. eapply IH; eauto.
  - inv HU. eapply IH; eauto; repeat (constructor; auto).
  - inv HU. eapply IH; eauto; repeat (constructor; auto).
  - eapply IH; eauto.
  - inv HU. rewrite Nat.eqb_refl in H. eapply IH; eauto; repeat (constructor; auto).
Qed.

(* size argument for the occurs check *)
Fixpoint tsize (t : ty) : nat :=
  match t with
  | TFun a b => S (tsize a + tsize b)
  | TArray a => S (tsize a)
  | RCons _ a r => S (tsize a + tsize r)
  | _ => 1
  end.

Lemma occurs_size : forall th x t, occurs x t = true -> tsize (th x) <= tsize (tsubst th t).
Proof.
  induction t; simpl; intros H; try discriminate.
  - apply Nat.eqb_eq in H; subst; auto.
  - apply orb_true_iff in H as [H|H]; [apply IHt1 in H | apply IHt2 in H]; lia.
  - apply IHt in H; lia.
  - apply orb_true_iff in H as [H|H]; [apply IHt1 in H | apply IHt2 in H]; lia.
Qed.

Lemma occurs_no_unifier : forall th x t,
  occurs x t = true -> (forall y, t <> TVar y) -> th x <> tsubst th t.
Proof.
  intros th x t Ho Hv E.
  destruct t; simpl in Ho; try discriminate.
  - exfalso; eapply Hv; eauto.
  - apply orb_true_iff in Ho as [H|H]; eapply occurs_size with (th := th) in H;
      rewrite E in H; simpl in H; lia.
  - eapply occurs_size with (th := th) in Ho. rewrite E in Ho; simpl in Ho; lia.
  - apply orb_true_iff in Ho as [H|H]; eapply occurs_size with (th := th) in H;
      rewrite E in H; simpl in H; lia.
Qed.

(* If the equations have a syntactic unifier, unification does not fail. *)
Theorem unify_complete : forall fuel n eqs th,
  unifier th eqs -> unify fuel n eqs <> Fail.
Proof.
  induction fuel as [|fuel IH]; intros n eqs th U; simpl; try discriminate.
  destruct eqs as [|[t1 t2] rest]; try discriminate.
  inv U. simpl in H1. rename H1 into HU, H2 into UR.
  assert (BIND : forall x u, th x = tsubst th u -> (forall y, u <> TVar y) ->
    (if occurs x u then Fail else
       match unify fuel n (subst_eqs x u rest) with
       | Ok (s0, n0) => Ok ((x, u) :: s0, n0) | Fail => Fail | OutOfFuel => OutOfFuel end) <> (@Fail (subst * nat))).
  { intros x u Hx Hv. destruct (occurs x u) eqn:Ho.
    - exfalso. eapply occurs_no_unifier; eauto.
    - destruct (unify fuel n (subst_eqs x u rest)) as [[s0 n0]| |] eqn:E; try discriminate.
      exfalso. eapply IH; [| exact E]. apply unifier_subst_eqs; eauto. }
  destruct t1, t2; simpl in HU; try discriminate;
    try (apply BIND; [simpl; congruence | intros; discriminate]).
  - destruct (n0 =? n1) eqn:E.
    + eapply IH; eauto.
    + simpl. rewrite E.
      destruct (unify fuel n (subst_eqs n0 (TVar n1) rest)) as [[s0 n2]| |] eqn:E2; try discriminate.
      exfalso. eapply IH; [| exact E2]. apply unifier_subst_eqs; eauto.
  - inv HU. rewrite Nat.eqb_refl. eapply IH; eauto.
  - inv HU. rewrite Nat.eqb_refl. eapply IH; eauto.
  - inv HU. eapply IH with (th := th); repeat (constructor; eauto).
  - inv HU. eapply IH with (th := th); repeat (constructor; eauto).
  - eapply IH; eauto.
  - inv HU. rewrite Nat.eqb_refl. eapply IH with (th := th); repeat (constructor; eauto).
Qed.

(* More fuel does not change an answer. *)
Theorem unify_fuel_mono : forall fuel n eqs r,
  unify fuel n eqs = r -> r <> OutOfFuel -> forall k, unify (fuel + k) n eqs = r.
Proof.
  induction fuel as [|fuel IH]; intros n eqs r H Hr k; simpl in H.
  { subst. congruence. }
  simpl.
  destruct eqs as [|[t1 t2] rest]; auto.
  assert (BIND : forall x u,
    (if occurs x u then Fail else
       match unify fuel n (subst_eqs x u rest) with
       | Ok (s0, n0) => Ok ((x, u) :: s0, n0) | Fail => Fail | OutOfFuel => OutOfFuel end) = r ->
    (if occurs x u then Fail else
       match unify (fuel + k) n (subst_eqs x u rest) with
       | Ok (s0, n0) => Ok ((x, u) :: s0, n0) | Fail => Fail | OutOfFuel => OutOfFuel end) = r).
  { intros x u Hb. destruct (occurs x u); auto.
    destruct (unify fuel n (subst_eqs x u rest)) as [[s0 n0]| |] eqn:E.
    - erewrite IH; eauto; congruence.
    - erewrite IH; eauto; congruence.
    - exfalso. apply Hr. symmetry. exact Hb. }
  revert H.
  destruct t1, t2;
    try (intros H; eapply IH; eauto; fail);
    try (intros H; apply BIND; exact H; fail);
    auto;
    repeat (match goal with
            | |- context [if ?c then _ else _] => destruct c
            | |- context [match extract ?a ?b ?c with _ => _ end] => destruct (extract a b c)
            end;
            try (intros H; eapply IH; eauto; fail);
            try (intros H; apply BIND; exact H; fail);
            auto).
  intros H.
  match type of H with context [unify ?f ?m ?e] =>
    destruct (unify f m e) as [[s0 n0]| |] eqn:E end.
  - erewrite IH; eauto; congruence.
  - erewrite IH; eauto; congruence.
  - exfalso. apply Hr. symmetry. exact H.
Qed.


(* ------------------------------------------------------------------ inversion of [infer] *)

Ltac step H :=
  match type of H with
  | bind_res ?r _ = _ => let E := fresh "E" in destruct r as [?| |] eqn:E; simpl in H; try discriminate
  | match ?p with pair _ _ => _ end = _ => destruct p; simpl in H
  | (if ?c then _ else _) = _ => let C := fresh "C" in destruct c eqn:C; simpl in H; try discriminate
  end.

Lemma infer_var_inv : forall fuel G x n s t n',
  infer fuel G (EVar x) n = Ok (s, t, n') ->
  exists sc, lookup x G = Some sc /\ s = [] /\ t = tinst (fresh_inst n) sc /\ n' = n + gen_bound sc.
Proof. intros. simpl in H. destruct (lookup x G); try discriminate. inv H. eauto. Qed.

Lemma infer_lam_inv : forall fuel G x e n s t n',
  infer fuel G (ELam x e) n = Ok (s, t, n') ->
  exists t1, infer fuel ((x, TVar n) :: G) e (S n) = Ok (s, t1, n') /\ t = TFun (apply s (TVar n)) t1.
Proof. intros. simpl in H. repeat step H. inv H. eauto. Qed.

Lemma infer_app_inv : forall fuel G e1 e2 n s t n',
  infer fuel G (EApp e1 e2) n = Ok (s, t, n') ->
  exists s1 t1 n1 s2 t2 n2 u,
    infer fuel G e1 n = Ok (s1, t1, n1) /\
    infer fuel (apply_env s1 G) e2 n1 = Ok (s2, t2, n2) /\
    unify fuel (S n2) [(apply s2 t1, TFun t2 (TVar n2))] = Ok (u, n') /\
    s = s1 ++ s2 ++ u /\ t = apply u (TVar n2).
Proof. intros. simpl in H. repeat step H. inv H. repeat eexists; eauto. Qed.

Lemma infer_let_inv : forall fuel G x e1 e2 n s t n',
  infer fuel G (ELet x e1 e2) n = Ok (s, t, n') ->
  exists s1 t1 n1 s2,
    infer fuel G e1 n = Ok (s1, t1, n1) /\
    infer fuel ((x, gen (apply_env s1 G) t1) :: apply_env s1 G) e2 n1 = Ok (s2, t, n') /\
    s = s1 ++ s2.
Proof. intros. simpl in H. repeat step H. inv H. repeat eexists; eauto. Qed.

Lemma infer_fix_inv : forall fuel G f x e n s t n',
  infer fuel G (EFix f x e) n = Ok (s, t, n') ->
  exists s1 t1 n1 u,
    infer fuel ((x, TVar n) :: (f, TFun (TVar n) (TVar (S n))) :: G) e (S (S n)) = Ok (s1, t1, n1) /\
    unify fuel n1 [(apply s1 (TVar (S n)), t1)] = Ok (u, n') /\
    s = s1 ++ u /\ t = apply u (apply s1 (TFun (TVar n) (TVar (S n)))).
Proof. intros. simpl in H. repeat step H. inv H. repeat eexists; eauto. Qed.

Lemma infer_if_inv : forall fuel G c e1 e2 n s t n',
  infer fuel G (EIf c e1 e2) n = Ok (s, t, n') ->
  exists s0 t0 n0 u0 m0 s1 t1 n1 s2 t2 n2 u,
    infer fuel G c n = Ok (s0, t0, n0) /\
    unify fuel n0 [(t0, tbool)] = Ok (u0, m0) /\
    infer fuel (apply_env (s0 ++ u0) G) e1 m0 = Ok (s1, t1, n1) /\
    infer fuel (apply_env s1 (apply_env (s0 ++ u0) G)) e2 n1 = Ok (s2, t2, n2) /\
    unify fuel n2 [(apply s2 t1, t2)] = Ok (u, n') /\
    s = s0 ++ u0 ++ s1 ++ s2 ++ u /\ t = apply u t2.
Proof. intros. simpl in H. repeat step H. inv H. repeat eexists; eauto. Qed.

Lemma infer_eq_inv : forall fuel G e1 e2 n s t n',
  infer fuel G (EEq e1 e2) n = Ok (s, t, n') ->
  exists s1 t1 n1 u1 m1 s2 t2 n2 u2,
    infer fuel G e1 n = Ok (s1, t1, n1) /\
    unify fuel n1 [(t1, tint)] = Ok (u1, m1) /\
    infer fuel (apply_env (s1 ++ u1) G) e2 m1 = Ok (s2, t2, n2) /\
    unify fuel n2 [(t2, tint)] = Ok (u2, n') /\
    s = s1 ++ u1 ++ s2 ++ u2 /\ t = tbool.
Proof. intros. simpl in H. repeat step H. inv H. repeat eexists; eauto. Qed.

Lemma infer_fcons_inv : forall fuel G l e fs n s t n',
  infer fuel G (EFCons l e fs) n = Ok (s, t, n') ->
  exists s1 t1 n1 s2 t2,
    is_fields fs = true /\ has_label l fs = false /\
    infer fuel G e n = Ok (s1, t1, n1) /\
    infer fuel (apply_env s1 G) fs n1 = Ok (s2, t2, n') /\
    s = s1 ++ s2 /\ t = RCons l (apply s2 t1) t2.
Proof.
  intros. simpl in H. repeat step H. inv H.
  apply orb_false_iff in C as [C1 C2]. apply negb_false_iff in C1.
  repeat eexists; eauto.
Qed.

Lemma infer_proj_inv : forall fuel G e l n s t n',
  infer fuel G (EProj e l) n = Ok (s, t, n') ->
  exists s1 t1 n1 u,
    infer fuel G e n = Ok (s1, t1, n1) /\
    unify fuel (S (S n1)) [(t1, RCons l (TVar n1) (TVar (S n1)))] = Ok (u, n') /\
    s = s1 ++ u /\ t = apply u (TVar n1).
Proof. intros. simpl in H. repeat step H. inv H. repeat eexists; eauto. Qed.

Lemma infer_acons_inv : forall fuel G e es n s t n',
  infer fuel G (EACons e es) n = Ok (s, t, n') ->
  exists s1 t1 n1 s2 t2 n2 u,
    is_elems es = true /\
    infer fuel G e n = Ok (s1, t1, n1) /\
    infer fuel (apply_env s1 G) es n1 = Ok (s2, t2, n2) /\
    unify fuel n2 [(TArray (apply s2 t1), t2)] = Ok (u, n') /\
    s = s1 ++ s2 ++ u /\ t = apply u t2.
Proof.
  intros. simpl in H. repeat step H. inv H. apply negb_false_iff in C.
  repeat eexists; eauto.
Qed.

(* ------------------------------------------------------------------ no quantified variables *)

Fixpoint nogen (t : ty) : Prop :=
  match t with
  | TGen _ => False
  | TFun a b => nogen a /\ nogen b
  | TArray a => nogen a
  | RCons _ a r => nogen a /\ nogen r
  | _ => True
  end.

Definition nogen_fun (f : nat -> ty) : Prop := forall x, nogen (f x).
Definition nogen_subst (s : subst) : Prop := Forall (fun p => nogen (snd p)) s.

Lemma nogen_tsubst : forall f t, nogen t -> nogen_fun f -> nogen (tsubst f t).
Proof. induction t; simpl; intros; auto; try tauto. Qed.

Lemma nogen_tinst_id : forall f t, nogen t -> tinst f t = t.
Proof.
  induction t; simpl; intros H; auto; try tauto.
  - destruct H; rewrite IHt1, IHt2; auto.
  - rewrite IHt; auto.
  - destruct H; rewrite IHt1, IHt2; auto.
Qed.

Lemma tinst_nogen : forall f t, (forall k, nogen (f k)) -> nogen (tinst f t).
Proof. induction t; simpl; intros; auto. Qed.

Lemma nogen_single : forall x u, nogen u -> nogen_fun (single x u).
Proof. intros x u H y. unfold single. destruct (x =? y); simpl; auto. Qed.

Lemma nogen_subst1 : forall x u t, nogen u -> nogen t -> nogen (subst1 x u t).
Proof. intros. apply nogen_tsubst; auto. apply nogen_single; auto. Qed.

Lemma nogen_apply : forall s t, nogen_subst s -> nogen t -> nogen (apply s t).
Proof.
  induction s as [|[x u] s]; simpl; intros t Hs Ht; auto.
  inv Hs. apply IHs; auto. apply nogen_subst1; auto.
Qed.

Lemma nogen_sfun : forall s, nogen_subst s -> nogen_fun (sfun s).
Proof. intros s H x. apply nogen_apply; simpl; auto. Qed.

Lemma nogen_subst_app : forall s1 s2, nogen_subst s1 -> nogen_subst s2 -> nogen_subst (s1 ++ s2).
Proof. intros. apply Forall_app; auto. Qed.

Definition nogen_eqs (eqs : list (ty * ty)) : Prop := Forall (fun p => nogen (fst p) /\ nogen (snd p)) eqs.

Lemma nogen_subst_eqs : forall x u eqs, nogen u -> nogen_eqs eqs -> nogen_eqs (subst_eqs x u eqs).
Proof.
  unfold nogen_eqs, subst_eqs; intros. rewrite Forall_map. eapply Forall_impl; [|eassumption].
  simpl; intros p [A B]; split; apply nogen_subst1; auto.
Qed.

Lemma nogen_extract : forall l d row,
  nogen row -> nogen d ->
  match extract l d row with
  | ExFound a r => nogen a /\ nogen r
  | ExTail _ r => nogen r
  | ExNone => True
  end.
Proof.
  induction row; simpl; intros Hr Hd; auto.
  destruct Hr as [Ha Hr].
  destruct (l =? l0); auto.
  specialize (IHrow2 Hr Hd). destruct (extract l d row2); simpl; tauto.
Qed.

Lemma unify_nogen : forall fuel n eqs s n',
  nogen_eqs eqs -> unify fuel n eqs = Ok (s, n') -> nogen_subst s.
Proof.
  induction fuel as [|fuel IH]; intros n eqs s n' N H; simpl in H; try discriminate.
  destruct eqs as [|[t1 t2] rest].
  { inv H. constructor. }
  inv N. simpl in H2. destruct H2 as [N1 N2]. rename H3 into NR.
  assert (BIND : forall x u, nogen u ->
    (if occurs x u then Fail else
       match unify fuel n (subst_eqs x u rest) with
       | Ok (s0, n0) => Ok ((x, u) :: s0, n0) | Fail => Fail | OutOfFuel => OutOfFuel end) = Ok (s, n') ->
    nogen_subst s).
  { intros x u Nu Hb. destruct (occurs x u); try discriminate.
    destruct (unify fuel n (subst_eqs x u rest)) as [[s0 n0]| |] eqn:E; try discriminate.
    inv Hb. constructor; auto. eapply IH; [| exact E]. apply nogen_subst_eqs; auto. }
  Ltac usebind2 BIND H :=
    match type of H with
    | (if occurs ?x ?u then _ else _) = _ => apply (BIND x u); [simpl; tauto | exact H]
    end.
  destruct t1, t2; try discriminate; simpl in N1, N2; try tauto;
    try (usebind2 BIND H; fail).
  - destruct (n0 =? n1).
    + eapply IH; eauto.
    + usebind2 BIND H.
  - destruct (c =? c0); try discriminate. eapply IH; eauto.
  - eapply IH; [| exact H]. repeat (constructor; simpl; try tauto).
  - eapply IH; [| exact H]. repeat (constructor; simpl; try tauto).
  - eapply IH; eauto.
  - destruct (l =? l0).
    + eapply IH; [| exact H]. repeat (constructor; simpl; try tauto).
    + destruct (row_closed t1_2 && row_closed t2_2); try discriminate.
      pose proof (nogen_extract l (TVar n) (RCons l0 t2_1 t2_2)) as X.
      destruct (extract l (TVar n) (RCons l0 t2_1 t2_2)); try discriminate.
      * eapply IH; [| exact H]. simpl in X. repeat (constructor; simpl; try tauto).
      * destruct ((b =? n) || occurs b t1_1 || row_tail_is b t1_2); try discriminate.
        match type of H with context [unify ?f ?m ?e] =>
          destruct (unify f m e) as [[s0 n0]| |] eqn:U; try discriminate end.
        inv H. constructor; simpl; try tauto.
        eapply IH; [| exact U].
        simpl in X.
        change (nogen_eqs (subst_eqs b (RCons l t1_1 (TVar n)) ((t1_2, r) :: rest))).
        apply nogen_subst_eqs; simpl; try tauto.
        constructor; simpl; try tauto.
Qed.

Lemma infer_nogen : forall e fuel G n s t n',
  infer fuel G e n = Ok (s, t, n') -> nogen_subst s /\ nogen t.
Proof.
  induction e; intros fuel G n0 s t n' H.
  - inv H. split; simpl; auto. constructor.
  - inv H. split; simpl; auto. constructor.
  - apply infer_var_inv in H as (sc & _ & -> & -> & _). split. constructor.
    apply tinst_nogen. intros; simpl; auto.
  - apply infer_lam_inv in H as (t1 & H & ->). apply IHe in H as [A B].
    split; auto. simpl; split; auto. apply nogen_apply; simpl; auto.
  - apply infer_app_inv in H as (s1 & t1 & n1 & s2 & t2 & n2 & u & H1 & H2 & H3 & -> & ->).
    apply IHe1 in H1 as [A1 B1]. apply IHe2 in H2 as [A2 B2].
    apply unify_nogen in H3.
    + split. repeat apply nogen_subst_app; auto. apply nogen_apply; simpl; auto.
    + constructor; [|constructor]. simpl. split. apply nogen_apply; auto. tauto.
  - apply infer_let_inv in H as (s1 & t1 & n1 & s2 & H1 & H2 & ->).
    apply IHe1 in H1 as [A1 B1]. apply IHe2 in H2 as [A2 B2].
    split; auto. apply nogen_subst_app; auto.
  - apply infer_fix_inv in H as (s1 & t1 & n1 & u & H1 & H2 & -> & ->).
    apply IHe in H1 as [A1 B1].
    apply unify_nogen in H2.
    + split. apply nogen_subst_app; auto. repeat apply nogen_apply; simpl; auto.
    + constructor; [|constructor]. simpl. split; auto. apply nogen_apply; simpl; auto.
  - apply infer_if_inv in H as (s0 & t0 & n00 & u0 & m0 & s1 & t1 & n1 & s2 & t2 & n2 & u & H0 & U0 & H1 & H2 & U & -> & ->).
    apply IHe1 in H0 as [A0 B0]. apply IHe2 in H1 as [A1 B1]. apply IHe3 in H2 as [A2 B2].
    apply unify_nogen in U0; [| constructor; [|constructor]; simpl; tauto].
    apply unify_nogen in U; [| constructor; [|constructor]; simpl; split; auto; apply nogen_apply; auto].
    split. repeat apply nogen_subst_app; auto. apply nogen_apply; auto.
  - apply infer_eq_inv in H as (s1 & t1 & n1 & u1 & m1 & s2 & t2 & n2 & u2 & H1 & U1 & H2 & U2 & -> & ->).
    apply IHe1 in H1 as [A1 B1]. apply IHe2 in H2 as [A2 B2].
    apply unify_nogen in U1; [| constructor; [|constructor]; simpl; tauto].
    apply unify_nogen in U2; [| constructor; [|constructor]; simpl; tauto].
    split. repeat apply nogen_subst_app; auto. simpl; auto.
  - inv H. split; simpl; auto. constructor.
  - apply infer_fcons_inv in H as (s1 & t1 & n1 & s2 & t2 & _ & _ & H1 & H2 & -> & ->).
    apply IHe1 in H1 as [A1 B1]. apply IHe2 in H2 as [A2 B2].
    split. apply nogen_subst_app; auto. simpl; split; auto. apply nogen_apply; auto.
  - apply infer_proj_inv in H as (s1 & t1 & n1 & u & H1 & U & -> & ->).
    apply IHe in H1 as [A1 B1].
    apply unify_nogen in U; [| constructor; [|constructor]; simpl; tauto].
    split. apply nogen_subst_app; auto. apply nogen_apply; simpl; auto.
  - inv H. split; simpl; auto. constructor.
  - apply infer_acons_inv in H as (s1 & t1 & n1 & s2 & t2 & n2 & u & _ & H1 & H2 & U & -> & ->).
    apply IHe1 in H1 as [A1 B1]. apply IHe2 in H2 as [A2 B2].
    apply unify_nogen in U; [| constructor; [|constructor]; simpl; split; auto; apply nogen_apply; auto].
    split. repeat apply nogen_subst_app; auto. apply nogen_apply; auto.
Qed.


(* ------------------------------------------------------------------ substitution in derivations *)

Definition dsubst (f : nat -> ty) (D : denv) : denv :=
  map (fun p => (fst p, match snd p with DMono t => DMono (tsubst f t) | DPoly e => DPoly e end)) D.

Definition dapply (s : subst) (D : denv) : denv := dsubst (sfun s) D.

Definition tsubst_env (f : nat -> ty) (G : env) : env := map (fun p => (fst p, tsubst f (snd p))) G.

Lemma apply_env_tsubst : forall s G, apply_env s G = tsubst_env (sfun s) G.
Proof. intros. unfold apply_env, tsubst_env. apply map_ext. intros [x t]; simpl. rewrite apply_tsubst; auto. Qed.

Lemma has_type_subst : forall cv D e t,
  has_type_gen cv D e t -> forall ff, has_type_gen cv (dsubst ff D) e (tsubst ff t).
Proof.
  induction 1; intros ff; simpl; try solve [econstructor; eauto].
  - eapply T_Lam. apply (IHhas_type_gen ff).
  - eapply T_Let. apply IHhas_type_gen1. apply (IHhas_type_gen2 ff).
  - apply T_Fix. apply (IHhas_type_gen ff).
  - apply T_If. apply (IHhas_type_gen1 ff). apply IHhas_type_gen2. apply IHhas_type_gen3.
  - apply T_Eq. apply (IHhas_type_gen1 ff). apply (IHhas_type_gen2 ff).
  - eapply T_Conv; eauto. apply teq_tsubst; auto.
Qed.

Lemma dsubst_comp : forall f g D, dsubst f (dsubst g D) = dsubst (fun x => tsubst f (g x)) D.
Proof.
  intros. unfold dsubst. rewrite map_map. apply map_ext. intros [x [t|e]]; simpl; auto.
  rewrite tsubst_comp. reflexivity.
Qed.

Lemma dsubst_id : forall D, dsubst TVar D = D.
Proof.
  induction D as [|[x [t|e]] D]; simpl; auto.
  - rewrite tsubst_id. f_equal. apply IHD.
  - f_equal. apply IHD.
Qed.

Lemma dsubst_ext : forall f g D, (forall x, f x = g x) -> dsubst f D = dsubst g D.
Proof.
  intros. unfold dsubst. apply map_ext. intros [x [t|e]]; simpl; auto.
  rewrite (tsubst_ext f g); auto.
Qed.

Fixpoint dftv (D : denv) : list nat :=
  match D with
  | [] => []
  | (_, DMono t) :: D' => ftv t ++ dftv D'
  | (_, DPoly _) :: D' => dftv D'
  end.

Lemma dsubst_ext_in : forall f g D, (forall x, In x (dftv D) -> f x = g x) -> dsubst f D = dsubst g D.
Proof.
  induction D as [|[x [t|e]] D]; simpl; intros H; auto.
  - rewrite IHD. rewrite (tsubst_ext_in f g); auto.
    + intros; apply H; apply in_or_app; auto.
    + intros; apply H; apply in_or_app; auto.
  - rewrite IHD; auto.
Qed.

Lemma sfun_nil : forall x, sfun [] x = TVar x.
Proof. reflexivity. Qed.

Lemma sfun_app : forall s1 s2 x, sfun (s1 ++ s2) x = tsubst (sfun s2) (sfun s1 x).
Proof. intros. unfold sfun. rewrite apply_app. apply apply_tsubst. Qed.

Lemma dapply_nil : forall D, dapply [] D = D.
Proof. intros. unfold dapply. rewrite (dsubst_ext (sfun []) TVar); auto. apply dsubst_id. Qed.

Lemma dapply_app : forall s1 s2 D, dapply (s1 ++ s2) D = dapply s2 (dapply s1 D).
Proof.
  intros. unfold dapply. rewrite dsubst_comp. apply dsubst_ext. intros; apply sfun_app.
Qed.

Lemma has_type_apply : forall cv s D e t,
  has_type_gen cv D e t -> has_type_gen cv (dapply s D) e (apply s t).
Proof. intros. rewrite apply_tsubst. apply has_type_subst; auto. Qed.

(* ------------------------------------------------------------------ environments *)

Inductive env_rel : env -> denv -> Prop :=
| ER_nil : env_rel [] []
| ER_mono G D x t : nogen t -> env_rel G D -> env_rel ((x, t) :: G) ((x, DMono t) :: D)
| ER_poly G D x sc e :
    env_rel G D ->
    (forall th ro, nogen_fun th -> has_type (dsubst th D) e (tinst ro (tsubst th sc))) ->
    env_rel ((x, sc) :: G) ((x, DPoly e) :: D).

Lemma env_rel_subst : forall G D th,
  env_rel G D -> nogen_fun th -> env_rel (tsubst_env th G) (dsubst th D).
Proof.
  induction 1; intros N; simpl.
  - constructor.
  - constructor; auto. apply nogen_tsubst; auto.
  - constructor; auto.
    intros th' ro N'. rewrite dsubst_comp, tsubst_comp. apply H0.
    intros y. apply nogen_tsubst; auto.
Qed.

Lemma env_rel_apply : forall G D s,
  env_rel G D -> nogen_subst s -> env_rel (apply_env s G) (dapply s D).
Proof. intros. rewrite apply_env_tsubst. apply env_rel_subst; auto. apply nogen_sfun; auto. Qed.

Lemma env_rel_ftv : forall G D, env_rel G D -> incl (dftv D) (ftv_env G).
Proof.
  induction 1; simpl.
  - apply incl_refl.
  - unfold ftv_env; simpl. apply incl_app_app; auto. apply incl_refl.
  - unfold ftv_env; simpl. apply incl_appr; auto.
Qed.

Lemma nogen_fun_var : nogen_fun TVar.
Proof. intros x; simpl; auto. Qed.

Lemma env_rel_lookup : forall G D x sc ro,
  env_rel G D -> lookup x G = Some sc -> has_type D (EVar x) (tinst ro sc).
Proof.
  induction 1; simpl; intros L; try discriminate.
  - destruct (x =? x0) eqn:E.
    + apply Nat.eqb_eq in E; subst. inv L. rewrite nogen_tinst_id; auto. apply T_VarMono.
    + apply Nat.eqb_neq in E. apply T_VarSkip; auto. apply IHenv_rel; auto.
  - destruct (x =? x0) eqn:E.
    + apply Nat.eqb_eq in E; subst. inv L. apply T_VarPoly.
      specialize (H0 TVar ro nogen_fun_var). rewrite dsubst_id, tsubst_id in H0. exact H0.
    + apply Nat.eqb_neq in E. apply T_VarSkip; auto. apply IHenv_rel; auto.
Qed.

(* ------------------------------------------------------------------ generalisation *)

Lemma memb_In : forall x l, memb x l = true <-> In x l.
Proof.
  induction l; simpl; split; intros H; try discriminate; try tauto.
  - apply orb_true_iff in H as [H|H].
    + apply Nat.eqb_eq in H; auto.
    + right; apply IHl; auto.
  - apply orb_true_iff. destruct H as [H|H].
    + left; apply Nat.eqb_eq; auto.
    + right; apply IHl; auto.
Qed.

Lemma index_of_In : forall x l i, index_of x l = Some i -> In x l.
Proof.
  induction l; simpl; intros i H; try discriminate.
  destruct (x =? a) eqn:E.
  - apply Nat.eqb_eq in E; auto.
  - destruct (index_of x l); try discriminate. right. eapply IHl; eauto.
Qed.

Definition mix (gs : list nat) (th ro : nat -> ty) : nat -> ty :=
  fun x => match index_of x gs with Some i => ro i | None => th x end.

Lemma gen_inst : forall gs th ro t,
  nogen t -> nogen_fun th ->
  tinst ro (tsubst th (tsubst (gen_fun gs) t)) = tsubst (mix gs th ro) t.
Proof.
  induction t; simpl; intros N Nth; auto; try tauto.
  - unfold gen_fun, mix. destruct (index_of n gs); simpl; auto.
    apply nogen_tinst_id. apply Nth.
  - destruct N; rewrite IHt1, IHt2; auto.
  - rewrite IHt; auto.
  - destruct N; rewrite IHt1, IHt2; auto.
Qed.

Lemma gen_vars_not_env : forall G t x, In x (gen_vars G t) -> ~ In x (ftv_env G).
Proof.
  unfold gen_vars; intros G t x H. apply filter_In in H as [_ H].
  apply negb_true_iff in H. intros I. apply memb_In in I. congruence.
Qed.

Lemma env_rel_gen : forall G D e t,
  env_rel G D -> nogen t -> has_type D e t ->
  forall th ro, nogen_fun th -> has_type (dsubst th D) e (tinst ro (tsubst th (gen G t))).
Proof.
  intros G D e t R N H th ro Nth.
  unfold gen. rewrite gen_inst; auto.
  rewrite (dsubst_ext_in th (mix (gen_vars G t) th ro) D).
  - apply has_type_subst; auto.
  - intros x I. unfold mix.
    destruct (index_of x (gen_vars G t)) eqn:E; auto.
    exfalso. apply index_of_In in E. apply gen_vars_not_env in E. apply E.
    eapply env_rel_ftv; eauto.
Qed.

(* ------------------------------------------------------------------ soundness of W *)

Lemma unify_sound1 : forall fuel n a b u n',
  unify fuel n [(a, b)] = Ok (u, n') -> teq (apply u a) (apply u b).
Proof. intros. apply unify_sound in H. inv H. exact H2. Qed.

Theorem infer_sound_gen : forall e fuel G D n s t n',
  env_rel G D -> infer fuel G e n = Ok (s, t, n') -> has_type (dapply s D) e t.
Proof.
  unfold has_type.
  induction e; intros fuel G D n0 s t n' R H.
  - inv H. apply T_Int.
  - inv H. apply T_Str.
  - apply infer_var_inv in H as (sc & L & -> & -> & _). rewrite dapply_nil.
    eapply env_rel_lookup; eauto.
  - apply infer_lam_inv in H as (t1 & H & ->).
    eapply IHe in H; [| apply ER_mono; [|exact R]; simpl; auto].
    apply T_Lam. exact H.
  - apply infer_app_inv in H as (s1 & t1 & n1 & s2 & t2 & n2 & u & H1 & H2 & H3 & -> & ->).
    pose proof (infer_nogen _ _ _ _ _ _ _ H1) as [N1 _].
    eapply IHe1 in H1; eauto.
    eapply IHe2 in H2; [| apply env_rel_apply; eauto].
    apply unify_sound1 in H3. rewrite apply_fun in H3.
    rewrite !dapply_app.
    eapply T_App.
    + eapply T_Conv; [reflexivity | exact H3 |]. repeat apply has_type_apply. exact H1.
    + apply has_type_apply. exact H2.
  - apply infer_let_inv in H as (s1 & t1 & n1 & s2 & H1 & H2 & ->).
    pose proof (infer_nogen _ _ _ _ _ _ _ H1) as [N1 Nt1].
    eapply IHe1 in H1; eauto.
    assert (R1 : env_rel (apply_env s1 G) (dapply s1 D)) by (apply env_rel_apply; auto).
    eapply IHe2 in H2.
    2:{ apply ER_poly. exact R1. intros th ro Nth. eapply env_rel_gen; eauto. }
    rewrite dapply_app.
    eapply T_Let.
    + apply has_type_apply. exact H1.
    + exact H2.
  - apply infer_fix_inv in H as (s1 & t1 & n1 & u & H1 & H2 & -> & ->).
    eapply IHe in H1.
    2:{ apply ER_mono; [simpl; auto|]. apply ER_mono; [simpl; auto|]. exact R. }
    apply unify_sound1 in H2.
    rewrite dapply_app. rewrite !apply_fun.
    apply T_Fix.
    eapply T_Conv; [reflexivity | apply teq_sym; exact H2 |].
    apply (has_type_apply true u) in H1.
    unfold dapply at 1 in H1. unfold dapply at 1 in H1. simpl in H1. rewrite <- !apply_tsubst in H1.
    unfold sfun in H1. exact H1.
  - apply infer_if_inv in H as (s0 & t0 & n00 & u0 & m0 & s1 & t1 & n1 & s2 & t2 & n2 & u & H0 & U0 & H1 & H2 & U & -> & ->).
    pose proof (infer_nogen _ _ _ _ _ _ _ H0) as [N0 Nt0].
    pose proof (infer_nogen _ _ _ _ _ _ _ H1) as [N1 Nt1].
    assert (NU0 : nogen_subst u0).
    { eapply unify_nogen; [| exact U0]. constructor; [|constructor]. simpl; auto. }
    eapply IHe1 in H0; eauto.
    assert (R0 : env_rel (apply_env (s0 ++ u0) G) (dapply (s0 ++ u0) D)).
    { apply env_rel_apply; auto. apply nogen_subst_app; auto. }
    eapply IHe2 in H1; eauto.
    eapply IHe3 in H2; [| apply env_rel_apply; eauto].
    apply unify_sound1 in U0. apply unify_sound1 in U.
    rewrite !dapply_app in *.
    apply T_If.
    + unfold tbool in *. rewrite apply_con in U0.
      assert (X : has_type_gen true (dapply u0 (dapply s0 D)) e1 (TCon 2)).
      { eapply T_Conv; [reflexivity | exact U0 |]. apply has_type_apply. exact H0. }
      apply (has_type_apply true s1) in X. apply (has_type_apply true s2) in X.
      apply (has_type_apply true u) in X. rewrite !apply_con in X. exact X.
    + eapply T_Conv; [reflexivity | exact U |]. repeat apply has_type_apply. exact H1.
    + apply has_type_apply. exact H2.
  - apply infer_eq_inv in H as (s1 & t1 & n1 & u1 & m1 & s2 & t2 & n2 & u2 & H1 & U1 & H2 & U2 & -> & ->).
    pose proof (infer_nogen _ _ _ _ _ _ _ H1) as [N1 Nt1].
    assert (NU1 : nogen_subst u1).
    { eapply unify_nogen; [| exact U1]. constructor; [|constructor]. simpl; auto. }
    eapply IHe1 in H1; eauto.
    eapply IHe2 in H2; [| apply env_rel_apply; eauto; apply nogen_subst_app; auto].
    apply unify_sound1 in U1. apply unify_sound1 in U2.
    rewrite !dapply_app in *.
    apply T_Eq.
    + unfold tint in *. rewrite apply_con in U1.
      assert (X : has_type_gen true (dapply u1 (dapply s1 D)) e1 (TCon 0)).
      { eapply T_Conv; [reflexivity | exact U1 |]. apply has_type_apply. exact H1. }
      apply (has_type_apply true s2) in X. apply (has_type_apply true u2) in X.
      rewrite !apply_con in X. exact X.
    + unfold tint in *. rewrite apply_con in U2.
      eapply T_Conv; [reflexivity | exact U2 |]. apply has_type_apply. exact H2.
  - inv H. apply T_FNil.
  - apply infer_fcons_inv in H as (s1 & t1 & n1 & s2 & t2 & F1 & F2 & H1 & H2 & -> & ->).
    pose proof (infer_nogen _ _ _ _ _ _ _ H1) as [N1 Nt1].
    eapply IHe1 in H1; eauto.
    eapply IHe2 in H2; [| apply env_rel_apply; eauto].
    rewrite dapply_app. apply T_FCons; auto. apply has_type_apply; auto.
  - apply infer_proj_inv in H as (s1 & t1 & n1 & u & H1 & U & -> & ->).
    eapply IHe in H1; eauto. apply unify_sound1 in U. rewrite apply_cons in U.
    rewrite dapply_app. eapply T_Proj.
    eapply T_Conv; [reflexivity | exact U |]. apply has_type_apply. exact H1.
  - inv H. apply T_ANil.
  - apply infer_acons_inv in H as (s1 & t1 & n1 & s2 & t2 & n2 & u & F & H1 & H2 & U & -> & ->).
    pose proof (infer_nogen _ _ _ _ _ _ _ H1) as [N1 Nt1].
    eapply IHe1 in H1; eauto.
    eapply IHe2 in H2; [| apply env_rel_apply; eauto].
    apply unify_sound1 in U. rewrite apply_array in U.
    rewrite !dapply_app.
    eapply T_Conv; [reflexivity | exact U |].
    apply T_ACons; auto.
    + repeat apply has_type_apply. exact H1.
    + eapply T_Conv; [reflexivity | apply teq_sym; exact U |]. apply has_type_apply. exact H2.
Qed.

Theorem infer_sound : forall fuel e s t n',
  infer fuel [] e 0 = Ok (s, t, n') -> has_type [] e t.
Proof.
  intros. apply (infer_sound_gen e fuel [] [] 0 s t n' ER_nil) in H. exact H.
Qed.


(* ------------------------------------------------------------------ the triage functions *)

Lemma ty_eqb_eq : forall t u, ty_eqb t u = true -> t = u.
Proof.
  induction t; destruct u; simpl; intros H; try discriminate.
  - apply Nat.eqb_eq in H; congruence.
  - apply Nat.eqb_eq in H; congruence.
  - apply Nat.eqb_eq in H; congruence.
  - apply andb_true_iff in H as [A B]. f_equal; auto.
  - f_equal; auto.
  - reflexivity.
  - apply andb_true_iff in H as [A B]. apply andb_true_iff in A as [A1 A2].
    apply Nat.eqb_eq in A1. f_equal; auto.
Qed.

Definition extends (m m' : subst) : Prop := forall x u, mlookup x m = Some u -> mlookup x m' = Some u.

Lemma extends_refl : forall m, extends m m.
Proof. intros m x u H; auto. Qed.
Lemma extends_trans : forall a b c, extends a b -> extends b c -> extends a c.
Proof. intros a b c H1 H2 x u H; auto. Qed.

Definition covers (m : subst) (t : ty) : Prop := forall x, In x (ftv t) -> mlookup x m <> None.

Lemma covers_extends : forall m m' t, covers m t -> extends m m' -> covers m' t.
Proof.
  intros m m' t C E x I. specialize (C x I). destruct (mlookup x m) eqn:L; try congruence.
  rewrite (E _ _ L). discriminate.
Qed.

Lemma msubst_stable : forall m m' t, covers m t -> extends m m' -> tsubst (msubst m') t = tsubst (msubst m) t.
Proof.
  intros m m' t C E. apply tsubst_ext_in. intros x I. unfold msubst.
  specialize (C x I). destruct (mlookup x m) eqn:L; try congruence. rewrite (E _ _ L). reflexivity.
Qed.

Lemma tmatch_sound : forall p t m m',
  tmatch p t m = Some m' ->
  extends m m' /\ covers m' p /\ teq (tsubst (msubst m') p) t.
Proof.
  induction p; simpl; intros t m m' H.
  - destruct (mlookup n m) eqn:L.
    + destruct (ty_eqb t0 t) eqn:E; try discriminate. inv H. apply ty_eqb_eq in E; subst.
      split; [apply extends_refl|]. split.
      * intros x [<-|[]]. congruence.
      * simpl. unfold msubst. rewrite L. apply teq_refl.
    + inv H. split; [|split].
      * intros x u Hx. simpl. destruct (x =? n) eqn:E; auto. apply Nat.eqb_eq in E; subst. congruence.
      * intros x [<-|[]]. simpl. rewrite Nat.eqb_refl. discriminate.
      * simpl. unfold msubst; simpl. rewrite Nat.eqb_refl. apply teq_refl.
  - destruct t; try discriminate. destruct (k =? k0) eqn:E; try discriminate. inv H.
    apply Nat.eqb_eq in E; subst. split; [apply extends_refl|]. split; [intros x []| apply teq_refl].
  - destruct t; try discriminate. destruct (c =? c0) eqn:E; try discriminate. inv H.
    apply Nat.eqb_eq in E; subst. split; [apply extends_refl|]. split; [intros x []| apply teq_refl].
  - destruct t; try discriminate.
    destruct (tmatch p1 t1 m) as [m1|] eqn:M1; try discriminate.
    apply IHp1 in M1 as (E1 & C1 & T1). apply IHp2 in H as (E2 & C2 & T2).
    split; [eapply extends_trans; eauto|]. split.
    + intros x I. apply in_app_or in I as [I|I]; [exact (covers_extends _ _ _ C1 E2 x I) | apply C2; auto].
    + apply teq_fun; auto. rewrite (msubst_stable m1 m'); auto.
  - destruct t; try discriminate.
    apply IHp in H as (E1 & C1 & T1). split; auto. split; auto. apply teq_array; auto.
  - destruct t; try discriminate. inv H.
    split; [apply extends_refl|]. split; [intros x []| apply teq_refl].
  - destruct (extract l RNil t) eqn:X; try discriminate.
    destruct (tmatch p1 a m) as [m1|] eqn:M1; try discriminate.
    apply IHp1 in M1 as (E1 & C1 & T1). apply IHp2 in H as (E2 & C2 & T2).
    apply extract_found in X.
    split; [eapply extends_trans; eauto|]. split.
    + intros x I. apply in_app_or in I as [I|I]; [exact (covers_extends _ _ _ C1 E2 x I) | apply C2; auto].
    + eapply teq_trans; [| apply teq_sym; exact X].
      apply teq_cons; auto. rewrite (msubst_stable m1 m'); auto.
Qed.

(* [instance_of g t = true]: t is a substitution instance of g up to the order of record fields *)
Theorem instance_of_sound : forall g t,
  instance_of g t = true -> exists th, teq (tsubst th g) t.
Proof.
  unfold instance_of; intros g t H. destruct (tmatch g t []) as [m|] eqn:M; try discriminate.
  apply tmatch_sound in M as (_ & _ & T). eauto.
Qed.

Theorem alpha_eq_sound : forall t u,
  alpha_eq t u = true ->
  (exists th, teq (tsubst th t) u) /\ (exists th, teq (tsubst th u) t).
Proof.
  unfold alpha_eq; intros t u H. apply andb_true_iff in H as [A B].
  split; apply instance_of_sound; auto.
Qed.

(* canonical form *)
Lemma row_insert_teq : forall l a r, teq (row_insert l a r) (RCons l a r).
Proof.
  induction r; simpl; try apply teq_refl.
  destruct (l0 <? l) eqn:E; try apply teq_refl.
  apply Nat.ltb_lt in E.
  eapply teq_trans. apply teq_cons. apply teq_refl. apply IHr2.
  apply teq_swap. lia.
Qed.

Lemma sort_rows_teq : forall t, teq (sort_rows t) t.
Proof.
  induction t; simpl; try apply teq_refl.
  - apply teq_fun; auto.
  - apply teq_array; auto.
  - eapply teq_trans. apply row_insert_teq. apply teq_cons; auto.
Qed.

Lemma dedup_In : forall l seen x, In x l -> In x seen \/ In x (dedup seen l).
Proof.
  induction l; simpl; intros seen x H; try tauto.
  destruct H as [<-|H].
  - destruct (memb a seen) eqn:M.
    + left. apply memb_In; auto.
    + right. left; auto.
  - destruct (memb a seen) eqn:M.
    + apply IHl; auto.
    + destruct (IHl (a :: seen) x H) as [[<-|I]|I]; simpl; auto.
Qed.

Lemma index_of_nth : forall x l i, index_of x l = Some i -> nth i l 0 = x.
Proof.
  induction l; simpl; intros i H; try discriminate.
  destruct (x =? a) eqn:E.
  - inv H. apply Nat.eqb_eq in E; auto.
  - destruct (index_of x l) eqn:I; try discriminate. inv H. simpl. auto.
Qed.

Lemma In_index_of : forall x l, In x l -> exists i, index_of x l = Some i.
Proof.
  induction l; simpl; intros H; try tauto.
  destruct (x =? a) eqn:E; eauto.
  destruct H as [->|H]. { rewrite Nat.eqb_refl in E; discriminate. }
  destruct (IHl H) as [i ->]. simpl; eauto.
Qed.

(* [canon t] and t are renamings of each other, up to the order of record fields *)
Theorem canon_alpha : forall t,
  (exists r, teq (tsubst r t) (canon t)) /\ (exists r', teq (tsubst r' (canon t)) t).
Proof.
  intros t. unfold canon.
  set (t' := sort_rows t). set (vs := dedup [] (ftv t')).
  split.
  - exists (rename_fun vs). apply teq_tsubst. apply teq_sym. apply sort_rows_teq.
  - exists (fun i => TVar (nth i vs 0)).
    rewrite tsubst_comp.
    rewrite (tsubst_ext_in _ TVar t').
    + rewrite tsubst_id. apply sort_rows_teq.
    + intros x I. unfold rename_fun.
      destruct (dedup_In (ftv t') [] x I) as [[]|I'].
      destruct (In_index_of x vs I') as [i E]. rewrite E. simpl.
      f_equal. apply index_of_nth; auto.
Qed.


(* ------------------------------------------------------------------ fresh variables *)

Definition below (n : nat) (t : ty) : Prop := forall x, In x (ftv t) -> x < n.
Definition env_below (G : env) (n : nat) : Prop := forall x, In x (ftv_env G) -> x < n.
Definition eqs_below (n : nat) (eqs : list (ty * ty)) : Prop :=
  Forall (fun p => below n (fst p) /\ below n (snd p)) eqs.
Definition new_sub (n : nat) (s : subst) : Prop :=
  (forall x, x < n -> below n (sfun s x)) /\ (forall x, n <= x -> sfun s x = TVar x).

Lemma below_mono : forall n m t, below n t -> n <= m -> below m t.
Proof. intros n m t H L x I. specialize (H x I). lia. Qed.

Lemma below_fun : forall n a b, below n (TFun a b) <-> below n a /\ below n b.
Proof.
  unfold below; simpl; split.
  - intros H; split; intros x I; apply H; apply in_or_app; auto.
  - intros [A B] x I. apply in_app_or in I as [I|I]; auto.
Qed.
Lemma below_cons : forall n l a b, below n (RCons l a b) <-> below n a /\ below n b.
Proof.
  unfold below; simpl; split.
  - intros H; split; intros x I; apply H; apply in_or_app; auto.
  - intros [A B] x I. apply in_app_or in I as [I|I]; auto.
Qed.
Lemma below_array : forall n a, below n (TArray a) <-> below n a.
Proof. unfold below; simpl; tauto. Qed.
Lemma below_var : forall n x, below n (TVar x) <-> x < n.
Proof. unfold below; simpl; split. intros H; apply H; auto. intros H y [<-|[]]; auto. Qed.
Lemma below_con : forall n c, below n (TCon c).
Proof. intros n c x []. Qed.
Lemma below_nil : forall n, below n RNil.
Proof. intros n x []. Qed.

Lemma ftv_tsubst : forall f t x, In x (ftv (tsubst f t)) -> exists y, In y (ftv t) /\ In x (ftv (f y)).
Proof.
  induction t; simpl; intros x I; try tauto.
  - exists n; auto.
  - apply in_app_or in I as [I|I]; [apply IHt1 in I | apply IHt2 in I];
      destruct I as (y & A & B); exists y; split; auto; apply in_or_app; auto.
  - auto.
  - apply in_app_or in I as [I|I]; [apply IHt1 in I | apply IHt2 in I];
      destruct I as (y & A & B); exists y; split; auto; apply in_or_app; auto.
Qed.

Lemma below_tsubst : forall n f t, below n t -> (forall x, x < n -> below n (f x)) -> below n (tsubst f t).
Proof.
  intros n f t B F x I. apply ftv_tsubst in I as (y & A & C). eapply F; eauto.
Qed.

Lemma below_subst1 : forall n x u t, below n u -> below n t -> below n (subst1 x u t).
Proof.
  intros. apply below_tsubst; auto. intros y L. unfold single. destruct (x =? y); auto.
  apply below_var; auto.
Qed.

Lemma below_apply : forall n s t, new_sub n s -> below n t -> below n (apply s t).
Proof. intros n s t [A _] B. rewrite apply_tsubst. apply below_tsubst; auto. Qed.

Lemma new_sub_nil : forall n, new_sub n [].
Proof. intros n; split; intros x L; unfold sfun; simpl; auto. apply below_var; auto. Qed.

Lemma new_sub_mono : forall n m s, new_sub n s -> n <= m -> new_sub m s.
Proof.
  intros n m s [A B] L; split; intros x Lx.
  - destruct (Nat.lt_ge_cases x n) as [C|C].
    + eapply below_mono; eauto.
    + rewrite B; auto. apply below_var; auto.
  - apply B; lia.
Qed.

Lemma sfun_app' : forall s1 s2 x, sfun (s1 ++ s2) x = tsubst (sfun s2) (sfun s1 x).
Proof. intros. unfold sfun. rewrite apply_app. apply apply_tsubst. Qed.

Lemma new_sub_app : forall n s1 s2, new_sub n s1 -> new_sub n s2 -> new_sub n (s1 ++ s2).
Proof.
  intros n s1 s2 [A1 B1] [A2 B2]; split; intros x L; rewrite sfun_app'.
  - apply below_tsubst; auto.
  - rewrite B1; auto. simpl. apply B2; auto.
Qed.

Lemma new_sub_cons : forall n x u s, x < n -> below n u -> new_sub n s -> new_sub n ((x, u) :: s).
Proof.
  intros n x u s L B [A1 A2].
  assert (E : forall y, sfun ((x, u) :: s) y = if x =? y then apply s u else sfun s y).
  { intros y. unfold sfun; simpl. unfold subst1; simpl. unfold single. destruct (x =? y); auto. }
  split; intros y Ly; rewrite E.
  - destruct (x =? y); auto. apply below_apply; auto. split; auto.
  - destruct (x =? y) eqn:Q. apply Nat.eqb_eq in Q; lia. apply A2; auto.
Qed.

Lemma eqs_below_subst : forall n x u eqs, below n u -> eqs_below n eqs -> eqs_below n (subst_eqs x u eqs).
Proof.
  unfold eqs_below, subst_eqs; intros. rewrite Forall_map. eapply Forall_impl; [|eassumption].
  simpl; intros p [A B]; split; apply below_subst1; auto.
Qed.

Lemma eqs_below_mono : forall n m eqs, eqs_below n eqs -> n <= m -> eqs_below m eqs.
Proof.
  unfold eqs_below; intros. eapply Forall_impl; [|eassumption].
  simpl; intros p [A B]; split; eapply below_mono; eauto.
Qed.

Lemma below_extract : forall n l d row,
  below n row -> below n d ->
  match extract l d row with
  | ExFound a r => below n a /\ below n r
  | ExTail b r => b < n /\ below n r
  | ExNone => True
  end.
Proof.
  induction row; simpl; intros Hr Hd; auto.
  - split; auto. apply below_var in Hr; auto.
  - apply below_cons in Hr as [Ha Hr].
    destruct (l =? l0); auto.
    specialize (IHrow2 Hr Hd). destruct (extract l d row2); simpl; auto.
    + destruct IHrow2; split; auto. apply below_cons; auto.
    + destruct IHrow2; split; auto. apply below_cons; auto.
Qed.

Lemma unify_fresh : forall fuel n eqs s n',
  eqs_below n eqs -> unify fuel n eqs = Ok (s, n') -> n <= n' /\ new_sub n' s.
Proof.
  induction fuel as [|fuel IH]; intros n eqs s n' N H; simpl in H; try discriminate.
  destruct eqs as [|[t1 t2] rest].
  { inv H. split; auto. apply new_sub_nil. }
  inv N. simpl in H2. destruct H2 as [N1 N2]. rename H3 into NR.
  assert (BIND : forall x u, x < n -> below n u ->
    (if occurs x u then Fail else
       match unify fuel n (subst_eqs x u rest) with
       | Ok (s0, n0) => Ok ((x, u) :: s0, n0) | Fail => Fail | OutOfFuel => OutOfFuel end) = Ok (s, n') ->
    n <= n' /\ new_sub n' s).
  { intros x u Lx Nu Hb. destruct (occurs x u); try discriminate.
    destruct (unify fuel n (subst_eqs x u rest)) as [[s0 n0]| |] eqn:E; try discriminate.
    inv Hb. apply IH in E as [L S]; [| apply eqs_below_subst; auto].
    split; auto. apply new_sub_cons; auto. lia. eapply below_mono; eauto. }
  Ltac usebind3 BIND H :=
    match type of H with
    | (if occurs ?x ?u then _ else _) = _ => apply (BIND x u); [ | | exact H]
    end.
  destruct t1, t2; try discriminate;
    try (usebind3 BIND H; [apply below_var; auto | auto]; fail).
  - destruct (n0 =? n1).
    + eapply IH; eauto.
    + usebind3 BIND H; [apply below_var; auto | auto].
  - destruct (k =? k0); try discriminate. eapply IH; eauto.
  - destruct (c =? c0); try discriminate. eapply IH; eauto.
  - apply below_fun in N1 as [? ?]. apply below_fun in N2 as [? ?].
    eapply IH; [| exact H]. repeat (constructor; simpl; auto).
  - apply below_array in N1. apply below_array in N2.
    eapply IH; [| exact H]. repeat (constructor; simpl; auto).
  - eapply IH; eauto.
  - pose proof N2 as N2'.
    apply below_cons in N1 as [? ?]. apply below_cons in N2 as [? ?].
    destruct (l =? l0).
    + eapply IH; [| exact H]. repeat (constructor; simpl; auto).
    + destruct (row_closed t1_2 && row_closed t2_2); try discriminate.
      pose proof (below_extract (S n) l (TVar n) (RCons l0 t2_1 t2_2)) as X.
      destruct (extract l (TVar n) (RCons l0 t2_1 t2_2)) eqn:EX; try discriminate.
      * pose proof (below_extract n l RNil (RCons l0 t2_1 t2_2) N2' (below_nil n)) as Y.
        assert (EX' : exists r', extract l RNil (RCons l0 t2_1 t2_2) = ExFound a r /\ r' = r).
        { exists r; split; auto.
          clear - EX. revert a r EX. generalize (RCons l0 t2_1 t2_2) as row.
          induction row; simpl; intros a r EX; try discriminate.
          destruct (l =? l1); auto.
          destruct (extract l (TVar n) row2) eqn:Q; try discriminate.
          inv EX. erewrite IHrow2; eauto. }
        destruct EX' as (r' & EX' & _). rewrite EX' in Y. destruct Y.
        eapply IH; [| exact H]. repeat (constructor; simpl; auto).
      * destruct ((b =? n) || occurs b t1_1 || row_tail_is b t1_2); try discriminate.
        match type of H with context [unify ?f ?m ?e] =>
          destruct (unify f m e) as [[s0 n0]| |] eqn:U; try discriminate end.
        inv H.
        destruct X as [Lb Br].
        { eapply below_mono; eauto. }
        { apply below_var; auto. }
        assert (Bu : below (S n) (RCons l t1_1 (TVar n))).
        { apply below_cons; split. eapply below_mono; eauto. apply below_var; auto. }
        apply IH in U as [L S].
        2:{ change (eqs_below (S n) (subst_eqs b (RCons l t1_1 (TVar n)) ((t1_2, r) :: rest))).
            apply eqs_below_subst; auto.
            constructor; simpl. split; auto. eapply below_mono; eauto.
            eapply eqs_below_mono; eauto. }
        split. lia. apply new_sub_cons; auto. lia. eapply below_mono; eauto.
Qed.


Lemma env_below_cons : forall x t G n, env_below ((x, t) :: G) n <-> below n t /\ env_below G n.
Proof.
  unfold env_below, ftv_env, below; simpl; split.
  - intros H; split; intros y I; apply H; apply in_or_app; auto.
  - intros [A B] y I. apply in_app_or in I as [I|I]; auto.
Qed.

Lemma env_below_mono : forall G n m, env_below G n -> n <= m -> env_below G m.
Proof. intros G n m H L x I. specialize (H x I). lia. Qed.

Lemma env_below_apply : forall s G m, env_below G m -> new_sub m s -> env_below (apply_env s G) m.
Proof.
  induction G as [|[x t] G]; intros m B S; simpl.
  - intros y [].
  - apply env_below_cons in B as [B1 B2]. apply env_below_cons. split; auto.
    apply below_apply; auto.
Qed.

Lemma lookup_below : forall x G n sc, env_below G n -> lookup x G = Some sc -> below n sc.
Proof.
  induction G as [|[y t] G]; simpl; intros n sc B L; try discriminate.
  apply env_below_cons in B as [B1 B2].
  destruct (x =? y). inv L; auto. eauto.
Qed.

Lemma ftv_tinst_fresh : forall n sc x,
  In x (ftv (tinst (fresh_inst n) sc)) -> In x (ftv sc) \/ (n <= x < n + gen_bound sc).
Proof.
  induction sc; simpl; intros x I; try tauto.
  - destruct I as [<-|[]]. right. unfold fresh_inst. lia.
  - apply in_app_or in I as [I|I]; [apply IHsc1 in I | apply IHsc2 in I]; destruct I as [I|I];
      try (left; apply in_or_app; auto; fail); right; lia.
  - auto.
  - apply in_app_or in I as [I|I]; [apply IHsc1 in I | apply IHsc2 in I]; destruct I as [I|I];
      try (left; apply in_or_app; auto; fail); right; lia.
Qed.

Lemma below_tinst_fresh : forall n sc, below n sc -> below (n + gen_bound sc) (tinst (fresh_inst n) sc).
Proof.
  intros n sc B x I. apply ftv_tinst_fresh in I as [I|I]. specialize (B x I). lia. lia.
Qed.

Lemma ftv_gen : forall G t x, In x (ftv (gen G t)) -> In x (ftv t).
Proof.
  intros G t x I. unfold gen in I. apply ftv_tsubst in I as (y & A & B).
  unfold gen_fun in B. destruct (index_of y (gen_vars G t)); simpl in B; try tauto.
  destruct B as [<-|[]]; auto.
Qed.

Lemma below_gen : forall G t n, below n t -> below n (gen G t).
Proof. intros G t n B x I. apply B. eapply ftv_gen; eauto. Qed.

Lemma eqs_below1 : forall n a b, below n a -> below n b -> eqs_below n [(a, b)].
Proof. intros. constructor; simpl; auto. Qed.

Ltac bl :=
  repeat match goal with
  | |- below _ (TVar _) => apply below_var; lia
  | |- below _ (TCon _) => apply below_con
  | |- below _ tint => apply below_con
  | |- below _ tbool => apply below_con
  | |- below _ tstring => apply below_con
  | |- below _ RNil => apply below_nil
  | |- below _ (TFun _ _) => apply below_fun; split
  | |- below _ (RCons _ _ _) => apply below_cons; split
  | |- below _ (TArray _) => apply below_array
  | |- below _ (apply _ _) => apply below_apply
  | |- new_sub _ (_ ++ _) => apply new_sub_app
  | H : below ?n ?t |- below ?m ?t => apply (below_mono n m t H); lia
  | H : new_sub ?n ?s |- new_sub ?m ?s => apply (new_sub_mono n m s H); lia
  end.

Lemma infer_fresh : forall e fuel G n s t n',
  env_below G n -> infer fuel G e n = Ok (s, t, n') ->
  n <= n' /\ below n' t /\ new_sub n' s.
Proof.
  induction e; intros fuel G n0 s t n' B H.
  - inv H. split; [lia | split; [bl | apply new_sub_nil]].
  - inv H. split; [lia | split; [bl | apply new_sub_nil]].
  - apply infer_var_inv in H as (sc & L & -> & -> & ->).
    split; [lia | split; [apply below_tinst_fresh; eapply lookup_below; eauto | apply new_sub_nil]].
  - apply infer_lam_inv in H as (t1 & H & ->).
    apply IHe in H as (L & Bt & S).
    2:{ apply env_below_cons; split. bl. eapply env_below_mono; eauto. }
    split; [lia | split; [bl | bl]]; auto.
  - apply infer_app_inv in H as (s1 & t1 & n1 & s2 & t2 & n2 & u & H1 & H2 & H3 & -> & ->).
    apply IHe1 in H1 as (L1 & B1 & S1); auto.
    apply IHe2 in H2 as (L2 & B2 & S2).
    2:{ apply env_below_apply; auto. eapply env_below_mono; eauto. }
    apply unify_fresh in H3 as (L3 & S3).
    2:{ apply eqs_below1; bl. }
    split; [lia | split; [bl | bl]]; auto.
  - apply infer_let_inv in H as (s1 & t1 & n1 & s2 & H1 & H2 & ->).
    apply IHe1 in H1 as (L1 & B1 & S1); auto.
    apply IHe2 in H2 as (L2 & B2 & S2).
    2:{ apply env_below_cons; split. apply below_gen; auto.
        apply env_below_apply; auto. eapply env_below_mono; eauto. }
    split; [lia | split; [bl | bl]]; auto.
  - apply infer_fix_inv in H as (s1 & t1 & n1 & u & H1 & H2 & -> & ->).
    apply IHe in H1 as (L1 & B1 & S1).
    2:{ apply env_below_cons; split. bl. apply env_below_cons; split. bl.
        eapply env_below_mono; eauto. }
    apply unify_fresh in H2 as (L2 & S2).
    2:{ apply eqs_below1; bl. }
    split; [lia | split; [bl | bl]]; auto.
  - apply infer_if_inv in H as (s0 & t0 & n00 & u0 & m0 & s1 & t1 & n1 & s2 & t2 & n2 & u & H0 & U0 & H1 & H2 & U & -> & ->).
    apply IHe1 in H0 as (L0 & B0 & S0); auto.
    apply unify_fresh in U0 as (LU0 & SU0).
    2:{ apply eqs_below1; bl. }
    apply IHe2 in H1 as (L1 & B1 & S1).
    2:{ apply env_below_apply. eapply env_below_mono; eauto. lia. bl. }
    apply IHe3 in H2 as (L2 & B2 & S2).
    2:{ apply env_below_apply; auto. apply env_below_apply. eapply env_below_mono; eauto. lia. bl. }
    apply unify_fresh in U as (LU & SU).
    2:{ apply eqs_below1; bl. }
    split; [lia | split; [bl | bl]]; auto.
  - apply infer_eq_inv in H as (s1 & t1 & n1 & u1 & m1 & s2 & t2 & n2 & u2 & H1 & U1 & H2 & U2 & -> & ->).
    apply IHe1 in H1 as (L1 & B1 & S1); auto.
    apply unify_fresh in U1 as (LU1 & SU1).
    2:{ apply eqs_below1; bl. }
    apply IHe2 in H2 as (L2 & B2 & S2).
    2:{ apply env_below_apply. eapply env_below_mono; eauto. lia. bl. }
    apply unify_fresh in U2 as (LU2 & SU2).
    2:{ apply eqs_below1; bl. }
    split; [lia | split; [bl | bl]]; auto.
  - inv H. split; [lia | split; [bl | apply new_sub_nil]].
  - apply infer_fcons_inv in H as (s1 & t1 & n1 & s2 & t2 & _ & _ & H1 & H2 & -> & ->).
    apply IHe1 in H1 as (L1 & B1 & S1); auto.
    apply IHe2 in H2 as (L2 & B2 & S2).
    2:{ apply env_below_apply; auto. eapply env_below_mono; eauto. }
    split; [lia | split; [bl | bl]]; auto.
  - apply infer_proj_inv in H as (s1 & t1 & n1 & u & H1 & U & -> & ->).
    apply IHe in H1 as (L1 & B1 & S1); auto.
    apply unify_fresh in U as (LU & SU).
    2:{ apply eqs_below1; bl. }
    split; [lia | split; [bl | bl]]; auto.
  - inv H. split; [lia | split; [bl | apply new_sub_nil]].
  - apply infer_acons_inv in H as (s1 & t1 & n1 & s2 & t2 & n2 & u & _ & H1 & H2 & U & -> & ->).
    apply IHe1 in H1 as (L1 & B1 & S1); auto.
    apply IHe2 in H2 as (L2 & B2 & S2).
    2:{ apply env_below_apply; auto. eapply env_below_mono; eauto. }
    apply unify_fresh in U as (LU & SU).
    2:{ apply eqs_below1; bl. }
    split; [lia | split; [bl | bl]]; auto.
Qed.


(* ------------------------------------------------------------------ principal types: tools *)

Fixpoint tboth (th ro : nat -> ty) (t : ty) : ty :=
  match t with
  | TVar n => th n
  | TGen k => ro k
  | TCon c => TCon c
  | TFun a b => TFun (tboth th ro a) (tboth th ro b)
  | TArray a => TArray (tboth th ro a)
  | RNil => RNil
  | RCons l a r => RCons l (tboth th ro a) (tboth th ro r)
  end.

Definition comp (th : nat -> ty) (s : subst) : nat -> ty := fun x => tsubst th (sfun s x).
Definition agree (n : nat) (f g : nat -> ty) : Prop := forall x, x < n -> f x = g x.
Definition upd (th : nat -> ty) (k : nat) (v : ty) : nat -> ty := fun x => if x =? k then v else th x.

Lemma tsubst_comp_apply : forall th s t, tsubst (comp th s) t = tsubst th (apply s t).
Proof. intros. rewrite apply_tsubst, tsubst_comp. reflexivity. Qed.

Lemma tsubst_agree : forall n f g t, below n t -> agree n f g -> tsubst f t = tsubst g t.
Proof. intros. apply tsubst_ext_in. intros x I. apply H0. apply H; auto. Qed.

Lemma agree_upd : forall th k v, agree k th (upd th k v).
Proof. intros th k v x L. unfold upd. destruct (x =? k) eqn:E; auto. apply Nat.eqb_eq in E; lia. Qed.

Lemma upd_same : forall th k v, upd th k v k = v.
Proof. intros. unfold upd. rewrite Nat.eqb_refl. reflexivity. Qed.

Lemma agree_mono : forall n m f g, agree m f g -> n <= m -> agree n f g.
Proof. intros n m f g A L x Lx. apply A. lia. Qed.

Lemma agree_nil : forall n th, agree n th (comp th []).
Proof. intros n th x L. reflexivity. Qed.

Lemma agree_step : forall n n1 th th1 th2 s1 s2,
  agree n th (comp th1 s1) -> new_sub n1 s1 -> n <= n1 -> agree n1 th1 (comp th2 s2) ->
  agree n th (comp th2 (s1 ++ s2)).
Proof.
  intros n n1 th th1 th2 s1 s2 A1 [S1 _] L A2 x Lx.
  rewrite A1; auto. unfold comp. rewrite sfun_app'.
  rewrite tsubst_comp. change (fun x0 => tsubst th2 (sfun s2 x0)) with (comp th2 s2).
  apply (tsubst_agree n1); auto. apply S1. lia.
Qed.

Lemma agree_unify : forall n m th th2 th' s u,
  agree n th (comp th2 s) -> new_sub m s -> n <= m -> agree m th2 th' ->
  (forall t, tsubst th' (apply u t) = tsubst th' t) ->
  agree n th (comp th' (s ++ u)).
Proof.
  intros n m th th2 th' s u A [S _] L A2 M x Lx.
  rewrite A; auto. unfold comp. rewrite sfun_app'. rewrite <- apply_tsubst. rewrite M.
  apply (tsubst_agree m); auto. apply S. lia.
Qed.

Lemma tsubst_eq_ftv : forall f g t, tsubst f t = tsubst g t -> forall x, In x (ftv t) -> f x = g x.
Proof.
  induction t; simpl; intros E x I; try tauto.
  - destruct I as [<-|[]]; auto.
  - inv E. apply in_app_or in I as [I|I]; auto.
  - inv E. auto.
  - inv E. apply in_app_or in I as [I|I]; auto.
Qed.

Lemma tboth_nogen : forall th ro t, nogen t -> tboth th ro t = tsubst th t.
Proof.
  induction t; simpl; intros N; auto; try tauto.
  - destruct N; rewrite IHt1, IHt2; auto.
  - rewrite IHt; auto.
  - destruct N; rewrite IHt1, IHt2; auto.
Qed.

Lemma tboth_tsubst : forall th ro f t,
  nogen_fun f -> tboth th ro (tsubst f t) = tboth (fun x => tsubst th (f x)) ro t.
Proof.
  induction t; simpl; intros N; auto.
  - apply tboth_nogen. apply N.
  - rewrite IHt1, IHt2; auto.
  - rewrite IHt; auto.
  - rewrite IHt1, IHt2; auto.
Qed.

Lemma tsubst_tinst : forall th ro t, tsubst th (tinst ro t) = tboth th (fun k => tsubst th (ro k)) t.
Proof. induction t; simpl; auto; congruence. Qed.

Lemma tboth_ext_in : forall th th' ro ro' t,
  (forall x, In x (ftv t) -> th x = th' x) -> (forall k, ro k = ro' k) -> tboth th ro t = tboth th' ro' t.
Proof.
  induction t; simpl; intros A B; auto.
  - rewrite IHt1, IHt2; auto; intros; apply A; apply in_or_app; auto.
  - rewrite IHt; auto.
  - rewrite IHt1, IHt2; auto; intros; apply A; apply in_or_app; auto.
Qed.

Lemma tboth_gen : forall gs th ro t,
  nogen t -> tboth th ro (tsubst (gen_fun gs) t) = tsubst (mix gs th ro) t.
Proof.
  induction t; simpl; intros N; auto; try tauto.
  - unfold gen_fun, mix. destruct (index_of n gs); simpl; auto.
  - destruct N; rewrite IHt1, IHt2; auto.
  - rewrite IHt; auto.
  - destruct N; rewrite IHt1, IHt2; auto.
Qed.

Lemma unify_principal : forall fuel n a b th,
  tsubst th a = tsubst th b ->
  unify fuel n [(a, b)] = OutOfFuel \/
  exists u n', unify fuel n [(a, b)] = Ok (u, n') /\ forall t, tsubst th (apply u t) = tsubst th t.
Proof.
  intros fuel n a b th E.
  assert (U : unifier th [(a, b)]) by (constructor; simpl; auto).
  destruct (unify fuel n [(a, b)]) as [[u n']| |] eqn:Q; auto.
  - right. exists u, n'. split; auto. intros. eapply unify_mgu; eauto.
  - exfalso. eapply unify_complete; eauto.
Qed.

(* ------------------------------------------------------------------ environments (completeness) *)

Inductive cenv_rel : env -> denv -> Prop :=
| CR_nil : cenv_rel [] []
| CR_mono G D x t : nogen t -> cenv_rel G D -> cenv_rel ((x, t) :: G) ((x, DMono t) :: D)
| CR_poly G D x sc e :
    cenv_rel G D ->
    (forall th t', has_type_syn (dsubst th D) e t' -> exists ro, t' = tboth th ro sc) ->
    cenv_rel ((x, sc) :: G) ((x, DPoly e) :: D).

Lemma cenv_rel_ftv : forall G D, cenv_rel G D -> incl (dftv D) (ftv_env G).
Proof.
  induction 1; simpl.
  - apply incl_refl.
  - unfold ftv_env; simpl. apply incl_app_app; auto. apply incl_refl.
  - unfold ftv_env; simpl. apply incl_appr; auto.
Qed.

Lemma cenv_rel_subst : forall G D f,
  cenv_rel G D -> nogen_fun f -> cenv_rel (tsubst_env f G) (dsubst f D).
Proof.
  induction 1; intros N; simpl.
  - constructor.
  - constructor; auto. apply nogen_tsubst; auto.
  - constructor; auto.
    intros th t' HT. rewrite dsubst_comp in HT. apply H0 in HT as [ro ->].
    exists ro. rewrite tboth_tsubst; auto.
Qed.

Lemma cenv_rel_apply : forall G D s,
  cenv_rel G D -> nogen_subst s -> cenv_rel (apply_env s G) (dapply s D).
Proof. intros. rewrite apply_env_tsubst. apply cenv_rel_subst; auto. apply nogen_sfun; auto. Qed.

Lemma dsubst_agree_env : forall G D n th th1 s1,
  cenv_rel G D -> env_below G n -> agree n th (comp th1 s1) ->
  dsubst th D = dsubst th1 (dapply s1 D).
Proof.
  intros G D n th th1 s1 R B A. unfold dapply. rewrite dsubst_comp.
  apply dsubst_ext_in. intros x I. apply A. apply B. eapply cenv_rel_ftv; eauto.
Qed.

Lemma cenv_lookup : forall G D th x t',
  cenv_rel G D -> has_type_syn (dsubst th D) (EVar x) t' ->
  exists sc ro, lookup x G = Some sc /\ t' = tboth th ro sc.
Proof.
  unfold has_type_syn.
  induction 1; simpl; intros HT.
  - inv HT. discriminate.
  - inv HT; try discriminate.
    + rewrite Nat.eqb_refl. exists t, TVar. split; auto. rewrite tboth_nogen; auto.
    + destruct (x =? x0) eqn:E. apply Nat.eqb_eq in E; congruence. auto.
  - inv HT; try discriminate.
    + rewrite Nat.eqb_refl.
      match goal with HH : has_type_gen false _ e _ |- _ => apply H0 in HH as [ro ->] end. eauto.
    + destruct (x =? x0) eqn:E. apply Nat.eqb_eq in E; congruence. auto.
Qed.


(* inversion of the syntactic declarative system *)
Lemma hts_lam_inv : forall D x e t, has_type_syn D (ELam x e) t ->
  exists a b, t = TFun a b /\ has_type_syn ((x, DMono a) :: D) e b.
Proof. intros D x e t H. inv H; try discriminate. eauto. Qed.
Lemma hts_app_inv : forall D e1 e2 t, has_type_syn D (EApp e1 e2) t ->
  exists a, has_type_syn D e1 (TFun a t) /\ has_type_syn D e2 a.
Proof. intros D e1 e2 t H. inv H; try discriminate. eauto. Qed.
Lemma hts_let_inv : forall D x e1 e2 t, has_type_syn D (ELet x e1 e2) t ->
  exists t1, has_type_syn D e1 t1 /\ has_type_syn ((x, DPoly e1) :: D) e2 t.
Proof. intros D x e1 e2 t H. inv H; try discriminate. eauto. Qed.
Lemma hts_fix_inv : forall D f x e t, has_type_syn D (EFix f x e) t ->
  exists a b, t = TFun a b /\ has_type_syn ((x, DMono a) :: (f, DMono (TFun a b)) :: D) e b.
Proof. intros D f x e t H. inv H; try discriminate. eauto. Qed.
Lemma hts_if_inv : forall D c e1 e2 t, has_type_syn D (EIf c e1 e2) t ->
  has_type_syn D c tbool /\ has_type_syn D e1 t /\ has_type_syn D e2 t.
Proof. intros D c e1 e2 t H. inv H; try discriminate. auto. Qed.
Lemma hts_eq_inv : forall D e1 e2 t, has_type_syn D (EEq e1 e2) t ->
  t = tbool /\ has_type_syn D e1 tint /\ has_type_syn D e2 tint.
Proof. intros D e1 e2 t H. inv H; try discriminate. auto. Qed.
Lemma hts_fcons_inv : forall D l e fs t, has_type_syn D (EFCons l e fs) t ->
  exists a r, t = RCons l a r /\ is_fields fs = true /\ has_label l fs = false /\
              has_type_syn D e a /\ has_type_syn D fs r.
Proof. intros D l e fs t H. inv H; try discriminate. eauto 10. Qed.
Lemma hts_proj_inv : forall D e l t, has_type_syn D (EProj e l) t ->
  exists r, has_type_syn D e (RCons l t r).
Proof. intros D e l t H. inv H; try discriminate. eauto. Qed.
Lemma hts_acons_inv : forall D e es t, has_type_syn D (EACons e es) t ->
  exists a, t = TArray a /\ is_elems es = true /\ has_type_syn D e a /\ has_type_syn D es (TArray a).
Proof. intros D e es t H. inv H; try discriminate. eauto 10. Qed.

Lemma dsubst_upd : forall G D n th a,
  cenv_rel G D -> env_below G n -> dsubst (upd th n a) D = dsubst th D.
Proof.
  intros G D n th a R B. apply dsubst_ext_in. intros x I. symmetry. apply agree_upd.
  apply B. eapply cenv_rel_ftv; eauto.
Qed.

Lemma agree_refl : forall n f, agree n f f.
Proof. intros n f x L. reflexivity. Qed.

Lemma nogen_unify1 : forall fuel n a b u n',
  nogen a -> nogen b -> unify fuel n [(a, b)] = Ok (u, n') -> nogen_subst u.
Proof. intros. eapply unify_nogen; [| eassumption]. constructor; simpl; auto. Qed.

Lemma ftv_env_apply : forall s G x, In x (ftv_env (apply_env s G)) ->
  exists y, In y (ftv_env G) /\ In x (ftv (sfun s y)).
Proof.
  induction G as [|[z t] G]; simpl; intros x I.
  - destruct I.
  - unfold ftv_env in *; simpl in *. apply in_app_or in I as [I|I].
    + rewrite apply_tsubst in I. apply ftv_tsubst in I as (y & A & B). exists y; split; auto. apply in_or_app; auto.
    + apply IHG in I as (y & A & B). exists y; split; auto. apply in_or_app; auto.
Qed.

Theorem infer_principal_gen : forall e fuel G D n th t',
  cenv_rel G D -> env_below G n -> has_type_syn (dsubst th D) e t' ->
  infer fuel G e n = OutOfFuel \/
  exists s t n' th', infer fuel G e n = Ok (s, t, n') /\ t' = tsubst th' t /\ agree n th (comp th' s).
Proof.
  induction e; intros fuel G D n0 th t' R B HT.
  - (* EInt *) inv HT; try discriminate. right. exists [], tint, n0, th. repeat split; auto; try apply agree_nil.
  - inv HT; try discriminate. right. exists [], tstring, n0, th. repeat split; auto; try apply agree_nil.
  - (* EVar *)
    destruct (cenv_lookup _ _ _ _ _ R HT) as (sc & ro & L & ->).
    right. simpl. rewrite L.
    exists [], (tinst (fresh_inst n0) sc), (n0 + gen_bound sc), (fun y => if y <? n0 then th y else ro (y - n0)).
    split; auto. split.
    + rewrite tsubst_tinst. apply tboth_ext_in.
      * intros y I. pose proof (lookup_below _ _ _ _ B L y I) as Ly.
        apply Nat.ltb_lt in Ly. rewrite Ly. reflexivity.
      * intros k. simpl. unfold fresh_inst.
        assert (E : n0 + k <? n0 = false) by (apply Nat.ltb_ge; lia). rewrite E.
        f_equal. lia.
    + intros y Ly. unfold comp. simpl. apply Nat.ltb_lt in Ly. rewrite Ly. reflexivity.
  - (* ELam *)
    apply hts_lam_inv in HT as (a & b & -> & HT).
    assert (HT' : has_type_syn (dsubst (upd th n0 a) ((x, DMono (TVar n0)) :: D)) e b).
    { simpl. rewrite upd_same. rewrite (dsubst_upd G D); auto. }
    eapply IHe with (G := (x, TVar n0) :: G) (n := S n0) in HT'.
    2:{ apply CR_mono; simpl; auto. }
    2:{ apply env_below_cons; split. apply below_var; lia. eapply env_below_mono; eauto. }
    destruct HT' as [O|(s & t & n1 & th1 & I & E & A)].
    { left. simpl. rewrite O. reflexivity. }
    right. exists s, (TFun (apply s (TVar n0)) t), n1, th1.
    split. { simpl. rewrite I. reflexivity. }
    split.
    + simpl. rewrite <- E. f_equal.
      change (tsubst th1 (apply s (TVar n0))) with (comp th1 s n0).
      rewrite <- A; [| lia]. rewrite upd_same. reflexivity.
    + intros y Ly. rewrite <- A; [| lia]. apply agree_upd; auto.
  - (* EApp *)
    apply hts_app_inv in HT as (a & Ha & Hb).
    destruct (IHe1 fuel G D n0 th _ R B Ha) as [O|(s1 & t1 & n1 & th1 & I1 & E1 & A1)].
    { left. simpl. rewrite O. reflexivity. }
    destruct (infer_fresh _ _ _ _ _ _ _ B I1) as (L1 & B1 & S1).
    destruct (infer_nogen _ _ _ _ _ _ _ I1) as (N1 & Nt1).
    assert (R1 : cenv_rel (apply_env s1 G) (dapply s1 D)) by (apply cenv_rel_apply; auto).
    assert (EB1 : env_below (apply_env s1 G) n1).
    { apply env_below_apply; auto. eapply env_below_mono; eauto. }
    rewrite (dsubst_agree_env G D n0 th th1 s1) in Hb; auto.
    destruct (IHe2 fuel _ _ n1 th1 _ R1 EB1 Hb) as [O|(s2 & t2 & n2 & th2 & I2 & E2 & A2)].
    { left. simpl. rewrite I1. simpl. rewrite O. reflexivity. }
    destruct (infer_fresh _ _ _ _ _ _ _ EB1 I2) as (L2 & B2 & S2).
    set (th2' := upd th2 n2 t').
    assert (AU : agree n2 th2 th2') by apply agree_upd.
    assert (UN : tsubst th2' (apply s2 t1) = tsubst th2' (TFun t2 (TVar n2))).
    { simpl. unfold th2' at 3. rewrite upd_same.
      rewrite <- (tsubst_agree n2 th2 th2'); auto; [| bl].
      rewrite <- (tsubst_agree n2 th2 th2' t2); auto.
      rewrite <- E2. rewrite <- tsubst_comp_apply.
      rewrite <- (tsubst_agree n1 th1 (comp th2 s2)); auto. }
    destruct (unify_principal fuel (S n2) _ _ _ UN) as [O|(u & n3 & U & M)].
    { left. simpl. rewrite I1. simpl. rewrite I2. simpl. rewrite O. reflexivity. }
    right. exists (s1 ++ s2 ++ u), (apply u (TVar n2)), n3, th2'.
    split. { simpl. rewrite I1. simpl. rewrite I2. simpl. rewrite U. reflexivity. }
    split.
    + rewrite M. simpl. unfold th2'. rewrite upd_same. reflexivity.
    + rewrite app_assoc.
      assert (AA : agree n0 th (comp th2 (s1 ++ s2))).
      { apply (agree_step n0 n1 th th1 th2 s1 s2); auto; lia. }
      apply (agree_unify n0 n2 th th2 th2' (s1 ++ s2) u); auto; try lia.
      bl.
  - (* ELet *)
    apply hts_let_inv in HT as (t1' & H1 & H2).
    destruct (IHe1 fuel G D n0 th _ R B H1) as [O|(s1 & t1 & n1 & th1 & I1 & E1 & A1)].
    { left. simpl. rewrite O. reflexivity. }
    destruct (infer_fresh _ _ _ _ _ _ _ B I1) as (L1 & B1 & S1).
    destruct (infer_nogen _ _ _ _ _ _ _ I1) as (N1 & Nt1).
    assert (R1 : cenv_rel (apply_env s1 G) (dapply s1 D)) by (apply cenv_rel_apply; auto).
    assert (EB1 : env_below (apply_env s1 G) n1).
    { apply env_below_apply; auto. eapply env_below_mono; eauto. }
    assert (R2 : cenv_rel ((x, gen (apply_env s1 G) t1) :: apply_env s1 G) ((x, DPoly e1) :: dapply s1 D)).
    { apply CR_poly; auto.
      intros th0 t'' HT0. unfold dapply in HT0. rewrite dsubst_comp in HT0.
      destruct (IHe1 fuel G D n0 _ _ R B HT0) as [O|(s1' & t1x & n1' & th1' & I1' & E1' & A1')].
      { congruence. }
      rewrite I1 in I1'. inv I1'.
      set (gs := gen_vars (apply_env s1' G) t1x).
      exists (fun i => th1' (nth i gs 0)).
      unfold gen. fold gs. rewrite tboth_gen; auto.
      apply tsubst_ext_in. intros y Iy. unfold mix.
      destruct (index_of y gs) eqn:Q.
      - apply index_of_nth in Q. rewrite Q. reflexivity.
      - (* y is not generalised: it is free in the environment *)
        assert (Fy : In y (ftv_env (apply_env s1' G))).
        { destruct (memb y (ftv_env (apply_env s1' G))) eqn:Mb.
          - apply memb_In; auto.
          - exfalso. assert (Iy' : In y gs).
            { unfold gs, gen_vars. apply filter_In. split; auto. rewrite Mb. reflexivity. }
            apply In_index_of in Iy' as [i Ei]. congruence. }
        apply ftv_env_apply in Fy as (z & Fz & Fy).
        specialize (A1' z (B z Fz)). unfold comp in A1'.
        symmetry. eapply tsubst_eq_ftv; eauto. }
    assert (EB2 : env_below ((x, gen (apply_env s1 G) t1) :: apply_env s1 G) n1).
    { apply env_below_cons; split; auto. apply below_gen; auto. }
    assert (H2' : has_type_syn (dsubst th1 ((x, DPoly e1) :: dapply s1 D)) e2 t').
    { simpl. rewrite <- (dsubst_agree_env G D n0 th th1 s1); auto. }
    destruct (IHe2 fuel _ _ n1 th1 _ R2 EB2 H2') as [O|(s2 & t2 & n2 & th2 & I2 & E2 & A2)].
    { left. simpl. rewrite I1. simpl. rewrite O. reflexivity. }
    right. exists (s1 ++ s2), t2, n2, th2.
    split. { simpl. rewrite I1. simpl. rewrite I2. reflexivity. }
    split; auto. eapply agree_step; eauto.
  - (* EFix *)
    apply hts_fix_inv in HT as (a & b & -> & HT).
    set (th0 := upd (upd th n0 a) (S n0) b).
    assert (T0a : th0 n0 = a).
    { unfold th0, upd. destruct (n0 =? S n0) eqn:Q. apply Nat.eqb_eq in Q; lia. rewrite Nat.eqb_refl. reflexivity. }
    assert (T0b : th0 (S n0) = b) by (unfold th0; apply upd_same).
    assert (A0 : agree n0 th th0).
    { intros y Ly. unfold th0. rewrite <- agree_upd; [| lia]. apply agree_upd; auto. }
    assert (HT' : has_type_syn (dsubst th0 ((x, DMono (TVar n0)) :: (f, DMono (TFun (TVar n0) (TVar (S n0)))) :: D)) e b).
    { simpl. rewrite T0a, T0b.
      rewrite (dsubst_ext_in th0 th D). exact HT.
      intros y Iy. symmetry. apply A0. apply B. eapply cenv_rel_ftv; eauto. }
    eapply IHe with (G := (x, TVar n0) :: (f, TFun (TVar n0) (TVar (S n0))) :: G) (n := S (S n0)) in HT'.
    2:{ apply CR_mono; simpl; auto. apply CR_mono; simpl; auto. }
    2:{ apply env_below_cons; split. apply below_var; lia.
        apply env_below_cons; split. apply below_fun; split; apply below_var; lia.
        eapply env_below_mono; eauto. }
    destruct HT' as [O|(s1 & t1 & n1 & th1 & I1 & E1 & A1)].
    { left. simpl. rewrite O. reflexivity. }
    assert (EBx : env_below ((x, TVar n0) :: (f, TFun (TVar n0) (TVar (S n0))) :: G) (S (S n0))).
    { apply env_below_cons; split. apply below_var; lia.
      apply env_below_cons; split. apply below_fun; split; apply below_var; lia.
      eapply env_below_mono; eauto. }
    destruct (infer_fresh _ _ _ _ _ _ _ EBx I1) as (L1 & B1 & S1).
    assert (UN : tsubst th1 (apply s1 (TVar (S n0))) = tsubst th1 t1).
    { change (tsubst th1 (apply s1 (TVar (S n0)))) with (comp th1 s1 (S n0)).
      rewrite <- A1; [| lia]. rewrite T0b. exact E1. }
    destruct (unify_principal fuel n1 _ _ _ UN) as [O|(u & n2 & U & M)].
    { left. simpl. rewrite I1. simpl. rewrite O. reflexivity. }
    right. exists (s1 ++ u), (apply u (apply s1 (TFun (TVar n0) (TVar (S n0))))), n2, th1.
    split. { simpl. rewrite I1. simpl. rewrite U. reflexivity. }
    split.
    + rewrite M. rewrite apply_fun. simpl.
      change (tsubst th1 (apply s1 (TVar n0))) with (comp th1 s1 n0).
      change (tsubst th1 (apply s1 (TVar (S n0)))) with (comp th1 s1 (S n0)).
      rewrite <- !A1; try lia. rewrite T0a, T0b. reflexivity.
    + assert (A1' : agree n0 th (comp th1 s1)) by (intros y Ly; rewrite A0; auto; apply A1; lia).
      apply (agree_unify n0 n1 th th1 th1 s1 u); auto; try lia; try apply agree_refl.
  - (* EIf *)
    apply hts_if_inv in HT as (Hc & H1 & H2).
    destruct (IHe1 fuel G D n0 th _ R B Hc) as [O|(s0 & t0 & n00 & th0 & I0 & E0 & A0)].
    { left. simpl. rewrite O. reflexivity. }
    destruct (infer_fresh _ _ _ _ _ _ _ B I0) as (L0 & B0 & S0).
    destruct (infer_nogen _ _ _ _ _ _ _ I0) as (N0 & Nt0).
    assert (UN0 : tsubst th0 t0 = tsubst th0 tbool) by (rewrite <- E0; reflexivity).
    destruct (unify_principal fuel n00 _ _ _ UN0) as [O|(u0 & m0 & U0 & M0)].
    { left. simpl. rewrite I0. simpl. rewrite O. reflexivity. }
    destruct (unify_fresh _ _ _ _ _ (eqs_below1 _ _ _ B0 (below_con _ _)) U0) as (LU0 & SU0).
    assert (NU0 : nogen_subst u0) by (eapply nogen_unify1; [| | exact U0]; simpl; auto).
    assert (A0' : agree n0 th (comp th0 (s0 ++ u0))).
    { apply (agree_unify n0 n00 th th0 th0 s0 u0); auto; try lia; apply agree_refl. }
    assert (S0' : new_sub m0 (s0 ++ u0)) by bl.
    assert (R0 : cenv_rel (apply_env (s0 ++ u0) G) (dapply (s0 ++ u0) D)).
    { apply cenv_rel_apply; auto. apply nogen_subst_app; auto. }
    assert (EB0 : env_below (apply_env (s0 ++ u0) G) m0).
    { apply env_below_apply; auto. eapply env_below_mono; eauto. lia. }
    rewrite (dsubst_agree_env G D n0 th th0 (s0 ++ u0)) in H1, H2; auto.
    destruct (IHe2 fuel _ _ m0 th0 _ R0 EB0 H1) as [O|(s1 & t1 & n1 & th1 & I1 & E1 & A1)].
    { left. simpl. rewrite I0. simpl. rewrite U0. simpl. rewrite O. reflexivity. }
    destruct (infer_fresh _ _ _ _ _ _ _ EB0 I1) as (L1 & B1 & S1).
    destruct (infer_nogen _ _ _ _ _ _ _ I1) as (N1 & Nt1).
    assert (R1 : cenv_rel (apply_env s1 (apply_env (s0 ++ u0) G)) (dapply s1 (dapply (s0 ++ u0) D))).
    { apply cenv_rel_apply; auto. }
    assert (EB1 : env_below (apply_env s1 (apply_env (s0 ++ u0) G)) n1).
    { apply env_below_apply; auto. eapply env_below_mono; eauto. }
    rewrite (dsubst_agree_env _ _ m0 th0 th1 s1 R0 EB0 A1) in H2.
    destruct (IHe3 fuel _ _ n1 th1 _ R1 EB1 H2) as [O|(s2 & t2 & n2 & th2 & I2 & E2 & A2)].
    { left. simpl. rewrite I0. simpl. rewrite U0. simpl. rewrite I1. simpl. rewrite O. reflexivity. }
    destruct (infer_fresh _ _ _ _ _ _ _ EB1 I2) as (L2 & B2 & S2).
    assert (UN : tsubst th2 (apply s2 t1) = tsubst th2 t2).
    { rewrite <- tsubst_comp_apply. rewrite <- (tsubst_agree n1 th1 (comp th2 s2)); auto. congruence. }
    destruct (unify_principal fuel n2 _ _ _ UN) as [O|(u & n3 & U & M)].
    { left. simpl. rewrite I0. simpl. rewrite U0. simpl. rewrite I1. simpl. rewrite I2. simpl. rewrite O. reflexivity. }
    right. exists (s0 ++ u0 ++ s1 ++ s2 ++ u), (apply u t2), n3, th2.
    split. { simpl. rewrite I0. simpl. rewrite U0. simpl. rewrite I1. simpl. rewrite I2. simpl. rewrite U. reflexivity. }
    split. { rewrite M. exact E2. }
    replace (s0 ++ u0 ++ s1 ++ s2 ++ u) with ((((s0 ++ u0) ++ s1) ++ s2) ++ u) by (rewrite <- !app_assoc; reflexivity).
    assert (AA : agree n0 th (comp th1 ((s0 ++ u0) ++ s1))).
    { apply (agree_step n0 m0 th th0 th1 (s0 ++ u0) s1); auto; lia. }
    assert (AB : agree n0 th (comp th2 (((s0 ++ u0) ++ s1) ++ s2))).
    { apply (agree_step n0 n1 th th1 th2 ((s0 ++ u0) ++ s1) s2); auto; try lia. bl. }
    apply (agree_unify n0 n2 th th2 th2 (((s0 ++ u0) ++ s1) ++ s2) u); auto; try lia; try apply agree_refl.
    bl.
  - (* EEq *)
    apply hts_eq_inv in HT as (-> & H1 & H2).
    destruct (IHe1 fuel G D n0 th _ R B H1) as [O|(s1 & t1 & n1 & th1 & I1 & E1 & A1)].
    { left. simpl. rewrite O. reflexivity. }
    destruct (infer_fresh _ _ _ _ _ _ _ B I1) as (L1 & B1 & S1).
    destruct (infer_nogen _ _ _ _ _ _ _ I1) as (N1 & Nt1).
    assert (UN1 : tsubst th1 t1 = tsubst th1 tint) by (rewrite <- E1; reflexivity).
    destruct (unify_principal fuel n1 _ _ _ UN1) as [O|(u1 & m1 & U1 & M1)].
    { left. simpl. rewrite I1. simpl. rewrite O. reflexivity. }
    destruct (unify_fresh _ _ _ _ _ (eqs_below1 _ _ _ B1 (below_con _ _)) U1) as (LU1 & SU1).
    assert (NU1 : nogen_subst u1) by (eapply nogen_unify1; [| | exact U1]; simpl; auto).
    assert (A1' : agree n0 th (comp th1 (s1 ++ u1))).
    { apply (agree_unify n0 n1 th th1 th1 s1 u1); auto; try lia; apply agree_refl. }
    assert (S1' : new_sub m1 (s1 ++ u1)) by bl.
    assert (R1 : cenv_rel (apply_env (s1 ++ u1) G) (dapply (s1 ++ u1) D)).
    { apply cenv_rel_apply; auto. apply nogen_subst_app; auto. }
    assert (EB1 : env_below (apply_env (s1 ++ u1) G) m1).
    { apply env_below_apply; auto. eapply env_below_mono; eauto. lia. }
    rewrite (dsubst_agree_env G D n0 th th1 (s1 ++ u1)) in H2; auto.
    destruct (IHe2 fuel _ _ m1 th1 _ R1 EB1 H2) as [O|(s2 & t2 & n2 & th2 & I2 & E2 & A2)].
    { left. simpl. rewrite I1. simpl. rewrite U1. simpl. rewrite O. reflexivity. }
    destruct (infer_fresh _ _ _ _ _ _ _ EB1 I2) as (L2 & B2 & S2).
    assert (UN2 : tsubst th2 t2 = tsubst th2 tint) by (rewrite <- E2; reflexivity).
    destruct (unify_principal fuel n2 _ _ _ UN2) as [O|(u2 & m2 & U2 & M2)].
    { left. simpl. rewrite I1. simpl. rewrite U1. simpl. rewrite I2. simpl. rewrite O. reflexivity. }
    right. exists (s1 ++ u1 ++ s2 ++ u2), tbool, m2, th2.
    split. { simpl. rewrite I1. simpl. rewrite U1. simpl. rewrite I2. simpl. rewrite U2. reflexivity. }
    split; auto.
    replace (s1 ++ u1 ++ s2 ++ u2) with (((s1 ++ u1) ++ s2) ++ u2) by (rewrite <- !app_assoc; reflexivity).
    assert (AA : agree n0 th (comp th2 ((s1 ++ u1) ++ s2))).
    { apply (agree_step n0 m1 th th1 th2 (s1 ++ u1) s2); auto; lia. }
    apply (agree_unify n0 n2 th th2 th2 ((s1 ++ u1) ++ s2) u2); auto; try lia; try apply agree_refl.
    bl.
  - (* EFNil *) inv HT; try discriminate. right. exists [], RNil, n0, th. repeat split; auto; try apply agree_nil.
  - (* EFCons *)
    apply hts_fcons_inv in HT as (a & r & -> & F1 & F2 & H1 & H2).
    destruct (IHe1 fuel G D n0 th _ R B H1) as [O|(s1 & t1 & n1 & th1 & I1 & E1 & A1)].
    { left. simpl. rewrite F1, F2. simpl. rewrite O. reflexivity. }
    destruct (infer_fresh _ _ _ _ _ _ _ B I1) as (L1 & B1 & S1).
    destruct (infer_nogen _ _ _ _ _ _ _ I1) as (N1 & Nt1).
    assert (R1 : cenv_rel (apply_env s1 G) (dapply s1 D)) by (apply cenv_rel_apply; auto).
    assert (EB1 : env_below (apply_env s1 G) n1).
    { apply env_below_apply; auto. eapply env_below_mono; eauto. }
    rewrite (dsubst_agree_env G D n0 th th1 s1) in H2; auto.
    destruct (IHe2 fuel _ _ n1 th1 _ R1 EB1 H2) as [O|(s2 & t2 & n2 & th2 & I2 & E2 & A2)].
    { left. simpl. rewrite F1, F2. simpl. rewrite I1. simpl. rewrite O. reflexivity. }
    right. exists (s1 ++ s2), (RCons l (apply s2 t1) t2), n2, th2.
    split. { simpl. rewrite F1, F2. simpl. rewrite I1. simpl. rewrite I2. reflexivity. }
    split.
    + simpl. rewrite <- E2. f_equal. rewrite <- tsubst_comp_apply.
      rewrite <- (tsubst_agree n1 th1 (comp th2 s2)); auto.
    + eapply agree_step; eauto.
  - (* EProj *)
    apply hts_proj_inv in HT as (r & H1).
    destruct (IHe fuel G D n0 th _ R B H1) as [O|(s1 & t1 & n1 & th1 & I1 & E1 & A1)].
    { left. simpl. rewrite O. reflexivity. }
    destruct (infer_fresh _ _ _ _ _ _ _ B I1) as (L1 & B1 & S1).
    set (th1' := upd (upd th1 n1 t') (S n1) r).
    assert (Ta : th1' n1 = t').
    { unfold th1', upd. destruct (n1 =? S n1) eqn:Q. apply Nat.eqb_eq in Q; lia. rewrite Nat.eqb_refl. reflexivity. }
    assert (Tb : th1' (S n1) = r) by (unfold th1'; apply upd_same).
    assert (AU : agree n1 th1 th1').
    { intros y Ly. unfold th1'. rewrite <- agree_upd; [| lia]. apply agree_upd; auto. }
    assert (UN : tsubst th1' t1 = tsubst th1' (RCons l (TVar n1) (TVar (S n1)))).
    { simpl. rewrite Ta, Tb. rewrite <- (tsubst_agree n1 th1 th1'); auto. }
    destruct (unify_principal fuel (S (S n1)) _ _ _ UN) as [O|(u & n2 & U & M)].
    { left. simpl. rewrite I1. simpl. rewrite O. reflexivity. }
    right. exists (s1 ++ u), (apply u (TVar n1)), n2, th1'.
    split. { simpl. rewrite I1. simpl. rewrite U. reflexivity. }
    split.
    + rewrite M. simpl. auto.
    + apply (agree_unify n0 n1 th th1 th1' s1 u); auto; try lia.
  - (* EANil *)
    inv HT; try discriminate. right. exists [], (TArray (TVar n0)), (S n0), (upd th n0 t).
    split; auto. split.
    + simpl. rewrite upd_same. reflexivity.
    + intros y Ly. unfold comp; simpl. apply agree_upd; auto.
  - (* EACons *)
    apply hts_acons_inv in HT as (a & -> & F & H1 & H2).
    destruct (IHe1 fuel G D n0 th _ R B H1) as [O|(s1 & t1 & n1 & th1 & I1 & E1 & A1)].
    { left. simpl. rewrite F. simpl. rewrite O. reflexivity. }
    destruct (infer_fresh _ _ _ _ _ _ _ B I1) as (L1 & B1 & S1).
    destruct (infer_nogen _ _ _ _ _ _ _ I1) as (N1 & Nt1).
    assert (R1 : cenv_rel (apply_env s1 G) (dapply s1 D)) by (apply cenv_rel_apply; auto).
    assert (EB1 : env_below (apply_env s1 G) n1).
    { apply env_below_apply; auto. eapply env_below_mono; eauto. }
    rewrite (dsubst_agree_env G D n0 th th1 s1) in H2; auto.
    destruct (IHe2 fuel _ _ n1 th1 _ R1 EB1 H2) as [O|(s2 & t2 & n2 & th2 & I2 & E2 & A2)].
    { left. simpl. rewrite F. simpl. rewrite I1. simpl. rewrite O. reflexivity. }
    destruct (infer_fresh _ _ _ _ _ _ _ EB1 I2) as (L2 & B2 & S2).
    assert (UN : tsubst th2 (TArray (apply s2 t1)) = tsubst th2 t2).
    { rewrite <- E2. simpl. f_equal. rewrite <- tsubst_comp_apply.
      rewrite <- (tsubst_agree n1 th1 (comp th2 s2)); auto. }
    destruct (unify_principal fuel n2 _ _ _ UN) as [O|(u & n3 & U & M)].
    { left. simpl. rewrite F. simpl. rewrite I1. simpl. rewrite I2. simpl. rewrite O. reflexivity. }
    right. exists (s1 ++ s2 ++ u), (apply u t2), n3, th2.
    split. { simpl. rewrite F. simpl. rewrite I1. simpl. rewrite I2. simpl. rewrite U. reflexivity. }
    split. { rewrite M. exact E2. }
    rewrite app_assoc.
    assert (AA : agree n0 th (comp th2 (s1 ++ s2))).
    { apply (agree_step n0 n1 th th1 th2 s1 s2); auto; lia. }
    apply (agree_unify n0 n2 th th2 th2 (s1 ++ s2) u); auto; try lia; try apply agree_refl.
    bl.
Qed.


(* ------------------------------------------------------------------ closed programs *)

(* Every type derivable without permuting record fields is an instance of the inferred type. *)
Theorem infer_principal_partial : forall fuel e s t n',
  infer fuel [] e 0 = Ok (s, t, n') ->
  forall t', has_type_syn [] e t' -> exists th, t' = tsubst th t.
Proof.
  intros fuel e s t n' I t' HT.
  assert (HT' : has_type_syn (dsubst TVar []) e t') by exact HT.
  destruct (infer_principal_gen e fuel [] [] 0 TVar t' CR_nil) as [O|(s1 & t1 & n1 & th1 & I1 & E & _)]; auto.
  - intros x [].
  - congruence.
  - rewrite I in I1. inv I1. eauto.
Qed.

(* A term typable without permuting record fields is never rejected. *)
Theorem infer_complete_partial : forall fuel e t',
  has_type_syn [] e t' -> infer fuel [] e 0 <> Fail.
Proof.
  intros fuel e t' HT.
  assert (HT' : has_type_syn (dsubst TVar []) e t') by exact HT.
  destruct (infer_principal_gen e fuel [] [] 0 TVar t' CR_nil) as [O|(s1 & t1 & n1 & th1 & I1 & _)]; auto.
  - intros x [].
  - congruence.
  - congruence.
Qed.

(* The full statements, against the declarative system with field permutation. *)
Definition infer_principal_full_stmt : Prop :=
  forall fuel e s t n', infer fuel [] e 0 = Ok (s, t, n') ->
  forall t', has_type [] e t' -> exists th, teq t' (tsubst th t).

Definition infer_complete_full_stmt : Prop :=
  forall e t', has_type [] e t' -> exists fuel s t n', infer fuel [] e 0 = Ok (s, t, n').

(* Completeness against the system with permutation is false: like unify_type.rs:497 the
   algorithm refuses to unify two closed records whose fields are in a different order. *)
Definition rec_ab : expr := EFCons 0 EInt (EFCons 1 EInt EFNil).
Definition rec_ba : expr := EFCons 1 EInt (EFCons 0 EInt EFNil).
Definition order_witness : expr := EIf (EEq EInt EInt) rec_ab rec_ba.

Theorem infer_complete_full_refuted :
  exists e t', has_type [] e t' /\ forall fuel s t n', infer fuel [] e 0 <> Ok (s, t, n').
Proof.
  exists order_witness, (RCons 0 tint (RCons 1 tint RNil)). split.
  - unfold has_type, order_witness, rec_ab, rec_ba.
    apply T_If.
    + apply T_Eq; apply T_Int.
    + repeat (apply T_FCons; auto; try apply T_Int). apply T_FNil.
    + eapply T_Conv with (t := RCons 1 tint (RCons 0 tint RNil)); auto.
      * apply teq_swap. discriminate.
      * repeat (apply T_FCons; auto; try apply T_Int). apply T_FNil.
  - intros fuel s t n'.
    destruct fuel as [|[|[|[|[|[|fuel]]]]]]; vm_compute; discriminate.
Qed.


(* ------------------------------------------------------------------ termination on row-free input *)

Fixpoint simple (t : ty) : Prop :=
  match t with
  | RCons _ _ _ => False
  | TFun a b => simple a /\ simple b
  | TArray a => simple a
  | _ => True
  end.
Definition simple_eqs (eqs : list (ty * ty)) : Prop := Forall (fun p => simple (fst p) /\ simple (snd p)) eqs.
Definition vars_eqs (eqs : list (ty * ty)) : list nat := flat_map (fun p => ftv (fst p) ++ ftv (snd p)) eqs.
Fixpoint size_eqs (eqs : list (ty * ty)) : nat :=
  match eqs with [] => 0 | p :: r => tsize (fst p) + tsize (snd p) + size_eqs r end.
Definition nvars (eqs : list (ty * ty)) : nat := length (nodup Nat.eq_dec (vars_eqs eqs)).

Lemma tsize_pos : forall t, 1 <= tsize t.
Proof. destruct t; simpl; lia. Qed.

Lemma simple_subst1 : forall x u t, simple u -> simple t -> simple (subst1 x u t).
Proof.
  unfold subst1; induction t; simpl; intros Su St; auto; try tauto.
  unfold single. destruct (x =? n); simpl; auto.
Qed.

Lemma simple_subst_eqs : forall x u eqs, simple u -> simple_eqs eqs -> simple_eqs (subst_eqs x u eqs).
Proof.
  unfold simple_eqs, subst_eqs; intros. rewrite Forall_map. eapply Forall_impl; [|eassumption].
  simpl; intros p [A B]; split; apply simple_subst1; auto.
Qed.

Lemma occurs_ftv : forall x t, occurs x t = true <-> In x (ftv t).
Proof.
  induction t; simpl.
  - split; [intros H; apply Nat.eqb_eq in H; auto | intros [H|[]]; apply Nat.eqb_eq; auto].
  - split; [discriminate | tauto].
  - split; [discriminate | tauto].
  - rewrite orb_true_iff, in_app_iff, IHt1, IHt2; tauto.
  - exact IHt.
  - split; [discriminate | tauto].
  - rewrite orb_true_iff, in_app_iff, IHt1, IHt2; tauto.
Qed.

Lemma ftv_subst1 : forall x u t y, In y (ftv (subst1 x u t)) -> (In y (ftv t) /\ y <> x) \/ In y (ftv u).
Proof.
  intros x u t y I. unfold subst1 in I. apply ftv_tsubst in I as (z & A & B).
  unfold single in B. destruct (x =? z) eqn:E; auto.
  simpl in B. destruct B as [<-|[]]. left; split; auto. apply Nat.eqb_neq in E; auto.
Qed.

Lemma vars_subst_eqs : forall x u eqs y,
  In y (vars_eqs (subst_eqs x u eqs)) -> (In y (vars_eqs eqs) /\ y <> x) \/ In y (ftv u).
Proof.
  induction eqs as [|[a b] eqs]; simpl; intros y I; try tauto.
  unfold vars_eqs in *; simpl in *.
  apply in_app_or in I as [I|I].
  - apply in_app_or in I as [I|I]; apply ftv_subst1 in I as [[A B]|A]; auto;
      left; split; auto; apply in_or_app; left; apply in_or_app; auto.
  - apply IHeqs in I as [[A B]|A]; auto. left; split; auto. apply in_or_app; auto.
Qed.

Lemma nodup_len_incl : forall A B : list nat, incl A B ->
  length (nodup Nat.eq_dec A) <= length (nodup Nat.eq_dec B).
Proof.
  intros A B I. apply NoDup_incl_length. apply NoDup_nodup.
  intros x Hx. apply nodup_In. apply I. eapply nodup_In; eauto.
Qed.

Lemma nodup_len_lt : forall (A B : list nat) x, incl A B -> In x B -> ~ In x A ->
  length (nodup Nat.eq_dec A) < length (nodup Nat.eq_dec B).
Proof.
  intros A B x I Hb Ha.
  assert (L : length (x :: nodup Nat.eq_dec A) <= length (nodup Nat.eq_dec B)).
  { apply NoDup_incl_length.
    - constructor. rewrite nodup_In; auto. apply NoDup_nodup.
    - intros y [<-|Hy]. apply nodup_In; auto. apply nodup_In. apply I. eapply nodup_In; eauto. }
  simpl in L. lia.
Qed.

Lemma nvars_bind : forall x u rest a b,
  occurs x u = false ->
  incl (x :: ftv u) (ftv a ++ ftv b) ->
  nvars (subst_eqs x u rest) < nvars ((a, b) :: rest).
Proof.
  intros x u rest a b O I. unfold nvars. apply nodup_len_lt with (x := x).
  - intros y Hy. apply vars_subst_eqs in Hy as [[A B]|A].
    + unfold vars_eqs; simpl. apply in_or_app; auto.
    + unfold vars_eqs; simpl. apply in_or_app; left. apply I. right; auto.
  - unfold vars_eqs; simpl. apply in_or_app; left. apply I. left; auto.
  - intros Hx. apply vars_subst_eqs in Hx as [[A B]|A]; auto.
    apply occurs_ftv in A. congruence.
Qed.

Lemma nvars_incl : forall e1 e2, incl (vars_eqs e1) (vars_eqs e2) -> nvars e1 <= nvars e2.
Proof. intros. apply nodup_len_incl; auto. Qed.

Lemma fuel_lift : forall f n eqs k, unify f n eqs <> OutOfFuel -> unify (f + k) n eqs = unify f n eqs.
Proof. intros. eapply unify_fuel_mono; eauto. Qed.

Ltac inc := intros y Hy; unfold vars_eqs in *; simpl in *; repeat rewrite in_app_iff in Hy; repeat rewrite in_app_iff; simpl in *; tauto.

Lemma terminates_aux : forall k m eqs,
  simple_eqs eqs -> nvars eqs <= k -> size_eqs eqs <= m ->
  exists fuel, forall n, unify fuel n eqs <> OutOfFuel.
Proof.
  induction k as [|k IHk]; intro m; induction m as [|m IHm]; intros eqs S NV SZ;
    (destruct eqs as [|[t1 t2] rest]; [exists 1; intros; simpl; discriminate|]);
    try (simpl in SZ; pose proof (tsize_pos t1); pose proof (tsize_pos t2); lia).
  (* k = 0 and k = S k share the script; binding a variable needs a variable to exist *)
  all: inv S; simpl in H1; destruct H1 as [S1 S2]; rename H2 into SR.
  all: assert (REC : forall eqs', simple_eqs eqs' -> incl (vars_eqs eqs') (vars_eqs ((t1, t2) :: rest)) ->
                 size_eqs eqs' <= m -> exists fuel, forall n, unify fuel n eqs' <> OutOfFuel)
         by (intros eqs' Se Ie Le; apply IHm; auto; eapply Nat.le_trans; [apply nvars_incl; eauto | auto]).
  - (* k = 0: no variables *)
    assert (NOV : forall x, ~ In x (ftv t1 ++ ftv t2)).
    { intros x Hx. unfold nvars, vars_eqs in NV; simpl in NV.
      assert (In x (nodup Nat.eq_dec ((ftv t1 ++ ftv t2) ++ flat_map (fun p => ftv (fst p) ++ ftv (snd p)) rest))).
      { apply nodup_In. apply in_or_app; auto. }
      destruct (nodup Nat.eq_dec _); simpl in *; [tauto | lia]. }
    destruct t1, t2; simpl in S1, S2; try tauto;
      try (match goal with
           | |- context [(TVar ?x, _) :: rest] => exfalso; apply (NOV x); rewrite in_app_iff; simpl; tauto
           | |- context [(_, TVar ?x) :: rest] => exfalso; apply (NOV x); rewrite in_app_iff; simpl; tauto
           end; fail);
      try (exists 1; intros; simpl; discriminate).
    + destruct (REC rest SR) as [f Hf]; [inc | simpl in SZ; lia|].
      exists (S f). intros n. simpl. destruct (k =? k0); auto; discriminate.
    + destruct (REC rest SR) as [f Hf]; [inc | simpl in SZ; lia|].
      exists (S f). intros n. simpl. destruct (c =? c0); auto; discriminate.
    + match goal with |- exists fuel, forall n, unify fuel n ((TFun ?a ?b, TFun ?a' ?b') :: _) <> _ =>
        destruct (REC ((a, a') :: (b, b') :: rest)) as [f Hf] end.
      * repeat (constructor; simpl; try tauto).
      * inc.
      * simpl in *. lia.
      * exists (S f). intros n. simpl. auto.
    + match goal with |- exists fuel, forall n, unify fuel n ((TArray ?a, TArray ?a') :: _) <> _ =>
        destruct (REC ((a, a') :: rest)) as [f Hf] end.
      * repeat (constructor; simpl; try tauto).
      * inc.
      * simpl in *. lia.
      * exists (S f). intros n. simpl. auto.
    + destruct (REC rest SR) as [f Hf]; [inc | simpl in SZ; lia|].
      exists (S f). intros n. simpl. auto.
  - (* k = S k *)
    assert (BIND : forall x u, simple u -> incl (x :: ftv u) (ftv t1 ++ ftv t2) ->
      exists fuel, forall n,
        (if occurs x u then Fail else
           match unify fuel n (subst_eqs x u rest) with
           | Ok (s0, n0) => Ok ((x, u) :: s0, n0) | Fail => Fail | OutOfFuel => OutOfFuel end) <> (@OutOfFuel (subst * nat))).
    { intros x u Su Iu. destruct (occurs x u) eqn:O.
      - exists 0. intros; discriminate.
      - destruct (IHk (size_eqs (subst_eqs x u rest)) (subst_eqs x u rest)) as [f Hf]; auto.
        + apply simple_subst_eqs; auto.
        + pose proof (nvars_bind x u rest t1 t2 O Iu). lia.
        + exists f. intros n. specialize (Hf n).
          destruct (unify f n (subst_eqs x u rest)) as [[s0 n0]| |]; try discriminate. congruence. }
    destruct t1, t2; simpl in S1, S2; try tauto;
      try (exists 1; intros; simpl; discriminate);
      try (match goal with
           | |- exists fuel, forall n, unify fuel n ((TVar ?x, ?u) :: _) <> _ =>
               destruct (BIND x u) as [f Hf]; [simpl; tauto | inc |
                 exists (S f); intros nn; simpl; apply Hf]
           | |- exists fuel, forall n, unify fuel n ((?u, TVar ?x) :: _) <> _ =>
               destruct (BIND x u) as [f Hf]; [simpl; tauto | inc |
                 exists (S f); intros nn; simpl; apply Hf]
           end; fail).
    + (* var var *)
      destruct (REC rest SR) as [f1 Hf1]; [inc | simpl in SZ; lia|].
      destruct (BIND n (TVar n0)) as [f2 Hf2]; [simpl; auto | inc |].
      exists (S (f1 + f2)). intros n1. simpl.
      destruct (n =? n0) eqn:E.
      * rewrite fuel_lift; auto.
      * specialize (Hf2 n1). simpl in Hf2. rewrite E in Hf2.
        rewrite (Nat.add_comm f1 f2). rewrite fuel_lift; auto.
        intros C. rewrite C in Hf2. apply Hf2. reflexivity.
    + destruct (REC rest SR) as [f Hf]; [inc | simpl in SZ; lia|].
      exists (S f). intros nn. simpl. destruct (k0 =? k1); auto; discriminate.
    + destruct (REC rest SR) as [f Hf]; [inc | simpl in SZ; lia|].
      exists (S f). intros nn. simpl. destruct (c =? c0); auto; discriminate.
    + match goal with |- exists fuel, forall n, unify fuel n ((TFun ?a ?b, TFun ?a' ?b') :: _) <> _ =>
        destruct (REC ((a, a') :: (b, b') :: rest)) as [f Hf] end.
      * repeat (constructor; simpl; try tauto).
      * inc.
      * simpl in *. lia.
      * exists (S f). intros nn. simpl. auto.
    + match goal with |- exists fuel, forall n, unify fuel n ((TArray ?a, TArray ?a') :: _) <> _ =>
        destruct (REC ((a, a') :: rest)) as [f Hf] end.
      * repeat (constructor; simpl; try tauto).
      * inc.
      * simpl in *. lia.
      * exists (S f). intros nn. simpl. auto.
    + destruct (REC rest SR) as [f Hf]; [inc | simpl in SZ; lia|].
      exists (S f). intros nn. simpl. auto.
Qed.

(* On equations without record types unification terminates: enough fuel exists, and (by
   unify_fuel_mono) any larger amount gives the same answer. *)
Theorem unify_terminates_partial : forall eqs,
  simple_eqs eqs ->
  exists fuel0, forall fuel n, fuel0 <= fuel -> unify fuel n eqs <> OutOfFuel.
Proof.
  intros eqs S.
  destruct (terminates_aux (nvars eqs) (size_eqs eqs) eqs S (Nat.le_refl _) (Nat.le_refl _)) as [f Hf].
  exists f. intros fuel n L.
  specialize (Hf n).
  replace fuel with (f + (fuel - f)) by lia.
  destruct (unify f n eqs) eqn:Q.
  - erewrite unify_fuel_mono; eauto; discriminate.
  - erewrite unify_fuel_mono; eauto; discriminate.
  - congruence.
Qed.

Definition unify_terminates_full_stmt : Prop :=
  forall eqs, exists fuel0, forall fuel n, fuel0 <= fuel -> unify fuel n eqs <> OutOfFuel.


(* ------------------------------------------------------------------ metamorphic properties of W *)

(* (1) renaming of program variables by an injective map *)
Fixpoint ren_expr (f : nat -> nat) (e : expr) : expr :=
  match e with
  | EInt => EInt
  | EStr => EStr
  | EVar x => EVar (f x)
  | ELam x e1 => ELam (f x) (ren_expr f e1)
  | EApp e1 e2 => EApp (ren_expr f e1) (ren_expr f e2)
  | ELet x e1 e2 => ELet (f x) (ren_expr f e1) (ren_expr f e2)
  | EFix g x e1 => EFix (f g) (f x) (ren_expr f e1)
  | EIf c e1 e2 => EIf (ren_expr f c) (ren_expr f e1) (ren_expr f e2)
  | EEq e1 e2 => EEq (ren_expr f e1) (ren_expr f e2)
  | EFNil => EFNil
  | EFCons l e1 fs => EFCons l (ren_expr f e1) (ren_expr f fs)
  | EProj e1 l => EProj (ren_expr f e1) l
  | EANil => EANil
  | EACons e1 es => EACons (ren_expr f e1) (ren_expr f es)
  end.

Definition ren_env (f : nat -> nat) (G : env) : env := map (fun p => (f (fst p), snd p)) G.

Definition injective (f : nat -> nat) : Prop := forall x y, f x = f y -> x = y.

Lemma lookup_ren : forall f G x, injective f -> lookup (f x) (ren_env f G) = lookup x G.
Proof.
  induction G as [|[y t] G]; simpl; intros x I; auto.
  destruct (x =? y) eqn:E.
  - apply Nat.eqb_eq in E; subst. rewrite Nat.eqb_refl. reflexivity.
  - destruct (f x =? f y) eqn:E2.
    + apply Nat.eqb_eq in E2. apply I in E2. subst. rewrite Nat.eqb_refl in E. discriminate.
    + apply IHG; auto.
Qed.

Lemma ren_env_apply : forall f s G, apply_env s (ren_env f G) = ren_env f (apply_env s G).
Proof. intros. unfold apply_env, ren_env. rewrite !map_map. reflexivity. Qed.

Lemma ftv_env_ren : forall f G, ftv_env (ren_env f G) = ftv_env G.
Proof. induction G as [|[y t] G]; simpl; auto. unfold ftv_env in *; simpl. rewrite IHG. reflexivity. Qed.

Lemma gen_ren : forall f G t, gen (ren_env f G) t = gen G t.
Proof. intros. unfold gen, gen_vars. rewrite ftv_env_ren. reflexivity. Qed.

Lemma is_fields_ren : forall f e, is_fields (ren_expr f e) = is_fields e.
Proof. induction e; simpl; auto. Qed.
Lemma has_label_ren : forall f l e, has_label l (ren_expr f e) = has_label l e.
Proof. induction e; simpl; auto. rewrite IHe2. reflexivity. Qed.
Lemma is_elems_ren : forall f e, is_elems (ren_expr f e) = is_elems e.
Proof. induction e; simpl; auto. Qed.

(* Renaming the variables of a program (bound and free, consistently) does not change what is
   inferred - not even the numbering of the type variables. *)
Theorem infer_alpha_partial : forall f, injective f ->
  forall e fuel G n, infer fuel (ren_env f G) (ren_expr f e) n = infer fuel G e n.
Proof.
  intros f I. induction e; intros fuel G n0; simpl; auto.
  - rewrite lookup_ren; auto.
  - change ((f x, TVar n0) :: ren_env f G) with (ren_env f ((x, TVar n0) :: G)). rewrite IHe. reflexivity.
  - rewrite IHe1. destruct (infer fuel G e1 n0) as [[[s1 t1] n1]| |]; simpl; auto.
    rewrite ren_env_apply, IHe2. reflexivity.
  - rewrite IHe1. destruct (infer fuel G e1 n0) as [[[s1 t1] n1]| |]; simpl; auto.
    rewrite ren_env_apply, gen_ren.
    change ((f x, gen (apply_env s1 G) t1) :: ren_env f (apply_env s1 G))
      with (ren_env f ((x, gen (apply_env s1 G) t1) :: apply_env s1 G)).
    rewrite IHe2. reflexivity.
  - change ((f x, TVar n0) :: (f f0, TFun (TVar n0) (TVar (S n0))) :: ren_env f G)
      with (ren_env f ((x, TVar n0) :: (f0, TFun (TVar n0) (TVar (S n0))) :: G)).
    rewrite IHe. reflexivity.
  - rewrite IHe1. destruct (infer fuel G e1 n0) as [[[s0 t0] n00]| |]; simpl; auto.
    destruct (unify fuel n00 [(t0, tbool)]) as [[u0 m0]| |]; simpl; auto.
    rewrite ren_env_apply, IHe2.
    destruct (infer fuel (apply_env (s0 ++ u0) G) e2 m0) as [[[s1 t1] n1]| |]; simpl; auto.
    rewrite ren_env_apply, IHe3. reflexivity.
  - rewrite IHe1. destruct (infer fuel G e1 n0) as [[[s1 t1] n1]| |]; simpl; auto.
    destruct (unify fuel n1 [(t1, tint)]) as [[u1 m1]| |]; simpl; auto.
    rewrite ren_env_apply, IHe2. reflexivity.
  - rewrite is_fields_ren, has_label_ren.
    destruct (negb (is_fields e2) || has_label l e2); auto.
    rewrite IHe1. destruct (infer fuel G e1 n0) as [[[s1 t1] n1]| |]; simpl; auto.
    rewrite ren_env_apply, IHe2. reflexivity.
  - rewrite IHe. reflexivity.
  - rewrite is_elems_ren. destruct (negb (is_elems e2)); auto.
    rewrite IHe1. destruct (infer fuel G e1 n0) as [[[s1 t1] n1]| |]; simpl; auto.
    rewrite ren_env_apply, IHe2. reflexivity.
Qed.

(* (2) an unused binding *)
Fixpoint occ (x : nat) (e : expr) : bool :=
  match e with
  | EInt | EStr | EFNil | EANil => false
  | EVar y => x =? y
  | ELam y e1 => (x =? y) || occ x e1
  | EApp e1 e2 | EEq e1 e2 | EACons e1 e2 => occ x e1 || occ x e2
  | ELet y e1 e2 => (x =? y) || occ x e1 || occ x e2
  | EFix g y e1 => (x =? g) || (x =? y) || occ x e1
  | EIf c e1 e2 => occ x c || occ x e1 || occ x e2
  | EFCons _ e1 fs => occ x e1 || occ x fs
  | EProj e1 _ => occ x e1
  end.

Lemma lookup_insert : forall y x sc G1 G2, x <> y ->
  lookup y (G1 ++ (x, sc) :: G2) = lookup y (G1 ++ G2).
Proof.
  induction G1 as [|[z t] G1]; simpl; intros G2 N.
  - destruct (y =? x) eqn:E; auto. apply Nat.eqb_eq in E; congruence.
  - destruct (y =? z); auto.
Qed.

Lemma apply_closed : forall s t, ftv t = [] -> apply s t = t.
Proof.
  intros s t H. rewrite apply_tsubst. rewrite <- (tsubst_id t) at 2.
  apply tsubst_ext_in. intros x I. rewrite H in I. destruct I.
Qed.

Lemma apply_env_insert : forall s x sc G1 G2, ftv sc = [] ->
  apply_env s (G1 ++ (x, sc) :: G2) = apply_env s G1 ++ (x, sc) :: apply_env s G2.
Proof.
  intros. unfold apply_env. rewrite map_app. simpl. rewrite apply_closed; auto.
Qed.

Lemma apply_env_app : forall s G1 G2, apply_env s (G1 ++ G2) = apply_env s G1 ++ apply_env s G2.
Proof. intros. unfold apply_env. apply map_app. Qed.

Lemma ftv_env_insert : forall x sc G1 G2, ftv sc = [] ->
  ftv_env (G1 ++ (x, sc) :: G2) = ftv_env (G1 ++ G2).
Proof.
  intros. unfold ftv_env. rewrite !flat_map_app. simpl. rewrite H. reflexivity.
Qed.

Lemma gen_insert : forall x sc G1 G2 t, ftv sc = [] ->
  gen (G1 ++ (x, sc) :: G2) t = gen (G1 ++ G2) t.
Proof. intros. unfold gen, gen_vars. rewrite ftv_env_insert; auto. Qed.

Lemma infer_insert : forall x sc, ftv sc = [] ->
  forall e fuel G1 G2 n, occ x e = false ->
  infer fuel (G1 ++ (x, sc) :: G2) e n = infer fuel (G1 ++ G2) e n.
Proof.
  intros x sc C. induction e; intros fuel G1 G2 n0 O; simpl in *; auto;
    repeat match goal with H : _ || _ = false |- _ => apply orb_false_iff in H; destruct H end.
  - rewrite lookup_insert; auto. apply Nat.eqb_neq in O. auto.
  - pose proof (IHe fuel ((x0, TVar n0) :: G1) G2 (S n0)) as Q; simpl in Q; rewrite Q; auto.
  - rewrite IHe1; auto. destruct (infer fuel (G1 ++ G2) e1 n0) as [[[s1 t1] n1]| |]; simpl; auto.
    rewrite apply_env_insert, apply_env_app; auto. rewrite IHe2; auto.
  - rewrite IHe1; auto. destruct (infer fuel (G1 ++ G2) e1 n0) as [[[s1 t1] n1]| |]; simpl; auto.
    rewrite apply_env_insert, apply_env_app; auto. rewrite gen_insert; auto.
    pose proof (IHe2 fuel ((x0, gen (apply_env s1 G1 ++ apply_env s1 G2) t1) :: apply_env s1 G1) (apply_env s1 G2) n1) as Q;
      simpl in Q; rewrite Q; auto.
  - pose proof (IHe fuel ((x0, TVar n0) :: (f, TFun (TVar n0) (TVar (S n0))) :: G1) G2 (S (S n0))) as Q;
      simpl in Q; rewrite Q; auto.
  - rewrite IHe1; auto. destruct (infer fuel (G1 ++ G2) e1 n0) as [[[s0 t0] n00]| |]; simpl; auto.
    destruct (unify fuel n00 [(t0, tbool)]) as [[u0 m0]| |]; simpl; auto.
    rewrite apply_env_insert, apply_env_app; auto. rewrite IHe2; auto.
    destruct (infer fuel (apply_env (s0 ++ u0) G1 ++ apply_env (s0 ++ u0) G2) e2 m0) as [[[s1 t1] n1]| |]; simpl; auto.
    rewrite apply_env_insert, apply_env_app; auto. rewrite IHe3; auto.
  - rewrite IHe1; auto. destruct (infer fuel (G1 ++ G2) e1 n0) as [[[s1 t1] n1]| |]; simpl; auto.
    destruct (unify fuel n1 [(t1, tint)]) as [[u1 m1]| |]; simpl; auto.
    rewrite apply_env_insert, apply_env_app; auto. rewrite IHe2; auto.
  - destruct (negb (is_fields e2) || has_label l e2); auto.
    rewrite IHe1; auto. destruct (infer fuel (G1 ++ G2) e1 n0) as [[[s1 t1] n1]| |]; simpl; auto.
    rewrite apply_env_insert, apply_env_app; auto. rewrite IHe2; auto.
  - rewrite IHe; auto.
  - destruct (negb (is_elems e2)); auto.
    rewrite IHe1; auto. destruct (infer fuel (G1 ++ G2) e1 n0) as [[[s1 t1] n1]| |]; simpl; auto.
    rewrite apply_env_insert, apply_env_app; auto. rewrite IHe2; auto.
Qed.

Lemma apply_env_nil : forall G, apply_env [] G = G.
Proof. induction G as [|[y t] G]; simpl; auto. f_equal. apply IHG. Qed.

(* Wrapping a program in a binding `let x = <literal>` of a variable that does not occur in it
   changes nothing: same acceptance, same substitution, same type, same variable numbering.
   (Partial: the unused binding is a literal; for an arbitrary typable definition the inferred type
   is the same only up to renaming of type variables, which is not proved.) *)
Theorem infer_unused_let_partial : forall x e fuel G n,
  occ x e = false ->
  infer fuel G (ELet x EInt e) n = infer fuel G e n /\
  infer fuel G (ELet x EStr e) n = infer fuel G e n.
Proof.
  intros x e fuel G n O. split; simpl; rewrite apply_env_nil.
  - assert (E : gen G tint = tint) by reflexivity. rewrite E.
    pose proof (infer_insert x tint eq_refl e fuel [] G n O) as Q; simpl in Q; rewrite Q.
    destruct (infer fuel G e n) as [[[s t] n']| |]; reflexivity.
  - assert (E : gen G tstring = tstring) by reflexivity. rewrite E.
    pose proof (infer_insert x tstring eq_refl e fuel [] G n O) as Q; simpl in Q; rewrite Q.
    destruct (infer fuel G e n) as [[[s t] n']| |]; reflexivity.
Qed.

Definition infer_unused_let_full_stmt : Prop :=
  forall x e1 e2 fuel t1 t2,
    occ x e2 = false -> infer_top fuel e1 = Ok t1 -> infer_top fuel e2 = Ok t2 ->
    exists t, infer_top fuel (ELet x e1 e2) = Ok t /\ alpha_eq t t2 = true.


(* ------------------------------------------------------------------ general alpha-equivalence *)

(* [aeq m e e']: e and e' are equal up to the names of their bound variables; m lists the pairs of
   corresponding binders in scope, innermost first (a variable is related to a variable when both
   refer to the binder at the same position, or both are free). *)
Inductive aeq : list (nat * nat) -> expr -> expr -> Prop :=
| AE_Int m : aeq m EInt EInt
| AE_Str m : aeq m EStr EStr
| AE_Var m x x' : index_of x (map fst m) = index_of x' (map snd m) ->
    (index_of x (map fst m) = None -> x = x') -> aeq m (EVar x) (EVar x')
| AE_Lam m x x' e e' : aeq ((x, x') :: m) e e' -> aeq m (ELam x e) (ELam x' e')
| AE_App m a a' b b' : aeq m a a' -> aeq m b b' -> aeq m (EApp a b) (EApp a' b')
| AE_Let m x x' a a' b b' : aeq m a a' -> aeq ((x, x') :: m) b b' -> aeq m (ELet x a b) (ELet x' a' b')
| AE_Fix m f f' x x' e e' : aeq ((x, x') :: (f, f') :: m) e e' -> aeq m (EFix f x e) (EFix f' x' e')
| AE_If m c c' a a' b b' : aeq m c c' -> aeq m a a' -> aeq m b b' -> aeq m (EIf c a b) (EIf c' a' b')
| AE_Eq m a a' b b' : aeq m a a' -> aeq m b b' -> aeq m (EEq a b) (EEq a' b')
| AE_FNil m : aeq m EFNil EFNil
| AE_FCons m l a a' b b' : aeq m a a' -> aeq m b b' -> aeq m (EFCons l a b) (EFCons l a' b')
| AE_Proj m l a a' : aeq m a a' -> aeq m (EProj a l) (EProj a' l)
| AE_ANil m : aeq m EANil EANil
| AE_ACons m a a' b b' : aeq m a a' -> aeq m b b' -> aeq m (EACons a b) (EACons a' b').

(* two environments with the same types under corresponding names *)
Definition env3 := list (nat * nat * ty).
Definition envL (M : env3) : env := map (fun p => (fst (fst p), snd p)) M.
Definition envR (M : env3) : env := map (fun p => (snd (fst p), snd p)) M.
Definition names (M : env3) : list (nat * nat) := map fst M.
Definition map3 (f : ty -> ty) (M : env3) : env3 := map (fun p => (fst p, f (snd p))) M.

Lemma apply_env_L : forall s M, apply_env s (envL M) = envL (map3 (apply s) M).
Proof. intros. unfold apply_env, envL, map3. rewrite !map_map. reflexivity. Qed.
Lemma apply_env_R : forall s M, apply_env s (envR M) = envR (map3 (apply s) M).
Proof. intros. unfold apply_env, envR, map3. rewrite !map_map. reflexivity. Qed.
Lemma names_map3 : forall f M, names (map3 f M) = names M.
Proof. intros. unfold names, map3. rewrite map_map. reflexivity. Qed.
Lemma ftv_env_LR : forall M, ftv_env (envL M) = ftv_env (envR M).
Proof. induction M as [|[[x x'] t] M]; simpl; auto. unfold ftv_env in *; simpl. rewrite IHM. reflexivity. Qed.
Lemma gen_LR : forall M t, gen (envL M) t = gen (envR M) t.
Proof. intros. unfold gen, gen_vars. rewrite ftv_env_LR. reflexivity. Qed.

Lemma lookup_LR : forall M x x',
  index_of x (map fst (names M)) = index_of x' (map snd (names M)) ->
  lookup x (envL M) = lookup x' (envR M).
Proof.
  induction M as [|[[y y'] t] M]; simpl; intros x x' H; auto.
  destruct (x =? y) eqn:E; destruct (x' =? y') eqn:E'; auto.
  - destruct (index_of x' (map snd (names M))); simpl in H; discriminate.
  - destruct (index_of x (map fst (names M))); simpl in H; discriminate.
  - apply IHM.
    destruct (index_of x (map fst (names M))), (index_of x' (map snd (names M))); simpl in H; congruence.
Qed.

Lemma aeq_shape : forall m e e', aeq m e e' ->
  is_fields e = is_fields e' /\ is_elems e = is_elems e' /\ forall l, has_label l e = has_label l e'.
Proof.
  induction 1; simpl; auto.
  - destruct IHaeq2 as (A & B & C). repeat split; auto. intros l0. rewrite C. reflexivity.
  - destruct IHaeq2 as (A & B & C). repeat split; auto.
Qed.

(* Alpha-equivalent programs get the same substitution, type and variable numbering. *)
Theorem infer_alpha_gen : forall m e e', aeq m e e' ->
  forall M fuel n, names M = m -> infer fuel (envL M) e n = infer fuel (envR M) e' n.
Proof.
  induction 1; intros M fuel n0 N; simpl; auto.
  - subst m. rewrite (lookup_LR M x x'); auto.
  - rewrite (IHaeq ((x, x', TVar n0) :: M)); [reflexivity | simpl; congruence].
  - rewrite (IHaeq1 M); auto. destruct (infer fuel (envR M) a' n0) as [[[s1 t1] n1]| |]; simpl; auto.
    rewrite apply_env_L, apply_env_R. rewrite IHaeq2; [reflexivity | rewrite names_map3; auto].
  - rewrite (IHaeq1 M); auto. destruct (infer fuel (envR M) a' n0) as [[[s1 t1] n1]| |]; simpl; auto.
    rewrite apply_env_L, apply_env_R, gen_LR.
    rewrite (IHaeq2 ((x, x', gen (envR (map3 (apply s1) M)) t1) :: map3 (apply s1) M));
      [reflexivity | simpl; rewrite names_map3; congruence].
  - rewrite (IHaeq ((x, x', TVar n0) :: (f, f', TFun (TVar n0) (TVar (S n0))) :: M));
      [reflexivity | simpl; congruence].
  - rewrite (IHaeq1 M); auto. destruct (infer fuel (envR M) c' n0) as [[[s0 t0] n00]| |]; simpl; auto.
    destruct (unify fuel n00 [(t0, tbool)]) as [[u0 m0]| |]; simpl; auto.
    rewrite apply_env_L, apply_env_R. rewrite IHaeq2; [| rewrite names_map3; auto].
    destruct (infer fuel (envR (map3 (apply (s0 ++ u0)) M)) a' m0) as [[[s1 t1] n1]| |]; simpl; auto.
    rewrite apply_env_L, apply_env_R. rewrite IHaeq3; [reflexivity | rewrite !names_map3; auto].
  - rewrite (IHaeq1 M); auto. destruct (infer fuel (envR M) a' n0) as [[[s1 t1] n1]| |]; simpl; auto.
    destruct (unify fuel n1 [(t1, tint)]) as [[u1 m1]| |]; simpl; auto.
    rewrite apply_env_L, apply_env_R. rewrite IHaeq2; [reflexivity | rewrite names_map3; auto].
  - destruct (aeq_shape _ _ _ H0) as (A & _ & C). rewrite A, C.
    destruct (negb (is_fields b') || has_label l b'); auto.
    rewrite (IHaeq1 M); auto. destruct (infer fuel (envR M) a' n0) as [[[s1 t1] n1]| |]; simpl; auto.
    rewrite apply_env_L, apply_env_R. rewrite IHaeq2; [reflexivity | rewrite names_map3; auto].
  - rewrite (IHaeq M); auto.
  - destruct (aeq_shape _ _ _ H0) as (_ & B & _). rewrite B.
    destruct (negb (is_elems b')); auto.
    rewrite (IHaeq1 M); auto. destruct (infer fuel (envR M) a' n0) as [[[s1 t1] n1]| |]; simpl; auto.
    rewrite apply_env_L, apply_env_R. rewrite IHaeq2; [reflexivity | rewrite names_map3; auto].
Qed.

(* closed programs *)
Theorem infer_alpha : forall e e' fuel, aeq [] e e' -> infer_top fuel e = infer_top fuel e'.
Proof.
  intros e e' fuel H. unfold infer_top.
  pose proof (infer_alpha_gen [] e e' H [] fuel 0 eq_refl) as Q. simpl in Q. rewrite Q. reflexivity.
Qed.


(* ------------------------------------------------------------------ shifting type variables *)

Definition shift (k : nat) (t : ty) : ty := tsubst (fun x => TVar (x + k)) t.
Definition shift_sub (k : nat) (s : subst) : subst := map (fun p => (fst p + k, shift k (snd p))) s.
Definition shift_eqs (k : nat) (eqs : list (ty * ty)) : list (ty * ty) :=
  map (fun p => (shift k (fst p), shift k (snd p))) eqs.
Definition shift_env (k : nat) (G : env) : env := map (fun p => (fst p, shift k (snd p))) G.

Lemma occurs_shift : forall k x t, occurs (x + k) (shift k t) = occurs x t.
Proof.
  unfold shift; induction t; simpl; auto.
  - destruct (x =? n) eqn:E.
    + apply Nat.eqb_eq in E; subst. apply Nat.eqb_refl.
    + apply Nat.eqb_neq in E. apply Nat.eqb_neq. lia.
  - rewrite IHt1, IHt2; auto.
  - rewrite IHt1, IHt2; auto.
Qed.

Lemma subst1_shift : forall k x u t, subst1 (x + k) (shift k u) (shift k t) = shift k (subst1 x u t).
Proof.
  intros. unfold subst1, shift. rewrite !tsubst_comp. apply tsubst_ext. intros y. simpl.
  unfold single. destruct (x =? y) eqn:E.
  - apply Nat.eqb_eq in E; subst. rewrite Nat.eqb_refl. reflexivity.
  - assert (E' : x + k =? y + k = false) by (apply Nat.eqb_neq; apply Nat.eqb_neq in E; lia).
    rewrite E'. reflexivity.
Qed.

Lemma subst_eqs_shift : forall k x u eqs,
  subst_eqs (x + k) (shift k u) (shift_eqs k eqs) = shift_eqs k (subst_eqs x u eqs).
Proof.
  intros. unfold subst_eqs, shift_eqs. rewrite !map_map. apply map_ext. intros [a b]; simpl.
  rewrite !subst1_shift. reflexivity.
Qed.

Lemma row_closed_shift : forall k r, row_closed (shift k r) = row_closed r.
Proof. unfold shift; induction r; simpl; auto. Qed.

Lemma row_tail_is_shift : forall k b r, row_tail_is (b + k) (shift k r) = row_tail_is b r.
Proof.
  unfold shift; induction r; simpl; auto.
  destruct (b =? n) eqn:E.
  - apply Nat.eqb_eq in E; subst. apply Nat.eqb_refl.
  - apply Nat.eqb_neq. apply Nat.eqb_neq in E. lia.
Qed.

Definition shift_extr (k : nat) (x : extr) : extr :=
  match x with
  | ExFound a r => ExFound (shift k a) (shift k r)
  | ExTail b r => ExTail (b + k) (shift k r)
  | ExNone => ExNone
  end.

Lemma extract_shift : forall k l d row, extract l (shift k d) (shift k row) = shift_extr k (extract l d row).
Proof.
  intros k l d. unfold shift. induction row; simpl; auto.
  destruct (l =? l0); auto.
  fold (shift k row2). fold (shift k d) in *. unfold shift in *. rewrite IHrow2.
  destruct (extract l d row2); simpl; auto.
Qed.

Definition shift_ures (k : nat) (r : res (subst * nat)) : res (subst * nat) :=
  match r with Ok (s, n) => Ok (shift_sub k s, n + k) | Fail => Fail | OutOfFuel => OutOfFuel end.

Lemma eqb_shift : forall k a b, (a + k =? b + k) = (a =? b).
Proof.
  intros. destruct (a =? b) eqn:E.
  - apply Nat.eqb_eq in E; subst. apply Nat.eqb_refl.
  - apply Nat.eqb_neq. apply Nat.eqb_neq in E. lia.
Qed.

Lemma unify_rcons : forall fuel n l a r l' a' r' rest,
  unify (S fuel) n ((RCons l a r, RCons l' a' r') :: rest) =
  if l =? l' then unify fuel n ((a, a') :: (r, r') :: rest)
  else if row_closed r && row_closed r' then Fail
  else match extract l (TVar n) (RCons l' a' r') with
       | ExFound a'' r'' => unify fuel n ((a, a'') :: (r, r'') :: rest)
       | ExTail b r'' =>
           if (b =? n) || occurs b a || row_tail_is b r then Fail
           else let u := RCons l a (TVar n) in
                match unify fuel (S n) (subst_eqs b u ((r, r'') :: rest)) with
                | Ok (s, n') => Ok ((b, u) :: s, n')
                | Fail => Fail
                | OutOfFuel => OutOfFuel
                end
       | ExNone => Fail
       end.
Proof. reflexivity. Qed.

Lemma unify_shift_row : forall k fuel,
  (forall n eqs, unify fuel (n + k) (shift_eqs k eqs) = shift_ures k (unify fuel n eqs)) ->
  forall n l a r l' a' r' rest,
  unify (S fuel) (n + k) ((RCons l (shift k a) (shift k r), RCons l' (shift k a') (shift k r')) :: shift_eqs k rest) =
  shift_ures k (unify (S fuel) n ((RCons l a r, RCons l' a' r') :: rest)).
Proof.
  intros k fuel IH n l a r l' a' r' rest.
  rewrite !unify_rcons.
  destruct (l =? l') eqn:El.
  - apply (IH n ((a, a') :: (r, r') :: rest)).
  - rewrite !row_closed_shift. destruct (row_closed r && row_closed r'); auto.
    change (TVar (n + k)) with (shift k (TVar n)).
    change (RCons l' (shift k a') (shift k r')) with (shift k (RCons l' a' r')).
    rewrite extract_shift.
    destruct (extract l (TVar n) (RCons l' a' r')) as [a'' r''|b r''|]; unfold shift_extr; cbv beta iota; auto.
    + apply (IH n ((a, a'') :: (r, r'') :: rest)).
    + change (shift k (TVar n)) with (TVar (n + k)).
      rewrite eqb_shift, occurs_shift, row_tail_is_shift.
      destruct ((b =? n) || occurs b a || row_tail_is b r); auto.
      cbv zeta.
      change (RCons l (shift k a) (TVar (n + k))) with (shift k (RCons l a (TVar n))).
      change ((shift k r, shift k r'') :: shift_eqs k rest) with (shift_eqs k ((r, r'') :: rest)).
      rewrite subst_eqs_shift.
      change (S (n + k)) with (S n + k). rewrite IH.
      destruct (unify fuel (S n) (subst_eqs b (RCons l a (TVar n)) ((r, r'') :: rest))) as [[s0 n0]| |]; auto.
Qed.

Lemma unify_shift : forall k fuel n eqs,
  unify fuel (n + k) (shift_eqs k eqs) = shift_ures k (unify fuel n eqs).
Proof.
  intros k. induction fuel as [|fuel IH]; intros n eqs; auto.
  destruct eqs as [|[t1 t2] rest]; auto.
  assert (BIND : forall x u,
    (if occurs (x + k) (shift k u) then Fail else
       match unify fuel (n + k) (subst_eqs (x + k) (shift k u) (shift_eqs k rest)) with
       | Ok (s0, n0) => Ok ((x + k, shift k u) :: s0, n0) | Fail => Fail | OutOfFuel => OutOfFuel end) =
    shift_ures k
      (if occurs x u then Fail else
         match unify fuel n (subst_eqs x u rest) with
         | Ok (s0, n0) => Ok ((x, u) :: s0, n0) | Fail => Fail | OutOfFuel => OutOfFuel end)).
  { intros x u. rewrite occurs_shift. destruct (occurs x u); auto.
    rewrite subst_eqs_shift, IH. destruct (unify fuel n (subst_eqs x u rest)) as [[s0 n0]| |]; auto. }
  destruct t1, t2;
    try (apply (unify_shift_row k fuel IH); fail);
    simpl; auto;
    try (match goal with |- context [subst_eqs ?x ?u rest] =>
           match u with TVar _ => fail 1 | _ => exact (BIND x u) end end).
  - (* var var *)
    rewrite !eqb_shift. destruct (n0 =? n1) eqn:E.
    + apply IH.
    + pose proof (BIND n0 (TVar n1)) as B. simpl in B. rewrite eqb_shift in B. rewrite E in B. exact B.
  - destruct (k0 =? k1); auto; try apply IH.
  - destruct (c =? c0); auto; try apply IH.
  - apply (IH n ((t1_1, t2_1) :: (t1_2, t2_2) :: rest)).
  - apply (IH n ((t1, t2) :: rest)).
Qed.

Lemma unify1_shift : forall k fuel n a b,
  unify fuel (n + k) [(shift k a, shift k b)] = shift_ures k (unify fuel n [(a, b)]).
Proof. intros. exact (unify_shift k fuel n [(a, b)]). Qed.

Lemma shift_var : forall k n, shift k (TVar n) = TVar (n + k).
Proof. reflexivity. Qed.
Lemma shift_fun : forall k a b, shift k (TFun a b) = TFun (shift k a) (shift k b).
Proof. reflexivity. Qed.
Lemma shift_array : forall k a, shift k (TArray a) = TArray (shift k a).
Proof. reflexivity. Qed.
Lemma shift_cons : forall k l a b, shift k (RCons l a b) = RCons l (shift k a) (shift k b).
Proof. reflexivity. Qed.
Lemma shift_con : forall k c, shift k (TCon c) = TCon c.
Proof. reflexivity. Qed.

Lemma apply_shift : forall k s t, apply (shift_sub k s) (shift k t) = shift k (apply s t).
Proof.
  induction s as [|[x u] s]; intros t; simpl; auto.
  rewrite subst1_shift. apply IHs.
Qed.

Lemma shift_sub_app : forall k s1 s2, shift_sub k (s1 ++ s2) = shift_sub k s1 ++ shift_sub k s2.
Proof. intros. unfold shift_sub. apply map_app. Qed.

Lemma apply_env_shift : forall k s G, apply_env (shift_sub k s) (shift_env k G) = shift_env k (apply_env s G).
Proof.
  intros. unfold apply_env, shift_env. rewrite !map_map. apply map_ext. intros [x t]; simpl.
  rewrite apply_shift. reflexivity.
Qed.

Lemma lookup_shift : forall k x G, lookup x (shift_env k G) = option_map (shift k) (lookup x G).
Proof. induction G as [|[y t] G]; simpl; auto. destruct (x =? y); auto. Qed.

Lemma tinst_shift : forall k n sc, tinst (fresh_inst (n + k)) (shift k sc) = shift k (tinst (fresh_inst n) sc).
Proof.
  unfold shift; induction sc; simpl; auto; try congruence.
  unfold fresh_inst. f_equal. lia.
Qed.

Lemma gen_bound_shift : forall k sc, gen_bound (shift k sc) = gen_bound sc.
Proof. unfold shift; induction sc; simpl; auto. Qed.

Lemma ftv_shift : forall k t, ftv (shift k t) = map (fun x => x + k) (ftv t).
Proof. unfold shift; induction t; simpl; auto; rewrite map_app; congruence. Qed.

Lemma ftv_env_shift : forall k G, ftv_env (shift_env k G) = map (fun x => x + k) (ftv_env G).
Proof.
  induction G as [|[y t] G]; simpl; auto. unfold ftv_env in *; simpl.
  rewrite map_app, ftv_shift, IHG. reflexivity.
Qed.

Lemma memb_shift : forall k x l, memb (x + k) (map (fun y => y + k) l) = memb x l.
Proof. induction l; simpl; auto. rewrite eqb_shift, IHl. reflexivity. Qed.

Lemma index_of_shift : forall k x l, index_of (x + k) (map (fun y => y + k) l) = index_of x l.
Proof. induction l; simpl; auto. rewrite eqb_shift, IHl. reflexivity. Qed.

Lemma gen_vars_shift : forall k G t,
  gen_vars (shift_env k G) (shift k t) = map (fun x => x + k) (gen_vars G t).
Proof.
  intros. unfold gen_vars. rewrite ftv_shift, ftv_env_shift.
  induction (ftv t) as [|y l IH]; simpl; auto.
  rewrite memb_shift. destruct (memb y (ftv_env G)); simpl; rewrite IH; reflexivity.
Qed.

Lemma gen_shift : forall k G t, gen (shift_env k G) (shift k t) = shift k (gen G t).
Proof.
  intros. unfold gen. rewrite gen_vars_shift. unfold shift. rewrite !tsubst_comp.
  apply tsubst_ext. intros x. simpl. unfold gen_fun. rewrite index_of_shift.
  destruct (index_of x (gen_vars G t)); reflexivity.
Qed.

Definition shift_ires (k : nat) (r : res (subst * ty * nat)) : res (subst * ty * nat) :=
  match r with Ok (s, t, n) => Ok (shift_sub k s, shift k t, n + k) | Fail => Fail | OutOfFuel => OutOfFuel end.

Arguments shift : simpl never.

Ltac fin := simpl; rewrite ?shift_sub_app, <- ?shift_var, ?apply_shift; reflexivity.

(* Inference commutes with shifting every type variable (and the counter) by k. *)
Lemma infer_shift : forall k e fuel G n,
  infer fuel (shift_env k G) e (n + k) = shift_ires k (infer fuel G e n).
Proof.
  intros k. induction e; intros fuel G n0; simpl.
  - reflexivity.
  - reflexivity.
  - rewrite lookup_shift. destruct (lookup x G); simpl; auto.
    rewrite tinst_shift, gen_bound_shift.
    replace (n0 + k + gen_bound t) with (n0 + gen_bound t + k) by lia. reflexivity.
  - rewrite <- shift_var.
    change ((x, shift k (TVar n0)) :: shift_env k G) with (shift_env k ((x, TVar n0) :: G)).
    change (S (n0 + k)) with (S n0 + k). rewrite IHe.
    destruct (infer fuel ((x, TVar n0) :: G) e (S n0)) as [[[s t] n1]| |]; simpl; auto.
    rewrite apply_shift. reflexivity.
  - rewrite IHe1. destruct (infer fuel G e1 n0) as [[[s1 t1] n1]| |]; simpl; auto.
    rewrite apply_env_shift, IHe2.
    destruct (infer fuel (apply_env s1 G) e2 n1) as [[[s2 t2] n2]| |]; simpl; auto.
    rewrite apply_shift, <- shift_var, <- shift_fun. change (S (n2 + k)) with (S n2 + k).
    rewrite unify1_shift.
    destruct (unify fuel (S n2) [(apply s2 t1, TFun t2 (TVar n2))]) as [[u n3]| |]; simpl; auto.
    rewrite !shift_sub_app, apply_shift. reflexivity.
  - rewrite IHe1. destruct (infer fuel G e1 n0) as [[[s1 t1] n1]| |]; simpl; auto.
    rewrite apply_env_shift, gen_shift.
    change ((x, shift k (gen (apply_env s1 G) t1)) :: shift_env k (apply_env s1 G))
      with (shift_env k ((x, gen (apply_env s1 G) t1) :: apply_env s1 G)).
    rewrite IHe2.
    destruct (infer fuel ((x, gen (apply_env s1 G) t1) :: apply_env s1 G) e2 n1) as [[[s2 t2] n2]| |]; simpl; auto.
    rewrite shift_sub_app. reflexivity.
  - change (TVar (S (n0 + k))) with (TVar (S n0 + k)). rewrite <- !shift_var, <- shift_fun.
    change ((x, shift k (TVar n0)) :: (f, shift k (TFun (TVar n0) (TVar (S n0)))) :: shift_env k G)
      with (shift_env k ((x, TVar n0) :: (f, TFun (TVar n0) (TVar (S n0))) :: G)).
    change (S (S (n0 + k))) with (S (S n0) + k). rewrite IHe.
    destruct (infer fuel ((x, TVar n0) :: (f, TFun (TVar n0) (TVar (S n0))) :: G) e (S (S n0))) as [[[s1 t1] n1]| |]; simpl; auto.
    rewrite apply_shift, unify1_shift.
    destruct (unify fuel n1 [(apply s1 (TVar (S n0)), t1)]) as [[u n2]| |]; simpl; auto.
    rewrite shift_sub_app, !apply_shift. reflexivity.
  - rewrite IHe1. destruct (infer fuel G e1 n0) as [[[s0 t0] n00]| |]; simpl; auto.
    change (unify fuel (n00 + k) [(shift k t0, tbool)]) with (unify fuel (n00 + k) [(shift k t0, shift k tbool)]).
    rewrite unify1_shift.
    destruct (unify fuel n00 [(t0, tbool)]) as [[u0 m0]| |]; simpl; auto.
    rewrite <- shift_sub_app, apply_env_shift, IHe2.
    destruct (infer fuel (apply_env (s0 ++ u0) G) e2 m0) as [[[s1 t1] n1]| |]; simpl; auto.
    rewrite apply_env_shift, IHe3.
    destruct (infer fuel (apply_env s1 (apply_env (s0 ++ u0) G)) e3 n1) as [[[s2 t2] n2]| |]; simpl; auto.
    rewrite apply_shift, unify1_shift.
    destruct (unify fuel n2 [(apply s2 t1, t2)]) as [[u n3]| |]; simpl; auto.
    rewrite !shift_sub_app, apply_shift. reflexivity.
  - rewrite IHe1. destruct (infer fuel G e1 n0) as [[[s1 t1] n1]| |]; simpl; auto.
    change (unify fuel (n1 + k) [(shift k t1, tint)]) with (unify fuel (n1 + k) [(shift k t1, shift k tint)]).
    rewrite unify1_shift.
    destruct (unify fuel n1 [(t1, tint)]) as [[u1 m1]| |]; simpl; auto.
    rewrite <- shift_sub_app, apply_env_shift, IHe2.
    destruct (infer fuel (apply_env (s1 ++ u1) G) e2 m1) as [[[s2 t2] n2]| |]; simpl; auto.
    change (unify fuel (n2 + k) [(shift k t2, tint)]) with (unify fuel (n2 + k) [(shift k t2, shift k tint)]).
    rewrite unify1_shift.
    destruct (unify fuel n2 [(t2, tint)]) as [[u2 m2]| |]; simpl; auto.
    rewrite !shift_sub_app. reflexivity.
  - reflexivity.
  - destruct (negb (is_fields e2) || has_label l e2); auto.
    rewrite IHe1. destruct (infer fuel G e1 n0) as [[[s1 t1] n1]| |]; simpl; auto.
    rewrite apply_env_shift, IHe2.
    destruct (infer fuel (apply_env s1 G) e2 n1) as [[[s2 t2] n2]| |]; simpl; auto.
    rewrite shift_sub_app, apply_shift. reflexivity.
  - rewrite IHe. destruct (infer fuel G e n0) as [[[s1 t1] n1]| |]; simpl; auto.
    change (TVar (S (n1 + k))) with (TVar (S n1 + k)). rewrite <- !shift_var, <- shift_cons.
    change (S (S (n1 + k))) with (S (S n1) + k). rewrite unify1_shift.
    destruct (unify fuel (S (S n1)) [(t1, RCons l (TVar n1) (TVar (S n1)))]) as [[u n2]| |]; simpl; auto.
    rewrite shift_sub_app, apply_shift. reflexivity.
  - reflexivity.
  - destruct (negb (is_elems e2)); auto.
    rewrite IHe1. destruct (infer fuel G e1 n0) as [[[s1 t1] n1]| |]; simpl; auto.
    rewrite apply_env_shift, IHe2.
    destruct (infer fuel (apply_env s1 G) e2 n1) as [[[s2 t2] n2]| |]; simpl; auto.
    rewrite apply_shift, <- shift_array, unify1_shift.
    destruct (unify fuel n2 [(TArray (apply s2 t1), t2)]) as [[u n3]| |]; simpl; auto.
    rewrite !shift_sub_app, apply_shift. reflexivity.
Qed.

Lemma ftv_gen_closed : forall gs t, (forall x, In x (ftv t) -> In x gs) -> ftv (tsubst (gen_fun gs) t) = [].
Proof.
  induction t; simpl; intros H; auto.
  - unfold gen_fun. destruct (In_index_of n gs (H n (or_introl eq_refl))) as [i E]. rewrite E. reflexivity.
  - rewrite IHt1, IHt2; auto; intros; apply H; apply in_or_app; auto.
  - rewrite IHt1, IHt2; auto; intros; apply H; apply in_or_app; auto.
Qed.

Lemma ftv_gen_nil : forall t, ftv (gen [] t) = [].
Proof.
  intros. unfold gen. apply ftv_gen_closed. intros x I. unfold gen_vars. apply filter_In. split; auto.
Qed.

Lemma shift_inv : forall k t, tsubst (fun x => TVar (x - k)) (shift k t) = t.
Proof.
  intros. unfold shift. rewrite tsubst_comp. rewrite <- (tsubst_id t) at 2.
  apply tsubst_ext. intros x. simpl. f_equal. lia.
Qed.

(* An unused binding whose definition is typable changes nothing but the numbering of the type
   variables: same acceptance, and the type is the type of the body with every variable shifted by
   the number of variables the definition consumed (an injective renaming, [shift_inv]). *)
Theorem infer_unused_let : forall x e1 e2 fuel s1 t1 n1,
  occ x e2 = false -> infer fuel [] e1 0 = Ok (s1, t1, n1) ->
  infer fuel [] (ELet x e1 e2) 0 =
  match infer fuel [] e2 0 with
  | Ok (s2, t2, n2) => Ok (s1 ++ shift_sub n1 s2, shift n1 t2, n2 + n1)
  | Fail => Fail
  | OutOfFuel => OutOfFuel
  end.
Proof.
  intros x e1 e2 fuel s1 t1 n1 O H. simpl. rewrite H. simpl.
  pose proof (infer_insert x (gen [] t1) (ftv_gen_nil t1) e2 fuel [] [] n1 O) as Q. simpl in Q. rewrite Q.
  pose proof (infer_shift n1 e2 fuel [] 0) as S. simpl in S. rewrite S.
  destruct (infer fuel [] e2 0) as [[[s2 t2] n2]| |]; reflexivity.
Qed.

Theorem infer_top_unused_let : forall x e1 e2 fuel t1,
  occ x e2 = false -> infer_top fuel e1 = Ok t1 ->
  exists k, infer_top fuel (ELet x e1 e2) =
            match infer_top fuel e2 with Ok t2 => Ok (shift k t2) | Fail => Fail | OutOfFuel => OutOfFuel end.
Proof.
  intros x e1 e2 fuel t1 O H. unfold infer_top in *.
  destruct (infer fuel [] e1 0) as [[[s1 t1'] n1]| |] eqn:E; try discriminate.
  exists n1. rewrite (infer_unused_let x e1 e2 fuel s1 t1' n1 O E).
  destruct (infer fuel [] e2 0) as [[[s2 t2] n2]| |]; reflexivity.
Qed.

(* Two rows that end in the same variable and need different fields from it do not unify (the side
   condition that keeps the row rewriting from running forever). *)
Theorem unify_same_tail_fails : forall fuel n l l' a a' b rest,
  l <> l' ->
  unify (S fuel) n ((RCons l a (TVar b), RCons l' a' (TVar b)) :: rest) = Fail.
Proof.
  intros fuel n l l' a a' b rest N. rewrite unify_rcons.
  apply Nat.eqb_neq in N. rewrite N. simpl. rewrite N. simpl.
  rewrite Nat.eqb_refl. rewrite !orb_true_r. reflexivity.
Qed.
