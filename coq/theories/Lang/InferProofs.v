(* Proofs about Lang/Infer.v: unification (sound up to field order, most general and complete for
   syntactic unifiers, fuel monotone, terminating on row-free input), algorithm W (sound), the
   instance check used for triage. *)
From Coq Require Import List Arith Bool PeanoNat Lia.
From GV Require Import Lang.Infer.
Import ListNotations.

Local Ltac inv H := inversion H; subst; clear H.

(* ------------------------------------------------------------------ substitutions *)

Definition sfun (s : subst) : nat -> ty := fun x => apply s (TVar x).

Lemma tsubst_ext : forall f g t, (forall x, f x = g x) -> tsubst f t = tsubst g t.
Proof. induction t; simpl; intros; auto; try (rewrite IHt1, IHt2; auto); try (rewrite IHt; auto). Qed.

Lemma tsubst_ext_in : forall f g t, (forall x, In x (ftv t) -> f x = g x) -> tsubst f t = tsubst g t.
Proof.
  induction t; simpl; intros H; auto.
  - rewrite IHt1, IHt2; auto; intros; apply H; apply in_or_app; auto.
  - rewrite IHt; auto.
  - rewrite IHt1, IHt2; auto; intros; apply H; apply in_or_app; auto.
Qed.

Lemma tsubst_id : forall t, tsubst TVar t = t.
Proof. induction t; simpl; congruence. Qed.

Lemma tsubst_comp : forall f g t, tsubst f (tsubst g t) = tsubst (fun x => tsubst f (g x)) t.
Proof. induction t; simpl; congruence. Qed.

Lemma apply_fun : forall s a b, apply s (TFun a b) = TFun (apply s a) (apply s b).
Proof. induction s as [|[x u] s]; simpl; intros; auto; unfold subst1; simpl; apply IHs. Qed.
Lemma apply_array : forall s a, apply s (TArray a) = TArray (apply s a).
Proof. induction s as [|[x u] s]; simpl; intros; auto; unfold subst1; simpl; apply IHs. Qed.
Lemma apply_cons : forall s l a r, apply s (RCons l a r) = RCons l (apply s a) (apply s r).
Proof. induction s as [|[x u] s]; simpl; intros; auto; unfold subst1; simpl; apply IHs. Qed.
Lemma apply_nil : forall s, apply s RNil = RNil.
Proof. induction s as [|[x u] s]; simpl; intros; auto; unfold subst1; simpl; apply IHs. Qed.
Lemma apply_con : forall s c, apply s (TCon c) = TCon c.
Proof. induction s as [|[x u] s]; simpl; intros; auto; unfold subst1; simpl; apply IHs. Qed.
Lemma apply_gen : forall s k, apply s (TGen k) = TGen k.
Proof. induction s as [|[x u] s]; simpl; intros; auto; unfold subst1; simpl; apply IHs. Qed.

Lemma apply_tsubst : forall s t, apply s t = tsubst (sfun s) t.
Proof.
  intros s t; induction t; simpl.
  - reflexivity.
  - apply apply_gen.
  - apply apply_con.
  - rewrite apply_fun; congruence.
  - rewrite apply_array; congruence.
  - apply apply_nil.
  - rewrite apply_cons; congruence.
Qed.

Lemma apply_app : forall s1 s2 t, apply (s1 ++ s2) t = apply s2 (apply s1 t).
Proof. induction s1 as [|[x u] s1]; simpl; intros; auto. Qed.

Lemma subst1_noccur : forall x u t, occurs x t = false -> subst1 x u t = t.
Proof.
  unfold subst1; induction t; simpl; intros H; auto.
  - unfold single. rewrite H. reflexivity.
  - apply orb_false_iff in H as [H1 H2]. rewrite IHt1, IHt2; auto.
  - rewrite IHt; auto.
  - apply orb_false_iff in H as [H1 H2]. rewrite IHt1, IHt2; auto.
Qed.

Lemma subst1_var_same : forall x u, subst1 x u (TVar x) = u.
Proof. intros. unfold subst1, single; simpl. rewrite Nat.eqb_refl. reflexivity. Qed.

(* ------------------------------------------------------------------ teq *)

Lemma teq_tsubst : forall f t u, teq t u -> teq (tsubst f t) (tsubst f u).
Proof.
  induction 1; simpl.
  - apply teq_refl.
  - apply teq_sym; auto.
  - eapply teq_trans; eauto.
  - apply teq_fun; auto.
  - apply teq_array; auto.
  - apply teq_cons; auto.
  - apply teq_swap; auto.
Qed.

Lemma teq_apply : forall s t u, teq t u -> teq (apply s t) (apply s u).
Proof. intros. rewrite !apply_tsubst. apply teq_tsubst; auto. Qed.

Lemma extract_found : forall l d row a r, extract l d row = ExFound a r -> teq row (RCons l a r).
Proof.
  induction row; simpl; intros a0 r0 H; try discriminate.
  destruct (l =? l0) eqn:E.
  - apply Nat.eqb_eq in E; subst. inv H. apply teq_refl.
  - apply Nat.eqb_neq in E.
    destruct (extract l d row2) eqn:X; try discriminate. inv H.
    eapply teq_trans.
    + apply teq_cons. apply teq_refl. apply IHrow2. reflexivity.
    + apply teq_swap. auto.
Qed.

Lemma extract_tail : forall l a n b row r,
  extract l (TVar n) row = ExTail b r -> b <> n -> occurs b a = false ->
  teq (subst1 b (RCons l a (TVar n)) row) (RCons l a (subst1 b (RCons l a (TVar n)) r)).
Proof.
  induction row; simpl; intros r0 H Hn Ho; try discriminate.
  - inv H. rewrite subst1_var_same.
    unfold subst1 at 1; simpl. unfold single.
    destruct (b =? n) eqn:E. { apply Nat.eqb_eq in E; congruence. }
    apply teq_refl.
  - destruct (l =? l0) eqn:E; try discriminate.
    apply Nat.eqb_neq in E.
    destruct (extract l (TVar n) row2) eqn:X; try discriminate. inv H.
    specialize (IHrow2 _ eq_refl Hn Ho).
    unfold subst1 in *; simpl.
    eapply teq_trans.
    + apply teq_cons. apply teq_refl. apply IHrow2.
    + apply teq_swap. auto.
Qed.

(* ------------------------------------------------------------------ unification: soundness *)

Definition unifies_teq (s : subst) (eqs : list (ty * ty)) : Prop :=
  Forall (fun p => teq (apply s (fst p)) (apply s (snd p))) eqs.

Lemma unifies_subst_eqs : forall x u s eqs,
  unifies_teq s (subst_eqs x u eqs) -> unifies_teq ((x, u) :: s) eqs.
Proof.
  unfold unifies_teq, subst_eqs; intros x u s eqs H.
  rewrite Forall_map in H. eapply Forall_impl; [|exact H]. simpl; auto.
Qed.

Lemma bind_sound : forall x t s rest,
  occurs x t = false -> unifies_teq s (subst_eqs x t rest) ->
  unifies_teq ((x, t) :: s) ((TVar x, t) :: rest) /\ unifies_teq ((x, t) :: s) ((t, TVar x) :: rest).
Proof.
  intros x t s rest Ho H.
  assert (E : apply ((x, t) :: s) (TVar x) = apply ((x, t) :: s) t).
  { simpl. rewrite subst1_var_same, subst1_noccur; auto. }
  split; constructor; simpl fst; simpl snd; try (rewrite E; apply teq_refl);
    apply unifies_subst_eqs; auto.
Qed.

Theorem unify_sound : forall fuel n eqs s n',
  unify fuel n eqs = Ok (s, n') -> unifies_teq s eqs.
Proof.
  induction fuel as [|fuel IH]; intros n eqs s n' H; simpl in H; try discriminate.
  destruct eqs as [|[t1 t2] rest].
  { inv H. constructor. }
  (* the generic "bind" step *)
  assert (BIND : forall x t,
    (if occurs x t then Fail else
       match unify fuel n (subst_eqs x t rest) with
       | Ok (s0, n0) => Ok ((x, t) :: s0, n0) | Fail => Fail | OutOfFuel => OutOfFuel end) = Ok (s, n') ->
    unifies_teq s ((TVar x, t) :: rest) /\ unifies_teq s ((t, TVar x) :: rest)).
  { intros x t Hb. destruct (occurs x t) eqn:Ho; try discriminate.
    destruct (unify fuel n (subst_eqs x t rest)) as [[s0 n0]| |] eqn:U; try discriminate.
    inv Hb. apply bind_sound; auto. eapply IH; eauto. }
  assert (SKIP : forall t, unify fuel n rest = Ok (s, n') -> unifies_teq s ((t, t) :: rest)).
  { intros t Hs. constructor. apply teq_refl. eapply IH; eauto. }
  destruct t1, t2; try discriminate;
    try (apply BIND in H; tauto).
  - (* var var *)
    destruct (n0 =? n1) eqn:E.
    + apply Nat.eqb_eq in E; subst. auto.
    + apply BIND in H; tauto.
  - destruct (k =? k0) eqn:E; try discriminate. apply Nat.eqb_eq in E; subst; auto.
  - destruct (c =? c0) eqn:E; try discriminate. apply Nat.eqb_eq in E; subst; auto.
  - (* fun *)
    apply IH in H. inv H. inv H3. constructor; auto. simpl in *. rewrite !apply_fun. apply teq_fun; auto.
  - apply IH in H. inv H. constructor; auto. simpl in *. rewrite !apply_array. apply teq_array; auto.
  - auto.
  - (* rows *)
    destruct (l =? l0) eqn:E.
    + apply Nat.eqb_eq in E; subst.
      apply IH in H. inv H. inv H3. constructor; auto. simpl in *. rewrite !apply_cons. apply teq_cons; auto.
    + destruct (row_closed t1_2 && row_closed t2_2); try discriminate.
      destruct (extract l (TVar n) (RCons l0 t2_1 t2_2)) eqn:X; try discriminate.
      * apply IH in H. inv H. inv H3. constructor; auto. simpl fst in *; simpl snd in *.
        apply extract_found in X.
        eapply teq_trans; [| apply teq_sym; apply teq_apply; exact X].
        rewrite !apply_cons. apply teq_cons; auto.
      * destruct ((b =? n) || occurs b t1_1) eqn:G; try discriminate.
        apply orb_false_iff in G as [G1 G2]. apply Nat.eqb_neq in G1.
        match type of H with context [unify ?f ?m ?e] =>
          destruct (unify f m e) as [[s0 n0]| |] eqn:U; try discriminate end.
        inv H. apply IH in U.
        assert (U' : unifies_teq s0 (subst_eqs b (RCons l t1_1 (TVar n)) ((t1_2, r) :: rest))) by exact U.
        clear U. apply unifies_subst_eqs in U'. inv U'.
        constructor; auto. simpl fst in *; simpl snd in *.
        pose proof (extract_tail _ _ _ _ _ _ X G1 G2) as T.
        change (apply ((b, RCons l t1_1 (TVar n)) :: s0) (RCons l0 t2_1 t2_2))
          with (apply s0 (subst1 b (RCons l t1_1 (TVar n)) (RCons l0 t2_1 t2_2))).
        change (apply ((b, RCons l t1_1 (TVar n)) :: s0) (RCons l t1_1 t1_2))
          with (apply s0 (subst1 b (RCons l t1_1 (TVar n)) (RCons l t1_1 t1_2))).
        eapply teq_trans; [| apply teq_sym; apply teq_apply; exact T].
        assert (Es : subst1 b (RCons l t1_1 (TVar n)) (RCons l t1_1 t1_2) =
                     RCons l t1_1 (subst1 b (RCons l t1_1 (TVar n)) t1_2)).
        { unfold subst1 at 1; simpl. fold (subst1 b (RCons l t1_1 (TVar n)) t1_1).
          rewrite subst1_noccur; auto. }
        rewrite Es. rewrite !apply_cons. apply teq_cons. apply teq_refl.
        exact H1.
Qed.

(* ------------------------------------------------------------------ unification: most general *)

Definition unifier (th : nat -> ty) (eqs : list (ty * ty)) : Prop :=
  Forall (fun p => tsubst th (fst p) = tsubst th (snd p)) eqs.

Lemma tsubst_subst1 : forall th x u t,
  th x = tsubst th u -> tsubst th (subst1 x u t) = tsubst th t.
Proof.
  intros th x u t H. unfold subst1. rewrite tsubst_comp. apply tsubst_ext.
  intros y. unfold single. destruct (x =? y) eqn:E.
  - apply Nat.eqb_eq in E; subst; auto.
  - reflexivity.
Qed.

Lemma unifier_subst_eqs : forall th x u eqs,
  th x = tsubst th u -> unifier th eqs -> unifier th (subst_eqs x u eqs).
Proof.
  unfold unifier, subst_eqs; intros. rewrite Forall_map. eapply Forall_impl; [|eassumption].
  simpl; intros. rewrite !tsubst_subst1; auto.
Qed.

(* Every syntactic unifier of the equations factors through the computed one (th o s = th). *)
Theorem unify_mgu : forall fuel n eqs s n' th,
  unify fuel n eqs = Ok (s, n') -> unifier th eqs ->
  forall t, tsubst th (apply s t) = tsubst th t.
Proof.
  induction fuel as [|fuel IH]; intros n eqs s n' th H U t; simpl in H; try discriminate.
  destruct eqs as [|[t1 t2] rest].
  { inv H. reflexivity. }
  inv U. simpl in H2. rename H2 into HU, H3 into UR.
  assert (BIND : forall x u, th x = tsubst th u ->
    (if occurs x u then Fail else
       match unify fuel n (subst_eqs x u rest) with
       | Ok (s0, n0) => Ok ((x, u) :: s0, n0) | Fail => Fail | OutOfFuel => OutOfFuel end) = Ok (s, n') ->
    tsubst th (apply s t) = tsubst th t).
  { intros x u Hx Hb. destruct (occurs x u); try discriminate.
    destruct (unify fuel n (subst_eqs x u rest)) as [[s0 n0]| |] eqn:E; try discriminate.
    inv Hb. simpl. erewrite IH; eauto. apply tsubst_subst1; auto. apply unifier_subst_eqs; auto. }
  Ltac usebind BIND H :=
    match type of H with
    | (if occurs ?x ?u then _ else _) = _ => apply (BIND x u); [simpl; congruence | exact H]
    end.
  destruct t1, t2; try discriminate; simpl in HU;
    try (usebind BIND H; fail).
  - destruct (n0 =? n1) eqn:E.
    + eapply IH; eauto.
    + usebind BIND H.
  - inv HU. rewrite Nat.eqb_refl in H. eapply IH; eauto.
  - inv HU. rewrite Nat.eqb_refl in H. eapply IH; eauto.
  - inv HU. eapply IH; eauto; repeat (constructor; auto).
  - inv HU. eapply IH; eauto; repeat (constructor; auto).
  - eapply IH; eauto.
  - inv HU. rewrite Nat.eqb_refl in H. eapply IH; eauto; repeat (constructor; auto).
Qed.

(* size argument for the occurs check *)
Fixpoint tsize (t : ty) : nat :=
  match t with
  | TFun a b => S (tsize a + tsize b)
  | TArray a => S (tsize a)
  | RCons _ a r => S (tsize a + tsize r)
  | _ => 1
  end.

Lemma occurs_size : forall th x t, occurs x t = true -> tsize (th x) <= tsize (tsubst th t).
Proof.
  induction t; simpl; intros H; try discriminate.
  - apply Nat.eqb_eq in H; subst; auto.
  - apply orb_true_iff in H as [H|H]; [apply IHt1 in H | apply IHt2 in H]; lia.
  - apply IHt in H; lia.
  - apply orb_true_iff in H as [H|H]; [apply IHt1 in H | apply IHt2 in H]; lia.
Qed.

Lemma occurs_no_unifier : forall th x t,
  occurs x t = true -> (forall y, t <> TVar y) -> th x <> tsubst th t.
Proof.
  intros th x t Ho Hv E.
  destruct t; simpl in Ho; try discriminate.
  - exfalso; eapply Hv; eauto.
  - apply orb_true_iff in Ho as [H|H]; eapply occurs_size with (th := th) in H;
      rewrite E in H; simpl in H; lia.
  - eapply occurs_size with (th := th) in Ho. rewrite E in Ho; simpl in Ho; lia.
  - apply orb_true_iff in Ho as [H|H]; eapply occurs_size with (th := th) in H;
      rewrite E in H; simpl in H; lia.
Qed.

(* If the equations have a syntactic unifier, unification does not fail. *)
Theorem unify_complete : forall fuel n eqs th,
  unifier th eqs -> unify fuel n eqs <> Fail.
Proof.
  induction fuel as [|fuel IH]; intros n eqs th U; simpl; try discriminate.
  destruct eqs as [|[t1 t2] rest]; try discriminate.
  inv U. simpl in H1. rename H1 into HU, H2 into UR.
  assert (BIND : forall x u, th x = tsubst th u -> (forall y, u <> TVar y) ->
    (if occurs x u then Fail else
       match unify fuel n (subst_eqs x u rest) with
       | Ok (s0, n0) => Ok ((x, u) :: s0, n0) | Fail => Fail | OutOfFuel => OutOfFuel end) <> (@Fail (subst * nat))).
  { intros x u Hx Hv. destruct (occurs x u) eqn:Ho.
    - exfalso. eapply occurs_no_unifier; eauto.
    - destruct (unify fuel n (subst_eqs x u rest)) as [[s0 n0]| |] eqn:E; try discriminate.
      exfalso. eapply IH; [| exact E]. apply unifier_subst_eqs; eauto. }
  destruct t1, t2; simpl in HU; try discriminate;
    try (apply BIND; [simpl; congruence | intros; discriminate]).
  - destruct (n0 =? n1) eqn:E.
    + eapply IH; eauto.
    + simpl. rewrite E.
      destruct (unify fuel n (subst_eqs n0 (TVar n1) rest)) as [[s0 n2]| |] eqn:E2; try discriminate.
      exfalso. eapply IH; [| exact E2]. apply unifier_subst_eqs; eauto.
  - inv HU. rewrite Nat.eqb_refl. eapply IH; eauto.
  - inv HU. rewrite Nat.eqb_refl. eapply IH; eauto.
  - inv HU. eapply IH with (th := th); repeat (constructor; eauto).
  - inv HU. eapply IH with (th := th); repeat (constructor; eauto).
  - eapply IH; eauto.
  - inv HU. rewrite Nat.eqb_refl. eapply IH with (th := th); repeat (constructor; eauto).
Qed.

(* More fuel does not change an answer. *)
Theorem unify_fuel_mono : forall fuel n eqs r,
  unify fuel n eqs = r -> r <> OutOfFuel -> forall k, unify (fuel + k) n eqs = r.
Proof.
  induction fuel as [|fuel IH]; intros n eqs r H Hr k; simpl in H.
  { subst. congruence. }
  simpl.
  destruct eqs as [|[t1 t2] rest]; auto.
  assert (BIND : forall x u,
    (if occurs x u then Fail else
       match unify fuel n (subst_eqs x u rest) with
       | Ok (s0, n0) => Ok ((x, u) :: s0, n0) | Fail => Fail | OutOfFuel => OutOfFuel end) = r ->
    (if occurs x u then Fail else
       match unify (fuel + k) n (subst_eqs x u rest) with
       | Ok (s0, n0) => Ok ((x, u) :: s0, n0) | Fail => Fail | OutOfFuel => OutOfFuel end) = r).
  { intros x u Hb. destruct (occurs x u); auto.
    destruct (unify fuel n (subst_eqs x u rest)) as [[s0 n0]| |] eqn:E.
    - erewrite IH; eauto; congruence.
    - erewrite IH; eauto; congruence.
    - exfalso. apply Hr. symmetry. exact Hb. }
  revert H.
  destruct t1, t2;
    try (intros H; eapply IH; eauto; fail);
    try (intros H; apply BIND; exact H; fail);
    auto;
    repeat (match goal with
            | |- context [if ?c then _ else _] => destruct c
            | |- context [match extract ?a ?b ?c with _ => _ end] => destruct (extract a b c)
            end;
            try (intros H; eapply IH; eauto; fail);
            try (intros H; apply BIND; exact H; fail);
            auto).
  intros H.
  match type of H with context [unify ?f ?m ?e] =>
    destruct (unify f m e) as [[s0 n0]| |] eqn:E end.
  - erewrite IH; eauto; congruence.
  - erewrite IH; eauto; congruence.
  - exfalso. apply Hr. symmetry. exact H.
Qed.


(* ------------------------------------------------------------------ inversion of [infer] *)

Ltac step H :=
  match type of H with
  | bind_res ?r _ = _ => let E := fresh "E" in destruct r as [?| |] eqn:E; simpl in H; try discriminate
  | match ?p with pair _ _ => _ end = _ => destruct p; simpl in H
  | (if ?c then _ else _) = _ => let C := fresh "C" in destruct c eqn:C; simpl in H; try discriminate
  end.

Lemma infer_var_inv : forall fuel G x n s t n',
  infer fuel G (EVar x) n = Ok (s, t, n') ->
  exists sc, lookup x G = Some sc /\ s = [] /\ t = tinst (fresh_inst n) sc /\ n' = n + gen_bound sc.
Proof. intros. simpl in H. destruct (lookup x G); try discriminate. inv H. eauto. Qed.

Lemma infer_lam_inv : forall fuel G x e n s t n',
  infer fuel G (ELam x e) n = Ok (s, t, n') ->
  exists t1, infer fuel ((x, TVar n) :: G) e (S n) = Ok (s, t1, n') /\ t = TFun (apply s (TVar n)) t1.
Proof. intros. simpl in H. repeat step H. inv H. eauto. Qed.

Lemma infer_app_inv : forall fuel G e1 e2 n s t n',
  infer fuel G (EApp e1 e2) n = Ok (s, t, n') ->
  exists s1 t1 n1 s2 t2 n2 u,
    infer fuel G e1 n = Ok (s1, t1, n1) /\
    infer fuel (apply_env s1 G) e2 n1 = Ok (s2, t2, n2) /\
    unify fuel (S n2) [(apply s2 t1, TFun t2 (TVar n2))] = Ok (u, n') /\
    s = s1 ++ s2 ++ u /\ t = apply u (TVar n2).
Proof. intros. simpl in H. repeat step H. inv H. repeat eexists; eauto. Qed.

Lemma infer_let_inv : forall fuel G x e1 e2 n s t n',
  infer fuel G (ELet x e1 e2) n = Ok (s, t, n') ->
  exists s1 t1 n1 s2,
    infer fuel G e1 n = Ok (s1, t1, n1) /\
    infer fuel ((x, gen (apply_env s1 G) t1) :: apply_env s1 G) e2 n1 = Ok (s2, t, n') /\
    s = s1 ++ s2.
Proof. intros. simpl in H. repeat step H. inv H. repeat eexists; eauto. Qed.

Lemma infer_fix_inv : forall fuel G f x e n s t n',
  infer fuel G (EFix f x e) n = Ok (s, t, n') ->
  exists s1 t1 n1 u,
    infer fuel ((x, TVar n) :: (f, TFun (TVar n) (TVar (S n))) :: G) e (S (S n)) = Ok (s1, t1, n1) /\
    unify fuel n1 [(apply s1 (TVar (S n)), t1)] = Ok (u, n') /\
    s = s1 ++ u /\ t = apply u (apply s1 (TFun (TVar n) (TVar (S n)))).
Proof. intros. simpl in H. repeat step H. inv H. repeat eexists; eauto. Qed.

Lemma infer_if_inv : forall fuel G c e1 e2 n s t n',
  infer fuel G (EIf c e1 e2) n = Ok (s, t, n') ->
  exists s0 t0 n0 u0 m0 s1 t1 n1 s2 t2 n2 u,
    infer fuel G c n = Ok (s0, t0, n0) /\
    unify fuel n0 [(t0, tbool)] = Ok (u0, m0) /\
    infer fuel (apply_env (s0 ++ u0) G) e1 m0 = Ok (s1, t1, n1) /\
    infer fuel (apply_env s1 (apply_env (s0 ++ u0) G)) e2 n1 = Ok (s2, t2, n2) /\
    unify fuel n2 [(apply s2 t1, t2)] = Ok (u, n') /\
    s = s0 ++ u0 ++ s1 ++ s2 ++ u /\ t = apply u t2.
Proof. intros. simpl in H. repeat step H. inv H. repeat eexists; eauto. Qed.

Lemma infer_eq_inv : forall fuel G e1 e2 n s t n',
  infer fuel G (EEq e1 e2) n = Ok (s, t, n') ->
  exists s1 t1 n1 u1 m1 s2 t2 n2 u2,
    infer fuel G e1 n = Ok (s1, t1, n1) /\
    unify fuel n1 [(t1, tint)] = Ok (u1, m1) /\
    infer fuel (apply_env (s1 ++ u1) G) e2 m1 = Ok (s2, t2, n2) /\
    unify fuel n2 [(t2, tint)] = Ok (u2, n') /\
    s = s1 ++ u1 ++ s2 ++ u2 /\ t = tbool.
Proof. intros. simpl in H. repeat step H. inv H. repeat eexists; eauto. Qed.

Lemma infer_fcons_inv : forall fuel G l e fs n s t n',
  infer fuel G (EFCons l e fs) n = Ok (s, t, n') ->
  exists s1 t1 n1 s2 t2,
    is_fields fs = true /\ has_label l fs = false /\
    infer fuel G e n = Ok (s1, t1, n1) /\
    infer fuel (apply_env s1 G) fs n1 = Ok (s2, t2, n') /\
    s = s1 ++ s2 /\ t = RCons l (apply s2 t1) t2.
Proof.
  intros. simpl in H. repeat step H. inv H.
  apply orb_false_iff in C as [C1 C2]. apply negb_false_iff in C1.
  repeat eexists; eauto.
Qed.

Lemma infer_proj_inv : forall fuel G e l n s t n',
  infer fuel G (EProj e l) n = Ok (s, t, n') ->
  exists s1 t1 n1 u,
    infer fuel G e n = Ok (s1, t1, n1) /\
    unify fuel (S (S n1)) [(t1, RCons l (TVar n1) (TVar (S n1)))] = Ok (u, n') /\
    s = s1 ++ u /\ t = apply u (TVar n1).
Proof. intros. simpl in H. repeat step H. inv H. repeat eexists; eauto. Qed.

Lemma infer_acons_inv : forall fuel G e es n s t n',
  infer fuel G (EACons e es) n = Ok (s, t, n') ->
  exists s1 t1 n1 s2 t2 n2 u,
    is_elems es = true /\
    infer fuel G e n = Ok (s1, t1, n1) /\
    infer fuel (apply_env s1 G) es n1 = Ok (s2, t2, n2) /\
    unify fuel n2 [(TArray (apply s2 t1), t2)] = Ok (u, n') /\
    s = s1 ++ s2 ++ u /\ t = apply u t2.
Proof.
  intros. simpl in H. repeat step H. inv H. apply negb_false_iff in C.
  repeat eexists; eauto.
Qed.

(* ------------------------------------------------------------------ no quantified variables *)

Fixpoint nogen (t : ty) : Prop :=
  match t with
  | TGen _ => False
  | TFun a b => nogen a /\ nogen b
  | TArray a => nogen a
  | RCons _ a r => nogen a /\ nogen r
  | _ => True
  end.

Definition nogen_fun (f : nat -> ty) : Prop := forall x, nogen (f x).
Definition nogen_subst (s : subst) : Prop := Forall (fun p => nogen (snd p)) s.

Lemma nogen_tsubst : forall f t, nogen t -> nogen_fun f -> nogen (tsubst f t).
Proof. induction t; simpl; intros; auto; try tauto. Qed.

Lemma nogen_tinst_id : forall f t, nogen t -> tinst f t = t.
Proof.
  induction t; simpl; intros H; auto; try tauto.
  - destruct H; rewrite IHt1, IHt2; auto.
  - rewrite IHt; auto.
  - destruct H; rewrite IHt1, IHt2; auto.
Qed.

Lemma tinst_nogen : forall f t, (forall k, nogen (f k)) -> nogen (tinst f t).
Proof. induction t; simpl; intros; auto. Qed.

Lemma nogen_single : forall x u, nogen u -> nogen_fun (single x u).
Proof. intros x u H y. unfold single. destruct (x =? y); simpl; auto. Qed.

Lemma nogen_subst1 : forall x u t, nogen u -> nogen t -> nogen (subst1 x u t).
Proof. intros. apply nogen_tsubst; auto. apply nogen_single; auto. Qed.

Lemma nogen_apply : forall s t, nogen_subst s -> nogen t -> nogen (apply s t).
Proof.
  induction s as [|[x u] s]; simpl; intros t Hs Ht; auto.
  inv Hs. apply IHs; auto. apply nogen_subst1; auto.
Qed.

Lemma nogen_sfun : forall s, nogen_subst s -> nogen_fun (sfun s).
Proof. intros s H x. apply nogen_apply; simpl; auto. Qed.

Lemma nogen_subst_app : forall s1 s2, nogen_subst s1 -> nogen_subst s2 -> nogen_subst (s1 ++ s2).
Proof. intros. apply Forall_app; auto. Qed.

Definition nogen_eqs (eqs : list (ty * ty)) : Prop := Forall (fun p => nogen (fst p) /\ nogen (snd p)) eqs.

Lemma nogen_subst_eqs : forall x u eqs, nogen u -> nogen_eqs eqs -> nogen_eqs (subst_eqs x u eqs).
Proof.
  unfold nogen_eqs, subst_eqs; intros. rewrite Forall_map. eapply Forall_impl; [|eassumption].
  simpl; intros p [A B]; split; apply nogen_subst1; auto.
Qed.

Lemma nogen_extract : forall l d row,
  nogen row -> nogen d ->
  match extract l d row with
  | ExFound a r => nogen a /\ nogen r
  | ExTail _ r => nogen r
  | ExNone => True
  end.
Proof.
  induction row; simpl; intros Hr Hd; auto.
  destruct Hr as [Ha Hr].
  destruct (l =? l0); auto.
  specialize (IHrow2 Hr Hd). destruct (extract l d row2); simpl; tauto.
Qed.

Lemma unify_nogen : forall fuel n eqs s n',
  nogen_eqs eqs -> unify fuel n eqs = Ok (s, n') -> nogen_subst s.
Proof.
  induction fuel as [|fuel IH]; intros n eqs s n' N H; simpl in H; try discriminate.
  destruct eqs as [|[t1 t2] rest].
  { inv H. constructor. }
  inv N. simpl in H2. destruct H2 as [N1 N2]. rename H3 into NR.
  assert (BIND : forall x u, nogen u ->
    (if occurs x u then Fail else
       match unify fuel n (subst_eqs x u rest) with
       | Ok (s0, n0) => Ok ((x, u) :: s0, n0) | Fail => Fail | OutOfFuel => OutOfFuel end) = Ok (s, n') ->
    nogen_subst s).
  { intros x u Nu Hb. destruct (occurs x u); try discriminate.
    destruct (unify fuel n (subst_eqs x u rest)) as [[s0 n0]| |] eqn:E; try discriminate.
    inv Hb. constructor; auto. eapply IH; [| exact E]. apply nogen_subst_eqs; auto. }
  Ltac usebind2 BIND H :=
    match type of H with
    | (if occurs ?x ?u then _ else _) = _ => apply (BIND x u); [simpl; tauto | exact H]
    end.
  destruct t1, t2; try discriminate; simpl in N1, N2; try tauto;
    try (usebind2 BIND H; fail).
  - destruct (n0 =? n1).
    + eapply IH; eauto.
    + usebind2 BIND H.
  - destruct (c =? c0); try discriminate. eapply IH; eauto.
  - eapply IH; [| exact H]. repeat (constructor; simpl; try tauto).
  - eapply IH; [| exact H]. repeat (constructor; simpl; try tauto).
  - eapply IH; eauto.
  - destruct (l =? l0).
    + eapply IH; [| exact H]. repeat (constructor; simpl; try tauto).
    + destruct (row_closed t1_2 && row_closed t2_2); try discriminate.
      pose proof (nogen_extract l (TVar n) (RCons l0 t2_1 t2_2)) as X.
      destruct (extract l (TVar n) (RCons l0 t2_1 t2_2)); try discriminate.
      * eapply IH; [| exact H]. simpl in X. repeat (constructor; simpl; try tauto).
      * destruct ((b =? n) || occurs b t1_1); try discriminate.
        match type of H with context [unify ?f ?m ?e] =>
          destruct (unify f m e) as [[s0 n0]| |] eqn:U; try discriminate end.
        inv H. constructor; simpl; try tauto.
        eapply IH; [| exact U].
        simpl in X.
        change (nogen_eqs (subst_eqs b (RCons l t1_1 (TVar n)) ((t1_2, r) :: rest))).
        apply nogen_subst_eqs; simpl; try tauto.
        constructor; simpl; try tauto.
Qed.

Lemma infer_nogen : forall e fuel G n s t n',
  infer fuel G e n = Ok (s, t, n') -> nogen_subst s /\ nogen t.
Proof.
  induction e; intros fuel G n0 s t n' H.
  - inv H. split; simpl; auto. constructor.
  - inv H. split; simpl; auto. constructor.
  - apply infer_var_inv in H as (sc & _ & -> & -> & _). split. constructor.
    apply tinst_nogen. intros; simpl; auto.
  - apply infer_lam_inv in H as (t1 & H & ->). apply IHe in H as [A B].
    split; auto. simpl; split; auto. apply nogen_apply; simpl; auto.
  - apply infer_app_inv in H as (s1 & t1 & n1 & s2 & t2 & n2 & u & H1 & H2 & H3 & -> & ->).
    apply IHe1 in H1 as [A1 B1]. apply IHe2 in H2 as [A2 B2].
    apply unify_nogen in H3.
    + split. repeat apply nogen_subst_app; auto. apply nogen_apply; simpl; auto.
    + constructor; [|constructor]. simpl. split. apply nogen_apply; auto. tauto.
  - apply infer_let_inv in H as (s1 & t1 & n1 & s2 & H1 & H2 & ->).
    apply IHe1 in H1 as [A1 B1]. apply IHe2 in H2 as [A2 B2].
    split; auto. apply nogen_subst_app; auto.
  - apply infer_fix_inv in H as (s1 & t1 & n1 & u & H1 & H2 & -> & ->).
    apply IHe in H1 as [A1 B1].
    apply unify_nogen in H2.
    + split. apply nogen_subst_app; auto. repeat apply nogen_apply; simpl; auto.
    + constructor; [|constructor]. simpl. split; auto. apply nogen_apply; simpl; auto.
  - apply infer_if_inv in H as (s0 & t0 & n00 & u0 & m0 & s1 & t1 & n1 & s2 & t2 & n2 & u & H0 & U0 & H1 & H2 & U & -> & ->).
    apply IHe1 in H0 as [A0 B0]. apply IHe2 in H1 as [A1 B1]. apply IHe3 in H2 as [A2 B2].
    apply unify_nogen in U0; [| constructor; [|constructor]; simpl; tauto].
    apply unify_nogen in U; [| constructor; [|constructor]; simpl; split; auto; apply nogen_apply; auto].
    split. repeat apply nogen_subst_app; auto. apply nogen_apply; auto.
  - apply infer_eq_inv in H as (s1 & t1 & n1 & u1 & m1 & s2 & t2 & n2 & u2 & H1 & U1 & H2 & U2 & -> & ->).
    apply IHe1 in H1 as [A1 B1]. apply IHe2 in H2 as [A2 B2].
    apply unify_nogen in U1; [| constructor; [|constructor]; simpl; tauto].
    apply unify_nogen in U2; [| constructor; [|constructor]; simpl; tauto].
    split. repeat apply nogen_subst_app; auto. simpl; auto.
  - inv H. split; simpl; auto. constructor.
  - apply infer_fcons_inv in H as (s1 & t1 & n1 & s2 & t2 & _ & _ & H1 & H2 & -> & ->).
    apply IHe1 in H1 as [A1 B1]. apply IHe2 in H2 as [A2 B2].
    split. apply nogen_subst_app; auto. simpl; split; auto. apply nogen_apply; auto.
  - apply infer_proj_inv in H as (s1 & t1 & n1 & u & H1 & U & -> & ->).
    apply IHe in H1 as [A1 B1].
    apply unify_nogen in U; [| constructor; [|constructor]; simpl; tauto].
    split. apply nogen_subst_app; auto. apply nogen_apply; simpl; auto.
  - inv H. split; simpl; auto. constructor.
  - apply infer_acons_inv in H as (s1 & t1 & n1 & s2 & t2 & n2 & u & _ & H1 & H2 & U & -> & ->).
    apply IHe1 in H1 as [A1 B1]. apply IHe2 in H2 as [A2 B2].
    apply unify_nogen in U; [| constructor; [|constructor]; simpl; split; auto; apply nogen_apply; auto].
    split. repeat apply nogen_subst_app; auto. apply nogen_apply; auto.
Qed.


(* ------------------------------------------------------------------ substitution in derivations *)

Definition dsubst (f : nat -> ty) (D : denv) : denv :=
  map (fun p => (fst p, match snd p with DMono t => DMono (tsubst f t) | DPoly e => DPoly e end)) D.

Definition dapply (s : subst) (D : denv) : denv := dsubst (sfun s) D.

Definition tsubst_env (f : nat -> ty) (G : env) : env := map (fun p => (fst p, tsubst f (snd p))) G.

Lemma apply_env_tsubst : forall s G, apply_env s G = tsubst_env (sfun s) G.
Proof. intros. unfold apply_env, tsubst_env. apply map_ext. intros [x t]; simpl. rewrite apply_tsubst; auto. Qed.

Lemma has_type_subst : forall cv D e t,
  has_type_gen cv D e t -> forall ff, has_type_gen cv (dsubst ff D) e (tsubst ff t).
Proof.
  induction 1; intros ff; simpl; try solve [econstructor; eauto].
  - eapply T_Lam. apply (IHhas_type_gen ff).
  - eapply T_Let. apply IHhas_type_gen1. apply (IHhas_type_gen2 ff).
  - apply T_Fix. apply (IHhas_type_gen ff).
  - apply T_If. apply (IHhas_type_gen1 ff). apply IHhas_type_gen2. apply IHhas_type_gen3.
  - apply T_Eq. apply (IHhas_type_gen1 ff). apply (IHhas_type_gen2 ff).
  - eapply T_Conv; eauto. apply teq_tsubst; auto.
Qed.

Lemma dsubst_comp : forall f g D, dsubst f (dsubst g D) = dsubst (fun x => tsubst f (g x)) D.
Proof.
  intros. unfold dsubst. rewrite map_map. apply map_ext. intros [x [t|e]]; simpl; auto.
  rewrite tsubst_comp. reflexivity.
Qed.

Lemma dsubst_id : forall D, dsubst TVar D = D.
Proof.
  induction D as [|[x [t|e]] D]; simpl; auto.
  - rewrite tsubst_id. f_equal. apply IHD.
  - f_equal. apply IHD.
Qed.

Lemma dsubst_ext : forall f g D, (forall x, f x = g x) -> dsubst f D = dsubst g D.
Proof.
  intros. unfold dsubst. apply map_ext. intros [x [t|e]]; simpl; auto.
  rewrite (tsubst_ext f g); auto.
Qed.

Fixpoint dftv (D : denv) : list nat :=
  match D with
  | [] => []
  | (_, DMono t) :: D' => ftv t ++ dftv D'
  | (_, DPoly _) :: D' => dftv D'
  end.

Lemma dsubst_ext_in : forall f g D, (forall x, In x (dftv D) -> f x = g x) -> dsubst f D = dsubst g D.
Proof.
  induction D as [|[x [t|e]] D]; simpl; intros H; auto.
  - rewrite IHD. rewrite (tsubst_ext_in f g); auto.
    + intros; apply H; apply in_or_app; auto.
    + intros; apply H; apply in_or_app; auto.
  - rewrite IHD; auto.
Qed.

Lemma sfun_nil : forall x, sfun [] x = TVar x.
Proof. reflexivity. Qed.

Lemma sfun_app : forall s1 s2 x, sfun (s1 ++ s2) x = tsubst (sfun s2) (sfun s1 x).
Proof. intros. unfold sfun. rewrite apply_app. apply apply_tsubst. Qed.

Lemma dapply_nil : forall D, dapply [] D = D.
Proof. intros. unfold dapply. rewrite (dsubst_ext (sfun []) TVar); auto. apply dsubst_id. Qed.

Lemma dapply_app : forall s1 s2 D, dapply (s1 ++ s2) D = dapply s2 (dapply s1 D).
Proof.
  intros. unfold dapply. rewrite dsubst_comp. apply dsubst_ext. intros; apply sfun_app.
Qed.

Lemma has_type_apply : forall cv s D e t,
  has_type_gen cv D e t -> has_type_gen cv (dapply s D) e (apply s t).
Proof. intros. rewrite apply_tsubst. apply has_type_subst; auto. Qed.

(* ------------------------------------------------------------------ environments *)

Inductive env_rel : env -> denv -> Prop :=
| ER_nil : env_rel [] []
| ER_mono G D x t : nogen t -> env_rel G D -> env_rel ((x, t) :: G) ((x, DMono t) :: D)
| ER_poly G D x sc e :
    env_rel G D ->
    (forall th ro, nogen_fun th -> has_type (dsubst th D) e (tinst ro (tsubst th sc))) ->
    env_rel ((x, sc) :: G) ((x, DPoly e) :: D).

Lemma env_rel_subst : forall G D th,
  env_rel G D -> nogen_fun th -> env_rel (tsubst_env th G) (dsubst th D).
Proof.
  induction 1; intros N; simpl.
  - constructor.
  - constructor; auto. apply nogen_tsubst; auto.
  - constructor; auto.
    intros th' ro N'. rewrite dsubst_comp, tsubst_comp. apply H0.
    intros y. apply nogen_tsubst; auto.
Qed.

Lemma env_rel_apply : forall G D s,
  env_rel G D -> nogen_subst s -> env_rel (apply_env s G) (dapply s D).
Proof. intros. rewrite apply_env_tsubst. apply env_rel_subst; auto. apply nogen_sfun; auto. Qed.

Lemma env_rel_ftv : forall G D, env_rel G D -> incl (dftv D) (ftv_env G).
Proof.
  induction 1; simpl.
  - apply incl_refl.
  - unfold ftv_env; simpl. apply incl_app_app; auto. apply incl_refl.
  - unfold ftv_env; simpl. apply incl_appr; auto.
Qed.

Lemma nogen_fun_var : nogen_fun TVar.
Proof. intros x; simpl; auto. Qed.

Lemma env_rel_lookup : forall G D x sc ro,
  env_rel G D -> lookup x G = Some sc -> has_type D (EVar x) (tinst ro sc).
Proof.
  induction 1; simpl; intros L; try discriminate.
  - destruct (x =? x0) eqn:E.
    + apply Nat.eqb_eq in E; subst. inv L. rewrite nogen_tinst_id; auto. apply T_VarMono.
    + apply Nat.eqb_neq in E. apply T_VarSkip; auto. apply IHenv_rel; auto.
  - destruct (x =? x0) eqn:E.
    + apply Nat.eqb_eq in E; subst. inv L. apply T_VarPoly.
      specialize (H0 TVar ro nogen_fun_var). rewrite dsubst_id, tsubst_id in H0. exact H0.
    + apply Nat.eqb_neq in E. apply T_VarSkip; auto. apply IHenv_rel; auto.
Qed.

(* ------------------------------------------------------------------ generalisation *)

Lemma memb_In : forall x l, memb x l = true <-> In x l.
Proof.
  induction l; simpl; split; intros H; try discriminate; try tauto.
  - apply orb_true_iff in H as [H|H].
    + apply Nat.eqb_eq in H; auto.
    + right; apply IHl; auto.
  - apply orb_true_iff. destruct H as [H|H].
    + left; apply Nat.eqb_eq; auto.
    + right; apply IHl; auto.
Qed.

Lemma index_of_In : forall x l i, index_of x l = Some i -> In x l.
Proof.
  induction l; simpl; intros i H; try discriminate.
  destruct (x =? a) eqn:E.
  - apply Nat.eqb_eq in E; auto.
  - destruct (index_of x l); try discriminate. right. eapply IHl; eauto.
Qed.

Definition mix (gs : list nat) (th ro : nat -> ty) : nat -> ty :=
  fun x => match index_of x gs with Some i => ro i | None => th x end.

Lemma gen_inst : forall gs th ro t,
  nogen t -> nogen_fun th ->
  tinst ro (tsubst th (tsubst (gen_fun gs) t)) = tsubst (mix gs th ro) t.
Proof.
  induction t; simpl; intros N Nth; auto; try tauto.
  - unfold gen_fun, mix. destruct (index_of n gs); simpl; auto.
    apply nogen_tinst_id. apply Nth.
  - destruct N; rewrite IHt1, IHt2; auto.
  - rewrite IHt; auto.
  - destruct N; rewrite IHt1, IHt2; auto.
Qed.

Lemma gen_vars_not_env : forall G t x, In x (gen_vars G t) -> ~ In x (ftv_env G).
Proof.
  unfold gen_vars; intros G t x H. apply filter_In in H as [_ H].
  apply negb_true_iff in H. intros I. apply memb_In in I. congruence.
Qed.

Lemma env_rel_gen : forall G D e t,
  env_rel G D -> nogen t -> has_type D e t ->
  forall th ro, nogen_fun th -> has_type (dsubst th D) e (tinst ro (tsubst th (gen G t))).
Proof.
  intros G D e t R N H th ro Nth.
  unfold gen. rewrite gen_inst; auto.
  rewrite (dsubst_ext_in th (mix (gen_vars G t) th ro) D).
  - apply has_type_subst; auto.
  - intros x I. unfold mix.
    destruct (index_of x (gen_vars G t)) eqn:E; auto.
    exfalso. apply index_of_In in E. apply gen_vars_not_env in E. apply E.
    eapply env_rel_ftv; eauto.
Qed.

(* ------------------------------------------------------------------ soundness of W *)

Lemma unify_sound1 : forall fuel n a b u n',
  unify fuel n [(a, b)] = Ok (u, n') -> teq (apply u a) (apply u b).
Proof. intros. apply unify_sound in H. inv H. exact H2. Qed.

Theorem infer_sound_gen : forall e fuel G D n s t n',
  env_rel G D -> infer fuel G e n = Ok (s, t, n') -> has_type (dapply s D) e t.
Proof.
  unfold has_type.
  induction e; intros fuel G D n0 s t n' R H.
  - inv H. apply T_Int.
  - inv H. apply T_Str.
  - apply infer_var_inv in H as (sc & L & -> & -> & _). rewrite dapply_nil.
    eapply env_rel_lookup; eauto.
  - apply infer_lam_inv in H as (t1 & H & ->).
    eapply IHe in H; [| apply ER_mono; [|exact R]; simpl; auto].
    apply T_Lam. exact H.
  - apply infer_app_inv in H as (s1 & t1 & n1 & s2 & t2 & n2 & u & H1 & H2 & H3 & -> & ->).
    pose proof (infer_nogen _ _ _ _ _ _ _ H1) as [N1 _].
    eapply IHe1 in H1; eauto.
    eapply IHe2 in H2; [| apply env_rel_apply; eauto].
    apply unify_sound1 in H3. rewrite apply_fun in H3.
    rewrite !dapply_app.
    eapply T_App.
    + eapply T_Conv; [reflexivity | exact H3 |]. repeat apply has_type_apply. exact H1.
    + apply has_type_apply. exact H2.
  - apply infer_let_inv in H as (s1 & t1 & n1 & s2 & H1 & H2 & ->).
    pose proof (infer_nogen _ _ _ _ _ _ _ H1) as [N1 Nt1].
    eapply IHe1 in H1; eauto.
    assert (R1 : env_rel (apply_env s1 G) (dapply s1 D)) by (apply env_rel_apply; auto).
    eapply IHe2 in H2.
    2:{ apply ER_poly. exact R1. intros th ro Nth. eapply env_rel_gen; eauto. }
    rewrite dapply_app.
    eapply T_Let.
    + apply has_type_apply. exact H1.
    + exact H2.
  - apply infer_fix_inv in H as (s1 & t1 & n1 & u & H1 & H2 & -> & ->).
    eapply IHe in H1.
    2:{ apply ER_mono; [simpl; auto|]. apply ER_mono; [simpl; auto|]. exact R. }
    apply unify_sound1 in H2.
    rewrite dapply_app. rewrite !apply_fun.
    apply T_Fix.
    eapply T_Conv; [reflexivity | apply teq_sym; exact H2 |].
    apply (has_type_apply true u) in H1.
    unfold dapply at 1 in H1. unfold dapply at 1 in H1. simpl in H1. rewrite <- !apply_tsubst in H1.
    unfold sfun in H1. exact H1.
  - apply infer_if_inv in H as (s0 & t0 & n00 & u0 & m0 & s1 & t1 & n1 & s2 & t2 & n2 & u & H0 & U0 & H1 & H2 & U & -> & ->).
    pose proof (infer_nogen _ _ _ _ _ _ _ H0) as [N0 Nt0].
    pose proof (infer_nogen _ _ _ _ _ _ _ H1) as [N1 Nt1].
    assert (NU0 : nogen_subst u0).
    { eapply unify_nogen; [| exact U0]. constructor; [|constructor]. simpl; auto. }
    eapply IHe1 in H0; eauto.
    assert (R0 : env_rel (apply_env (s0 ++ u0) G) (dapply (s0 ++ u0) D)).
    { apply env_rel_apply; auto. apply nogen_subst_app; auto. }
    eapply IHe2 in H1; eauto.
    eapply IHe3 in H2; [| apply env_rel_apply; eauto].
    apply unify_sound1 in U0. apply unify_sound1 in U.
    rewrite !dapply_app in *.
    apply T_If.
    + unfold tbool in *. rewrite apply_con in U0.
      assert (X : has_type_gen true (dapply u0 (dapply s0 D)) e1 (TCon 2)).
      { eapply T_Conv; [reflexivity | exact U0 |]. apply has_type_apply. exact H0. }
      apply (has_type_apply true s1) in X. apply (has_type_apply true s2) in X.
      apply (has_type_apply true u) in X. rewrite !apply_con in X. exact X.
    + eapply T_Conv; [reflexivity | exact U |]. repeat apply has_type_apply. exact H1.
    + apply has_type_apply. exact H2.
  - apply infer_eq_inv in H as (s1 & t1 & n1 & u1 & m1 & s2 & t2 & n2 & u2 & H1 & U1 & H2 & U2 & -> & ->).
    pose proof (infer_nogen _ _ _ _ _ _ _ H1) as [N1 Nt1].
    assert (NU1 : nogen_subst u1).
    { eapply unify_nogen; [| exact U1]. constructor; [|constructor]. simpl; auto. }
    eapply IHe1 in H1; eauto.
    eapply IHe2 in H2; [| apply env_rel_apply; eauto; apply nogen_subst_app; auto].
    apply unify_sound1 in U1. apply unify_sound1 in U2.
    rewrite !dapply_app in *.
    apply T_Eq.
    + unfold tint in *. rewrite apply_con in U1.
      assert (X : has_type_gen true (dapply u1 (dapply s1 D)) e1 (TCon 0)).
      { eapply T_Conv; [reflexivity | exact U1 |]. apply has_type_apply. exact H1. }
      apply (has_type_apply true s2) in X. apply (has_type_apply true u2) in X.
      rewrite !apply_con in X. exact X.
    + unfold tint in *. rewrite apply_con in U2.
      eapply T_Conv; [reflexivity | exact U2 |]. apply has_type_apply. exact H2.
  - inv H. apply T_FNil.
  - apply infer_fcons_inv in H as (s1 & t1 & n1 & s2 & t2 & F1 & F2 & H1 & H2 & -> & ->).
    pose proof (infer_nogen _ _ _ _ _ _ _ H1) as [N1 Nt1].
    eapply IHe1 in H1; eauto.
    eapply IHe2 in H2; [| apply env_rel_apply; eauto].
    rewrite dapply_app. apply T_FCons; auto. apply has_type_apply; auto.
  - apply infer_proj_inv in H as (s1 & t1 & n1 & u & H1 & U & -> & ->).
    eapply IHe in H1; eauto. apply unify_sound1 in U. rewrite apply_cons in U.
    rewrite dapply_app. eapply T_Proj.
    eapply T_Conv; [reflexivity | exact U |]. apply has_type_apply. exact H1.
  - inv H. apply T_ANil.
  - apply infer_acons_inv in H as (s1 & t1 & n1 & s2 & t2 & n2 & u & F & H1 & H2 & U & -> & ->).
    pose proof (infer_nogen _ _ _ _ _ _ _ H1) as [N1 Nt1].
    eapply IHe1 in H1; eauto.
    eapply IHe2 in H2; [| apply env_rel_apply; eauto].
    apply unify_sound1 in U. rewrite apply_array in U.
    rewrite !dapply_app.
    eapply T_Conv; [reflexivity | exact U |].
    apply T_ACons; auto.
    + repeat apply has_type_apply. exact H1.
    + eapply T_Conv; [reflexivity | apply teq_sym; exact U |]. apply has_type_apply. exact H2.
Qed.

Theorem infer_sound : forall fuel e s t n',
  infer fuel [] e 0 = Ok (s, t, n') -> has_type [] e t.
Proof.
  intros. apply (infer_sound_gen e fuel [] [] 0 s t n' ER_nil) in H. exact H.
Qed.
