(* Correctness of the column-by-column match translation (MatchCompile.v): it selects exactly
   the first equation, in source order, all of whose patterns match; the `default` otherwise. *)
From Coq Require Import List ZArith NArith Bool Lia.
From GV Require Import Lang.MatchCompile.
Import ListNotations.

(* ---------------------------------------------------------------- unfolding lemmas *)
Lemma smatch_con : forall t ps t' vs,
  smatch (SCon t ps) (SVCon t' vs) = N.eqb t t' && smatch_list ps vs.
Proof.
  intros t ps t' vs. reflexivity.
Qed.

Lemma wf_con : forall t ps vs, wf_pat (SCon t ps) (SVCon t vs) = wf_pats ps vs.
Proof.
  intros t ps vs. cbn [wf_pat]. rewrite N.eqb_refl. reflexivity.
Qed.

Lemma spat_size_con : forall t ps, spat_size (SCon t ps) = S (pats_size ps).
Proof.
  intros t ps. reflexivity.
Qed.

Lemma spat_size_pos : forall p, 1 <= spat_size p.
Proof. destruct p; cbn [spat_size]; lia. Qed.

Lemma pats_size_app : forall a b, pats_size (a ++ b) = pats_size a + pats_size b.
Proof. induction a; intro b; cbn [pats_size app]; [reflexivity | rewrite IHa; lia]. Qed.

Lemma wf_pats_length : forall ps vs, wf_pats ps vs = true -> length ps = length vs.
Proof.
  induction ps as [| q ps IH]; intros [| w vs] H; cbn [wf_pats] in H; try discriminate; [reflexivity |].
  apply andb_prop in H. destruct H as [_ H]. cbn [length]. f_equal. apply IH. exact H.
Qed.

Lemma wf_pats_app : forall ps vs ts ws,
  wf_pats ps vs = true -> wf_pats ts ws = true -> wf_pats (ps ++ ts) (vs ++ ws) = true.
Proof.
  induction ps as [| q ps IH]; intros [| w vs] ts ws H1 H2; cbn [wf_pats app] in *; try discriminate; [exact H2 |].
  apply andb_prop in H1. destruct H1 as [Ha Hb]. rewrite Ha. cbn [andb]. apply IH; assumption.
Qed.

Lemma smatch_list_app : forall ps vs ts ws,
  length ps = length vs ->
  smatch_list (ps ++ ts) (vs ++ ws) = smatch_list ps vs && smatch_list ts ws.
Proof.
  induction ps as [| q ps IH]; intros [| w vs] ts ws Hl; cbn [length] in Hl; try discriminate.
  - reflexivity.
  - cbn [smatch_list app]. rewrite IH by lia. rewrite andb_assoc. reflexivity.
Qed.

Lemma first_row_app : forall a b vs,
  first_row (a ++ b) vs = match first_row a vs with Some k => Some k | None => first_row b vs end.
Proof.
  induction a as [| [ps k] a IH]; intros b vs; cbn [first_row app]; [reflexivity |].
  destruct (smatch_list ps vs); [reflexivity | apply IH].
Qed.

(* ---------------------------------------------------------------- chunks *)
Lemma chunks_concat : forall rows, concat (map snd (chunks rows)) = rows.
Proof.
  induction rows as [| r rows IH]; cbn [chunks]; [reflexivity |].
  destruct (chunks rows) as [| [k g] cs] eqn:E.
  - cbn in IH. subst rows. reflexivity.
  - destruct (kind_eqb (row_kind r) k); cbn [map snd concat app] in *; rewrite <- IH; reflexivity.
Qed.

Lemma kind_eqb_eq : forall a b, kind_eqb a b = true -> a = b.
Proof. destruct a, b; cbn; congruence. Qed.

Lemma chunks_homogeneous : forall rows,
  Forall (fun c => snd c <> [] /\ Forall (fun r => row_kind r = fst c) (snd c)) (chunks rows).
Proof.
  induction rows as [| r rows IH]; cbn [chunks]; [constructor |].
  destruct (chunks rows) as [| [k g] cs] eqn:E.
  - constructor; [| constructor]. cbn. split; [discriminate | constructor; [reflexivity | constructor]].
  - inversion IH as [| c cs' [Hne Hk] Hcs]; subst.
    destruct (kind_eqb (row_kind r) k) eqn:Ek.
    + apply kind_eqb_eq in Ek. constructor; [| exact Hcs]. cbn [fst snd] in *.
      split; [discriminate | constructor; assumption].
    + constructor; [| exact IH]. cbn. split; [discriminate | constructor; [reflexivity | constructor]].
Qed.

(* ---------------------------------------------------------------- sizes *)
Lemma rows_size_app : forall a b, rows_size (a ++ b) = rows_size a + rows_size b.
Proof. induction a; intro b; cbn [rows_size app]; [reflexivity | rewrite IHa; lia]. Qed.

Lemma rows_size_concat_le : forall (cs : list (kind * list row)) c,
  In c cs -> rows_size (snd c) <= rows_size (concat (map snd cs)).
Proof.
  induction cs as [| c0 cs IH]; intros c Hin; [destruct Hin |].
  cbn [map concat]. rewrite rows_size_app. destruct Hin as [-> | Hin]; [lia |].
  specialize (IH c Hin). lia.
Qed.

Lemma select_con_size : forall tag g,
  rows_size (select_con tag g) + length (select_con tag g) <= rows_size g.
Proof.
  induction g as [| [ps k] g IH]; cbn [select_con rows_size length]; [lia |].
  destruct ps as [| [| t ps0 | z] rest]; cbn [fst pats_size]; try lia.
  destruct (N.eqb t tag); cbn [rows_size length fst]; [| rewrite spat_size_con; lia].
  rewrite pats_size_app, spat_size_con. lia.
Qed.

Lemma select_lit_size : forall z g,
  rows_size (select_lit z g) + length (select_lit z g) <= rows_size g.
Proof.
  induction g as [| [ps k] g IH]; cbn [select_lit rows_size length]; [lia |].
  destruct ps as [| [| t ps0 | z'] rest]; cbn [fst pats_size]; try lia.
  destruct (Z.eqb z' z); cbn [rows_size length fst spat_size]; lia.
Qed.

(* ---------------------------------------------------------------- one group *)
Lemma wf_rows_cons_length : forall g v rest r,
  wf_rows g (v :: rest) = true -> In r g -> exists p ps, fst r = p :: ps /\ wf_pat p v = true /\ wf_pats ps rest = true.
Proof.
  intros g v rest r Hwf Hin. unfold wf_rows in Hwf. rewrite forallb_forall in Hwf.
  specialize (Hwf r Hin). destruct (fst r) as [| p ps]; cbn [wf_pats] in Hwf; [discriminate |].
  apply andb_prop in Hwf. destruct Hwf. eauto.
Qed.

Lemma wf_rows_tail : forall g v rest,
  wf_rows g (v :: rest) = true -> wf_rows (map tail_row g) rest = true.
Proof.
  intros g v rest Hwf. unfold wf_rows. rewrite forallb_forall. intros r Hin.
  apply in_map_iff in Hin. destruct Hin as (r0 & <- & Hin0).
  destruct (wf_rows_cons_length _ _ _ _ Hwf Hin0) as (p & ps & E & _ & H). unfold tail_row. cbn [fst]. rewrite E. exact H.
Qed.

Lemma wf_rows_inv : forall r g vs, wf_rows (r :: g) vs = true -> wf_pats (fst r) vs = true /\ wf_rows g vs = true.
Proof. intros r g vs H. unfold wf_rows in *. cbn [forallb] in H. apply andb_prop in H. exact H. Qed.

Lemma var_group : forall g v rest,
  Forall (fun r => row_kind r = KVar) g -> wf_rows g (v :: rest) = true ->
  first_row g (v :: rest) = first_row (map tail_row g) rest
  /\ (g <> [] -> rows_size (map tail_row g) < rows_size g).
Proof.
  induction g as [| [ps k] g IH]; intros v rest Hk Hwf; [split; [reflexivity | congruence] |].
  inversion Hk as [| ? ? Hk1 Hk2]; subst. apply wf_rows_inv in Hwf. destruct Hwf as [Hw1 Hw2]. cbn [fst] in Hw1.
  destruct (IH v rest Hk2 Hw2) as [IH1 IH2].
  destruct ps as [| p ps]; cbn [wf_pats] in Hw1; [discriminate |].
  unfold row_kind in Hk1. cbn [fst] in Hk1. destruct p; cbn [kind_of] in Hk1; try discriminate.
  split.
  - cbn [first_row map tail_row fst snd tl smatch_list smatch andb]. rewrite IH1. reflexivity.
  - intros _. cbn [map tail_row rows_size fst snd tl pats_size spat_size].
    destruct g as [| r g']; [cbn; lia |]. assert (r :: g' <> []) as Hne by discriminate. specialize (IH2 Hne). lia.
Qed.

Lemma con_group : forall g tag args rest,
  Forall (fun r => row_kind r = KCon) g -> wf_rows g (SVCon tag args :: rest) = true ->
  first_row g (SVCon tag args :: rest) = first_row (select_con tag g) (args ++ rest)
  /\ wf_rows (select_con tag g) (args ++ rest) = true.
Proof.
  induction g as [| [ps k] g IH]; intros tag args rest Hk Hwf; [split; reflexivity |].
  inversion Hk as [| ? ? Hk1 Hk2]; subst. apply wf_rows_inv in Hwf. destruct Hwf as [Hw1 Hw2]. cbn [fst] in Hw1.
  destruct (IH tag args rest Hk2 Hw2) as [IH1 IH2].
  destruct ps as [| p ps]; cbn [wf_pats] in Hw1; [discriminate |].
  unfold row_kind in Hk1. cbn [fst] in Hk1. destruct p as [| t ps0 | z]; cbn [kind_of] in Hk1; try discriminate.
  apply andb_prop in Hw1. destruct Hw1 as [Hwp Hwr].
  cbn [select_con first_row smatch_list]. rewrite smatch_con.
  destruct (N.eqb t tag) eqn:Et.
  - apply N.eqb_eq in Et. subst t. rewrite wf_con in Hwp.
    cbn [first_row andb]. rewrite smatch_list_app by (apply wf_pats_length; exact Hwp).
    split.
    + destruct (smatch_list ps0 args && smatch_list ps rest); [reflexivity | exact IH1].
    + unfold wf_rows. cbn [forallb fst]. rewrite wf_pats_app by assumption. exact IH2.
  - cbn [andb]. split; [exact IH1 | exact IH2].
Qed.

Lemma lit_group : forall g z rest,
  Forall (fun r => row_kind r = KLit) g -> wf_rows g (SVLit z :: rest) = true ->
  first_row g (SVLit z :: rest) = first_row (select_lit z g) rest
  /\ wf_rows (select_lit z g) rest = true.
Proof.
  induction g as [| [ps k] g IH]; intros z rest Hk Hwf; [split; reflexivity |].
  inversion Hk as [| ? ? Hk1 Hk2]; subst. apply wf_rows_inv in Hwf. destruct Hwf as [Hw1 Hw2]. cbn [fst] in Hw1.
  destruct (IH z rest Hk2 Hw2) as [IH1 IH2].
  destruct ps as [| p ps]; cbn [wf_pats] in Hw1; [discriminate |].
  unfold row_kind in Hk1. cbn [fst] in Hk1. destruct p as [| t ps0 | z']; cbn [kind_of] in Hk1; try discriminate.
  apply andb_prop in Hw1. destruct Hw1 as [_ Hwr].
  cbn [select_lit first_row smatch_list smatch].
  destruct (Z.eqb z' z) eqn:Ez.
  - cbn [first_row andb]. split.
    + destruct (smatch_list ps rest); [reflexivity | exact IH1].
    + unfold wf_rows. cbn [forallb fst]. rewrite Hwr. exact IH2.
  - cbn [andb]. split; [exact IH1 | exact IH2].
Qed.

Lemma wf_rows_in : forall rows vs g, wf_rows rows vs = true -> (forall r, In r g -> In r rows) -> wf_rows g vs = true.
Proof.
  intros rows vs g H Hsub. unfold wf_rows in *. rewrite forallb_forall in *. auto.
Qed.

Lemma in_chunk_in_rows : forall (cs : list (kind * list row)) c r, In c cs -> In r (snd c) -> In r (concat (map snd cs)).
Proof.
  intros cs c r Hc Hr. apply in_concat. exists (snd c). split; [apply in_map; exact Hc | exact Hr].
Qed.

(* a literal pattern never faces a constructor value and vice versa in a well-formed group *)
Lemma con_group_lit_value : forall g z rest,
  Forall (fun r => row_kind r = KCon) g -> wf_rows g (SVLit z :: rest) = true -> g = [].
Proof.
  intros [| [ps k] g] z rest Hk Hwf; [reflexivity |].
  inversion Hk as [| ? ? Hk1 _]; subst. apply wf_rows_inv in Hwf. destruct Hwf as [Hw1 _]. cbn [fst] in Hw1.
  destruct ps as [| p ps]; cbn [wf_pats] in Hw1; [discriminate |].
  unfold row_kind in Hk1. cbn [fst] in Hk1. destruct p; cbn [kind_of] in Hk1; try discriminate.
  all: try (cbn [wf_pat andb] in Hw1; discriminate).
Qed.

Lemma lit_group_con_value : forall g t args rest,
  Forall (fun r => row_kind r = KLit) g -> wf_rows g (SVCon t args :: rest) = true -> g = [].
Proof.
  intros [| [ps k] g] t args rest Hk Hwf; [reflexivity |].
  inversion Hk as [| ? ? Hk1 _]; subst. apply wf_rows_inv in Hwf. destruct Hwf as [Hw1 _]. cbn [fst] in Hw1.
  destruct ps as [| p ps]; cbn [wf_pats] in Hw1; [discriminate |].
  unfold row_kind in Hk1. cbn [fst] in Hk1. destruct p; cbn [kind_of] in Hk1; try discriminate.
  all: try (cbn [wf_pat andb] in Hw1; discriminate).
Qed.

(* ---------------------------------------------------------------- main theorem *)
Definition pick (o : option nat) (default : option nat) : option nat :=
  match o with Some k => Some k | None => default end.

Theorem translate_correct : forall fuel rows vs default,
  rows_size rows < fuel -> wf_rows rows vs = true ->
  translate fuel default vs rows = Some (pick (first_row rows vs) default).
Proof.
  induction fuel as [| f IH]; intros rows vs default Hsz Hwf; [lia |].
  cbn [translate]. destruct vs as [| v rest].
  - (* no column left: the first equation, if any *)
    destruct rows as [| [ps k] rows]; [reflexivity |].
    apply wf_rows_inv in Hwf. destruct Hwf as [Hw _]. cbn [fst] in Hw.
    destruct ps; cbn [wf_pats] in Hw; [| discriminate]. reflexivity.
  - pose proof (chunks_concat rows) as Hcat. pose proof (chunks_homogeneous rows) as Hhom.
    set (cs := chunks rows) in *.
    assert (forall c, In c cs -> rows_size (snd c) <= rows_size rows) as Hle
      by (intros c Hc; rewrite <- Hcat; apply rows_size_concat_le; exact Hc).
    assert (forall c r, In c cs -> In r (snd c) -> In r rows) as Hin
      by (intros c r Hc Hr; rewrite <- Hcat; eapply in_chunk_in_rows; eauto).
    rewrite <- Hcat. clear Hcat.
    induction cs as [| [k g] cs IHcs]; [reflexivity |].
    cbn [fold_right map concat fst snd].
    inversion Hhom as [| ? ? [Hne Hk] Hhom']; subst. cbn [fst snd] in *.
    rewrite IHcs; [| exact Hhom' | intros c Hc; apply Hle; right; exact Hc | intros c r Hc Hr; eapply Hin; [right; exact Hc | exact Hr]].
    clear IHcs.
    assert (wf_rows g (v :: rest) = true) as Hwg
      by (eapply wf_rows_in; [exact Hwf | intros r Hr; eapply (Hin (k, g)); [left; reflexivity | exact Hr]]).
    assert (rows_size g <= rows_size rows) as Hg by (apply (Hle (k, g)); left; reflexivity).
    rewrite first_row_app.
    set (d := pick (first_row (concat (map snd cs)) (v :: rest)) default).
    assert (forall o, pick o d = match o with Some k0 => Some k0 | None => pick (first_row (concat (map snd cs)) (v :: rest)) default end) as Hpick
      by (intros [k0 |]; reflexivity).
    destruct k.
    + (* variable group *)
      destruct (var_group g v rest Hk Hwg) as [Hfr Hlt]. specialize (Hlt Hne).
      rewrite IH; [| lia | eapply wf_rows_tail; exact Hwg].
      rewrite <- Hfr. unfold pick at 2. destruct (first_row g (v :: rest)); reflexivity.
    + (* constructor group *)
      destruct v as [tag args | z].
      * destruct (con_group g tag args rest Hk Hwg) as [Hfr Hws].
        pose proof (select_con_size tag g) as Hs.
        destruct (select_con tag g) as [| r0 sel] eqn:Esel.
        -- rewrite Hfr. cbn [first_row]. reflexivity.
        -- rewrite IH; [| cbn [length] in Hs; lia | exact Hws].
           rewrite <- Hfr. unfold pick at 2. destruct (first_row g (SVCon tag args :: rest)); reflexivity.
      * rewrite (con_group_lit_value g z rest Hk Hwg). reflexivity.
    + (* literal group *)
      destruct v as [tag args | z].
      * rewrite (lit_group_con_value g tag args rest Hk Hwg). reflexivity.
      * destruct (lit_group g z rest Hk Hwg) as [Hfr Hws].
        pose proof (select_lit_size z g) as Hs.
        destruct (select_lit z g) as [| r0 sel] eqn:Esel.
        -- rewrite Hfr. cbn [first_row]. reflexivity.
        -- rewrite IH; [| cbn [length] in Hs; lia | exact Hws].
           rewrite <- Hfr. unfold pick at 2. destruct (first_row g (SVLit z :: rest)); reflexivity.
Qed.

(* With the "Unmatched pattern" default and enough fuel, the translation takes the first
   matching equation in source order, and reports Unmatched (None) exactly when none matches. *)
Theorem match_compile_correct_partial : forall rows vs,
  wf_rows rows vs = true ->
  translate (S (rows_size rows)) None vs rows = Some (first_row rows vs).
Proof.
  intros rows vs Hwf. rewrite translate_correct; [| lia | exact Hwf].
  unfold pick. destruct (first_row rows vs); reflexivity.
Qed.

(* The statement without the well-formedness premise (what the type checker guarantees: one
   pattern per column, sub-patterns in number equal to the constructor's fields).  It is false:
   the premise is needed. *)
Definition match_compile_correct_full_stmt : Prop :=
  forall rows vs, translate (S (rows_size rows)) None vs rows = Some (first_row rows vs).

Theorem match_compile_correct_full_refuted :
  exists rows vs, translate (S (rows_size rows)) None vs rows <> Some (first_row rows vs).
Proof.
  exists [([SWild; SWild], 0)], [SVLit 0%Z]. vm_compute. discriminate.
Qed.
