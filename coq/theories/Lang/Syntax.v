(* MiniGluon: deep embedding of the fragment of Gluon shared by the program-level properties.
   Definitions only.  The Rust mirror is harness/src/mg/ast.rs; the s-expression reader that
   builds these terms is coq/extract/c01/driver.ml (format: harness/src/mg/sexp.rs).

   Names are abstract atoms ([N]); the driver interns identifiers.  Convention: the field
   names of a tuple are the atoms 0, 1, 2, … (Gluon's `_0`, `_1`, …: a tuple IS a record,
   vm/src/core/mod.rs Tuple arm builds the same `Data` node as a record).
   Constructor tags are resolved by the front end (index in the type declaration;
   False = 0, True = 1), as vm/src/core/mod.rs new_data_constructor_ does. *)
From Coq Require Import List ZArith NArith.
Import ListNotations.

Definition name := N.

Inductive lit :=
| LInt (z : Z)
| LByte (z : Z)
| LChar (z : Z)            (* code point; the VM stores a Char as an Int-like value *)
| LStr (s : list N)        (* UTF-8 bytes *)
| LFloat (bits : Z).       (* IEEE bit pattern, only moved around *)

Inductive primop :=
| IntAdd | IntSub | IntMul | IntDiv | IntEq | IntLt
| ByteAdd | ByteSub | ByteMul | ByteDiv | ByteEq | ByteLt.

Inductive pat :=
| PWild
| PVar (x : name)
| PLit (l : lit)
| PCon (tag : N) (ps : list pat)
| PRcd (fs : list (name * pat))      (* any subset of the fields, any order *)
| PTup (ps : list pat)
| PAs (x : name) (p : pat).

Inductive expr :=
| ELit (l : lit)
| EVar (x : name)
| ELam (xs : list name) (b : expr)
| EApp (f : expr) (args : list expr)
| ELet (p : pat) (e1 e2 : expr)
| ERec (bs : list (name * (list name * expr))) (body : expr)
| EIf (c t f : expr)
| EPrim (op : primop) (a b : expr)
| EAnd (a b : expr)
| EOr (a b : expr)
| ERcd (fs : list (name * expr))
| ERcdU (fs : list (name * expr)) (base : expr)     (* { l = e, …, .. base } *)
| EProj (e : expr) (l : name)
| ETup (es : list expr)
| ECon (tag : N) (es : list expr)
| EArr (es : list expr)
| EAIdx (a i : expr)
| EALen (a : expr)
| EMatch (s : expr) (alts : list (pat * expr))
| ESeq (a b : expr)
| EError (msg : list N)
| EEff (e : expr)
| EAnn (e : expr).

Definition recs := list (name * (list name * expr)).

(* Values.  A closure keeps the environment of its definition; a member of a `rec` group also
   keeps the whole group ([grp]) and re-binds it when it is applied, so no cyclic value is
   needed.  [VPap f args]: a function applied to fewer arguments than its arity. *)
Inductive value :=
| VInt (z : Z)
| VByte (z : Z)
| VFloat (bits : Z)
| VStr (s : list N)
| VData (tag : N) (vs : list value)
| VRcd (fs : list (name * value))
| VArr (vs : list value)
| VClo (env : list (name * value)) (grp : recs) (xs : list name) (body : expr)
| VPap (f : value) (args : list value).

Definition env := list (name * value).

Inductive err :=
| Explicit (msg : list N)     (* error "msg", and the VM's own panics with a message *)
| Unmatched                   (* no alternative applies *)
| Arith.                      (* checked Int/Byte arithmetic: overflow or division by zero *)

Inductive res (A : Type) :=
| Ok (a : A)
| Fail (e : err)
| Stuck                       (* dynamic shape error: cannot happen in a well-typed program *)
| OutOfFuel.
Arguments Ok {A}. Arguments Fail {A}. Arguments Stuck {A}. Arguments OutOfFuel {A}.

(* effect log, newest entry first *)
Definition log := list Z.
