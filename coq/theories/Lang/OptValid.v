(* valid_opt a b: `b` is obtained from the core expression `a` by rewrites the optimiser
   (vm/src/core/optimize.rs:284 `optimize` = RecognizeUnnecessaryAllocation + dependency-graph
   dead-code elimination, vm/src/core/dead_code.rs:17) is entitled to.  Definitions only
   (executable, extracted by coq/extract/c04); soundness is proved in OptValidProofs.v.

   Rewrites accepted (closed under congruence):
   R1  let x = rhs in body        =>  body'      when x is not free in body' and `droppable rhs`
       (dead_code.rs:57-63 drops every `Named::Expr` binding the dependency graph does not
       reach; that is only meaning preserving when evaluating rhs cannot fail, loop or have an
       effect -- `droppable`)
   R2  rec f.. g.. in body        =>  rec (kept members) in body'  or  body'
       when the dropped members are referenced neither by the kept ones nor by body', and a
       dropped member without parameters (a recursive value, evaluated when the group is made) is
       `droppable`
       (dead_code.rs:40-55, :75-78)
   R3  match {l1 = e1, .. ln = en} with | {li = xi ..} -> body
                                  =>  let p1 = e1 in .. let pn = en in body
       p_i = the pattern's binder for l_i, or a name that is not used afterwards
       (optimize.rs:198-268 RecognizeUnnecessaryAllocation), each of the produced bindings being
       subject to R1 straight away (the two passes run back to back)
   R4  match s with | {li = xi ..} -> body  =>  body'
       when no x_i is free in body' and `droppable s` (dead_code.rs:81-97)

   `droppable e` (syntactic): evaluating e has no effect and can only fail in a built-in
   arithmetic operation: constants, identifiers, data/record construction, closure creation,
   `#Int+`-style primitive calls, let/match/cast over such.  No other call. *)
From Coq Require Import List ZArith NArith Bool.
From GV Require Import Lang.Core.
Import ListNotations.

Fixpoint memb (x : N) (l : list N) : bool :=
  match l with [] => false | y :: l' => N.eqb x y || memb x l' end.

Fixpoint removeb (x : N) (l : list N) : list N :=
  match l with [] => [] | y :: l' => if N.eqb x y then removeb x l' else y :: removeb x l' end.

(* the members of l that are not in xs *)
Fixpoint remove_all (xs : list N) (l : list N) : list N :=
  match l with [] => [] | y :: l' => if memb y xs then remove_all xs l' else y :: remove_all xs l' end.

Fixpoint disjointb (xs l : list N) : bool :=
  match xs with [] => true | x :: xs' => negb (memb x l) && disjointb xs' l end.

Fixpoint nodupb (l : list N) : bool :=
  match l with [] => true | x :: l' => negb (memb x l') && nodupb l' end.

Fixpoint inclb (xs l : list N) : bool :=
  match xs with [] => true | x :: xs' => memb x l && inclb xs' l end.

Definition pat_binders (p : pat) : list ident :=
  match p with
  | PCon _ xs => xs
  | PRec fs => map snd fs
  | PVar x => [x]
  | PLit _ => []
  end.

Fixpoint fv (e : cexpr) : list ident :=
  match e with
  | Const _ => []
  | Ident x => [x]
  | Prim _ => []
  | Call f args => fv f ++ fv_list args
  | Data _ args => fv_list args
  | Rec _ args => fv_list args
  | Let x rhs body => fv rhs ++ removeb x (fv body)
  | LetRec cs body => remove_all (clo_names cs) (fv_clos cs ++ fv body)
  | Match s alts => fv s ++ fv_alts alts
  | Cast e => fv e
  end
with fv_list (es : cexprs) : list ident :=
  match es with ENil => [] | ECons e es' => fv e ++ fv_list es' end
(* free variables of the members' bodies, their own parameters removed, the group's names NOT removed *)
with fv_clos (cs : closures) : list ident :=
  match cs with
  | CNil => []
  | CCons _ ps body cs' => remove_all ps (fv body) ++ fv_clos cs'
  end
with fv_alts (alts : calts) : list ident :=
  match alts with
  | ANil => []
  | ACons p e alts' => remove_all (pat_binders p) (fv e) ++ fv_alts alts'
  end.

(* primitives whose only possible failure is the arithmetic one; `&&` and `||` are not treated
   as primitives by the dependency graph (dead_code.rs:260 looks at the leading '#') *)
Definition arith_prim (p : primop) : bool :=
  match p with PAnd | POr => false | _ => true end.

Fixpoint droppable (e : cexpr) : bool :=
  match e with
  | Const _ => true
  | Ident _ => true
  | Prim _ => false
  | Call f args =>
      match f, args with
      | Prim p, ECons a (ECons b ENil) => arith_prim p && droppable a && droppable b
      | _, _ => false
      end
  | Data _ args => droppable_list args
  | Rec _ args => droppable_list args
  | Let _ rhs body => droppable rhs && droppable body
  | LetRec cs body => droppable_clos cs && droppable body
  | Match s alts => droppable s && droppable_alts alts
  | Cast e => droppable e
  end
with droppable_list (es : cexprs) : bool :=
  match es with ENil => true | ECons e es' => droppable e && droppable_list es' end
with droppable_alts (alts : calts) : bool :=
  match alts with ANil => true | ACons _ e alts' => droppable e && droppable_alts alts' end
(* the members without parameters (recursive values) are evaluated when the group is made *)
with droppable_clos (cs : closures) : bool :=
  match cs with
  | CNil => true
  | CCons _ ps body cs' => (negb (is_nil ps) || droppable body) && droppable_clos cs'
  end.

Definition lit_eqb (a b : lit) : bool :=
  match a, b with
  | LInt x, LInt y => Z.eqb x y
  | LByte x, LByte y => Z.eqb x y
  | LFloat x, LFloat y => Z.eqb x y
  | LStr x, LStr y => list_N_eqb x y
  | _, _ => false
  end.

Definition primop_eqb (a b : primop) : bool :=
  match a, b with
  | PIntAdd, PIntAdd | PIntSub, PIntSub | PIntMul, PIntMul | PIntDiv, PIntDiv | PIntLt, PIntLt | PIntEq, PIntEq
  | PByteAdd, PByteAdd | PByteSub, PByteSub | PByteMul, PByteMul | PByteDiv, PByteDiv | PByteLt, PByteLt
  | PByteEq, PByteEq | PFloatAdd, PFloatAdd | PFloatSub, PFloatSub | PFloatMul, PFloatMul
  | PFloatDiv, PFloatDiv | PFloatLt, PFloatLt | PFloatEq, PFloatEq | PAnd, PAnd | POr, POr => true
  | _, _ => false
  end.

Fixpoint fields_eqb (a b : list (fname * ident)) : bool :=
  match a, b with
  | [], [] => true
  | (f, x) :: a', (g, y) :: b' => N.eqb f g && N.eqb x y && fields_eqb a' b'
  | _, _ => false
  end.

Definition pat_eqb (p q : pat) : bool :=
  match p, q with
  | PCon c xs, PCon d ys => N.eqb c d && list_N_eqb xs ys
  | PRec fs, PRec gs => fields_eqb fs gs
  | PVar x, PVar y => N.eqb x y
  | PLit l, PLit m => lit_eqb l m
  | _, _ => false
  end.

Fixpoint size (e : cexpr) : nat :=
  match e with
  | Const _ | Ident _ | Prim _ => 1
  | Call f args => S (size f + size_list args)
  | Data _ args => S (size_list args)
  | Rec _ args => S (size_list args)
  | Let _ rhs body => S (size rhs + size body)
  | LetRec cs body => S (size_clos cs + size body)
  | Match s alts => S (size s + size_alts alts)
  | Cast e => S (size e)
  end
with size_list (es : cexprs) : nat :=
  match es with ENil => 1 | ECons e es' => S (size e + size_list es') end
with size_clos (cs : closures) : nat :=
  match cs with CNil => 1 | CCons _ _ b cs' => S (size b + size_clos cs') end
with size_alts (alts : calts) : nat :=
  match alts with ANil => 1 | ACons _ e alts' => S (size e + size_alts alts') end.

Fixpoint length_list (es : cexprs) : nat :=
  match es with ENil => O | ECons _ r => S (length_list r) end.

(* a group may only be dropped when making its value members is droppable *)
Definition values_droppable (cs : closures) : bool := droppable_clos cs.

Definition is_prim (e : cexpr) : bool := match e with Prim _ => true | _ => false end.

(* the binder the record pattern gives to field fn *)
Definition binder_of (fn : fname) (pfs : list (fname * ident)) : option ident := lookup fn pfs.

(* [vo k a b]: the checker, with k bounding the recursion depth (k > size a suffices). *)
Fixpoint vo (k : nat) (a b : cexpr) {struct k} : bool :=
  match k with
  | O => false
  | S k =>
    match a with
    | Const l => match b with Const l' => lit_eqb l l' | _ => false end
    | Ident x => match b with Ident y => N.eqb x y | _ => false end
    | Prim p => match b with Prim q => primop_eqb p q | _ => false end
    | Call f args =>
        match b with
        | Call f' args' => (negb (is_prim f') || is_prim f) && vo k f f' && vo_list k args args'
        | _ => false
        end
    | Data c args => match b with Data c' args' => N.eqb c c' && vo_list k args args' | _ => false end
    | Rec ns args => match b with Rec ns' args' => list_N_eqb ns ns' && vo_list k args args' | _ => false end
    | Cast e => match b with Cast e' => vo k e e' | _ => false end
    | Let x rhs body =>
        (match b with Let x' rhs' body' => N.eqb x x' && vo k rhs rhs' && vo k body body' | _ => false end)
        || (droppable rhs && negb (memb x (fv b)) && vo k body b)                          (* R1 *)
    | LetRec cs body =>
        (match b with
         | LetRec cs' body' =>
             nodupb (clo_names cs) && vo_clos k cs cs' (fv_clos cs' ++ fv body') && vo k body body'   (* R2 *)
         | _ => false
         end)
        || (disjointb (clo_names cs) (fv b) && values_droppable cs && vo k body b)         (* R2, all dropped *)
    | Match s alts =>
        (match b with Match s' alts' => vo k s s' && vo_alts k alts alts' | _ => false end)
        || (match s, alts with
            | Rec ns args, ACons (PRec pfs) body ANil =>                                   (* R3 (+R1) *)
                nodupb ns && nodupb (map snd pfs) && nodupb (map fst pfs) && inclb (map fst pfs) ns
                && Nat.eqb (length ns) (length_list args)
                && vo_fields k ns args pfs body [] b
            | _, _ => false
            end)
        || (match alts with
            | ACons (PRec pfs) body ANil =>                                                (* R4 *)
                droppable s && disjointb (map snd pfs) (fv b) && vo k body b
            | _ => false
            end)
    end
  end
with vo_list (k : nat) (es es' : cexprs) {struct k} : bool :=
  match k with
  | O => false
  | S k =>
    match es, es' with
    | ENil, ENil => true
    | ECons e r, ECons e' r' => vo k e e' && vo_list k r r'
    | _, _ => false
    end
  end
with vo_alts (k : nat) (alts alts' : calts) {struct k} : bool :=
  match k with
  | O => false
  | S k =>
    match alts, alts' with
    | ANil, ANil => true
    | ACons p e r, ACons p' e' r' => pat_eqb p p' && vo k e e' && vo_alts k r r'
    | _, _ => false
    end
  end
(* cs' is a subsequence of cs; the names of the dropped members are not in kfv *)
with vo_clos (k : nat) (cs cs' : closures) (kfv : list ident) {struct k} : bool :=
  match k with
  | O => false
  | S k =>
    match cs with
    | CNil => match cs' with CNil => true | _ => false end
    | CCons f ps body r =>
        (match cs' with
         | CCons f' ps' body' r' => N.eqb f f' && list_N_eqb ps ps' && vo k body body' && vo_clos k r r' kfv
         | CNil => false
         end)
        || (negb (memb f kfv) && (negb (is_nil ps) || droppable body) && vo_clos k r cs' kfv)
    end
  end
(* the fields l_i = e_i still to be turned into bindings; kept: binders of the bindings kept so far *)
with vo_fields (k : nat) (ns : list fname) (args : cexprs) (pfs : list (fname * ident)) (body : cexpr)
               (kept : list ident) (b : cexpr) {struct k} : bool :=
  match k with
  | O => false
  | S k =>
    match ns, args with
    | [], ENil => vo k body b
    | fn :: ns', ECons e args' =>
        (match b with
         | Let p e' b' =>
             (match binder_of fn pfs with
              | Some x => N.eqb x p
              | None => negb (memb p (fv b')) && negb (memb p (map snd pfs))
              end)
             && negb (memb p kept)
             && disjointb kept (fv e')
             && vo k e e'
             && vo_fields k ns' args' pfs body (p :: kept) b'
         | _ => false
         end)
        || (droppable e
            && (match binder_of fn pfs with Some x => negb (memb x (fv b)) | None => true end)
            && vo_fields k ns' args' pfs body kept b)
    | _, _ => false
    end
  end.

Definition valid_opt (a b : cexpr) : bool := vo (2 * size a + 2) a b.
