(* C04 — pinned theorems.  This file contains statements, `exact`, and Print Assumptions only. *)
From Coq Require Import List ZArith NArith Bool.
From GV Require Import Lang.Core Lang.OptValid Lang.OptValidProofs Lang.OptValidExamples.
Import ListNotations.

(* What the optimiser may drop is pure: a droppable expression has an empty call log and is a value
   or fails with EArith (or EStuck, which type-correct programs do not reach); fuel is only needed
   where a recursive value has to be unfolded. *)
Theorem C04_droppable_pure : forall fop fcmp e n r o l,
  droppable e = true -> eval fop fcmp n r e = (o, l) ->
  l = [] /\ ((exists v, o = Val v) \/ o = Err EArith \/ o = Err EStuck \/ o = OOF).
Proof. exact droppable_pure. Qed.
Print Assumptions C04_droppable_pure.

(* Every pair the validator accepts (rewrites R1-R4 of OptValid.v and congruence) has related
   outcomes in related environments, for every fuel and every interpretation of float arithmetic. *)
Theorem C04_valid_opt_sound : forall fop fcmp a b, valid_opt a b = true ->
  forall n r1 r2, erel (fv b) r1 r2 -> rrel vrel (eval fop fcmp n r1 a) (eval fop fcmp n r2 b).
Proof. exact valid_opt_sound. Qed.
Print Assumptions C04_valid_opt_sound.

(* The same with the relation spelled out, in one environment: same value (equal when it is
   first-order data, else closures over accepted code), same error, same log of host calls;
   only where the unoptimised program stops with EArith (or EStuck) may the optimised one go on,
   and then its log extends the unoptimised one. *)
Theorem C04_valid_opt_sound_same_env : forall fop fcmp a b, valid_opt a b = true ->
  forall n r, (forall x v, lookup x r = Some v -> vrel v v) ->
  match eval fop fcmp n r a with
  | (Val v1, l) => exists v2, eval fop fcmp n r b = (Val v2, l) /\ vrel v1 v2 /\ (fo v1 = true -> v2 = v1)
  | (Err e, l) =>
      eval fop fcmp n r b = (Err e, l)
      \/ ((e = EArith \/ e = EStuck) /\ exists o l2, eval fop fcmp n r b = (o, l ++ l2))
  | (OOF, _) => True
  end.
Proof. exact valid_opt_sound_same_env. Qed.
Print Assumptions C04_valid_opt_sound_same_env.

(* Non-vacuity.  `let _ = r.f 1 in k` => `k` is rejected ... *)
Theorem C04_rejects_discarded_projection_call : valid_opt discard_call (Ident 9%N) = false.
Proof. exact rejects_discarded_projection_call. Qed.
Print Assumptions C04_rejects_discarded_projection_call.

(* ... because the two programs differ when r.f is a side-effecting host function *)
Theorem C04_discarded_call_is_observable :
  eval_core fop0 fcmp0 2 env_eff discard_call = (Val (VInt 0), [1%Z])
  /\ eval_core fop0 fcmp0 2 env_eff (Ident 9%N) = (Val (VInt 0), []).
Proof. exact discarded_call_is_observable. Qed.
Print Assumptions C04_discarded_call_is_observable.

(* The permitted exception is real: an unused `1 #Int/ 0` may be dropped. *)
Theorem C04_accepts_unused_arithmetic :
  valid_opt unused_div (Const (LInt 5)) = true
  /\ eval_core fop0 fcmp0 0 [] unused_div = (Err EArith, [])
  /\ eval_core fop0 fcmp0 0 [] (Const (LInt 5)) = (Val (VInt 5), []).
Proof. exact accepts_unused_arithmetic. Qed.
Print Assumptions C04_accepts_unused_arithmetic.

(* The optimiser's own regression inputs (the real IR of /repo/tests/optimize/*.glu) are accepted. *)
Theorem C04_accepts_tests_optimize :
  valid_opt tests_optimize_cmp_off tests_optimize_cmp_on = true
  /\ valid_opt tests_optimize_inline_num_off tests_optimize_inline_num_on = true
  /\ valid_opt tests_optimize_inline_through_module_off tests_optimize_inline_through_module_on = true
  /\ valid_opt tests_optimize_inline_through_module2_off tests_optimize_inline_through_module2_on = true.
Proof.
  exact (conj accepts_tests_optimize_cmp (conj accepts_tests_optimize_inline_num
        (conj accepts_tests_optimize_inline_through_module accepts_tests_optimize_inline_through_module2))).
Qed.
Print Assumptions C04_accepts_tests_optimize.

(* R2, R3 (+R1) and R4 each accept something and reject the unsound variant. *)
Theorem C04_rewrites_nonvacuous :
  valid_opt
    (LetRec (CCons 20%N [21%N] (Ident 21%N) (CCons 22%N [23%N] (Call (Ident 22%N) (ECons (Ident 23%N) ENil)) CNil))
            (Call (Ident 20%N) (ECons (Const (LInt 1)) ENil)))
    (LetRec (CCons 20%N [21%N] (Ident 21%N) CNil) (Call (Ident 20%N) (ECons (Const (LInt 1)) ENil))) = true
  /\ (valid_opt
    (Match (Rec [30; 31]%N (ECons (Call (Ident 4%N) (ECons (Const (LInt 1)) ENil)) (ECons (Const (LInt 2)) ENil)))
           (ACons (PRec [(31%N, 33%N)]) (Ident 33%N) ANil))
    (Let 40%N (Call (Ident 4%N) (ECons (Const (LInt 1)) ENil)) (Let 33%N (Const (LInt 2)) (Ident 33%N))) = true
  /\ valid_opt
    (Match (Rec [30; 31]%N (ECons (Call (Ident 4%N) (ECons (Const (LInt 1)) ENil)) (ECons (Const (LInt 2)) ENil)))
           (ACons (PRec [(31%N, 33%N)]) (Ident 33%N) ANil))
    (Let 33%N (Const (LInt 2)) (Ident 33%N)) = false)
  /\ (valid_opt (Match (Ident 3%N) (ACons (PRec [(7%N, 8%N)]) (Const (LInt 1)) ANil)) (Const (LInt 1)) = true
  /\ valid_opt (Match (Call (Ident 4%N) (ECons (Const (LInt 1)) ENil)) (ACons (PRec [(7%N, 8%N)]) (Const (LInt 1)) ANil))
               (Const (LInt 1)) = false).
Proof. exact (conj accepts_dropped_group_member (conj accepts_unnecessary_allocation accepts_unused_record_match)). Qed.
Print Assumptions C04_rewrites_nonvacuous.

(* Recursive VALUE groups are evaluated by the model (members closing over each other), an unused
   pure group may be dropped, and a group one of whose value members calls something may not:
   the call happens when the group is made. *)
Theorem C04_recursive_values_nonvacuous :
  eval_core fop0 fcmp0 3 [] (rec_values (Const (LInt 1)) (Call (proj 60%N 62%N 66%N) (ECons (Const (LInt 0)) ENil)))
    = (Val (VInt 7), [])
  /\ valid_opt (rec_values (Const (LInt 1)) (Const (LInt 0))) (Const (LInt 0)) = true
  /\ (valid_opt (rec_values (Call (Ident 4%N) (ECons (Const (LInt 5)) ENil)) (Const (LInt 0))) (Const (LInt 0)) = false
      /\ eval_core fop0 fcmp0 2 env_eff4 (rec_values (Call (Ident 4%N) (ECons (Const (LInt 5)) ENil)) (Const (LInt 0)))
         = (Val (VInt 0), [5%Z])
      /\ eval_core fop0 fcmp0 2 env_eff4 (Const (LInt 0)) = (Val (VInt 0), [])).
Proof.
  exact (conj recursive_values_evaluate (conj accepts_dropped_pure_recursive_values rejects_dropped_effectful_recursive_value)).
Qed.
Print Assumptions C04_recursive_values_nonvacuous.
