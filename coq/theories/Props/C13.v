(* C13 — pinned theorems.  Statements, `exact`, and Print Assumptions only.
   The clone model (Heap/Clone.v) shares by [clone_shares] / [full_clone_generation] / decides a
   full clone by [can_share] (GENERATED from vm/src/gc.rs, value.rs, thread.rs:
   gen/GenerationGen.v) and treats kinds and fields by [gen_memo] / [gen_fmode_of] (GENERATED from
   `impl Cloner`: gen/ClonerGen.v). *)
From Coq Require Import List ZArith NArith.
From GVgen Require Import GenerationGen ClonerGen.
From GV Require Import Heap.Heap Heap.HeapProofs Heap.MarkSweep Heap.MarkSweepProofs
     Heap.Clone Heap.CloneProofs Heap.CloneIso Heap.CloneTerm Heap.OpsProofs Heap.Refuted.
Import ListNotations.

(* On one branch of the tree, "generation <= the receiver's" implies "lives in the receiver's
   heap or one of its ancestors". *)
Theorem C13_shortcut_sound : forall tr x a r,
  wf_tree tr -> ancP tr x a -> same_branch tr a r ->
  clone_shares (gen_of tr r) (gen_of tr x) = true -> ancP tr x r.
Proof. exact shortcut_sound. Qed.
Print Assumptions C13_shortcut_sound.

(* Across branches it does not: two children of one thread. *)
Theorem C13_shortcut_unsound_across_branches :
  exists tr x r,
    wf_tree tr /\ root_of tr x = root_of tr r /\
    clone_shares (gen_of tr r) (gen_of tr x) = true /\
    ~ ancP tr x r /\ ~ same_branch tr x r.
Proof. exact shortcut_unsound_across_branches. Qed.
Print Assumptions C13_shortcut_unsound_across_branches.

(* The generation test is sound wherever the implementation relies on it: *)
Theorem C13_full_clone_shares_nothing : forall tr st0 recv v,
  wf_tree tr -> inv_old_to_young tr st0 -> sharing_sound tr st0 recv true v.
Proof. exact full_clone_sharing_sound. Qed.
Print Assumptions C13_full_clone_shares_nothing.

Theorem C13_reroot_sharing_sound : forall tr st0 s t v,
  wf_tree tr -> inv_old_to_young tr st0 -> held_by tr st0 s v ->
  sharing_sound tr st0 t (negb (can_share tr t s)) v.
Proof. exact reroot_sharing_sound. Qed.
Print Assumptions C13_reroot_sharing_sound.

Theorem C13_cell_sharing_sound : forall tr st0 s x v,
  wf_tree tr -> inv_old_to_young tr st0 -> held_by tr st0 s v -> ancP tr x s ->
  sharing_sound tr st0 x false v.
Proof. exact cell_sharing_sound. Qed.
Print Assumptions C13_cell_sharing_sound.

(* Every object of the result lies in the receiver's heap or one of its ancestors. *)
Theorem C13_clone_owned_by_receiver : forall tr st0 recv cth full fuel v r c',
  inv_old_to_young tr st0 -> recv < length tr -> not_dangling st0 v ->
  sharing_sound tr st0 recv full v -> verbatim_ok tr st0 recv v ->
  deep_clone fuel tr st0 recv cth full v = Some (c', r) ->
  forall o, reach (fst c') (ptrs [r]) o ->
  exists ob, lookup (fst c') o = Some ob /\ ancP tr (o_owner ob) recv.
Proof. exact clone_owned_by_receiver_. Qed.
Print Assumptions C13_clone_owned_by_receiver.

(* The source graph is not touched. *)
Theorem C13_clone_leaves_source : forall tr st0 recv cth full fuel v r c',
  inv_old_to_young tr st0 -> recv < length tr -> not_dangling st0 v ->
  sharing_sound tr st0 recv full v -> verbatim_ok tr st0 recv v ->
  deep_clone fuel tr st0 recv cth full v = Some (c', r) ->
  forall o, o < length st0 -> nth_error (fst c') o = nth_error st0 o.
Proof. exact clone_frame_. Qed.
Print Assumptions C13_clone_leaves_source.

(* The invariant of C05 still holds after the clone. *)
Theorem C13_clone_preserves_inv : forall tr st0 recv cth full fuel v r c',
  inv_old_to_young tr st0 -> recv < length tr -> not_dangling st0 v ->
  sharing_sound tr st0 recv full v -> verbatim_ok tr st0 recv v ->
  deep_clone fuel tr st0 recv cth full v = Some (c', r) ->
  inv_old_to_young tr (fst c').
Proof. exact clone_preserves_inv_. Qed.
Print Assumptions C13_clone_preserves_inv.

(* Whatever is freed outside the receiver's ancestry — the sender dropped, the sender or any other
   branch collected — every object of the result is still there, unchanged. *)
Theorem C13_clone_survives_sender : forall tr st0 recv cth full fuel v r c',
  inv_old_to_young tr st0 -> recv < length tr -> not_dangling st0 v ->
  sharing_sound tr st0 recv full v -> verbatim_ok tr st0 recv v ->
  deep_clone fuel tr st0 recv cth full v = Some (c', r) ->
  forall st'' : store,
  (forall o ob, lookup (fst c') o = Some ob -> ancP tr (o_owner ob) recv -> lookup st'' o = Some ob) ->
  forall o, reach (fst c') (ptrs [r]) o ->
    reach st'' (ptrs [r]) o /\ exists ob, lookup st'' o = Some ob /\ lookup (fst c') o = Some ob.
Proof. exact clone_survives_sender_. Qed.
Print Assumptions C13_clone_survives_sender.

(* The copy is isomorphic to the source graph: "equal, or paired by the visited list" ([rel]) is a
   bisimulation — the result is the value's counterpart, every pair is a faithful copy (same kind,
   payload, size; fields related one by one: [copy_ok]); no copy stands for two sources; a source
   whose kind goes through `visited` has exactly one copy (sharing and cycles preserved). *)
Theorem C13_clone_iso : forall tr st0 recv cth full fuel v r c',
  inv_old_to_young tr st0 -> recv < length tr -> not_dangling st0 v ->
  sharing_sound tr st0 recv full v -> verbatim_ok tr st0 recv v ->
  deep_clone fuel tr st0 recv cth full v = Some (c', r) ->
  rel st0 (snd c') v r /\
  (forall a b, In (a, b) (snd c') -> copy_ok st0 (fst c') (snd c') a b) /\
  NoDup (map snd (snd c')) /\
  (forall a b b' oa, In (a, b) (snd c') -> In (a, b') (snd c') ->
     lookup st0 a = Some oa -> memo (o_kind oa) = true -> b = b').
Proof. exact clone_iso. Qed.
Print Assumptions C13_clone_iso.

(* The fuel (recursion depth) `deep_clone` is given suffices: more than the number of objects of the
   store is always enough, so the theorems above that are conditional on `= Some` apply.  Partial:
   for graphs without unclonable objects in which the objects that bypass `visited` ([memo] false:
   extern functions, Reference / Lazy) hold no pointers — a cycle through cells alone makes the
   implementation itself recurse without end. *)
Theorem C13_clone_terminates_partial : forall tr st0 recv cth full fuel v,
  inv_old_to_young tr st0 -> not_dangling st0 v ->
  sharing_sound tr st0 recv full v -> verbatim_ok tr st0 recv v ->
  (forall o ob, reach st0 (ptrs [v]) o -> lookup st0 o = Some ob -> clonable (o_kind ob) = true) ->
  (forall o ob, reach st0 (ptrs [v]) o -> lookup st0 o = Some ob -> memo (o_kind ob) = false ->
     forall f, In f (o_fields ob) -> exists z, f = Imm z) ->
  length st0 < fuel ->
  exists c' r, deep_clone fuel tr st0 recv cth full v = Some (c', r).
Proof. exact clone_terminates_partial. Qed.
Print Assumptions C13_clone_terminates_partial.

(* Known findings: where the premise [verbatim_ok] fails. *)
Theorem C13_clone_owned_by_receiver_refuted_closure_between_vms :
  exists tr st0 s t v c' r,
    wf_tree tr /\ inv_old_to_young tr st0 /\ held_by tr st0 s v /\
    sharing_sound tr st0 t (negb (can_share tr t s)) v /\
    transfer 10 tr st0 (RReroot s t) v = Some (c', r) /\
    exists o ob, reach (fst c') (ptrs [r]) o /\ lookup (fst c') o = Some ob /\
                 ~ ancP tr (o_owner ob) t.
Proof. exact clone_owned_by_receiver_refuted_closure_between_vms. Qed.
Print Assumptions C13_clone_owned_by_receiver_refuted_closure_between_vms.

Theorem C13_clone_owned_by_receiver_refuted_string_array :
  gen_array_elem_mode KArrString = Some FShare ->
  exists tr st0 s t v c' r,
    wf_tree tr /\ inv_old_to_young tr st0 /\ held_by tr st0 s v /\
    transfer 10 tr st0 (RReroot s t) v = Some (c', r) /\
    exists o ob, reach (fst c') (ptrs [r]) o /\ lookup (fst c') o = Some ob /\
                 ~ ancP tr (o_owner ob) t.
Proof. exact clone_owned_by_receiver_refuted_string_array. Qed.
Print Assumptions C13_clone_owned_by_receiver_refuted_string_array.

Theorem C13_clone_iso_refuted_cell_sharing :
  gen_memo KCell = false ->
  exists tr st0 s t v c' d x y ob,
    wf_tree tr /\ lookup st0 1 = Some (mkObj 2 2 KData 6 0 0 [Ptr 0; Ptr 0]) /\ v = Ptr 1 /\
    transfer 10 tr st0 (RReroot s t) v = Some (c', Ptr d) /\
    lookup (fst c') d = Some ob /\ o_fields ob = [Ptr x; Ptr y] /\ x <> y.
Proof. exact clone_iso_refuted_cell_sharing. Qed.
Print Assumptions C13_clone_iso_refuted_cell_sharing.
