(* C05 — pinned theorems.  Statements, `exact`, and Print Assumptions only.
   The model (Heap/MarkSweep.v) decides "skip" with [mark_skips], and heaps get their generation
   from [child_generation]: both GENERATED from vm/src/gc.rs (gen/GenerationGen.v). *)
From Coq Require Import List ZArith NArith.
From GVgen Require Import GenerationGen ClonerGen.
From GV Require Import Heap.Heap Heap.HeapProofs Heap.MarkSweep Heap.MarkSweepProofs
     Heap.Clone Heap.CloneProofs Heap.OpsProofs Heap.Refuted.
Import ListNotations.

(* The fuel `collect` gives `mark` suffices for every store and work list. *)
Theorem C05_mark_terminates : forall st cg work,
  exists M, mark (mark_fuel st work) st cg work [] = Some M.
Proof. exact mark_terminates. Qed.
Print Assumptions C05_mark_terminates.

(* Under the invariant every object reachable from the roots of the collecting thread and of the
   threads below it survives, with all its fields unchanged. *)
Theorem C05_collect_keeps_reachable : forall s s' t,
  inv s -> collect s t = Some s' ->
  forall o, reach (s_store s) (collect_roots (s_tree s) (s_roots s) t) o ->
  exists ob, lookup (s_store s) o = Some ob /\ lookup (s_store s') o = Some ob.
Proof. exact collect_keeps_reachable_. Qed.
Print Assumptions C05_collect_keeps_reachable.

(* No survivor — reachable or not, in any heap — points to a freed object. *)
Theorem C05_collect_no_dangling : forall s s' t,
  inv s -> collect s t = Some s' ->
  forall x xb p, lookup (s_store s') x = Some xb -> In p (ptrs (o_fields xb)) ->
  exists pb, lookup (s_store s') p = Some pb /\ lookup (s_store s) p = Some pb.
Proof. exact collect_no_dangling_. Qed.
Print Assumptions C05_collect_no_dangling.

(* Every object of a swept heap that is not reachable from the traced roots is freed ... *)
Theorem C05_collect_frees_unreachable : forall s s' t,
  collect s t = Some s' ->
  forall o ob, lookup (s_store s) o = Some ob -> In (o_owner ob) (desc (s_tree s) t) ->
  ~ reach (s_store s) (collect_roots (s_tree s) (s_roots s) t) o ->
  lookup (s_store s') o = None.
Proof. exact collect_frees_unreachable_. Qed.
Print Assumptions C05_collect_frees_unreachable.

(* ... and afterwards each heap's allocated_memory is exactly the sum of the sizes of its
   surviving objects (so dropping all roots returns to the baseline). *)
Theorem C05_collect_accounting : forall s t s',
  acct_ok s -> collect s t = Some s' -> acct_ok s'.
Proof. exact collect_accounting_. Qed.
Print Assumptions C05_collect_accounting.

(* inv_old_to_young is preserved by collection, allocation and the mutators of C13. *)
Theorem C05_inv_preserved_by_collect : forall s s' t,
  inv s -> collect s t = Some s' -> inv s'.
Proof. exact collect_preserves_inv_. Qed.
Print Assumptions C05_inv_preserved_by_collect.

Theorem C05_inv_preserved_by_alloc : forall s t k tag size fs,
  inv s -> t < length (s_tree s) ->
  (forall f, In f fs -> holds (s_tree s) (s_store s) t f) ->
  inv (fst (op_alloc s t k tag size fs)).
Proof. exact alloc_preserves_inv. Qed.
Print Assumptions C05_inv_preserved_by_alloc.

Theorem C05_inv_preserved_by_reroot : forall fuel s src dst v s',
  inv s -> dst < length (s_tree s) -> held_by (s_tree s) (s_store s) src v ->
  verbatim_ok (s_tree s) (s_store s) dst v ->
  op_reroot fuel s src dst v = Some s' -> inv s'.
Proof. exact reroot_preserves_inv. Qed.
Print Assumptions C05_inv_preserved_by_reroot.

Theorem C05_inv_preserved_by_cell_store : forall fuel s thr c cb v s',
  inv s -> lookup (s_store s) c = Some cb -> cell_wf (s_tree s) cb ->
  ancP (s_tree s) (o_owner cb) thr -> held_by (s_tree s) (s_store s) thr v ->
  verbatim_ok (s_tree s) (s_store s) (o_cell cb) v ->
  op_cell_set fuel s c v = Some s' -> inv s'.
Proof. exact cell_set_preserves_inv. Qed.
Print Assumptions C05_inv_preserved_by_cell_store.

Theorem C05_inv_preserved_by_cell_load : forall s c cb t s',
  inv s -> lookup (s_store s) c = Some cb -> ancP (s_tree s) (o_owner cb) t ->
  op_cell_get s c t = Some s' -> inv s'.
Proof. exact cell_get_preserves_inv. Qed.
Print Assumptions C05_inv_preserved_by_cell_load.

Theorem C05_inv_preserved_by_promotion : forall fuel s t v s',
  inv s -> t < length (s_tree s) -> held_by (s_tree s) (s_store s) t v ->
  verbatim_ok (s_tree s) (s_store s) (root_of (s_tree s) t) v ->
  op_promote fuel s t v = Some s' -> inv s'.
Proof. exact promote_preserves_inv. Qed.
Print Assumptions C05_inv_preserved_by_promotion.

Theorem C05_inv_preserved_by_spawn : forall s p action,
  inv s -> p < length (s_tree s) ->
  (forall h, length (s_tree s) <= h -> roots_of (s_roots s) h = []) ->
  (forall f, In f action -> holds (s_tree s) (s_store s) p f) ->
  inv (fst (op_spawn s p action)).
Proof. exact spawn_preserves_inv. Qed.
Print Assumptions C05_inv_preserved_by_spawn.

Theorem C05_inv_preserved_by_drop : forall s h, inv s -> inv (op_drop_roots s h).
Proof. exact drop_roots_preserves_inv. Qed.
Print Assumptions C05_inv_preserved_by_drop.

(* Known finding (module-level cells): the premise [cell_wf] of C05_inv_preserved_by_cell_store
   fails for a Reference / Lazy copied into the global heap by module promotion; storing a fresh
   value then breaks the invariant and the next collection frees a value a loaded module still
   reaches. *)
Theorem C05_collect_no_dangling_refuted_promoted_cell :
  traces_globals (gen_of module_tree 1) = false ->
  exists s3 s4 cell cb p,
    after_store = Some s3 /\ collect s3 1 = Some s4 /\
    In (Ptr cell) (roots_of (s_roots s4) 0) /\
    lookup (s_store s4) cell = Some cb /\ o_owner cb = 0 /\
    In (Ptr p) (o_fields cb) /\ lookup (s_store s3) p <> None /\ lookup (s_store s4) p = None /\
    ~ inv_old_to_young (s_tree s3) (s_store s3).
Proof. exact collect_no_dangling_refuted_promoted_cell. Qed.
Print Assumptions C05_collect_no_dangling_refuted_promoted_cell.
