(* C16 — pinned theorems.  This file contains statements, `exact`, and Print Assumptions only. *)
From Coq Require Import List ZArith NArith Permutation.
From GV Require Import Lang.Syntax Lang.Eval Lang.Rename Lang.RenameProofs.
Import ListNotations.

(* Evaluation commutes with every injective renaming of variable names: same error, same effect
   log, the value renamed inside closures only (all of MiniGluon, every fuel/environment/log). *)
Theorem C16_eval_rename_invariant : forall s, injective s -> forall n r e l,
  eval n (rename_env s r) (rename_expr s e) l = rename_outcome s (eval n r e l).
Proof. exact eval_rename_invariant. Qed.
Print Assumptions C16_eval_rename_invariant.

(* A first-order result (ints, strings, data, records, arrays of those) and the log are EQUAL. *)
Theorem C16_eval_rename_first_order : forall s, injective s -> forall n e v l,
  run n e = (Ok v, l) -> first_order v = true -> run n (rename_expr s e) = (Ok v, l).
Proof. exact eval_rename_first_order. Qed.
Print Assumptions C16_eval_rename_first_order.

(* What the ties render (functions opaque) is equal for every program, failing or not. *)
Theorem C16_observe_rename_invariant : forall s, injective s -> forall n e,
  observe (run n (rename_expr s e)) = observe (run n e).
Proof. exact observe_rename_invariant. Qed.
Print Assumptions C16_observe_rename_invariant.

(* The premise is needed: a renaming that merges two variables changes a result. *)
Theorem C16_eval_rename_noninjective_refuted :
  exists (s : name -> name) n e, run n (rename_expr s e) <> rename_outcome s (run n e).
Proof. exact eval_rename_noninjective_refuted. Qed.
Print Assumptions C16_eval_rename_noninjective_refuted.

(* Grouping equations through a hash table read out by the insertion-order vector (`group_order`,
   vm/src/core/mod.rs:1748/1885) computes the first-occurrence specification whatever the table's
   internal order is. *)
Theorem C16_group_order_perm_invariant :
  forall (K A : Type) (keqb : K -> K -> bool),
    (forall a b, keqb a b = true <-> a = b) ->
    forall (place : K -> list (K * list A) -> nat) (l : list (K * A)),
      impl_group keqb place l = group_by_key keqb l.
Proof. exact group_order_perm_invariant. Qed.
Print Assumptions C16_group_order_perm_invariant.

Theorem C16_group_by_key_deterministic :
  forall (K A : Type) (keqb : K -> K -> bool),
    (forall a b, keqb a b = true <-> a = b) ->
    forall (place1 place2 : K -> list (K * list A) -> nat) (l : list (K * A)),
      impl_group keqb place1 l = impl_group keqb place2 l.
Proof. exact group_by_key_deterministic. Qed.
Print Assumptions C16_group_by_key_deterministic.

Theorem C16_group_readout_perm_invariant :
  forall (K A : Type) (keqb : K -> K -> bool),
    (forall a b, keqb a b = true <-> a = b) ->
    forall (order : list K) (t t' : list (K * list A)),
      Permutation t t' -> NoDup (map fst t) -> readout keqb order t = readout keqb order t'.
Proof. exact group_readout_perm_invariant. Qed.
Print Assumptions C16_group_readout_perm_invariant.

(* Iterating the table itself is order dependent (why `group_order` must be kept). *)
Theorem C16_group_iteration_order_refuted :
  exists (place1 place2 : N -> list (N * list nat) -> nat) (l : list (N * nat)),
    impl_group_by_iteration N.eqb place1 l <> impl_group_by_iteration N.eqb place2 l.
Proof. exact group_iteration_order_refuted. Qed.
Print Assumptions C16_group_iteration_order_refuted.

(* The canonicaliser of type variables (first occurrence) forgets the names. *)
Theorem C16_canon_rename : forall f, (forall x y, f x = f y -> x = y) ->
  forall t, canon (rename_tyvars f t) = canon t.
Proof. exact canon_rename. Qed.
Print Assumptions C16_canon_rename.

Theorem C16_canon_rename_inj_on : forall f t,
  (forall x y, In x (tyvars t) -> In y (tyvars t) -> f x = f y -> x = y) ->
  canon (rename_tyvars f t) = canon t.
Proof. exact canon_rename_inj_on. Qed.
Print Assumptions C16_canon_rename_inj_on.

Theorem C16_canon_idempotent : forall t, canon (canon t) = canon t.
Proof. exact canon_idempotent. Qed.
Print Assumptions C16_canon_idempotent.

(* Known finding `nondeterministic-diagnostic:implicit-import-position`: the absolute code-map
   position printed in `implicit?<p>` depends on the texts compiled earlier in the VM … *)
Theorem C16_implicit_name_absolute_refuted :
  exists gap h1 h2 rel, implicit_name_absolute gap h1 rel <> implicit_name_absolute gap h2 rel.
Proof. exact implicit_name_absolute_refuted. Qed.
Print Assumptions C16_implicit_name_absolute_refuted.

Theorem C16_implicit_name_absolute_iff : forall gap h1 h2 rel,
  implicit_name_absolute gap h1 rel = implicit_name_absolute gap h2 rel <->
  fold_right plus 0 h1 + gap * length h1 = fold_right plus 0 h2 + gap * length h2.
Proof. exact implicit_name_absolute_iff. Qed.
Print Assumptions C16_implicit_name_absolute_iff.

(* … whereas the module-relative position (the proposed fix) does not. *)
Theorem C16_implicit_name_relative_invariant : forall gap h1 h2 rel,
  implicit_name_relative gap h1 rel = implicit_name_relative gap h2 rel.
Proof. exact implicit_name_relative_invariant. Qed.
Print Assumptions C16_implicit_name_relative_invariant.
