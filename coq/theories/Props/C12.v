(* C12 — pinned theorems.  This file contains statements, `exact`, and Print Assumptions only.
   Model: VM/Codec.v (byte-level codec of instructions and of the CompiledFunction skeleton, for both
   integer encodings of bincode: [c : cfg] = Fixed | Varint); the instruction table is generated from
   vm/src/types.rs (gen/InstrGen.v, gen/InstrCodecGen.v). *)
From Coq Require Import ZArith NArith List.
From GVgen Require Import InstrGen InstrCodecGen.
From GV Require Import VM.Codec VM.CodecProofs.
Import ListNotations.
Local Open Scope N_scope.

(* decode ∘ encode = id on instructions, whatever follows *)
Theorem C12_de_ser_instr : forall c i rest,
  wf_instrb i = true -> dec_instr c (enc_instr c i ++ rest) = Some (i, rest).
Proof. exact de_ser_instr. Qed.
Print Assumptions C12_de_ser_instr.

(* ... and on instruction sequences (`Vec<Instruction>`) *)
Theorem C12_de_ser_instrs : forall c ins rest,
  forallb wf_instrb ins = true -> len_ok ins = true ->
  dec_list c (dec_instr c) (enc_list c (enc_instr c) ins ++ rest) = Some (ins, rest).
Proof. exact de_ser_instrs. Qed.
Print Assumptions C12_de_ser_instrs.

(* decode ∘ encode = id on function skeletons (nested inner functions), with the input length as fuel *)
Theorem C12_de_ser_fn : forall c f rest,
  wf_fnb f = true -> decode_fn c (enc_fn c f ++ rest) = Some (f, rest).
Proof. exact de_ser_fn. Qed.
Print Assumptions C12_de_ser_fn.

(* ... and with any fuel that covers the nesting depth *)
Theorem C12_de_ser_fn_fuel : forall c f fuel rest,
  wf_fnb f = true -> (depth f <= fuel)%nat -> dec_fn c fuel (enc_fn c f ++ rest) = Some (f, rest).
Proof. exact de_ser_fn_fuel. Qed.
Print Assumptions C12_de_ser_fn_fuel.

(* truncation: every strict prefix of an encoding is a decoding error — never a wrong function *)
Theorem C12_de_prefix_fails : forall c f p q,
  wf_fnb f = true -> enc_fn c f = p ++ q -> q <> [] -> decode_fn c p = None.
Proof. exact de_prefix_fails. Qed.
Print Assumptions C12_de_prefix_fails.

Theorem C12_de_prefix_fails_fuel : forall c f fuel p q,
  wf_fnb f = true -> enc_fn c f = p ++ q -> q <> [] -> dec_fn c fuel p = None.
Proof. exact de_prefix_fails_fuel. Qed.
Print Assumptions C12_de_prefix_fails_fuel.

Theorem C12_instr_prefix_fails : forall c i p q,
  wf_instrb i = true -> enc_instr c i = p ++ q -> q <> [] -> dec_instr c p = None.
Proof. exact instr_prefix_fails. Qed.
Print Assumptions C12_instr_prefix_fails.

Theorem C12_instrs_prefix_fails : forall c ins p q,
  forallb wf_instrb ins = true -> len_ok ins = true ->
  enc_list c (enc_instr c) ins = p ++ q -> q <> [] -> dec_list c (dec_instr c) p = None.
Proof. exact instrs_prefix_fails. Qed.
Print Assumptions C12_instrs_prefix_fails.

(* encodings are prefix-free, hence injective: two different functions never share a serialised form *)
Theorem C12_enc_prefix_free : forall c f1 f2 r1 r2,
  wf_fnb f1 = true -> wf_fnb f2 = true -> enc_fn c f1 ++ r1 = enc_fn c f2 ++ r2 -> f1 = f2 /\ r1 = r2.
Proof. exact enc_prefix_free. Qed.
Print Assumptions C12_enc_prefix_free.

Theorem C12_enc_injective : forall c f1 f2,
  wf_fnb f1 = true -> wf_fnb f2 = true -> enc_fn c f1 = enc_fn c f2 -> f1 = f2.
Proof. exact enc_injective. Qed.
Print Assumptions C12_enc_injective.

Theorem C12_enc_instr_injective : forall c i1 i2,
  wf_instrb i1 = true -> wf_instrb i2 = true -> enc_instr c i1 = enc_instr c i2 -> i1 = i2.
Proof. exact enc_instr_injective. Qed.
Print Assumptions C12_enc_instr_injective.

(* a variant index the instruction set does not define is a decoding error *)
Theorem C12_unknown_variant_fails : forall c idx rest,
  idx < two32 -> (instr_variant_count <= N.to_nat idx)%nat -> dec_instr c (put_u32 c idx ++ rest) = None.
Proof. exact unknown_variant_fails. Qed.
Print Assumptions C12_unknown_variant_fails.

(* the generated table, the builders and the `Inductive instr` agree in size *)
Theorem C12_table_lengths :
  length instr_table = instr_variant_count /\ length instr_builders = instr_variant_count.
Proof. exact table_lengths. Qed.
Print Assumptions C12_table_lengths.

(* whatever running a function means, the loaded function runs like the one that was serialised *)
Theorem C12_load_behaves : forall (R : Type) (run : fn -> R) c f,
  wf_fnb f = true ->
  match decode_fn c (enc_fn c f) with Some (g, _) => Some (run g) | None => None end = Some (run f).
Proof. exact load_behaves. Qed.
Print Assumptions C12_load_behaves.

(* ---- known finding `load-crash:corrupt:instr-index:*`: the loader does not check the references an
   instruction makes (string / inner function / jump target); the decoder modelled after it accepts them. *)
Theorem C12_decode_checks_refs_refuted :
  exists c bs f r, decode_fn c bs = Some (f, r) /\ wf_fnb f = true /\ refs_ok f = false.
Proof. exact decode_checks_refs_refuted. Qed.
Print Assumptions C12_decode_checks_refs_refuted.

(* ... the decoder with the reference check (the complement): accepts exactly the well-referenced encodings *)
Theorem C12_checked_decode_sound : forall c bs f r,
  checked_decode c bs = Some (f, r) -> refs_ok f = true /\ decode_fn c bs = Some (f, r).
Proof. exact checked_decode_sound. Qed.
Print Assumptions C12_checked_decode_sound.

Theorem C12_checked_decode_complete : forall c f r,
  wf_fnb f = true -> refs_ok f = true -> checked_decode c (enc_fn c f ++ r) = Some (f, r).
Proof. exact checked_decode_complete. Qed.
Print Assumptions C12_checked_decode_complete.

Theorem C12_checked_decode_prefix_fails : forall c f p q,
  wf_fnb f = true -> enc_fn c f = p ++ q -> q <> [] -> checked_decode c p = None.
Proof. exact checked_decode_prefix_fails. Qed.
Print Assumptions C12_checked_decode_prefix_fails.

(* ---- load_behaves made concrete: the model VM (VM/Machine.v, C01) runs the decoded skeleton.
   [run_fn r globals fuel f] embeds the skeleton into the model VM's program table (pre-order ids; the
   record-name side table [r] and the module's globals are held fixed) and runs it. *)
From GV Require Import VM.Machine VM.LoadModel VM.LoadModelProofs.

Theorem C12_load_behaves_model_vm : forall c r globals fuel f rest,
  wf_fnb f = true ->
  load_and_run c r globals fuel (enc_fn c f ++ rest) = Some (run_fn r globals fuel f).
Proof. exact load_behaves_model_vm. Qed.
Print Assumptions C12_load_behaves_model_vm.

Theorem C12_load_behaves_model_vm_any_encoding : forall c1 c2 r globals fuel f,
  wf_fnb f = true ->
  load_and_run c1 r globals fuel (enc_fn c1 f) = load_and_run c2 r globals fuel (enc_fn c2 f).
Proof. exact load_behaves_model_vm_any_encoding. Qed.
Print Assumptions C12_load_behaves_model_vm_any_encoding.

Theorem C12_truncated_never_runs : forall c r globals fuel f p q,
  wf_fnb f = true -> enc_fn c f = p ++ q -> q <> [] -> load_and_run c r globals fuel p = None.
Proof. exact truncated_never_runs. Qed.
Print Assumptions C12_truncated_never_runs.
