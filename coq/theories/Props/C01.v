(* C01 — pinned theorems.  This file contains statements, `exact`, and Print Assumptions only. *)
From Coq Require Import List ZArith NArith Bool.
From GV Require Import Lang.Syntax Lang.Eval Lang.EvalProofs.
Import ListNotations.

(* The reference semantics assigns at most one outcome (and effect log) to a program: a result
   obtained with some fuel is the result for every larger fuel. *)
Theorem C01_eval_fuel_mono : forall n m r e l res l',
  eval n r e l = (res, l') -> res <> OutOfFuel -> n <= m -> eval m r e l = (res, l').
Proof. exact eval_fuel_mono. Qed.
Print Assumptions C01_eval_fuel_mono.

Theorem C01_eval_deterministic : forall n m r e l r1 l1 r2 l2,
  eval n r e l = (r1, l1) -> eval m r e l = (r2, l2) ->
  r1 <> OutOfFuel -> r2 <> OutOfFuel -> r1 = r2 /\ l1 = l2.
Proof. exact eval_deterministic. Qed.
Print Assumptions C01_eval_deterministic.

(* Effects are never retracted: the log after evaluation extends the log before it. *)
Theorem C01_eval_log_grows : forall n r e l res l',
  eval n r e l = (res, l') -> exists d, l' = d ++ l.
Proof. exact eval_log_grows. Qed.
Print Assumptions C01_eval_log_grows.

(* `match` takes the first alternative in source order whose pattern matches; none: Unmatched. *)
Theorem C01_match_first_alternative : forall n r s alts l v l1,
  eval n r s l = (Ok v, l1) ->
  (forall pre p e post b,
      alts = pre ++ (p, e) :: post -> pmatch p v = Some b ->
      Forall (fun a => pmatch (fst a) v = None) pre ->
      eval (S n) r (EMatch s alts) l = eval n (b ++ r) e l1)
  /\ (Forall (fun a => pmatch (fst a) v = None) alts ->
      eval (S n) r (EMatch s alts) l = (Fail Unmatched, l1)).
Proof. exact match_first_alternative. Qed.
Print Assumptions C01_match_first_alternative.

(* `&&` / `||`: when the left operand decides, the right one is not evaluated (no effect, no
   failure of the right operand can surface). *)
Theorem C01_short_circuit_and : forall n r a b l l1,
  eval n r a l = (Ok (vbool false), l1) ->
  eval (S n) r (EAnd a b) l = (Ok (vbool false), l1).
Proof. exact short_circuit_and. Qed.
Print Assumptions C01_short_circuit_and.

Theorem C01_short_circuit_or : forall n r a b l l1,
  eval n r a l = (Ok (vbool true), l1) ->
  eval (S n) r (EOr a b) l = (Ok (vbool true), l1).
Proof. exact short_circuit_or. Qed.
Print Assumptions C01_short_circuit_or.

(* { fs, .. base }: explicit fields left to right, then the base, each once. *)
Theorem C01_record_update_order : forall n r fs base l,
  eval (S n) r (ERcdU fs base) l =
  match eval_fields (eval n) r fs l with
  | (Ok vs, l1) =>
      match eval n r base l1 with
      | (Ok (VRcd bfs), l2) => (Ok (VRcd (rcd_update vs bfs)), l2)
      | (Ok _, l2) => (Stuck, l2)
      | (Fail e, l2) => (Fail e, l2)
      | (Stuck, l2) => (Stuck, l2)
      | (OutOfFuel, l2) => (OutOfFuel, l2)
      end
  | (Fail e, l1) => (Fail e, l1)
  | (Stuck, l1) => (Stuck, l1)
  | (OutOfFuel, l1) => (OutOfFuel, l1)
  end.
Proof. exact record_update_order. Qed.
Print Assumptions C01_record_update_order.

(* Checked arithmetic: a successful Int operation yields an i64 and has no effect; overflow and
   division by zero are the Arith failure. *)
Theorem C01_int_arith_in_range : forall op x y l v l',
  In op [IntAdd; IntSub; IntMul; IntDiv] ->
  prim_apply op (VInt x) (VInt y) l = (Ok v, l') ->
  exists z, v = VInt z /\ (i64_min <= z <= i64_max)%Z /\ l' = l.
Proof. exact int_arith_in_range. Qed.
Print Assumptions C01_int_arith_in_range.

Theorem C01_int_overflow_is_arith : forall op x y l,
  In op [IntAdd; IntSub; IntMul] ->
  let z := match op with IntAdd => (x + y)%Z | IntSub => (x - y)%Z | _ => (x * y)%Z end in
  (z < i64_min \/ i64_max < z)%Z ->
  prim_apply op (VInt x) (VInt y) l = (Fail Arith, l).
Proof. exact int_overflow_is_arith. Qed.
Print Assumptions C01_int_overflow_is_arith.

Theorem C01_int_div_by_zero : forall x l, prim_apply IntDiv (VInt x) (VInt 0) l = (Fail Arith, l).
Proof. exact int_div_by_zero. Qed.
Print Assumptions C01_int_div_by_zero.

(* Match compilation (port of the decision logic of vm/src/core/mod.rs PatternTranslator,
   constructor / literal / variable columns): the column-by-column translation with groups,
   per-constructor regrouping and default fall-through selects the first equation in source
   order all of whose patterns match, and "Unmatched" (None) exactly when none does. *)
From GV Require Import Lang.MatchCompile Lang.MatchCompileProofs.

Theorem C01_match_compile_correct_partial : forall rows vs,
  wf_rows rows vs = true ->
  translate (S (rows_size rows)) None vs rows = Some (first_row rows vs).
Proof. exact match_compile_correct_partial. Qed.
Print Assumptions C01_match_compile_correct_partial.

Theorem C01_match_compile_default : forall fuel rows vs default,
  rows_size rows < fuel -> wf_rows rows vs = true ->
  translate fuel default vs rows = Some (pick (first_row rows vs) default).
Proof. exact translate_correct. Qed.
Print Assumptions C01_match_compile_default.

(* the well-formedness premise cannot be dropped *)
Theorem C01_match_compile_correct_full_refuted :
  exists rows vs, translate (S (rows_size rows)) None vs rows <> Some (first_row rows vs).
Proof. exact match_compile_correct_full_refuted. Qed.
Print Assumptions C01_match_compile_correct_full_refuted.
