(* C01 — pinned theorems.  This file contains statements, `exact`, and Print Assumptions only. *)
From Coq Require Import List ZArith NArith Bool.
From GV Require Import Lang.Syntax Lang.Eval Lang.EvalProofs.
Import ListNotations.

(* The reference semantics assigns at most one outcome (and effect log) to a program: a result
   obtained with some fuel is the result for every larger fuel. *)
Theorem C01_eval_fuel_mono : forall n m r e l res l',
  eval n r e l = (res, l') -> res <> OutOfFuel -> n <= m -> eval m r e l = (res, l').
Proof. exact eval_fuel_mono. Qed.
Print Assumptions C01_eval_fuel_mono.

Theorem C01_eval_deterministic : forall n m r e l r1 l1 r2 l2,
  eval n r e l = (r1, l1) -> eval m r e l = (r2, l2) ->
  r1 <> OutOfFuel -> r2 <> OutOfFuel -> r1 = r2 /\ l1 = l2.
Proof. exact eval_deterministic. Qed.
Print Assumptions C01_eval_deterministic.

(* Effects are never retracted: the log after evaluation extends the log before it. *)
Theorem C01_eval_log_grows : forall n r e l res l',
  eval n r e l = (res, l') -> exists d, l' = d ++ l.
Proof. exact eval_log_grows. Qed.
Print Assumptions C01_eval_log_grows.

(* `match` takes the first alternative in source order whose pattern matches; none: Unmatched. *)
Theorem C01_match_first_alternative : forall n r s alts l v l1,
  eval n r s l = (Ok v, l1) ->
  (forall pre p e post b,
      alts = pre ++ (p, e) :: post -> pmatch p v = Some b ->
      Forall (fun a => pmatch (fst a) v = None) pre ->
      eval (S n) r (EMatch s alts) l = eval n (b ++ r) e l1)
  /\ (Forall (fun a => pmatch (fst a) v = None) alts ->
      eval (S n) r (EMatch s alts) l = (Fail Unmatched, l1)).
Proof. exact match_first_alternative. Qed.
Print Assumptions C01_match_first_alternative.

(* `&&` / `||`: when the left operand decides, the right one is not evaluated (no effect, no
   failure of the right operand can surface). *)
Theorem C01_short_circuit_and : forall n r a b l l1,
  eval n r a l = (Ok (vbool false), l1) ->
  eval (S n) r (EAnd a b) l = (Ok (vbool false), l1).
Proof. exact short_circuit_and. Qed.
Print Assumptions C01_short_circuit_and.

Theorem C01_short_circuit_or : forall n r a b l l1,
  eval n r a l = (Ok (vbool true), l1) ->
  eval (S n) r (EOr a b) l = (Ok (vbool true), l1).
Proof. exact short_circuit_or. Qed.
Print Assumptions C01_short_circuit_or.

(* { fs, .. base }: explicit fields left to right, then the base, each once. *)
Theorem C01_record_update_order : forall n r fs base l,
  eval (S n) r (ERcdU fs base) l =
  match eval_fields (eval n) r fs l with
  | (Ok vs, l1) =>
      match eval n r base l1 with
      | (Ok (VRcd bfs), l2) => (Ok (VRcd (rcd_update vs bfs)), l2)
      | (Ok _, l2) => (Stuck, l2)
      | (Fail e, l2) => (Fail e, l2)
      | (Stuck, l2) => (Stuck, l2)
      | (OutOfFuel, l2) => (OutOfFuel, l2)
      end
  | (Fail e, l1) => (Fail e, l1)
  | (Stuck, l1) => (Stuck, l1)
  | (OutOfFuel, l1) => (OutOfFuel, l1)
  end.
Proof. exact record_update_order. Qed.
Print Assumptions C01_record_update_order.

(* Checked arithmetic: a successful Int operation yields an i64 and has no effect; overflow and
   division by zero are the Arith failure. *)
Theorem C01_int_arith_in_range : forall op x y l v l',
  In op [IntAdd; IntSub; IntMul; IntDiv] ->
  prim_apply op (VInt x) (VInt y) l = (Ok v, l') ->
  exists z, v = VInt z /\ (i64_min <= z <= i64_max)%Z /\ l' = l.
Proof. exact int_arith_in_range. Qed.
Print Assumptions C01_int_arith_in_range.

Theorem C01_int_overflow_is_arith : forall op x y l,
  In op [IntAdd; IntSub; IntMul] ->
  let z := match op with IntAdd => (x + y)%Z | IntSub => (x - y)%Z | _ => (x * y)%Z end in
  (z < i64_min \/ i64_max < z)%Z ->
  prim_apply op (VInt x) (VInt y) l = (Fail Arith, l).
Proof. exact int_overflow_is_arith. Qed.
Print Assumptions C01_int_overflow_is_arith.

Theorem C01_int_div_by_zero : forall x l, prim_apply IntDiv (VInt x) (VInt 0) l = (Fail Arith, l).
Proof. exact int_div_by_zero. Qed.
Print Assumptions C01_int_div_by_zero.

(* Match compilation (port of the decision logic of vm/src/core/mod.rs PatternTranslator,
   constructor / literal / variable columns): the column-by-column translation with groups,
   per-constructor regrouping and default fall-through selects the first equation in source
   order all of whose patterns match, and "Unmatched" (None) exactly when none does. *)
From GV Require Import Lang.MatchCompile Lang.MatchCompileProofs.

Theorem C01_match_compile_correct_partial : forall rows vs,
  wf_rows rows vs = true ->
  translate (S (rows_size rows)) None vs rows = Some (first_row rows vs).
Proof. exact match_compile_correct_partial. Qed.
Print Assumptions C01_match_compile_correct_partial.

Theorem C01_match_compile_default : forall fuel rows vs default,
  rows_size rows < fuel -> wf_rows rows vs = true ->
  translate fuel default vs rows = Some (pick (first_row rows vs) default).
Proof. exact translate_correct. Qed.
Print Assumptions C01_match_compile_default.

(* the well-formedness premise cannot be dropped *)
Theorem C01_match_compile_correct_full_refuted :
  exists rows vs, translate (S (rows_size rows)) None vs rows <> Some (first_row rows vs).
Proof. exact match_compile_correct_full_refuted. Qed.
Print Assumptions C01_match_compile_correct_full_refuted.

(* Model VM on gluon's real bytecode (VM/Machine.v, semantics of vm/src/thread.rs). *)
From GVgen Require Import InstrGen.
From GV Require Import VM.Machine VM.MachineProofs.

(* A finished run of the model VM is independent of extra fuel. *)
Theorem C01_vm_fuel_mono : forall prog n m s r l,
  run prog n s = (r, l) -> r <> VOutOfFuel -> n <= m -> run prog m s = (r, l).
Proof. exact vm_fuel_mono. Qed.
Print Assumptions C01_vm_fuel_mono.

(* Return (no excess arguments), for any callee code that reaches it: the callee slot and the
   callee's whole frame are replaced by exactly one value, the result, directly above the
   caller's values; the caller's frame (offset, instruction index, upvariables) is restored
   untouched; store and log unchanged. *)
Theorem C01_vm_frame_discipline : forall prog base fnval locals result f caller rest store log fn,
  get_fn prog (fr_fn f) = Some fn ->
  nth_error (fn_code fn) (fr_pc f) = Some IReturn ->
  fr_excess f = false ->
  fr_off f = S (length base) ->
  step prog {| st_stack := base ++ fnval :: locals ++ [result]; st_frames := f :: caller :: rest;
               st_store := store; st_log := log; st_pending := None |}
  = Next {| st_stack := base ++ [result]; st_frames := caller :: rest;
            st_store := store; st_log := log; st_pending := None |}.
Proof. exact vm_return_frame_discipline. Qed.
Print Assumptions C01_vm_frame_discipline.

(* Return of a frame entered with excess arguments: the excess record is consumed and the
   result is about to be applied to exactly those arguments. *)
Theorem C01_vm_return_excess_reapplies : forall prog base tag names fields fnval locals result f caller rest store log fn,
  get_fn prog (fr_fn f) = Some fn ->
  nth_error (fn_code fn) (fr_pc f) = Some IReturn ->
  fr_excess f = true ->
  fr_off f = S (S (length base)) ->
  step prog {| st_stack := base ++ MData tag names fields :: fnval :: locals ++ [result];
               st_frames := f :: caller :: rest; st_store := store; st_log := log; st_pending := None |}
  = Next {| st_stack := base ++ [result] ++ fields; st_frames := caller :: rest;
            st_store := store; st_log := log; st_pending := Some (length fields) |}.
Proof. exact vm_return_excess_reapplies. Qed.
Print Assumptions C01_vm_return_excess_reapplies.

(* Call n on a closure of arity n opens a frame at the first argument, instruction 0. *)
Theorem C01_vm_call_exact_enters_frame : forall prog base g up args f rest store log fn callee n,
  get_fn prog (fr_fn f) = Some fn ->
  nth_error (fn_code fn) (fr_pc f) = Some (ICall n) ->
  N.to_nat n = length args ->
  get_fn prog g = Some callee -> fn_args callee = length args ->
  fr_off f <= length base ->
  step prog {| st_stack := base ++ MClo g up :: args; st_frames := f :: rest;
               st_store := store; st_log := log; st_pending := None |}
  = Next {| st_stack := base ++ MClo g up :: args;
            st_frames := {| fr_off := S (length base); fr_excess := false; fr_fn := g; fr_upv := up; fr_pc := 0 |}
                         :: {| fr_off := fr_off f; fr_excess := fr_excess f; fr_fn := fr_fn f; fr_upv := fr_upv f; fr_pc := S (fr_pc f) |}
                         :: rest;
            st_store := store; st_log := log; st_pending := None |}.
Proof. exact vm_call_exact_enters_frame. Qed.
Print Assumptions C01_vm_call_exact_enters_frame.

(* `TailCall n` instead of `Call n; Return`: the same final outcome (value or error, store, effect
   log) for EVERY callee — bytecode closure at exact arity, partial application, excess arguments,
   partial-application values, built-ins — and whatever the callee runs; proved as a simulation
   between the two stack shapes (VM/MachineTailCall.v).  The frame executing the call has no
   excess arguments of its own. *)
From GV Require Import VM.MachineTailCall.
Theorem C01_tailcall_preserves_result :
  forall prog base fnval locals callee args f f2 caller rest store log fn1 fn2 n fuel r l,
  get_fn prog (fr_fn f) = Some fn1 -> nth_error (fn_code fn1) (fr_pc f) = Some (ITailCall n) ->
  fr_off f = S (length base) -> fr_excess f = false ->
  get_fn prog (fr_fn f2) = Some fn2 -> nth_error (fn_code fn2) (fr_pc f2) = Some (ICall n) ->
  nth_error (fn_code fn2) (S (fr_pc f2)) = Some IReturn ->
  fr_off f2 = S (length base) -> fr_excess f2 = false ->
  N.to_nat n = length args ->
  let stack := base ++ fnval :: locals ++ callee :: args in
  run prog fuel (mk stack (f :: caller :: rest) store log None) = (r, l) -> r <> VOutOfFuel ->
  exists fuel', run prog fuel' (mk stack (f2 :: caller :: rest) store log None) = (r, l).
Proof. exact tailcall_preserves_result. Qed.
Print Assumptions C01_tailcall_preserves_result.
