(* C10 — pinned theorems.  This file contains statements, `exact`, and Print Assumptions only. *)
From Coq Require Import List NArith Bool.
From GV Require Import Front.CommentIter Front.CommentIterProofs Front.FmtCheck Front.FmtCheckProofs
  Front.Doc Front.DocProofs.
Import ListNotations.

(* ---- the validator run on every (source, formatted text) pair ---- *)

Theorem C10_fmt_check_sound : forall src out, fmt_check src out = true ->
  comments_of src = comments_of out /\ literals_of src = literals_of out.
Proof. exact fmt_check_sound. Qed.
Print Assumptions C10_fmt_check_sound.

Theorem C10_fmt_check_complete : forall src out,
  comments_of src = comments_of out -> literals_of src = literals_of out -> fmt_check src out = true.
Proof. exact fmt_check_complete. Qed.
Print Assumptions C10_fmt_check_complete.

(* ---- the formatter's comment scanner (base/src/source.rs CommentIter), forward ---- *)

(* a gap of blanks, newlines and comments is consumed completely; one item per newline/comment *)
Theorem C10_comment_iter_forward_gap : forall guard g, forallb wf_seg g = true ->
  forward guard (flatten g) = Done (gap_items g) [].
Proof. exact forward_gap. Qed.
Print Assumptions C10_comment_iter_forward_gap.

Theorem C10_comment_iter_yields_comments : forall guard g, forallb wf_seg g = true ->
  comments_in (items_of (forward guard (flatten g))) = gap_comments g.
Proof. exact forward_gap_comments. Qed.
Print Assumptions C10_comment_iter_yields_comments.

Theorem C10_comment_iter_partition : forall guard g1 g2,
  forallb wf_seg g1 = true -> forallb wf_seg g2 = true ->
  comments_in (items_of (forward guard (flatten g1 ++ flatten g2))) =
  comments_in (items_of (forward guard (flatten g1))) ++ comments_in (items_of (forward guard (flatten g2))).
Proof. exact forward_partition. Qed.
Print Assumptions C10_comment_iter_partition.

(* the validator's scanner sees the same comments in a gap as the formatter's scanner *)
Theorem C10_lexer_agrees_with_comment_iter : forall guard g,
  forallb wf_seg g = true -> forallb not_doc_seg g = true ->
  comments_of_items (lex Code (flatten g)) =
  map norm_comment (comments_in (items_of (forward guard (flatten g)))).
Proof. exact lexer_agrees_with_comment_iter. Qed.
Print Assumptions C10_lexer_agrees_with_comment_iter.

(* ---- panics ---- *)

(* with the end-of-file guard (fixes/C10-commentiter-eof.patch) forward scanning never panics *)
Theorem C10_comment_iter_no_panic : forall src, panicked (forward true src) = false.
Proof. exact forward_guard_no_panic. Qed.
Print Assumptions C10_comment_iter_no_panic.

(* the code as it is does: `// c` without a final newline *)
Theorem C10_comment_iter_no_panic_refuted : ~ (forall src, panicked (forward false src) = false).
Proof. exact comment_iter_no_panic_refuted. Qed.
Print Assumptions C10_comment_iter_no_panic_refuted.

(* exactly when the trimmed input is a line comment without a newline *)
Theorem C10_comment_iter_panic_iff : forall src,
  next false src = Panic <->
  (src <> [] /\ let s := trim_end (trim_start src) in is_line_comment s = true /\ has_nl s = false).
Proof. exact next_panic_iff. Qed.
Print Assumptions C10_comment_iter_panic_iff.

(* inputs that end in a newline are safe with and without the guard *)
Theorem C10_comment_iter_no_panic_partial : forall g src, ends_nl src -> panicked (forward g src) = false.
Proof. exact forward_ends_nl_no_panic. Qed.
Print Assumptions C10_comment_iter_no_panic_partial.

(* every item consumes input: the iteration terminates *)
Theorem C10_comment_iter_progress : forall g src i r, next g src = Yield i r -> length r < length src.
Proof. exact next_yield_shorter. Qed.
Print Assumptions C10_comment_iter_progress.

Theorem C10_comment_iter_back_progress : forall src i r, next_back src = Yield i r -> length r < length src.
Proof. exact next_back_yield_shorter. Qed.
Print Assumptions C10_comment_iter_back_progress.

(* ---- backward iteration ---- *)

Theorem C10_comment_iter_fwd_back_refuted :
  ~ (forall g src, panicked (forward g src) = false -> panicked (backward src) = false ->
     items_of (backward src) = rev (items_of (forward g src))).
Proof. exact comment_iter_fwd_back_refuted. Qed.
Print Assumptions C10_comment_iter_fwd_back_refuted.

(* not only blank-line items differ: a comment is lost ("  // a\n  // b\n") *)
Theorem C10_comment_iter_back_loses_comment : forall g,
  panicked (forward g two_line_comments) = false /\ panicked (backward two_line_comments) = false /\
  comments_in (items_of (forward g two_line_comments)) = [[47; 47; 32; 97]; [47; 47; 32; 98]]%N /\
  comments_in (items_of (backward two_line_comments)) = [[47; 47; 32; 98]]%N.
Proof. exact backward_loses_comment. Qed.
Print Assumptions C10_comment_iter_back_loses_comment.

Theorem C10_comment_iter_back_panics : exists src, backward src = Panicked [].
Proof. exact backward_panics. Qed.
Print Assumptions C10_comment_iter_back_panics.

(* on gaps of blanks and block comments backward iteration is the reverse of forward iteration *)
Theorem C10_comment_iter_fwd_back_partial : forall guard g,
  forallb wf_seg g = true -> forallb inline_seg g = true ->
  items_of (backward (flatten g)) = rev (items_of (forward guard (flatten g))).
Proof. exact fwd_back_inline. Qed.
Print Assumptions C10_comment_iter_fwd_back_partial.

(* ---- breaking lines never changes the token sequence ---- *)

Theorem C10_render_tokens_width_independent : forall w1 w2 d, no_flat_alt d = true ->
  words (render w1 d) = words (render w2 d).
Proof. exact render_tokens_width_independent. Qed.
Print Assumptions C10_render_tokens_width_independent.

Theorem C10_render_tokens_flat_alt_refuted : exists w1 w2 d, words (render w1 d) <> words (render w2 d).
Proof. exact render_tokens_width_dependent_with_flat_alt. Qed.
Print Assumptions C10_render_tokens_flat_alt_refuted.

(* a string literal is one literal, whatever comment-like text it contains *)
Theorem C10_string_literal_opaque : forall body rest, str_ok false body = true ->
  lex Code (34%N :: body ++ 34%N :: rest) = ILit (34%N :: body ++ [34%N]) :: lex Code rest.
Proof. exact string_literal_opaque. Qed.
Print Assumptions C10_string_literal_opaque.
