(* C18 — pinned theorems.  This file contains statements, `exact`, and Print Assumptions only. *)
From Coq Require Import List Bool.
From GVgen Require Import PrecGen.
From GV Require Import Front.TypeSyntax Front.TypeSyntaxProofs.
Import ListNotations.

(* Every variant-free type in the printer's normal form is read back from its rendering. *)
Theorem C18_parse_print : forall t, nf t ->
  parse_type (fuel_for t) (print PTop t) = Some (t, []).
Proof. exact parse_print. Qed.
Print Assumptions C18_parse_print.

(* General form: at each of the three precedences of `enum Prec`, inside any context whose next
   token cannot extend the type. *)
Theorem C18_parse_print_general : forall t, nf t ->
  (forall fuel rest, fuel_for t <= fuel -> starts_atomic rest = false -> is_arrow rest = false ->
     parse_type fuel (print PTop t ++ rest) = Some (t, rest))
  /\ (forall fuel rest, fuel_for t <= fuel -> starts_atomic rest = false ->
     parse_app fuel (print PFunction t ++ rest) = Some (t, rest))
  /\ (forall fuel rest, fuel_for t <= fuel ->
     parse_atomic fuel (print PConstructor t ++ rest) = Some (t, rest)).
Proof. exact parse_print_general. Qed.
Print Assumptions C18_parse_print_general.

(* A variant that is the body of a type declaration is read back by the TypeTop rule. *)
Theorem C18_parse_top_print : forall t, vnf t ->
  parse_top (fuel_for t) (print PTop t) = Some (t, []).
Proof. exact parse_top_print. Qed.
Print Assumptions C18_parse_top_print.

(* ... and so is any other body of a type declaration. *)
Theorem C18_parse_top_print_nf : forall t, nf t ->
  parse_top (fuel_for t) (print PTop t) = Some (t, []).
Proof. exact parse_top_print_nf. Qed.
Print Assumptions C18_parse_top_print_nf.

(* The unrestricted statement is false: a variant below the root of a type (here `{ x : | A }`)
   is printed but no amount of fuel reads it back -- the grammar has no production for it. *)
Theorem C18_parse_print_refuted : exists t,
  (forall fuel, parse_type fuel (print PTop t) = None) /\
  (forall fuel, parse_top fuel (print PTop t) = None).
Proof. exact parse_print_refuted. Qed.
Print Assumptions C18_parse_print_refuted.

(* Non-vacuity: the parentheses are needed.  `( a -> b ) -> c` without them reads as a
   different type. *)
Theorem C18_print_needs_parens : forall a b c, nf a -> nf b -> is_atom b = true -> nf c ->
  let t := TFun false (TFun false a b) c in
  let inner := print PTop (TFun false a b) in
  print PTop t = TkLP :: inner ++ TkRP :: TkArrow :: print PTop c
  /\ parse_type (fuel_for t) (inner ++ TkArrow :: print PTop c) = Some (TFun false a (TFun false b c), [])
  /\ TFun false a (TFun false b c) <> t.
Proof. exact print_needs_parens. Qed.
Print Assumptions C18_print_needs_parens.

(* `f ( g x )` without the parentheses reads as `f` applied to two arguments. *)
Theorem C18_print_needs_parens_app : forall f g x : name,
  let t := TApp (TId f) (TCons (TApp (TId g) (TCons (TId x) TNil)) TNil) in
  print PTop t = [TkId f; TkLP; TkId g; TkId x; TkRP]
  /\ parse_type (fuel_for t) [TkId f; TkId g; TkId x]
     = Some (TApp (TId f) (TCons (TId g) (TCons (TId x) TNil)), [])
  /\ TApp (TId f) (TCons (TId g) (TCons (TId x) TNil)) <> t.
Proof. exact print_needs_parens_app. Qed.
Print Assumptions C18_print_needs_parens_app.
