(* C17 — pinned theorems.  This file contains statements, `exact`, and Print Assumptions only.
   Model: Conc/Cells.v.  [trace m ops] / [final m ops] are the event history and the final state
   of running an ARBITRARY list of operations [ops] from the initial state.  [m] selects what a
   failed thunk evaluation leaves in the cell: [Faithful] = vm/src/lazy.rs as it is (the cell
   stays `Blackhole owner`), [Fixed] = the failure is stored (fixes/C17-lazy-store-failure.patch,
   applied to /repo as 2a7d11a).

   Operation set: the main thread and every coroutine body run basic operations
   {send, recv, load, store, force, yield} and — "coroutines operating on coroutines" —
   {resume t, spawn body} with arbitrarily nested bodies: a coroutine may resume any coroutine it
   has a handle of (sibling, own child, ...) and spawn coroutines of its own.  ALL theorems
   below are proved for this full operation set (they quantify over arbitrary [ops], whose
   bodies nest arbitrarily).  Not proved: that the recursion bound [fuel_for] of the model's
   resume chain is never hit ([EFuel]; the driver would print FUEL — never observed in the
   correspondence runs). *)
From Coq Require Import List Arith.
From GV Require Import Conc.Cells Conc.CellsProofs.
Import ListNotations.

(* ---- channels ---- *)
(* The history of every run is a legal history of FIFO queues ([accept_q] replays send/recv
   events against queue contents: recv must return the oldest queued value, and reports empty
   only on an empty queue). *)
Theorem C17_channel_refines_queue : forall m ops,
  accept_q (chans init) (trace m ops) = Some (chans (final m ops)).
Proof. exact channel_refines_queue. Qed.
Print Assumptions C17_channel_refines_queue.

(* Values received on a channel are exactly a prefix of the values sent on it, in order, each
   once; the rest is still queued. *)
Theorem C17_channel_fifo_exactly_once : forall m ops c q,
  nth_error (chans (final m ops)) c = Some q ->
  sent c (trace m ops) = recvd c (trace m ops) ++ q.
Proof. exact channel_fifo_exactly_once. Qed.
Print Assumptions C17_channel_fifo_exactly_once.

(* recv reports emptiness exactly when everything sent so far was received; otherwise it
   delivers the oldest value not yet received (it never blocks: every recv is one event). *)
Theorem C17_channel_recv_empty_iff_drained : forall m ops tr1 tid c r tr2,
  trace m ops = tr1 ++ ERecv tid c r :: tr2 -> c < 2 ->
  match r with
  | None => recvd c tr1 = sent c tr1
  | Some v => nth_error (sent c tr1) (length (recvd c tr1)) = Some v
  end.
Proof. exact channel_recv_empty_iff_drained. Qed.
Print Assumptions C17_channel_recv_empty_iff_drained.

(* ---- references ---- *)
Theorem C17_ref_refines_cell : forall m ops,
  accept_r [] (trace m ops) = Some (refs (final m ops)).
Proof. exact ref_refines_cell. Qed.
Print Assumptions C17_ref_refines_cell.

(* A load — by any thread, also the hidden one inside a thunk — yields the most recently
   stored value, or the initial value. *)
Theorem C17_ref_last_store : forall m ops tr1 vis tid r v tr2,
  trace m ops = tr1 ++ ELoad vis tid r v :: tr2 -> last_write r tr1 None = Some v.
Proof. exact ref_last_store. Qed.
Print Assumptions C17_ref_last_store.

(* ---- lazy values ---- *)
(* The body (and with it its side effect) starts at most once. *)
Theorem C17_lazy_once : forall m ops k, runs k (trace m ops) <= 1.
Proof. exact lazy_once. Qed.
Print Assumptions C17_lazy_once.

(* All successful forces of one lazy value return the same value ... *)
Theorem C17_lazy_stable : forall m ops vis1 t1 vis2 t2 k a b,
  In (EForce vis1 t1 k (FOk a)) (trace m ops) ->
  In (EForce vis2 t2 k (FOk b)) (trace m ops) -> a = b.
Proof. exact lazy_stable. Qed.
Print Assumptions C17_lazy_stable.

(* ... the one its body computes. *)
Theorem C17_lazy_value_is_body_result : forall m ops k bump v vis t a,
  In (ELazy k (mkBody bump (RVal v))) (trace m ops) ->
  In (EForce vis t k (FOk a)) (trace m ops) -> a = v.
Proof. exact lazy_value_is_body_result. Qed.
Print Assumptions C17_lazy_value_is_body_result.

(* The fuel of the model's [force] is never exhausted (the model is total for real). *)
Theorem C17_force_never_out_of_fuel : forall m ops vis t k,
  ~ In (EForce vis t k FFuel) (trace m ops).
Proof. exact force_never_out_of_fuel. Qed.
Print Assumptions C17_force_never_out_of_fuel.

(* A failing or self-dependent thunk never yields a value (both modes). *)
Theorem C17_lazy_failing_body_never_value : forall m ops k b vis t v,
  In (ELazy k b) (trace m ops) -> lb_res b = RFail \/ lb_res b = RForce k ->
  ~ In (EForce vis t k (FOk v)) (trace m ops).
Proof. exact lazy_failing_body_never_value. Qed.
Print Assumptions C17_lazy_failing_body_never_value.

(* Mode Fixed: nothing ever hangs ... *)
Theorem C17_fixed_never_hangs : forall ops,
  hung (final Fixed ops) = false /\
  (forall t, lookup t (threads (final Fixed ops)) <> Some TBlocked) /\
  (forall vis t k, ~ In (EForce vis t k FHang) (trace Fixed ops)).
Proof. exact fixed_never_hangs. Qed.
Print Assumptions C17_fixed_never_hangs.

(* ... a self-dependent thunk makes every force, from any thread, an error ... *)
Theorem C17_lazy_self_loop_errors : forall ops k bump vis t r,
  In (ELazy k (mkBody bump (RForce k))) (trace Fixed ops) ->
  In (EForce vis t k r) (trace Fixed ops) -> r = FErr.
Proof. exact lazy_self_loop_errors. Qed.
Print Assumptions C17_lazy_self_loop_errors.

(* ... so does a failing thunk ... *)
Theorem C17_lazy_failing_body_errors_everywhere : forall ops k b vis t r,
  In (ELazy k b) (trace Fixed ops) -> lb_res b = RFail \/ lb_res b = RForce k ->
  In (EForce vis t k r) (trace Fixed ops) -> r = FErr.
Proof. exact lazy_failing_body_errors_everywhere. Qed.
Print Assumptions C17_lazy_failing_body_errors_everywhere.

(* ... and in general: once one force of k reported an error, every force of k from any thread
   reports an error. *)
Theorem C17_lazy_failure_errors_everywhere : forall ops k vis1 t1 vis2 t2 r,
  In (EForce vis1 t1 k FErr) (trace Fixed ops) ->
  In (EForce vis2 t2 k r) (trace Fixed ops) -> r = FErr.
Proof. exact lazy_failure_errors_everywhere. Qed.
Print Assumptions C17_lazy_failure_errors_everywhere.

(* Mode Faithful (lazy.rs on the unchanged tree): the statement above is FALSE.  A coroutine
   that forces a lazy value whose thunk failed on the main thread never returns ... *)
Theorem C17_lazy_failure_other_thread_refuted :
  exists ops k t,
    In (ELazy k failing) (trace Faithful ops) /\
    In (EForce true 0 k FErr) (trace Faithful ops) /\
    In (EForce true t k FHang) (trace Faithful ops) /\
    lookup 0 (threads (final Faithful ops)) = Some TBlocked.
Proof. exact lazy_failure_other_thread_refuted. Qed.
Print Assumptions C17_lazy_failure_other_thread_refuted.

(* ... and the main thread — the whole program — hangs when a coroutine evaluated the failing
   thunk (the Fixed model does not hang on the same operations). *)
Theorem C17_lazy_failure_main_thread_hang_refuted :
  exists ops, hung (final Faithful ops) = true /\
              In (EForce true 0 0 FHang) (trace Faithful ops) /\
              hung (final Fixed ops) = false.
Proof. exact lazy_failure_main_thread_hang_refuted. Qed.
Print Assumptions C17_lazy_failure_main_thread_hang_refuted.

(* What does hold of the faithful model: the failed cell is `Blackhole(evaluating thread)` for
   ever; after any history a force from that thread is an error, from any other thread a hang. *)
Theorem C17_faithful_failure_leaves_blackhole : forall ops vis t k,
  In (EForce vis t k FErr) (trace Faithful ops) ->
  nth_error (lazies (final Faithful ops)) k = Some (LBlackhole t).
Proof. exact faithful_failure_leaves_blackhole. Qed.
Print Assumptions C17_faithful_failure_leaves_blackhole.

Theorem C17_lazy_failure_same_thread_errors : forall ops vis t k fuel tid vis',
  In (EForce vis t k FErr) (trace Faithful ops) ->
  let st := final Faithful ops in
  force Faithful (S fuel) tid vis' k (refs st) (lazies st) =
    (refs st, lazies st, [EForce vis' tid k (if Nat.eqb t tid then FErr else FHang)],
     if Nat.eqb t tid then FErr else FHang).
Proof. exact lazy_failure_same_thread_errors. Qed.
Print Assumptions C17_lazy_failure_same_thread_errors.

(* ---- coroutines ---- *)
(* resume of a finished thread reports dead and changes nothing ... *)
Theorem C17_resume_dead_reports : forall m ops t,
  lookup t (threads (final m ops)) = Some TDone -> hung (final m ops) = false ->
  step m (final m ops) (OB (BResume t)) = (final m ops, [EResume 0 t RDead]).
Proof. exact resume_dead_reports. Qed.
Print Assumptions C17_resume_dead_reports.

(* ... for ever, whoever resumes it (main thread or any coroutine, [r0]) ... *)
Theorem C17_resume_dead_forever : forall m ops ops' t,
  lookup t (threads (final m ops)) = Some TDone ->
  lookup t (threads (final m (ops ++ ops'))) = Some TDone /\
  exists ext, trace m (ops ++ ops') = trace m ops ++ ext /\
              forall r0 x, In (EResume r0 t x) ext -> x = RDead.
Proof. exact resume_dead_forever. Qed.
Print Assumptions C17_resume_dead_forever.

(* ... and only then. *)
Theorem C17_resume_dead_only_when_done : forall m ops r0 t,
  In (EResume r0 t RDead) (trace m ops) -> lookup t (threads (final m ops)) = Some TDone.
Proof. exact resume_dead_only_when_done. Qed.
Print Assumptions C17_resume_dead_only_when_done.

(* What the resumed coroutine does is independent of who resumes it: same state, same status,
   same events except the log entry naming the resumer. *)
Theorem C17_resume_independent_of_resumer : forall m fuel tid tid' y st,
  fst (fst (exec m fuel tid (BResume y) st)) = fst (fst (exec m fuel tid' (BResume y) st)) /\
  snd (exec m fuel tid (BResume y) st) = snd (exec m fuel tid' (BResume y) st) /\
  removelast (snd (fst (exec m fuel tid (BResume y) st))) =
  removelast (snd (fst (exec m fuel tid' (BResume y) st))).
Proof. exact resume_independent_of_resumer. Qed.
Print Assumptions C17_resume_independent_of_resumer.
