(* C14 — pinned theorems.  This file contains statements, `exact`, and Print Assumptions only. *)
From Coq Require Import List Arith.
From GV Require Import Conc.Locks Conc.LocksProofs Conc.Once Conc.OnceProofs.
Import ListNotations.

(* Lock ordering: if every thread only acquires a class above all classes it holds (and ends
   holding nothing), no state reachable under ANY schedule, for ANY number of threads, is a
   deadlock (somebody unfinished and every unfinished thread blocked). *)
Theorem C14_ordered_no_deadlock : forall (progs : list (list instr)) (sched : list nat),
  Forall (fun p => well_ordered [] p = true) progs ->
  deadlocked (Locks.run (Locks.init progs) sched) = false.
Proof. exact ordered_no_deadlock. Qed.
Print Assumptions C14_ordered_no_deadlock.

(* ... and from every reachable state some continuation finishes every thread. *)
Theorem C14_ordered_can_finish : forall (progs : list (list instr)) (sched : list nat),
  Forall (fun p => well_ordered [] p = true) progs ->
  exists sched', all_finished (Locks.run (Locks.run (Locks.init progs) sched) sched') = true.
Proof. exact ordered_can_finish. Qed.
Print Assumptions C14_ordered_can_finish.

(* The premise is needed: two threads taking two classes in opposite orders reach a deadlock. *)
Theorem C14_unordered_can_deadlock :
  exists progs sched, deadlocked (Locks.run (Locks.init progs) sched) = true.
Proof. exact unordered_can_deadlock. Qed.
Print Assumptions C14_unordered_can_deadlock.

(* Known finding (keys deadlock:..channels..root-collect and ..root-run): the order in which gluon takes `Thread.context`
   mutexes (collector: parent then child; can_share_values_with: own then the other thread's) is
   NOT a single order, and the two programs deadlock. *)
Theorem C14_context_lock_order_refuted :
  well_ordered [] gluon_collector = true /\
  well_ordered [] gluon_value_push = false /\
  exists sched, deadlocked (Locks.run (Locks.init [gluon_collector; gluon_value_push]) sched) = true.
Proof. exact context_lock_order_refuted. Qed.
Print Assumptions C14_context_lock_order_refuted.

(* Memoised module evaluation: under every schedule and for any number of requesters each body
   is evaluated at most once, all requesters see the same value, and that value is the one the
   unique evaluator computed — even if the body's result depended on who evaluates it. *)
Theorem C14_once_under_any_schedule :
  forall (body : nat -> nat -> nat) (cost : nat -> nat) (todos : nat -> list nat) (sched : list nat),
    let s := Once.run body cost (Once.init todos) sched in
    (forall m, eval_count s m <= 1) /\
    (forall r1 r2 m v1 v2,
        In (m, v1) (got (reqs s r1)) -> In (m, v2) (got (reqs s r2)) -> v1 = v2) /\
    (forall r m v, In (m, v) (got (reqs s r)) ->
        exists o, filter (fun e => Nat.eqb (fst e) m) (evals s) = [(m, o)] /\ v = body m o).
Proof. exact once_under_any_schedule. Qed.
Print Assumptions C14_once_under_any_schedule.

(* Equal to running alone: with pure bodies what a completed requester obtained does not depend
   on the schedule at all (in particular it is what the solo schedule gives). *)
Theorem C14_result_schedule_independent :
  forall (body : nat -> nat -> nat) (cost : nat -> nat) (todos : nat -> list nat) (sched : list nat) (r : nat),
    (forall m r1 r2, body m r1 = body m r2) ->
    let s := Once.run body cost (Once.init todos) sched in
    complete (reqs s r) = true ->
    got (reqs s r) = rev (map (fun m => (m, body m 0)) (todos r)).
Proof. exact result_schedule_independent. Qed.
Print Assumptions C14_result_schedule_independent.

(* Progress: after any prefix schedule, [total_work] fair rounds over the n requesters (so the
   owner of every in-progress memo keeps being scheduled) complete everybody. *)
Theorem C14_once_progress :
  forall (body : nat -> nat -> nat) (cost : nat -> nat) (todos : nat -> list nat) (n : nat) (sched : list nat),
    (forall r, n <= r -> todos r = []) ->
    let s := Once.run body cost (Once.init todos) sched in
    all_complete (Once.run body cost s (rounds n (total_work cost s n))) n = true.
Proof. exact once_progress. Qed.
Print Assumptions C14_once_progress.
