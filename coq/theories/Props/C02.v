(* C02 — pinned theorems.  This file contains statements, `exact`, and Print Assumptions only. *)
From Coq Require Import List ZArith NArith.
From GV Require Import Lang.Syntax Lang.Eval Lang.Types Lang.TypesProofs.
Import ListNotations.

(* Type soundness of MiniGluon, all constructs, let- and rec-polymorphism: a program that has a
   type never reaches the Stuck outcome (the model of "Cannot call", "GetOffset on", "TestTag",
   missing field), for every fuel and initial effect log, and a value it returns has the shape
   of that type. *)
Theorem C02_type_soundness : forall D e t, decls_ok D -> has_type D [] e t ->
  forall n l,
    fst (eval n [] e l) <> Stuck /\
    (forall v l', eval n [] e l = (Ok v, l') -> check_shape D t v = true).
Proof. exact type_soundness. Qed.
Print Assumptions C02_type_soundness.

(* The same in any well-typed environment, with the full value typing (closures carry the
   typing of their environment). *)
Theorem C02_type_soundness_open : forall D G e t r,
  decls_ok D -> has_type D G e t -> env_typ D r G ->
  forall n l,
    fst (eval n r e l) <> Stuck /\
    (forall v l', eval n r e l = (Ok v, l') -> vtyp D v t).
Proof. exact type_soundness_open. Qed.
Print Assumptions C02_type_soundness_open.

(* The executable shape check decides the declarative shape relation … *)
Theorem C02_check_shape_sound : forall D v t, check_shape D t v = true -> shaped D v t.
Proof. exact check_shape_sound. Qed.
Print Assumptions C02_check_shape_sound.

Theorem C02_check_shape_complete : forall D v t, shaped D v t -> check_shape D t v = true.
Proof. exact shaped_check_shape. Qed.
Print Assumptions C02_check_shape_complete.

(* On first-order data (no closure inside the value, no unmodelled type reached) the shape check
   is the full value typing. *)
Theorem C02_check_strict_vtyp : forall D v t, check_strict D t v = true -> vtyp D v t.
Proof. exact check_strict_vtyp. Qed.
Print Assumptions C02_check_strict_vtyp.

(* … every well-typed value passes it … *)
Theorem C02_vtyp_check_shape : forall D v t, vtyp D v t -> check_shape D t v = true.
Proof. exact vtyp_check_shape. Qed.
Print Assumptions C02_vtyp_check_shape.

(* … and so does its image under the erasure the harness observes real VM values through
   (no field names, closures opaque): the monitor accepts whatever the model's check accepts. *)
Theorem C02_check_raw_erase : forall D v t,
  check_shape D t v = true -> check_raw D t (erase v) = true.
Proof. exact check_raw_erase. Qed.
Print Assumptions C02_check_raw_erase.

Theorem C02_type_soundness_observed : forall D e t, decls_ok D -> has_type D [] e t ->
  forall n l v l', eval n [] e l = (Ok v, l') -> check_raw D t (erase v) = true.
Proof. exact type_soundness_observed. Qed.
Print Assumptions C02_type_soundness_observed.

(* Contrapositive used to read a model Stuck: such a program has no type at all. *)
Theorem C02_stuck_untypable : forall D e n l, decls_ok D ->
  fst (eval n [] e l) = Stuck -> forall t, ~ has_type D [] e t.
Proof. exact stuck_untypable. Qed.
Print Assumptions C02_stuck_untypable.

(* Non-vacuity witnesses: a let-polymorphic program is typable, `1 2` is not. *)
Theorem C02_poly_id_typable : forall D, decls_ok D ->
  has_type D [] (ELet (PVar 1%N) (ELam [2%N] (EVar 2%N))
                   (ETup [EApp (EVar 1%N) [ELit (LInt 3)]; EApp (EVar 1%N) [ELit (LStr [])]]))
           (ttuple [TInt; TStr]).
Proof. exact poly_id_typable. Qed.
Print Assumptions C02_poly_id_typable.

Theorem C02_cannot_call_untypable : forall D t, decls_ok D ->
  ~ has_type D [] (EApp (ELit (LInt 1)) [ELit (LInt 2)]) t.
Proof. exact cannot_call_untypable. Qed.
Print Assumptions C02_cannot_call_untypable.
