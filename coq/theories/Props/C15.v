(* C15 — pinned theorems.  This file contains statements, `exact`, and Print Assumptions only. *)
From Coq Require Import List ZArith.
From GV Require Import Conc.Modules Conc.ModulesProofs.
Import ListNotations.

(* Fresh evaluation (DFS with fuel = number of module slots + 1) never runs out of fuel. *)
Theorem C15_fuel_enough : forall (G : sources) (m : name), fresh_eval G m <> OutOfFuel.
Proof. exact fuel_enough. Qed.
Print Assumptions C15_fuel_enough.

(* Every cycle named in the result of a fresh evaluation is a genuine import cycle of the sources:
   each member imports the next and the last imports the first. *)
Theorem C15_cycle_reported : forall (G : sources) (m : name) cs ty c,
  fresh_eval G m = Failed cs ty -> In (CCyclic c) cs -> genuine G c.
Proof. exact cycle_reported. Qed.
Print Assumptions C15_cycle_reported.

(* A module from which a cyclic import chain is reachable is reported as cyclic (it neither hangs —
   the evaluation is a total function that does not run out of fuel — nor yields a value). *)
Theorem C15_cycle_detected : forall (G : sources) (m x : name) k j,
  steps G m x k -> steps G x x (S j) -> canon (fresh_eval G m) = CCyc.
Proof. exact cycle_detected. Qed.
Print Assumptions C15_cycle_detected.

Theorem C15_cyclic_only_if_cycle : forall (G : sources) (m : name),
  canon (fresh_eval G m) = CCyc -> exists c, genuine G c.
Proof. exact cyclic_only_if_cycle. Qed.
Print Assumptions C15_cyclic_only_if_cycle.

(* Reloads are never stale: for every history of edits and evaluations, the incremental engine
   (memo table with revisions; add_module starts a new revision whenever a source changes and
   whenever a module that was requested before gets its first source) gives, at every evaluation,
   the observable result of a fresh evaluation of the then-current sources. *)
Theorem C15_inc_equals_fresh : forall (h : list op),
  outputs (snd (run NewIfRequested empty_engine h)) = fresh_outputs [] h.
Proof. exact inc_equals_fresh. Qed.
Print Assumptions C15_inc_equals_fresh.

Theorem C15_inc_equals_fresh_query : forall (h : list op) (m : name),
  let e := fst (run NewIfRequested empty_engine h) in
  canon (snd (fst (inc_eval e m))) = canon (fresh_eval (latest [] h) m).
Proof. exact inc_equals_fresh_query. Qed.
Print Assumptions C15_inc_equals_fresh_query.

(* ... and likewise when every first definition starts a new revision. *)
Theorem C15_inc_equals_fresh_always : forall (h : list op),
  outputs (snd (run NewAlways empty_engine h)) = fresh_outputs [] h.
Proof. exact inc_equals_fresh_always. Qed.
Print Assumptions C15_inc_equals_fresh_always.

(* Evaluated once: whatever the engine state, any number of queries without an edit in between runs
   the body of each module at most once. *)
Theorem C15_eval_once : forall (e : engine) (ms : list name), NoDup (snd (queries e ms)).
Proof. exact eval_once. Qed.
Print Assumptions C15_eval_once.

(* add_module as it stands in src/query.rs:213 (a module defined for the first time does not start a
   new revision) is correct only on histories that add modules while nothing is memoised ... *)
Theorem C15_inc_equals_fresh_asis_partial : forall (h : list op),
  adds_when_clean false [] h ->
  outputs (snd (run NewNever empty_engine h)) = fresh_outputs [] h.
Proof. exact inc_equals_fresh_asis_partial. Qed.
Print Assumptions C15_inc_equals_fresh_asis_partial.

(* ... and is stale otherwise (import a missing module, define it, import it again). *)
Theorem C15_inc_equals_fresh_asis_refuted :
  exists h, outputs (snd (run NewNever empty_engine h)) <> fresh_outputs [] h.
Proof. exact inc_equals_fresh_asis_refuted. Qed.
Print Assumptions C15_inc_equals_fresh_asis_refuted.

(* How the cycle is named (recover_cycle, src/query.rs).  Under the stated shape of salsa's
   participant list (Conc/Modules.v, `cycle_keys`): the original extraction names the whole cycle only
   when every member's import query is executed ... *)
Theorem C15_report_asis_partial : forall (exec : name -> bool) (m1 : name) (rest : list name),
  (forall m, In m rest -> exec m = true) -> report_asis (cycle_keys exec (m1 :: rest)) = m1 :: rest.
Proof. exact report_asis_partial. Qed.
Print Assumptions C15_report_asis_partial.

(* ... and leaves out the members whose import query is merely re-validated in a new revision ... *)
Theorem C15_report_asis_refuted :
  exists (exec : name -> bool) (c : list name), NoDup c /\ c <> [] /\ report_asis (cycle_keys exec c) <> c.
Proof. exact report_asis_refuted. Qed.
Print Assumptions C15_report_asis_refuted.

(* ... whereas the repaired extraction (`cycle_modules`, fixes/C15-cycle-chain-revalidated-import.patch,
   applied to /repo) always names it. *)
Theorem C15_report_fixed_chain : forall (exec : name -> bool) (c : list name),
  NoDup c -> c <> [] -> report_fixed (cycle_keys exec c) = c.
Proof. exact report_fixed_chain. Qed.
Print Assumptions C15_report_fixed_chain.
