(* C08 — pinned theorems.  This file contains statements, `exact`, and Print Assumptions only. *)
From Coq Require Import List ZArith NArith.
From GV Require Import Front.Infix Front.InfixProofs Front.OpLookup Front.OpLookupProofs.
Import ListNotations.

(* The in-order traversal of the re-associated tree is the input chain. *)
Theorem C08_reparse_yield : forall (tbl : nat -> meta) a0 rest t,
  reparse tbl a0 rest = Ok t -> yield t = TArg a0 :: ryield rest.
Proof. exact reparse_yield. Qed.
Print Assumptions C08_reparse_yield.

(* Every node of the result respects the table. *)
Theorem C08_reparse_wf : forall (tbl : nat -> meta) a0 rest t,
  reparse tbl a0 rest = Ok t -> wf tbl t.
Proof. exact reparse_wf. Qed.
Print Assumptions C08_reparse_wf.

(* Two well-bracketed trees with the same yield are equal. *)
Theorem C08_wf_unique : forall (tbl : nat -> meta) t1 t2,
  wf tbl t1 -> wf tbl t2 -> yield t1 = yield t2 -> t1 = t2.
Proof. exact wf_unique. Qed.
Print Assumptions C08_wf_unique.

(* Hence the grouping is exactly the one the fixities dictate. *)
Theorem C08_reparse_unique_grouping : forall (tbl : nat -> meta) a0 rest t,
  reparse tbl a0 rest = Ok t ->
  forall t', wf tbl t' -> yield t' = TArg a0 :: ryield rest -> t' = t.
Proof. exact reparse_unique_grouping. Qed.
Print Assumptions C08_reparse_unique_grouping.

Theorem C08_reparse_complete : forall (tbl : nat -> meta) a0 rest,
  (forall s n, In s (rops rest) -> In n (rops rest) -> ~ conflicting tbl s n) ->
  exists t, reparse tbl a0 rest = Ok t.
Proof. exact reparse_complete. Qed.
Print Assumptions C08_reparse_complete.

Theorem C08_reparse_conflict_sound : forall (tbl : nat -> meta) a0 rest s n,
  reparse tbl a0 rest = ErrConflict s n ->
  In s (rops rest) /\ In n (rops rest) /\ conflicting tbl s n.
Proof. exact reparse_conflict_sound. Qed.
Print Assumptions C08_reparse_conflict_sound.

(* Over the table regenerated from parser/src/infix.rs. *)
Theorem C08_builtin_chains_never_conflict : forall (names : nat -> name) a0 rest tbl,
  (forall o, In o (rops rest) -> builtin_lookup (names o) = Some (tbl o)) ->
  exists t, reparse tbl a0 rest = Ok t.
Proof. exact builtin_chains_never_conflict. Qed.
Print Assumptions C08_builtin_chains_never_conflict.
