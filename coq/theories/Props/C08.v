(* C08 — pinned theorems.  This file contains statements, `exact`, and Print Assumptions only. *)
From Coq Require Import List ZArith NArith.
From GV Require Import Front.Infix Front.InfixProofs Front.OpLookup Front.OpLookupProofs.
From GV Require Import Front.InfixComplete.
From GV Require Import Front.SpanCheck Front.SpanCheckProofs Front.LayoutCheck Front.LayoutCheckProofs.
From GV Require Front.AstEq.
From GV Require Front.LayoutBase Front.Layout Front.LayoutProofs Front.LayoutModelProofs Front.LayoutTermination Front.LayoutBalanced.
Import ListNotations.

(* The in-order traversal of the re-associated tree is the input chain. *)
Theorem C08_reparse_yield : forall (tbl : nat -> meta) a0 rest t,
  reparse tbl a0 rest = Ok t -> yield t = TArg a0 :: ryield rest.
Proof. exact reparse_yield. Qed.
Print Assumptions C08_reparse_yield.

(* Every node of the result respects the table. *)
Theorem C08_reparse_wf : forall (tbl : nat -> meta) a0 rest t,
  reparse tbl a0 rest = Ok t -> wf tbl t.
Proof. exact reparse_wf. Qed.
Print Assumptions C08_reparse_wf.

(* Two well-bracketed trees with the same yield are equal. *)
Theorem C08_wf_unique : forall (tbl : nat -> meta) t1 t2,
  wf tbl t1 -> wf tbl t2 -> yield t1 = yield t2 -> t1 = t2.
Proof. exact wf_unique. Qed.
Print Assumptions C08_wf_unique.

(* Hence the grouping is exactly the one the fixities dictate. *)
Theorem C08_reparse_unique_grouping : forall (tbl : nat -> meta) a0 rest t,
  reparse tbl a0 rest = Ok t ->
  forall t', wf tbl t' -> yield t' = TArg a0 :: ryield rest -> t' = t.
Proof. exact reparse_unique_grouping. Qed.
Print Assumptions C08_reparse_unique_grouping.

Theorem C08_reparse_complete : forall (tbl : nat -> meta) a0 rest,
  (forall s n, In s (rops rest) -> In n (rops rest) -> ~ conflicting tbl s n) ->
  exists t, reparse tbl a0 rest = Ok t.
Proof. exact reparse_complete. Qed.
Print Assumptions C08_reparse_complete.

Theorem C08_reparse_conflict_sound : forall (tbl : nat -> meta) a0 rest s n,
  reparse tbl a0 rest = ErrConflict s n ->
  In s (rops rest) /\ In n (rops rest) /\ conflicting tbl s n.
Proof. exact reparse_conflict_sound. Qed.
Print Assumptions C08_reparse_conflict_sound.

(* Over the table regenerated from parser/src/infix.rs. *)
Theorem C08_builtin_chains_never_conflict : forall (names : nat -> name) a0 rest tbl,
  (forall o, In o (rops rest) -> builtin_lookup (names o) = Some (tbl o)) ->
  exists t, reparse tbl a0 rest = Ok t.
Proof. exact builtin_chains_never_conflict. Qed.
Print Assumptions C08_builtin_chains_never_conflict.

(* The conflict error is exact: when reparse reports conflicting fixities, no well-bracketed tree
   has the chain as its yield. *)
Theorem C08_conflict_means_no_wf_tree : forall (tbl : nat -> meta) a0 rest s n,
  reparse tbl a0 rest = ErrConflict s n ->
  ~ exists t, wf tbl t /\ yield t = TArg a0 :: ryield rest.
Proof. exact conflict_means_no_wf_tree. Qed.
Print Assumptions C08_conflict_means_no_wf_tree.

(* Completeness: whenever a well-bracketed tree with that yield exists, reparse returns it. *)
Theorem C08_wf_complete : forall (tbl : nat -> meta) a0 rest t,
  wf tbl t -> yield t = TArg a0 :: ryield rest -> reparse tbl a0 rest = Ok t.
Proof. exact wf_complete. Qed.
Print Assumptions C08_wf_complete.

(* Re-associating the flattening of an already well-bracketed tree returns that tree (the Rust
   visitor re-visits re-associated sub-trees). *)
Theorem C08_reparse_idempotent : forall (tbl : nat -> meta) t,
  wf tbl t -> reparse tbl (fst (flat t)) (snd (flat t)) = Ok t.
Proof. exact reparse_idempotent. Qed.
Print Assumptions C08_reparse_idempotent.

(* ---- verified validators run on the real parser's artefacts (tie V) ---- *)

(* What the span checker's acceptance means: every span inside the source, children inside their
   parent, siblings ordered and disjoint, the text at a leaf's span is the leaf's token. *)
Theorem C08_spans_ok_sound : forall (src : list N) (t : stree),
  spans_ok src t = true -> spans_wf src t.
Proof. exact spans_ok_sound. Qed.
Print Assumptions C08_spans_ok_sound.

(* The layout algorithm only inserts virtual tokens: erasing them gives the raw token stream. *)
Theorem C08_layout_preserves_tokens : forall (a b : list tok),
  layout_ok true a b = true -> erase_virtual b = real_tokens a.
Proof. exact layout_preserves_tokens. Qed.
Print Assumptions C08_layout_preserves_tokens.

(* ... and, when the run was cut short by an error, a prefix of it. *)
Theorem C08_layout_preserves_prefix : forall (a b : list tok),
  layout_ok false a b = true -> exists rest, real_tokens a = erase_virtual (trim b) ++ rest.
Proof. exact layout_preserves_prefix. Qed.
Print Assumptions C08_layout_preserves_prefix.

(* On runs that end without error, virtual blocks and real brackets are balanced and nested. *)
Theorem C08_layout_balanced : forall (a b : list tok),
  layout_ok true a b = true -> dyck b.
Proof. exact layout_balanced. Qed.
Print Assumptions C08_layout_balanced.

(* Every virtual block token carries the span of the next real token, of the previous one, or of
   EOF. *)
Theorem C08_layout_positions : forall (a b pre : list tok) (t : tok) (post : list tok),
  layout_ok true a b = true -> b = pre ++ t :: post -> is_ocs t = true ->
  neighbour (eof_of a) (last_real None pre) t post.
Proof. exact layout_positions. Qed.
Print Assumptions C08_layout_positions.

(* ---- the layout model (port of parser/src/layout.rs, tables regenerated from the source) ---- *)

(* One call of layout_next_token needs at most 2·|contexts| + 3 iterations of its loop. *)
Theorem C08_layout_step_terminates : forall (fuel : nat) (st : Layout.state),
  Layout.layout_next_token fuel st <> Layout.LFuel.
Proof. exact LayoutProofs.layout_step_terminates. Qed.
Print Assumptions C08_layout_step_terminates.

(* The statement after an `if .. else ..` is separated by a virtual `;` exactly when the CloseBlock
   arm of layout_next_token does not clear `emit_semi` of the enclosing block. *)
Theorem C08_if_else_statement_separator :
  exists out, Layout.layout LayoutProofs.if_else_then_statement = Layout.ROk out /\
              LayoutProofs.has_semi out = negb LayoutTablesGen.close_block_resets_semi.
Proof. exact LayoutProofs.if_else_statement_separator. Qed.
Print Assumptions C08_if_else_statement_separator.

(* The model only INSERTS virtual tokens.  On a run that reaches the end of the input the emitted
   stream is exactly the input (non-EOF, non-block tokens followed by one EOF: what the tokenizer
   produces) with OpenBlock / CloseBlock / Semi / In tokens inserted — nothing dropped, reordered or
   altered. *)
Theorem C08_layout_model_preserves_tokens : forall (body : list LayoutBase.mtok) e out,
  Forall (fun t => LayoutBase.k t <> LayoutBase.TEOF) body -> LayoutBase.k e = LayoutBase.TEOF ->
  Forall (fun t => ~ LayoutModelProofs.oc t) body ->
  Layout.layout (body ++ [e]) = Layout.ROk out ->
  LayoutModelProofs.ins (LayoutModelProofs.real out) body.
Proof. exact LayoutModelProofs.layout_model_preserves_tokens. Qed.
Print Assumptions C08_layout_model_preserves_tokens.

(* ... and whatever the outcome of the run (UnindentedTooFar, panic, ...), for every stream ending in
   EOF: what has been emitted is, up to inserted virtual tokens, a prefix of the input (EOF tokens
   disregarded). *)
Theorem C08_layout_model_preserves_prefix : forall raw : list LayoutBase.mtok,
  LayoutBase.k (last raw (LayoutBase.MTok LayoutBase.TEOF 12 0 1 0 0)) = LayoutBase.TEOF ->
  exists rest, LayoutModelProofs.ins
                 (LayoutModelProofs.real (LayoutModelProofs.out_of (Layout.layout raw) ++ rest))
                 (LayoutModelProofs.real raw).
Proof. exact LayoutModelProofs.layout_model_preserves_tokens_partial. Qed.
Print Assumptions C08_layout_model_preserves_prefix.

(* The comparator the round trip uses for the two canonical trees decides equality. *)
Theorem C08_ast_eqb_eq : forall a b : AstEq.sx, AstEq.ast_eqb a b = true <-> a = b.
Proof. exact AstEq.ast_eqb_eq. Qed.
Print Assumptions C08_ast_eqb_eq.

(* The whole run of the layout model terminates: for every token stream that ends in EOF the
   100·|raw| + 10 calls of layout_next_token the model is given always suffice (potential argument:
   every call that emits a token other than EOF lowers a potential bounded by 100·|raw| + 7); together
   with C08_layout_step_terminates (2·|contexts| + 3 iterations per call) the run is bounded linearly
   in the input length and the context depth. *)
Theorem C08_layout_model_terminates : forall raw : list LayoutBase.mtok,
  LayoutBase.k (last raw (LayoutBase.MTok LayoutBase.TEOF 12 0 1 0 0)) = LayoutBase.TEOF ->
  forall out, Layout.layout raw <> Layout.RFuel out.
Proof. exact LayoutTermination.layout_model_terminates. Qed.
Print Assumptions C08_layout_model_terminates.

(* Balance of the model's own output.  [partial]: for runs that reach the end of the input and are
   CLEAN — LayoutBalanced.clean_run: no iteration takes the give-up exit of layout.rs:325-332 while
   dropping a block / bracket context or with a closing bracket in hand, none `continue`s past a bracket
   context its closing token does not match, none closes a block by unindentation while that block's
   own queued OpenBlock is the token in hand, and EOF is emitted with no context left — the virtual
   OpenBlock / CloseBlock tokens of the output are balanced and properly nested with the real brackets
   ( ) { } [ ] #[ : reading the output against a stack of expected closers never mismatches and ends
   with the empty stack. *)
Theorem C08_layout_model_balanced_partial : forall (raw out : list LayoutBase.mtok),
  LayoutBase.k (last raw (LayoutBase.MTok LayoutBase.TEOF 12 0 1 0 0)) = LayoutBase.TEOF ->
  LayoutBalanced.noopen raw ->
  LayoutBalanced.clean_run raw = true ->
  Layout.layout raw = Layout.ROk out ->
  LayoutBalanced.bal [] out = Some [].
Proof. exact LayoutBalanced.layout_model_balanced_partial. Qed.
Print Assumptions C08_layout_model_balanced_partial.
