(* C11 — pinned theorems.  This file contains statements, `exact`, and Print Assumptions only. *)
From Coq Require Import List ZArith Bool.
From GV Require Import Lib.Marshal Lib.MarshalProofs.
Import ListNotations.
Open Scope Z_scope.

(* Every well-formed value of every type code of the family (primitives, Option, Result, Vec,
   BTreeMap<String,_>, tuples, derived structs and enums, nested without bound) pushed with the
   modelled Pushable instance and read with the modelled Getable instance is the original;
   includes u64/usize above i64::MAX (wrap through i64), f32 through f64, empty arrays, zero-field
   variants. *)
Theorem C11_get_push : forall t v, wf_type t = true -> wf t v = true -> get t (push t v) = Some v.
Proof. exact get_push. Qed.
Print Assumptions C11_get_push.

(* The excluded class: an f32 signalling NaN does not come back bit-identical (quiet bit set). *)
Theorem C11_get_push_f32_snan_refuted :
  exists v, in_range 0 (2 ^ 32) (match v with VFloat b => b | _ => -1 end) = true /\
            get TF32 (push TF32 v) <> Some v.
Proof. exact get_push_f32_snan_refuted. Qed.
Print Assumptions C11_get_push_f32_snan_refuted.

(* Every f32 bit pattern other than a signalling NaN survives `as f64 as f32`. *)
Theorem C11_f32_roundtrip : forall b, 0 <= b < 2 ^ 32 -> f32_is_snan b = false -> f64_narrow (f32_widen b) = b.
Proof. exact f32_roundtrip. Qed.
Print Assumptions C11_f32_roundtrip.

(* Gluon code sees a value of the corresponding Gluon type. *)
Theorem C11_push_shape : forall t v, wf_type t = true -> wf t v = true -> shape_ok (gluon_ty t) (push t v) = true.
Proof. exact push_shape. Qed.
Print Assumptions C11_push_shape.

(* A request at a Rust type whose Gluon type differs from the global's type is refused ... *)
Theorem C11_sig_refuses : forall t t', gluon_ty t <> gluon_ty t' -> sig_ok t (gluon_ty t') = false.
Proof. exact sig_refuses. Qed.
Print Assumptions C11_sig_refuses.

(* ... the signature check accepts exactly the Rust types with that Gluon type (the documented
   equivalences: integer widths, f32/f64, tuple/tuple struct, newtypes, structurally equal enums) ... *)
Theorem C11_sig_ok_iff : forall t g, sig_ok t g = true <-> gluon_ty t = g.
Proof. exact sig_ok_iff. Qed.
Print Assumptions C11_sig_ok_iff.

(* ... and what an accepted request is handed has the Gluon type of the requested Rust type. *)
Theorem C11_sig_ok_shape : forall t t' v, sig_ok t (gluon_ty t') = true -> wf_type t' = true -> wf t' v = true ->
  shape_ok (gluon_ty t) (push t' v) = true.
Proof. exact sig_ok_shape. Qed.
Print Assumptions C11_sig_ok_shape.

(* serde bridge, on the class of types where `Ser` is type-faithful (ser_class) / `De` follows the
   Gluon type (de_class) *)
Theorem C11_ser_shape : forall t v, ser_class t = true -> wf_type t = true -> wf t v = true ->
  shape_ok (gluon_ty t) (ser t v) = true.
Proof. exact ser_shape. Qed.
Print Assumptions C11_ser_shape.

Theorem C11_get_ser : forall t v, ser_class t = true -> wf_type t = true -> wf t v = true ->
  get t (ser t v) = Some v.
Proof. exact get_ser. Qed.
Print Assumptions C11_get_ser.

Theorem C11_de_push : forall t v, de_class t = true -> wf_type t = true -> wf t v = true ->
  de t (push t v) = Some v.
Proof. exact de_push. Qed.
Print Assumptions C11_de_push.

Theorem C11_de_ser : forall t v, ser_class t = true -> de_class t = true -> wf_type t = true -> wf t v = true ->
  de t (ser t v) = Some v.
Proof. exact de_ser. Qed.
Print Assumptions C11_de_ser.

(* outside ser_class the bridge is not type-faithful / lossy: witnesses (each confirmed on the
   implementation by the correspondence run, keys marshal:serde:ser:...) *)
Theorem C11_ser_shape_option_refuted : exists t v, ser_unfaithful t v.
Proof. exact ser_shape_option_refuted. Qed.
Print Assumptions C11_ser_shape_option_refuted.

Theorem C11_ser_option_not_injective_refuted :
  ser (TOption (TOption TI64)) (VSome VNone) = ser (TOption (TOption TI64)) VNone.
Proof. exact ser_option_not_injective_refuted. Qed.
Print Assumptions C11_ser_option_not_injective_refuted.

Theorem C11_ser_shape_vec_refuted : exists v, ser_unfaithful (TVec TI64) v.
Proof. exact ser_shape_vec_refuted. Qed.
Print Assumptions C11_ser_shape_vec_refuted.

Theorem C11_ser_shape_u8_refuted : exists v, ser_unfaithful TU8 v.
Proof. exact ser_shape_u8_refuted. Qed.
Print Assumptions C11_ser_shape_u8_refuted.

Theorem C11_ser_shape_char_refuted : exists v, ser_unfaithful TChar v.
Proof. exact ser_shape_char_refuted. Qed.
Print Assumptions C11_ser_shape_char_refuted.

Theorem C11_ser_shape_tuple_refuted : exists v, ser_unfaithful (TTuple [TI64; TString]) v.
Proof. exact ser_shape_tuple_refuted. Qed.
Print Assumptions C11_ser_shape_tuple_refuted.

Theorem C11_ser_result_swapped_refuted :
  get (TResult TI64 TI64) (ser (TResult TI64 TI64) (VOk (VInt 5))) = Some (VErr (VInt 5)).
Proof. exact ser_result_swapped_refuted. Qed.
Print Assumptions C11_ser_result_swapped_refuted.

Theorem C11_ser_map_drops_keys_refuted :
  ser (TMap TI64) (VMapV [([97], VInt 1)]) = ser (TMap TI64) (VMapV [([98], VInt 1)]).
Proof. exact ser_map_drops_keys_refuted. Qed.
Print Assumptions C11_ser_map_drops_keys_refuted.
