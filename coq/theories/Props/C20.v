(* C20 — pinned theorems.  This file contains statements, `exact`, and Print Assumptions only.
   `span`, `contains`, `contains_pos`, `containment`, `containment_exclusive` are the definitions
   REGENERATED from /repo/base/src/pos.rs (gen/SpanGen.v) on every run. *)
From Coq Require Import List ZArith Bool.
From GVgen Require Import SpanGen.
From GV Require Import Front.Spans Front.SpansProofs.
Import ListNotations.
Local Open Scope Z_scope.

(* ---- the regenerated span comparisons ---- *)

Theorem C20_containment_eq_iff : forall s p,
  containment s p = Eq <-> (p = start s \/ p = end_ s \/ start s < p < end_ s).
Proof. exact containment_eq_iff. Qed.
Print Assumptions C20_containment_eq_iff.

(* inclusive at both ends on a proper span *)
Theorem C20_containment_wf_eq : forall s p, start s <= end_ s ->
  (containment s p = Eq <-> start s <= p <= end_ s).
Proof. exact containment_wf_eq. Qed.
Print Assumptions C20_containment_wf_eq.

Theorem C20_containment_wf_lt : forall s p, start s <= end_ s ->
  (containment s p = Lt <-> p < start s).
Proof. exact containment_wf_lt. Qed.
Print Assumptions C20_containment_wf_lt.

Theorem C20_containment_wf_gt : forall s p, start s <= end_ s ->
  (containment s p = Gt <-> end_ s < p).
Proof. exact containment_wf_gt. Qed.
Print Assumptions C20_containment_wf_gt.

Theorem C20_contains_pos_iff : forall s p,
  contains_pos s p = true <-> start s <= p <= end_ s.
Proof. exact contains_pos_iff. Qed.
Print Assumptions C20_contains_pos_iff.

Theorem C20_contains_iff : forall a b,
  contains a b = true <-> (start a <= start b /\ end_ b <= end_ a).
Proof. exact contains_iff. Qed.
Print Assumptions C20_contains_iff.

Theorem C20_containment_exclusive_eq_iff : forall s p, start s <= end_ s ->
  (containment_exclusive s p = Eq <-> start s <= p < end_ s).
Proof. exact containment_exclusive_eq_iff. Qed.
Print Assumptions C20_containment_exclusive_eq_iff.

(* ---- the position search ---- *)

(* Totality: on every tree of modelled nodes (any spans: empty, ill-nested, overlapping; any
   number of children, including none) and at every position the search ends with a match or
   with enclosing nodes only — never undecided — and there is always an enclosing node to fall
   back to. *)
Theorem C20_find_total : forall t p,
  plain_b t = true -> visitable t = true ->
  (st (find_at t p) = SFound \/ st (find_at t p) = SEmpty) /\ enc (find_at t p) <> [].
Proof. exact find_at_total. Qed.
Print Assumptions C20_find_total.

(* On a well-nested tree the token (identifier, literal, operator) under the cursor is the
   match; it has no children, so no child of the result contains the position. *)
Theorem C20_find_innermost : forall t p l,
  wf_b t = true -> visitable t = true -> leaf_in l t -> containment (nspan l) p = Eq ->
  st (find_at t p) = SFound /\ hit (find_at t p) = Some (hdr_of l) /\ nchildren l = [].
Proof. exact find_innermost. Qed.
Print Assumptions C20_find_innermost.

Theorem C20_find_unique : forall t p l1 l2,
  wf_b t = true -> visitable t = true ->
  leaf_in l1 t -> leaf_in l2 t ->
  containment (nspan l1) p = Eq -> containment (nspan l2) p = Eq ->
  hdr_of l1 = hdr_of l2.
Proof. exact find_unique. Qed.
Print Assumptions C20_find_unique.

(* No token under the cursor when the search reports no match. *)
Theorem C20_find_empty_no_leaf : forall t p l,
  wf_b t = true -> visitable t = true -> st (find_at t p) <> SFound ->
  leaf_in l t -> containment (nspan l) p <> Eq.
Proof. exact find_empty_no_leaf. Qed.
Print Assumptions C20_find_empty_no_leaf.

(* Any tree (no nesting assumption): a reported identifier/literal leaf contains the position. *)
Theorem C20_find_hit_contains : forall t p h,
  shaped_b t = true -> hit (find_at t p) = Some h -> policy (hkind h) = P_LEAF ->
  containment (hsp h) p = Eq.
Proof. exact find_at_hit_contains. Qed.
Print Assumptions C20_find_hit_contains.

(* The node `find` falls back to contains the position. *)
Theorem C20_find_last_enclosing_contains : forall t p d,
  no_force_b t = true -> containment (nspan t) p = Eq ->
  (forall h, hit (find_at t p) = Some h -> policy (hkind h) <> P_PROJ) ->
  containment (last_enclosing (find_at t p) d) p = Eq.
Proof. exact find_at_last_enclosing_contains. Qed.
Print Assumptions C20_find_last_enclosing_contains.

(* Boundary ties are resolved to the leftmost element whose `containment` is Eq. *)
Theorem C20_select_spanned_leftmost : forall (A : Type) (sp_of : A -> span) p xs x,
  select_spanned sp_of p xs = (false, Some x) ->
  exists pre post, xs = pre ++ x :: post /\ containment (sp_of x) p = Eq /\
                   Forall (fun y => containment (sp_of y) p <> Eq) pre.
Proof. exact select_spanned_leftmost. Qed.
Print Assumptions C20_select_spanned_leftmost.

(* The unrestricted versions are false of the faithful model (witnesses in SpansProofs.v). *)
Theorem C20_find_hit_contains_full_refuted : ~ find_hit_contains_full_stmt.
Proof. exact find_hit_contains_full_refuted. Qed.
Print Assumptions C20_find_hit_contains_full_refuted.

Theorem C20_last_enclosing_contains_full_refuted : ~ last_enclosing_contains_full_stmt.
Proof. exact last_enclosing_contains_full_refuted. Qed.
Print Assumptions C20_last_enclosing_contains_full_refuted.

(* ---- scope ---- *)

Theorem C20_scope_at_sound : forall t p x,
  In x (scope_at t p) ->
  exists n b, node_in n t /\ In b (nbinders n) /\ bname b = x /\
              start (bscope b) <= p <= end_ (bscope b).
Proof. exact scope_at_sound. Qed.
Print Assumptions C20_scope_at_sound.

Theorem C20_scope_at_complete : forall t p n b,
  node_in n t -> In b (nbinders n) -> start (bscope b) <= p <= end_ (bscope b) ->
  In (bname b) (scope_at t p).
Proof. exact scope_at_complete. Qed.
Print Assumptions C20_scope_at_complete.

(* The two monitors of the correspondence run decide what they are meant to decide. *)
Theorem C20_out_of_scope_nil_sound : forall t p extra sugg,
  out_of_scope t p extra sugg = [] ->
  forall x, In x sugg -> In x (scope_at t p) \/ In x extra.
Proof. exact out_of_scope_nil_sound. Qed.
Print Assumptions C20_out_of_scope_nil_sound.

Theorem C20_type_ok_sound : forall r obs h,
  type_ok r obs = true -> st r = SFound -> hit r = Some h -> hlab h <> 0%nat -> hlab h = obs.
Proof. exact type_ok_sound. Qed.
Print Assumptions C20_type_ok_sound.
