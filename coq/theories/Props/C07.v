(* C07 — pinned theorems.  This file contains statements, `exact`, and Print Assumptions only. *)
From Coq Require Import List ZArith NArith Bool Arith.
From GVgen Require Import InstrGen AllocGen.
From GV Require Import VM.StackBound VM.StackBoundProofs VM.TailCall VM.TailCallProofs
  Heap.Account Heap.AccountProofs.
Import ListNotations.

(* ---- stack bound of one frame (verifier run on every compiled function, tie V) ---- *)

(* In every execution of a frame running a verified function — entered with its `args` arguments
   and `excess` excess arguments, every Split yielding as many fields as annotated — nothing is
   accessed outside the frame (no Bad), the height at every instruction boundary is at most
   max_stack_size, and it exceeds it by at most `excess` at the moment a TailCall re-pushes them. *)
Theorem C07_verify_fn_sound : forall f excess args n st,
  verify_fn f = true ->
  length args = fn_args f ->
  steps (fn_code f) excess n (Running 0 args) st ->
  st <> Bad /\
  fheight st <= fn_max_stack f + excess /\
  (forall pc stk, st = Running pc stk -> length stk <= fn_max_stack f).
Proof. exact verify_fn_sound. Qed.
Print Assumptions C07_verify_fn_sound.

(* All jumps go forward: a frame executes at most `length code` instructions, which bounds the
   work between two polls of the interrupt flag (polled between frames, thread.rs:1785). *)
Theorem C07_forward_jumps_bounded_steps : forall f excess args n st,
  verify_fn f = true ->
  length args = fn_args f ->
  steps (fn_code f) excess n (Running 0 args) st ->
  n <= length (fn_code f).
Proof. exact forward_jumps_bounded_steps. Qed.
Print Assumptions C07_forward_jumps_bounded_steps.

(* The GENERATED accounting function `adjust` agrees with the interpreter's effect for every
   instruction whose effect is static (operands below 2^31; MakeClosure only without upvars). *)
Theorem C07_adjust_matches_semantics : forall i d,
  operands_small i -> net_effect i = Some d -> adjust i = d.
Proof. exact adjust_matches_semantics. Qed.
Print Assumptions C07_adjust_matches_semantics.

(* ... and the one constructor where it does not (never emitted by the compiler). *)
Theorem C07_adjust_makeclosure_refuted : exists i d, net_effect i = Some d /\ adjust i <> d.
Proof. exact adjust_makeclosure_refuted. Qed.
Print Assumptions C07_adjust_makeclosure_refuted.

(* ---- frames: entry check and tail calls ---- *)

(* stack_len_le_limit: after the entry test of add_new_frame, any frame height up to
   max_stack_size keeps the whole value stack within the configured limit. *)
Theorem C07_entry_check_bounds_total : forall (A : Type) args max limit ex (st st' : mstate A) fr rest,
  enter args max limit ex st = Some st' -> m_frames st' = fr :: rest ->
  rest = m_frames st /\ f_offset fr + args = length (m_stack st) /\
  forall h, h <= max -> f_offset fr + h <= limit.
Proof. exact entry_check_bounds_total. Qed.
Print Assumptions C07_entry_check_bounds_total.

(* TailCall replaces the current frame: same offset, frame count unchanged, stack below intact. *)
Theorem C07_tailcall_frame_reuse : forall (A : Type) n ex (st st1 : mstate A) k fr rest,
  m_frames st = fr :: rest -> f_excess fr = false ->
  tail_call n ex st = Some (st1, k) ->
  k = n /\
  m_frames st1 = rest /\
  length (m_stack st1) = f_offset fr + n /\
  firstn (f_offset fr - 1) (m_stack st1) = firstn (f_offset fr - 1) (m_stack st) /\
  forall max limit st2, enter n max limit false st1 = Some st2 ->
    exists fr2, m_frames st2 = fr2 :: rest /\ f_offset fr2 = f_offset fr /\
                length (m_frames st2) = length (m_frames st).
Proof. exact tailcall_frame_reuse. Qed.
Print Assumptions C07_tailcall_frame_reuse.

Theorem C07_tailcall_excess_repush : forall (A : Type) n ex (st st1 : mstate A) k fr rest,
  m_frames st = fr :: rest -> f_excess fr = true ->
  tail_call n ex st = Some (st1, k) ->
  k = n + length ex /\ m_frames st1 = rest /\
  length (m_stack st1) = f_offset fr - 1 + n + length ex /\
  length (m_stack st1) <= length (m_stack st) + length ex.
Proof. exact tailcall_excess_repush. Qed.
Print Assumptions C07_tailcall_excess_repush.

(* A chain of tail calls of ANY length runs in the frame slot of the first one. *)
Theorem C07_tailcall_chain_constant_frames : forall (A : Type) l limit (st st' : mstate A) fr rest,
  m_frames st = fr :: rest -> f_excess fr = false ->
  chain l limit st = Some st' ->
  exists fr', m_frames st' = fr' :: rest /\ f_offset fr' = f_offset fr /\
              length (m_frames st') = length (m_frames st).
Proof. exact tailcall_chain_constant_frames. Qed.
Print Assumptions C07_tailcall_chain_constant_frames.

(* ---- memory accounting (arithmetic GENERATED from gc.rs) ---- *)

(* The counter is exactly the sum of header + payload over the live objects. *)
Theorem C07_account_exact : forall hdr limit ops,
  allocated (run_ops hdr limit heap0 ops) = objs_total hdr (objs (run_ops hdr limit heap0 ops)).
Proof. exact account_exact. Qed.
Print Assumptions C07_account_exact.

(* After any sequence of limit-checked allocations, root drops and collections. *)
Theorem C07_account_invariant : forall hdr limit ops,
  (limit <= usize_max)%N ->
  forallb checked_op ops = true ->
  (allocated (run_ops hdr limit heap0 ops) <= limit + slack hdr)%N.
Proof. exact account_invariant. Qed.
Print Assumptions C07_account_invariant.

(* The property's literal claim `allocated <= limit` holds when the generated arithmetic has no
   slack (the case after fixes/C07-alloc-limit.patch) ... *)
Theorem C07_account_le_limit : forall hdr, slack hdr = 0%N -> account_le_limit_full_stmt hdr.
Proof. exact account_le_limit. Qed.
Print Assumptions C07_account_le_limit.

(* ... and is refuted by a one-allocation run whenever it has (the unchanged tree: slack = hdr - 1). *)
Theorem C07_account_le_limit_refuted : forall hdr,
  (0 < slack hdr)%N -> (witness_limit hdr <= usize_max)%N ->
  forallb checked_op (witness_ops hdr) = true /\
  (witness_limit hdr < allocated (run_ops hdr (witness_limit hdr) heap0 (witness_ops hdr)))%N.
Proof. exact account_le_limit_refuted. Qed.
Print Assumptions C07_account_le_limit_refuted.

Theorem C07_oom_or_within : forall hdr limit h size,
  (limit <= usize_max)%N -> exact hdr h -> (allocated h <= limit + slack hdr)%N ->
  let '(h', oom) := run_op hdr limit h (OAlloc size) in
  (oom = true /\ h' = h) \/
  (oom = false /\ (allocated h' <= limit + slack hdr)%N /\
   allocated h' = (allocated h + obj_size hdr size)%N).
Proof. exact oom_or_within. Qed.
Print Assumptions C07_oom_or_within.

Theorem C07_collect_hysteresis : forall hdr h a,
  collect_due a (climit (do_collect hdr h)) = true -> (2 * allocated (do_collect hdr h) <= a)%N.
Proof. exact collect_hysteresis. Qed.
Print Assumptions C07_collect_hysteresis.
