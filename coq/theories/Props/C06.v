(* C06 — pinned theorems.  This file contains statements, `exact`, and Print Assumptions only. *)
From Coq Require Import List String ZArith.
From GV Require Import Base.Utf8 Lib.PrimSig Lib.Prims Lib.PrimsProofs Lib.StackReset Lib.StackResetProofs.
From GVgen Require Import PrimTableGen StackResetGen.
Import ListNotations.
Open Scope Z_scope.

(* Every primitive of the table regenerated from vm/src/primitives.rs that is not in known_bad
   returns a value or a Gluon error for all well-typed arguments. *)
Theorem C06_prims_no_panic_outside_known : forall e args,
  In e prim_table -> ~ In e known_bad -> well_typed e args -> prim_eval e args <> HostPanic.
Proof. exact prims_no_panic_outside_known. Qed.
Print Assumptions C06_prims_no_panic_outside_known.

(* The unrestricted statement holds as soon as known_bad is empty (i.e. after the repairs). *)
Theorem C06_prims_total_no_panic_partial :
  known_bad = [] ->
  forall e args, In e prim_table -> well_typed e args -> prim_eval e args <> HostPanic.
Proof. exact prims_total_no_panic_partial. Qed.
Print Assumptions C06_prims_total_no_panic_partial.

(* known_bad is exact: each member aborts the host on some well-typed argument tuple. *)
Theorem C06_known_bad_refuted : forall e,
  In e known_bad -> exists args, well_typed e args /\ prim_eval e args = HostPanic.
Proof. exact known_bad_refuted. Qed.
Print Assumptions C06_known_bad_refuted.

(* The guards [implies] accepts establish the precondition of the Rust operation, for all arguments. *)
Theorem C06_implies_sound : forall gs pc args,
  implies gs pc = true -> forallb (guard_ok args) gs = true -> panics pc args = false.
Proof. exact implies_sound. Qed.
Print Assumptions C06_implies_sound.

(* The defective rows as written in primitives.rs today (literal rows). *)
Theorem C06_prim_int_from_str_radix_refuted : refuted row_int_from_str_radix.
Proof. exact prim_int_from_str_radix_refuted. Qed.
Print Assumptions C06_prim_int_from_str_radix_refuted.
Theorem C06_prim_int_shl_refuted : refuted row_int_shl.
Proof. exact prim_int_shl_refuted. Qed.
Print Assumptions C06_prim_int_shl_refuted.
Theorem C06_prim_int_arithmetic_shr_refuted : refuted row_int_arithmetic_shr.
Proof. exact prim_int_arithmetic_shr_refuted. Qed.
Print Assumptions C06_prim_int_arithmetic_shr_refuted.
Theorem C06_prim_int_logical_shr_refuted : refuted row_int_logical_shr.
Proof. exact prim_int_logical_shr_refuted. Qed.
Print Assumptions C06_prim_int_logical_shr_refuted.
Theorem C06_prim_int_pow_refuted : refuted row_int_pow.
Proof. exact prim_int_pow_refuted. Qed.
Print Assumptions C06_prim_int_pow_refuted.
Theorem C06_prim_int_abs_refuted : refuted row_int_abs.
Proof. exact prim_int_abs_refuted. Qed.
Print Assumptions C06_prim_int_abs_refuted.
Theorem C06_prim_int_rem_refuted : refuted row_int_rem.
Proof. exact prim_int_rem_refuted. Qed.
Print Assumptions C06_prim_int_rem_refuted.
Theorem C06_prim_int_rem_euclid_refuted : refuted row_int_rem_euclid.
Proof. exact prim_int_rem_euclid_refuted. Qed.
Print Assumptions C06_prim_int_rem_euclid_refuted.
Theorem C06_prim_int_wrapping_div_refuted : refuted row_int_wrapping_div.
Proof. exact prim_int_wrapping_div_refuted. Qed.
Print Assumptions C06_prim_int_wrapping_div_refuted.
Theorem C06_prim_int_overflowing_div_refuted : refuted row_int_overflowing_div.
Proof. exact prim_int_overflowing_div_refuted. Qed.
Print Assumptions C06_prim_int_overflowing_div_refuted.
Theorem C06_prim_byte_shl_refuted : refuted row_byte_shl.
Proof. exact prim_byte_shl_refuted. Qed.
Print Assumptions C06_prim_byte_shl_refuted.
Theorem C06_prim_byte_shr_refuted : refuted row_byte_shr.
Proof. exact prim_byte_shr_refuted. Qed.
Print Assumptions C06_prim_byte_shr_refuted.
Theorem C06_prim_byte_pow_refuted : refuted row_byte_pow.
Proof. exact prim_byte_pow_refuted. Qed.
Print Assumptions C06_prim_byte_pow_refuted.
Theorem C06_prim_byte_wrapping_div_refuted : refuted row_byte_wrapping_div.
Proof. exact prim_byte_wrapping_div_refuted. Qed.
Print Assumptions C06_prim_byte_wrapping_div_refuted.
Theorem C06_prim_byte_overflowing_div_refuted : refuted row_byte_overflowing_div.
Proof. exact prim_byte_overflowing_div_refuted. Qed.
Print Assumptions C06_prim_byte_overflowing_div_refuted.
Theorem C06_prim_char_is_digit_refuted : refuted row_char_is_digit.
Proof. exact prim_char_is_digit_refuted. Qed.
Print Assumptions C06_prim_char_is_digit_refuted.
Theorem C06_prim_char_to_digit_refuted : refuted row_char_to_digit.
Proof. exact prim_char_to_digit_refuted. Qed.
Print Assumptions C06_prim_char_to_digit_refuted.
Theorem C06_prim_string_slice_refuted : refuted row_string_slice.
Proof. exact prim_string_slice_refuted. Qed.
Print Assumptions C06_prim_string_slice_refuted.
Theorem C06_prim_st_string_slice_refuted : refuted row_st_string_slice.
Proof. exact prim_st_string_slice_refuted. Qed.
Print Assumptions C06_prim_st_string_slice_refuted.

(* Guard lemmas: the explicit checks of primitives.rs imply the callee's precondition. *)
Theorem C06_guarded_slice_safe : forall s a b rest,
  as_u64 a <= as_u64 b ->
  is_char_boundary s (as_u64 a) = true -> is_char_boundary s (as_u64 b) = true ->
  panics (PStrRange 0 1 2) (AStr s :: AInt a :: AInt b :: rest) = false /\ as_u64 b <= zlen s.
Proof. exact guarded_slice_safe. Qed.
Print Assumptions C06_guarded_slice_safe.

Theorem C06_guarded_split_safe : forall s i rest,
  is_char_boundary s (as_u64 i) = true -> panics (PStrSplit 0 1) (AStr s :: AInt i :: rest) = false.
Proof. exact guarded_split_safe. Qed.
Print Assumptions C06_guarded_split_safe.

Theorem C06_guarded_array_slice_safe : forall l a b rest,
  as_u64 a <= as_u64 b -> as_u64 b <= zlen l ->
  panics (PArrRange 0 1 2) (AArr l :: AInt a :: AInt b :: rest) = false.
Proof. exact guarded_array_slice_safe. Qed.
Print Assumptions C06_guarded_array_slice_safe.

(* Rows guarded today stay safe (over the regenerated table). *)
Theorem C06_guarded_today_safe : forall m n e args,
  In (m, n) guarded_today -> find_entry m n prim_table = Some e -> prim_eval e args <> HostPanic.
Proof. exact guarded_today_safe. Qed.
Print Assumptions C06_guarded_today_safe.

(* Every row of a modelled module has a clause of the model with the row's arity. *)
Theorem C06_coverage : forall e,
  In e prim_table -> modelled_module (e_mod e) = true ->
  exists c, callee_of e = Some c /\ List.length (c_sig c) = e_arity e.
Proof. exact coverage. Qed.
Print Assumptions C06_coverage.

(* ---- the stack after a failed top-level evaluation (Lib/StackReset.v) ---- *)

(* reset_stack leaves exactly the frames of the caller and does not remove any value. *)
Theorem C06_reset_frames_restored : forall before failed,
  extends before failed ->
  frames (reset_stack failed (List.length (frames before))) = frames before
  /\ nvalues (reset_stack failed (List.length (frames before))) = nvalues failed.
Proof. exact reset_frames_restored. Qed.
Print Assumptions C06_reset_frames_restored.

(* If the top level truncates the values (flag read from vm/src/thread.rs), a failed evaluation
   leaves the stack exactly as it found it. *)
Theorem C06_reset_restores : 
  top_level_truncates_values = true ->
  forall before failed, extends before failed -> fail_top top_level_truncates_values before failed = before.
Proof. exact reset_restores_current. Qed.
Print Assumptions C06_reset_restores.

(* If it does not, the stack is not restored ... *)
Theorem C06_reset_leaks_refuted :
  top_level_truncates_values = false ->
  exists before failed, extends before failed /\ fail_top top_level_truncates_values before failed <> before.
Proof. exact reset_leaks_current_refuted. Qed.
Print Assumptions C06_reset_leaks_refuted.

(* ... and n failing evaluations leave n times their values behind (unbounded growth), while with
   the truncation any number of failures leaves the stack unchanged. *)
Theorem C06_repeated_failures_grow : forall n s pf pv,
  nvalues (repeat_fail false n s pf pv) = (nvalues s + n * pv)%nat
  /\ frames (repeat_fail false n s pf pv) = frames s.
Proof. exact repeated_failures_grow. Qed.
Print Assumptions C06_repeated_failures_grow.

Theorem C06_repeated_failures_fixed : forall n s pf pv, repeat_fail true n s pf pv = s.
Proof. exact repeated_failures_fixed. Qed.
Print Assumptions C06_repeated_failures_fixed.
