(* C03 — pinned theorems.  This file contains statements, `exact`, and Print Assumptions only. *)
From Coq Require Import List.
From GV Require Import Lang.Infer Lang.InferProofs.
Import ListNotations.

(* The computed substitution unifies every equation, up to the order of record fields. *)
Theorem C03_unify_sound : forall fuel n eqs s n',
  unify fuel n eqs = Ok (s, n') ->
  Forall (fun p => teq (apply s (fst p)) (apply s (snd p))) eqs.
Proof. exact unify_sound. Qed.
Print Assumptions C03_unify_sound.

(* It is most general: every (syntactic) unifier th of the equations satisfies th o s = th. *)
Theorem C03_unify_mgu : forall fuel n eqs s n' th,
  unify fuel n eqs = Ok (s, n') ->
  Forall (fun p => tsubst th (fst p) = tsubst th (snd p)) eqs ->
  forall t, tsubst th (apply s t) = tsubst th t.
Proof. exact unify_mgu. Qed.
Print Assumptions C03_unify_mgu.

(* Unification never fails on equations that have a (syntactic) unifier. *)
Theorem C03_unify_complete : forall fuel n eqs th,
  Forall (fun p => tsubst th (fst p) = tsubst th (snd p)) eqs -> unify fuel n eqs <> Fail.
Proof. exact unify_complete. Qed.
Print Assumptions C03_unify_complete.

(* An answer does not depend on the amount of fuel. *)
Theorem C03_unify_fuel_mono : forall fuel n eqs r,
  unify fuel n eqs = r -> r <> OutOfFuel -> forall k, unify (fuel + k) n eqs = r.
Proof. exact unify_fuel_mono. Qed.
Print Assumptions C03_unify_fuel_mono.

(* Algorithm W is sound: the inferred type is derivable in the declarative system. *)
Theorem C03_infer_sound : forall fuel e s t n',
  infer fuel [] e 0 = Ok (s, t, n') -> has_type [] e t.
Proof. exact infer_sound. Qed.
Print Assumptions C03_infer_sound.

Theorem C03_infer_sound_env : forall e fuel G D n s t n',
  env_rel G D -> infer fuel G e n = Ok (s, t, n') -> has_type (dapply s D) e t.
Proof. exact infer_sound_gen. Qed.
Print Assumptions C03_infer_sound_env.

(* Principality: every type derivable without permuting record fields ([has_type_syn]) is a
   substitution instance of the inferred type.  Partial: the full statement
   ([infer_principal_full_stmt], against [has_type] with field permutation, instances up to
   [teq]) is not proved. *)
Theorem C03_infer_principal_partial : forall fuel e s t n',
  infer fuel [] e 0 = Ok (s, t, n') ->
  forall t', has_type_syn [] e t' -> exists th, t' = tsubst th t.
Proof. exact infer_principal_partial. Qed.
Print Assumptions C03_infer_principal_partial.

(* ... in any environment: the inferred type and substitution are most general. *)
Theorem C03_infer_principal_env_partial : forall e fuel G D n th t',
  cenv_rel G D -> env_below G n -> has_type_syn (dsubst th D) e t' ->
  infer fuel G e n = OutOfFuel \/
  exists s t n' th', infer fuel G e n = Ok (s, t, n') /\ t' = tsubst th' t /\
                     (forall x, x < n -> th x = tsubst th' (apply s (TVar x))).
Proof. exact infer_principal_gen. Qed.
Print Assumptions C03_infer_principal_env_partial.

(* Completeness: a term typable without permuting record fields is never rejected
   (the answer is a type or, with too little fuel, OutOfFuel). *)
Theorem C03_infer_complete_partial : forall fuel e t',
  has_type_syn [] e t' -> infer fuel [] e 0 <> Fail.
Proof. exact infer_complete_partial. Qed.
Print Assumptions C03_infer_complete_partial.

(* Completeness against the system with field permutation is false (as in unify_type.rs:497 two
   closed records with the same fields in a different order do not unify). *)
Theorem C03_infer_complete_full_refuted :
  exists e t', has_type [] e t' /\ forall fuel s t n', infer fuel [] e 0 <> Ok (s, t, n').
Proof. exact infer_complete_full_refuted. Qed.
Print Assumptions C03_infer_complete_full_refuted.

(* Unification terminates on equations without record types; with unify_fuel_mono every larger
   amount of fuel gives the same answer.  Partial: rows are not covered. *)
Theorem C03_unify_terminates_partial : forall eqs,
  simple_eqs eqs ->
  exists fuel0, forall fuel n, fuel0 <= fuel -> unify fuel n eqs <> OutOfFuel.
Proof. exact unify_terminates_partial. Qed.
Print Assumptions C03_unify_terminates_partial.

(* The triage functions run by the driver are sound. *)
Theorem C03_instance_of_sound : forall g t,
  instance_of g t = true -> exists th, teq (tsubst th g) t.
Proof. exact instance_of_sound. Qed.
Print Assumptions C03_instance_of_sound.

Theorem C03_alpha_eq_sound : forall t u,
  alpha_eq t u = true ->
  (exists th, teq (tsubst th t) u) /\ (exists th, teq (tsubst th u) t).
Proof. exact alpha_eq_sound. Qed.
Print Assumptions C03_alpha_eq_sound.

Theorem C03_canon_alpha : forall t,
  (exists r, teq (tsubst r t) (canon t)) /\ (exists r', teq (tsubst r' (canon t)) t).
Proof. exact canon_alpha. Qed.
Print Assumptions C03_canon_alpha.

(* Metamorphic clauses, on the model.  Alpha-equivalent programs ([aeq]: equal up to the names of
   bound variables, binders that had the same name may get different ones and vice versa) get the
   same substitution, type and type-variable numbering. *)
Theorem C03_infer_alpha : forall e e' fuel, aeq [] e e' -> infer_top fuel e = infer_top fuel e'.
Proof. exact infer_alpha. Qed.
Print Assumptions C03_infer_alpha.

Theorem C03_infer_alpha_env : forall m e e', aeq m e e' ->
  forall M fuel n, names M = m -> infer fuel (envL M) e n = infer fuel (envR M) e' n.
Proof. exact infer_alpha_gen. Qed.
Print Assumptions C03_infer_alpha_env.

(* An unused binding whose definition is typable (any expression, not only a literal) does not
   change acceptance, and the type is the type of the body with every type variable shifted by the
   number of variables the definition consumed - an injective renaming (C03_shift_inv). *)
Theorem C03_infer_unused_let : forall x e1 e2 fuel s1 t1 n1,
  occ x e2 = false -> infer fuel [] e1 0 = Ok (s1, t1, n1) ->
  infer fuel [] (ELet x e1 e2) 0 =
  match infer fuel [] e2 0 with
  | Ok (s2, t2, n2) => Ok (s1 ++ shift_sub n1 s2, shift n1 t2, n2 + n1)
  | Fail => Fail
  | OutOfFuel => OutOfFuel
  end.
Proof. exact infer_unused_let. Qed.
Print Assumptions C03_infer_unused_let.

Theorem C03_infer_top_unused_let : forall x e1 e2 fuel t1,
  occ x e2 = false -> infer_top fuel e1 = Ok t1 ->
  exists k, infer_top fuel (ELet x e1 e2) =
            match infer_top fuel e2 with Ok t2 => Ok (shift k t2) | Fail => Fail | OutOfFuel => OutOfFuel end.
Proof. exact infer_top_unused_let. Qed.
Print Assumptions C03_infer_top_unused_let.

Theorem C03_shift_inv : forall k t, tsubst (fun x => TVar (x - k)) (shift k t) = t.
Proof. exact shift_inv. Qed.
Print Assumptions C03_shift_inv.

(* Inference commutes with shifting all type variables and the counter. *)
Theorem C03_infer_shift : forall k e fuel G n,
  infer fuel (shift_env k G) e (n + k) = shift_ires k (infer fuel G e n).
Proof. exact infer_shift. Qed.
Print Assumptions C03_infer_shift.

(* The side condition of row unification: two rows that end in the same variable and need
   different fields from it do not unify (this is what keeps the row rewriting finite; full
   termination with rows, [unify_terminates_full_stmt], is not proved). *)
Theorem C03_unify_same_tail_fails : forall fuel n l l' a a' b rest,
  l <> l' ->
  unify (S fuel) n ((RCons l a (TVar b), RCons l' a' (TVar b)) :: rest) = Fail.
Proof. exact unify_same_tail_fails. Qed.
Print Assumptions C03_unify_same_tail_fails.
