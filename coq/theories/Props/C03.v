(* C03 — pinned theorems.  This file contains statements, `exact`, and Print Assumptions only. *)
From Coq Require Import List.
From GV Require Import Lang.Infer Lang.InferProofs.
Import ListNotations.

(* The computed substitution unifies every equation, up to the order of record fields. *)
Theorem C03_unify_sound : forall fuel n eqs s n',
  unify fuel n eqs = Ok (s, n') ->
  Forall (fun p => teq (apply s (fst p)) (apply s (snd p))) eqs.
Proof. exact unify_sound. Qed.
Print Assumptions C03_unify_sound.

(* It is most general: every (syntactic) unifier th of the equations satisfies th o s = th. *)
Theorem C03_unify_mgu : forall fuel n eqs s n' th,
  unify fuel n eqs = Ok (s, n') ->
  Forall (fun p => tsubst th (fst p) = tsubst th (snd p)) eqs ->
  forall t, tsubst th (apply s t) = tsubst th t.
Proof. exact unify_mgu. Qed.
Print Assumptions C03_unify_mgu.

(* Unification never fails on equations that have a (syntactic) unifier. *)
Theorem C03_unify_complete : forall fuel n eqs th,
  Forall (fun p => tsubst th (fst p) = tsubst th (snd p)) eqs -> unify fuel n eqs <> Fail.
Proof. exact unify_complete. Qed.
Print Assumptions C03_unify_complete.

(* An answer does not depend on the amount of fuel. *)
Theorem C03_unify_fuel_mono : forall fuel n eqs r,
  unify fuel n eqs = r -> r <> OutOfFuel -> forall k, unify (fuel + k) n eqs = r.
Proof. exact unify_fuel_mono. Qed.
Print Assumptions C03_unify_fuel_mono.

(* Algorithm W is sound: the inferred type is derivable in the declarative system. *)
Theorem C03_infer_sound : forall fuel e s t n',
  infer fuel [] e 0 = Ok (s, t, n') -> has_type [] e t.
Proof. exact infer_sound. Qed.
Print Assumptions C03_infer_sound.

Theorem C03_infer_sound_env : forall e fuel G D n s t n',
  env_rel G D -> infer fuel G e n = Ok (s, t, n') -> has_type (dapply s D) e t.
Proof. exact infer_sound_gen. Qed.
Print Assumptions C03_infer_sound_env.

(* Principality: every type derivable without permuting record fields ([has_type_syn]) is a
   substitution instance of the inferred type.  Partial: the full statement
   ([infer_principal_full_stmt], against [has_type] with field permutation, instances up to
   [teq]) is not proved. *)
Theorem C03_infer_principal_partial : forall fuel e s t n',
  infer fuel [] e 0 = Ok (s, t, n') ->
  forall t', has_type_syn [] e t' -> exists th, t' = tsubst th t.
Proof. exact infer_principal_partial. Qed.
Print Assumptions C03_infer_principal_partial.

(* ... in any environment: the inferred type and substitution are most general. *)
Theorem C03_infer_principal_env_partial : forall e fuel G D n th t',
  cenv_rel G D -> env_below G n -> has_type_syn (dsubst th D) e t' ->
  infer fuel G e n = OutOfFuel \/
  exists s t n' th', infer fuel G e n = Ok (s, t, n') /\ t' = tsubst th' t /\
                     (forall x, x < n -> th x = tsubst th' (apply s (TVar x))).
Proof. exact infer_principal_gen. Qed.
Print Assumptions C03_infer_principal_env_partial.

(* Completeness: a term typable without permuting record fields is never rejected
   (the answer is a type or, with too little fuel, OutOfFuel). *)
Theorem C03_infer_complete_partial : forall fuel e t',
  has_type_syn [] e t' -> infer fuel [] e 0 <> Fail.
Proof. exact infer_complete_partial. Qed.
Print Assumptions C03_infer_complete_partial.

(* Completeness against the system with field permutation is false (as in unify_type.rs:497 two
   closed records with the same fields in a different order do not unify). *)
Theorem C03_infer_complete_full_refuted :
  exists e t', has_type [] e t' /\ forall fuel s t n', infer fuel [] e 0 <> Ok (s, t, n').
Proof. exact infer_complete_full_refuted. Qed.
Print Assumptions C03_infer_complete_full_refuted.

(* Unification terminates on equations without record types; with unify_fuel_mono every larger
   amount of fuel gives the same answer.  Partial: rows are not covered. *)
Theorem C03_unify_terminates_partial : forall eqs,
  simple_eqs eqs ->
  exists fuel0, forall fuel n, fuel0 <= fuel -> unify fuel n eqs <> OutOfFuel.
Proof. exact unify_terminates_partial. Qed.
Print Assumptions C03_unify_terminates_partial.

(* The triage functions run by the driver are sound. *)
Theorem C03_instance_of_sound : forall g t,
  instance_of g t = true -> exists th, teq (tsubst th g) t.
Proof. exact instance_of_sound. Qed.
Print Assumptions C03_instance_of_sound.

Theorem C03_alpha_eq_sound : forall t u,
  alpha_eq t u = true ->
  (exists th, teq (tsubst th t) u) /\ (exists th, teq (tsubst th u) t).
Proof. exact alpha_eq_sound. Qed.
Print Assumptions C03_alpha_eq_sound.

Theorem C03_canon_alpha : forall t,
  (exists r, teq (tsubst r t) (canon t)) /\ (exists r', teq (tsubst r' (canon t)) t).
Proof. exact canon_alpha. Qed.
Print Assumptions C03_canon_alpha.

(* Metamorphic clauses, on the model.  Renaming the program's variables by an injective map
   changes nothing (partial: alpha-renaming that gives different names to binders that had the
   same name is not covered). *)
Theorem C03_infer_alpha_partial : forall f, (forall x y, f x = f y -> x = y) ->
  forall e fuel G n, infer fuel (ren_env f G) (ren_expr f e) n = infer fuel G e n.
Proof. exact infer_alpha_partial. Qed.
Print Assumptions C03_infer_alpha_partial.

(* An unused literal binding changes nothing (partial: for an arbitrary typable unused definition
   the result is the same only up to renaming of type variables; [infer_unused_let_full_stmt]). *)
Theorem C03_infer_unused_let_partial : forall x e fuel G n,
  occ x e = false ->
  infer fuel G (ELet x EInt e) n = infer fuel G e n /\
  infer fuel G (ELet x EStr e) n = infer fuel G e n.
Proof. exact infer_unused_let_partial. Qed.
Print Assumptions C03_infer_unused_let_partial.
