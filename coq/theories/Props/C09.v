(* C09 — the front end is total: pinned theorems about the tokenizer model Front/Lexer.v
   (byte-level port of parser/src/token.rs + str_suffix.rs).  The booleans [fx], [sp] and the first
   argument of [unescape] select the tree: [false] = as found, [true] = after
   fixes/C09-lexer-non-ascii.patch, C09-int-literal-span.patch, C08-builtin-operator-span.patch ([ob]),
   C09-unescape-invalid-escape.patch.
   This file contains statements, `exact`, and Print Assumptions only. *)
From Coq Require Import List NArith ZArith.
From GV Require Import Base.Utf8N Front.Lexer Front.LexerProofs Front.LexerUtf8Proofs.
Import ListNotations.

(* No loop of the tokenizer runs out of fuel: |input|+1 iterations of Tokenizer::next and
   |remaining|+1 iterations of the string / block-comment loops suffice (each consumes >= 1 byte). *)
Theorem C09_lex_terminates : forall (fx sp ob : bool) (input : list byte), lex fx sp ob input <> Fuel.
Proof. exact lex_terminates. Qed.
Print Assumptions C09_lex_terminates.

(* 0 <= a1 <= b1 <= a2 <= b2 <= ... <= |input| for the spans of the results of Tokenizer::next in
   order (in bounds, ordered, non-overlapping); every side error has start <= end <= |input|. *)
Theorem C09_lex_spans_in_bounds : forall (fx sp ob : bool) (input : list byte) items errs,
  lex fx sp ob input = Ok (items, errs) ->
  fwd_ok 0 items (length input) /\
  Forall (fun e => e_start e <= e_end e /\ e_end e <= length input) errs.
Proof. exact lex_spans_in_bounds. Qed.
Print Assumptions C09_lex_spans_in_bounds.

(* On pure ASCII input the tokenizer neither panics nor diverges. *)
Theorem C09_lex_no_panic_ascii : forall (fx sp ob : bool) (input : list byte),
  all_ascii input = true -> exists r, lex fx sp ob input = Ok r.
Proof. exact lex_no_panic_ascii. Qed.
Print Assumptions C09_lex_no_panic_ascii.

(* The full statement (every valid UTF-8 input) is false of the tree as found: 'é' alone panics in
   restore_char (str_suffix.rs:83). *)
Theorem C09_lex_no_panic_refuted :
  exists input, utf8_valid input = true /\ lex false false false input = Panic PRestoreChar.
Proof. exact lex_no_panic_refuted. Qed.
Print Assumptions C09_lex_no_panic_refuted.

Theorem C09_lex_no_panic_false_today : ~ lex_no_panic_full_stmt false false false.
Proof. exact lex_no_panic_false_today. Qed.
Print Assumptions C09_lex_no_panic_false_today.

(* "\é" : slicing the input inside a character (token.rs:423) *)
Theorem C09_lex_no_panic_refuted_string :
  exists input, utf8_valid input = true /\ lex false false false input = Panic PSlice.
Proof. exact lex_no_panic_refuted_string. Qed.
Print Assumptions C09_lex_no_panic_refuted_string.

(* U+00A0 + blank: no panic, but the UnexpectedChar error covers the first byte only *)
Theorem C09_lex_spans_on_boundaries_refuted :
  exists input items errs e,
    utf8_valid input = true /\ lex false false false input = Ok (items, errs) /\ In e errs /\
    is_char_boundary input (e_end e) = false.
Proof. exact lex_spans_on_boundaries_refuted. Qed.
Print Assumptions C09_lex_spans_on_boundaries_refuted.

Theorem C09_lex_spans_on_boundaries_ascii : forall (fx sp ob : bool) (input : list byte) items errs,
  all_ascii input = true -> lex fx sp ob input = Ok (items, errs) ->
  Forall (fun i => span_on_boundaries input (fst (span i)) (snd (span i))) items /\
  Forall (fun e => span_on_boundaries input (e_start e) (e_end e)) errs.
Proof. exact lex_spans_on_boundaries_ascii. Qed.
Print Assumptions C09_lex_spans_on_boundaries_ascii.

(* The positive statements hold of the tree with C09-lexer-non-ascii.patch ([fx = true]): on every
   valid UTF-8 input no step panics or diverges ... *)
Theorem C09_lex_no_panic_fixed : forall (sp ob : bool) (input : list byte),
  utf8_valid input = true -> exists r, lex true sp ob input = Ok r.
Proof. exact lex_no_panic_fixed. Qed.
Print Assumptions C09_lex_no_panic_fixed.

(* ... and every reported span (tokens, fatal errors, side errors) lies on character boundaries. *)
Theorem C09_lex_spans_on_boundaries_fixed : forall (sp ob : bool) (input : list byte) items errs,
  utf8_valid input = true -> lex true sp ob input = Ok (items, errs) ->
  Forall (fun i => span_on_boundaries input (fst (span i)) (snd (span i))) items /\
  Forall (fun e => span_on_boundaries input (e_start e) (e_end e)) errs.
Proof. exact lex_spans_on_boundaries_fixed. Qed.
Print Assumptions C09_lex_spans_on_boundaries_fixed.

(* StringLiteral::unescape (applied by the grammar to every escaped string token) *)
Theorem C09_unescape_total_partial : forall (fx : bool) (s : list byte),
  escapes_ok s = true -> exists r, unescape fx s = Ok r.
Proof. exact unescape_total_partial. Qed.
Print Assumptions C09_unescape_total_partial.

Theorem C09_unescape_total_fixed : forall s : list byte, exists r, unescape true s = Ok r.
Proof. exact unescape_total_fixed. Qed.
Print Assumptions C09_unescape_total_fixed.

(* "\q" : the tokenizer recovers (UnexpectedEscapeCode), the grammar's unescape panics *)
Theorem C09_unescape_total_refuted :
  exists input items errs a b t,
    all_ascii input = true /\ lex false false false input = Ok (items, errs) /\
    In (ITok (TStr false t) a b) items /\ unescape false t = Panic PInvalidEscape.
Proof. exact unescape_total_refuted. Qed.
Print Assumptions C09_unescape_total_refuted.

(* a string ending in a backslash: index out of bounds (token.rs:215) *)
Theorem C09_unescape_total_refuted_eof :
  exists input items errs a b t,
    all_ascii input = true /\ lex false false false input = Ok (items, errs) /\
    In (ITok (TStr false t) a b) items /\ unescape false t = Panic PIndex.
Proof. exact unescape_total_refuted_eof. Qed.
Print Assumptions C09_unescape_total_refuted_eof.
