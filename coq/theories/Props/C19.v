(* C19 — pinned theorems.  This file contains statements, `exact`, and Print Assumptions only.
   MapGen / ListGen are regenerated from /repo/std/map.glu and /repo/std/list.glu on every run;
   "compare is a total order" ([ord_ok], Lib/StdSpec.v) is an explicit premise. *)
From Coq Require Import List ZArith Sorted Permutation.
From GVgen Require Import MapGen ListGen.
From GV Require Import Lib.StdSpec Lib.MapProofs Lib.ListProofs.
Import ListNotations.

(* ---- std.map is a finite map ordered by key ---- *)

Theorem C19_find_insert_eq : forall (K : Type) (cmp : K -> K -> comparison) (V : Type),
  ord_ok cmp -> forall k k' (v : V) m,
  cmp k' k = Eq -> MapGen.find cmp k' (MapGen.insert cmp k v m) = Some v.
Proof. exact find_insert_eq. Qed.
Print Assumptions C19_find_insert_eq.

Theorem C19_find_insert_neq : forall (K : Type) (cmp : K -> K -> comparison) (V : Type),
  ord_ok cmp -> forall k k' (v : V) m,
  cmp k' k <> Eq -> MapGen.find cmp k' (MapGen.insert cmp k v m) = MapGen.find cmp k' m.
Proof. exact find_insert_neq. Qed.
Print Assumptions C19_find_insert_neq.

Theorem C19_insert_bst : forall (K : Type) (cmp : K -> K -> comparison) (V : Type),
  ord_ok cmp -> forall k (v : V) m, bst cmp m -> bst cmp (MapGen.insert cmp k v m).
Proof. exact insert_bst. Qed.
Print Assumptions C19_insert_bst.

Theorem C19_to_list_sorted : forall (K : Type) (cmp : K -> K -> comparison) (V : Type),
  ord_ok cmp -> forall m : Map K V, bst cmp m -> StronglySorted (key_lt cmp) (MapGen.to_list m).
Proof. exact to_list_sorted. Qed.
Print Assumptions C19_to_list_sorted.

Theorem C19_to_list_find : forall (K : Type) (cmp : K -> K -> comparison) (V : Type),
  ord_ok cmp -> forall (m : Map K V) k v, bst cmp m ->
  (MapGen.find cmp k m = Some v <-> exists k', cmp k k' = Eq /\ In (k', v) (MapGen.to_list m)).
Proof. exact to_list_find. Qed.
Print Assumptions C19_to_list_find.

(* for every list of (k, v) insertions, find returns the last binding of k *)
Theorem C19_map_refines_assoc : forall (K : Type) (cmp : K -> K -> comparison) (V : Type),
  ord_ok cmp -> forall (ops : list (K * V)) k,
  MapGen.find cmp k (insert_all cmp ops Tip) = assoc_last cmp k ops.
Proof. exact map_refines_assoc. Qed.
Print Assumptions C19_map_refines_assoc.

Theorem C19_map_run_sorted : forall (K : Type) (cmp : K -> K -> comparison) (V : Type),
  ord_ok cmp -> forall ops : list (K * V),
  StronglySorted (key_lt cmp) (MapGen.to_list (insert_all cmp ops Tip)).
Proof. exact run_sorted. Qed.
Print Assumptions C19_map_run_sorted.

(* ---- std.list ---- *)

Theorem C19_sort_fuel_enough : forall (A : Type) (cmp : A -> A -> comparison) fuel xs,
  length xs < fuel -> exists r, ListGen.sort_fuel cmp fuel xs = Done r.
Proof. exact sort_fuel_enough. Qed.
Print Assumptions C19_sort_fuel_enough.

Theorem C19_sort_perm : forall (A : Type) (cmp : A -> A -> comparison) fuel xs r,
  ListGen.sort_fuel cmp fuel xs = Done r -> Permutation xs r.
Proof. exact sort_perm. Qed.
Print Assumptions C19_sort_perm.

Theorem C19_sort_sorted : forall (A : Type) (cmp : A -> A -> comparison),
  ord_ok cmp -> forall fuel xs r,
  ListGen.sort_fuel cmp fuel xs = Done r -> StronglySorted (le_of cmp) r.
Proof. exact sort_sorted. Qed.
Print Assumptions C19_sort_sorted.

Theorem C19_sort_correct : forall (A : Type) (cmp : A -> A -> comparison),
  ord_ok cmp -> forall xs,
  exists r, sort cmp xs = Done r /\ StronglySorted (le_of cmp) r /\ Permutation xs r.
Proof. exact sort_correct. Qed.
Print Assumptions C19_sort_correct.

Theorem C19_filter_spec : forall (A : Type) (p : A -> bool) xs,
  ListGen.filter p xs = List.filter p xs.
Proof. exact filter_spec. Qed.
Print Assumptions C19_filter_spec.
