(* C19 — pinned theorems.  This file contains statements, `exact`, and Print Assumptions only.
   MapGen / ListGen are regenerated from /repo/std/map.glu and /repo/std/list.glu on every run;
   "compare is a total order" ([ord_ok], Lib/StdSpec.v) is an explicit premise. *)
From Coq Require Import List ZArith Sorted Permutation.
From GVgen Require Import MapGen ListGen.
From GV Require Import Lib.StdSpec Lib.MapProofs Lib.MapMoreProofs Lib.ListProofs Lib.StdModel Lib.StdModelProofs.
From GV Require Import Lib.Derive Lib.DeriveProofs Lib.Strings Lib.StringsProofs Lib.Json Lib.JsonProofs.
Import ListNotations.

(* ---- std.map is a finite map ordered by key ---- *)

Theorem C19_find_insert_eq : forall (K : Type) (cmp : K -> K -> comparison) (V : Type),
  ord_ok cmp -> forall k k' (v : V) m,
  cmp k' k = Eq -> MapGen.find cmp k' (MapGen.insert cmp k v m) = Some v.
Proof. exact find_insert_eq. Qed.
Print Assumptions C19_find_insert_eq.

Theorem C19_find_insert_neq : forall (K : Type) (cmp : K -> K -> comparison) (V : Type),
  ord_ok cmp -> forall k k' (v : V) m,
  cmp k' k <> Eq -> MapGen.find cmp k' (MapGen.insert cmp k v m) = MapGen.find cmp k' m.
Proof. exact find_insert_neq. Qed.
Print Assumptions C19_find_insert_neq.

Theorem C19_insert_bst : forall (K : Type) (cmp : K -> K -> comparison) (V : Type),
  ord_ok cmp -> forall k (v : V) m, bst cmp m -> bst cmp (MapGen.insert cmp k v m).
Proof. exact insert_bst. Qed.
Print Assumptions C19_insert_bst.

Theorem C19_to_list_sorted : forall (K : Type) (cmp : K -> K -> comparison) (V : Type),
  ord_ok cmp -> forall m : Map K V, bst cmp m -> StronglySorted (key_lt cmp) (MapGen.to_list m).
Proof. exact to_list_sorted. Qed.
Print Assumptions C19_to_list_sorted.

Theorem C19_to_list_find : forall (K : Type) (cmp : K -> K -> comparison) (V : Type),
  ord_ok cmp -> forall (m : Map K V) k v, bst cmp m ->
  (MapGen.find cmp k m = Some v <-> exists k', cmp k k' = Eq /\ In (k', v) (MapGen.to_list m)).
Proof. exact to_list_find. Qed.
Print Assumptions C19_to_list_find.

(* for every list of (k, v) insertions, find returns the last binding of k *)
Theorem C19_map_refines_assoc : forall (K : Type) (cmp : K -> K -> comparison) (V : Type),
  ord_ok cmp -> forall (ops : list (K * V)) k,
  MapGen.find cmp k (insert_all cmp ops Tip) = assoc_last cmp k ops.
Proof. exact map_refines_assoc. Qed.
Print Assumptions C19_map_refines_assoc.

Theorem C19_map_run_sorted : forall (K : Type) (cmp : K -> K -> comparison) (V : Type),
  ord_ok cmp -> forall ops : list (K * V),
  StronglySorted (key_lt cmp) (MapGen.to_list (insert_all cmp ops Tip)).
Proof. exact run_sorted. Qed.
Print Assumptions C19_map_run_sorted.

(* ---- the rest of std.map's interface: map, map_with_key, keys, values, append ---- *)

Theorem C19_map_find_fmap : forall (K : Type) (cmp : K -> K -> comparison) (A B : Type) (f : A -> B) k (m : Map K A),
  MapGen.find cmp k (MapGen.map f m) = option_map f (MapGen.find cmp k m).
Proof. exact find_fmap. Qed.
Print Assumptions C19_map_find_fmap.

Theorem C19_map_fmap_bst : forall (K : Type) (cmp : K -> K -> comparison) (A B : Type) (f : A -> B) (m : Map K A),
  bst cmp m -> bst cmp (MapGen.map f m).
Proof. exact fmap_bst. Qed.
Print Assumptions C19_map_fmap_bst.

Theorem C19_map_to_list_fmap : forall (K A B : Type) (f : A -> B) (m : Map K A),
  MapGen.to_list (MapGen.map f m) = List.map (fun kv => (fst kv, f (snd kv))) (MapGen.to_list m).
Proof. exact to_list_fmap. Qed.
Print Assumptions C19_map_to_list_fmap.

Theorem C19_map_to_list_map_with_key : forall (K A B : Type) (f : K -> A -> B) (m : Map K A),
  MapGen.to_list (MapGen.map_with_key f m) =
  List.map (fun kv => (fst kv, f (fst kv) (snd kv))) (MapGen.to_list m).
Proof. exact to_list_map_with_key. Qed.
Print Assumptions C19_map_to_list_map_with_key.

Theorem C19_map_with_key_bst : forall (K : Type) (cmp : K -> K -> comparison) (A B : Type) (f : K -> A -> B) (m : Map K A),
  bst cmp m -> bst cmp (MapGen.map_with_key f m).
Proof. exact map_with_key_bst. Qed.
Print Assumptions C19_map_with_key_bst.

Theorem C19_map_keys_values : forall (K V : Type) (m : Map K V),
  MapGen.keys m = List.map fst (MapGen.to_list m) /\
  MapGen.values m = List.map snd (MapGen.to_list m).
Proof. exact keys_values_to_list. Qed.
Print Assumptions C19_map_keys_values.

(* append l r behaves like the right-biased union: a key bound in r takes r's value, any other
   key keeps what l says, and nothing else appears *)
Theorem C19_map_find_append : forall (K : Type) (cmp : K -> K -> comparison),
  ord_ok cmp -> forall (V : Type) x (r l : Map K V), bst cmp r ->
  MapGen.find cmp x (MapGen.append cmp l r) =
  match MapGen.find cmp x r with Some v => Some v | None => MapGen.find cmp x l end.
Proof. exact find_append. Qed.
Print Assumptions C19_map_find_append.

Theorem C19_map_append_bst : forall (K : Type) (cmp : K -> K -> comparison),
  ord_ok cmp -> forall (V : Type) (r l : Map K V),
  bst cmp l -> bst cmp (MapGen.append cmp l r).
Proof. exact append_bst. Qed.
Print Assumptions C19_map_append_bst.

(* Foldable (Map k): foldr / foldl visit the values in increasing key order *)
Theorem C19_map_foldr_key_order : forall (K V B : Type) (f : V -> B -> B) z (m : Map K V),
  MapGen.foldr f z m = fold_right f z (MapGen.values m).
Proof. exact foldr_key_order. Qed.
Print Assumptions C19_map_foldr_key_order.

Theorem C19_map_foldl_key_order : forall (K V B : Type) (f : B -> V -> B) z (m : Map K V),
  MapGen.foldl f z m = fold_left f (MapGen.values m) z.
Proof. exact foldl_key_order. Qed.
Print Assumptions C19_map_foldl_key_order.

(* ---- std.list ---- *)

Theorem C19_sort_fuel_enough : forall (A : Type) (cmp : A -> A -> comparison) fuel xs,
  length xs < fuel -> exists r, ListGen.sort_fuel cmp fuel xs = Done r.
Proof. exact sort_fuel_enough. Qed.
Print Assumptions C19_sort_fuel_enough.

Theorem C19_sort_perm : forall (A : Type) (cmp : A -> A -> comparison) fuel xs r,
  ListGen.sort_fuel cmp fuel xs = Done r -> Permutation xs r.
Proof. exact sort_perm. Qed.
Print Assumptions C19_sort_perm.

Theorem C19_sort_sorted : forall (A : Type) (cmp : A -> A -> comparison),
  ord_ok cmp -> forall fuel xs r,
  ListGen.sort_fuel cmp fuel xs = Done r -> StronglySorted (le_of cmp) r.
Proof. exact sort_sorted. Qed.
Print Assumptions C19_sort_sorted.

Theorem C19_sort_correct : forall (A : Type) (cmp : A -> A -> comparison),
  ord_ok cmp -> forall xs,
  exists r, sort cmp xs = Done r /\ StronglySorted (le_of cmp) r /\ Permutation xs r.
Proof. exact sort_correct. Qed.
Print Assumptions C19_sort_correct.

Theorem C19_filter_spec : forall (A : Type) (p : A -> bool) xs,
  ListGen.filter p xs = List.filter p xs.
Proof. exact filter_spec. Qed.
Print Assumptions C19_filter_spec.

(* std.list's semigroup append (what `<>` resolves to at List) is list concatenation, and filter
   keeps exactly the members satisfying the predicate *)
Theorem C19_list_append_app : forall (A : Type) (xs ys : list A),
  ListGen.append xs ys = xs ++ ys.
Proof. exact append_app. Qed.
Print Assumptions C19_list_append_app.

Theorem C19_filter_In : forall (A : Type) (p : A -> bool) x xs,
  In x (ListGen.filter p xs) <-> In x xs /\ p x = true.
Proof. exact filter_In. Qed.
Print Assumptions C19_filter_In.

(* the instance run by the correspondence harness *)
Theorem C19_Zcompare_ord_ok : ord_ok Z.compare.
Proof. exact Zcompare_ord_ok. Qed.
Print Assumptions C19_Zcompare_ord_ok.

Theorem C19_zsort_correct : forall xs,
  exists r, zsort xs = Done r /\ StronglySorted Z.le r /\ Permutation xs r.
Proof. exact zsort_correct. Qed.
Print Assumptions C19_zsort_correct.

(* ---- derived Eq / Show (Lib/Derive.v models vm/src/derive/eq.rs, show.rs) ---- *)

Theorem C19_derive_eq_structural : forall e x g y,
  wt e g x = true -> wt e g y = true -> (deq e g x y = true <-> x = y).
Proof. exact derive_eq_structural. Qed.
Print Assumptions C19_derive_eq_structural.

(* Show is injective when no string of the values contains a quote character ... *)
Theorem C19_derive_show_injective_partial : forall e g x y,
  env_ok e = true -> wt e g x = true -> wt e g y = true ->
  quote_free x = true -> quote_free y = true ->
  dshow e g x = dshow e g y -> x = y.
Proof. exact derive_show_injective. Qed.
Print Assumptions C19_derive_show_injective_partial.

(* ... and not in general: std.string's show does not escape (known finding). *)
Theorem C19_derive_show_injective_refuted : exists e g x y,
  env_ok e = true /\ wt e g x = true /\ wt e g y = true /\ dshow e g x = dshow e g y /\ x <> y.
Proof. exact derive_show_injective_refuted. Qed.
Print Assumptions C19_derive_show_injective_refuted.

(* ---- strings: byte offsets over Unicode scalar values ---- *)

Theorem C19_str_len_is_utf8_length : forall s, slen s = length (bytes s).
Proof. exact slen_bytes. Qed.
Print Assumptions C19_str_len_is_utf8_length.

Theorem C19_str_split_at_sound : forall s i a b,
  split_at s i = Some (a, b) -> s = a ++ b /\ slen a = i.
Proof. exact split_at_sound. Qed.
Print Assumptions C19_str_split_at_sound.

Theorem C19_str_split_at_complete : forall a b, split_at (a ++ b) (slen a) = Some (a, b).
Proof. exact split_at_complete. Qed.
Print Assumptions C19_str_split_at_complete.

Theorem C19_str_slice_spec : forall s a b q,
  slice s a b = Some q -> exists p r, s = p ++ q ++ r /\ slen p = a /\ slen (p ++ q) = b.
Proof. exact slice_spec. Qed.
Print Assumptions C19_str_slice_spec.

Theorem C19_str_find_sound : forall s p i,
  sfind s p = Some i -> exists a b, s = a ++ p ++ b /\ slen a = i.
Proof. exact find_sound. Qed.
Print Assumptions C19_str_find_sound.

Theorem C19_str_find_first : forall s p i,
  sfind s p = Some i -> forall a b, s = a ++ p ++ b -> i <= slen a.
Proof. exact find_first. Qed.
Print Assumptions C19_str_find_first.

Theorem C19_str_find_none : forall s p, sfind s p = None -> forall a b, s <> a ++ p ++ b.
Proof. exact find_none. Qed.
Print Assumptions C19_str_find_none.

Theorem C19_str_trim_start_spec : forall s,
  exists w, s = w ++ trim_start s /\ forallb is_ws w = true /\
            match trim_start s with [] => True | c :: _ => is_ws c = false end.
Proof. exact trim_start_spec. Qed.
Print Assumptions C19_str_trim_start_spec.

Theorem C19_str_eqb_spec : forall s t, str_eqb s t = true <-> s = t.
Proof. exact str_eqb_spec. Qed.
Print Assumptions C19_str_eqb_spec.

(* ---- JSON: reading back what was written is the identity ---- *)

(* floats are opaque number tokens; [wf] = every float token is a non-integer number token
   (checked on every generated case by the model driver) *)
Theorem C19_json_de_ser : forall v, wf v = true -> de (ser v) = Some v.
Proof. exact json_de_ser. Qed.
Print Assumptions C19_json_de_ser.
