(* The verified validator of C10: a byte-level scanner that extracts the comments and the literal
   texts of a Gluon source, and the checker [fmt_check src out] that the formatter's output must
   pass (same comments in the same order, same literals byte for byte).
   Definitions only (executable, extracted by coq/extract/c10); proofs are in FmtCheckProofs.v.

   The scanner follows the token-start dispatch of parser/src/token.rs:781-842 closely enough to
   know what is a comment, a string, a raw string, a character or a numeric literal:
     * `//` and `/*` start a comment only at a token start, not inside an operator run
       (`a +// b` is the operator `+//`, token.rs:463 take_while(is_operator_byte));
     * `///…` and `/**…*/` (longer than `/***/`) are documentation-comment TOKENS (token.rs:426,
       :453); they are part of the syntax tree and are covered by the tree comparison, so they
       are not reported as comments here;
     * `-` directly followed by a digit at a token start begins a numeric literal (token.rs:829);
     * raw strings (r, hashes, double quote ... double quote, hashes) with the delimiter counting
       loop of token.rs:579-606;
     * a `'` inside an identifier (`x'`) does not start a character literal.
   Its agreement with the real tokenizer is checked on every case by the harness (implementation
   side: gluon_parser::verif::tokens). *)
From Coq Require Import List NArith Bool Arith.
From GV Require Import Front.CommentIter.
Import ListNotations.

Inductive item :=
| IComment (text : bytes)
| ILit (text : bytes).

Definition in_range (lo hi b : N) : bool := N.leb lo b && N.leb b hi.
Definition is_digit (b : N) : bool := in_range 48 57 b.
Definition is_hex (b : N) : bool := is_digit b || in_range 97 102 b || in_range 65 70 b.
(* token.rs:287 *)
Definition is_ident_start (b : N) : bool := N.eqb b 95 || in_range 97 122 b || in_range 65 90 b.
(* token.rs:295 *)
Definition is_ident_continue (b : N) : bool := is_digit b || N.eqb b 39 || is_ident_start b.
(* token.rs:1173  ! # $ % & * + - . / < = > ? @ \ ^ | ~ : *)
Definition is_operator_byte (b : N) : bool :=
  existsb (N.eqb b) [33; 35; 36; 37; 38; 42; 43; 45; 46; 47; 60; 61; 62; 63; 64; 92; 94; 124; 126; 58]%N.
(* , \ { [ ( } ] ) ?  are single-byte tokens (token.rs:784-792) *)
Definition is_single (b : N) : bool := existsb (N.eqb b) [44; 92; 123; 91; 40; 125; 93; 41; 63]%N.

Inductive numk := NInt | NFrac | NHex.

Inductive st :=
| Start                                   (* first byte of the file: `#!` is a shebang line *)
| Code                                    (* at a token start *)
| Ident
| Op                                      (* inside an operator run *)
| Hash (at_start : bool)                  (* the run is exactly "#" so far *)
| HashName                                (* "#" followed by letters: `#Int` of `#Int+` *)
| SawSlash
| SawMinus
| SawR
| Num (k : numk) (acc : bytes)            (* acc: the literal so far, reversed *)
| LineC (acc : bytes)
| BlockC (acc : bytes) (star : bool)      (* star: the previous byte is a `*` that is not the opening one *)
| Str (acc : bytes) (esc : bool)
| RawHashes (acc : bytes) (n : nat)
| RawBody (acc : bytes) (n : nat)
| RawClose (acc : bytes) (n found : nat)
| Chr0 (acc : bytes)                      (* after the opening quote *)
| ChrEsc (acc : bytes)                    (* after the backslash *)
| ChrEnd (acc : bytes)                    (* the closing quote is expected *)
| Shebang
| Dead.                                   (* fatal tokenizer error: the rest is skipped (token.rs:377) *)

(* A comment is reported unless it is a documentation comment. *)
Definition line_comment_item (text : bytes) : list item :=
  if starts_with SSS text then [] else [IComment text].
Definition block_comment_item (text : bytes) : list item :=
  if starts_with [SLASH; STAR; STAR] text && (6 <=? length text) then [] else [IComment text].

(* dispatch on the first byte of a token (token.rs:781-842) *)
Definition code_step (c : N) : st * list item :=
  if is_single c then (Code, [])
  else if N.eqb c 114 then (SawR, [])                 (* r *)
  else if N.eqb c 34 then (Str [c] false, [])          (* double quote *)
  else if N.eqb c 39 then (Chr0 [c], [])               (* single quote *)
  else if N.eqb c SLASH then (SawSlash, [])
  else if N.eqb c 35 then (Hash false, [])             (* # *)
  else if is_ident_start c then (Ident, [])
  else if is_digit c then (Num NInt [c], [])
  else if N.eqb c 45 then (SawMinus, [])               (* - *)
  else if is_operator_byte c then (Op, [])
  else (Code, []).                                     (* white space; anything else is an error that is skipped *)

Definition op_step (c : N) : st * list item :=
  if is_operator_byte c then (Op, []) else code_step c.

Definition ident_step (c : N) : st * list item :=
  if is_ident_continue c then (Ident, [])
  else if N.eqb c 33 then (Code, [])                   (* `name!` macro identifier, token.rs:753 *)
  else code_step c.

Definition step (s : st) (c : N) : st * list item :=
  match s with
  | Start => if N.eqb c 35 then (Hash true, []) else code_step c
  | Code => code_step c
  | Ident => ident_step c
  | Op => op_step c
  | Hash at_start =>
      if N.eqb c 91 then (Code, [])                    (* `#[` *)
      else if at_start && N.eqb c 33 then (Shebang, [])  (* `#!` at the start of the file *)
      else if is_operator_byte c then (Op, [])
      else if is_ident_start c then (HashName, [])     (* token.rs:469 *)
      else code_step c
  | HashName =>
      if is_ident_start c then (HashName, [])
      else if is_operator_byte c then (Op, [])
      else code_step c
  | SawSlash =>
      if N.eqb c SLASH then (LineC [c; SLASH], [])
      else if N.eqb c STAR then (BlockC [c; SLASH] false, [])
      else op_step c
  | SawMinus =>
      if is_digit c then (Num NInt [c; 45%N], []) else op_step c
  | SawR =>
      if N.eqb c 34 then (RawBody [c; 114%N] 0, [])
      else if N.eqb c 35 then (RawHashes [c; 114%N] 1, [])
      else ident_step c
  | Num NInt acc =>
      if is_digit c then (Num NInt (c :: acc), [])
      else if N.eqb c 46 then (Num NFrac (c :: acc), [])       (* . *)
      else if N.eqb c 120 then (Num NHex (c :: acc), [])       (* x *)
      else if N.eqb c 98 then (Code, [ILit (rev (c :: acc))])  (* b *)
      else let '(s', out) := code_step c in (s', ILit (rev acc) :: out)
  | Num NFrac acc =>
      if is_digit c then (Num NFrac (c :: acc), [])
      else let '(s', out) := code_step c in (s', ILit (rev acc) :: out)
  | Num NHex acc =>
      if is_hex c then (Num NHex (c :: acc), [])
      else let '(s', out) := code_step c in (s', ILit (rev acc) :: out)
  | LineC acc =>
      if N.eqb c NL then (Code, line_comment_item (rev acc)) else (LineC (c :: acc), [])
  | BlockC acc star =>
      if star && N.eqb c SLASH then (Code, block_comment_item (rev (c :: acc)))
      else (BlockC (c :: acc) (N.eqb c STAR), [])
  | Str acc esc =>
      if esc then (Str (c :: acc) false, [])
      else if N.eqb c 92 then (Str (c :: acc) true, [])
      else if N.eqb c 34 then (Code, [ILit (rev (c :: acc))])
      else (Str (c :: acc) false, [])
  | RawHashes acc n =>
      if N.eqb c 35 then (RawHashes (c :: acc) (S n), [])
      else if N.eqb c 34 then (RawBody (c :: acc) n, [])
      else (Dead, [])
  | RawBody acc n =>
      if N.eqb c 34 then
        match n with
        | O => (Code, [ILit (rev (c :: acc))])
        | S _ => (RawClose (c :: acc) n 0, [])
        end
      else (RawBody (c :: acc) n, [])
  | RawClose acc n found =>
      if N.eqb c 35 then
        (if Nat.eqb (S found) n then (Code, [ILit (rev (c :: acc))]) else (RawClose (c :: acc) n (S found), []))
      else if N.eqb c 34 then (RawClose (c :: acc) n 0, [])
      else (RawBody (c :: acc) n, [])
  | Chr0 acc =>
      if N.eqb c 92 then (ChrEsc (c :: acc), [])
      else if N.eqb c 39 then (Code, [])                (* empty character literal: an error *)
      else (ChrEnd (c :: acc), [])
  | ChrEsc acc => (ChrEnd (c :: acc), [])
  | ChrEnd acc =>
      if N.eqb c 39 then (Code, [ILit (rev (c :: acc))]) else (Code, [])
  | Shebang => if N.eqb c NL then (Code, []) else (Shebang, [])
  | Dead => (Dead, [])
  end.

(* end of input *)
Definition finish (s : st) : list item :=
  match s with
  | Num _ acc => [ILit (rev acc)]
  | LineC acc => line_comment_item (rev acc)
  | _ => []
  end.

Fixpoint lex (s : st) (src : bytes) : list item :=
  match src with
  | [] => finish s
  | c :: r => let '(s', out) := step s c in out ++ lex s' r
  end.

(* Trailing blanks of every line of a comment are not significant: the formatter trims every
   output line (format/src/pretty_print.rs:77) and `str::lines` drops the `\r` of `\r\n`. *)
Fixpoint norm_comment (s : bytes) : bytes :=
  match s with
  | [] => []
  | b :: r =>
      let r' := norm_comment r in
      if is_blank b && match r' with [] => true | c :: _ => N.eqb c NL end then r' else b :: r'
  end.

Fixpoint comments_of_items (l : list item) : list bytes :=
  match l with
  | [] => []
  | IComment t :: r => norm_comment t :: comments_of_items r
  | ILit _ :: r => comments_of_items r
  end.

Fixpoint literals_of_items (l : list item) : list bytes :=
  match l with
  | [] => []
  | ILit t :: r => t :: literals_of_items r
  | IComment _ :: r => literals_of_items r
  end.

Definition comments_of (src : bytes) : list bytes := comments_of_items (lex Start src).
Definition literals_of (src : bytes) : list bytes := literals_of_items (lex Start src).

Fixpoint bytes_eqb (a b : bytes) : bool :=
  match a, b with
  | [], [] => true
  | x :: a', y :: b' => N.eqb x y && bytes_eqb a' b'
  | _, _ => false
  end.

Fixpoint list_eqb (a b : list bytes) : bool :=
  match a, b with
  | [], [] => true
  | x :: a', y :: b' => bytes_eqb x y && list_eqb a' b'
  | _, _ => false
  end.

Definition fmt_check (src out : bytes) : bool :=
  list_eqb (comments_of src) (comments_of out) && list_eqb (literals_of src) (literals_of out).
