(* Theorems about the comment scanner model (Front/CommentIter.v). *)
From Coq Require Import List NArith Bool Arith Lia.
From GV Require Import Front.CommentIter.
Import ListNotations.

(* ------------------------------------------------------------------------------------ *)
(* basic facts *)

Lemma NL_not_blank : is_blank NL = false.
Proof. reflexivity. Qed.

Lemma trim_start_length : forall s, length (trim_start s) <= length s.
Proof.
  induction s as [|b r IH]; simpl; [lia|]. destruct (is_blank b); simpl; lia.
Qed.

Lemma trim_end_length : forall s, length (trim_end s) <= length s.
Proof.
  induction s as [|b r IH]; simpl; [lia|].
  destruct (trim_end r) eqn:E; [destruct (is_blank b)|]; simpl in *; lia.
Qed.

Lemma starts_with_app : forall p s, starts_with p (p ++ s) = true.
Proof. induction p as [|a p IH]; simpl; intros; [reflexivity|]. now rewrite N.eqb_refl, IH. Qed.

Lemma starts_with_prefix : forall p s t, starts_with p s = true -> starts_with p (s ++ t) = true.
Proof.
  induction p as [|a p IH]; simpl; intros s t H; [reflexivity|].
  destruct s as [|b s]; [discriminate|]. simpl.
  apply andb_true_iff in H as [H1 H2]. now rewrite H1, (IH _ _ H2).
Qed.

Lemma skipn_length_le : forall (n : nat) (s : bytes), length (skipn n s) <= length s.
Proof. intros. rewrite skipn_length. lia. Qed.

(* ------------------------------------------------------------------------------------ *)
(* 1. The only panic of [next] is the slice at the end of the input; the guard removes it. *)

Lemma next_guard_no_panic : forall src, next true src <> Panic.
Proof.
  intros src. unfold next. destruct src as [|b0 r0]; [discriminate|].
  set (s := trim_end (trim_start (b0 :: r0))).
  destruct (is_line_comment s).
  - destruct (starts_with [CR; NL] (skipn (length (first_line s)) s)); [discriminate|].
    destruct (skipn (length (first_line s)) s); discriminate.
  - destruct (starts_with OPEN s).
    + destruct (find_sub CLOSE s); discriminate.
    + destruct s as [|b r]; [discriminate|]. destruct (N.eqb b NL); discriminate.
Qed.

Lemma iterate_no_panic : forall f, (forall s, f s <> Panic) ->
  forall fuel src, panicked (iterate f fuel src) = false.
Proof.
  intros f Hf. induction fuel as [|n IH]; intros src; simpl; [reflexivity|].
  destruct (f src) as [i r| r|] eqn:E.
  - specialize (IH r). destruct (iterate f n r); simpl in *; auto.
  - reflexivity.
  - exfalso. eapply Hf; eauto.
Qed.

Theorem forward_guard_no_panic : forall src, panicked (forward true src) = false.
Proof. intros. apply iterate_no_panic. apply next_guard_no_panic. Qed.

(* The code as it is: `// c` without a final newline. *)
Theorem forward_noguard_panics : exists src, forward false src = Panicked [].
Proof. exists [47; 47; 32; 99]%N. vm_compute. reflexivity. Qed.

(* Exactly when: the trimmed input is a line comment that contains no newline. *)
Lemma until_nl_length : forall s, length (until_nl s) <= length s.
Proof. induction s as [|b r IH]; simpl; [lia|]. destruct (N.eqb b NL); simpl; lia. Qed.

Lemma until_nl_length_lt : forall s, has_nl s = true -> length (until_nl s) < length s.
Proof.
  induction s as [|b r IH]; simpl; [discriminate|]. intros H.
  destruct (N.eqb b NL); simpl; [lia|]. simpl in H. specialize (IH H). lia.
Qed.

Lemma strip_cr_length : forall s, length (strip_cr s) <= length s.
Proof.
  induction s as [|b r IH]; simpl; [lia|].
  destruct r as [|c r']; [destruct (N.eqb b CR); simpl; lia|]. simpl in *. lia.
Qed.

Lemma first_line_length_lt : forall s, has_nl s = true -> length (first_line s) < length s.
Proof.
  intros s H. unfold first_line. rewrite H.
  pose proof (strip_cr_length (until_nl s)). pose proof (until_nl_length_lt s H). lia.
Qed.

Lemma skipn_nil_length : forall (n : nat) (s : bytes), skipn n s = [] -> length s <= n.
Proof.
  induction n as [|n IH]; intros s H; simpl in *; [subst; simpl; lia|].
  destruct s; simpl in *; [lia|]. specialize (IH _ H). lia.
Qed.

Theorem next_panic_iff : forall src,
  next false src = Panic <->
  (src <> [] /\ let s := trim_end (trim_start src) in is_line_comment s = true /\ has_nl s = false).
Proof.
  intros src. unfold next. destruct src as [|b0 r0].
  - split; [discriminate|]. intros [H _]. congruence.
  - set (s := trim_end (trim_start (b0 :: r0))). cbv zeta.
    destruct (is_line_comment s) eqn:LC.
    + destruct (has_nl s) eqn:HN.
      * (* a newline is present: the rest is not empty *)
        split; [|intros [_ [_ H]]; discriminate].
        pose proof (first_line_length_lt s HN) as L.
        destruct (starts_with [CR; NL] (skipn (length (first_line s)) s)); [discriminate|].
        destruct (skipn (length (first_line s)) s) eqn:SK; [|discriminate].
        apply skipn_nil_length in SK. lia.
      * (* no newline: first_line s = s and the rest is empty *)
        unfold first_line. rewrite HN. rewrite skipn_all. simpl.
        split; [intros _; split; [discriminate|auto]|reflexivity].
    + split; [|intros [_ [H _]]; discriminate].
      destruct (starts_with OPEN s).
      * destruct (find_sub CLOSE s); discriminate.
      * destruct s as [|b r]; [discriminate|]. destruct (N.eqb b NL); discriminate.
Qed.

(* ------------------------------------------------------------------------------------ *)
(* 2. Inputs that end in a newline never panic, with or without the guard. *)

Definition ends_nl (s : bytes) : Prop := s = [] \/ exists pre, s = pre ++ [NL].

Lemma trim_end_snoc_nl : forall pre, trim_end (pre ++ [NL]) = pre ++ [NL].
Proof.
  induction pre as [|b r IH]; [reflexivity|].
  simpl. rewrite IH. destruct (r ++ [NL]) eqn:E; [destruct r; discriminate|reflexivity].
Qed.

Lemma trim_end_ends_nl : forall s, ends_nl s -> trim_end s = s.
Proof. intros s [->|[pre ->]]; [reflexivity|apply trim_end_snoc_nl]. Qed.

Lemma trim_start_ends_nl : forall s, ends_nl s -> ends_nl (trim_start s).
Proof.
  intros s [->|[pre ->]]; [left; reflexivity|].
  induction pre as [|b r IH]; simpl.
  - right. exists []. reflexivity.
  - destruct (is_blank b); [apply IH|]. right. exists (b :: r). reflexivity.
Qed.

Lemma skipn_ends_nl : forall (n : nat) (s : bytes), ends_nl s -> ends_nl (skipn n s).
Proof.
  induction n as [|n IH]; intros s H; simpl; [assumption|].
  destruct s as [|b r]; [left; reflexivity|].
  apply IH. destruct H as [H|[pre H]]; [discriminate|].
  destruct pre as [|p pre]; simpl in H; inversion H; subst.
  - left. reflexivity.
  - right. exists pre. reflexivity.
Qed.

Lemma has_nl_snoc : forall pre, has_nl (pre ++ [NL]) = true.
Proof. induction pre as [|b r IH]; simpl; [reflexivity|]. rewrite IH. apply orb_true_r. Qed.

Lemma ends_nl_has_nl : forall s, ends_nl s -> s <> [] -> has_nl s = true.
Proof. intros s [->|[pre ->]] H; [congruence|apply has_nl_snoc]. Qed.

Lemma next_ends_nl : forall g src, ends_nl src ->
  match next g src with
  | Yield _ r => ends_nl r
  | Stop _ => True
  | Panic => False
  end.
Proof.
  intros g src H. unfold next. destruct src as [|b0 r0]; [exact I|].
  set (src := b0 :: r0) in *.
  assert (Hs : ends_nl (trim_end (trim_start src))).
  { pose proof (trim_start_ends_nl _ H) as H1. rewrite (trim_end_ends_nl _ H1). exact H1. }
  set (s := trim_end (trim_start src)) in *.
  destruct (is_line_comment s) eqn:LC.
  - assert (s <> []) by (intro E; rewrite E in LC; discriminate).
    pose proof (ends_nl_has_nl s Hs H0) as HN.
    pose proof (first_line_length_lt s HN) as L.
    pose proof (skipn_ends_nl (length (first_line s)) s Hs) as Hr.
    destruct (starts_with [CR; NL] (skipn (length (first_line s)) s)).
    + apply skipn_ends_nl. exact Hr.
    + destruct (skipn (length (first_line s)) s) eqn:SK.
      * apply skipn_nil_length in SK. lia.
      * apply (skipn_ends_nl 1) in Hr. exact Hr.
  - destruct (starts_with OPEN s).
    + destruct (find_sub CLOSE s); [|exact I]. apply skipn_ends_nl. exact Hs.
    + destruct s as [|b r] eqn:E; [exact I|].
      destruct (N.eqb b NL); [|exact I].
      apply (skipn_ends_nl 1 (b :: r)). exact Hs.
Qed.

Theorem forward_ends_nl_no_panic : forall g src, ends_nl src -> panicked (forward g src) = false.
Proof.
  intros g src. unfold forward. generalize (S (length src)) as fuel.
  intros fuel. revert src. induction fuel as [|n IH]; intros src H; simpl; [reflexivity|].
  pose proof (next_ends_nl g src H) as Hn.
  destruct (next g src) as [i r| r|]; [|reflexivity|contradiction].
  specialize (IH r Hn). destruct (iterate (next g) n r); simpl in *; auto.
Qed.

(* ------------------------------------------------------------------------------------ *)
(* 3. Every Yield consumes input: the fuel of [forward] / [backward] is never exhausted. *)

Lemma line_comment_shape : forall s, is_line_comment s = true -> exists t, s = SLASH :: SLASH :: t.
Proof.
  intros s H. unfold is_line_comment in H. apply andb_true_iff in H as [H _].
  destruct s as [|a [|b t]]; cbn [starts_with SS] in H; try discriminate.
  - rewrite andb_false_r in H. discriminate.
  - apply andb_true_iff in H as [A B]. apply andb_true_iff in B as [B _].
    apply N.eqb_eq in A, B. subst. eexists. reflexivity.
Qed.

Lemma strip_cr_length_ge : forall b c t, 1 <= length (strip_cr (b :: c :: t)).
Proof. intros. cbn [strip_cr]. simpl. lia. Qed.

Lemma first_line_comment_pos : forall t, 0 < length (first_line (SLASH :: SLASH :: t)).
Proof.
  intros t. unfold first_line. destruct (has_nl (SLASH :: SLASH :: t)); [|simpl; lia].
  change (until_nl (SLASH :: SLASH :: t)) with (SLASH :: SLASH :: until_nl t).
  pose proof (strip_cr_length_ge SLASH SLASH (until_nl t)). lia.
Qed.

Lemma open_shape : forall s, starts_with OPEN s = true -> 0 < length s.
Proof. intros [|a s] H; [discriminate|simpl; lia]. Qed.

Lemma next_yield_shorter : forall g src i r, next g src = Yield i r -> length r < length src.
Proof.
  intros g src i r. unfold next. destruct src as [|b0 r0]; [discriminate|].
  set (src := b0 :: r0).
  assert (L0 : 0 < length src) by (unfold src; simpl; lia).
  pose proof (trim_start_length src) as L1.
  pose proof (trim_end_length (trim_start src)) as L2.
  set (s := trim_end (trim_start src)) in *.
  destruct (is_line_comment s) eqn:LC.
  - destruct (line_comment_shape s LC) as [t Es].
    pose proof (first_line_comment_pos t) as Hl. rewrite <- Es in Hl.
    pose proof (skipn_length (length (first_line s)) s) as SL.
    destruct (starts_with [CR; NL] (skipn (length (first_line s)) s)).
    + intros E. injection E as <- <-.
      pose proof (skipn_length_le 2 (skipn (length (first_line s)) s)) as S2.
      cbn [skipn] in S2. lia.
    + destruct (skipn (length (first_line s)) s) eqn:SK.
      * destruct g; [|discriminate]. intros E. injection E as <- <-.
        rewrite Es in L2. simpl in *. lia.
      * intros E. injection E as <- <-. simpl in SL. lia.
  - destruct (starts_with OPEN s) eqn:OP.
    + destruct (find_sub CLOSE s); [|discriminate].
      intros E. injection E as <- <-. rewrite skipn_length.
      pose proof (open_shape s OP). lia.
    + destruct s as [|b r']; [discriminate|].
      destruct (N.eqb b NL); [|discriminate]. intros E. injection E as <- <-. simpl in *. lia.
Qed.

Lemma rfind_sub_lt : forall p s j, rfind_sub p s = Some j -> j < length s.
Proof.
  intros p. induction s as [|a t IH]; intros j RF; cbn [rfind_sub] in RF; [discriminate|].
  destruct (rfind_sub p t) as [j'|].
  - injection RF as <-. specialize (IH _ eq_refl). simpl. lia.
  - destruct (starts_with p (a :: t)); [|discriminate]. injection RF as <-. simpl. lia.
Qed.

Lemma next_back_yield_shorter : forall src i r, next_back src = Yield i r -> length r < length src.
Proof.
  intros src i r. unfold next_back. destruct src as [|b0 r0]; [discriminate|].
  set (src := b0 :: r0).
  assert (L0 : 0 < length src) by (unfold src; simpl; lia).
  pose proof (trim_end_length src) as L1.
  set (s := trim_end src) in *.
  destruct (ends_with [NL] s) eqn:EN.
  - assert (Hs : 0 < length s).
    { destruct s; [discriminate|simpl; lia]. }
    destruct (last_line (removelast s)) as [cl|]; [|discriminate].
    set (k := if ends_with [CR; NL] s then 2 else 1).
    assert (Hk : 1 <= k) by (unfold k; destruct (ends_with [CR; NL] s); lia).
    destruct (is_line_comment (trim_start_ws cl)).
    + destruct (2 + length (trim_start_ws cl) + 1 <=? length (firstn (length s - k) s)); [|discriminate].
      intros E. injection E as <- <-. rewrite !firstn_length. lia.
    + intros E. injection E as <- <-. rewrite firstn_length. lia.
  - destruct (ends_with CLOSE s) eqn:EC; [|discriminate].
    destruct (rfind_sub OPEN s) as [j|] eqn:RF; [|discriminate].
    intros E. injection E as <- <-.
    (* the occurrence found by rfind lies inside s *)
    pose proof (rfind_sub_lt _ _ _ RF) as Hj.
    rewrite firstn_length. lia.
Qed.

(* ------------------------------------------------------------------------------------ *)
(* 4. Big-step view of the iteration (no fuel) *)

Inductive runs (f : bytes -> step) : bytes -> list bytes -> bytes -> Prop :=
| runs_stop : forall src rest, f src = Stop rest -> runs f src [] rest
| runs_yield : forall src i r l rest, f src = Yield i r -> runs f r l rest -> runs f src (i :: l) rest.

Lemma runs_iterate : forall f, (forall s i r, f s = Yield i r -> length r < length s) ->
  forall src l rest, runs f src l rest ->
  forall fuel, length src < fuel -> iterate f fuel src = Done l rest.
Proof.
  intros f Hdec src l rest R. induction R as [src rest E|src i r l rest E R IH]; intros fuel Hf.
  - destruct fuel; [lia|]. simpl. now rewrite E.
  - destruct fuel; [lia|]. simpl. rewrite E.
    pose proof (Hdec _ _ _ E). rewrite IH by lia. reflexivity.
Qed.

Corollary runs_forward : forall g src l rest, runs (next g) src l rest -> forward g src = Done l rest.
Proof. intros. unfold forward. eapply runs_iterate; eauto using next_yield_shorter. Qed.

Corollary runs_backward : forall src l rest, runs next_back src l rest -> backward src = Done l rest.
Proof. intros. unfold backward. eapply runs_iterate; eauto using next_back_yield_shorter. Qed.

(* ------------------------------------------------------------------------------------ *)
(* 5. Gaps: the text between two tokens, as a sequence of blanks, newlines and comments *)

Inductive seg :=
| Blank (b : N)
| Newline
| LineCm (text : bytes) (crlf : bool)        (* `//text` followed by "\n" or "\r\n" *)
| BlockCm (body : bytes).                     (* `/*body*/` *)

Definition eol (crlf : bool) : bytes := if crlf then [CR; NL] else [NL].

Definition seg_bytes (x : seg) : bytes :=
  match x with
  | Blank b => [b]
  | Newline => [NL]
  | LineCm t crlf => SS ++ t ++ eol crlf
  | BlockCm body => OPEN ++ body ++ CLOSE
  end.

Fixpoint flatten (g : list seg) : bytes :=
  match g with [] => [] | x :: r => seg_bytes x ++ flatten r end.

(* the closing `*/` is the first one: scanning the body never sees `/` right after a `*` *)
Fixpoint blk_ok (star : bool) (body : bytes) : bool :=
  match body with
  | [] => true
  | c :: r => negb (star && N.eqb c SLASH) && blk_ok (N.eqb c STAR) r
  end.

Definition no_eol_byte (b : N) : bool := negb (N.eqb b NL) && negb (N.eqb b CR).

Definition wf_seg (x : seg) : bool :=
  match x with
  | Blank b => is_blank b
  | Newline => true
  | LineCm t _ => forallb no_eol_byte t && negb (starts_with [SLASH] t)      (* not a `///` doc comment *)
  | BlockCm body => blk_ok false body && negb (starts_with [SLASH] body)     (* not `/*/` *)
  end.

Definition seg_items (x : seg) : list bytes :=
  match x with
  | Blank _ => []
  | Newline => [[]]
  | LineCm t _ => [SS ++ t]
  | BlockCm body => [OPEN ++ body ++ CLOSE]
  end.

Fixpoint gap_items (g : list seg) : list bytes :=
  match g with [] => [] | x :: r => seg_items x ++ gap_items r end.

Definition seg_comment (x : seg) : list bytes :=
  match x with
  | LineCm t _ => [SS ++ t]
  | BlockCm body => [OPEN ++ body ++ CLOSE]
  | _ => []
  end.

Fixpoint gap_comments (g : list seg) : list bytes :=
  match g with [] => [] | x :: r => seg_comment x ++ gap_comments r end.

Definition is_blank_seg (x : seg) : bool := match x with Blank _ => true | _ => false end.

Fixpoint drop_blanks (g : list seg) : list seg :=
  match g with
  | x :: r => if is_blank_seg x then drop_blanks r else g
  | [] => []
  end.

Fixpoint strip_end (g : list seg) : list seg :=
  match g with
  | [] => []
  | x :: r => match strip_end r with
              | [] => if is_blank_seg x then [] else [x]
              | r' => x :: r'
              end
  end.

Lemma trim_end_app : forall a b,
  trim_end (a ++ b) = match trim_end b with [] => trim_end a | _ => a ++ trim_end b end.
Proof.
  induction a as [|x a IH]; intros b; simpl.
  - destruct (trim_end b); reflexivity.
  - rewrite IH. destruct (trim_end b) as [|t0 tr] eqn:E; [reflexivity|].
    destruct (a ++ t0 :: tr) eqn:E2; [destruct a; discriminate|reflexivity].
Qed.

Lemma trim_end_last_nonblank : forall a c, is_blank c = false -> trim_end (a ++ [c]) = a ++ [c].
Proof.
  intros a c H. rewrite trim_end_app. simpl. rewrite H. reflexivity.
Qed.

Lemma seg_bytes_nonempty : forall x, seg_bytes x <> [].
Proof. destruct x; simpl; discriminate. Qed.

Lemma trim_end_seg : forall x, wf_seg x = true -> is_blank_seg x = false ->
  trim_end (seg_bytes x) = seg_bytes x.
Proof.
  intros x W NB. destruct x as [b| |t crlf|body]; simpl in NB; try discriminate.
  - reflexivity.
  - unfold seg_bytes. destruct crlf; unfold eol.
    + change (SS ++ t ++ [CR; NL]) with (SS ++ t ++ [CR] ++ [NL]).
      rewrite !app_assoc. apply trim_end_last_nonblank. reflexivity.
    + rewrite !app_assoc. apply trim_end_last_nonblank. reflexivity.
  - unfold seg_bytes. change CLOSE with ([STAR] ++ [SLASH]).
    rewrite !app_assoc. apply trim_end_last_nonblank. reflexivity.
Qed.

Lemma flatten_nil : forall g, flatten g = [] -> g = [].
Proof.
  destruct g as [|x r]; [reflexivity|]. simpl. intros H.
  apply app_eq_nil in H as [H _]. exfalso. eapply seg_bytes_nonempty; eauto.
Qed.

Lemma trim_end_flatten : forall g, forallb wf_seg g = true ->
  trim_end (flatten g) = flatten (strip_end g).
Proof.
  induction g as [|x r IH]; intros W; [reflexivity|].
  simpl in W. apply andb_true_iff in W as [Wx Wr]. specialize (IH Wr).
  simpl. rewrite trim_end_app, IH.
  destruct (strip_end r) as [|y r'] eqn:E.
  - simpl. destruct (is_blank_seg x) eqn:B.
    + destruct x; try discriminate. simpl in *. now rewrite Wx.
    + simpl. rewrite app_nil_r. apply trim_end_seg; assumption.
  - destruct (flatten (y :: r')) eqn:F; [apply flatten_nil in F; discriminate|].
    cbn [flatten]. cbn [flatten] in F. now rewrite F.
Qed.

Lemma seg_head_nonblank : forall x r, wf_seg x = true -> is_blank_seg x = false ->
  trim_start (seg_bytes x ++ r) = seg_bytes x ++ r.
Proof.
  intros x r W NB. destruct x as [b| |t crlf|body]; simpl in NB; try discriminate; reflexivity.
Qed.

Lemma trim_start_flatten : forall g, forallb wf_seg g = true ->
  trim_start (flatten g) = flatten (drop_blanks g).
Proof.
  induction g as [|x r IH]; intros W; [reflexivity|].
  simpl in W. apply andb_true_iff in W as [Wx Wr].
  simpl. destruct (is_blank_seg x) eqn:B.
  - destruct x; try discriminate. simpl in *. rewrite Wx. apply IH, Wr.
  - apply seg_head_nonblank; assumption.
Qed.

Lemma drop_blanks_wf : forall g, forallb wf_seg g = true -> forallb wf_seg (drop_blanks g) = true.
Proof.
  induction g as [|x r IH]; intros W; [reflexivity|]. simpl.
  destruct (is_blank_seg x); [|assumption]. simpl in W. apply andb_true_iff in W as [_ W]. auto.
Qed.

Lemma drop_blanks_items : forall g, gap_items (drop_blanks g) = gap_items g.
Proof.
  induction g as [|x r IH]; [reflexivity|]. simpl.
  destruct (is_blank_seg x) eqn:B; [|reflexivity]. destruct x; try discriminate. simpl. exact IH.
Qed.

Lemma strip_end_items : forall g, gap_items (strip_end g) = gap_items g.
Proof.
  induction g as [|x r IH]; [reflexivity|]. simpl.
  destruct (strip_end r) as [|y r'] eqn:E.
  - simpl in IH. rewrite <- IH, app_nil_r.
    destruct (is_blank_seg x) eqn:B; [destruct x; try discriminate; reflexivity|simpl; now rewrite app_nil_r].
  - simpl. simpl in IH. now rewrite IH.
Qed.

Lemma strip_end_wf : forall g, forallb wf_seg g = true -> forallb wf_seg (strip_end g) = true.
Proof.
  induction g as [|x r IH]; intros W; [reflexivity|]. simpl in *.
  apply andb_true_iff in W as [Wx Wr]. specialize (IH Wr).
  destruct (strip_end r); [destruct (is_blank_seg x); simpl; [reflexivity|now rewrite Wx]|].
  simpl. simpl in IH. now rewrite Wx, IH.
Qed.

Lemma strip_end_length : forall g, length (strip_end g) <= length g.
Proof.
  induction g as [|x r IH]; simpl; [lia|].
  destruct (strip_end r); [destruct (is_blank_seg x)|]; simpl in *; lia.
Qed.

Lemma drop_blanks_length : forall g, length (drop_blanks g) <= length g.
Proof. induction g as [|x r IH]; simpl; [lia|]. destruct (is_blank_seg x); simpl; lia. Qed.

Lemma strip_end_cons_nonblank : forall x r, is_blank_seg x = false -> strip_end (x :: r) = x :: strip_end r.
Proof. intros x r B. simpl. rewrite B. destruct (strip_end r); reflexivity. Qed.

Lemma drop_blanks_head : forall g, match drop_blanks g with [] => True | x :: _ => is_blank_seg x = false end.
Proof.
  induction g as [|x r IH]; simpl; [exact I|]. destruct (is_blank_seg x) eqn:B; [exact IH|exact B].
Qed.

(* --- one step of [next] on a gap that starts with a non-blank segment and has no trailing blanks --- *)

Lemma until_nl_app : forall t u, forallb no_eol_byte t = true -> until_nl (t ++ u) = t ++ until_nl u.
Proof.
  induction t as [|b t IH]; intros u H; [reflexivity|]. simpl in *.
  apply andb_true_iff in H as [Hb Ht]. unfold no_eol_byte in Hb. apply andb_true_iff in Hb as [Hb _].
  apply negb_true_iff in Hb. rewrite Hb. now rewrite IH.
Qed.

Lemma has_nl_app_r : forall t u, has_nl u = true -> has_nl (t ++ u) = true.
Proof. induction t as [|b t IH]; intros u H; simpl; [assumption|]. rewrite IH by assumption. apply orb_true_r. Qed.

Lemma strip_cr_snoc : forall a, strip_cr (a ++ [CR]) = a.
Proof.
  induction a as [|b a IH]; [reflexivity|].
  destruct a as [|c a']; [reflexivity|].
  change ((b :: c :: a') ++ [CR]) with (b :: c :: (a' ++ [CR])).
  change (strip_cr (b :: c :: a' ++ [CR])) with (b :: strip_cr (c :: a' ++ [CR])).
  change (c :: a' ++ [CR]) with ((c :: a') ++ [CR]). now rewrite IH.
Qed.

Lemma strip_cr_no_cr : forall a, forallb no_eol_byte a = true -> strip_cr a = a.
Proof.
  induction a as [|b a IH]; intros H; [reflexivity|]. simpl in H.
  apply andb_true_iff in H as [Hb Ha]. specialize (IH Ha).
  destruct a as [|c a'].
  - simpl. unfold no_eol_byte in Hb. apply andb_true_iff in Hb as [_ Hb]. apply negb_true_iff in Hb.
    now rewrite Hb.
  - change (strip_cr (b :: c :: a')) with (b :: strip_cr (c :: a')). now rewrite IH.
Qed.

Lemma skipn_app_exact : forall (a b : bytes), skipn (length a) (a ++ b) = b.
Proof. induction a as [|x a IH]; intros; simpl; auto. Qed.

Lemma firstn_app_exact : forall (a b : bytes), firstn (length a) (a ++ b) = a.
Proof. induction a as [|x a IH]; intros; simpl; [reflexivity|]. now rewrite IH. Qed.

Lemma find_close_body : forall body star rest, blk_ok star body = true ->
  find_sub CLOSE (body ++ CLOSE ++ rest) = Some (length body).
Proof.
  induction body as [|c r IH]; intros star rest H.
  - reflexivity.
  - simpl in H. apply andb_true_iff in H as [H1 H2].
    specialize (IH _ rest H2).
    change ((c :: r) ++ CLOSE ++ rest) with (c :: (r ++ CLOSE ++ rest)).
    cbn [find_sub]. rewrite IH.
    assert (starts_with CLOSE (c :: r ++ CLOSE ++ rest) = false) as ->.
    { cbn [starts_with CLOSE]. destruct (N.eqb STAR c) eqn:E; [|reflexivity].
      apply N.eqb_eq in E. subst c. simpl in H2.
      destruct r as [|d r'].
      - reflexivity.
      - simpl in H2. apply andb_true_iff in H2 as [H2 _]. apply negb_true_iff in H2.
        cbn [app starts_with]. rewrite N.eqb_sym. simpl in H2. rewrite H2. reflexivity. }
    reflexivity.
Qed.

Lemma next_on_seg : forall g x r, wf_seg x = true -> is_blank_seg x = false ->
  forallb wf_seg r = true -> strip_end (x :: r) = x :: r ->
  exists i, seg_items x = [i] /\ next g (flatten (x :: r)) = Yield i (flatten r).
Proof.
  intros g x r Wx NB Wr NT.
  assert (TS : trim_end (trim_start (flatten (x :: r))) = flatten (x :: r)).
  { simpl. rewrite seg_head_nonblank by assumption.
    change (seg_bytes x ++ flatten r) with (flatten (x :: r)).
    rewrite trim_end_flatten by (simpl; now rewrite Wx, Wr). now rewrite NT. }
  unfold next. destruct (flatten (x :: r)) as [|f0 fr] eqn:F; [apply flatten_nil in F; discriminate|].
  rewrite <- F in *. rewrite TS. clear TS F f0 fr.
  destruct x as [bb| |t crlf|body]; simpl in NB; try discriminate.
  - (* Newline *)
    exists []. split; [reflexivity|]. reflexivity.
  - (* line comment *)
    exists (SS ++ t). split; [reflexivity|].
    simpl in Wx. apply andb_true_iff in Wx as [Wt Wh].
    cbn [flatten seg_bytes].
    assert (LC : is_line_comment ((SS ++ t ++ eol crlf) ++ flatten r) = true).
    { unfold is_line_comment. apply andb_true_iff. split; [reflexivity|].
      apply negb_true_iff. destruct t as [|c t'].
      - destruct crlf; reflexivity.
      - simpl in Wh. apply negb_true_iff in Wh. cbn. rewrite andb_true_r in Wh.
        rewrite Wh. reflexivity. }
    rewrite LC.
    assert (FL : first_line ((SS ++ t ++ eol crlf) ++ flatten r) = SS ++ t).
    { unfold first_line.
      assert (has_nl ((SS ++ t ++ eol crlf) ++ flatten r) = true) as ->.
      { rewrite <- !app_assoc. apply has_nl_app_r. apply has_nl_app_r.
        destruct crlf; reflexivity. }
      rewrite <- !app_assoc.
      change (until_nl (SS ++ t ++ eol crlf ++ flatten r)) with (SS ++ until_nl (t ++ eol crlf ++ flatten r)).
      rewrite until_nl_app by assumption.
      destruct crlf; cbn [eol app until_nl].
      - change (N.eqb CR NL) with false. rewrite N.eqb_refl. cbn iota.
        rewrite app_assoc. apply strip_cr_snoc.
      - rewrite N.eqb_refl. rewrite app_nil_r.
        apply (strip_cr_no_cr (SS ++ t)). simpl. exact Wt. }
    rewrite FL.
    replace ((SS ++ t ++ eol crlf) ++ flatten r) with ((SS ++ t) ++ eol crlf ++ flatten r)
      by (now rewrite <- !app_assoc).
    rewrite skipn_app_exact.
    destruct crlf; reflexivity.
  - (* block comment *)
    exists (OPEN ++ body ++ CLOSE). split; [reflexivity|].
    simpl in Wx. apply andb_true_iff in Wx as [Wb Wh].
    cbn [flatten seg_bytes].
    assert (is_line_comment ((OPEN ++ body ++ CLOSE) ++ flatten r) = false) as -> by reflexivity.
    assert (starts_with OPEN ((OPEN ++ body ++ CLOSE) ++ flatten r) = true) as -> by reflexivity.
    assert (FS : find_sub CLOSE ((OPEN ++ body ++ CLOSE) ++ flatten r) = Some (2 + length body)).
    { rewrite <- !app_assoc.
      change (OPEN ++ body ++ CLOSE ++ flatten r) with (SLASH :: STAR :: (body ++ CLOSE ++ flatten r)).
      cbn [find_sub]. rewrite (find_close_body body false (flatten r) Wb).
      assert (starts_with CLOSE (STAR :: body ++ CLOSE ++ flatten r) = false) as ->.
      { destruct body as [|c b']; [reflexivity|].
        simpl in Wh. apply negb_true_iff in Wh. rewrite andb_true_r in Wh.
        cbn. rewrite Wh. reflexivity. }
      reflexivity. }
    rewrite FS.
    replace (2 + length body + 2) with (length (OPEN ++ body ++ CLOSE))
      by (rewrite !app_length; simpl; lia).
    rewrite firstn_app_exact, skipn_app_exact. reflexivity.
Qed.

Lemma next_trim_invariant : forall g a b, a <> [] -> b <> [] ->
  trim_end (trim_start a) = trim_end (trim_start b) -> next g a = next g b.
Proof. intros g a b Ha Hb H. unfold next. destruct a; [congruence|]. destruct b; [congruence|]. now rewrite H. Qed.

Lemma next_trim_nil : forall g a, trim_end (trim_start a) = [] -> next g a = Stop [].
Proof. intros g a H. unfold next. destruct a; [reflexivity|]. now rewrite H. Qed.

Theorem gap_runs : forall guard n g, length g <= n -> forallb wf_seg g = true ->
  runs (next guard) (flatten g) (gap_items g) [].
Proof.
  intros guard. induction n as [|n IH]; intros g Hn W.
  - destruct g; [|simpl in Hn; lia]. apply runs_stop. reflexivity.
  - destruct (flatten g) as [|f0 fr] eqn:F0.
    { apply flatten_nil in F0. subst g. apply runs_stop. reflexivity. }
    rewrite <- F0. clear F0 f0 fr.
    set (g2 := strip_end (drop_blanks g)).
    assert (W1 : forallb wf_seg (drop_blanks g) = true) by (apply drop_blanks_wf, W).
    assert (W2 : forallb wf_seg g2 = true) by (apply strip_end_wf, W1).
    assert (TS : trim_end (trim_start (flatten g)) = flatten g2).
    { rewrite trim_start_flatten by assumption. apply trim_end_flatten, W1. }
    assert (I2 : gap_items g2 = gap_items g).
    { unfold g2. now rewrite strip_end_items, drop_blanks_items. }
    destruct g2 as [|x r2] eqn:G2.
    + (* only blanks *)
      rewrite <- I2. apply runs_stop. apply next_trim_nil. exact TS.
    + assert (NB : is_blank_seg x = false).
      { pose proof (drop_blanks_head g) as H. unfold g2 in G2.
        destruct (drop_blanks g) as [|y t] eqn:D; [discriminate|].
        destruct (is_blank_seg y) eqn:By; [discriminate|].
        rewrite strip_end_cons_nonblank in G2 by assumption. injection G2 as <- _. exact By. }
      assert (NT : strip_end (x :: r2) = x :: r2).
      { rewrite <- G2. unfold g2.
        clear. generalize (drop_blanks g) as h. induction h as [|y t IHt]; [reflexivity|].
        simpl. destruct (strip_end t) as [|z t'] eqn:E.
        - destruct (is_blank_seg y) eqn:B; [reflexivity|]. simpl. now rewrite B.
        - simpl in IHt. simpl. rewrite IHt. reflexivity. }
      simpl in W2. apply andb_true_iff in W2 as [Wx Wr].
      destruct (next_on_seg guard x r2 Wx NB Wr NT) as [i [Hi Hn2]].
      rewrite <- I2. simpl. rewrite Hi. simpl.
      apply runs_yield with (r := flatten r2).
      * rewrite <- Hn2. apply next_trim_invariant.
        -- intro E. apply flatten_nil in E. subst g. discriminate.
        -- intro E. apply flatten_nil in E. discriminate.
        -- rewrite TS. symmetry.
           simpl. rewrite seg_head_nonblank by assumption.
           change (seg_bytes x ++ flatten r2) with (flatten (x :: r2)).
           rewrite trim_end_flatten by (simpl; now rewrite Wx, Wr). now rewrite NT.
      * apply IH; [|assumption].
        assert (length (x :: r2) <= length g).
        { rewrite <- G2. unfold g2.
          pose proof (strip_end_length (drop_blanks g)). pose proof (drop_blanks_length g). lia. }
        simpl in H. lia.
Qed.

(* Forward scanning of a gap of white space and comments yields one item per newline and per
   comment, in order, and consumes the whole gap. *)
Theorem forward_gap : forall guard g, forallb wf_seg g = true ->
  forward guard (flatten g) = Done (gap_items g) [].
Proof. intros. apply runs_forward. eapply gap_runs; eauto. Qed.

Lemma comments_in_gap_items : forall g, comments_in (gap_items g) = gap_comments g.
Proof.
  induction g as [|x r IH]; [reflexivity|].
  simpl. unfold comments_in in *. rewrite filter_app, IH.
  destruct x; try reflexivity.
Qed.

(* ... hence exactly its comments, in order. *)
Theorem forward_gap_comments : forall guard g, forallb wf_seg g = true ->
  comments_in (items_of (forward guard (flatten g))) = gap_comments g.
Proof. intros. rewrite forward_gap by assumption. simpl. apply comments_in_gap_items. Qed.

(* Scanning two adjacent gaps separately or as one gives the same comments (partition). *)
Lemma flatten_app : forall g1 g2, flatten (g1 ++ g2) = flatten g1 ++ flatten g2.
Proof. induction g1 as [|x r IH]; intros; simpl; [reflexivity|]. now rewrite IH, app_assoc. Qed.

Lemma gap_comments_app : forall g1 g2, gap_comments (g1 ++ g2) = gap_comments g1 ++ gap_comments g2.
Proof. induction g1 as [|x r IH]; intros; simpl; [reflexivity|]. now rewrite IH, app_assoc. Qed.

Theorem forward_partition : forall guard g1 g2,
  forallb wf_seg g1 = true -> forallb wf_seg g2 = true ->
  comments_in (items_of (forward guard (flatten g1 ++ flatten g2))) =
  comments_in (items_of (forward guard (flatten g1))) ++ comments_in (items_of (forward guard (flatten g2))).
Proof.
  intros guard g1 g2 W1 W2. rewrite <- flatten_app.
  rewrite !forward_gap_comments by (try rewrite forallb_app; try rewrite W1; auto).
  apply gap_comments_app.
Qed.

(* ------------------------------------------------------------------------------------ *)
(* 6. Backward iteration versus forward iteration *)

(* It is NOT the reverse of forward iteration in general, even when neither panics:
   a lone newline is an (empty) item forward and nothing backward (`lines().next_back()?`
   of the empty string returns None, source.rs:394) ... *)
Theorem backward_not_reverse_of_forward : exists src, forall g,
  panicked (forward g src) = false /\ panicked (backward src) = false /\
  items_of (backward src) <> rev (items_of (forward g src)).
Proof.
  exists [10]%N. intros g. destruct g; vm_compute; repeat split; discriminate.
Qed.

(* ... and comments themselves are lost: two `//` comments indented by two blanks.  After the
   last one is yielded the scanner removes `trimmed.len() + 3` bytes (source.rs:401), which eats
   the newline that terminates the previous line; that line is then not recognised. *)
Definition two_line_comments : bytes :=
  [32; 32; 47; 47; 32; 97; 10; 32; 32; 47; 47; 32; 98; 10]%N.   (* "  // a\n  // b\n" *)

Theorem backward_loses_comment : forall g,
  panicked (forward g two_line_comments) = false /\ panicked (backward two_line_comments) = false /\
  comments_in (items_of (forward g two_line_comments)) = [[47; 47; 32; 97]; [47; 47; 32; 98]]%N /\
  comments_in (items_of (backward two_line_comments)) = [[47; 47; 32; 98]]%N.
Proof. intros g. destruct g; vm_compute; repeat split; reflexivity. Qed.

(* The subtraction of source.rs:401 can also underflow. *)
Theorem backward_panics : exists src, backward src = Panicked [].
Proof. exists [47; 47; 32; 99; 10]%N. vm_compute. reflexivity. Qed.

(* What does hold: on gaps made of blanks and block comments (no newline involved) backward
   iteration is the reverse of forward iteration. *)
Definition no_open_inside (body : bytes) : bool :=
  match rfind_sub OPEN (STAR :: body ++ CLOSE) with None => true | Some _ => false end.

Definition inline_seg (x : seg) : bool :=
  match x with
  | Blank _ => true
  | BlockCm body => no_open_inside body
  | _ => false
  end.

Lemma gap_items_app : forall g1 g2, gap_items (g1 ++ g2) = gap_items g1 ++ gap_items g2.
Proof. induction g1 as [|x r IH]; intros; simpl; [reflexivity|]. now rewrite IH, app_assoc. Qed.

Lemma runs_same_step : forall f a b l r, f a = f b -> runs f b l r -> runs f a l r.
Proof.
  intros f a b l r E R. inversion R; subst.
  - apply runs_stop. congruence.
  - eapply runs_yield; [|eassumption]. congruence.
Qed.

Lemma next_back_trim_invariant : forall a b, a <> [] -> b <> [] ->
  trim_end a = trim_end b -> next_back a = next_back b.
Proof. intros a b Ha Hb H. unfold next_back. destruct a; [congruence|]. destruct b; [congruence|]. now rewrite H. Qed.

Lemma rfind_sub_app : forall p a c i, rfind_sub p c = Some i -> rfind_sub p (a ++ c) = Some (length a + i).
Proof.
  intros p. induction a as [|x a IH]; intros c i H; [exact H|].
  simpl. destruct (a ++ c) eqn:E.
  - destruct a; [|discriminate]. simpl in E. subst c. discriminate.
  - rewrite <- E. rewrite (IH _ _ H). reflexivity.
Qed.

Lemma block_shape : forall body, OPEN ++ body ++ CLOSE = SLASH :: STAR :: body ++ CLOSE.
Proof. reflexivity. Qed.

Lemma ends_with_snoc : forall p a c, ends_with (p ++ [c]) (a ++ [c]) = ends_with p a.
Proof.
  intros. unfold ends_with. rewrite !rev_app_distr. simpl. now rewrite N.eqb_refl.
Qed.

Lemma ends_with_last_ne : forall a c d, N.eqb d c = false -> ends_with [d] (a ++ [c]) = false.
Proof. intros. unfold ends_with. rewrite rev_app_distr. simpl. now rewrite H. Qed.

Lemma rfind_sub_cons : forall p a r,
  rfind_sub p (a :: r) =
  match rfind_sub p r with Some i => Some (S i) | None => if starts_with p (a :: r) then Some 0 else None end.
Proof. reflexivity. Qed.

Lemma flatten_single : forall x, flatten [x] = seg_bytes x.
Proof. intros. simpl. apply app_nil_r. Qed.

Lemma gap_items_single : forall x, gap_items [x] = seg_items x.
Proof. intros. simpl. apply app_nil_r. Qed.

Theorem backward_inline_runs : forall g,
  forallb wf_seg g = true -> forallb inline_seg g = true ->
  runs next_back (flatten g) (rev (gap_items g)) [].
Proof.
  induction g as [|x g' IH] using rev_ind; intros W I.
  - apply runs_stop. reflexivity.
  - rewrite forallb_app in W, I. apply andb_true_iff in W as [Wg Wx]. apply andb_true_iff in I as [Ig Ix].
    simpl in Wx, Ix. rewrite andb_true_r in Wx, Ix.
    specialize (IH Wg Ig).
    rewrite flatten_app, gap_items_app, rev_app_distr, flatten_single, gap_items_single.
    destruct x as [b| |t crlf|body]; simpl in Ix; try discriminate.
    + (* a trailing blank is trimmed away *)
      simpl in Wx. cbn [seg_items rev app seg_bytes].
      destruct (flatten g') as [|f0 fr] eqn:F.
      * apply flatten_nil in F. subst g'. apply runs_stop.
        unfold next_back. cbn [app trim_end]. rewrite Wx. reflexivity.
      * rewrite <- F in *. eapply runs_same_step; [|exact IH].
        apply next_back_trim_invariant.
        -- destruct (flatten g'); discriminate.
        -- rewrite F. discriminate.
        -- rewrite trim_end_app. simpl. now rewrite Wx.
    + (* a block comment at the end is yielded whole *)
      cbn [seg_items rev app seg_bytes].
      set (C := OPEN ++ body ++ CLOSE). set (P := flatten g') in *.
      apply runs_yield with (r := P); [|exact IH].
      assert (TE : trim_end (P ++ C) = P ++ C).
      { unfold C. change CLOSE with ([STAR] ++ [SLASH]). rewrite !app_assoc.
        apply trim_end_last_nonblank. reflexivity. }
      unfold next_back. destruct (P ++ C) as [|pc0 pcr] eqn:EPC.
      { destruct P; discriminate. }
      rewrite <- EPC in *. rewrite TE.
      assert (ends_with [NL] (P ++ C) = false) as ->.
      { unfold C. change CLOSE with ([STAR] ++ [SLASH]). rewrite !app_assoc.
        apply ends_with_last_ne. reflexivity. }
      assert (ends_with CLOSE (P ++ C) = true) as ->.
      { unfold C. change CLOSE with ([STAR] ++ [SLASH]). rewrite !app_assoc.
        rewrite ends_with_snoc.
        replace ((P ++ OPEN) ++ body) with ((P ++ OPEN) ++ body) by reflexivity.
        rewrite <- (app_nil_l [STAR]) at 1. rewrite ends_with_snoc. reflexivity. }
      assert (RC : rfind_sub OPEN C = Some 0).
      { unfold C. rewrite block_shape, rfind_sub_cons.
        unfold no_open_inside in Ix.
        destruct (rfind_sub OPEN (STAR :: body ++ CLOSE)); [discriminate|]. reflexivity. }
      rewrite (rfind_sub_app _ P _ _ RC). rewrite Nat.add_0_r.
      now rewrite skipn_app_exact, firstn_app_exact.
Qed.

Theorem backward_inline_gap : forall g,
  forallb wf_seg g = true -> forallb inline_seg g = true ->
  backward (flatten g) = Done (rev (gap_items g)) [].
Proof. intros. apply runs_backward. now apply backward_inline_runs. Qed.

Theorem fwd_back_inline : forall guard g,
  forallb wf_seg g = true -> forallb inline_seg g = true ->
  items_of (backward (flatten g)) = rev (items_of (forward guard (flatten g))).
Proof.
  intros. rewrite backward_inline_gap, forward_gap by assumption. reflexivity.
Qed.

(* ------------------------------------------------------------------------------------ *)
(* 7. The full statements that the code as it is does not satisfy *)

Definition comment_iter_no_panic_full_stmt : Prop :=
  forall src, panicked (forward false src) = false.

Theorem comment_iter_no_panic_refuted : ~ comment_iter_no_panic_full_stmt.
Proof.
  intros H. destruct forward_noguard_panics as [src E]. specialize (H src). rewrite E in H. discriminate.
Qed.

Definition comment_iter_fwd_back_full_stmt : Prop :=
  forall g src, panicked (forward g src) = false -> panicked (backward src) = false ->
  items_of (backward src) = rev (items_of (forward g src)).

Theorem comment_iter_fwd_back_refuted : ~ comment_iter_fwd_back_full_stmt.
Proof.
  intros H. destruct backward_not_reverse_of_forward as [src W].
  destruct (W false) as [A [B C]]. apply C. apply H; assumption.
Qed.
