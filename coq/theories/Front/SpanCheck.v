(* C08 — verified validator for source spans (tie V).

   The harness (harness/src/bin/c08rt/real.rs, `span_expr`) exports the tree the real parser
   produced: one node per expression / pattern / spanned identifier, with its byte span
   (0-based offsets into the source), the list of its children in source order, and, for leaves,
   what token the node stands for.  [spans_ok src t] checks that the spans "delimit the
   corresponding text":
     - every span is well formed and inside the source           (lo <= hi <= |src|)
     - the spans of the children lie inside the span of the parent
     - siblings are ordered and do not overlap
     - the source text at the span of an identifier is that identifier, the text at the span of an
       integer / byte literal is a numeral denoting its value, the text at the span of a string /
       char literal is quoted, the text of a float literal is made of numeral characters — in each
       case possibly enclosed in redundant parentheses (a parenthesised pattern, an operator
       written as `(+)`), which the grammar drops while keeping the span of the whole text.
   Definitions only (extracted, coq/extract/c08rt); the soundness theorem is in SpanCheckProofs.v. *)
From Coq Require Import List NArith ZArith Bool.
Import ListNotations.
Local Open Scope N_scope.

Inductive leaf : Set :=
| LNone                      (* inner node *)
| LIdent (name : list N)     (* identifier or operator: bytes of its name *)
| LInt (v : Z)               (* integer literal *)
| LByte (v : N)              (* byte literal `12b` *)
| LStr | LChar | LFloat.

Inductive stree : Set := SNode (lo hi : N) (lf : leaf) (children : list stree).

Definition lo_of (t : stree) : N := match t with SNode lo _ _ _ => lo end.
Definition hi_of (t : stree) : N := match t with SNode _ hi _ _ => hi end.

(* ---- byte lists ---- *)
Fixpoint dropN (l : list N) (n : N) : list N :=
  match l with
  | [] => []
  | x :: l' => if n =? 0 then l else dropN l' (N.pred n)
  end.
Fixpoint takeN (l : list N) (n : N) : list N :=
  match l with
  | [] => []
  | x :: l' => if n =? 0 then [] else x :: takeN l' (N.pred n)
  end.
Definition slice (src : list N) (lo hi : N) : list N := takeN (dropN src lo) (hi - lo).
Fixpoint lenN (l : list N) : N := match l with [] => 0 | _ :: l' => N.succ (lenN l') end.

Fixpoint bytes_eqb (a b : list N) : bool :=
  match a, b with
  | [], [] => true
  | x :: a', y :: b' => (x =? y) && bytes_eqb a' b'
  | _, _ => false
  end.

Definition is_blank (c : N) : bool := (c =? 32) || (c =? 9) || (c =? 10) || (c =? 13).
Fixpoint skip_blanks (l : list N) : list N :=
  match l with
  | c :: l' => if is_blank c then skip_blanks l' else l
  | [] => []
  end.
(* l = name ++ rest for some rest; returns rest *)
Fixpoint strip_prefix (name l : list N) : option (list N) :=
  match name, l with
  | [], _ => Some l
  | x :: name', y :: l' => if x =? y then strip_prefix name' l' else None
  | _ :: _, [] => None
  end.

(* Redundant parentheses: the grammar drops the parentheses of a parenthesised pattern and of an
   operator used as an identifier (`(+)`), and gives the node the span of the whole parenthesised
   text (grammar.lalrpop AtomicPattern :582-587, IdentStr :148-151).  [unparen] removes any number
   of enclosing "(" blanks ... blanks ")" layers. *)
Definition unparen1 (t : list N) : option (list N) :=
  match t with
  | 40 :: t1 =>
      match rev (skip_blanks t1) with
      | 41 :: r => Some (rev (skip_blanks r))
      | _ => None
      end
  | _ => None
  end.
Fixpoint unparen (fuel : nat) (t : list N) : list N :=
  match fuel with
  | O => t
  | S f => match unparen1 t with Some t' => unparen f t' | None => t end
  end.
Definition core (t : list N) : list N := unparen (length t) t.

Definition ident_text (t name : list N) : bool := bytes_eqb (core t) name.

(* ---- numerals ---- *)
Definition is_digit (c : N) : bool := (48 <=? c) && (c <=? 57).
Definition hex_val (c : N) : option N :=
  if is_digit c then Some (c - 48)
  else if (97 <=? c) && (c <=? 102) then Some (c - 87)
  else if (65 <=? c) && (c <=? 70) then Some (c - 55)
  else None.

Fixpoint dec_value (acc : N) (l : list N) : option N :=
  match l with
  | [] => Some acc
  | c :: l' => if is_digit c then dec_value (acc * 10 + (c - 48)) l' else None
  end.
Fixpoint hex_value (acc : N) (l : list N) : option N :=
  match l with
  | [] => Some acc
  | c :: l' => match hex_val c with Some d => hex_value (acc * 16 + d) l' | None => None end
  end.

(* magnitude of an unsigned numeral: decimal digits, or 0x followed by hex digits; never empty *)
Definition magnitude (l : list N) : option N :=
  match l with
  | 48 :: 120 :: ((_ :: _) as h) => hex_value 0 h
  | _ :: _ => dec_value 0 l
  | [] => None
  end.

(* token.rs:655-748 numeric_literal: optional '-', then the magnitude *)
Definition int_value (t : list N) : option Z :=
  match t with
  | 45 :: t' => match magnitude t' with Some m => Some (- Z.of_N m)%Z | None => None end
  | _ => match magnitude t with Some m => Some (Z.of_N m) | None => None end
  end.

Definition int_text (t : list N) (v : Z) : bool :=
  match int_value t with Some v' => Z.eqb v v' | None => false end.

(* digits followed by 'b' *)
Fixpoint byte_value (acc : N) (l : list N) : option N :=
  match l with
  | [98] => Some acc
  | c :: l' => if is_digit c then byte_value (acc * 10 + (c - 48)) l' else None
  | [] => None
  end.
Definition byte_text (t : list N) (v : N) : bool :=
  match t with
  | c :: _ => is_digit c && match byte_value 0 t with Some v' => v =? v' | None => false end
  | [] => false
  end.

Definition last_byte (t : list N) : N := last t 0.

(* "..."  |  r"..."  |  r#"..."# *)
Definition str_text (t : list N) : bool :=
  match t with
  | 34 :: _ :: _ => last_byte t =? 34
  | 114 :: _ :: _ => (last_byte t =? 34) || (last_byte t =? 35)
  | _ => false
  end.
Definition char_text (t : list N) : bool :=
  match t with
  | 39 :: _ :: _ => last_byte t =? 39
  | _ => false
  end.
Definition float_char (c : N) : bool := is_digit c || (c =? 46) || (c =? 45) || (c =? 101) || (c =? 69) || (c =? 43).
Definition float_text (t : list N) : bool :=
  match t with [] => false | _ => forallb float_char t end.

Definition leaf_ok (src : list N) (lo hi : N) (lf : leaf) : bool :=
  match lf with
  | LNone => true
  | LIdent name => ident_text (slice src lo hi) name
  | LInt v => int_text (core (slice src lo hi)) v
  | LByte v => byte_text (core (slice src lo hi)) v
  | LStr => str_text (core (slice src lo hi))
  | LChar => char_text (core (slice src lo hi))
  | LFloat => float_text (core (slice src lo hi))
  end.

(* ---- the checker ---- *)
Fixpoint ok (src : list N) (n : N) (t : stree) : bool :=
  match t with
  | SNode lo hi lf cs =>
      (lo <=? hi) && (hi <=? n) && leaf_ok src lo hi lf &&
      (fix oks (cs : list stree) (from : N) {struct cs} : bool :=
         match cs with
         | [] => true
         | c :: cs' => (from <=? lo_of c) && (hi_of c <=? hi) && ok src n c && oks cs' (hi_of c)
         end) cs lo
  end.

Definition spans_ok (src : list N) (t : stree) : bool := ok src (lenN src) t.

(* Diagnostics for the driver only (not part of any statement): the first offending node. *)
Inductive why : Set := WSpan | WLeaf | WChild.
Fixpoint first_bad (src : list N) (n : N) (t : stree) : option (why * N * N) :=
  match t with
  | SNode lo hi lf cs =>
      if negb ((lo <=? hi) && (hi <=? n)) then Some (WSpan, lo, hi)
      else if negb (leaf_ok src lo hi lf) then Some (WLeaf, lo, hi)
      else
        (fix go (cs : list stree) (from : N) {struct cs} : option (why * N * N) :=
           match cs with
           | [] => None
           | c :: cs' =>
               if negb ((from <=? lo_of c) && (hi_of c <=? hi)) then Some (WChild, lo_of c, hi_of c)
               else match first_bad src n c with
                    | Some r => Some r
                    | None => go cs' (hi_of c)
                    end
           end) cs lo
  end.
