(* C18 -- proofs about the type printer / parser model (TypeSyntax.v).

   Main results:
     parse_print       every variant-free type in the printer's normal form [nf] is read back
                       by [parse_type] from [print PTop t] (general form: at every precedence,
                       followed by any continuation that cannot extend the type);
     parse_top_print   a variant at the root of a type declaration body is read back by
                       [parse_top];
     parse_print_refuted   a variant below the root is not (the grammar has no such production);
     print_needs_parens    dropping the parentheses around a function in argument position
                           changes what is read back.
   Everything depends on the GENERATED [enclose] (coq/gen/PrecGen.v) through the six lemmas
   [enc_*] below, which are proved by computation on the generated definition. *)
From Coq Require Import List Bool Arith Lia.
From GVgen Require Import PrecGen.
From GV Require Import Front.TypeSyntax.
Import ListNotations.

(* ---------------------------------------------------------------------------------------- *)
(* the generated parenthesisation rule                                                        *)
(* ---------------------------------------------------------------------------------------- *)
Lemma enc_top_fun : enclose PTop PFunction = false. Proof. reflexivity. Qed.
Lemma enc_top_con : enclose PTop PConstructor = false. Proof. reflexivity. Qed.
Lemma enc_fun_fun : enclose PFunction PFunction = true. Proof. reflexivity. Qed.
Lemma enc_fun_con : enclose PFunction PConstructor = false. Proof. reflexivity. Qed.
Lemma enc_con_fun : enclose PConstructor PFunction = true. Proof. reflexivity. Qed.
Lemma enc_con_con : enclose PConstructor PConstructor = true. Proof. reflexivity. Qed.

(* ---------------------------------------------------------------------------------------- *)
(* normal form                                                                                *)
(* ---------------------------------------------------------------------------------------- *)
Scheme ty_mind := Induction for ty Sort Prop
with tys_mind := Induction for tys Sort Prop
with fields_mind := Induction for fields Sort Prop
with tfields_mind := Induction for tfields Sort Prop
with ctors_mind := Induction for ctors Sort Prop
with orest_mind := Induction for orest Sort Prop.
Combined Scheme ty_mutind from ty_mind, tys_mind, fields_mind, tfields_mind, ctors_mind, orest_mind.

(* printed without regard to the precedence *)
Definition is_atom (t : ty) : bool :=
  match t with
  | TId _ | TFunCon | TRecord _ _ _ | TTuple _ | TEffect _ _ => true
  | _ => false
  end.

Definition fname_lower (n : fname) : Prop := fname_upper n = false.

(* The normal form of variant-free types: what the type constructors of gluon_base build
   (`Type::app` with a non-empty argument list and a head that is not itself an application
   or a function, `Type::forall` with binders, `Type::function` nodes for functions, tuples
   of 0 or >= 2 elements, a record with no field at all being the unit tuple), with value
   fields of records spelled in lower case (what the grammar demands). *)
Fixpoint nf (t : ty) : Prop :=
  match t with
  | TId _ | TFunCon => True
  | TFun _ a r => nf a /\ nf r
  | TApp f args =>
      is_atom f = true /\ nf f /\ args <> TNil /\ nf_tys args
      /\ ~ (f = TFunCon /\ exists a b, args = TCons a (TCons b TNil))
  | TForall vs t' => vs <> [] /\ nf t'
  | TRecord tfs fs rest =>
      (tfs <> TFNil \/ fs <> FNil) /\ nf_tfields tfs /\ nf_fields true fs /\ nf_rest rest
  | TVariant _ _ => False
  | TTuple ts => (forall x, ts <> TCons x TNil) /\ nf_tys ts
  | TEffect fs rest => nf_fields false fs /\ nf_rest rest
  end
with nf_tys (l : tys) : Prop :=
  match l with TNil => True | TCons t l' => nf t /\ nf_tys l' end
with nf_fields (lower : bool) (fs : fields) : Prop :=
  match fs with
  | FNil => True
  | FCons n t fs' => (lower = true -> fname_lower n) /\ nf t /\ nf_fields lower fs'
  end
with nf_tfields (tfs : tfields) : Prop :=
  match tfs with TFNil => True | TFCons _ _ t tfs' => nf t /\ nf_tfields tfs' end
with nf_rest (r : orest) : Prop :=
  match r with RNone => True | RSome t => nf t end.

(* constructors of a root variant *)
Fixpoint nf_ctors (cs : ctors) : Prop :=
  match cs with
  | CNil => True
  | CSimple n args cs' => upper n = true /\ nf_tys args /\ nf_ctors cs'
  | CGadt n t cs' => upper n = true /\ nf t /\ explicit_spine t = t /\ nf_ctors cs'
  end.

(* a variant as the body of a type declaration: constructors with upper-case names whose
   arguments are in normal form, GADT-style constructors without implicit arguments, and a
   row tail that is a single atom (a row variable) *)
Definition vnf (t : ty) : Prop :=
  match t with
  | TVariant cs rest =>
      nf_ctors cs /\
      match rest with
      | RNone => cs <> CNil
      | RSome r => nf r /\ is_atom r = true
      end
  | _ => False
  end.

(* ---------------------------------------------------------------------------------------- *)
(* unfolding equations (one step of fuel)                                                     *)
(* ---------------------------------------------------------------------------------------- *)
Lemma parse_atomic_S n ts : parse_atomic (S n) ts =
  match classify_atomic ts with
  | AkId x => Some (TId x, tl ts)
  | AkFunCon => Some (TFunCon, tl3 ts)
  | AkDotDot =>
      match parse_atomic n (tl2 ts) with
      | Some (t, r) => if is_rp r then Some (TVariant CNil (RSome t), tl r) else None
      | None => None
      end
  | AkTypes =>
      match parse_commas n (tl ts) with
      | Some (l, r) =>
          if is_rp r then Some (match l with TCons t TNil => t | _ => TTuple l end, tl r) else None
      | None => None
      end
  | AkRecord =>
      match parse_rfields n (tl ts) with
      | Some (tfs, fs, r1) =>
          match parse_rest n r1 with
          | Some (rest, r2) => if is_rc r2 then Some (TRecord tfs fs rest, tl r2) else None
          | None => None
          end
      | None => None
      end
  | AkEffect =>
      match parse_efields n (tl2 ts) with
      | Some (fs, r1) =>
          if is_pipe r1 && is_rb (tl r1) then Some (TEffect fs RNone, tl2 r1)
          else
            match parse_rest n r1 with
            | Some (rest, r2) =>
                if is_pipe r2 && is_rb (tl r2) then Some (TEffect fs rest, tl2 r2) else None
            | None => None
            end
      | None => None
      end
  | AkNone => None
  end.
Proof. reflexivity. Qed.

Lemma parse_atomics_S n ts : parse_atomics (S n) ts =
  if starts_atomic ts then
    match parse_atomic n ts with
    | Some (t, r) =>
        match parse_atomics n r with
        | Some (l, r') => Some (TCons t l, r')
        | None => None
        end
    | None => None
    end
  else Some (TNil, ts).
Proof. reflexivity. Qed.

Lemma parse_app_S n ts : parse_app (S n) ts =
  match parse_atomic n ts with
  | Some (f, r) =>
      if starts_atomic r then
        match parse_atomics n r with
        | Some (args, r') => Some (TApp f args, r')
        | None => None
        end
      else Some (f, r)
  | None => None
  end.
Proof. reflexivity. Qed.

Lemma parse_type_S n ts : parse_type (S n) ts =
  match classify_type ts with
  | KForall =>
      let (vs, r) := take_ids (tl ts) in
      match vs with
      | [] => None
      | _ :: _ =>
          if is_dot r then
            match parse_type n (tl r) with
            | Some (t, r') => Some (TForall vs t, r')
            | None => None
            end
          else None
      end
  | KImplicit =>
      match parse_type n (tl ts) with
      | Some (a, r) =>
          if is_rb r && is_arrow (tl r) then
            match parse_type n (tl2 r) with
            | Some (b, r') => Some (TFun true a b, r')
            | None => None
            end
          else None
      | None => None
      end
  | KApp =>
      match parse_app n ts with
      | Some (a, r) =>
          if is_arrow r then
            match parse_type n (tl r) with
            | Some (b, r') => Some (TFun false a b, r')
            | None => None
            end
          else Some (a, r)
      | None => None
      end
  end.
Proof. reflexivity. Qed.

Lemma parse_commas_S n ts : parse_commas (S n) ts =
  if starts_type ts then
    match parse_type n ts with
    | Some (t, r) =>
        if is_comma r then
          match parse_commas n (tl r) with
          | Some (l, r') => Some (TCons t l, r')
          | None => None
          end
        else Some (TCons t TNil, r)
    | None => None
    end
  else Some (TNil, ts).
Proof. reflexivity. Qed.

Lemma parse_rfields_S n ts : parse_rfields (S n) ts =
  match parse_fname ts with
  | None => Some (TFNil, FNil, ts)
  | Some (fn, r) =>
      if is_colon r then
        if fname_upper fn then None else
        match parse_type n (tl r) with
        | Some (t, r') =>
            if is_comma r' then
              match parse_rfields n (tl r') with
              | Some (tfs, fs, r'') => Some (tfs, FCons fn t fs, r'')
              | None => None
              end
            else Some (TFNil, FCons fn t FNil, r')
        | None => None
        end
      else
        match fn with
        | FOp _ => None
        | FId x =>
            let (ps, r1) := take_ids r in
            if is_eq r1 then
              match parse_type n (tl r1) with
              | Some (t, r') =>
                  if is_comma r' then
                    match parse_rfields n (tl r') with
                    | Some (tfs, fs, r'') => Some (TFCons x ps t tfs, fs, r'')
                    | None => None
                    end
                  else Some (TFCons x ps t TFNil, FNil, r')
              | None => None
              end
            else
              match ps with
              | [] =>
                  if is_comma r1 then
                    match parse_rfields n (tl r1) with
                    | Some (tfs, fs, r'') => Some (TFCons x [] (TId hole) tfs, fs, r'')
                    | None => None
                    end
                  else Some (TFCons x [] (TId hole) TFNil, FNil, r1)
              | _ :: _ => None
              end
        end
  end.
Proof. reflexivity. Qed.

Lemma parse_efields_S n ts : parse_efields (S n) ts =
  match parse_fname ts with
  | None => Some (FNil, ts)
  | Some (fn, r) =>
      if is_colon r then
        match parse_type n (tl r) with
        | Some (t, r') =>
            if is_comma r' then
              match parse_efields n (tl r') with
              | Some (fs, r'') => Some (FCons fn t fs, r'')
              | None => None
              end
            else Some (FCons fn t FNil, r')
        | None => None
        end
      else None
  end.
Proof. reflexivity. Qed.

Lemma parse_rest_S n ts : parse_rest (S n) ts =
  if is_pipe ts then
    match parse_type n (tl ts) with
    | Some (t, r') => Some (RSome t, r')
    | None => None
    end
  else Some (RNone, ts).
Proof. reflexivity. Qed.

Lemma parse_ctors_S n ts : parse_ctors (S n) ts =
  if is_pipe ts then
    match ctor_name (tl ts) with
    | None => None
    | Some c =>
        if negb (upper c) then None else
        if is_colon (tl2 ts) then
          match parse_type n (tl3 ts) with
          | Some (t, r1) =>
              match parse_ctors n r1 with
              | Some (cs, r2) => Some (CGadt c (explicit_spine t) cs, r2)
              | None => None
              end
          | None => None
          end
        else
          match parse_atomics n (tl2 ts) with
          | Some (args, r1) =>
              match parse_ctors n r1 with
              | Some (cs, r2) => Some (CSimple c args cs, r2)
              | None => None
              end
          | None => None
          end
    end
  else Some (CNil, ts).
Proof. reflexivity. Qed.

(* ---------------------------------------------------------------------------------------- *)
(* first tokens of printed types                                                              *)
(* ---------------------------------------------------------------------------------------- *)

(* a token sequence that begins like an atomic type *)
Definition ahead (ts : list token) : bool :=
  match ts with
  | TkId _ :: _ | TkLP :: _ | TkLC :: _ | TkLB :: TkPipe :: _ => true
  | _ => false
  end.

(* ... or like any type *)
Definition thead (ts : list token) : bool :=
  match ts with
  | TkForall :: _ => true
  | TkLB :: r => ahead r || is_pipe r
  | _ => ahead ts
  end.

Ltac tok_cases ts :=
  let k := fresh "k" in let r := fresh "r" in
  destruct ts as [|k r]; [|destruct k]; cbn in *; try discriminate; try reflexivity; try tauto.
Ltac tok_cases2 ts :=
  let k := fresh "k" in let r := fresh "r" in let k' := fresh "k" in let r' := fresh "r" in
  destruct ts as [|k r]; [|destruct k]; cbn in *; try discriminate; try reflexivity; try tauto;
  destruct r as [|k' r']; [|destruct k']; cbn in *; try discriminate; try reflexivity; try tauto.

Lemma ahead_classify_type ts : ahead ts = true -> classify_type ts = KApp.
Proof. intros H. tok_cases2 ts. Qed.
Lemma ahead_starts_atomic ts : ahead ts = true -> starts_atomic ts = true.
Proof. intros H. tok_cases ts. Qed.
Lemma ahead_thead ts : ahead ts = true -> thead ts = true.
Proof. intros H. tok_cases2 ts. Qed.
Lemma ahead_not_pipe ts : ahead ts = true -> is_pipe ts = false.
Proof. intros H. tok_cases ts. Qed.
Lemma ahead_implicit ts : ahead ts = true -> classify_type (TkLB :: ts) = KImplicit.
Proof. intros H. tok_cases ts. Qed.
Lemma thead_starts_type ts : thead ts = true -> starts_type ts = true.
Proof. intros H. tok_cases ts. Qed.
Lemma thead_not_rb ts : thead ts = true -> is_rb ts = false.
Proof. intros H. tok_cases ts. Qed.
Lemma thead_classify_atomic ts : thead ts = true -> classify_atomic (TkLP :: ts) = AkTypes.
Proof. intros H. tok_cases ts. Qed.

Lemma paren_true l rest : paren true l ++ rest = TkLP :: l ++ TkRP :: rest.
Proof. cbn. rewrite <- app_assoc. reflexivity. Qed.

Lemma pr_ret_top t : pr true PTop t = pr false PTop t.
Proof. destruct t; cbn [pr]; try reflexivity; rewrite enc_top_fun; reflexivity. Qed.

Lemma pr_record_brace r p tfs fs rest :
  tfs <> TFNil \/ fs <> FNil ->
  pr r p (TRecord tfs fs rest) =
  TkLC :: pr_tfields (fields_nonempty fs) tfs ++ pr_fields fs ++ pr_rest rest ++ [TkRC].
Proof. intros H. destruct tfs, fs; cbn [pr]; try reflexivity. destruct H; congruence. Qed.

(* atoms are printed the same way everywhere *)
Lemma pr_atom r p t : is_atom t = true -> pr r p t = pr false PConstructor t.
Proof. destruct t; cbn [is_atom]; intros H; try discriminate; reflexivity. Qed.

Lemma ahead_atom t rest : is_atom t = true -> nf t -> ahead (pr false PConstructor t ++ rest) = true.
Proof.
  destruct t; cbn [is_atom]; intros A N; try discriminate; try reflexivity.
  - cbn [nf] in N. destruct N as [N _]. rewrite pr_record_brace by exact N. reflexivity.
Qed.

Lemma ahead_pr_con t rest : nf t -> ahead (pr false PConstructor t ++ rest) = true.
Proof.
  intros N. destruct t; try (apply ahead_atom; [reflexivity|exact N]).
  - cbn [pr]. rewrite enc_con_fun. reflexivity.
  - cbn [pr]. rewrite enc_con_con. reflexivity.
  - cbn [pr]. rewrite enc_con_fun. reflexivity.
  - destruct N.
Qed.

Lemma ahead_pr_fun t rest : nf t -> ahead (pr false PFunction t ++ rest) = true.
Proof.
  intros N. destruct t; try (rewrite pr_atom by reflexivity; apply ahead_atom; [reflexivity|exact N]).
  - cbn [pr]. rewrite enc_fun_fun. reflexivity.
  - cbn [pr]. rewrite enc_fun_con. cbn [paren]. cbn [nf] in N. destruct N as (A & Nf & _).
    rewrite (pr_atom false PTop t A). rewrite <- app_assoc. apply ahead_atom; assumption.
  - cbn [pr]. rewrite enc_fun_fun. reflexivity.
  - destruct N.
Qed.

Lemma thead_pr_top t rest : nf t -> thead (pr false PTop t ++ rest) = true.
Proof.
  intros N. destruct t;
    try (apply ahead_thead; rewrite pr_atom by reflexivity; apply ahead_atom; [reflexivity|exact N]).
  - cbn [pr]. rewrite enc_top_fun. cbn [negb andb paren]. cbn [nf] in N. destruct N as [Na _].
    destruct imp.
    + cbn [app]. rewrite <- !app_assoc. cbn [thead]. rewrite ahead_pr_fun by exact Na. reflexivity.
    + rewrite <- !app_assoc. apply ahead_thead. apply ahead_pr_fun. exact Na.
  - cbn [pr]. rewrite enc_top_con. cbn [paren]. cbn [nf] in N. destruct N as (A & Nf & _).
    rewrite (pr_atom false PTop t A). rewrite <- app_assoc. apply ahead_thead. apply ahead_atom; assumption.
  - cbn [pr]. rewrite enc_top_fun. reflexivity.
  - destruct N.
Qed.

(* ---------------------------------------------------------------------------------------- *)
(* small facts about the helpers                                                              *)
(* ---------------------------------------------------------------------------------------- *)
Definition no_id_head (ts : list token) : bool := match ts with TkId _ :: _ => false | _ => true end.

Lemma take_ids_map ps ts : no_id_head ts = true -> take_ids (map TkId ps ++ ts) = (ps, ts).
Proof.
  intros H. induction ps as [|p ps IH]; cbn.
  - destruct ts as [|[] ?]; cbn in *; try discriminate; reflexivity.
  - rewrite IH. reflexivity.
Qed.

(* what may follow the last field of a row: "|" or the closing brace *)
Definition ffollow (ts : list token) : bool :=
  match ts with TkPipe :: _ | TkRC :: _ => true | _ => false end.

Lemma ffollow_fname ts : ffollow ts = true -> parse_fname ts = None.
Proof. intros H. tok_cases ts. Qed.
Lemma ffollow_atomic ts : ffollow ts = true -> starts_atomic ts = false.
Proof. intros H. tok_cases ts. Qed.
Lemma ffollow_arrow ts : ffollow ts = true -> is_arrow ts = false.
Proof. intros H. tok_cases ts. Qed.
Lemma ffollow_comma ts : ffollow ts = true -> is_comma ts = false.
Proof. intros H. tok_cases ts. Qed.

Lemma parse_fname_print n ts : parse_fname (print_fname n ++ ts) = Some (n, ts).
Proof. destruct n; reflexivity. Qed.

Lemma is_colon_ids ps ts : is_colon (map TkId ps ++ TkEq :: ts) = false.
Proof. destruct ps; reflexivity. Qed.

Lemma need_ge4 t : 4 <= need t.
Proof. destruct t; cbn [need]; lia. Qed.

(* ---------------------------------------------------------------------------------------- *)
(* glue between the levels of the grammar                                                     *)
(* ---------------------------------------------------------------------------------------- *)
Lemma app_of_atomic n ts t r :
  parse_atomic n ts = Some (t, r) -> starts_atomic r = false -> parse_app (S n) ts = Some (t, r).
Proof. intros H1 H2. rewrite parse_app_S, H1, H2. reflexivity. Qed.

Lemma type_of_app n ts t r :
  parse_app n ts = Some (t, r) -> classify_type ts = KApp -> is_arrow r = false ->
  parse_type (S n) ts = Some (t, r).
Proof. intros H1 H2 H3. rewrite parse_type_S, H2, H1, H3. reflexivity. Qed.

Lemma atomic_of_paren n body rest t :
  thead (body ++ TkRP :: rest) = true ->
  parse_type n (body ++ TkRP :: rest) = Some (t, TkRP :: rest) ->
  parse_atomic (S (S n)) (TkLP :: body ++ TkRP :: rest) = Some (t, rest).
Proof.
  intros H1 H2. rewrite parse_atomic_S, (thead_classify_atomic _ H1). cbn [tl].
  rewrite parse_commas_S, (thead_starts_type _ H1), H2. reflexivity.
Qed.

(* the three ways a printed type is read: as an AtomicType (constructor argument), as an
   AppType (function argument), as a Type (anywhere else) *)
Definition PA (t : ty) : Prop := forall fuel rest, need t <= fuel ->
  parse_atomic fuel (pr false PConstructor t ++ rest) = Some (t, rest).
Definition PP (t : ty) : Prop := forall fuel rest, need t <= fuel -> starts_atomic rest = false ->
  parse_app fuel (pr false PFunction t ++ rest) = Some (t, rest).
Definition PT (t : ty) : Prop := forall fuel rest, need t <= fuel ->
  starts_atomic rest = false -> is_arrow rest = false ->
  parse_type fuel (pr false PTop t ++ rest) = Some (t, rest).

Lemma atom_all t : is_atom t = true -> nf t ->
  (forall fuel rest, need t <= fuel + 3 ->
     parse_atomic fuel (pr false PConstructor t ++ rest) = Some (t, rest)) ->
  PA t /\ PP t /\ PT t.
Proof.
  intros A N H. pose proof (need_ge4 t) as G. split; [|split].
  - intros fuel rest Hf. apply H. lia.
  - intros fuel rest Hf Hs. rewrite (pr_atom _ _ _ A). destruct fuel as [|n]; [lia|].
    apply app_of_atomic; [apply H; lia|exact Hs].
  - intros fuel rest Hf Hs Ha. rewrite (pr_atom _ _ _ A). destruct fuel as [|[|n]]; [lia..|].
    apply type_of_app; [apply app_of_atomic; [apply H; lia|exact Hs]| |exact Ha].
    apply ahead_classify_type, ahead_atom; assumption.
Qed.

(* functions and foralls: parenthesised everywhere except at the top *)
Lemma compound_all t :
  pr false PFunction t = paren true (pr false PTop t) ->
  pr false PConstructor t = paren true (pr false PTop t) ->
  nf t -> 8 <= need t ->
  (forall fuel rest, need t <= fuel + 4 -> starts_atomic rest = false -> is_arrow rest = false ->
     parse_type fuel (pr false PTop t ++ rest) = Some (t, rest)) ->
  PA t /\ PP t /\ PT t.
Proof.
  intros E1 E2 N G H.
  assert (A : forall fuel rest, need t <= fuel + 1 ->
            parse_atomic fuel (paren true (pr false PTop t) ++ rest) = Some (t, rest)).
  { intros fuel rest Hf. destruct fuel as [|[|n]]; [lia..|]. rewrite paren_true.
    apply atomic_of_paren; [apply thead_pr_top; exact N|]. apply H; [lia|reflexivity|reflexivity]. }
  split; [|split].
  - intros fuel rest Hf. rewrite E2. apply A. lia.
  - intros fuel rest Hf Hs. rewrite E1. destruct fuel as [|n]; [lia|].
    apply app_of_atomic; [apply A; lia|exact Hs].
  - intros fuel rest Hf Hs Ha. apply H; [lia|exact Hs|exact Ha].
Qed.

(* applications: parenthesised as constructor arguments only *)
Lemma application_all t :
  pr false PFunction t = pr false PTop t ->
  pr false PConstructor t = paren true (pr false PTop t) ->
  nf t -> 8 <= need t ->
  (forall rest, ahead (pr false PTop t ++ rest) = true) ->
  (forall fuel rest, need t <= fuel + 5 -> starts_atomic rest = false ->
     parse_app fuel (pr false PTop t ++ rest) = Some (t, rest)) ->
  PA t /\ PP t /\ PT t.
Proof.
  intros E1 E2 N G Hd H.
  assert (T : forall fuel rest, need t <= fuel + 4 -> starts_atomic rest = false -> is_arrow rest = false ->
            parse_type fuel (pr false PTop t ++ rest) = Some (t, rest)).
  { intros fuel rest Hf Hs Ha. destruct fuel as [|n]; [lia|].
    apply type_of_app; [apply H; [lia|exact Hs]|apply ahead_classify_type, Hd|exact Ha]. }
  split; [|split].
  - intros fuel rest Hf. rewrite E2. destruct fuel as [|[|n]]; [lia..|]. rewrite paren_true.
    apply atomic_of_paren; [apply thead_pr_top; exact N|]. apply T; [lia|reflexivity|reflexivity].
  - intros fuel rest Hf Hs. rewrite E1. apply H; [lia|exact Hs].
  - intros fuel rest Hf Hs Ha. apply T; [lia|exact Hs|exact Ha].
Qed.

(* ---------------------------------------------------------------------------------------- *)
(* the main induction                                                                         *)
(* ---------------------------------------------------------------------------------------- *)
Definition P_ty (t : ty) : Prop := nf t -> PA t /\ PP t /\ PT t.

Definition P_tys (l : tys) : Prop := nf_tys l ->
  (forall fuel rest, need_tys l <= fuel -> starts_atomic rest = false ->
     parse_atomics fuel (pr_args l ++ rest) = Some (l, rest))
  /\ (forall fuel rest, need_tys l <= fuel ->
     parse_commas fuel (pr_commas l ++ TkRP :: rest) = Some (l, TkRP :: rest)).

Definition P_fields (fs : fields) : Prop := forall b, nf_fields b fs ->
  (b = true -> forall fuel rest, need_fields fs <= fuel -> ffollow rest = true ->
     parse_rfields fuel (pr_fields fs ++ rest) = Some (TFNil, fs, rest))
  /\ (forall fuel rest, need_fields fs <= fuel -> ffollow rest = true ->
     parse_efields fuel (pr_fields fs ++ rest) = Some (fs, rest)).

Definition P_tfields (tfs : tfields) : Prop := nf_tfields tfs -> forall fuel fs rest,
  need_tfields tfs + need_fields fs <= fuel -> ffollow rest = true ->
  (forall f, need_fields fs <= f -> parse_rfields f (pr_fields fs ++ rest) = Some (TFNil, fs, rest)) ->
  parse_rfields fuel (pr_tfields (fields_nonempty fs) tfs ++ pr_fields fs ++ rest) = Some (tfs, fs, rest).

(* what may follow the constructors of a variant *)
Definition cfollow (ts : list token) : bool :=
  negb (starts_atomic ts) && negb (is_arrow ts) && negb (is_pipe ts) && negb (is_colon ts).

Definition P_ctors (cs : ctors) : Prop := nf_ctors cs -> forall fuel K,
  need_ctors cs <= fuel -> cfollow K = true ->
  parse_ctors fuel (pr_ctors cs ++ K) = Some (cs, K).

Definition P_orest (r : orest) : Prop := nf_rest r -> forall fuel rest,
  need_rest r <= fuel -> starts_atomic rest = false -> is_arrow rest = false ->
  (r = RNone -> is_pipe rest = false) ->
  parse_rest fuel (pr_rest r ++ rest) = Some (r, rest).

Lemma cfollow_inv K : cfollow K = true ->
  starts_atomic K = false /\ is_arrow K = false /\ is_pipe K = false /\ is_colon K = false.
Proof.
  unfold cfollow. rewrite !andb_true_iff, !negb_true_iff. tauto.
Qed.

(* the tokens after the arguments / the type of a constructor *)
Lemma ctail_ok cs K : cfollow K = true ->
  starts_atomic (pr_ctors cs ++ K) = false /\ is_arrow (pr_ctors cs ++ K) = false
  /\ is_colon (pr_ctors cs ++ K) = false.
Proof.
  intros H. apply cfollow_inv in H. destruct cs; cbn; tauto.
Qed.

Lemma args_not_colon args ts : nf_tys args -> is_colon ts = false -> is_colon (pr_args args ++ ts) = false.
Proof.
  intros N H. destruct args as [|a l]; [exact H|]. cbn [pr_args]. rewrite <- app_assoc.
  destruct N as [Na _]. pose proof (ahead_pr_con a (pr_args l ++ ts) Na) as A.
  destruct (pr false PConstructor a ++ pr_args l ++ ts) as [|[] ?]; cbn in *; try discriminate; reflexivity.
Qed.

Lemma parse_print_mutual :
  (forall t, P_ty t) /\ (forall l, P_tys l) /\ (forall fs, P_fields fs) /\ (forall tfs, P_tfields tfs)
  /\ (forall cs, P_ctors cs) /\ (forall r, P_orest r).
Proof.
  apply ty_mutind.
  - (* TId *)
    intros n N. apply atom_all; [reflexivity|exact N|]. intros fuel rest Hf.
    destruct fuel as [|f]; [cbn [need] in Hf; lia|]. reflexivity.
  - (* TFunCon *)
    intros N. apply atom_all; [reflexivity|exact N|]. intros fuel rest Hf.
    destruct fuel as [|f]; [cbn [need] in Hf; lia|]. reflexivity.
  - (* TFun *)
    intros imp a IHa r IHr N. cbn [nf] in N. destruct N as [Na Nr].
    destruct (IHa Na) as (_ & PPa & _). destruct (IHr Nr) as (_ & _ & PTr).
    apply compound_all.
    + cbn [pr]. rewrite enc_fun_fun, enc_top_fun. reflexivity.
    + cbn [pr]. rewrite enc_con_fun, enc_top_fun. reflexivity.
    + cbn [nf]. tauto.
    + cbn [need]. lia.
    + intros fuel rest Hf Hs Ha. cbn [need] in Hf. cbn [pr]. rewrite enc_top_fun. cbn [negb andb paren].
      rewrite pr_ret_top. destruct fuel as [|n]; [lia|]. destruct imp.
      * (* [a] -> r *)
        cbn [app]. rewrite <- !app_assoc. cbn [app].
        rewrite parse_type_S, (ahead_implicit _ (ahead_pr_fun a _ Na)). cbn [tl].
        destruct n as [|m]; [lia|].
        rewrite (type_of_app m _ a (TkRB :: TkArrow :: pr false PTop r ++ rest)).
        -- cbn [is_rb is_arrow tl tl2 andb]. rewrite PTr; [reflexivity|lia|exact Hs|exact Ha].
        -- apply PPa; [lia|reflexivity].
        -- apply ahead_classify_type, ahead_pr_fun, Na.
        -- reflexivity.
      * (* a -> r *)
        rewrite <- !app_assoc. cbn [app].
        rewrite parse_type_S, (ahead_classify_type _ (ahead_pr_fun a _ Na)).
        rewrite PPa; [|lia|reflexivity]. cbn [is_arrow tl].
        rewrite PTr; [reflexivity|lia|exact Hs|exact Ha].
  - (* TApp *)
    intros f IHf args IHargs N. cbn [nf] in N. destruct N as (A & Nf & Ne & Nargs & Nq).
    destruct (IHf Nf) as (PAf & _ & _). destruct (IHargs Nargs) as (PArgs & _).
    apply application_all.
    + cbn [pr]. rewrite enc_fun_con, enc_top_con. reflexivity.
    + cbn [pr]. rewrite enc_con_con, enc_top_con. reflexivity.
    + cbn [nf]. tauto.
    + cbn [need]. lia.
    + intros rest. cbn [pr]. rewrite enc_top_con. cbn [paren]. rewrite (pr_atom false PTop f A), <- app_assoc.
      apply ahead_atom; assumption.
    + intros fuel rest Hf Hs. cbn [need] in Hf. cbn [pr]. rewrite enc_top_con. cbn [paren].
      rewrite (pr_atom false PTop f A), <- app_assoc. destruct fuel as [|n]; [lia|].
      rewrite parse_app_S, PAf by lia.
      assert (St : starts_atomic (pr_args args ++ rest) = true).
      { destruct args as [|x l]; [congruence|]. cbn [pr_args]. rewrite <- app_assoc.
        apply ahead_starts_atomic, ahead_pr_con. cbn [nf_tys] in Nargs. tauto. }
      rewrite St, PArgs; [reflexivity|lia|exact Hs].
  - (* TForall *)
    intros vs t IHt N. cbn [nf] in N. destruct N as [Nv Nt]. destruct (IHt Nt) as (_ & _ & PTt).
    apply compound_all.
    + cbn [pr]. rewrite enc_fun_fun, enc_top_fun. reflexivity.
    + cbn [pr]. rewrite enc_con_fun, enc_top_fun. reflexivity.
    + cbn [nf]. tauto.
    + cbn [need]. lia.
    + intros fuel rest Hf Hs Ha. cbn [need] in Hf. cbn [pr]. rewrite enc_top_fun. cbn [paren].
      destruct fuel as [|n]; [lia|]. cbn [app]. rewrite <- app_assoc. cbn [app].
      rewrite parse_type_S. cbn [classify_type tl]. rewrite take_ids_map by reflexivity.
      destruct vs as [|v vs]; [congruence|]. cbn [is_dot tl].
      rewrite PTt; [reflexivity|lia|exact Hs|exact Ha].
  - (* TRecord *)
    intros tfs IHtfs fs IHfs rest0 IHrest N. apply atom_all; [reflexivity|exact N|].
    cbn [nf] in N. destruct N as (Ne & Ntfs & Nfs & Nrest).
    intros fuel rest Hf. cbn [need] in Hf. rewrite pr_record_brace by exact Ne.
    destruct fuel as [|n]; [lia|]. cbn [app]. rewrite <- !app_assoc. cbn [app].
    rewrite parse_atomic_S. cbn [classify_atomic tl].
    assert (Ff : ffollow (pr_rest rest0 ++ TkRC :: rest) = true) by (destruct rest0; reflexivity).
    destruct (IHfs true Nfs) as (PR & _).
    rewrite (IHtfs Ntfs n fs (pr_rest rest0 ++ TkRC :: rest)); [|lia|exact Ff|].
    + rewrite (IHrest Nrest n (TkRC :: rest)); [reflexivity|lia|reflexivity|reflexivity|reflexivity].
    + intros f Hf'. apply PR; [reflexivity|exact Hf'|exact Ff].
  - (* TVariant *)
    intros cs _ rest _ N. destruct N.
  - (* TTuple *)
    intros ts IHts N. apply atom_all; [reflexivity|exact N|].
    cbn [nf] in N. destruct N as (Ne & Nts). destruct (IHts Nts) as (_ & PC).
    intros fuel rest Hf. cbn [need] in Hf. cbn [pr]. destruct fuel as [|n]; [lia|].
    cbn [app]. rewrite <- app_assoc. cbn [app]. rewrite parse_atomic_S.
    assert (C : classify_atomic (TkLP :: pr_commas ts ++ TkRP :: rest) = AkTypes).
    { destruct ts as [|x l]; [reflexivity|]. cbn [pr_commas]. rewrite <- !app_assoc.
      apply thead_classify_atomic, thead_pr_top. cbn [nf_tys] in Nts. tauto. }
    rewrite C. cbn [tl]. rewrite PC by lia. cbn [is_rp tl].
    destruct ts as [|x [|y l]]; try reflexivity. exfalso. exact (Ne x eq_refl).
  - (* TEffect *)
    intros fs IHfs rest0 IHrest N. apply atom_all; [reflexivity|exact N|].
    cbn [nf] in N. destruct N as (Nfs & Nrest). destruct (IHfs false Nfs) as (_ & PE).
    intros fuel rest Hf. cbn [need] in Hf. cbn [pr]. destruct fuel as [|n]; [lia|].
    cbn [app]. rewrite <- !app_assoc. cbn [app]. rewrite parse_atomic_S. cbn [classify_atomic tl2 tl].
    assert (Ff : ffollow (pr_rest rest0 ++ TkPipe :: TkRB :: rest) = true) by (destruct rest0; reflexivity).
    rewrite PE; [|lia|exact Ff]. destruct rest0 as [|t0].
    + reflexivity.
    + cbn [pr_rest app is_pipe tl]. cbn [nf_rest] in Nrest.
      rewrite (thead_not_rb _ (thead_pr_top t0 _ Nrest)). cbn [andb].
      change (TkPipe :: pr false PTop t0 ++ TkPipe :: TkRB :: rest)
        with (pr_rest (RSome t0) ++ TkPipe :: TkRB :: rest).
      rewrite (IHrest Nrest n (TkPipe :: TkRB :: rest)); [reflexivity|cbn [need_rest] in *; lia|reflexivity|reflexivity|congruence].
  - (* TNil *)
    intros _. split.
    + intros fuel rest Hf Hs. cbn [need_tys] in Hf. destruct fuel as [|n]; [lia|].
      cbn [pr_args app]. rewrite parse_atomics_S, Hs. reflexivity.
    + intros fuel rest Hf. cbn [need_tys] in Hf. destruct fuel as [|n]; [lia|]. reflexivity.
  - (* TCons *)
    intros t IHt l IHl N. cbn [nf_tys] in N. destruct N as [Nt Nl].
    destruct (IHt Nt) as (PAt & _ & PTt). destruct (IHl Nl) as (PAl & PCl). split.
    + intros fuel rest Hf Hs. cbn [need_tys] in Hf. destruct fuel as [|n]; [lia|].
      cbn [pr_args]. rewrite <- app_assoc. rewrite parse_atomics_S.
      rewrite (ahead_starts_atomic _ (ahead_pr_con t _ Nt)). rewrite PAt by lia.
      rewrite PAl; [reflexivity|lia|exact Hs].
    + intros fuel rest Hf. cbn [need_tys] in Hf. destruct fuel as [|n]; [lia|].
      cbn [pr_commas]. rewrite <- !app_assoc. rewrite parse_commas_S.
      rewrite (thead_starts_type _ (thead_pr_top t _ Nt)).
      destruct l as [|y l'].
      * cbn [app]. rewrite PTt; [reflexivity|lia|reflexivity|reflexivity].
      * cbn [app]. rewrite PTt; [|lia|reflexivity|reflexivity]. cbn [is_comma tl].
        rewrite PCl; [reflexivity|lia].
  - (* FNil *)
    intros b _. split.
    + intros _ fuel rest Hf Hr. cbn [need_fields] in Hf. destruct fuel as [|n]; [lia|].
      cbn [pr_fields app]. rewrite parse_rfields_S, (ffollow_fname _ Hr). reflexivity.
    + intros fuel rest Hf Hr. cbn [need_fields] in Hf. destruct fuel as [|n]; [lia|].
      cbn [pr_fields app]. rewrite parse_efields_S, (ffollow_fname _ Hr). reflexivity.
  - (* FCons *)
    intros n t IHt fs IHfs b N. cbn [nf_fields] in N. destruct N as (Nn & Nt & Nfs).
    destruct (IHt Nt) as (_ & _ & PTt). destruct (IHfs b Nfs) as (PR & PE). split.
    + intros Hb fuel rest Hf Hr. cbn [need_fields] in Hf. destruct fuel as [|m]; [lia|].
      cbn [pr_fields]. rewrite <- !app_assoc. cbn [app]. rewrite <- !app_assoc.
      rewrite parse_rfields_S, parse_fname_print. cbn [is_colon tl].
      rewrite (Nn Hb). destruct fs as [|n' t' fs'].
      * cbn [app]. rewrite PTt; [|lia|apply ffollow_atomic, Hr|apply ffollow_arrow, Hr].
        rewrite (ffollow_comma _ Hr). reflexivity.
      * cbn [app]. rewrite PTt; [|lia|reflexivity|reflexivity]. cbn [is_comma tl].
        rewrite (PR Hb); [reflexivity|lia|exact Hr].
    + intros fuel rest Hf Hr. cbn [need_fields] in Hf. destruct fuel as [|m]; [lia|].
      cbn [pr_fields]. rewrite <- !app_assoc. cbn [app]. rewrite <- !app_assoc.
      rewrite parse_efields_S, parse_fname_print. cbn [is_colon tl].
      destruct fs as [|n' t' fs'].
      * cbn [app]. rewrite PTt; [|lia|apply ffollow_atomic, Hr|apply ffollow_arrow, Hr].
        rewrite (ffollow_comma _ Hr). reflexivity.
      * cbn [app]. rewrite PTt; [|lia|reflexivity|reflexivity]. cbn [is_comma tl].
        rewrite PE; [reflexivity|lia|exact Hr].
  - (* TFNil *)
    intros _ fuel fs rest Hf Hr H. cbn [pr_tfields app]. apply H. cbn [need_tfields] in Hf. lia.
  - (* TFCons *)
    intros n ps t IHt tfs IHtfs N fuel fs rest Hf Hr H. cbn [nf_tfields] in N. destruct N as [Nt Ntfs].
    destruct (IHt Nt) as (_ & _ & PTt). cbn [need_tfields] in Hf. destruct fuel as [|m]; [lia|].
    cbn [pr_tfields]. cbn [app]. rewrite <- !app_assoc. cbn [app]. rewrite <- !app_assoc.
    rewrite parse_rfields_S. cbn [parse_fname]. rewrite is_colon_ids.
    rewrite take_ids_map by reflexivity. cbn [is_eq tl].
    destruct tfs as [|n' ps' t' tfs'].
    + destruct fs as [|fn ft fs'].
      * cbn [fields_nonempty pr_tfields pr_fields app].
        rewrite PTt; [|lia|apply ffollow_atomic, Hr|apply ffollow_arrow, Hr].
        rewrite (ffollow_comma _ Hr). reflexivity.
      * cbn [fields_nonempty pr_tfields app].
        rewrite PTt; [|lia|reflexivity|reflexivity]. cbn [is_comma tl].
        rewrite H; [reflexivity|lia].
    + cbn [app]. rewrite PTt; [|lia|reflexivity|reflexivity]. cbn [is_comma tl].
      rewrite (IHtfs Ntfs m fs rest); [reflexivity|lia|exact Hr|exact H].
  - (* CNil *)
    intros _ fuel K Hf HK. cbn [need_ctors] in Hf. destruct fuel as [|n]; [lia|].
    cbn [pr_ctors app]. rewrite parse_ctors_S. apply cfollow_inv in HK. destruct HK as (_ & _ & Hp & _).
    rewrite Hp. reflexivity.
  - (* CSimple *)
    intros n args IHargs cs IHcs N fuel K Hf HK. cbn [nf_ctors] in N. destruct N as (Un & Nargs & Ncs).
    destruct (IHargs Nargs) as (PArgs & _). cbn [need_ctors] in Hf. destruct fuel as [|m]; [lia|].
    cbn [pr_ctors]. cbn [app]. rewrite <- !app_assoc.
    rewrite parse_ctors_S. cbn [is_pipe tl tl2 ctor_name]. rewrite Un. cbn [negb].
    destruct (ctail_ok cs K HK) as (T1 & T2 & T3).
    rewrite (args_not_colon args _ Nargs T3).
    rewrite PArgs; [|lia|exact T1]. rewrite (IHcs Ncs m K); [reflexivity|lia|exact HK].
  - (* CGadt *)
    intros n t IHt cs IHcs N fuel K Hf HK. cbn [nf_ctors] in N. destruct N as (Un & Nt & Et & Ncs).
    assert (PTt : PT t).
    { (* the type of a GADT constructor: variant-free normal form *) exact (proj2 (proj2 (IHt Nt))). }
    cbn [need_ctors] in Hf. destruct fuel as [|m]; [lia|].
    cbn [pr_ctors]. cbn [app]. rewrite <- !app_assoc.
    rewrite parse_ctors_S. cbn [is_pipe tl tl2 tl3 ctor_name is_colon]. rewrite Un. cbn [negb].
    destruct (ctail_ok cs K HK) as (T1 & T2 & T3).
    rewrite PTt; [|lia|exact T1|exact T2]. rewrite Et. rewrite (IHcs Ncs m K); [reflexivity|lia|exact HK].
  - (* RNone *)
    intros _ fuel rest Hf Hs Ha Hp. cbn [need_rest] in Hf. destruct fuel as [|n]; [lia|].
    cbn [pr_rest app]. rewrite parse_rest_S, (Hp eq_refl). reflexivity.
  - (* RSome *)
    intros t IHt N fuel rest Hf Hs Ha _. cbn [nf_rest] in N. destruct (IHt N) as (_ & _ & PTt).
    cbn [need_rest] in Hf. destruct fuel as [|n]; [lia|].
    cbn [pr_rest app]. rewrite parse_rest_S. cbn [is_pipe tl].
    rewrite PTt; [reflexivity|lia|exact Hs|exact Ha].
Qed.

(* ---------------------------------------------------------------------------------------- *)
(* theorems                                                                                   *)
(* ---------------------------------------------------------------------------------------- *)

(* General form, at the three precedences the printer uses.  [rest] is what follows the type;
   it must not be able to extend it: no token that starts another atomic type (it would be
   read as one more argument), and at the top no `->` either. *)
Theorem parse_print_general : forall t, nf t ->
  (forall fuel rest, fuel_for t <= fuel -> starts_atomic rest = false -> is_arrow rest = false ->
     parse_type fuel (print PTop t ++ rest) = Some (t, rest))
  /\ (forall fuel rest, fuel_for t <= fuel -> starts_atomic rest = false ->
     parse_app fuel (print PFunction t ++ rest) = Some (t, rest))
  /\ (forall fuel rest, fuel_for t <= fuel ->
     parse_atomic fuel (print PConstructor t ++ rest) = Some (t, rest)).
Proof.
  intros t N. destruct (proj1 parse_print_mutual t N) as (A & P & T). unfold print, fuel_for.
  split; [exact T|split; [exact P|exact A]].
Qed.

Theorem parse_print : forall t, nf t -> parse_type (fuel_for t) (print PTop t) = Some (t, []).
Proof.
  intros t N. destruct (parse_print_general t N) as (T & _).
  specialize (T (fuel_for t) [] (le_n _) eq_refl eq_refl). rewrite app_nil_r in T. exact T.
Qed.

(* the body of a type declaration that is a variant *)
Theorem parse_top_print : forall t, vnf t -> parse_top (fuel_for t) (print PTop t) = Some (t, []).
Proof.
  intros t V. destruct t; try (destruct V; fail). cbn [vnf] in V. destruct V as [Ncs Vr].
  pose proof (proj1 (proj2 (proj2 (proj2 (proj2 parse_print_mutual)))) cs Ncs) as PC.
  unfold print, fuel_for. cbn [pr need]. rewrite enc_top_con. cbn [paren].
  destruct rest as [|r].
  - (* closed variant *)
    cbn [pr_vrest]. rewrite app_nil_r.
    assert (Hp : is_pipe (pr_ctors cs) = true) by (destruct cs; [congruence|reflexivity|reflexivity]).
    assert (Hd : is_dotdot (pr_ctors cs) = false) by (destruct cs; reflexivity).
    unfold parse_top, parse_variant. rewrite Hd, Hp.
    pose proof (PC (8 + need_ctors cs + need_rest RNone) [] ltac:(lia) eq_refl) as E.
    rewrite app_nil_r in E. rewrite E. reflexivity.
  - (* open variant: the tail is one atom *)
    destruct Vr as [Nr Ar]. destruct (proj1 parse_print_mutual r Nr) as (PAr & _ & _).
    cbn [pr_vrest]. rewrite (pr_atom false PTop r Ar).
    assert (Er : forall fuel, need r <= fuel -> parse_atomic fuel (pr false PConstructor r) = Some (r, [])).
    { intros fuel Hf. pose proof (PAr fuel [] Hf) as E. rewrite app_nil_r in E. exact E. }
    destruct cs as [|n args cs'|n t0 cs'].
    + cbn [pr_ctors app]. unfold parse_top. cbn [is_dotdot tl]. rewrite Er by (cbn [need_rest]; lia). reflexivity.
    + unfold parse_top, parse_variant.
      cbn [is_dotdot is_pipe pr_ctors app].
      change (TkPipe :: TkId n :: (pr_args args ++ pr_ctors cs') ++ TkDotDot :: pr false PConstructor r)
        with (pr_ctors (CSimple n args cs') ++ TkDotDot :: pr false PConstructor r).
      rewrite PC; [|lia|reflexivity]. cbn [is_dotdot tl]. rewrite Er by (cbn [need_rest]; lia). reflexivity.
    + unfold parse_top, parse_variant.
      cbn [is_dotdot is_pipe pr_ctors app].
      change (TkPipe :: TkId n :: TkColon :: (pr false PTop t0 ++ pr_ctors cs') ++ TkDotDot :: pr false PConstructor r)
        with (pr_ctors (CGadt n t0 cs') ++ TkDotDot :: pr false PConstructor r).
      rewrite PC; [|lia|reflexivity]. cbn [is_dotdot tl]. rewrite Er by (cbn [need_rest]; lia). reflexivity.
Qed.

(* any other body of a type declaration (e.g. the record `make_source` generates) *)
Definition lp_pipe (ts : list token) : bool :=
  match ts with TkLP :: TkPipe :: _ => true | _ => false end.

Lemma thead_not_pipe ts : thead ts = true -> is_pipe ts = false.
Proof. intros H. tok_cases ts. Qed.
Lemma thead_not_dotdot ts : thead ts = true -> is_dotdot ts = false.
Proof. intros H. tok_cases ts. Qed.

Lemma lp_pipe_commas ts rest : nf_tys ts -> lp_pipe (TkLP :: pr_commas ts ++ rest) = false \/ ts = TNil.
Proof.
  intros N. destruct ts as [|x l]; [right; reflexivity|left]. cbn [pr_commas]. rewrite <- app_assoc.
  cbn [nf_tys] in N. destruct N as [Nx _]. pose proof (thead_not_pipe _ (thead_pr_top x (match l with TNil => [] | TCons _ _ => TkComma :: pr_commas l end ++ rest) Nx)) as H.
  destruct (pr false PTop x ++ _) as [|[] ?]; cbn in *; try discriminate; reflexivity.
Qed.

Lemma paren_lp_pipe t rest : nf t -> lp_pipe (TkLP :: pr false PTop t ++ rest) = false.
Proof.
  intros N. pose proof (thead_not_pipe _ (thead_pr_top t rest N)) as H.
  destruct (pr false PTop t ++ rest) as [|[] ?]; cbn in *; try discriminate; reflexivity.
Qed.

Lemma atom_lp_pipe t rest : is_atom t = true -> nf t -> lp_pipe (pr false PConstructor t ++ rest) = false.
Proof.
  destruct t; cbn [is_atom]; intros A N; try discriminate; try reflexivity.
  - cbn [nf] in N. destruct N as [N _]. rewrite pr_record_brace by exact N. reflexivity.
  - cbn [nf] in N. destruct N as [_ N]. cbn [pr]. cbn [app]. rewrite <- app_assoc.
    destruct (lp_pipe_commas ts ([TkRP] ++ rest) N) as [H|H]; [exact H|]. subst ts. reflexivity.
Qed.

Lemma pr_fun_paren i a r : pr false PFunction (TFun i a r) = paren true (pr false PTop (TFun i a r)).
Proof. cbn [pr]. rewrite enc_fun_fun, enc_top_fun. reflexivity. Qed.
Lemma pr_forall_paren vs t : pr false PFunction (TForall vs t) = paren true (pr false PTop (TForall vs t)).
Proof. cbn [pr]. rewrite enc_fun_fun, enc_top_fun. reflexivity. Qed.

Lemma top_lp_pipe t rest : nf t -> lp_pipe (pr false PTop t ++ rest) = false.
Proof.
  intros N. destruct t;
    try (rewrite pr_atom by reflexivity; apply atom_lp_pipe; [reflexivity|exact N]).
  - (* TFun *)
    cbn [pr]. rewrite enc_top_fun. cbn [negb andb paren]. cbn [nf] in N. destruct N as [Na _].
    destruct imp; [reflexivity|]. rewrite <- !app_assoc.
    destruct t1; try (rewrite pr_atom by reflexivity; apply atom_lp_pipe; [reflexivity|exact Na]).
    + rewrite pr_fun_paren, paren_true. apply paren_lp_pipe. exact Na.
    + cbn [pr]. rewrite enc_fun_con. cbn [paren]. cbn [nf] in Na. destruct Na as (A & Nf & _).
      rewrite (pr_atom false PTop t1 A). rewrite <- !app_assoc. apply atom_lp_pipe; assumption.
    + rewrite pr_forall_paren, paren_true. apply paren_lp_pipe. exact Na.
    + destruct Na.
  - (* TApp *)
    cbn [pr]. rewrite enc_top_con. cbn [paren]. cbn [nf] in N. destruct N as (A & Nf & _).
    rewrite (pr_atom false PTop t A). rewrite <- app_assoc. apply atom_lp_pipe; assumption.
  - (* TForall *)
    cbn [pr]. rewrite enc_top_fun. reflexivity.
  - destruct N.
Qed.

Lemma ahead_no_forall_variant ts : ahead ts = true -> forall_variant ts = false.
Proof. intros H. tok_cases ts. Qed.

Lemma top_no_forall_variant t : nf t -> forall_variant (pr false PTop t) = false.
Proof.
  intros N. destruct t;
    try (rewrite pr_atom by reflexivity; rewrite <- (app_nil_r (pr false PConstructor _));
         apply ahead_no_forall_variant, ahead_atom; [reflexivity|exact N]).
  - (* TFun *)
    cbn [pr]. rewrite enc_top_fun. cbn [negb andb paren]. cbn [nf] in N. destruct N as [Na _].
    destruct imp; [reflexivity|]. apply ahead_no_forall_variant, ahead_pr_fun, Na.
  - (* TApp *)
    cbn [pr]. rewrite enc_top_con. cbn [paren]. cbn [nf] in N. destruct N as (A & Nf & _).
    rewrite (pr_atom false PTop t A). apply ahead_no_forall_variant, ahead_atom; assumption.
  - (* TForall: the body is not a parenthesised variant *)
    cbn [pr]. rewrite enc_top_fun. cbn [paren forall_variant]. rewrite take_ids_map by reflexivity.
    cbn [nf] in N. destruct N as [Nv Nt]. destruct vs as [|v vs]; [congruence|].
    pose proof (top_lp_pipe t [] Nt) as L. rewrite app_nil_r in L.
    destruct (pr false PTop t) as [|[] [|[] ?]]; cbn in L; try discriminate; reflexivity.
  - destruct N.
Qed.

Theorem parse_top_print_nf : forall t, nf t -> parse_top (fuel_for t) (print PTop t) = Some (t, []).
Proof.
  intros t N. pose proof (parse_print t N) as E. unfold parse_top.
  pose proof (thead_pr_top t [] N) as H. rewrite app_nil_r in H. unfold print in *.
  rewrite (thead_not_dotdot _ H), (thead_not_pipe _ H), (top_no_forall_variant t N). exact E.
Qed.

(* --- the statement is false for a variant below the root --------------------------------- *)
Lemma pipe_atomic_none fuel r : parse_atomic fuel (TkPipe :: r) = None.
Proof. destruct fuel; reflexivity. Qed.
Lemma pipe_app_none fuel r : parse_app fuel (TkPipe :: r) = None.
Proof. destruct fuel; [reflexivity|]. rewrite parse_app_S, pipe_atomic_none. reflexivity. Qed.
Lemma pipe_type_none fuel r : parse_type fuel (TkPipe :: r) = None.
Proof. destruct fuel; [reflexivity|]. rewrite parse_type_S. cbn [classify_type]. rewrite pipe_app_none. reflexivity. Qed.

(* `{ x : | A }`: a record with a field whose type is the variant `| A` *)
Definition refuted_witness : ty :=
  TRecord TFNil (FCons (FId 2) (TVariant (CSimple 1 TNil CNil) RNone) FNil) RNone.

Lemma refuted_tokens : print PTop refuted_witness = [TkLC; TkId 2; TkColon; TkPipe; TkId 1; TkRC].
Proof. reflexivity. Qed.

Theorem parse_print_refuted : exists t,
  (forall fuel, parse_type fuel (print PTop t) = None) /\
  (forall fuel, parse_top fuel (print PTop t) = None).
Proof.
  exists refuted_witness. rewrite refuted_tokens.
  assert (R : forall fuel, parse_rfields fuel [TkId 2; TkColon; TkPipe; TkId 1; TkRC] = None).
  { destruct fuel; [reflexivity|]. rewrite parse_rfields_S. cbn [parse_fname is_colon fname_upper upper Nat.odd Nat.even negb tl].
    rewrite pipe_type_none. reflexivity. }
  assert (A : forall fuel, parse_atomic fuel [TkLC; TkId 2; TkColon; TkPipe; TkId 1; TkRC] = None).
  { destruct fuel; [reflexivity|]. rewrite parse_atomic_S. cbn [classify_atomic tl]. rewrite R. reflexivity. }
  assert (P : forall fuel, parse_app fuel [TkLC; TkId 2; TkColon; TkPipe; TkId 1; TkRC] = None).
  { destruct fuel; [reflexivity|]. rewrite parse_app_S, A. reflexivity. }
  assert (T : forall fuel, parse_type fuel [TkLC; TkId 2; TkColon; TkPipe; TkId 1; TkRC] = None).
  { destruct fuel; [reflexivity|]. rewrite parse_type_S. cbn [classify_type]. rewrite P. reflexivity. }
  split; [exact T|]. intros fuel. unfold parse_top. cbn [is_dotdot is_pipe forall_variant]. apply T.
Qed.

(* --- the parentheses the printer emits are needed ------------------------------------------ *)
Lemma need_fun_neq a b : a <> TFun false a b.
Proof. intros E. apply (f_equal need) in E. cbn [need] in E. lia. Qed.

(* A function in argument position is printed `( a -> b ) -> c`; the same tokens without the
   parentheses are read as `a -> (b -> c)`, a different type.  ([b] is an atom so that it is
   printed alike in both positions; [a] and [c] are arbitrary.) *)
Theorem print_needs_parens : forall a b c, nf a -> nf b -> is_atom b = true -> nf c ->
  let t := TFun false (TFun false a b) c in
  let inner := print PTop (TFun false a b) in
  print PTop t = TkLP :: inner ++ TkRP :: TkArrow :: print PTop c
  /\ parse_type (fuel_for t) (inner ++ TkArrow :: print PTop c) = Some (TFun false a (TFun false b c), [])
  /\ TFun false a (TFun false b c) <> t.
Proof.
  intros a b c Na Nb Ab Nc t inner. subst t inner. unfold print. split; [|split].
  - cbn [pr]. rewrite enc_fun_fun, enc_top_fun. cbn [negb andb paren]. rewrite !pr_ret_top.
    cbn [app]. rewrite <- !app_assoc. reflexivity.
  - assert (N : nf (TFun false a (TFun false b c))) by (cbn [nf]; tauto).
    pose proof (parse_print _ N) as E. unfold print, fuel_for in *.
    replace (need (TFun false (TFun false a b) c)) with (need (TFun false a (TFun false b c))) by (cbn [need]; lia).
    rewrite <- E. f_equal. cbn [pr]. rewrite ?enc_top_fun. cbn [negb andb paren]. rewrite ?pr_ret_top.
    rewrite (pr_atom false PTop b Ab), (pr_atom false PFunction b Ab). rewrite <- ?app_assoc. reflexivity.
  - intros E. injection E as E1 E2. exact (need_fun_neq a b E1).
Qed.

(* An application as a constructor argument is printed `f ( g x )`; without the parentheses
   the tokens are read as `f` applied to two arguments. *)
Theorem print_needs_parens_app : forall f g x : name,
  let t := TApp (TId f) (TCons (TApp (TId g) (TCons (TId x) TNil)) TNil) in
  print PTop t = [TkId f; TkLP; TkId g; TkId x; TkRP]
  /\ parse_type (fuel_for t) [TkId f; TkId g; TkId x]
     = Some (TApp (TId f) (TCons (TId g) (TCons (TId x) TNil)), [])
  /\ TApp (TId f) (TCons (TId g) (TCons (TId x) TNil)) <> t.
Proof.
  intros f g x t. subst t. split; [|split].
  - unfold print. cbn [pr pr_args]. rewrite enc_top_con, enc_con_con. reflexivity.
  - reflexivity.
  - discriminate.
Qed.
