(* C08 — verified validator for the output of the layout algorithm (tie V).

   Input: the raw token stream [a] of a source (hook gluon_parser::verif::tokens, ends with EOF)
   and the stream [b] the layout algorithm (parser/src/layout.rs) produced from it (hook
   gluon_parser::verif::layout_tokens), both as (kind, start, end) triples.  Kinds 1..12 are fixed
   (see below); every other token carries a number identifying the token and its payload.

   [layout_ok clean a b] checks
     1. erasing the virtual tokens from [b] gives exactly the real tokens of [a], in order
        (when the run ended with an error: a prefix of them);
     2. on clean runs: the virtual blocks and the real brackets of [b] are balanced and properly
        nested, and a virtual `;` only occurs directly inside a virtual block;
     3. on clean runs: every virtual token carries the span of a neighbouring real token (the next
        real token, the previous one, or EOF).

   Which tokens are virtual: OpenBlock, CloseBlock and Semi always are.  An `In` token is virtual
   exactly when the next non-block token has the same span (layout.rs:222-230 `layout_token` gives
   the inserted token the span of the token it is inserted in front of, :470-507), a written `in`
   has its own span.
   Definitions only (extracted, coq/extract/c08rt); theorems in LayoutCheckProofs.v. *)
From Coq Require Import List NArith Bool.
Import ListNotations.
Local Open Scope N_scope.

Record tok : Set := Tok { kind : N; lo : N; hi : N }.

Definition K_OPEN : N := 1.     (* Token::OpenBlock *)
Definition K_CLOSE : N := 2.    (* Token::CloseBlock *)
Definition K_SEMI : N := 3.     (* Token::Semi *)
Definition K_IN : N := 4.       (* Token::In *)
Definition K_LPAREN : N := 5.
Definition K_RPAREN : N := 6.
Definition K_LBRACE : N := 7.
Definition K_RBRACE : N := 8.
Definition K_LBRACKET : N := 9.
Definition K_RBRACKET : N := 10.
Definition K_ATTR : N := 11.    (* Token::AttributeOpen `#[`, closed by `]` *)
Definition K_EOF : N := 12.

Definition is_ocs (t : tok) : bool := (kind t =? K_OPEN) || (kind t =? K_CLOSE) || (kind t =? K_SEMI).
Definition same_span (x y : tok) : bool := (lo x =? lo y) && (hi x =? hi y).
Definition tok_eqb (x y : tok) : bool := (kind x =? kind y) && same_span x y.

Fixpoint next_real (l : list tok) : option tok :=
  match l with
  | [] => None
  | t :: l' => if is_ocs t then next_real l' else Some t
  end.

Definition span_of (t : tok) (o : option tok) : bool :=
  match o with Some r => same_span t r | None => false end.

(* t followed by l: is t a virtual token? *)
Definition is_virtual (t : tok) (l : list tok) : bool :=
  is_ocs t || ((kind t =? K_IN) && span_of t (next_real l)).

Fixpoint erase_virtual (b : list tok) : list tok :=
  match b with
  | [] => []
  | t :: b' => if is_virtual t b' then erase_virtual b' else t :: erase_virtual b'
  end.

Definition real_tokens (a : list tok) : list tok := filter (fun t => negb (kind t =? K_EOF)) a.
Definition eof_of (a : list tok) : option tok := find (fun t => kind t =? K_EOF) a.

Fixpoint toks_eqb (x y : list tok) : bool :=
  match x, y with
  | [], [] => true
  | t :: x', u :: y' => tok_eqb t u && toks_eqb x' y'
  | _, _ => false
  end.
Fixpoint toks_prefix (x y : list tok) : bool :=
  match x, y with
  | [], _ => true
  | t :: x', u :: y' => tok_eqb t u && toks_prefix x' y'
  | _ :: _, [] => false
  end.

(* ---- balance ---- *)
Definition closer_of (k : N) : option N :=
  if k =? K_OPEN then Some K_CLOSE
  else if k =? K_LPAREN then Some K_RPAREN
  else if k =? K_LBRACE then Some K_RBRACE
  else if k =? K_LBRACKET then Some K_RBRACKET
  else if k =? K_ATTR then Some K_RBRACKET
  else None.
Definition is_closer (k : N) : bool :=
  (k =? K_CLOSE) || (k =? K_RPAREN) || (k =? K_RBRACE) || (k =? K_RBRACKET).

(* stack = the closers still expected, innermost first *)
Fixpoint balanced (stack : list N) (l : list tok) : bool :=
  match l with
  | [] => match stack with [] => true | _ => false end
  | t :: l' =>
      match closer_of (kind t) with
      | Some c => balanced (c :: stack) l'
      | None =>
          if is_closer (kind t) then
            match stack with
            | c :: s => (c =? kind t) && balanced s l'
            | [] => false
            end
          else
            (* a virtual `;` separates the statements of the innermost virtual block *)
            (if kind t =? K_SEMI then match stack with c :: _ => c =? K_CLOSE | [] => false end else true)
            && balanced stack l'
      end
  end.

(* ---- positions of the block tokens ---- *)
Fixpoint positions_ok (eof prev : option tok) (b : list tok) : bool :=
  match b with
  | [] => true
  | t :: b' =>
      if is_ocs t then
        (span_of t (next_real b') || span_of t prev ||
         (match next_real b' with None => span_of t eof | Some _ => false end))
        && positions_ok eof prev b'
      else positions_ok eof (Some t) b'
  end.

(* trailing virtual-kind tokens of a stream that was cut short by an error *)
Definition vkind (t : tok) : bool := is_ocs t || (kind t =? K_IN).
Fixpoint trim_rev (r : list tok) : list tok :=
  match r with
  | t :: r' => if vkind t then trim_rev r' else r
  | [] => []
  end.
Definition trim (b : list tok) : list tok := rev (trim_rev (rev b)).

Definition layout_ok (clean : bool) (a b : list tok) : bool :=
  if clean then
    toks_eqb (erase_virtual b) (real_tokens a) && balanced [] b && positions_ok (eof_of a) None b
  else
    toks_prefix (erase_virtual (trim b)) (real_tokens a).

(* diagnostics for the driver only *)
Definition which_fails (a b : list tok) : N :=
  if negb (toks_eqb (erase_virtual b) (real_tokens a)) then 1
  else if negb (balanced [] b) then 2
  else if negb (positions_ok (eof_of a) None b) then 3 else 0.
