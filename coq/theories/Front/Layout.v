(* C08 — Gallina port of the offside / layout algorithm, parser/src/layout.rs.

   Executable definitions only (extracted, coq/extract/c08rt); the termination theorem is in
   LayoutProofs.v.  The port follows the Rust code statement by statement (line numbers of
   parser/src/layout.rs in comments); it is brought up against the implementation by running it on
   the raw token stream of every generated source and every .glu file and comparing its output
   with gluon_parser::verif::layout_tokens token by token (harness c08rt, obligation
   correspondence:layout-model).

   The context type, `token_closes_context`, the `push_context` table and the flag
   [close_block_resets_semi] come from gen/LayoutTablesGen.v, regenerated from layout.rs on every
   run (harness/src/tr/layout_tables.rs).

   Tokens: the algorithm only looks at the kind of a token (for the kinds below), at the line and
   column of its start, and copies spans; [code] is the harness's number for the token (kind and
   payload), used to compare outputs. *)
From Coq Require Import List NArith Bool.
From GV Require Export Front.LayoutBase.
From GVgen Require Export LayoutTablesGen.
Import ListNotations.
Local Open Scope N_scope.

Record offside : Set := Off { oline : N; ocol : N; octx : ctx }.

Record state : Set := St {
  toks : list mtok;      (* what the tokenizer has not produced yet *)
  eof : mtok;            (* the tokenizer yields EOF forever once the input is exhausted (token.rs:847) *)
  unp : list mtok;       (* `unprocessed_tokens`, top of the Vec first *)
  stack : list offside   (* `indent_levels`, innermost first *)
}.

Definition set_toks (st : state) (x : list mtok) : state := St x (eof st) (unp st) (stack st).
Definition set_unp (st : state) (x : list mtok) : state := St (toks st) (eof st) x (stack st).
Definition set_stack (st : state) (x : list offside) : state := St (toks st) (eof st) (unp st) x.

Definition is_block (c : ctx) : bool := match c with CBlock _ => true | _ => false end.

(* layout.rs:88-118 `check_unindentation_limit`, true = Ok *)
Fixpoint check_unind (c : N) (skip : bool) (s : list offside) : bool :=
  match s with
  | [] => true
  | o :: r =>
      match octx o with
      | CLambda => check_unind c true r
      | CBlock _ => if skip then check_unind c skip r
                    else if c <? ocol o then false else check_unind c skip r
      | CBrace | CBracket | CParen => true
      | CMatchClause | CType | CRec | CLet => if c <? ocol o then false else check_unind c skip r
      | _ => check_unind c skip r
      end
  end.

(* layout.rs:82-86 `Contexts::push` *)
Definition push_ctx (st : state) (o : offside) : option state :=
  if check_unind (ocol o) false (stack st) then Some (set_stack st (o :: stack st)) else None.

(* layout.rs:199-220 *)
Definition next_token (st : state) : mtok * state :=
  match unp st with
  | t :: u => (t, set_unp st u)
  | [] => match toks st with
          | t :: r => (t, set_toks st r)
          | [] => (eof st, st)
          end
  end.

(* layout.rs:222-230 *)
Definition layout_token (st : state) (t : mtok) (kd : tk) : mtok * state :=
  (virt kd t, set_unp st (t :: unp st)).

(* "The enclosing block should not emit a block separator for the next expression" *)
Definition set_top_semi (b : bool) (s : list offside) : list offside :=
  match s with
  | o :: r => match octx o with
              | CBlock _ => Off (oline o) (ocol o) (CBlock b) :: r
              | _ => s
              end
  | [] => []
  end.

Definition off_at (t : mtok) (c : ctx) : offside := Off (line t) (col t) c.

(* `self.indent_levels.stack.iter().find(is block)`: the OUTERMOST block context *)
Definition first_block_col (s : list offside) : option N :=
  match find (fun o => is_block (octx o)) (rev s) with Some o => Some (ocol o) | None => None end.

(* layout.rs:232-275 *)
Definition scan_for_next_block (st : state) (c : ctx) : option state :=
  let (next, st1) := next_token st in
  let st2 := set_unp st1 (next :: unp st1) in
  if is_block c then
    match first_block_col (stack st2) with
    | Some lc =>
        if col next <=? lc then
          push_ctx (set_unp st2 (virt TOpenBlock next :: virt TCloseBlock next :: unp st2)) (off_at next c)
        else push_ctx (set_unp st2 (virt TOpenBlock next :: unp st2)) (off_at next c)
    | None => push_ctx (set_unp st2 (virt TOpenBlock next :: unp st2)) (off_at next c)
    end
  else push_ctx st2 (off_at next c).

(* layout.rs:182-197 `peek_token(n)`: pull tokens until more than n are buffered, look at the one
   pulled last (Vec index 0 = the end of [unp]) *)
Fixpoint pull (cnt : nat) (st : state) : state :=
  match cnt with
  | O => st
  | S c =>
      match toks st with
      | t :: r => pull c (St r (eof st) (unp st ++ [t]) (stack st))
      | [] => pull c (St [] (eof st) (unp st ++ [eof st]) (stack st))
      end
  end.
Definition peek_token (n : nat) (st : state) : option mtok * state :=
  let st' := pull (S n - length (unp st)) st in
  (last (map Some (unp st')) None, st').

(* layout.rs:148-183; [fuel] bounds the look-ahead (None = out of fuel; since the EOF arm
   :173-175 the Rust loop stops at the end of the input at the latest) *)
Fixpoint scan_continue (fuel : nat) (i : nat) (in_attr : bool) (expected : tk) (first : mtok) (st : state)
  : option (bool * state) :=
  match fuel with
  | O => None
  | S f =>
      let (pk, st1) := match i with O => (Some first, st) | S j => peek_token j st end in
      match pk with
      | None => Some (false, st1)
      | Some p =>
          if tk_eqb (k p) expected then Some (true, st1)
          else match k p with
               | TAttributeOpen => scan_continue f (S i) true expected first st1
               | TDocComment => scan_continue f (S i) in_attr expected first st1
               | TRBracket => scan_continue f (S i) false expected first st1
               | TEOF => Some (false, st1)       (* :173-175 *)
               | _ => if in_attr then scan_continue f (S i) in_attr expected first st1
                      else Some (false, st1)
               end
      end
  end.

Definition second_is_rec (s : list offside) : bool :=
  match s with _ :: o :: _ => match octx o with CRec => true | _ => false end | _ => false end.

(* layout.rs:139-146 *)
Definition continue_block (fuel : nat) (c : ctx) (t : mtok) (st : state) : option (bool * state) :=
  if second_is_rec (stack st) then
    match k t with
    | TRec => Some (false, st)
    | _ =>
        match c with
        | CLet => scan_continue fuel 0 false TLet t st
        | CType => scan_continue fuel 0 false TType t st
        | _ => Some (false, st)
        end
    end
  else Some (false, st).

Inductive step_res : Set :=
| SRet (t : mtok) (st : state)     (* `return Ok(token)` *)
| SCont (t : mtok) (st : state)    (* `continue` *)
| SErr                             (* UnindentedTooFar *)
| SPanic                           (* `expect("No top level block found")` / unwrap on None *)
| SHang.                           (* look-ahead fuel exhausted *)

Definition is_closing (t : tk) : bool :=
  match t with TIn | TCloseBlock | TElse | TRBrace | TRBracket | TRParen | TComma => true | _ => false end.

Definition ctx_eqb (a b : ctx) : bool :=
  match a, b with
  | CBlock x, CBlock y => Bool.eqb x y
  | CBrace, CBrace | CBracket, CBracket | CParen, CParen | CExpr, CExpr | CLet, CLet | CRec, CRec
  | CType, CType | CIf, CIf | CMatchClause, CMatchClause | CLambda, CLambda | CAttribute, CAttribute => true
  | _, _ => false
  end.

Definition ret_push (t : mtok) (o : option state) : step_res :=
  match o with Some st => SRet t st | None => SErr end.

(* layout.rs:513-602: the part after the offside rules. [o] is the context that was on top when
   the loop iteration started (it may have been popped meanwhile: the `If` case). *)
Definition after_offside (t : mtok) (o : offside) (st : state) : step_res :=
  match push_context_of (k t) with
  | Some c =>
      (* :528-549 *)
      let pos := match octx o with
                 | CRec => if oline o =? line t then Off (oline o) (ocol o) c else off_at t c
                 | _ => off_at t c
                 end in
      let st1 := if ctx_eqb (octx o) c && (match c with CType | CLet => true | _ => false end)
                    && second_is_rec (stack st)
                 then set_stack st (tl (stack st)) else st in
      ret_push t (push_ctx st1 pos)
  | None =>
      match k t, octx o with
      | TIn, c =>
          let st1 := set_stack st (tl (stack st)) in
          if is_block c then let (r, st2) := layout_token st1 t TCloseBlock in SRet r st2
          else SRet t st1
      | TEquals, CLet | TRArrow, CLambda | TRArrow, CMatchClause | TThen, _ =>
          ret_push t (scan_for_next_block st (CBlock false))
      | TWith, _ => ret_push t (scan_for_next_block st CMatchClause)
      | TElse, _ =>
          let (next, st1) := next_token st in
          let add_block := negb (tk_eqb (k next) TIf) || negb (line next =? line t) in
          let st2 := set_unp st1 (next :: unp st1) in
          if add_block then ret_push t (scan_for_next_block st2 (CBlock false)) else SRet t st2
      | TComma, _ => SRet t (set_stack st (set_top_semi false (stack st)))
      | _, _ => SRet t st
      end
  end.

(* layout.rs:354-391 and :470-507: close a let/type/rec by an explicit or implicit `in`, then
   "inject a block to ensure that a sequence of expressions end up in the let body" *)
Definition open_body (t : mtok) (loc : offside) (st : state) (ret : mtok) (unp' : list mtok) : step_res :=
  match push_ctx st (Off (oline loc) (ocol loc) (CBlock false)) with
  | Some st1 => SRet ret (set_unp st1 (virt TOpenBlock t :: unp'))
  | None => SErr
  end.

Definition pop_rec (s : list offside) : list offside :=
  match s with o :: r => match octx o with CRec => r | _ => s end | [] => [] end.

(* One iteration of the `loop` of layout_next_token (layout.rs:291-603). *)
Definition step (fuel : nat) (t : mtok) (st : state) : step_res :=
  match k t, stack st with
  | TShebang, _ => SRet t st                                                     (* :294 *)
  | _, [] =>                                                                     (* :296-301 *)
      match push_ctx st (off_at t (CBlock false)) with
      | Some st1 => let (r, st2) := layout_token st1 t TOpenBlock in SRet r st2
      | None => SErr
      end
  | _, o :: rest =>
      let st_pop := set_stack st rest in
      if tk_eqb (k t) TComma && (match octx o with CBrace | CParen | CBracket => true | _ => false end)
      then SRet t st                                                             (* :307-309 *)
      else if is_closing (k t) then                                              (* :312-400 *)
        if forallb (fun x => negb (closes (k t) (octx x))) rest then SRet t st_pop      (* :325-332 *)
        else if closes (k t) (octx o) then
          match octx o with
          | CIf => after_offside t o st_pop                                      (* :336, falls through *)
          | CBrace | CBracket | CParen | CAttribute => SRet t st_pop             (* :337-340 *)
          | CBlock _ =>
              if tk_eqb (k t) TCloseBlock
              then SRet t (set_stack st (if close_block_resets_semi then set_top_semi false rest else rest))  (* :341-353 *)
              else let (r, st2) := layout_token st_pop t TCloseBlock in SRet r st2   (* :392-394 *)
          | CRec | CLet | CType =>                                               (* :354-391 *)
              match rest with
              | [] => SPanic
              | enc :: _ =>
                  let s1 := pop_rec (set_top_semi false rest) in
                  open_body t enc (set_stack st s1) t (unp st)
              end
          | _ => SCont t st_pop
          end
        else SCont t st_pop
      else
        (* :404-511 the offside rules *)
        let ord := N.compare (col t) (ocol o) in
        match octx o, ord with
        | CBlock _, Lt => SCont (virt TCloseBlock t) (set_unp st (t :: unp st))   (* :407-411 *)
        | CBlock true, Eq =>                                                      (* :412-424 *)
            let (r, st2) := layout_token (set_stack st (set_top_semi false (stack st))) t TSemi in SRet r st2
        | CBlock false, Eq =>                                                     (* :425-441 *)
            match k t with
            | TAttributeOpen | TDocComment | TOpenBlock => after_offside t o st
            | _ => after_offside t o (set_stack st (set_top_semi true (stack st)))
            end
        | CExpr, Gt | CLambda, Gt => after_offside t o st
        | CExpr, _ | CLambda, _ => SCont t st_pop                                 (* :442-447 *)
        | CMatchClause, Lt => SCont t st_pop                                      (* :448-456 *)
        | CMatchClause, Eq => if tk_eqb (k t) TPipe then after_offside t o st else SCont t st_pop
        | CLet, Gt | CType, Gt => after_offside t o st
        | CLet, _ | CType, _ =>                                                   (* :458-509 *)
            if tk_eqb (k t) TRBrace then after_offside t o st
            else
              match continue_block fuel (octx o) t st with
              | None => SHang
              | Some (true, st1) => after_offside t o st1
              | Some (false, st1) =>
                  if tk_eqb (k t) TEOF then SCont t (set_stack st1 (tl (stack st1)))
                  else
                    match tl (stack st1) with
                    | [] => SPanic
                    | _ :: _ =>
                        let s1 := pop_rec (set_top_semi false (tl (stack st1))) in
                        open_body t o (set_stack st1 s1) (virt TIn t) (t :: unp st1)
                    end
              end
        | _, _ => after_offside t o st
        end
  end.

Inductive lnt_res : Set :=
| LTok (t : mtok) (st : state)
| LErr | LPanic | LHang | LFuel.

Fixpoint run_loop (n : nat) (fuel : nat) (t : mtok) (st : state) : lnt_res :=
  match n with
  | O => LFuel
  | S m =>
      match step fuel t st with
      | SRet r st' => LTok r st'
      | SCont t' st' => run_loop m fuel t' st'
      | SErr => LErr
      | SPanic => LPanic
      | SHang => LHang
      end
  end.

(* the number of loop iterations one call can need (proved sufficient: LayoutProofs.v) *)
Definition loop_fuel (st : state) : nat := 2 * length (stack st) + 3.

(* layout.rs:277-290 + the loop *)
Definition layout_next_token (fuel : nat) (st : state) : lnt_res :=
  let (t, st1) := next_token st in
  let t1 := match k t with TEOF => MTok (k t) (code t) (line t) 0 (mlo t) (mhi t) | _ => t end in
  match k t, stack st1 with
  | TEOF, [] => LTok t1 st1
  | _, _ => run_loop (loop_fuel st1) fuel t1 st1
  end.

Inductive run_res : Set :=
| ROk (out : list mtok)              (* tokens up to EOF *)
| RErr (out : list mtok)             (* tokens, then UnindentedTooFar *)
| RPanic (out : list mtok)
| RHang (out : list mtok)
| RFuel (out : list mtok).

(* layout.rs:623-643 the iterator, collected *)
Fixpoint run (n : nat) (fuel : nat) (st : state) (acc : list mtok) : run_res :=
  match n with
  | O => RFuel (rev acc)
  | S m =>
      match layout_next_token fuel st with
      | LTok t st' => match k t with TEOF => ROk (rev acc) | _ => run m fuel st' (t :: acc) end
      | LErr => RErr (rev acc)
      | LPanic => RPanic (rev acc)
      | LHang => RHang (rev acc)
      | LFuel => RFuel (rev acc)
      end
  end.

(* [raw] = the tokenizer's output, the last element being EOF.  [n] calls are always enough
   (LayoutTermination.layout_model_terminates: every call that emits a token lowers a potential
   that starts below 100·|raw| + 8). *)
Definition layout (raw : list mtok) : run_res :=
  let e := last raw (MTok TEOF 12 0 1 0 0) in
  let n := (100 * length raw + 10)%nat in
  run n (length raw + 5)%nat (St raw e [] []) [].
