(* C20 — position search over a span tree, as completion/src/lib.rs does it.

   Executable definitions only (this file is extracted, see coq/extract/c20).  The span
   comparisons come from the GENERATED file gen/SpanGen.v (base/src/pos.rs), so an edit of
   `containment` / `contains_pos` changes the functions below.

   The tree is the view `FindVisitor` (completion/src/lib.rs:232-769) has of a typed AST: one node
   per expression / pattern it can visit, plus the synthetic groups it selects over (a value
   binding `name.start .. expr.end` :585, a match alternative `pattern.start .. expr.end` :539, a
   record-pattern field :440, a type binding :622, the constructor name of a constructor pattern
   :420).  The harness (harness/src/bin/c20.rs) exports that view; this file says what the search
   does with it. *)
From Coq Require Import List ZArith Bool Arith.
From GVgen Require Import SpanGen.
Import ListNotations.
Local Open Scope Z_scope.

Definition name := nat.
(* A binder: a name, the sort of construct that binds it (1 let, 2 rec let, 3 let argument,
   4 lambda argument, 5 match alternative, 6 type, 7 constructor, 8 do) and the region of the
   source in which a reference to the name resolves to this binding (computed by the exporter
   from the scoping rules of the language). *)
Record binder : Set := { bname : name; bkind : nat; bscope : span }.

Inductive node : Set :=
  N (sp : span) (kind : nat) (lab : nat) (binders : list binder) (children : list node).

Definition nspan (n : node) : span := match n with N s _ _ _ _ => s end.
Definition nkind (n : node) : nat := match n with N _ k _ _ _ => k end.
Definition nlab (n : node) : nat := match n with N _ _ l _ _ => l end.
Definition nbinders (n : node) : list binder := match n with N _ _ _ b _ => b end.
Definition nchildren (n : node) : list node := match n with N _ _ _ _ c => c end.

(* kind = policy + 16 * pushes + 32 * forced + 64 * variant *)
Definition policy (k : nat) : nat := Nat.modulo k 16%nat.
Definition pushes (k : nat) : bool := Nat.odd (Nat.div k 16%nat).
Definition forced (k : nat) : bool := Nat.odd (Nat.div k 32%nat).
Definition variant (k : nat) : nat := Nat.div k 64%nat.

(* Policies: what `FindVisitor` does at a node of that sort. *)
Definition P_LEAF : nat := 0%nat.    (* Expr::Ident/Literal :520, Pattern::Ident/Literal/Error :495, Variant::Ident/FieldIdent :361,:372 *)
Definition P_SEL : nat := 1%nat.     (* visit_one :338 / visit_any :346 / Match :535 / alt :548 / Do :698 / TypeBindings :618 / Pattern::Tuple, As *)
Definition P_GATE : nat := 2%nat.    (* LetBindings :585-607, Lambda :676-686: groups ++ [body] *)
Definition P_INFIX : nat := 3%nat.   (* Infix :560-578: [lhs; op; rhs] *)
Definition P_PROJ : nat := 4%nat.    (* Projection :643-650: [expr] *)
Definition P_ERR : nat := 5%nat.     (* Expr::Error :718: nothing is recorded *)
Definition P_UNIT : nat := 6%nat.    (* empty Tuple / Block :692 *)
Definition P_RECPAT : nat := 7%nat.  (* Pattern::Record :434-490 *)
Definition P_FIELD : nat := 8%nat.   (* one field of a record pattern :452-486: name :: optional value *)
Definition P_CTOR : nat := 9%nat.    (* Pattern::Constructor :419-433: name anchor :: args *)
Definition P_TYPE : nat := 10%nat.   (* a type (visit_ast_type :722): not modelled below its root *)
Definition P_OPAQUE : nat := 11%nat. (* not modelled at all (macro expanded, Annotated, ...) *)
Definition P_BIND : nat := 12%nat.   (* one type binding :624-637: [name; aliased type] *)
Definition P_OPQLEAF : nat := 13%nat. (* a token whose match needs a type lookup (type field of a record expression) *)
Definition P_ANCHOR : nat := 14%nat. (* the constructor-name region of a constructor pattern; only inspected by its parent *)
Definition P_OP : nat := 15%nat.     (* the operator of an Infix node; only reported by its parent *)

Record hdr : Set := { hsp : span; hkind : nat; hlab : nat }.
Definition hdr_of (n : node) : hdr := {| hsp := nspan n; hkind := nkind n; hlab := nlab n |}.

Inductive status : Set :=
| SNotFound   (* `MatchState::NotFound`: complete_at returns Err(()) :810 *)
| SEmpty      (* `MatchState::Empty`: no match, only enclosing nodes *)
| SFound      (* `MatchState::Found` *)
| SOpaque.    (* the search entered a part of the tree that is not modelled *)

(* st, the match, and the spans pushed on `enclosing_matches` (outermost first). *)
Record res : Set := { st : status; hit : option hdr; enc : list span }.

Definition is_eq (c : comparison) : bool := match c with Eq => true | _ => false end.

Definition r_notfound : res := {| st := SNotFound; hit := None; enc := [] |}.
Definition r_empty : res := {| st := SEmpty; hit := None; enc := [] |}.
Definition r_opaque : res := {| st := SOpaque; hit := None; enc := [] |}.
Definition r_found (h : hdr) : res := {| st := SFound; hit := Some h; enc := [] |}.
Definition within (own : list span) (r : res) : res :=
  {| st := st r; hit := hit r; enc := own ++ enc r |}.

(* completion/src/lib.rs:245-271 `select_spanned`: linear scan; the first element whose span
   contains the position wins; a position in front of an element selects the previous one. *)
Section Select.
  Context {A : Type} (sp_of : A -> span) (p : Z).
  Fixpoint select_from (prev : option A) (xs : list A) : bool * option A :=
    match xs with
    | [] => (true, prev)
    | x :: rest =>
        match containment (sp_of x) p with
        | Eq => (false, Some x)
        | Lt => match prev with
                | Some _ => (true, prev)
                | None => select_from (Some x) rest
                end
        | Gt => select_from (Some x) rest
        end
    end.
  Definition select_spanned (xs : list A) : bool * option A := select_from None xs.
End Select.

Definition cres : Set := (hdr * res)%type.
Definition csp (c : cres) : span := hsp (fst c).

Fixpoint split_last {A : Type} (l : list A) : option (list A * A) :=
  match l with
  | [] => None
  | x :: r => match split_last r with
              | None => Some ([], x)
              | Some (i, z) => Some (x :: i, z)
              end
  end.

(* What visit_expr :513-517 / visit_pattern :411-415 push for the node itself; `forced` is the
   unconditional push of a match scrutinee :543. *)
Definition own_push (p : Z) (h : hdr) : list span :=
  (if forced (hkind h) then [hsp h] else []) ++
  (if pushes (hkind h) && is_eq (containment (hsp h) p) then [hsp h] else []).

Definition sel_res (s : bool * option cres) : res :=
  match s with
  | (_, Some c) => snd c
  | (_, None) => r_empty
  end.

Definition step_policy (p : Z) (h : hdr) (cs : list cres) : res :=
  match policy (hkind h) with
  | 0%nat (* P_LEAF *) => if is_eq (containment (hsp h) p) then r_found h else r_empty
  | 1%nat (* P_SEL *) => sel_res (select_spanned csp p cs)
  | 2%nat (* P_GATE *) =>
      match split_last cs with
      | None => r_empty
      | Some (gs, body) =>
          match select_spanned csp p gs with
          | (false, Some c) => snd c
          | _ => snd body
          end
      end
  | 3%nat (* P_INFIX *) =>
      match cs with
      | [l; o; r] =>
          match containment (csp l) p, containment (csp r) p with
          | Gt, Lt => r_found (fst o)
          | _, Gt | _, Eq => snd r
          | _, _ => snd l
          end
      | _ => r_opaque
      end
  | 4%nat (* P_PROJ *) =>
      match cs with
      | [e] =>
          match containment (csp e) p with
          | Gt => {| st := SFound; hit := Some h; enc := [hsp h] |}
          | _ => snd e
          end
      | _ => r_opaque
      end
  | 5%nat (* P_ERR *) => r_notfound
  | 6%nat (* P_UNIT *) => r_found h
  | 7%nat (* P_RECPAT *) =>
      match select_spanned csp p cs with
      | (false, Some c) => snd c
      | _ => r_empty
      end
  | 8%nat (* P_FIELD *) =>
      match cs with
      | nm :: rest =>
          match containment (csp nm) p with
          | Eq => r_found (fst nm)
          | Gt => match rest with v :: _ => snd v | [] => r_empty end
          | Lt => r_empty
          end
      | [] => r_opaque
      end
  | 9%nat (* P_CTOR *) =>
      match cs with
      | idl :: args =>
          if is_eq (containment (csp idl) p) then r_found h
          else sel_res (select_spanned csp p args)
      | [] => r_opaque
      end
  | 10%nat (* P_TYPE *) => if is_eq (containment (hsp h) p) then r_opaque else r_notfound
  | 12%nat (* P_BIND *) =>
      match cs with
      | [nm; ty] => if is_eq (containment (csp nm) p) then r_found (fst nm) else snd ty
      | _ => r_opaque
      end
  | 13%nat (* P_OPQLEAF *) => if is_eq (containment (hsp h) p) then r_opaque else r_empty
  | _ (* P_OPAQUE, P_ANCHOR, P_OP *) => r_opaque
  end.

Definition step (p : Z) (h : hdr) (cs : list cres) : res :=
  within (own_push p h) (step_policy p h cs).

Fixpoint find_node (p : Z) (n : node) {struct n} : res :=
  match n with
  | N s k l _ cs =>
      step p {| hsp := s; hkind := k; hlab := l |}
           (map (fun c => (hdr_of c, find_node p c)) cs)
  end.

(* complete_at :779-812: `enclosing_matches` starts as [root]. *)
Definition find_at (t : node) (p : Z) : res :=
  let r := find_node p t in
  {| st := st r; hit := hit r; enc := nspan t :: enc r |}.

Definition last_enclosing (r : res) (d : span) : span := last (enc r) d.

(* ---- scope ---- *)
Fixpoint all_binders (n : node) : list binder :=
  match n with
  | N _ _ _ bs cs => bs ++ flat_map all_binders cs
  end.

Definition scope_at (t : node) (p : Z) : list name :=
  map bname (filter (fun b : binder => contains_pos (bscope b) p) (all_binders t)).

Definition mem_nat (x : nat) (l : list nat) : bool := existsb (Nat.eqb x) l.

(* The suggested names that are neither in scope at p nor in `extra`. *)
Definition out_of_scope (t : node) (p : Z) (extra sugg : list name) : list name :=
  let sc := scope_at t p in
  filter (fun x => negb (mem_nat x sc || mem_nat x extra)) sugg.

(* For the report only: the binder of x whose scope is nearest to p, as (sort, p is before it). *)
Definition bdist (p : Z) (b : binder) : Z :=
  if p <? start (bscope b) then start (bscope b) - p else p - end_ (bscope b).
Fixpoint nearest (p : Z) (best : option binder) (bs : list binder) : option binder :=
  match bs with
  | [] => best
  | b :: r =>
      match best with
      | None => nearest p (Some b) r
      | Some c => if bdist p b <? bdist p c then nearest p (Some b) r else nearest p best r
      end
  end.
Definition nearest_binder (t : node) (p : Z) (x : name) : option (nat * bool) :=
  match nearest p None (filter (fun b => Nat.eqb (bname b) x) (all_binders t)) with
  | None => None
  | Some b => Some (bkind b, p <? start (bscope b))
  end.

(* The type reported at an identifier: label 0 = the exporter recorded no checker type. *)
Definition type_ok (r : res) (observed : nat) : bool :=
  match st r, hit r with
  | SFound, Some h => Nat.eqb (hlab h) 0%nat || Nat.eqb (hlab h) observed
  | _, _ => true
  end.

(* ---- well-nested trees (decidable) ---- *)
Fixpoint ordered_b (l : list span) : bool :=
  match l with
  | [] => true
  | s :: r => forallb (fun s' => end_ s <? start s') r && ordered_b r
  end.

Definition no_children (cs : list node) : bool := match cs with [] => true | _ => false end.
Definition has_policy (q : nat) (n : node) : bool := Nat.eqb (policy (nkind n)) q.

Definition shape_b (k : nat) (cs : list node) : bool :=
  match policy k with
  | 0%nat => no_children cs
  | 1%nat => true
  | 2%nat => negb (no_children cs)
  | 3%nat => match cs with [_; o; _] => has_policy P_OP o | _ => false end
  | 4%nat => match cs with [_] => true | _ => false end
  | 5%nat => no_children cs
  | 6%nat => no_children cs
  | 7%nat => forallb (has_policy P_FIELD) cs
  | 8%nat => match cs with
             | [nm] => has_policy P_LEAF nm
             | [nm; _] => has_policy P_LEAF nm
             | _ => false
             end
  | 9%nat => match cs with idl :: _ => has_policy P_ANCHOR idl | [] => false end
  | 12%nat => match cs with [nm; ty] => has_policy P_LEAF nm && has_policy P_TYPE ty | _ => false end
  | _ => no_children cs
  end.

(* OP / ANCHOR nodes are only looked at by their parent, in their designated position. *)
Definition visitable (n : node) : bool :=
  negb (has_policy P_OP n || has_policy P_ANCHOR n).

Definition plain_children (k : nat) (cs : list node) : bool :=
  match policy k with
  | 3%nat => match cs with [l; _; r] => visitable l && visitable r | _ => false end
  | 9%nat => match cs with _ :: args => forallb visitable args | [] => false end
  | _ => forallb visitable cs
  end.

(* shape only *)
Fixpoint shaped_b (n : node) : bool :=
  match n with
  | N _ k _ _ cs => shape_b k cs && forallb shaped_b cs
  end.

Fixpoint wf_b (n : node) : bool :=
  match n with
  | N s k _ _ cs =>
      (start s <=? end_ s)
      && shape_b k cs
      && plain_children k cs
      && forallb (fun c => contains s (nspan c)) cs
      && ordered_b (map nspan cs)
      && forallb wf_b cs
  end.

(* Trees on which the search is fully modelled: no Error / type / opaque nodes. *)
Definition plain_policy (q : nat) : bool :=
  match q with
  | 5%nat | 10%nat | 11%nat | 13%nat => false
  | _ => true
  end.

Fixpoint plain_b (n : node) : bool :=
  match n with
  | N _ k _ _ cs =>
      plain_policy (policy k) && shape_b k cs && plain_children k cs && forallb plain_b cs
  end.

Fixpoint no_force_b (n : node) : bool :=
  match n with
  | N _ k _ _ cs => negb (forced k) && forallb no_force_b cs
  end.
