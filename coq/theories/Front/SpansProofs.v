(* C20 — proofs about the position search of Front/Spans.v and about the span comparisons
   regenerated from base/src/pos.rs (gen/SpanGen.v). *)
From Coq Require Import List ZArith Bool Arith Lia.
From GVgen Require Import SpanGen.
From GV Require Import Front.Spans.
Import ListNotations.
Local Open Scope Z_scope.

(* ------------------------------------------------------------------------------------------ *)
(* 1. The generated comparisons (these are the statements an edit of pos.rs breaks)            *)
(* ------------------------------------------------------------------------------------------ *)

Lemma containment_eq_iff : forall s p,
  containment s p = Eq <-> (p = start s \/ p = end_ s \/ start s < p < end_ s).
Proof.
  intros s p. unfold containment.
  destruct (Z.compare_spec p (start s)); destruct (Z.compare_spec p (end_ s));
    split; intros; try discriminate; try reflexivity; lia.
Qed.

Lemma containment_lt_iff : forall s p,
  containment s p = Lt <-> (p < start s /\ p <> end_ s).
Proof.
  intros s p. unfold containment.
  destruct (Z.compare_spec p (start s)); destruct (Z.compare_spec p (end_ s));
    split; intros; try discriminate; try reflexivity; lia.
Qed.

Lemma containment_gt_iff : forall s p,
  containment s p = Gt <-> (start s < p /\ end_ s < p).
Proof.
  intros s p. unfold containment.
  destruct (Z.compare_spec p (start s)); destruct (Z.compare_spec p (end_ s));
    split; intros; try discriminate; try reflexivity; lia.
Qed.

(* On a proper span (start <= end) containment is the closed interval test ... *)
Lemma containment_wf_eq : forall s p, start s <= end_ s ->
  (containment s p = Eq <-> start s <= p <= end_ s).
Proof. intros s p H. rewrite containment_eq_iff. lia. Qed.

Lemma containment_wf_lt : forall s p, start s <= end_ s ->
  (containment s p = Lt <-> p < start s).
Proof. intros s p H. rewrite containment_lt_iff. lia. Qed.

Lemma containment_wf_gt : forall s p, start s <= end_ s ->
  (containment s p = Gt <-> end_ s < p).
Proof. intros s p H. rewrite containment_gt_iff. lia. Qed.

Lemma contains_pos_iff : forall s p,
  contains_pos s p = true <-> start s <= p <= end_ s.
Proof.
  intros s p. unfold contains_pos. rewrite andb_true_iff, !Z.leb_le. tauto.
Qed.

Lemma contains_iff : forall a b,
  contains a b = true <-> (start a <= start b /\ end_ b <= end_ a).
Proof.
  intros a b. unfold contains. rewrite andb_true_iff, !Z.leb_le. tauto.
Qed.

(* ... and agrees with contains_pos. *)
Lemma containment_contains_pos : forall s p, start s <= end_ s ->
  (containment s p = Eq <-> contains_pos s p = true).
Proof. intros. rewrite containment_wf_eq, contains_pos_iff by assumption. tauto. Qed.

(* containment_exclusive is the half-open interval test. *)
Lemma containment_exclusive_eq_iff : forall s p, start s <= end_ s ->
  (containment_exclusive s p = Eq <-> start s <= p < end_ s).
Proof.
  intros s p H. unfold containment_exclusive.
  destruct (Z.eqb_spec (end_ s) p).
  - split; [discriminate | lia].
  - rewrite containment_wf_eq by assumption. lia.
Qed.

Lemma containment_exclusive_gt_iff : forall s p, start s <= end_ s ->
  (containment_exclusive s p = Gt <-> end_ s <= p).
Proof.
  intros s p H. unfold containment_exclusive.
  destruct (Z.eqb_spec (end_ s) p).
  - split; [lia | reflexivity].
  - rewrite containment_wf_gt by assumption. lia.
Qed.

Lemma contains_trans_pos : forall a b p,
  contains a b = true -> contains_pos b p = true -> contains_pos a p = true.
Proof.
  intros a b p. rewrite contains_iff, !contains_pos_iff. lia.
Qed.

Lemma is_eq_true : forall c, is_eq c = true <-> c = Eq.
Proof. destruct c; simpl; split; congruence. Qed.

(* ------------------------------------------------------------------------------------------ *)
(* 2. Induction over the tree                                                                  *)
(* ------------------------------------------------------------------------------------------ *)

Section NodeInd.
  Variable P : node -> Prop.
  Hypothesis step_case : forall s k l bs cs, Forall P cs -> P (N s k l bs cs).
  Fixpoint node_ind' (n : node) : P n :=
    match n with
    | N s k l bs cs =>
        step_case s k l bs cs
          ((fix go (cs : list node) : Forall P cs :=
              match cs with
              | [] => Forall_nil P
              | c :: r => Forall_cons c (node_ind' c) (go r)
              end) cs)
    end.
End NodeInd.

Definition cr (p : Z) (c : node) : cres := (hdr_of c, find_node p c).

Lemma find_node_unfold : forall p s k l bs cs,
  find_node p (N s k l bs cs) =
  step p {| hsp := s; hkind := k; hlab := l |} (map (cr p) cs).
Proof. reflexivity. Qed.

Lemma csp_cr : forall p c, csp (cr p c) = nspan c.
Proof. intros p [s k l bs cs]. reflexivity. Qed.

Lemma fst_cr : forall p c, fst (cr p c) = hdr_of c.
Proof. reflexivity. Qed.

Lemma snd_cr : forall p c, snd (cr p c) = find_node p c.
Proof. reflexivity. Qed.

(* ------------------------------------------------------------------------------------------ *)
(* 3. select_spanned                                                                           *)
(* ------------------------------------------------------------------------------------------ *)

Section SelectFacts.
  Context {A : Type} (sp_of : A -> span) (p : Z).

  Lemma select_from_in : forall xs prev b x,
    select_from sp_of p prev xs = (b, Some x) -> In x xs \/ prev = Some x.
  Proof.
    induction xs as [|y r IH]; intros prev b x H; simpl in H.
    - inversion H; subst. right; reflexivity.
    - destruct (containment (sp_of y) p).
      + inversion H; subst. left; left; reflexivity.
      + destruct prev as [q|].
        * inversion H; subst. right; reflexivity.
        * apply IH in H. destruct H as [H|H]; [left; right; exact H | inversion H; subst; left; left; reflexivity].
      + apply IH in H. destruct H as [H|H]; [left; right; exact H | inversion H; subst; left; left; reflexivity].
  Qed.

  Lemma select_spanned_in : forall xs b x,
    select_spanned sp_of p xs = (b, Some x) -> In x xs.
  Proof.
    intros xs b x H. apply select_from_in in H. destruct H as [H|H]; [exact H | discriminate].
  Qed.

  (* The element that is selected "exactly" is the first one that contains the position:
     boundary ties between touching siblings go to the left one. *)
  Lemma select_from_false_first : forall xs prev x,
    select_from sp_of p prev xs = (false, Some x) ->
    exists pre post, xs = pre ++ x :: post /\ containment (sp_of x) p = Eq /\
                     Forall (fun y => containment (sp_of y) p <> Eq) pre.
  Proof.
    induction xs as [|y r IH]; intros prev x H; simpl in H.
    - discriminate.
    - destruct (containment (sp_of y) p) eqn:E.
      + inversion H; subst. exists [], r. repeat split; [exact E | constructor].
      + destruct prev as [q|]; [discriminate|].
        apply IH in H. destruct H as (pre & post & -> & Hx & Hpre).
        exists (y :: pre), post. repeat split; [exact Hx | constructor; [congruence | exact Hpre]].
      + apply IH in H. destruct H as (pre & post & -> & Hx & Hpre).
        exists (y :: pre), post. repeat split; [exact Hx | constructor; [congruence | exact Hpre]].
  Qed.

  (* Skipping elements that lie entirely before the position. *)
  Lemma select_from_skip_gt : forall pre prev x post,
    Forall (fun y => containment (sp_of y) p = Gt) pre ->
    containment (sp_of x) p = Eq ->
    select_from sp_of p prev (pre ++ x :: post) = (false, Some x).
  Proof.
    induction pre as [|y r IH]; intros prev x post Hpre Hx; simpl.
    - rewrite Hx. reflexivity.
    - inversion Hpre; subst. rewrite H1. apply IH; assumption.
  Qed.

  Lemma select_from_all_gt : forall xs prev,
    Forall (fun y => containment (sp_of y) p = Gt) xs ->
    exists q, select_from sp_of p prev xs = (true, q).
  Proof.
    induction xs as [|y r IH]; intros prev H; simpl.
    - eexists; reflexivity.
    - inversion H; subst. rewrite H2. apply IH; assumption.
  Qed.
End SelectFacts.

Lemma split_last_spec : forall (A : Type) (l : list A) i z,
  split_last l = Some (i, z) -> l = i ++ [z].
Proof.
  induction l as [|x r IH]; intros i z H; simpl in H.
  - discriminate.
  - destruct (split_last r) as [[i' z']|] eqn:E.
    + inversion H; subst. simpl. f_equal. apply IH. reflexivity.
    + inversion H; subst. destruct r; [reflexivity|].
      simpl in E. destruct (split_last r) as [[? ?]|]; discriminate.
Qed.

Lemma split_last_app : forall (A : Type) (i : list A) z,
  split_last (i ++ [z]) = Some (i, z).
Proof.
  induction i as [|x r IH]; intros z; simpl.
  - reflexivity.
  - rewrite IH. reflexivity.
Qed.

Lemma split_last_none : forall (A : Type) (l : list A), split_last l = None -> l = [].
Proof.
  destruct l as [|x r]; intros H; [reflexivity|].
  simpl in H. destruct (split_last r) as [[? ?]|]; discriminate.
Qed.

(* ------------------------------------------------------------------------------------------ *)
(* 4. Totality: on every tree made of modelled nodes the search gives a definite answer        *)
(* ------------------------------------------------------------------------------------------ *)

Definition definite (r : res) : Prop := st r = SFound \/ st r = SEmpty.

Lemma definite_within : forall own r, definite r -> definite (within own r).
Proof. intros own r H. exact H. Qed.

Lemma definite_empty : definite r_empty.
Proof. right; reflexivity. Qed.

Lemma definite_found : forall h, definite (r_found h).
Proof. left; reflexivity. Qed.

Lemma select_map_cases : forall p (cs : list node) b o,
  select_spanned csp p (map (cr p) cs) = (b, o) ->
  o = None \/ exists c, In c cs /\ o = Some (cr p c).
Proof.
  intros p cs b [x|] H; [right | left; reflexivity].
  apply select_spanned_in in H. apply in_map_iff in H. destruct H as (c & <- & Hin).
  exists c. split; [exact Hin | reflexivity].
Qed.

Ltac policy_cases q :=
  destruct q as [|[|[|[|[|[|[|[|[|[|[|[|[|[|[|[|q]]]]]]]]]]]]]]]].

Lemma policy_lt : forall k, (policy k < 16)%nat.
Proof. intros k. unfold policy. apply Nat.mod_upper_bound. discriminate. Qed.

Lemma plain_b_unfold : forall s k l bs cs,
  plain_b (N s k l bs cs) = true ->
  plain_policy (policy k) = true /\ shape_b k cs = true /\ plain_children k cs = true /\
  (forall c, In c cs -> plain_b c = true).
Proof.
  intros s k l bs cs H. simpl in H.
  apply andb_true_iff in H. destruct H as [H H4].
  apply andb_true_iff in H. destruct H as [H H3].
  apply andb_true_iff in H. destruct H as [H1 H2].
  rewrite forallb_forall in H4. auto.
Qed.

Lemma sel_definite : forall p cs,
  (forall c, In c cs -> visitable c = true -> definite (find_node p c)) ->
  forallb visitable cs = true ->
  definite (sel_res (select_spanned csp p (map (cr p) cs))).
Proof.
  intros p cs IH Hv. rewrite forallb_forall in Hv.
  destruct (select_spanned csp p (map (cr p) cs)) as [b o] eqn:E.
  destruct (select_map_cases _ _ _ _ E) as [-> | (c & Hin & ->)]; simpl.
  - apply definite_empty.
  - apply IH; auto.
Qed.

Theorem find_node_total : forall p t,
  plain_b t = true -> visitable t = true -> definite (find_node p t).
Proof.
  intros p t. induction t as [s k l bs cs IH] using node_ind'.
  intros Hp Hv. rewrite find_node_unfold. unfold step. apply definite_within.
  apply plain_b_unfold in Hp. destruct Hp as (Hpol & Hshape & Hkids & Hall).
  rewrite Forall_forall in IH.
  assert (HC : forall c, In c cs -> visitable c = true -> definite (find_node p c))
    by (intros c Hin Hvc; apply IH; auto).
  clear IH Hall.
  unfold visitable, has_policy in Hv. cbn [nkind] in Hv.
  unfold step_policy, shape_b, plain_children in *. cbn [hkind hsp].
  pose proof (policy_lt k) as Hlt.
  remember (policy k) as q eqn:Hq. clear Hq.
  policy_cases q; try discriminate; try (exfalso; lia).
  - (* LEAF *) destruct (is_eq _); [apply definite_found | apply definite_empty].
  - (* SEL *) apply sel_definite; assumption.
  - (* GATE *)
    destruct (split_last (map (cr p) cs)) as [[gs body]|] eqn:E; [|apply definite_empty].
    apply split_last_spec in E.
    assert (Hin : forall x, In x (gs ++ [body]) -> definite (snd x)).
    { intros x Hx. rewrite <- E in Hx. apply in_map_iff in Hx. destruct Hx as (c & <- & Hc).
      rewrite forallb_forall in Hkids. apply HC; auto. }
    destruct (select_spanned csp p gs) as [[|] [c|]] eqn:Es;
      try (apply Hin; apply in_or_app; right; left; reflexivity).
    apply select_spanned_in in Es. apply Hin. apply in_or_app. left. exact Es.
  - (* INFIX *)
    destruct cs as [|a [|o [|r [|? ?]]]]; try discriminate. simpl.
    apply andb_true_iff in Hkids. destruct Hkids as [Ha Hr].
    destruct (containment (csp (cr p a)) p); destruct (containment (csp (cr p r)) p);
      try apply definite_found; try (apply HC; simpl; auto).
  - (* PROJ *)
    destruct cs as [|e [|? ?]]; try discriminate. simpl.
    simpl in Hkids. apply andb_true_iff in Hkids. destruct Hkids as [He _].
    destruct (containment (csp (cr p e)) p); try (apply HC; simpl; auto).
    left; reflexivity.
  - (* UNIT *) apply definite_found.
  - (* RECPAT *)
    destruct (select_spanned csp p (map (cr p) cs)) as [[|] o] eqn:E; try apply definite_empty.
    destruct (select_map_cases _ _ _ _ E) as [-> | (c & Hin & ->)]; [apply definite_empty|].
    rewrite forallb_forall in Hkids. apply HC; auto.
  - (* FIELD *)
    destruct cs as [|nm rest]; try discriminate. simpl.
    destruct (containment (csp (cr p nm)) p); try apply definite_found; try apply definite_empty.
    destruct rest as [|v rest']; [apply definite_empty|]. simpl.
    simpl in Hkids. apply andb_true_iff in Hkids. destruct Hkids as [_ Hk].
    apply andb_true_iff in Hk. destruct Hk as [Hvv _]. apply HC; simpl; auto.
  - (* CTOR *)
    destruct cs as [|idl args]; try discriminate. simpl.
    destruct (is_eq _); [apply definite_found|].
    apply sel_definite; [|assumption]. intros c Hin. apply HC. right. exact Hin.
  - (* BIND: its type child is not plain *)
    destruct cs as [|nm [|ty [|? ?]]]; try discriminate. simpl.
    destruct (is_eq _); [apply definite_found|].
    simpl in Hkids. apply andb_true_iff in Hkids. destruct Hkids as [_ Hk].
    apply andb_true_iff in Hk. destruct Hk as [Hty _]. apply HC; simpl; auto.
Qed.

Theorem find_at_total : forall t p,
  plain_b t = true -> visitable t = true ->
  definite (find_at t p) /\ enc (find_at t p) <> [].
Proof.
  intros t p Hp Hv. split.
  - exact (find_node_total p t Hp Hv).
  - simpl. discriminate.
Qed.

(* ------------------------------------------------------------------------------------------ *)
(* 5. Soundness of a hit: a reported token leaf really is under the cursor                     *)
(* ------------------------------------------------------------------------------------------ *)

Lemma shaped_b_unfold : forall s k l bs cs,
  shaped_b (N s k l bs cs) = true ->
  shape_b k cs = true /\ (forall c, In c cs -> shaped_b c = true).
Proof.
  intros s k l bs cs H. simpl in H. apply andb_true_iff in H. destruct H as [H1 H2].
  rewrite forallb_forall in H2. auto.
Qed.

Definition hit_ok (p : Z) (r : res) : Prop :=
  forall h, hit r = Some h -> policy (hkind h) = P_LEAF -> containment (hsp h) p = Eq.

Lemma hit_ok_none : forall p r, hit r = None -> hit_ok p r.
Proof. intros p r H h Hh. congruence. Qed.

Lemma hit_ok_within : forall p own r, hit_ok p r -> hit_ok p (within own r).
Proof. intros p own r H. exact H. Qed.

Lemma sel_hit_ok : forall p cs,
  (forall c, In c cs -> hit_ok p (find_node p c)) ->
  hit_ok p (sel_res (select_spanned csp p (map (cr p) cs))).
Proof.
  intros p cs IH.
  destruct (select_spanned csp p (map (cr p) cs)) as [b o] eqn:E.
  destruct (select_map_cases _ _ _ _ E) as [-> | (c & Hin & ->)]; simpl.
  - apply hit_ok_none; reflexivity.
  - apply IH; exact Hin.
Qed.

Theorem find_node_hit_contains : forall p t, shaped_b t = true -> hit_ok p (find_node p t).
Proof.
  intros p t. induction t as [s k l bs cs IH] using node_ind'.
  intros Hs. rewrite find_node_unfold. unfold step. apply hit_ok_within.
  apply shaped_b_unfold in Hs. destruct Hs as (Hshape & Hall).
  rewrite Forall_forall in IH.
  assert (HC : forall c, In c cs -> hit_ok p (find_node p c)) by (intros c Hin; apply IH; auto).
  clear IH Hall.
  unfold step_policy, shape_b in *. cbn [hkind hsp].
  remember (policy k) as q eqn:Hq.
  policy_cases q; try (apply hit_ok_none; reflexivity).
  - (* LEAF *)
    destruct (is_eq (containment s p)) eqn:E; [|apply hit_ok_none; reflexivity].
    intros h Hh _. simpl in Hh. inversion Hh; subst. simpl. apply is_eq_true. exact E.
  - (* SEL *) apply sel_hit_ok; assumption.
  - (* GATE *)
    destruct (split_last (map (cr p) cs)) as [[gs body]|] eqn:E; [|apply hit_ok_none; reflexivity].
    apply split_last_spec in E.
    assert (Hin : forall x, In x (gs ++ [body]) -> hit_ok p (snd x)).
    { intros x Hx. rewrite <- E in Hx. apply in_map_iff in Hx. destruct Hx as (c & <- & Hc).
      apply HC; auto. }
    destruct (select_spanned csp p gs) as [[|] [c|]] eqn:Es;
      try (apply Hin; apply in_or_app; right; left; reflexivity).
    apply select_spanned_in in Es. apply Hin. apply in_or_app. left. exact Es.
  - (* INFIX: the operator is never a P_LEAF *)
    destruct cs as [|a [|o [|r [|? ?]]]]; try discriminate. simpl.
    assert (Ho : hit_ok p (r_found (fst (cr p o)))).
    { intros h Hh Hl. simpl in Hh. inversion Hh; subst. simpl in Hl.
      unfold has_policy in Hshape. apply Nat.eqb_eq in Hshape. rewrite Hshape in Hl. discriminate. }
    destruct (containment (csp (cr p a)) p); destruct (containment (csp (cr p r)) p);
      try exact Ho; try (apply HC; simpl; auto).
  - (* PROJ *)
    destruct cs as [|e [|? ?]]; try discriminate. simpl.
    destruct (containment (csp (cr p e)) p); try (apply HC; simpl; auto).
    intros h Hh Hl. simpl in Hh. inversion Hh; subst. simpl in Hl. rewrite <- Hq in Hl. discriminate.
  - (* UNIT *)
    intros h Hh Hl. simpl in Hh. inversion Hh; subst. simpl in Hl. rewrite <- Hq in Hl. discriminate.
  - (* RECPAT *)
    destruct (select_spanned csp p (map (cr p) cs)) as [[|] o] eqn:E; try (apply hit_ok_none; reflexivity).
    destruct (select_map_cases _ _ _ _ E) as [-> | (c & Hin & ->)]; [apply hit_ok_none; reflexivity|].
    apply HC; auto.
  - (* FIELD *)
    destruct cs as [|nm rest]; try discriminate. simpl.
    destruct (containment (csp (cr p nm)) p) eqn:E; try (apply hit_ok_none; reflexivity).
    + intros h Hh _. simpl in Hh. inversion Hh; subst. rewrite csp_cr in E. exact E.
    + destruct rest as [|v rest']; [apply hit_ok_none; reflexivity|]. simpl. apply HC; simpl; auto.
  - (* CTOR *)
    destruct cs as [|idl args]; try discriminate. simpl.
    destruct (is_eq _).
    + intros h Hh Hl. simpl in Hh. inversion Hh; subst. simpl in Hl. rewrite <- Hq in Hl. discriminate.
    + apply sel_hit_ok. intros c Hin. apply HC. right. exact Hin.
  - (* TYPE *) destruct (is_eq _); apply hit_ok_none; reflexivity.
  - (* BIND *)
    destruct cs as [|nm [|ty [|? ?]]]; try (apply hit_ok_none; reflexivity). simpl.
    destruct (is_eq (containment (csp (cr p nm)) p)) eqn:E.
    + intros h Hh _. simpl in Hh. inversion Hh; subst. rewrite csp_cr in E. apply is_eq_true. exact E.
    + apply HC; simpl; auto.
  - (* OPQLEAF *) destruct (is_eq _); apply hit_ok_none; reflexivity.
Qed.

Theorem find_at_hit_contains : forall t p h,
  shaped_b t = true -> hit (find_at t p) = Some h -> policy (hkind h) = P_LEAF ->
  containment (hsp h) p = Eq.
Proof.
  intros t p h Hs Hh Hl. exact (find_node_hit_contains p t Hs h Hh Hl).
Qed.

(* ------------------------------------------------------------------------------------------ *)
(* 6. The enclosing nodes contain the position                                                 *)
(* ------------------------------------------------------------------------------------------ *)

Lemma no_force_b_unfold : forall s k l bs cs,
  no_force_b (N s k l bs cs) = true ->
  forced k = false /\ (forall c, In c cs -> no_force_b c = true).
Proof.
  intros s k l bs cs H. simpl in H. apply andb_true_iff in H. destruct H as [H1 H2].
  rewrite forallb_forall in H2. apply negb_true_iff in H1. auto.
Qed.

(* Every pushed span contains the position, unless the hit is a projection's own field
   (completion/src/lib.rs:647 pushes the projection again without looking at the position). *)
Definition enc_ok (p : Z) (r : res) : Prop :=
  (forall h, hit r = Some h -> policy (hkind h) <> P_PROJ) ->
  Forall (fun s => containment s p = Eq) (enc r).

Lemma enc_ok_nil : forall p r, enc r = [] -> enc_ok p r.
Proof. intros p r H _. rewrite H. constructor. Qed.

Lemma enc_ok_within : forall p h r,
  forced (hkind h) = false -> enc_ok p r -> enc_ok p (within (own_push p h) r).
Proof.
  intros p h r Hf H Hh. simpl. apply Forall_app. split.
  - unfold own_push. rewrite Hf. simpl.
    destruct (pushes (hkind h)); simpl; [|constructor].
    destruct (is_eq (containment (hsp h) p)) eqn:E; [|constructor].
    constructor; [apply is_eq_true; exact E | constructor].
  - apply H. exact Hh.
Qed.

Lemma sel_enc_ok : forall p cs,
  (forall c, In c cs -> enc_ok p (find_node p c)) ->
  enc_ok p (sel_res (select_spanned csp p (map (cr p) cs))).
Proof.
  intros p cs IH.
  destruct (select_spanned csp p (map (cr p) cs)) as [b o] eqn:E.
  destruct (select_map_cases _ _ _ _ E) as [-> | (c & Hin & ->)]; simpl.
  - apply enc_ok_nil; reflexivity.
  - apply IH; exact Hin.
Qed.

Theorem find_node_enclosing_contain : forall p t, no_force_b t = true -> enc_ok p (find_node p t).
Proof.
  intros p t. induction t as [s k l bs cs IH] using node_ind'.
  intros Hn. rewrite find_node_unfold. unfold step.
  apply no_force_b_unfold in Hn. destruct Hn as (Hf & Hall).
  apply enc_ok_within; [exact Hf|].
  rewrite Forall_forall in IH.
  assert (HC : forall c, In c cs -> enc_ok p (find_node p c)) by (intros c Hin; apply IH; auto).
  clear IH Hall.
  unfold step_policy. cbn [hkind hsp].
  remember (policy k) as q eqn:Hq.
  policy_cases q; try (apply enc_ok_nil; reflexivity).
  - destruct (is_eq _); apply enc_ok_nil; reflexivity.
  - apply sel_enc_ok; assumption.
  - destruct (split_last (map (cr p) cs)) as [[gs body]|] eqn:E; [|apply enc_ok_nil; reflexivity].
    apply split_last_spec in E.
    assert (Hin : forall x, In x (gs ++ [body]) -> enc_ok p (snd x)).
    { intros x Hx. rewrite <- E in Hx. apply in_map_iff in Hx. destruct Hx as (c & <- & Hc).
      apply HC; auto. }
    destruct (select_spanned csp p gs) as [[|] [c|]] eqn:Es;
      try (apply Hin; apply in_or_app; right; left; reflexivity).
    apply select_spanned_in in Es. apply Hin. apply in_or_app. left. exact Es.
  - destruct cs as [|a [|o [|r [|? ?]]]]; try (apply enc_ok_nil; reflexivity). simpl.
    destruct (containment (csp (cr p a)) p); destruct (containment (csp (cr p r)) p);
      try (apply enc_ok_nil; reflexivity); try (apply HC; simpl; auto).
  - destruct cs as [|e [|? ?]]; try (apply enc_ok_nil; reflexivity). simpl.
    destruct (containment (csp (cr p e)) p); try (apply HC; simpl; auto).
    intros Hh. exfalso. apply (Hh {| hsp := s; hkind := k; hlab := l |}); [reflexivity|].
    simpl. rewrite <- Hq. reflexivity.
  - destruct (select_spanned csp p (map (cr p) cs)) as [[|] o] eqn:E; try (apply enc_ok_nil; reflexivity).
    destruct (select_map_cases _ _ _ _ E) as [-> | (c & Hin & ->)]; [apply enc_ok_nil; reflexivity|].
    apply HC; auto.
  - destruct cs as [|nm rest]; try (apply enc_ok_nil; reflexivity). simpl.
    destruct (containment (csp (cr p nm)) p); try (apply enc_ok_nil; reflexivity).
    destruct rest as [|v rest']; [apply enc_ok_nil; reflexivity|]. simpl. apply HC; simpl; auto.
  - destruct cs as [|idl args]; try (apply enc_ok_nil; reflexivity). simpl.
    destruct (is_eq _); [apply enc_ok_nil; reflexivity|].
    apply sel_enc_ok. intros c Hin. apply HC. right. exact Hin.
  - destruct (is_eq _); apply enc_ok_nil; reflexivity.
  - destruct cs as [|nm [|ty [|? ?]]]; try (apply enc_ok_nil; reflexivity). simpl.
    destruct (is_eq _); [apply enc_ok_nil; reflexivity|]. apply HC; simpl; auto.
  - destruct (is_eq _); apply enc_ok_nil; reflexivity.
Qed.

(* The node `find` falls back to when nothing matched (Found::enclosing_match) contains the
   position, provided the root does. *)
Theorem find_at_last_enclosing_contains : forall t p d,
  no_force_b t = true -> containment (nspan t) p = Eq ->
  (forall h, hit (find_at t p) = Some h -> policy (hkind h) <> P_PROJ) ->
  containment (last_enclosing (find_at t p) d) p = Eq.
Proof.
  intros t p d Hn Hroot Hh.
  pose proof (find_node_enclosing_contain p t Hn Hh) as HF.
  unfold last_enclosing. simpl.
  assert (HA : Forall (fun s => containment s p = Eq) (nspan t :: enc (find_node p t)))
    by (constructor; assumption).
  rewrite Forall_forall in HA. apply HA.
  generalize (enc (find_node p t)). intros e.
  assert (Hl : forall (x : span) xs, In (last (x :: xs) d) (x :: xs)).
  { intros x xs. revert x. induction xs as [|y r IHr]; intros x; simpl.
    - left; reflexivity.
    - right. apply IHr. }
  apply Hl.
Qed.

(* ------------------------------------------------------------------------------------------ *)
(* 7. Well-nested trees: the token under the cursor is found, and it is unique                  *)
(* ------------------------------------------------------------------------------------------ *)

(* Token leaves: identifiers / literals (P_LEAF) and infix operators (P_OP). *)
Definition is_leaf (n : node) : Prop :=
  policy (nkind n) = P_LEAF \/ policy (nkind n) = P_OP.

Inductive leaf_in : node -> node -> Prop :=
| leaf_here : forall n, is_leaf n -> leaf_in n n
| leaf_child : forall l c s k lab bs cs,
    In c cs -> leaf_in l c -> leaf_in l (N s k lab bs cs).

Lemma wf_b_unfold : forall s k l bs cs,
  wf_b (N s k l bs cs) = true ->
  start s <= end_ s /\ shape_b k cs = true /\ plain_children k cs = true /\
  (forall c, In c cs -> contains s (nspan c) = true) /\
  ordered_b (map nspan cs) = true /\
  (forall c, In c cs -> wf_b c = true).
Proof.
  intros s k l bs cs H. simpl in H.
  apply andb_true_iff in H. destruct H as [H H6].
  apply andb_true_iff in H. destruct H as [H H5].
  apply andb_true_iff in H. destruct H as [H H4].
  apply andb_true_iff in H. destruct H as [H H3].
  apply andb_true_iff in H. destruct H as [H1 H2].
  rewrite forallb_forall in H4, H6. apply Z.leb_le in H1. auto 10.
Qed.

Lemma wf_span_ok : forall n, wf_b n = true -> start (nspan n) <= end_ (nspan n).
Proof. intros [s k l bs cs] H. apply wf_b_unfold in H. simpl. tauto. Qed.

Lemma wf_leaf_span : forall t l, leaf_in l t -> wf_b t = true ->
  wf_b l = true /\ start (nspan t) <= start (nspan l) /\ end_ (nspan l) <= end_ (nspan t).
Proof.
  intros t l H. induction H as [n Hn | l c s k lab bs cs Hin Hl IH]; intros Hwf.
  - split; [exact Hwf | lia].
  - apply wf_b_unfold in Hwf. destruct Hwf as (_ & _ & _ & Hc & _ & Hw).
    destruct (IH (Hw c Hin)) as (Hwl & H1 & H2).
    specialize (Hc c Hin). apply contains_iff in Hc. simpl. split; [exact Hwl | lia].
Qed.

Lemma ordered_split : forall pre x post,
  ordered_b (pre ++ x :: post) = true ->
  Forall (fun y => end_ y < start x) pre /\ Forall (fun y => end_ x < start y) post.
Proof.
  induction pre as [|a r IH]; intros x post H; simpl in H.
  - apply andb_true_iff in H. destruct H as [H _]. split; [constructor|].
    rewrite forallb_forall in H. apply Forall_forall. intros y Hy. apply Z.ltb_lt. apply H. exact Hy.
  - apply andb_true_iff in H. destruct H as [Ha H]. destruct (IH _ _ H) as [H1 H2].
    split; [|exact H2]. constructor; [|exact H1].
    rewrite forallb_forall in Ha. apply Z.ltb_lt. apply Ha. apply in_or_app. right. left. reflexivity.
Qed.

(* Around a child that contains the position, the earlier siblings lie before it and the
   later ones after it. *)
Lemma siblings_of : forall p pre c post,
  ordered_b (map nspan (pre ++ c :: post)) = true ->
  (forall x, In x (pre ++ c :: post) -> wf_b x = true) ->
  start (nspan c) <= p <= end_ (nspan c) ->
  Forall (fun y => containment (nspan y) p = Gt) pre /\
  Forall (fun y => containment (nspan y) p = Lt) post.
Proof.
  intros p pre c post Ho Hw Hp.
  rewrite map_app in Ho. simpl in Ho. apply ordered_split in Ho. destruct Ho as [H1 H2].
  rewrite Forall_forall in H1, H2. split; apply Forall_forall; intros y Hy.
  - assert (Hy' : wf_b y = true) by (apply Hw; apply in_or_app; left; exact Hy).
    apply wf_span_ok in Hy'. apply containment_wf_gt; [exact Hy'|].
    specialize (H1 (nspan y) (in_map nspan _ _ Hy)). lia.
  - assert (Hy' : wf_b y = true) by (apply Hw; apply in_or_app; right; right; exact Hy).
    apply wf_span_ok in Hy'. apply containment_wf_lt; [exact Hy'|].
    specialize (H2 (nspan y) (in_map nspan _ _ Hy)). lia.
Qed.

Lemma select_pick : forall p pre c post,
  Forall (fun y => containment (nspan y) p = Gt) pre ->
  containment (nspan c) p = Eq ->
  select_spanned csp p (map (cr p) (pre ++ c :: post)) = (false, Some (cr p c)).
Proof.
  intros p pre c post Hpre Hc. rewrite map_app. simpl. unfold select_spanned.
  apply select_from_skip_gt.
  - apply Forall_forall. intros x Hx. apply in_map_iff in Hx. destruct Hx as (y & <- & Hy).
    rewrite csp_cr. rewrite Forall_forall in Hpre. apply Hpre. exact Hy.
  - rewrite csp_cr. exact Hc.
Qed.

Lemma select_all_gt : forall p (cs : list node),
  Forall (fun y => containment (nspan y) p = Gt) cs ->
  exists q, select_spanned csp p (map (cr p) cs) = (true, q).
Proof.
  intros p cs H. unfold select_spanned. apply select_from_all_gt.
  apply Forall_forall. intros x Hx. apply in_map_iff in Hx. destruct Hx as (y & <- & Hy).
  rewrite csp_cr. rewrite Forall_forall in H. apply H. exact Hy.
Qed.

Definition found_leaf (l : node) (r : res) : Prop :=
  st r = SFound /\ hit r = Some (hdr_of l).

Lemma found_leaf_within : forall l own r, found_leaf l r -> found_leaf l (within own r).
Proof. intros l own r H. exact H. Qed.

Lemma leaf_in_childless : forall l n, nchildren n = [] -> leaf_in l n -> l = n /\ is_leaf n.
Proof.
  intros l n Hc H. inversion H; subst.
  - split; [reflexivity | assumption].
  - simpl in Hc. subst. contradiction.
Qed.

(* Nodes whose policy never looks at children have none in a well-nested tree. *)
Lemma wf_childless : forall n q, wf_b n = true -> policy (nkind n) = q ->
  (q = P_LEAF \/ q = P_ANCHOR \/ q = P_OP \/ q = P_TYPE) -> nchildren n = [].
Proof.
  intros [s k l bs cs] q Hwf Hq Hcase. apply wf_b_unfold in Hwf.
  destruct Hwf as (_ & Hshape & _). simpl in Hq. unfold shape_b in Hshape. rewrite Hq in Hshape.
  simpl. destruct Hcase as [-> | [-> | [-> | ->]]]; simpl in Hshape;
    (destruct cs; [reflexivity | discriminate]).
Qed.

Lemma has_policy_eq : forall q n, has_policy q n = true -> policy (nkind n) = q.
Proof. intros q n H. apply Nat.eqb_eq. exact H. Qed.

Theorem find_node_leaf_found : forall p t l,
  wf_b t = true -> visitable t = true -> leaf_in l t -> containment (nspan l) p = Eq ->
  found_leaf l (find_node p t).
Proof.
  intros p t. induction t as [s k lab bs cs IH] using node_ind'.
  intros l Hwf Hv Hleaf Hp.
  inversion Hleaf as [n Hn | l' c s' k' lab' bs' cs' Hin Hl]; subst.
  - (* the node itself *)
    rewrite find_node_unfold. unfold step. apply found_leaf_within.
    unfold step_policy. cbn [hkind hsp]. destruct Hn as [Hn | Hn]; simpl in Hn.
    + rewrite Hn. simpl in Hp. rewrite Hp. simpl. split; reflexivity.
    + unfold visitable, has_policy in Hv. simpl in Hv. rewrite Hn in Hv. discriminate.
  - (* below a child *)
    pose proof Hwf as Hwf0.
    apply wf_b_unfold in Hwf. destruct Hwf as (Hs & Hshape & Hkids & Hcont & Hord & Hw).
    destruct (wf_leaf_span _ _ Hl (Hw c Hin)) as (Hwl & Hl1 & Hl2).
    assert (Hlp : start (nspan l) <= p <= end_ (nspan l))
      by (apply containment_wf_eq; [apply wf_span_ok; exact Hwl | exact Hp]).
    assert (Hcp : start (nspan c) <= p <= end_ (nspan c)) by lia.
    assert (Hceq : containment (nspan c) p = Eq)
      by (apply containment_wf_eq; [apply wf_span_ok; auto | exact Hcp]).
    rewrite Forall_forall in IH.
    assert (HC : forall x, In x cs -> visitable x = true -> leaf_in l x -> found_leaf l (find_node p x))
      by (intros x Hx Hvx Hlx; apply IH; auto).
    clear IH.
    rewrite find_node_unfold. unfold step. apply found_leaf_within.
    unfold step_policy, shape_b, plain_children in *. cbn [hkind hsp].
    remember (policy k) as q eqn:Hq.
    policy_cases q.
    + (* LEAF: no children *) destruct cs; [contradiction | discriminate].
    + (* SEL *)
      destruct (in_split _ _ Hin) as (pre & post & ->).
      destruct (siblings_of p pre c post Hord Hw Hcp) as [Hpre _].
      rewrite (select_pick p pre c post Hpre Hceq). simpl.
      rewrite forallb_forall in Hkids. apply HC; auto.
    + (* GATE *)
      destruct (in_split _ _ Hin) as (pre & post & ->).
      destruct (siblings_of p pre c post Hord Hw Hcp) as [Hpre _].
      rewrite forallb_forall in Hkids.
      destruct post as [|b post0].
      * rewrite map_app. simpl. rewrite split_last_app.
        destruct (select_all_gt p pre Hpre) as [q' ->]. simpl. apply HC; auto.
      * assert (Hne : b :: post0 <> []) by discriminate.
        destruct (exists_last Hne) as (post' & z & Hz). rewrite Hz in *.
        replace (pre ++ c :: post' ++ [z]) with ((pre ++ c :: post') ++ [z])
          by (rewrite <- app_assoc; reflexivity).
        rewrite map_app. simpl. rewrite split_last_app.
        rewrite (select_pick p pre c post' Hpre Hceq). simpl.
        apply HC; auto.
    + (* INFIX *)
      destruct cs as [|a [|o [|r [|? ?]]]]; try discriminate.
      simpl in Hord. rewrite !andb_true_iff in Hord. rewrite !Z.ltb_lt in Hord.
      destruct Hord as ((Hao & Har & _) & (Hor & _) & _).
      apply andb_true_iff in Hkids. destruct Hkids as [Hva Hvr].
      pose proof (wf_span_ok a (Hw a (or_introl eq_refl))) as Hsa.
      pose proof (wf_span_ok o (Hw o (or_intror (or_introl eq_refl)))) as Hso.
      pose proof (wf_span_ok r (Hw r (or_intror (or_intror (or_introl eq_refl))))) as Hsr.
      simpl. rewrite !csp_cr.
      destruct Hin as [-> | [-> | [-> | []]]].
      * rewrite Hceq. replace (containment (nspan r) p) with Lt
          by (symmetry; apply containment_wf_lt; [exact Hsr | lia]).
        apply HC; simpl; auto.
      * assert (Hno : nchildren c = [])
          by (apply (wf_childless c P_OP); [apply Hw; simpl; auto | apply has_policy_eq; exact Hshape | auto]).
        destruct (leaf_in_childless _ _ Hno Hl) as [-> _].
        replace (containment (nspan a) p) with Gt
          by (symmetry; apply containment_wf_gt; [exact Hsa | lia]).
        replace (containment (nspan r) p) with Lt
          by (symmetry; apply containment_wf_lt; [exact Hsr | lia]).
        split; reflexivity.
      * rewrite Hceq.
        destruct (containment (nspan a) p); apply HC; simpl; auto.
    + (* PROJ *)
      destruct cs as [|e [|? ?]]; try discriminate.
      destruct Hin as [-> | []]. simpl. rewrite csp_cr, Hceq.
      simpl in Hkids. apply andb_true_iff in Hkids. destruct Hkids as [He _].
      apply HC; simpl; auto.
    + (* ERR *) destruct cs; [contradiction | discriminate].
    + (* UNIT *) destruct cs; [contradiction | discriminate].
    + (* RECPAT *)
      destruct (in_split _ _ Hin) as (pre & post & ->).
      destruct (siblings_of p pre c post Hord Hw Hcp) as [Hpre _].
      rewrite (select_pick p pre c post Hpre Hceq).
      rewrite forallb_forall in Hkids. apply HC; auto.
    + (* FIELD *)
      assert (Hnm : forall nm, wf_b nm = true -> has_policy P_LEAF nm = true -> leaf_in l nm -> l = nm).
      { intros nm Hwn Hpn Hln.
        assert (Hno : nchildren nm = [])
          by (apply (wf_childless nm P_LEAF); [exact Hwn | apply has_policy_eq; exact Hpn | auto]).
        destruct (leaf_in_childless _ _ Hno Hln) as [-> _]. reflexivity. }
      destruct cs as [|nm [|v [|? ?]]]; try discriminate.
      * destruct Hin as [-> | []]. simpl. rewrite csp_cr, Hceq.
        rewrite (Hnm c (Hw c (or_introl eq_refl)) Hshape Hl). split; reflexivity.
      * simpl. rewrite csp_cr.
        destruct Hin as [-> | [-> | []]].
        -- rewrite Hceq. rewrite (Hnm c (Hw c (or_introl eq_refl)) Hshape Hl). split; reflexivity.
        -- simpl in Hord. rewrite !andb_true_iff in Hord. rewrite !Z.ltb_lt in Hord.
           destruct Hord as ((Hnv & _) & _).
           pose proof (wf_span_ok nm (Hw nm (or_introl eq_refl))) as Hsn.
           replace (containment (nspan nm) p) with Gt
             by (symmetry; apply containment_wf_gt; [exact Hsn | lia]).
           simpl in Hkids. apply andb_true_iff in Hkids. destruct Hkids as [_ Hk].
           apply andb_true_iff in Hk. destruct Hk as [Hvv _].
           apply HC; simpl; auto.
    + (* CTOR *)
      destruct cs as [|idl args]; try discriminate.
      destruct Hin as [-> | Hin].
      * exfalso.
        assert (Hno : nchildren c = [])
          by (apply (wf_childless c P_ANCHOR); [apply Hw; simpl; auto | apply has_policy_eq; exact Hshape | auto]).
        destruct (leaf_in_childless _ _ Hno Hl) as [_ [Hx | Hx]];
          apply has_policy_eq in Hshape; rewrite Hshape in Hx; discriminate.
      * destruct (in_split _ _ Hin) as (pre & post & ->).
        assert (Hord' : ordered_b (map nspan ((idl :: pre) ++ c :: post)) = true) by exact Hord.
        destruct (siblings_of p (idl :: pre) c post Hord' Hw Hcp) as [Hpre _].
        inversion Hpre as [|? ? Hidl Hpre']; subst.
        simpl. rewrite csp_cr, Hidl. simpl.
        rewrite (select_pick p pre c post Hpre' Hceq). simpl.
        rewrite forallb_forall in Hkids.
        apply HC; [right; apply in_or_app; right; left; reflexivity | | exact Hl].
        apply Hkids. apply in_or_app. right. left. reflexivity.
    + (* TYPE *) destruct cs; [contradiction | discriminate].
    + (* OPAQUE *) destruct cs; [contradiction | discriminate].
    + (* BIND *)
      destruct cs as [|nm [|ty [|? ?]]]; try discriminate.
      apply andb_true_iff in Hshape. destruct Hshape as [Hpn Hpt].
      destruct Hin as [-> | [-> | []]].
      * assert (Hno : nchildren c = [])
          by (apply (wf_childless c P_LEAF); [apply Hw; simpl; auto | apply has_policy_eq; exact Hpn | auto]).
        destruct (leaf_in_childless _ _ Hno Hl) as [-> _].
        simpl. rewrite csp_cr, Hceq. simpl. split; reflexivity.
      * exfalso.
        assert (Hno : nchildren c = [])
          by (apply (wf_childless c P_TYPE); [apply Hw; simpl; auto | apply has_policy_eq; exact Hpt | auto 6]).
        destruct (leaf_in_childless _ _ Hno Hl) as [_ [Hx | Hx]];
          apply has_policy_eq in Hpt; rewrite Hpt in Hx; discriminate.
    + destruct cs; [contradiction | discriminate].
    + destruct cs; [contradiction | discriminate].
    + destruct cs; [contradiction | discriminate].
    + destruct cs; [contradiction | discriminate].
Qed.

Lemma leaf_in_is_leaf : forall l t, leaf_in l t -> is_leaf l.
Proof. intros l t H. induction H; assumption. Qed.

(* The pinned form: on a well-nested tree, a token (identifier, literal, operator) whose span
   contains the position is what the search reports; it has no children, so nothing below the
   result contains the position. *)
Theorem find_innermost : forall t p l,
  wf_b t = true -> visitable t = true -> leaf_in l t -> containment (nspan l) p = Eq ->
  st (find_at t p) = SFound /\ hit (find_at t p) = Some (hdr_of l) /\ nchildren l = [].
Proof.
  intros t p l Hwf Hv Hl Hp.
  destruct (find_node_leaf_found p t l Hwf Hv Hl Hp) as [H1 H2].
  split; [exact H1 | split; [exact H2|]].
  destruct (wf_leaf_span _ _ Hl Hwf) as (Hwl & _).
  destruct (leaf_in_is_leaf _ _ Hl) as [Hq | Hq].
  - apply (wf_childless l P_LEAF); auto.
  - apply (wf_childless l P_OP); auto.
Qed.

(* Two tokens of a well-nested tree that both contain the position are the same token. *)
Theorem find_unique : forall t p l1 l2,
  wf_b t = true -> visitable t = true ->
  leaf_in l1 t -> leaf_in l2 t ->
  containment (nspan l1) p = Eq -> containment (nspan l2) p = Eq ->
  hdr_of l1 = hdr_of l2.
Proof.
  intros t p l1 l2 Hwf Hv H1 H2 P1 P2.
  destruct (find_node_leaf_found p t l1 Hwf Hv H1 P1) as [_ E1].
  destruct (find_node_leaf_found p t l2 Hwf Hv H2 P2) as [_ E2].
  congruence.
Qed.

(* Consequently, when the search reports no match on a well-nested tree, no token contains the
   position (the cursor is between tokens). *)
Theorem find_empty_no_leaf : forall t p l,
  wf_b t = true -> visitable t = true -> st (find_at t p) <> SFound ->
  leaf_in l t -> containment (nspan l) p <> Eq.
Proof.
  intros t p l Hwf Hv Hst Hl Hp. apply Hst.
  destruct (find_node_leaf_found p t l Hwf Hv Hl Hp) as [H _]. exact H.
Qed.

(* Boundary ties (touching siblings, `containment` is inclusive at both ends): the element
   selected exactly is the leftmost one containing the position. *)
Theorem select_spanned_leftmost : forall (A : Type) (sp_of : A -> span) p xs x,
  select_spanned sp_of p xs = (false, Some x) ->
  exists pre post, xs = pre ++ x :: post /\ containment (sp_of x) p = Eq /\
                   Forall (fun y => containment (sp_of y) p <> Eq) pre.
Proof. intros A sp_of p xs x H. exact (select_from_false_first sp_of p xs None x H). Qed.

(* The unrestricted statements are false of the faithful model: *)

(* (a) a match need not contain the position: `f ()  x` with the cursor in the blank after `()`
   selects the previous sibling, and an empty tuple reports itself unconditionally
   (completion/src/lib.rs:692-693). *)
Definition find_hit_contains_full_stmt : Prop :=
  forall t p h, wf_b t = true -> visitable t = true ->
    hit (find_at t p) = Some h -> containment (hsp h) p = Eq.

Definition ws_unit_tree : node :=
  N {| start := 1; end_ := 6 |} 17 0 []
    [ N {| start := 1; end_ := 3 |} 22 0 [] [];
      N {| start := 5; end_ := 6 |} 16 0 [] [] ].

Theorem find_hit_contains_full_refuted : ~ find_hit_contains_full_stmt.
Proof.
  intros H.
  specialize (H ws_unit_tree 4 {| hsp := {| start := 1; end_ := 3 |}; hkind := 22%nat; hlab := 0%nat |}
                eq_refl eq_refl eq_refl).
  vm_compute in H. discriminate.
Qed.

(* (b) without the no_force premise the fallback node need not contain the position: the
   scrutinee of a `match` is pushed unconditionally (completion/src/lib.rs:543). *)
Definition last_enclosing_contains_full_stmt : Prop :=
  forall t p d, wf_b t = true -> containment (nspan t) p = Eq ->
    st (find_at t p) = SEmpty ->
    containment (last_enclosing (find_at t p) d) p = Eq.

Definition ws_match_tree : node :=
  N {| start := 1; end_ := 20 |} 17 0 []
    [ N {| start := 7; end_ := 8 |} 48 0 [] [];
      N {| start := 15; end_ := 20 |} 1 0 []
        [ N {| start := 15; end_ := 16 |} 80 0 [] [];
          N {| start := 19; end_ := 20 |} 16 0 [] [] ] ].

Theorem last_enclosing_contains_full_refuted : ~ last_enclosing_contains_full_stmt.
Proof.
  intros H.
  specialize (H ws_match_tree 10 {| start := 0; end_ := 0 |} eq_refl eq_refl eq_refl).
  vm_compute in H. discriminate.
Qed.

(* ------------------------------------------------------------------------------------------ *)
(* 8. Scope                                                                                    *)
(* ------------------------------------------------------------------------------------------ *)

Inductive node_in : node -> node -> Prop :=
| node_here : forall n, node_in n n
| node_child : forall n c s k l bs cs, In c cs -> node_in n c -> node_in n (N s k l bs cs).

Lemma all_binders_in : forall t b,
  In b (all_binders t) <-> exists n, node_in n t /\ In b (nbinders n).
Proof.
  intros t. induction t as [s k l bs cs IH] using node_ind'. intros b.
  rewrite Forall_forall in IH. simpl. rewrite in_app_iff, in_flat_map. split.
  - intros [H | (c & Hc & Hb)].
    + exists (N s k l bs cs). split; [constructor | exact H].
    + apply (IH c Hc) in Hb. destruct Hb as (n & Hn & Hb).
      exists n. split; [econstructor; eassumption | exact Hb].
  - intros (n & Hn & Hb). inversion Hn; subst.
    + left. exact Hb.
    + right. exists c. split; [assumption|]. apply (IH c); [assumption|]. exists n. auto.
Qed.

(* Every name scope_at returns is bound by a binder of some node of the tree whose scope covers
   the position (the scope test is the regenerated contains_pos). *)
Theorem scope_at_sound : forall t p x,
  In x (scope_at t p) ->
  exists n b, node_in n t /\ In b (nbinders n) /\ bname b = x /\
              start (bscope b) <= p <= end_ (bscope b).
Proof.
  intros t p x H. unfold scope_at in H. apply in_map_iff in H. destruct H as (b & Hx & Hb).
  apply filter_In in Hb. destruct Hb as [Hb Hc]. apply all_binders_in in Hb.
  destruct Hb as (n & Hn & Hb). exists n, b. repeat split; try assumption;
    apply contains_pos_iff in Hc; lia.
Qed.

Theorem scope_at_complete : forall t p n b,
  node_in n t -> In b (nbinders n) -> start (bscope b) <= p <= end_ (bscope b) ->
  In (bname b) (scope_at t p).
Proof.
  intros t p n b Hn Hb Hp. unfold scope_at. apply in_map. apply filter_In. split.
  - apply all_binders_in. exists n. auto.
  - apply contains_pos_iff. exact Hp.
Qed.

Lemma mem_nat_in : forall x l, mem_nat x l = true <-> In x l.
Proof.
  intros x l. unfold mem_nat. rewrite existsb_exists. split.
  - intros (y & Hy & E). apply Nat.eqb_eq in E. subst. exact Hy.
  - intros H. exists x. split; [exact H | apply Nat.eqb_refl].
Qed.

Lemma filter_nil_all : forall (A : Type) (f : A -> bool) l,
  filter f l = [] -> forall x, In x l -> f x = false.
Proof.
  induction l as [|a r IH]; intros H x Hx; [contradiction|].
  simpl in H. destruct (f a) eqn:E; [discriminate|].
  destruct Hx as [<- | Hx]; [exact E | apply IH; assumption].
Qed.

(* What the monitor of the correspondence run decides: an empty complaint list means every
   suggested name is in scope at the position or explicitly admitted. *)
Theorem out_of_scope_nil_sound : forall t p extra sugg,
  out_of_scope t p extra sugg = [] ->
  forall x, In x sugg -> In x (scope_at t p) \/ In x extra.
Proof.
  intros t p extra sugg H x Hx. unfold out_of_scope in H.
  apply (filter_nil_all _ _ _ H) in Hx. apply negb_false_iff in Hx.
  apply orb_true_iff in Hx. destruct Hx as [Hx | Hx]; apply mem_nat_in in Hx; auto.
Qed.

Theorem type_ok_sound : forall r obs h,
  type_ok r obs = true -> st r = SFound -> hit r = Some h -> hlab h <> 0%nat -> hlab h = obs.
Proof.
  intros r obs h H Hs Hh Hl. unfold type_ok in H. rewrite Hs, Hh in H.
  apply orb_true_iff in H. destruct H as [H | H]; apply Nat.eqb_eq in H; congruence.
Qed.
