(* C08 — token kinds of the layout model (shared by the generated tables gen/LayoutTablesGen.v and
   Front/Layout.v).  Definitions only. *)
From Coq Require Import List NArith Bool.
Import ListNotations.
Local Open Scope N_scope.

Inductive tk : Set :=
| TEOF | TShebang | TComma | TIn | TCloseBlock | TOpenBlock | TSemi | TElse
| TRBrace | TRBracket | TRParen | TPipe | TAttributeOpen | TDocComment
| TRec | TType | TLet | TDo | TSeq | TIf | TMatch | TLambda
| TLBrace | TLBracket | TLParen | TEquals | TRArrow | TThen | TWith | TOther.

Record mtok : Set := MTok { k : tk; code : N; line : N; col : N; mlo : N; mhi : N }.

Definition tk_eqb (a b : tk) : bool :=
  match a, b with
  | TEOF, TEOF | TShebang, TShebang | TComma, TComma | TIn, TIn | TCloseBlock, TCloseBlock
  | TOpenBlock, TOpenBlock | TSemi, TSemi | TElse, TElse | TRBrace, TRBrace | TRBracket, TRBracket
  | TRParen, TRParen | TPipe, TPipe | TAttributeOpen, TAttributeOpen | TDocComment, TDocComment
  | TRec, TRec | TType, TType | TLet, TLet | TDo, TDo | TSeq, TSeq | TIf, TIf | TMatch, TMatch
  | TLambda, TLambda | TLBrace, TLBrace | TLBracket, TLBracket | TLParen, TLParen
  | TEquals, TEquals | TRArrow, TRArrow | TThen, TThen | TWith, TWith | TOther, TOther => true
  | _, _ => false
  end.

(* codes of the virtual tokens, as in LayoutCheck.v *)
Definition code_of (t : tk) : N :=
  match t with TOpenBlock => 1 | TCloseBlock => 2 | TSemi => 3 | TIn => 4 | _ => 0 end.

(* `pos::spanned(span, kind)`: a token of another kind with the span of [t] *)
Definition virt (kd : tk) (t : mtok) : mtok := MTok kd (code_of kd) (line t) (col t) (mlo t) (mhi t).

