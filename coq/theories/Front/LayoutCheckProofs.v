(* C08 — soundness of the layout validator. *)
From Coq Require Import List NArith Bool Lia Arith.
From GV Require Import Front.LayoutCheck.
Import ListNotations.
Local Open Scope N_scope.

Lemma tok_eqb_eq x y : tok_eqb x y = true -> x = y.
Proof.
  destruct x as [k1 l1 h1], y as [k2 l2 h2]. unfold tok_eqb, same_span. cbn.
  intros H. apply andb_true_iff in H. destruct H as [A H]. apply andb_true_iff in H. destruct H as [B C].
  apply N.eqb_eq in A. apply N.eqb_eq in B. apply N.eqb_eq in C. subst. reflexivity.
Qed.
Lemma toks_eqb_eq : forall x y, toks_eqb x y = true -> x = y.
Proof.
  induction x as [|t x IH]; destruct y as [|u y]; cbn; try discriminate; [reflexivity|].
  intros H. apply andb_true_iff in H. destruct H as [E H]. apply tok_eqb_eq in E. subst. f_equal. auto.
Qed.
Lemma toks_prefix_app : forall x y, toks_prefix x y = true -> exists rest, y = x ++ rest.
Proof.
  induction x as [|t x IH]; intros y H.
  - exists y. reflexivity.
  - destruct y as [|u y]; [discriminate|]. cbn in H. apply andb_true_iff in H. destruct H as [E H].
    apply tok_eqb_eq in E. subst. destruct (IH y H) as [rest ->]. exists rest. reflexivity.
Qed.

(* 1. The layout algorithm only inserts tokens: erasing the virtual ones gives the input back. *)
Theorem layout_preserves_tokens a b :
  layout_ok true a b = true -> erase_virtual b = real_tokens a.
Proof.
  unfold layout_ok. intros H. repeat (apply andb_true_iff in H; destruct H as [H ?]).
  apply toks_eqb_eq; exact H.
Qed.

Theorem layout_preserves_prefix a b :
  layout_ok false a b = true -> exists rest, real_tokens a = erase_virtual (trim b) ++ rest.
Proof. unfold layout_ok. apply toks_prefix_app. Qed.

(* erasure never removes a token that is neither a block token nor an `in` *)
Lemma erase_virtual_keeps : forall b t, In t b -> vkind t = false -> In t (erase_virtual b).
Proof.
  induction b as [|u b IH]; intros t Hin Hv; [destruct Hin|].
  cbn [erase_virtual]. destruct Hin as [->|Hin].
  - assert (E : is_virtual t b = false).
    { unfold is_virtual. unfold vkind in Hv. apply orb_false_iff in Hv. destruct Hv as [A B].
      rewrite A, B. reflexivity. }
    rewrite E. left; reflexivity.
  - destruct (is_virtual u b); [auto|right; auto].
Qed.
(* and only removes tokens of the four virtual kinds *)
Lemma erase_virtual_sub : forall b t, In t (erase_virtual b) -> In t b.
Proof.
  induction b as [|u b IH]; intros t H; [exact H|]. cbn [erase_virtual] in H.
  destruct (is_virtual u b); [right; auto|]. destruct H as [->|H]; [left; reflexivity|right; auto].
Qed.

(* 2. Balance: virtual blocks and real brackets form a well-nested bracket word. *)
Definition opens (t : tok) (c : N) : Prop := closer_of (kind t) = Some c.
Definition plain (t : tok) : Prop := closer_of (kind t) = None /\ is_closer (kind t) = false.

Inductive dyck : list tok -> Prop :=
| D_nil : dyck []
| D_plain t l : plain t -> dyck l -> dyck (t :: l)
| D_pair o m c l : opens o (kind c) -> dyck m -> dyck l -> dyck (o :: m ++ c :: l).

Lemma dyck_app : forall x y, dyck x -> dyck y -> dyck (x ++ y).
Proof.
  intros x y Hx. induction Hx as [|t l P _ IH|o m c l O Hm _ Hl IH]; intros Hy; cbn.
  - exact Hy.
  - apply D_plain; auto.
  - rewrite <- app_assoc. cbn. apply D_pair; auto.
Qed.

Lemma balanced_split : forall n l stack, (length l <= n)%nat -> balanced stack l = true ->
  match stack with
  | [] => dyck l
  | c :: s => exists m t r, l = m ++ t :: r /\ dyck m /\ kind t = c /\ balanced s r = true
  end.
Proof.
  induction n as [|n IH]; intros l stack Hlen H.
  - destruct l; [|cbn in Hlen; lia]. cbn in H. destruct stack; [constructor|discriminate].
  - destruct l as [|t l'].
    + cbn in H. destruct stack; [constructor|discriminate].
    + cbn [balanced] in H. cbn in Hlen.
      destruct (closer_of (kind t)) as [c'|] eqn:C.
      * (* an opener *)
        pose proof (IH l' (c' :: stack) ltac:(lia) H) as S. cbn in S.
        destruct S as (m & t' & r & El & Dm & Kt & Br).
        assert (Lr : (length r <= n)%nat).
        { rewrite El in Hlen. rewrite app_length in Hlen. cbn in Hlen. lia. }
        pose proof (IH r stack Lr Br) as S2.
        assert (P : dyck (t :: m ++ [t'])).
        { change (t :: m ++ [t']) with (t :: m ++ t' :: []). apply D_pair; [|exact Dm|apply D_nil].
          unfold opens. rewrite Kt. exact C. }
        destruct stack as [|c s].
        -- rewrite El.
           replace (t :: m ++ t' :: r) with ((t :: m ++ [t']) ++ r)
             by (cbn; rewrite <- app_assoc; reflexivity).
           apply dyck_app; assumption.
        -- destruct S2 as (m2 & t2 & r2 & Er & Dm2 & Kt2 & Br2).
           exists ((t :: m ++ [t']) ++ m2), t2, r2. split; [|split; [|split]].
           ++ rewrite El, Er. cbn. rewrite <- !app_assoc. reflexivity.
           ++ apply dyck_app; assumption.
           ++ exact Kt2.
           ++ exact Br2.
      * destruct (is_closer (kind t)) eqn:IC.
        -- (* a closer *)
           destruct stack as [|c s]; [discriminate|].
           apply andb_true_iff in H. destruct H as [E B]. apply N.eqb_eq in E.
           exists [], t, l'. split; [reflexivity|]. split; [apply D_nil|]. split; [symmetry; exact E|exact B].
        -- (* plain *)
           apply andb_true_iff in H. destruct H as [_ B].
           pose proof (IH l' stack ltac:(lia) B) as S.
           assert (Pt : plain t) by (split; assumption).
           destruct stack as [|c s].
           ++ apply D_plain; assumption.
           ++ destruct S as (m & t' & r & El & Dm & Kt & Br).
              exists (t :: m), t', r. split; [rewrite El; reflexivity|].
              split; [apply D_plain; assumption|]. split; assumption.
Qed.

Theorem layout_balanced a b : layout_ok true a b = true -> dyck b.
Proof.
  unfold layout_ok. intros H. repeat (apply andb_true_iff in H; destruct H as [H ?]).
  exact (balanced_split (length b) b [] (le_n _) H1).
Qed.

(* 3. Every block token carries the span of a neighbouring real token. *)
Fixpoint last_real (acc : option tok) (l : list tok) : option tok :=
  match l with
  | [] => acc
  | t :: l' => last_real (if is_ocs t then acc else Some t) l'
  end.

Definition neighbour (eof prev : option tok) (t : tok) (post : list tok) : Prop :=
  span_of t (next_real post) = true \/ span_of t prev = true \/
  (next_real post = None /\ span_of t eof = true).

Lemma positions_ok_spec eof : forall pre prev t post,
  positions_ok eof prev (pre ++ t :: post) = true -> is_ocs t = true ->
  neighbour eof (last_real prev pre) t post.
Proof.
  induction pre as [|u pre IH]; intros prev t post H Ht.
  - cbn [app positions_ok] in H. rewrite Ht in H. apply andb_true_iff in H. destruct H as [H _].
    unfold neighbour. cbn [last_real].
    apply orb_true_iff in H. destruct H as [H|H]; [apply orb_true_iff in H; destruct H as [H|H]|]; auto.
    destruct (next_real post); [discriminate|]. auto.
  - cbn [app positions_ok] in H. cbn [last_real]. destruct (is_ocs u).
    + apply andb_true_iff in H. destruct H as [_ H]. apply IH; assumption.
    + apply IH; assumption.
Qed.

Theorem layout_positions a b pre t post :
  layout_ok true a b = true -> b = pre ++ t :: post -> is_ocs t = true ->
  neighbour (eof_of a) (last_real None pre) t post.
Proof.
  unfold layout_ok. intros H E Ht. repeat (apply andb_true_iff in H; destruct H as [H ?]).
  subst b. apply positions_ok_spec; assumption.
Qed.
