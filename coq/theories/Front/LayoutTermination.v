(* C08 — the whole run of the layout model terminates within fuel linear in the input length.

   Potential of a state between two calls of layout_next_token:
     every pending token weighs 100 (8 / 4 for a queued OpenBlock / CloseBlock, 0 for EOF),
     every context weighs 6 (a Block; 7 once it has a statement), 30 (Let, Type) or 7 (others),
     an empty context stack weighs 7,
     a top block that the next token is going to close weighs 4 more (the CloseBlock to be made).
   Every call that emits a token other than EOF lowers the potential. *)
From Coq Require Import List NArith Bool Lia Arith.
From GV Require Import Front.Layout Front.LayoutProofs Front.LayoutModelProofs.
Import ListNotations.

Definition rk (t : mtok) : nat :=
  match k t with TOpenBlock => 8 | TCloseBlock => 4 | TEOF => 0 | _ => 100 end.
Fixpoint W (l : list mtok) : nat := match l with [] => 0 | x :: l' => rk x + W l' end.
Definition wc (c : ctx) : nat :=
  match c with CBlock true => 7 | CBlock false => 6 | CLet | CType => 30 | _ => 7 end.
Fixpoint WS (s : list offside) : nat := match s with [] => 0 | o :: r => wc (octx o) + WS r end.
Definition colz (t : mtok) : N := match k t with TEOF => 0%N | _ => col t end.
Definition em (s : list offside) : nat := match s with [] => 7 | _ => 0 end.
Definition lt (t : mtok) (s : list offside) : nat :=
  match s with
  | o :: _ => if is_block (octx o) && (colz t <? ocol o)%N && negb (is_closing (k t)) then 4 else 0
  | [] => 0
  end.
Definition head (st : state) : mtok :=
  match unp st with x :: _ => x | [] => match toks st with x :: _ => x | [] => eof st end end.

Definition Phi (st : state) : nat :=
  W (unp st) + W (toks st) + WS (stack st) + em (stack st) + lt (head st) (stack st).
Definition Psi0 (t : mtok) (st : state) : nat :=
  rk t + W (unp st) + W (toks st) + WS (stack st) + em (stack st).
Definition Psi (t : mtok) (st : state) : nat :=
  Psi0 t st + lt t (stack st).

Lemma lt_le t s : lt t s <= 4.
Proof. unfold lt. destruct s; try lia. destruct (_ && _ && _); lia. Qed.
Lemma W_app a b : W (a ++ b) = W a + W b.
Proof. induction a; cbn; lia. Qed.
Lemma rk_le t : rk t <= 100.
Proof. unfold rk. destruct (k t); lia. Qed.
Lemma wc_le c : 6 <= wc c <= 30.
Proof. destruct c as [[|]| | | | | | | | | | |]; cbn; lia. Qed.

Lemma Phi_le st : Phi st <= W (unp st) + W (toks st) + WS (stack st) + em (stack st) + 4.
Proof. unfold Phi. pose proof (lt_le (head st) (stack st)). lia. Qed.

Definition hand_ok (t : mtok) : Prop := k t = TEOF -> col t = 0%N.

(* fetch *)
Lemma next_token_W st t st1 : eof_ok st -> next_token st = (t, st1) ->
  t = head st /\ rk t + W (unp st1) + W (toks st1) = W (unp st) + W (toks st) /\
  stack st1 = stack st /\ eof st1 = eof st.
Proof.
  destruct st as [tks e u s]. unfold next_token, head, eof_ok. cbn. intros E H.
  destruct u as [|x us].
  - destruct tks as [|y r]; inversion H; subst; cbn; repeat split; try lia.
    unfold rk. rewrite E. reflexivity.
  - inversion H; subst. cbn. repeat split; lia.
Qed.

Lemma push_ctx_W st o st' : push_ctx st o = Some st' ->
  unp st' = unp st /\ toks st' = toks st /\ stack st' = o :: stack st /\ eof st' = eof st.
Proof. unfold push_ctx. destruct (check_unind _ _ _); [|discriminate]. intros H; inversion H; subst; cbn; auto. Qed.

Lemma scan_for_next_block_W st c st' : eof_ok st -> scan_for_next_block st c = Some st' ->
  W (unp st') + W (toks st') <= W (unp st) + W (toks st) + 12 /\
  (exists o, stack st' = o :: stack st /\ octx o = c) /\ eof st' = eof st.
Proof.
  unfold scan_for_next_block. intros E H. destruct (next_token st) as [next st1] eqn:NT.
  destruct (next_token_W _ _ _ E NT) as (_ & HW & HS & HE).
  destruct (is_block c); [destruct (first_block_col _) as [lc|]; [destruct (col next <=? lc)%N|]|];
    apply push_ctx_W in H; destruct H as (A & B & C & D); rewrite A, B, C; cbn in *;
    (split; [pose proof (rk_le next); unfold rk in *; cbn [k virt code_of] in *; lia|split; [eexists; split; [rewrite HS; reflexivity|reflexivity]|congruence]]).
Qed.

Lemma pull_W : forall c st, eof_ok st ->
  W (unp (pull c st)) + W (toks (pull c st)) = W (unp st) + W (toks st) /\
  stack (pull c st) = stack st /\ eof (pull c st) = eof st.
Proof.
  induction c as [|c IH]; intros st E; cbn [pull]; [auto|].
  destruct (toks st) as [|t r] eqn:T.
  - destruct (IH (St [] (eof st) (unp st ++ [eof st]) (stack st)) E) as (A & B & C).
    rewrite A, B, C. cbn. rewrite W_app. cbn. unfold rk at 1. unfold eof_ok in E. rewrite E. repeat split; lia.
  - destruct (IH (St r (eof st) (unp st ++ [t]) (stack st)) E) as (A & B & C).
    rewrite A, B, C. cbn. rewrite W_app. cbn. repeat split; lia.
Qed.

Lemma scan_continue_W : forall f i a e first st b st', eof_ok st ->
  scan_continue f i a e first st = Some (b, st') ->
  W (unp st') + W (toks st') = W (unp st) + W (toks st) /\ stack st' = stack st /\ eof st' = eof st.
Proof.
  induction f as [|f IH]; intros i a e first st b st' E H; cbn [scan_continue] in H; [discriminate|].
  destruct i as [|j].
  - destruct (tk_eqb (k first) e); [inversion H; subst; auto|].
    destruct (k first); try (destruct a); try (inversion H; subst; auto; fail); eapply IH; eauto.
  - unfold peek_token in H.
    set (st1 := pull (S j - length (unp st)) st) in *.
    destruct (pull_W (S j - length (unp st)) st E) as (A & B & C). fold st1 in A, B, C.
    assert (E1 : eof_ok st1) by (unfold eof_ok; rewrite C; exact E).
    destruct (last (map Some (unp st1)) None) as [p|]; [|inversion H; subst; auto].
    destruct (tk_eqb (k p) e); [inversion H; subst; auto|].
    destruct (k p); try (destruct a); try (inversion H; subst; auto; fail);
      (destruct (IH _ _ _ _ _ _ _ E1 H) as (A2 & B2 & C2); repeat split; congruence || lia).
Qed.

Lemma continue_block_W fuel c t st b st' : eof_ok st ->
  continue_block fuel c t st = Some (b, st') ->
  W (unp st') + W (toks st') = W (unp st) + W (toks st) /\ stack st' = stack st /\ eof st' = eof st.
Proof.
  unfold continue_block. intros E.
  destruct (second_is_rec (stack st)); [|intros H; inversion H; subst; auto].
  destruct (k t); destruct c; intros H; try (inversion H; subst; auto; fail);
    eapply scan_continue_W; eauto.
Qed.

Lemma WS_tl s : WS (tl s) <= WS s.
Proof. destruct s; cbn; lia. Qed.
Lemma WS_semi_false s : WS (set_top_semi false s) <= WS s.
Proof. destruct s as [|[l c x] r]; cbn; [lia|]. destruct x as [[|]| | | | | | | | | | |]; cbn; lia. Qed.
Lemma WS_semi_true s : WS (set_top_semi true s) <= WS s + 1.
Proof. destruct s as [|[l c x] r]; cbn; [lia|]. destruct x as [[|]| | | | | | | | | | |]; cbn; lia. Qed.
Lemma WS_pop_rec s : WS (pop_rec s) <= WS s.
Proof. destruct s as [|[l c x] r]; cbn; [lia|]. destruct x; cbn; lia. Qed.
Lemma em_semi b s : em (set_top_semi b s) = em s.
Proof. destruct s as [|[l c x] r]; cbn; [reflexivity|]. destruct x; reflexivity. Qed.

Definition gain (t : mtok) : nat := if tk_eqb (k t) TOpenBlock then 1 else 40.

Lemma after_offside_W t o st r st' : eof_ok st ->
  after_offside t o st = SRet r st' ->
  k t <> TIn -> k t <> TCloseBlock -> k t <> TEOF ->
  Phi st' + gain t <= Psi0 t st /\ eof st' = eof st.
Proof.
  unfold after_offside. intros E H N1 N2 N3.
  pose proof (Phi_le st') as PL.
  assert (Rt : forall s, SRet t s = SRet r st' -> unp s = unp st -> toks s = toks st ->
               WS (stack s) <= WS (stack st) -> em (stack s) = em (stack st) -> eof s = eof st ->
               Phi st' + gain t <= Psi0 t st /\ eof st' = eof st).
  { intros s Hs A B C D F. injection Hs as Ht Hst. subst r st'. split; [|exact F]. unfold Psi0, gain, rk.
    rewrite A, B, D in PL. destruct (k t); cbn [tk_eqb]; try lia; contradiction. }
  destruct (push_context_of (k t)) as [c|] eqn:PC.
  - (* a context is pushed: the token is one of the keywords / brackets *)
    assert (R100 : rk t = 100 /\ tk_eqb (k t) TOpenBlock = false).
    { unfold rk. destruct (k t); cbn in PC; try discriminate; auto. }
    destruct R100 as [R100 R2]. unfold Psi0, gain. rewrite R2, R100.
    destruct (push_ctx _ _) as [s|] eqn:PS; [|discriminate]. inversion H; subst.
    apply push_ctx_W in PS. destruct PS as (A & B & C & D).
    rewrite A, B, C in PL. cbn [WS em] in PL.
    match type of C with stack _ = ?p :: stack ?x => pose proof (wc_le (octx p)) as WP;
      assert (WX : WS (stack x) <= WS (stack st)) by (destruct (_ && _); cbn; [apply WS_tl|lia]);
      assert (UX : unp x = unp st /\ toks x = toks st /\ eof x = eof st) by (destruct (_ && _); cbn; auto) end.
    destruct UX as (U1 & U2 & U3). rewrite U1, U2 in PL. split; [cbn [WS em] in *; lia|congruence].
  - assert (Sc : forall c, ret_push t (scan_for_next_block st c) = SRet r st' -> rk t = 100 ->
                 tk_eqb (k t) TOpenBlock = false -> Phi st' + gain t <= Psi0 t st /\ eof st' = eof st).
    { intros c Hc R100 R2. destruct (scan_for_next_block st c) as [s|] eqn:SC; [|discriminate]. inversion Hc; subst.
      destruct (scan_for_next_block_W _ _ _ E SC) as (A & (o1 & B & C) & D).
      rewrite B in PL. cbn [WS em] in PL. pose proof (wc_le (octx o1)). unfold Psi0, gain. rewrite R100, R2. split; [lia|exact D]. }
    destruct (k t) eqn:K; destruct (octx o) eqn:C; cbn [tk_eqb] in H;
      try (eapply Rt; [exact H|reflexivity|reflexivity|lia|reflexivity|reflexivity]; fail);
      try (eapply Sc; [exact H|unfold rk; rewrite K; reflexivity|rewrite K; reflexivity]; fail);
      try contradiction.
    (* TElse, TComma *)
    all: try (eapply Rt; [exact H|reflexivity|reflexivity|cbn; apply WS_semi_false|cbn; apply em_semi|reflexivity]; fail).
    all: try (match type of H with ret_push ?tt (scan_for_next_block ?ss ?c) = _ =>
                apply (Sc c H); [unfold rk; rewrite K; reflexivity | reflexivity] end).

    all: destruct (next_token st) as [next st1] eqn:NT;
         destruct (next_token_W _ _ _ E NT) as (_ & HW & HS & HE);
         match type of H with (if ?c then _ else _) = _ => destruct c end;
         [ destruct (scan_for_next_block _ _) as [s|] eqn:SC; [|discriminate]; inversion H; subst;
           assert (E2 : eof_ok (set_unp st1 (next :: unp st1))) by (unfold eof_ok; cbn; rewrite HE; exact E);
           destruct (scan_for_next_block_W _ _ _ E2 SC) as (A & (o1 & B & C1) & D);
           rewrite B in PL; cbn [WS em unp toks stack eof set_unp W] in *; pose proof (wc_le (octx o1));
           unfold Psi0, gain, rk; rewrite K; cbn [tk_eqb]; rewrite HS in *; split; [lia|congruence]
         | inversion H; subst; cbn [WS em unp toks stack set_unp W] in *;
           unfold Psi0, gain, rk; rewrite K; cbn [tk_eqb]; rewrite HS in *; split; [lia|exact HE] ].
Qed.

Lemma lt_cons t o r :
  lt t (o :: r) = if is_block (octx o) && (colz t <? ocol o)%N && negb (is_closing (k t)) then 4 else 0.
Proof. reflexivity. Qed.
Lemma lt_semi b x s : lt x (set_top_semi b s) = lt x s.
Proof. destruct s as [|[l c y] r]; cbn; [reflexivity|]. destruct y; reflexivity. Qed.
Lemma em_lt_le x s : em s + lt x s <= 7.
Proof. destruct s; cbn [em]; [cbn; lia|]. pose proof (lt_le x (o :: s)). lia. Qed.
Lemma em_le s : em s <= 7.
Proof. destruct s; cbn; lia. Qed.

Lemma head_set_unp s x u : head (set_unp s (x :: u)) = x.
Proof. reflexivity. Qed.
Lemma head_set_stack s x : head (set_stack s x) = head s.
Proof. reflexivity. Qed.

Lemma set_top_semi_blk b o r c : octx o = CBlock c ->
  set_top_semi b (o :: r) = Off (oline o) (ocol o) (CBlock b) :: r.
Proof. intros H. cbn. rewrite H. reflexivity. Qed.

Lemma lt_closing t s : is_closing (k t) = true -> lt t s = 0.
Proof. intros H. destruct s; cbn; [reflexivity|]. rewrite H. cbn. rewrite andb_false_r. reflexivity. Qed.

Lemma after_offside_ret t o st r st' : after_offside t o st = SRet r st' -> k t <> TIn -> r = t.
Proof.
  unfold after_offside. intros H N.
  destruct (push_context_of (k t)).
  - destruct (push_ctx _ _); [|discriminate]. inversion H; reflexivity.
  - destruct (k t) eqn:K; destruct (octx o); cbn [tk_eqb] in H;
      try (exfalso; apply N; reflexivity);
      try (inversion H; reflexivity);
      try (destruct (scan_for_next_block st _); [|discriminate]; inversion H; reflexivity).
    all: destruct (next_token st) as [nx s1];
         match type of H with (if ?c then _ else _) = _ => destruct c end;
         [destruct (scan_for_next_block _ _); [|discriminate]|]; inversion H; reflexivity.
Qed.

Lemma open_body_W t loc st ret u r st' :
  open_body t loc st ret u = SRet r st' ->
  r = ret /\ unp st' = virt TOpenBlock t :: u /\ toks st' = toks st /\
  stack st' = Off (oline loc) (ocol loc) (CBlock false) :: stack st /\ eof st' = eof st.
Proof.
  unfold open_body. destruct (push_ctx st _) as [s1|] eqn:PC; [|discriminate].
  intros H; inversion H; subst. apply push_ctx_W in PC. destruct PC as (A & B & C & D). cbn. auto.
Qed.

Definition res_W (x : step_res) (t : mtok) (st : state) : Prop :=
  match x with
  | SCont t' s => Psi t' s <= Psi t st /\ hand_ok t' /\ eof s = eof st
  | SRet r s => (k r <> TEOF -> Phi s + 1 <= Psi t st) /\ eof s = eof st
  | _ => True
  end.

Ltac bound_all :=
  repeat match goal with
  | |- context [WS (set_top_semi false ?s)] =>
      lazymatch goal with H : WS (set_top_semi false s) <= _ |- _ => fail | _ => pose proof (WS_semi_false s) end
  | |- context [WS (set_top_semi true ?s)] =>
      lazymatch goal with H : WS (set_top_semi true s) <= _ |- _ => fail | _ => pose proof (WS_semi_true s) end
  | |- context [WS (pop_rec ?s)] =>
      lazymatch goal with H : WS (pop_rec s) <= _ |- _ => fail | _ => pose proof (WS_pop_rec s) end
  | H : context [WS (set_top_semi false ?s)] |- _ =>
      lazymatch goal with H : WS (set_top_semi false s) <= WS s |- _ => fail | _ => pose proof (WS_semi_false s) end
  | |- context [lt ?x ?s] =>
      lazymatch goal with H : lt x s <= 4 |- _ => fail | _ => pose proof (lt_le x s); pose proof (em_lt_le x s) end
  | |- context [em ?s] =>
      lazymatch goal with H : em s <= 7 |- _ => fail | _ => pose proof (em_le s) end
  | |- context [rk ?x] =>
      lazymatch goal with H : rk x <= 100 |- _ => fail | _ => pose proof (rk_le x) end
  end.

Ltac fin_arith S K C :=
  unfold Phi, Psi, Psi0;
  rewrite ?head_set_unp, ?head_set_stack;
  cbn [unp toks stack eof set_unp set_stack virt k col code_of];
  rewrite ?S;
  repeat match goal with |- context [lt (head ?s) ?l] =>
    let v := fresh "v" in
    pose proof (lt_le (head s) l); pose proof (em_lt_le (head s) l); set (v := lt (head s) l) in *; clearbody v end;
  try rewrite !(set_top_semi_blk _ _ _ _ C);
  cbn [WS em W tl unp toks stack];
  rewrite ?C; cbn [WS em W tl octx wc];
  rewrite ?em_semi, ?lt_semi;
  try (rewrite !lt_closing by (cbn [k virt]; rewrite ?K; reflexivity));
  rewrite ?lt_cons; rewrite ?C;
  unfold colz, rk; cbn [k virt col]; rewrite ?K;
  cbn [is_block is_closing andb negb wc octx ocol oline];
  unfold N.ltb;
  repeat match goal with CMP : (_ ?= _)%N = _ |- _ => rewrite CMP end;
  cbn [andb negb];
  bound_all; cbn [em WS] in *; lia.

Ltac direct S K C :=
  cbn [res_W layout_token];
  match goal with
  | |- (_ -> _) /\ _ =>
      let NE := fresh "NE" in
      split; [intros NE|reflexivity]; first [exfalso; apply NE; exact K | fin_arith S K C]
  | |- _ /\ _ /\ _ => split; [fin_arith S K C|split; [first [assumption | (intros HH; cbn in HH; discriminate HH)]|reflexivity]]
  | |- True => exact I
  end.

Lemma step_W fuel t st : eof_ok st -> hand_ok t -> res_W (step fuel t st) t st.
Proof.
  intros E HO. unfold step.
  destruct (stack st) as [|o rest] eqn:S.
  - (* empty stack: a block is opened *)
    destruct (k t) eqn:K; cbn [res_W];
      try (split; [|reflexivity]; intros _; unfold Phi, Psi, Psi0, head, rk; rewrite S, K; cbn; lia);
      (destruct (push_ctx st (off_at t (CBlock false))) as [s1|] eqn:PC; [|exact I];
       apply push_ctx_W in PC; destruct PC as (A & B & C & D);
       cbn [layout_token res_W]; split; [|cbn; exact D]; intros _;
       unfold Phi, Psi, Psi0, head; cbn [unp toks stack set_unp]; rewrite A, B, C, S;
       cbn [WS em W wc octx off_at]; rewrite lt_cons; cbn [octx off_at ocol is_block andb];
       assert (CZ : colz t = col t) by (unfold colz; rewrite K; try reflexivity; symmetry; apply HO; exact K);
       rewrite CZ, N.ltb_irrefl; cbn; lia).
  - destruct (k t) eqn:K; cbn [tk_eqb is_closing andb];
      destruct (octx o) as [b| | | | | | | | | | |] eqn:C; cbn [closes tk_eqb andb negb].
    all: try match goal with |- context [forallb ?f ?r] => destruct (forallb f r) eqn:FB end.
    all: try match goal with |- context [N.compare ?x ?y] => destruct (N.compare x y) eqn:CMP end.
    all: try (destruct b).
    all: try match goal with |- context [close_block_resets_semi] => destruct close_block_resets_semi end.
    all: try (pose proof (HO K) as CZ; rewrite CZ in * ).
    all: try (match goal with FB : forallb _ ?r = false |- _ => destruct r; [cbn in FB; discriminate FB|] end).
    all: try solve [direct S K C].
    (* explicit `in` closing a let / type / rec: the `in` token is emitted *)
    all: try (match goal with |- res_W (open_body ?a ?b ?c ?d ?e) _ _ =>
                destruct (open_body a b c d e) eqn:OB; cbn [res_W]; try exact I;
                [ apply open_body_W in OB; destruct OB as (R1 & R2 & R3 & R4 & R5); subst;
                  split; [intros NE|rewrite R5; reflexivity];
                  unfold Phi, Psi, Psi0, head; rewrite R2, R3, R4; cbn [stack set_stack unp toks]; rewrite S;
                  cbn [WS em W wc octx]; unfold rk; cbn [k virt]; rewrite K; rewrite ?C; cbn [wc];
                  bound_all; cbn [em WS] in *; lia
                | exfalso; eapply open_body_no_cont; exact OB ] end).
    (* the rest of the iteration (after the offside rules) *)
    all: try (match goal with |- res_W (after_offside ?a ?b ?s) _ _ =>
                destruct (after_offside a b s) eqn:AO; cbn [res_W]; try exact I;
                [ pose proof (after_offside_ret _ _ _ _ _ AO ltac:(rewrite K; discriminate)) as RT;
                  assert (E' : eof_ok s) by exact E;
                  pose proof (proj2 (after_offside_G _ _ _ _ _ E' AO)) as EE;
                  split; [intros NE|exact EE];
                  first [ exfalso; apply NE; rewrite RT; exact K
                        | apply after_offside_W in AO; [|exact E'|rewrite K; discriminate|rewrite K; discriminate|rewrite K; discriminate];
                          destruct AO as [AW _]; revert AW; unfold gain, Psi, Psi0; rewrite K; cbn [tk_eqb];
                          cbn [stack set_stack unp toks]; rewrite ?S;
                          try rewrite !(set_top_semi_blk _ _ _ _ C); cbn [WS em wc octx]; rewrite ?C; cbn [wc];
                          intros AW; bound_all; cbn [em WS] in *; lia ]
                | exfalso; eapply after_offside_no_cont; exact AO ] end).
    (* offside rule of let / type *)
    all: match goal with |- context [continue_block ?f ?c ?x ?y] =>
           destruct (continue_block f c x y) as [[[|] st1]|] eqn:CB; [ | | exact I];
           destruct (continue_block_W _ _ _ _ _ _ E CB) as (CW & CS & CE);
           assert (E1 : eof_ok st1) by (unfold eof_ok; rewrite CE; exact E);
           assert (S1 : stack st1 = o :: rest) by (rewrite CS; exact S) end.
    all: try (match goal with |- res_W (after_offside ?a ?b ?s) _ _ =>
                destruct (after_offside a b s) eqn:AO; cbn [res_W]; try exact I;
                [ pose proof (after_offside_ret _ _ _ _ _ AO ltac:(rewrite K; discriminate)) as RT;
                  pose proof (proj2 (after_offside_G _ _ _ _ _ E1 AO)) as EE;
                  split; [intros NE|congruence];
                  first [ exfalso; apply NE; rewrite RT; exact K
                        | apply after_offside_W in AO; [|exact E1|rewrite K; discriminate|rewrite K; discriminate|rewrite K; discriminate];
                          destruct AO as [AW _]; revert AW; unfold gain, Psi, Psi0; rewrite K; cbn [tk_eqb];
                          rewrite ?S1, ?S; cbn [WS em wc octx]; rewrite ?C; cbn [wc];
                          intros AW; bound_all; cbn [em WS] in *; lia ]
                | exfalso; eapply after_offside_no_cont; exact AO ] end).
    all: try (cbn [res_W]; split; [|split; [exact HO|cbn; exact CE]];
              unfold Psi, Psi0; cbn [stack set_stack unp toks]; rewrite ?S1, ?S; cbn [tl WS em wc octx];
              rewrite ?C; cbn [wc]; rewrite ?lt_cons; rewrite ?C; cbn [is_block andb];
              bound_all; cbn [em WS] in *; lia).
    all: rewrite S1; cbn [tl]; destruct rest as [|o1 rest1]; [exact I|];
         match goal with |- res_W (open_body ?a ?b ?c ?d ?e) _ _ =>
           destruct (open_body a b c d e) eqn:OB; cbn [res_W]; try exact I;
           [ apply open_body_W in OB; destruct OB as (R1 & R2 & R3 & R4 & R5); subst;
             split; [intros NE|rewrite R5; cbn; exact CE];
             unfold Phi, Psi, Psi0, head; rewrite R2, R3, R4; cbn [stack set_stack unp toks]; rewrite S;
             cbn [WS em W wc octx]; unfold rk; cbn [k virt]; rewrite ?K; rewrite ?C; cbn [wc];
             bound_all; cbn [em WS] in *; lia
           | exfalso; eapply open_body_no_cont; exact OB ] end.
Qed.

Lemma run_loop_W : forall n fuel t st r st', eof_ok st -> hand_ok t ->
  run_loop n fuel t st = LTok r st' ->
  (k r <> TEOF -> Phi st' + 1 <= Psi t st) /\ eof st' = eof st.
Proof.
  induction n as [|n IH]; intros fuel t st r st' E HO H; cbn [run_loop] in H; [discriminate|].
  pose proof (step_W fuel t st E HO) as S.
  destruct (step fuel t st) as [r1 s1|t1 s1| | |]; try discriminate.
  - inversion H; subst. exact S.
  - cbn [res_W] in S. destruct S as (A & B & C).
    assert (E1 : eof_ok s1) by (unfold eof_ok; rewrite C; exact E).
    destruct (IH _ _ _ _ _ E1 B H) as [X Y]. split; [intros NE; specialize (X NE); lia|congruence].
Qed.

Lemma lt_same_kind t t' s : k t' = k t -> colz t' = colz t -> lt t' s = lt t s.
Proof. intros A B. unfold lt. rewrite A, B. reflexivity. Qed.

(* every call that emits a token other than EOF lowers the potential *)
Lemma call_W fuel st r st' : eof_ok st ->
  layout_next_token fuel st = LTok r st' -> k r <> TEOF -> Phi st' < Phi st /\ eof st' = eof st.
Proof.
  unfold layout_next_token. intros E H NE. destruct (next_token st) as [t st1] eqn:NT.
  destruct (next_token_W _ _ _ E NT) as (HH & HW & HS & HE).
  assert (E1 : eof_ok st1) by (unfold eof_ok; rewrite HE; exact E).
  assert (Main : forall t1, k t1 = k t -> colz t1 = colz t -> hand_ok t1 ->
            run_loop (loop_fuel st1) fuel t1 st1 = LTok r st' -> Phi st' < Phi st /\ eof st' = eof st).
  { intros t1 K1 C1 H1 RL. destruct (run_loop_W _ _ _ _ _ _ E1 H1 RL) as [X Y]. specialize (X NE).
    split; [|congruence].
    assert (PE : Psi t1 st1 = Phi st).
    { unfold Psi, Psi0, Phi. rewrite <- HH, HS, (lt_same_kind t t1 _ K1 C1). unfold rk. rewrite K1. fold (rk t). lia. }
    lia. }
  destruct (k t) eqn:K.
  2-30: (apply (Main t); [exact K|reflexivity|intros Z; rewrite K in Z; discriminate Z|exact H]).
  destruct (stack st1) eqn:S.
  - inversion H; subst. exfalso. apply NE. reflexivity.
  - apply (Main (MTok TEOF (code t) (line t) 0%N (mlo t) (mhi t))); [reflexivity|unfold colz; cbn [k col]; rewrite K; reflexivity|intros _; reflexivity|exact H].
Qed.

Lemma run_W : forall n fuel st acc, eof_ok st -> Phi st < n -> forall out, run n fuel st acc <> RFuel out.
Proof.
  induction n as [|n IH]; intros fuel st acc E HP out; [lia|]. cbn [run].
  destruct (layout_next_token fuel st) as [t st'| | | |] eqn:L; try discriminate.
  - destruct (tk_eqb (k t) TEOF) eqn:KE.
    + destruct (k t); try discriminate.
    + assert (NE : k t <> TEOF) by (intros Z; rewrite Z in KE; discriminate).
      destruct (call_W _ _ _ _ E L NE) as [A B].
      assert (E1 : eof_ok st') by (unfold eof_ok; rewrite B; exact E).
      destruct (k t); try (apply IH; [exact E1|lia]). exfalso; apply NE; reflexivity.
  - exfalso. eapply layout_step_terminates; exact L.
Qed.

Lemma W_le : forall l, W l <= 100 * length l.
Proof. induction l as [|x l IH]; cbn [W length]; [lia|]. pose proof (rk_le x). lia. Qed.

(* The whole run of the model ends within 100·|raw| + 10 calls of layout_next_token (each of which
   ends within 2·|contexts| + 3 iterations, LayoutProofs.layout_step_terminates): it never runs out
   of fuel, for every token stream that ends in EOF. *)
Theorem layout_model_terminates raw :
  k (last raw (MTok TEOF 12 0 1 0 0)) = TEOF -> forall out, layout raw <> RFuel out.
Proof.
  intros E out. unfold layout. apply run_W; [exact E|].
  unfold Phi, head. cbn [unp toks stack W WS em lt]. pose proof (W_le raw). lia.
Qed.
