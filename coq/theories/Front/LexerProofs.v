(* Proofs about the tokenizer model Front/Lexer.v: termination (no loop runs out of fuel), spans in
   bounds / ordered, no panic on ASCII input (for both variants of the tree), the refutations on
   non-ASCII input for the tree as found, and totality of [unescape]. *)
From Coq Require Import List NArith ZArith Bool Arith Lia.
From GV Require Import Base.Utf8N Front.Lexer.
Import ListNotations.
Local Open Scope N_scope.

(* split syntactic conjunctions only (never unfolds [wf]) *)
Ltac spl := repeat match goal with |- _ /\ _ => split end.

(* ------------------------------------------------------------------------------------------ *)
(* invariants                                                                                  *)
(* ------------------------------------------------------------------------------------------ *)

Definition err_ok (input : list byte) (e : sp_err) : Prop :=
  (e_start e <= e_end e /\ e_end e <= length input)%nat.

(* The state is a suffix of the input at its position; every recorded error span is in bounds. *)
Definition wf (input : list byte) (s : st) : Prop :=
  rest s = skipn (pos s) input /\ (pos s <= length input)%nat /\ Forall (err_ok input) (errs s).

Definition item_ok (lo hi : nat) (oi : option item) : Prop :=
  match oi with
  | None => True
  | Some (ITok _ a b) => (lo <= a /\ a <= b /\ b <= hi)%nat
  | Some (IErr _ a b) => (lo <= a /\ a <= b /\ b <= hi)%nat
  end.

(* What every sub-lexer guarantees when started in a well-formed state at or after [lo]:
   - Ok: the new state is well formed, not before [lo'], the item's span lies in [lo, pos s'];
   - Panic: only when the input is not pure ASCII;
   - Fuel: never. *)
Definition post (input : list byte) (lo lo' : nat) (r : res (option item * st)) : Prop :=
  match r with
  | Ok (oi, s') => wf input s' /\ (lo' <= pos s')%nat /\ item_ok lo (pos s') oi
  | Panic _ => all_ascii input = false
  | Fuel => False
  end.

Lemma skipn_cons_inv : forall (A : Type) n (l : list A) b r,
  skipn n l = b :: r -> skipn (S n) l = r /\ (n < length l)%nat.
Proof.
  induction n as [|n IH]; intros l b r H; destruct l as [|x l]; cbn in *; try discriminate.
  - inversion H; subst. split; [reflexivity | lia].
  - apply IH in H. destruct H as [H1 H2]. split; [exact H1 | lia].
Qed.

Lemma skipn_nil_len : forall (A : Type) n (l : list A), skipn n l = [] -> (length l <= n)%nat.
Proof.
  induction n as [|n IH]; intros l H; destruct l as [|x l]; cbn in *; try lia; try discriminate.
  apply IH in H. lia.
Qed.

Lemma wf_len : forall input s, wf input s -> (pos s + length (rest s) = length input)%nat.
Proof.
  intros input s (H & Hp & _). rewrite H, skipn_length. lia.
Qed.

Lemma wf_init : forall input, wf input (init input).
Proof. intros. unfold wf, init; cbn. spl; [reflexivity | lia | constructor]. Qed.

Lemma wf_bump : forall input s p b s',
  wf input s -> bump s = Some (p, b, s') ->
  wf input s' /\ p = pos s /\ pos s' = S (pos s) /\ rest s = b :: rest s' /\ errs s' = errs s /\ In b input.
Proof.
  intros input s p b s' (H & Hp & He) Hb. unfold bump in Hb.
  destruct (rest s) as [|x r] eqn:Hr; [discriminate|].
  injection Hb as Ep Eb Es. subst p x s'. cbn.
  symmetry in H. pose proof (skipn_cons_inv _ _ _ _ _ H) as [H1 H2].
  assert (Hin : In b input).
  { assert (Hin : In b (skipn (pos s) input)) by (rewrite H; left; reflexivity).
    clear - Hin. revert Hin. generalize (pos s).
    induction input as [|y l IH]; intros [|n] Hin; cbn in *; auto.
    right. eapply IH. exact Hin. }
  split.
  { unfold wf; cbn. spl; [symmetry; exact H1 | lia | exact He]. }
  spl; auto.
Qed.

Lemma wf_bump_ : forall input s, wf input s -> wf input (bump_ s) /\ (pos s <= pos (bump_ s))%nat /\ errs (bump_ s) = errs s
  /\ (rest s <> [] -> pos (bump_ s) = S (pos s)).
Proof.
  intros input s W. unfold bump_. destruct (rest s) as [|x r] eqn:Hr.
  - split; [exact W | split; [lia | split; [reflexivity | intro C; exfalso; apply C; reflexivity]]].
  - destruct (wf_bump input s (pos s) x (mkSt (S (pos s)) r (errs s)) W) as (W' & _).
    { unfold bump. rewrite Hr. reflexivity. }
    cbn. split; [exact W' | split; [lia | split; [reflexivity | reflexivity]]].
Qed.

Lemma wf_bump_n : forall input n s, wf input s -> wf input (bump_n n s) /\ (pos s <= pos (bump_n n s))%nat /\ errs (bump_n n s) = errs s.
Proof.
  induction n as [|n IH]; intros s W; cbn.
  - spl; auto.
  - destruct (wf_bump_ input s W) as (W1 & P1 & E1 & _).
    destruct (IH _ W1) as (W2 & P2 & E2). spl; auto; try lia. congruence.
Qed.

Lemma wf_push : forall input s a b c,
  wf input s -> (a <= b)%nat -> (b <= length input)%nat -> wf input (push_err a b c s).
Proof.
  intros input s a b c (H & Hp & He) Hab Hb. unfold wf, push_err; cbn. spl; auto.
  constructor; auto. unfold err_ok; cbn. lia.
Qed.

Lemma push_pos : forall s a b c, pos (push_err a b c s) = pos s.
Proof. reflexivity. Qed.
Lemma push_rest : forall s a b c, rest (push_err a b c s) = rest s.
Proof. reflexivity. Qed.

Lemma wf_skip_to_end : forall input s, wf input s -> wf input (skip_to_end s) /\ (pos s <= pos (skip_to_end s))%nat.
Proof.
  intros input s W. pose proof (wf_len _ _ W) as L. destruct W as (H & Hp & He).
  unfold wf, skip_to_end; cbn. spl; auto; try lia.
  rewrite L. symmetry. apply skipn_all.
Qed.

Lemma wf_pos_le : forall input s, wf input s -> (pos s <= length input)%nat.
Proof. intros input s (_ & H & _). exact H. Qed.

(* ------------------------------------------------------------------------------------------ *)
(* ASCII input: slices and restore_char cannot panic                                           *)
(* ------------------------------------------------------------------------------------------ *)

Lemma ascii_boundary : forall input i, all_ascii input = true -> (i <= length input)%nat -> is_char_boundary input i = true.
Proof.
  intros input i A Hi. unfold is_char_boundary.
  destruct (Nat.eqb i 0) eqn:E0; [reflexivity|].
  destruct (nth_error input i) as [b|] eqn:Hn.
  - apply nth_error_In in Hn. unfold all_ascii in A. rewrite forallb_forall in A. apply A in Hn.
    unfold is_boundary_byte. rewrite Hn. reflexivity.
  - apply nth_error_None in Hn. apply Nat.eqb_eq. lia.
Qed.

Lemma slice_spec : forall input a b,
  (a <= b)%nat -> (b <= length input)%nat ->
  match slice input a b with
  | Ok _ => True
  | Panic _ => all_ascii input = false
  | Fuel => False
  end.
Proof.
  intros input a b Hab Hb. unfold slice.
  destruct (slice_ok input a b) eqn:E; [exact I|].
  destruct (all_ascii input) eqn:A; [|reflexivity].
  unfold slice_ok in E.
  rewrite (ascii_boundary input a A), (ascii_boundary input b A) in E by lia.
  apply Nat.leb_le in Hab. apply Nat.leb_le in Hb. rewrite Hab, Hb in E. discriminate.
Qed.

Lemma slice_ok_ascii : forall input a b,
  (a <= b)%nat -> (b <= length input)%nat -> slice_ok input a b = false -> all_ascii input = false.
Proof.
  intros input a b Hab Hb E. pose proof (slice_spec input a b Hab Hb) as S.
  unfold slice in S. rewrite E in S. exact S.
Qed.

Lemma all_ascii_in : forall input b, all_ascii input = true -> In b input -> (b <? 128) = true.
Proof. intros input b A Hin. unfold all_ascii in A. rewrite forallb_forall in A. auto. Qed.

Lemma all_ascii_skipn : forall n input, all_ascii input = true -> all_ascii (skipn n input) = true.
Proof.
  induction n as [|n IH]; intros input A; destruct input as [|x l]; cbn in *; auto.
  apply andb_true_iff in A. destruct A as [_ A]. auto.
Qed.

Lemma bytes_prefix_ascii : forall fx r, all_ascii r = true -> bytes_prefix fx r = [].
Proof.
  intros fx r A. destruct r as [|b0 r1]; cbn; [reflexivity|].
  cbn in A. apply andb_true_iff in A. destruct A as [A0 _].
  unfold is_boundary_byte. rewrite A0. reflexivity.
Qed.

Lemma restore_char_spec : forall fx input s b,
  wf input s -> In b input ->
  match restore_char fx b (rest s) with
  | Ok _ => True
  | Panic _ => all_ascii input = false
  | Fuel => False
  end.
Proof.
  intros fx input s b W Hin. unfold restore_char.
  destruct (all_ascii input) eqn:A.
  - destruct W as (H & _). rewrite H, (bytes_prefix_ascii fx _ (all_ascii_skipn _ _ A)). cbn.
    rewrite (all_ascii_in _ _ A Hin). reflexivity.
  - destruct (utf8_valid _); auto.
Qed.

Lemma restore_and_skip_spec : forall fx input s b,
  wf input s -> In b input ->
  match restore_and_skip fx b s with
  | Ok (_, s') => wf input s' /\ (pos s <= pos s')%nat
  | Panic _ => all_ascii input = false
  | Fuel => False
  end.
Proof.
  intros fx input s b W Hin. unfold restore_and_skip.
  pose proof (restore_char_spec fx input s b W Hin) as R.
  destruct (restore_char fx b (rest s)) as [c| |]; auto.
  destruct fx.
  - destruct (wf_bump_n input (len_utf8 c - 1) s W) as (W' & P' & _). split; auto.
  - split; auto.
Qed.

(* ------------------------------------------------------------------------------------------ *)
(* take_until                                                                                  *)
(* ------------------------------------------------------------------------------------------ *)

Lemma scan_until_spec : forall term input r p p' r',
  r = skipn p input -> (p <= length input)%nat -> scan_until term p r = (p', r') ->
  r' = skipn p' input /\ (p <= p')%nat /\ (p' <= length input)%nat /\
  (length r' <= length r)%nat /\
  match r' with [] => True | b :: _ => term b = true end.
Proof.
  intros term input r. induction r as [|b r IH]; intros p p' r' H Hp Hs; cbn in Hs.
  - inversion Hs; subst. spl; auto.
  - destruct (term b) eqn:T.
    + inversion Hs; subst. spl; auto.
    + symmetry in H. pose proof (skipn_cons_inv _ _ _ _ _ H) as [H1 H2].
      destruct (IH (S p) p' r' (eq_sym H1) ltac:(lia) Hs) as (A & B & C & D & E).
      spl; auto; try lia. cbn. lia.
Qed.

Lemma take_until_spec : forall input term start s,
  wf input s -> (start <= pos s)%nat ->
  match take_until input term start s with
  | Ok (e, t, s') =>
    wf input s' /\ (pos s <= pos s')%nat /\ e = pos s' /\ errs s' = errs s /\
    (length (rest s') <= length (rest s))%nat /\
    match rest s' with [] => True | b :: _ => term b = true end
  | Panic _ => all_ascii input = false
  | Fuel => False
  end.
Proof.
  intros input term start s W Hs. unfold take_until.
  destruct (scan_until term (pos s) (rest s)) as [p r] eqn:E.
  destruct W as (H & Hp & He).
  destruct (scan_until_spec term input (rest s) (pos s) p r H Hp E) as (A & B & C & D & F).
  pose proof (slice_spec input start p ltac:(lia) C) as S.
  destruct (slice input start p) as [t| |]; auto.
  cbn. unfold wf; cbn. spl; auto.
Qed.

Lemma take_while_spec : forall input keep start s,
  wf input s -> (start <= pos s)%nat ->
  match take_while input keep start s with
  | Ok (e, t, s') =>
    wf input s' /\ (pos s <= pos s')%nat /\ e = pos s' /\ errs s' = errs s /\
    (length (rest s') <= length (rest s))%nat /\
    match rest s' with [] => True | b :: _ => keep b = false end
  | Panic _ => all_ascii input = false
  | Fuel => False
  end.
Proof.
  intros input keep start s W Hs. unfold take_while.
  pose proof (take_until_spec input (fun b => negb (keep b)) start s W Hs) as T.
  destruct (take_until input (fun b => negb (keep b)) start s) as [[[e t] s']| |]; auto.
  destruct T as (A & B & C & D & E & F). spl; auto.
  destruct (rest s'); auto. apply negb_true_iff in F. exact F.
Qed.

(* ------------------------------------------------------------------------------------------ *)
(* sub-lexers                                                                                  *)
(* ------------------------------------------------------------------------------------------ *)

Ltac use_take W :=
  match goal with
  | |- context [take_until ?input ?term ?start ?s] =>
    let T := fresh "T" in
    pose proof (take_until_spec input term start s W ltac:(lia)) as T;
    destruct (take_until input term start s) as [[[? ?] ?]| |];
    [ destruct T as (? & ? & ? & ? & ? & ?) | cbn; exact T | cbn; contradiction ]
  | |- context [take_while ?input ?keep ?start ?s] =>
    let T := fresh "T" in
    pose proof (take_while_spec input keep start s W ltac:(lia)) as T;
    destruct (take_while input keep start s) as [[[? ?] ?]| |];
    [ destruct T as (? & ? & ? & ? & ? & ?) | cbn; exact T | cbn; contradiction ]
  end.

Ltac use_slice a b :=
  match goal with
  | |- context [slice ?input a b] =>
    let S := fresh "S" in
    pose proof (slice_spec input a b ltac:(lia) ltac:(lia)) as S;
    destruct (slice input a b) as [?| |]; [ clear S | cbn; exact S | cbn; contradiction ]
  end.

Ltac fin := cbn; spl; auto; try lia.
Ltac finp := cbn; spl; try (apply wf_push; auto); cbn; auto; try lia.

Lemma line_comment_post : forall input start s,
  wf input s -> (start <= pos s)%nat -> post input start (pos s) (line_comment input start s).
Proof.
  intros input start s W Hs. unfold line_comment. use_take W.
  destruct (starts_with _ _); fin.
Qed.

Lemma shebang_line_post : forall input start s,
  wf input s -> (start <= pos s)%nat -> post input start (pos s) (shebang_line input start s).
Proof.
  intros input start s W Hs. unfold shebang_line. use_take W.
  destruct (starts_with _ _); fin.
Qed.

Lemma lookahead_bump_ : forall input s b,
  wf input s -> lookahead (bump_ s) = Some b -> pos (bump_ s) = S (pos s).
Proof.
  intros input s b W L. destruct (wf_bump_ input s W) as (_ & _ & _ & P).
  apply P. intro E. unfold bump_, lookahead in L. rewrite E in L. rewrite E in L. discriminate.
Qed.

Lemma block_loop_post : forall fuel input start s,
  wf input s -> (start <= pos s)%nat -> (length input < fuel + pos s)%nat ->
  post input start (pos s) (block_loop fuel input start s).
Proof.
  induction fuel as [|fuel IH]; intros input start s W Hs Hf.
  - pose proof (wf_pos_le _ _ W). lia.
  - cbn [block_loop]. use_take W.
    destruct (wf_bump_ input s0 H) as (W2 & P2 & _ & _).
    destruct (lookahead (bump_ s0)) as [b|] eqn:L.
    + destruct (b =? 47).
      * destruct (wf_bump_ input _ W2) as (W3 & P3 & _ & _).
        destruct (_ && _); fin.
      * pose proof (lookahead_bump_ input s0 b H L) as P.
        specialize (IH input start (bump_ s0) W2 ltac:(lia) ltac:(lia)).
        destruct (block_loop fuel input start (bump_ s0)) as [[oi s']| |]; cbn in *; auto.
        destruct IH as (A & B & C). spl; auto; lia.
    + destruct (wf_skip_to_end input _ W2) as (W3 & P3). fin.
Qed.

Lemma block_comment_post : forall input start s,
  wf input s -> (start <= pos s)%nat -> post input start (pos s) (block_comment input start s).
Proof.
  intros input start s W Hs. unfold block_comment.
  destruct (wf_bump_ input s W) as (W2 & P2 & _ & _).
  pose proof (wf_len _ _ W) as L.
  pose proof (block_loop_post (S (length (rest s))) input start (bump_ s) W2 ltac:(lia) ltac:(lia)) as B.
  destruct (block_loop _ _ _ _) as [[oi s']| |]; cbn in *; auto.
  destruct B as (A & B & C). spl; auto; lia.
Qed.

Lemma operator_post : forall ob input start s,
  wf input s -> (start <= pos s)%nat -> post input start (pos s) (operator ob input start s).
Proof.
  intros ob input start s W Hs. unfold operator. use_take W.
  repeat (match goal with |- context [if list_eqb ?a ?b then _ else _] => destruct (list_eqb a b) end; try solve [fin]).
  use_take H. use_take H5. destruct ob; fin.
Qed.

Lemma identifier_post : forall input start s,
  wf input s -> (start <= pos s)%nat -> post input start (pos s) (identifier input start s).
Proof.
  intros input start s W Hs. unfold identifier. use_take W.
  destruct (test_lookahead (N.eqb 33) s0) eqn:TL.
  - assert (R : rest s0 <> []).
    { unfold test_lookahead in TL. destruct (rest s0); [discriminate | discriminate]. }
    destruct (wf_bump_ input s0 H) as (W2 & P2 & _ & P2').
    specialize (P2' R). pose proof (wf_pos_le _ _ W2).
    use_slice start (S n). fin.
  - fin.
Qed.

Definition small (input : list byte) (b : byte) : Prop := all_ascii input = true -> (b <? 128) = true.

Lemma small_in : forall input b, In b input -> small input b.
Proof. intros input b Hin A. eapply all_ascii_in; eauto. Qed.

Lemma restore_char_spec' : forall fx input s b,
  wf input s -> small input b ->
  match restore_char fx b (rest s) with
  | Ok _ => True
  | Panic _ => all_ascii input = false
  | Fuel => False
  end.
Proof.
  intros fx input s b W Hs. unfold restore_char.
  destruct (all_ascii input) eqn:A.
  - destruct W as (H & _). rewrite H, (bytes_prefix_ascii fx _ (all_ascii_skipn _ _ A)). cbn.
    rewrite (Hs A). reflexivity.
  - destruct (utf8_valid _); auto.
Qed.

Definition pending_ok (input : list byte) (ch : pending_char) : Prop :=
  match ch with inl b => small input b | inr _ => True end.

Lemma simple_escape_small : forall input b v, simple_escape b = Some v -> small input v.
Proof.
  intros input b v H _. unfold simple_escape in H.
  repeat (match type of H with (if ?c then _ else _) = _ => destruct c end;
          try (injection H as <-; reflexivity)).
  discriminate.
Qed.

Lemma escape_code_spec : forall fx input start s,
  wf input s -> (start <= pos s)%nat ->
  match escape_code fx start s with
  | Ok (ch, s') => wf input s' /\ (pos s <= pos s')%nat /\ pending_ok input ch
  | Panic _ => all_ascii input = false
  | Fuel => False
  end.
Proof.
  intros fx input start s W Hs. unfold escape_code.
  destruct (bump s) as [[[e b] s1]|] eqn:B.
  - destruct (wf_bump _ _ _ _ _ W B) as (W1 & -> & P1 & _ & _ & Hin).
    destruct (simple_escape b) as [v|] eqn:SE.
    + spl; auto; try lia. destruct fx; cbn; auto. eapply simple_escape_small; eauto.
    + pose proof (restore_and_skip_spec fx input s1 b W1 Hin) as R.
      destruct (restore_and_skip fx b s1) as [[c s2]| |]; cbn; auto.
      destruct R as (W2 & P2). pose proof (wf_pos_le _ _ W1).
      spl; [apply wf_push; auto; lia | cbn; lia |].
      destruct fx; cbn; auto. apply small_in; auto.
  - pose proof (wf_pos_le _ _ W).
    spl; [apply wf_push; auto; lia | cbn; lia |].
    destruct fx; cbn; auto. intros _. reflexivity.
Qed.

Lemma string_loop_post : forall fuel fx input start cs s,
  wf input s -> (start <= cs)%nat -> (cs <= pos s)%nat -> (length input < fuel + pos s)%nat ->
  post input start (pos s) (string_loop fuel fx input start cs s).
Proof.
  induction fuel as [|fuel IH]; intros fx input start cs s W Hs Hc Hf.
  - pose proof (wf_pos_le _ _ W). lia.
  - cbn [string_loop]. use_take W.
    destruct (bump s0) as [[[p b] s2]|] eqn:B.
    + destruct (wf_bump _ _ _ _ _ H B) as (W2 & -> & P2 & _ & _ & Hin).
      pose proof (wf_pos_le _ _ W2).
      destruct (b =? 92).
      * pose proof (escape_code_spec fx input (pos s0) s2 W2 ltac:(lia)) as E.
        destruct (escape_code fx (pos s0) s2) as [[ch s3]| |]; cbn; auto.
        destruct E as (W3 & P3 & _).
        specialize (IH fx input start cs s3 W3 Hs ltac:(lia) ltac:(lia)).
        destruct (string_loop fuel fx input start cs s3) as [[oi s']| |]; cbn in *; auto.
        destruct IH as (A & B' & C). spl; auto; lia.
      * destruct (b =? 34).
        -- use_slice cs (pos s2 - 1)%nat. fin.
        -- use_slice cs (pos s2). finp.
    + pose proof (wf_pos_le _ _ H).
      use_slice cs (pos s0). finp.
Qed.

Lemma string_literal_post : forall fx input start s,
  wf input s -> (start <= pos s)%nat -> post input start (pos s) (string_literal fx input start s).
Proof.
  intros fx input start s W Hs. unfold string_literal.
  pose proof (wf_len _ _ W). apply string_loop_post; auto; lia.
Qed.

Lemma raw_delims_spec : forall input r n p d p' r',
  r = skipn p input -> (p <= length input)%nat -> raw_delims n p r = Some (d, p', r') ->
  r' = skipn p' input /\ (p <= p')%nat /\ (p' <= length input)%nat.
Proof.
  intros input r. induction r as [|b r IH]; intros n p d p' r' H Hp Hd; cbn in Hd.
  - injection Hd as <- <- <-. spl; auto.
  - symmetry in H. pose proof (skipn_cons_inv _ _ _ _ _ H) as [H1 H2].
    destruct (b =? 35).
    + destruct (IH (S n) (S p) d p' r' (eq_sym H1) ltac:(lia) Hd) as (A & B & C). spl; auto; lia.
    + destruct (b =? 34); [|discriminate]. injection Hd as <- <- <-. spl; auto; lia.
Qed.

Definition raw_inv (cs delims : nat) (found : option nat) (p : nat) : Prop :=
  match found with
  | Some k => (k <= delims /\ k + 1 + cs <= p)%nat
  | None => (cs <= p)%nat
  end.

Lemma raw_body_spec : forall input cs delims r found p,
  r = skipn p input -> (p <= length input)%nat -> raw_inv cs delims found p ->
  match raw_body input cs delims found p r with
  | RClosed e r' => r' = skipn e input /\ (p <= e)%nat /\ (e <= length input)%nat /\ (delims + 1 + cs <= e)%nat
  | REof e => (p <= e)%nat /\ e = length input /\ (cs <= e)%nat
  | RPanic => all_ascii input = false
  end.
Proof.
  intros input cs delims r. induction r as [|b r IH]; intros found p H Hp Inv.
  - assert (E : p = length input).
    { symmetry in H. apply skipn_nil_len in H. lia. }
    destruct found as [k|]; cbn in *.
    + destruct (Nat.eqb k delims) eqn:K.
      * apply Nat.eqb_eq in K. spl; auto; lia.
      * destruct (slice_ok input cs p) eqn:S; [spl; auto; lia|].
        apply (slice_ok_ascii input cs p); auto; lia.
    + destruct (slice_ok input cs p) eqn:S; [spl; auto; lia|].
      apply (slice_ok_ascii input cs p); auto; lia.
  - pose proof H as H'. symmetry in H'. pose proof (skipn_cons_inv _ _ _ _ _ H') as [H1 H2].
    assert (Step : forall f, raw_inv cs delims f (S p) ->
      match raw_body input cs delims f (S p) r with
      | RClosed e r' => r' = skipn e input /\ (p <= e)%nat /\ (e <= length input)%nat /\ (delims + 1 + cs <= e)%nat
      | REof e => (p <= e)%nat /\ e = length input /\ (cs <= e)%nat
      | RPanic => all_ascii input = false
      end).
    { intros f If. specialize (IH f (S p) (eq_sym H1) ltac:(lia) If).
      destruct (raw_body input cs delims f (S p) r); auto.
      - destruct IH as (A & B & C & D). spl; auto; lia.
      - destruct IH as (A & B & C). spl; auto; lia. }
    destruct found as [k|]; cbn [raw_body]; cbn in Inv.
    + destruct (Nat.eqb k delims) eqn:K.
      * apply Nat.eqb_eq in K. spl; auto; lia.
      * apply Nat.eqb_neq in K.
        destruct (b =? 35); [apply Step; cbn; lia|].
        destruct (b =? 34); apply Step; cbn; lia.
    + destruct (b =? 34).
      * destruct (slice_ok input cs p) eqn:S.
        -- apply Step; cbn; lia.
        -- apply (slice_ok_ascii input cs p); auto; lia.
      * apply Step; cbn; lia.
Qed.

Lemma raw_string_literal_post : forall input start s,
  wf input s -> (start <= pos s)%nat -> post input start (pos s) (raw_string_literal input start s).
Proof.
  intros input start s W Hs. unfold raw_string_literal.
  pose proof W as (H & Hp & He).
  destruct (raw_delims 0 (pos s) (rest s)) as [[[delims cs] r]|] eqn:D.
  - destruct (raw_delims_spec input (rest s) 0%nat (pos s) delims cs r H Hp D) as (A & B & C).
    pose proof (raw_body_spec input cs delims r None cs A C ltac:(cbn; lia)) as R.
    destruct (raw_body input cs delims None cs r) as [e r'|e|].
    + destruct R as (R1 & R2 & R3 & R4).
      use_slice cs (e - (delims + 1))%nat. cbn. unfold wf; cbn. spl; auto; lia.
    + destruct R as (R1 & R2 & R3).
      use_slice cs e. cbn. unfold wf; cbn. spl; auto; try lia.
      * subst e. symmetry. apply skipn_all.
      * constructor; auto. unfold err_ok; cbn. lia.
    + exact R.
  - destruct (wf_skip_to_end input s W) as (W2 & P2). fin.
Qed.

Lemma eof_char_post : forall input start s,
  wf input s -> (start <= pos s)%nat -> post input start (pos s) (eof_char s).
Proof.
  intros input start s W Hs. unfold eof_char. pose proof (wf_pos_le _ _ W). finp.
Qed.

Lemma finish_char_spec : forall fx input ch s,
  wf input s -> pending_ok input ch ->
  match finish_char fx ch (rest s) with
  | Ok _ => True
  | Panic _ => all_ascii input = false
  | Fuel => False
  end.
Proof.
  intros fx input ch s W P. destruct ch as [b|c]; cbn; auto.
  apply restore_char_spec'; auto.
Qed.

Lemma char_close_post : forall fx input start ch s,
  wf input s -> (start <= pos s)%nat -> pending_ok input ch ->
  post input start (pos s) (char_close fx start ch s).
Proof.
  intros fx input start ch s W Hs P. unfold char_close.
  destruct (bump s) as [[[e b] s1]|] eqn:B.
  - destruct (wf_bump _ _ _ _ _ W B) as (W1 & -> & P1 & _ & _ & Hin).
    pose proof (wf_pos_le _ _ W1).
    pose proof (finish_char_spec fx input ch s1 W1 P) as F.
    destruct (b =? 39).
    + destruct (finish_char fx ch (rest s1)) as [c| |]; cbn; auto. spl; auto; lia.
    + destruct (finish_char fx ch (rest s1)) as [c| |]; cbn; auto.
      destruct fx.
      * pose proof (restore_and_skip_spec true input s1 b W1 Hin) as R.
        destruct (restore_and_skip true b s1) as [[c' s2]| |]; cbn; auto.
        destruct R as (W2 & P2). pose proof (wf_pos_le _ _ W2). finp.
      * finp.
  - apply eof_char_post; auto.
Qed.

Lemma char_literal_post : forall fx input start s,
  wf input s -> (start <= pos s)%nat -> post input start (pos s) (char_literal fx start s).
Proof.
  intros fx input start s W Hs. unfold char_literal.
  destruct (bump s) as [[[p b] s1]|] eqn:B.
  - destruct (wf_bump _ _ _ _ _ W B) as (W1 & -> & P1 & _ & _ & Hin).
    pose proof (wf_pos_le _ _ W1).
    destruct (b =? 92).
    + pose proof (escape_code_spec fx input (pos s) s1 W1 ltac:(lia)) as E.
      destruct (escape_code fx (pos s) s1) as [[ch s2]| |]; cbn; auto.
      destruct E as (W2 & P2 & PO).
      pose proof (char_close_post fx input start ch s2 W2 ltac:(lia) PO) as C.
      destruct (char_close fx start ch s2) as [[oi s']| |]; cbn in *; auto.
      destruct C as (A & B' & C). spl; auto; lia.
    + destruct (b =? 39); [finp|].
      destruct fx.
      * pose proof (restore_and_skip_spec true input s1 b W1 Hin) as R.
        destruct (restore_and_skip true b s1) as [[c s2]| |]; cbn; auto.
        destruct R as (W2 & P2).
        pose proof (char_close_post true input start (inr c) s2 W2 ltac:(lia) I) as C.
        destruct (char_close true start (inr c) s2) as [[oi s']| |]; cbn in *; auto.
        destruct C as (A & B' & C). spl; auto; lia.
      * pose proof (char_close_post false input start (inl b) s1 W1 ltac:(lia) (small_in _ _ Hin)) as C.
        destruct (char_close false start (inl b) s1) as [[oi s']| |]; cbn in *; auto.
        destruct C as (A & B' & C). spl; auto; lia.
  - apply eof_char_post; auto.
Qed.

Lemma unexpected_ident_start_spec : forall fx input a s,
  wf input s -> (a <= pos s)%nat ->
  match unexpected_ident_start fx a s with
  | Ok s' => wf input s' /\ pos s' = pos s
  | Panic _ => all_ascii input = false
  | Fuel => False
  end.
Proof.
  intros fx input a s W Ha. unfold unexpected_ident_start.
  destruct (rest s) as [|b r] eqn:R; [spl; auto|].
  destruct (is_ident_start b); [|spl; auto].
  assert (Hin : In b input).
  { destruct (wf_bump input s (pos s) b (mkSt (S (pos s)) r (errs s)) W) as (_ & _ & _ & _ & _ & Hin); auto.
    unfold bump. rewrite R. reflexivity. }
  pose proof (restore_char_spec fx input s b W Hin) as RC. rewrite R in RC.
  destruct (restore_char fx b (b :: r)) as [c| |]; cbn; auto.
  pose proof (wf_pos_le _ _ W). spl; auto. apply wf_push; auto; lia.
Qed.

Lemma int_token_post : forall input lo t a b s,
  wf input s -> (lo <= a)%nat -> (a <= b)%nat -> (b <= pos s)%nat ->
  post input lo (pos s) (int_token t a b s).
Proof.
  intros input lo t a b s W H1 H2 H3. unfold int_token. pose proof (wf_pos_le _ _ W).
  destruct (parse_i64 t); [fin | finp].
Qed.

Ltac use_uis W :=
  match goal with
  | |- context [unexpected_ident_start ?fx ?a ?s] =>
    let U := fresh "U" in
    pose proof (unexpected_ident_start_spec fx _ a s W ltac:(lia)) as U;
    destruct (unexpected_ident_start fx a s) as [?| |];
    [ destruct U as (? & ?) | cbn; exact U | cbn; contradiction ]
  end.

Lemma lookahead_some_bump_ : forall input s b,
  wf input s -> lookahead s = Some b -> wf input (bump_ s) /\ pos (bump_ s) = S (pos s).
Proof.
  intros input s b W L. destruct (wf_bump_ input s W) as (W2 & _ & _ & P). split; auto.
  apply P. intro E. unfold lookahead in L. rewrite E in L. discriminate.
Qed.

Ltac bounds :=
  repeat match goal with
  | W : wf ?i ?s |- _ =>
    lazymatch goal with
    | _ : (pos s <= length i)%nat |- _ => fail
    | _ => pose proof (wf_pos_le i s W)
    end
  end.

Ltac take_auto :=
  match goal with
  | W : wf ?input ?s |- context [take_while ?input _ _ ?s] => use_take W
  | W : wf ?input ?s |- context [take_until ?input _ _ ?s] => use_take W
  end.

Ltac uis_auto :=
  match goal with
  | W : wf _ ?s |- context [unexpected_ident_start _ _ ?s] => use_uis W
  end.

Lemma numeric_literal_post : forall fx sp input start s,
  wf input s -> (start <= pos s)%nat -> post input start (pos s) (numeric_literal fx sp input start s).
Proof.
  intros fx sp input start s W Hs. unfold numeric_literal. take_auto.
  destruct (lookahead s0) as [b|] eqn:LA.
  - destruct (lookahead_some_bump_ input s0 b H LA) as (W2 & P2). bounds.
    destruct (b =? 46).
    { take_auto. uis_auto. bounds. fin. }
    destruct (b =? 120).
    { take_auto. bounds.
      destruct (_ || _).
      - uis_auto. bounds.
        destruct l0.
        + finp.
        + destruct (i64_from_hex _ _ _); [fin | finp].
      - finp. }
    destruct (b =? 98).
    { uis_auto. bounds.
      destruct (parse_u8 l); [fin | finp]. }
    destruct (is_ident_start b).
    { uis_auto.
      match goal with W' : wf input ?s1 |- context [int_token l ?a n ?s1] =>
        pose proof (int_token_post input start l a n s1 W' ltac:(destruct sp; lia) ltac:(destruct sp; lia) ltac:(lia)) as IT;
        destruct (int_token l a n s1) as [[oi s']| |]; cbn in *; auto end.
      destruct IT as (A & B' & C). spl; auto; lia. }
    pose proof (int_token_post input start l start n s0 H ltac:(lia) ltac:(lia) ltac:(lia)) as IT.
    destruct (int_token l start n s0) as [[oi s']| |]; cbn in *; auto.
    destruct IT as (A & B' & C). spl; auto; lia.
  - pose proof (int_token_post input start l start n s0 H ltac:(lia) ltac:(lia) ltac:(lia)) as IT.
    destruct (int_token l start n s0) as [[oi s']| |]; cbn in *; auto.
    destruct IT as (A & B' & C). spl; auto; lia.
Qed.

(* ------------------------------------------------------------------------------------------ *)
(* one iteration of Tokenizer::next                                                            *)
(* ------------------------------------------------------------------------------------------ *)

Definition step_post (input : list byte) (s : st) (r : res (option item * st)) : Prop :=
  match r with
  | Ok (oi, s') => wf input s' /\ (pos s < pos s')%nat /\ item_ok (pos s) (pos s') oi
  | Panic _ => all_ascii input = false
  | Fuel => False
  end.

Lemma post_step : forall input s s1 r,
  pos s1 = S (pos s) -> post input (pos s) (pos s1) r -> step_post input s r.
Proof.
  intros input s s1 r P H. destruct r as [[oi s']| |]; cbn in *; auto.
  destruct H as (A & B & C). spl; auto; lia.
Qed.

Lemma step_spec : forall fx sp ob input s,
  wf input s -> rest s <> [] -> step_post input s (step fx sp ob input s).
Proof.
  intros fx sp ob input s W NE. unfold step.
  destruct (bump s) as [[[start ch] s1]|] eqn:B.
  2:{ unfold bump in B. destruct (rest s); [contradiction | discriminate]. }
  destruct (wf_bump _ _ _ _ _ W B) as (W1 & -> & P1 & _ & _ & Hin).
  bounds.
  assert (Single : forall k, step_post input s (single k (pos s) s1)).
  { intro k. unfold single. cbn. spl; auto; lia. }
  repeat (match goal with |- step_post _ _ (if ?c then _ else _) => destruct c eqn:? end;
          try solve [apply Single]).
  - apply (post_step input s s1); auto. apply raw_string_literal_post; auto; lia.
  - apply (post_step input s s1); auto. apply string_literal_post; auto; lia.
  - apply (post_step input s s1); auto. apply char_literal_post; auto; lia.
  - apply (post_step input s s1); auto. apply line_comment_post; auto; lia.
  - apply (post_step input s s1); auto. apply block_comment_post; auto; lia.
  - apply (post_step input s s1); auto. apply shebang_line_post; auto; lia.
  - destruct (wf_bump_ input s1 W1) as (W2 & P2 & _ & _). unfold single. cbn. spl; auto; lia.
  - apply (post_step input s s1); auto. apply identifier_post; auto; lia.
  - apply (post_step input s s1); auto. apply numeric_literal_post; auto; lia.
  - apply (post_step input s s1); auto. apply operator_post; auto; lia.
  - cbn. spl; auto; lia.
  - pose proof (restore_and_skip_spec fx input s1 ch W1 Hin) as R.
    destruct (restore_and_skip fx ch s1) as [[c s2]| |]; cbn; auto.
    destruct R as (W2 & P2). bounds. spl; [apply wf_push; auto; lia | lia | exact I].
Qed.

(* ------------------------------------------------------------------------------------------ *)
(* the whole token stream                                                                      *)
(* ------------------------------------------------------------------------------------------ *)

Definition span (i : item) : nat * nat :=
  match i with ITok _ a b => (a, b) | IErr _ a b => (a, b) end.

(* lo <= a1 <= b1 <= a2 <= b2 <= ... <= hi : spans are in [lo, hi], ordered and non-overlapping *)
Fixpoint fwd_ok (lo : nat) (l : list item) (hi : nat) : Prop :=
  match l with
  | [] => (lo <= hi)%nat
  | i :: l' => (lo <= fst (span i))%nat /\ (fst (span i) <= snd (span i))%nat /\ fwd_ok (snd (span i)) l' hi
  end.

(* the same for the accumulator (newest first) *)
Fixpoint racc_ok (hi : nat) (acc : list item) : Prop :=
  match acc with
  | [] => True
  | i :: acc' => (fst (span i) <= snd (span i))%nat /\ (snd (span i) <= hi)%nat /\ racc_ok (fst (span i)) acc'
  end.

Lemma racc_ok_mono : forall acc hi hi', racc_ok hi acc -> (hi <= hi')%nat -> racc_ok hi' acc.
Proof. intros [|i acc] hi hi' H L; cbn in *; auto. destruct H as (A & B & C). spl; auto; lia. Qed.

Lemma fwd_ok_app : forall l lo mid l' hi, fwd_ok lo l mid -> fwd_ok mid l' hi -> fwd_ok lo (l ++ l') hi.
Proof.
  induction l as [|i l IH]; intros lo mid l' hi H1 H2; cbn in *.
  - destruct l' as [|j l']; cbn in *; [lia|]. destruct H2 as (A & B & C). spl; auto; lia.
  - destruct H1 as (A & B & C). spl; auto. eapply IH; eauto.
Qed.

Lemma racc_fwd : forall acc hi, racc_ok hi acc -> fwd_ok 0 (rev acc) hi.
Proof.
  induction acc as [|i acc IH]; intros hi H; cbn in *; [lia|].
  destruct H as (A & B & C). eapply fwd_ok_app; [apply IH; exact C|]. cbn. spl; auto.
Qed.

Definition all_post (input : list byte) (r : res (list item * st)) : Prop :=
  match r with
  | Ok (items, s') => fwd_ok 0 items (length input) /\ wf input s'
  | Panic _ => all_ascii input = false
  | Fuel => False
  end.

Lemma lex_all_spec : forall fuel fx sp ob input s acc,
  wf input s -> racc_ok (pos s) acc -> (length input < fuel + pos s)%nat ->
  all_post input (lex_all fuel fx sp ob input s acc).
Proof.
  induction fuel as [|fuel IH]; intros fx sp ob input s acc W R Hf.
  - pose proof (wf_pos_le _ _ W). lia.
  - cbn [lex_all]. pose proof (wf_pos_le _ _ W) as L.
    destruct (rest s) as [|b r] eqn:E.
    + cbn. split; auto.
      change (fwd_ok 0 (rev (ITok (TSimple KEOF) (pos s) (pos s) :: acc)) (length input)).
      apply racc_fwd. cbn. spl; auto.
    + pose proof (step_spec fx sp ob input s W ltac:(rewrite E; discriminate)) as S.
      destruct (step fx sp ob input s) as [[oi s']| |]; cbn in *; auto.
      destruct S as (W' & P' & I').
      apply IH; auto; try lia.
      destruct oi as [[t a b'|c a b']|]; cbn in *.
      * spl; try lia. eapply racc_ok_mono; eauto. lia.
      * spl; try lia. eapply racc_ok_mono; eauto. lia.
      * eapply racc_ok_mono; eauto. lia.
Qed.

Lemma lex_spec : forall fx sp ob input,
  match lex fx sp ob input with
  | Ok (items, errs) => fwd_ok 0 items (length input) /\ Forall (err_ok input) errs
  | Panic _ => all_ascii input = false
  | Fuel => False
  end.
Proof.
  intros fx sp ob input. unfold lex.
  pose proof (lex_all_spec (S (length input)) fx sp ob input (init input) [] (wf_init input) I ltac:(cbn; lia)) as H.
  destruct (lex_all _ _ _ _ _) as [[items s]| |]; cbn in *; auto.
  destruct H as (A & (_ & _ & B)). split; auto.
  apply Forall_rev. exact B.
Qed.

(* Every loop of the tokenizer terminates: with fuel |input|+1 for the token loop and
   |remaining|+1 for the string / block-comment loops, no run ends in [Fuel]. *)
Theorem lex_terminates : forall fx sp ob input, lex fx sp ob input <> Fuel.
Proof.
  intros fx sp ob input H. pose proof (lex_spec fx sp ob input) as S. rewrite H in S. exact S.
Qed.

(* Token spans (and the spans of fatal errors) satisfy 0 <= a1 <= b1 <= a2 <= ... <= |input|;
   every error recorded on the side has 0 <= start <= end <= |input|. *)
Theorem lex_spans_in_bounds : forall fx sp ob input items errs,
  lex fx sp ob input = Ok (items, errs) ->
  fwd_ok 0 items (length input) /\ Forall (err_ok input) errs.
Proof.
  intros fx sp ob input items errs H. pose proof (lex_spec fx sp ob input) as S. rewrite H in S. exact S.
Qed.

(* On pure ASCII input no step panics (both variants of the tree). *)
Theorem lex_no_panic_ascii : forall fx sp ob input,
  all_ascii input = true -> exists r, lex fx sp ob input = Ok r.
Proof.
  intros fx sp ob input A. pose proof (lex_spec fx sp ob input) as S.
  destruct (lex fx sp ob input) as [r| |]; [eauto | congruence | contradiction].
Qed.

(* ---- valid UTF-8 input: false for the tree as found ---- *)
Definition lex_no_panic_full_stmt (fx sp ob : bool) : Prop :=
  forall input, utf8_valid input = true -> exists r, lex fx sp ob input = Ok r.

Theorem lex_no_panic_refuted :
  exists input, utf8_valid input = true /\ lex false false false input = Panic PRestoreChar.
Proof. exists [195; 169]. split; vm_compute; reflexivity. Qed.

Corollary lex_no_panic_false_today : ~ lex_no_panic_full_stmt false false false.
Proof.
  intro H. destruct lex_no_panic_refuted as (input & V & P).
  destruct (H input V) as (r & E). congruence.
Qed.

(* also inside literals: a non-ASCII escape in a string (slice on a non-boundary, token.rs:423) and a
   non-ASCII character literal *)
Theorem lex_no_panic_refuted_string :
  exists input, utf8_valid input = true /\ lex false false false input = Panic PSlice.
Proof. exists [34; 92; 195; 169; 34]. split; vm_compute; reflexivity. Qed.

Theorem lex_no_panic_refuted_char :
  exists input, utf8_valid input = true /\ lex false false false input = Panic PRestoreChar.
Proof. exists [39; 195; 169; 39]. split; vm_compute; reflexivity. Qed.

Definition span_on_boundaries (input : list byte) (a b : nat) : Prop :=
  is_char_boundary input a = true /\ is_char_boundary input b = true.

Definition lex_spans_on_boundaries_full_stmt (fx sp ob : bool) : Prop :=
  forall input items errs, utf8_valid input = true -> lex fx sp ob input = Ok (items, errs) ->
    Forall (fun i => span_on_boundaries input (fst (span i)) (snd (span i))) items /\
    Forall (fun e => span_on_boundaries input (e_start e) (e_end e)) errs.

(* U+00A0 followed by a blank: no panic, but UnexpectedChar is reported for the first byte only *)
Theorem lex_spans_on_boundaries_refuted :
  exists input items errs e,
    utf8_valid input = true /\ lex false false false input = Ok (items, errs) /\ In e errs /\
    is_char_boundary input (e_end e) = false.
Proof.
  exists [194; 160; 32], [ITok (TSimple KEOF) 3 3], [mkErr 0 1 (EUnexpectedChar 160)], (mkErr 0 1 (EUnexpectedChar 160)).
  spl; try (vm_compute; reflexivity). left; reflexivity.
Qed.

Lemma fwd_ok_bounds : forall l lo hi, fwd_ok lo l hi ->
  Forall (fun i => (fst (span i) <= hi /\ snd (span i) <= hi)%nat) l /\ (lo <= hi)%nat.
Proof.
  induction l as [|i l IH]; intros lo hi H; cbn in *.
  - split; [constructor | exact H].
  - destruct H as (A & B & C). destruct (IH _ _ C) as (F & L). split; [|lia].
    constructor; auto. lia.
Qed.

(* restricted to ASCII input every span end-point is a character boundary *)
Theorem lex_spans_on_boundaries_ascii : forall fx sp ob input items errs,
  all_ascii input = true -> lex fx sp ob input = Ok (items, errs) ->
  Forall (fun i => span_on_boundaries input (fst (span i)) (snd (span i))) items /\
  Forall (fun e => span_on_boundaries input (e_start e) (e_end e)) errs.
Proof.
  intros fx sp ob input items errs A H. destruct (lex_spans_in_bounds fx sp ob input items errs H) as (F & E).
  apply fwd_ok_bounds in F. destruct F as (F & _). split.
  - eapply Forall_impl; [|exact F]. intros i (X & Y). split; apply ascii_boundary; auto.
  - eapply Forall_impl; [|exact E]. intros e (X & Y). split; apply ascii_boundary; auto; lia.
Qed.

(* ------------------------------------------------------------------------------------------ *)
(* unescape                                                                                    *)
(* ------------------------------------------------------------------------------------------ *)

(* every backslash is followed by one of the seven escape characters *)
Fixpoint escapes_ok (s : list byte) : bool :=
  match s with
  | [] => true
  | b :: t =>
    if b =? 92 then
      match t with
      | [] => false
      | e :: t' => match simple_escape e with Some _ => escapes_ok t' | None => false end
      end
    else escapes_ok t
  end.

Lemma unescape_total_gen : forall n fx s, (length s <= n)%nat -> (fx = true \/ escapes_ok s = true) ->
  exists r, unescape fx s = Ok r.
Proof.
  induction n as [|n IH]; intros fx s L H.
  - destruct s; [exists []; reflexivity | cbn in L; lia].
  - destruct s as [|b t]; [exists []; reflexivity|]. cbn in L. cbn [unescape].
    destruct (b =? 92) eqn:B.
    + destruct t as [|e t'].
      * destruct H as [-> | H]; [eexists; reflexivity|]. cbn in H. rewrite B in H. discriminate.
      * destruct (simple_escape e) as [v|] eqn:SE.
        -- destruct (IH fx t' ltac:(cbn in L; lia)) as (r & E).
           { destruct H as [H | H]; [left; exact H | right]. cbn in H. rewrite B, SE in H. exact H. }
           rewrite E. eexists; reflexivity.
        -- destruct H as [-> | H].
           ++ destruct (IH true (e :: t') ltac:(lia) (or_introl eq_refl)) as (r & E).
              rewrite E. eexists; reflexivity.
           ++ cbn in H. rewrite B, SE in H. discriminate.
    + destruct (IH fx t ltac:(lia)) as (r & E).
      { destruct H as [H | H]; [left; exact H | right]. cbn in H. rewrite B in H. exact H. }
      rewrite E. eexists; reflexivity.
Qed.

(* unescape is total on well-escaped contents (tree as found) ... *)
Theorem unescape_total_partial : forall fx s, escapes_ok s = true -> exists r, unescape fx s = Ok r.
Proof. intros fx s H. apply (unescape_total_gen (length s)); auto. Qed.

(* ... and on every content in the fixed tree *)
Theorem unescape_total_fixed : forall s, exists r, unescape true s = Ok r.
Proof. intros s. apply (unescape_total_gen (length s)); auto. Qed.

Definition unescape_total_full_stmt (fx sp ob un : bool) : Prop :=
  forall input items errs a b t,
    lex fx sp ob input = Ok (items, errs) -> In (ITok (TStr false t) a b) items ->
    exists r, unescape un t = Ok r.

(* the tokenizer recovers from a bad escape (UnexpectedEscapeCode, UnexpectedEof) and hands the
   content to the grammar, whose unescape then panics: pure ASCII witnesses *)
Theorem unescape_total_refuted :
  exists input items errs a b t,
    all_ascii input = true /\ lex false false false input = Ok (items, errs) /\
    In (ITok (TStr false t) a b) items /\ unescape false t = Panic PInvalidEscape.
Proof.
  exists [34; 92; 113; 34], [ITok (TStr false [92; 113]) 0 4; ITok (TSimple KEOF) 4 4],
         [mkErr 1 2 (EUnexpectedEscapeCode 113)], 0%nat, 4%nat, [92; 113].
  spl; try (vm_compute; reflexivity). left; reflexivity.
Qed.

Theorem unescape_total_refuted_eof :
  exists input items errs a b t,
    all_ascii input = true /\ lex false false false input = Ok (items, errs) /\
    In (ITok (TStr false t) a b) items /\ unescape false t = Panic PIndex.
Proof.
  exists [34; 92], [ITok (TStr false [92]) 0 2; ITok (TSimple KEOF) 2 2],
         [mkErr 2 2 EUnexpectedEof; mkErr 0 2 EUnterminatedStringLiteral], 0%nat, 2%nat, [92].
  spl; try (vm_compute; reflexivity). left; reflexivity.
Qed.
