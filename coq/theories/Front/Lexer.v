(* Byte-level model of gluon's tokenizer: parser/src/token.rs (Tokenizer::next :785 and its
   sub-lexers) and parser/src/str_suffix.rs (bytes_prefix :69, restore_char :78).
   Executable definitions only; the proofs are in LexerProofs.v.

   The Rust tokenizer walks the input byte by byte (StrSuffix) and cuts token texts out of the
   original `&str` with `self.slice(start, end)` = `&self.input[a..b]` (token.rs:419), which
   panics unless a <= b <= len and both are character boundaries.  `restore_char` rebuilds a
   `char` from one consumed byte plus the continuation bytes that follow and panics
   (`expect("UTF-8 string")`, str_suffix.rs:83) when the four-byte buffer is not UTF-8.  Both
   are modelled by the explicit outcome [Panic].  Loops of the Rust code that are not
   structurally recursive are modelled with fuel; [Fuel] is the out-of-fuel outcome, proved
   unreachable in LexerProofs.v (that is the termination proof).

   Positions are 0-based byte offsets (Location::absolute - start_index).  Lines and columns are
   functions of the offset and are not carried.

   Booleans select the behaviour of the tree, [false] = the code as found at /repo HEAD:
   [fx] = after /verif/fixes/C09-lexer-non-ascii.patch (restore_char sees all continuation bytes;
          a character whose first byte was consumed is consumed completely),
   [sp] = after C09-int-literal-span.patch (an integer literal followed by a letter keeps its span),
   [ob] = after C08-builtin-operator-span.patch (the span of `#Int+` covers the whole token),
   the argument of [unescape] = after C09-unescape-invalid-escape.patch. *)
From Coq Require Import List NArith ZArith Bool Arith.
From GV Require Import Base.Utf8N.
Import ListNotations.
Local Open Scope N_scope.

Inductive panic_site := PRestoreChar | PSlice | PIndex | PInvalidEscape.

Inductive res (A : Type) : Type :=
| Ok (a : A)
| Panic (p : panic_site)
| Fuel.
Arguments Ok {A} a.
Arguments Panic {A} p.
Arguments Fuel {A}.

Notation "'do' x <- e ; k" :=
  (match e with Ok x => k | Panic p => Panic p | Fuel => Fuel end)
  (at level 200, x pattern, e at level 100, k at level 200, right associativity).

(* token.rs:242 *)
Inductive lex_err :=
| EEmptyCharLiteral | EUnexpectedChar (c : N) | EUnexpectedEof | EUnexpectedEscapeCode (c : N)
| EUnterminatedCharLiteral | EUnterminatedStringLiteral | EInvalidRawStringDelimiter
| ENonParseableInt | EHexLiteralOverflow | EHexLiteralUnderflow | EHexLiteralWrongPrefix
| EHexLiteralIncomplete.

(* token.rs:20; OpenBlock/CloseBlock/Semi are only produced by the layout pass *)
Inductive simple_tok :=
| KRec | KElse | KForall | KIf | KIn | KLet | KDo | KSeq | KMatch | KThen | KType | KWith
| KAt | KColon | KComma | KDot | KDotDot | KEquals | KLambda | KPipe | KRArrow | KQuestion
| KLBrace | KLBracket | KLParen | KRBrace | KRBracket | KRParen | KAttributeOpen | KEOF.

Inductive tok :=
| TShebang (t : list byte)
| TIdent (t : list byte)
| TOp (t : list byte)
| TStr (raw : bool) (t : list byte)
| TChar (c : N)
| TInt (z : Z)
| TByte (n : N)
| TFloat (t : list byte)        (* the text; the f64 value is `text.parse()` and is not modelled *)
| TDoc (block : bool) (t : list byte)
| TSimple (k : simple_tok).

(* One result of Tokenizer::next: Some(Ok(token)) or Some(Err(error)), with its span. *)
Inductive item :=
| ITok (t : tok) (a b : nat)
| IErr (c : lex_err) (a b : nat).

Record sp_err := mkErr { e_start : nat; e_end : nat; e_code : lex_err }.

(* Tokenizer state: CharLocations (position + remaining bytes) and `errors` (newest first). *)
Record st := mkSt { pos : nat; rest : list byte; errs : list sp_err }.

(* ---- character classes (token.rs:286-308, base/src/ast.rs:1173) ---- *)
Definition is_ident_start (b : byte) : bool :=
  (b =? 95) || in_range 97 122 b || in_range 65 90 b.
Definition is_digit (b : byte) : bool := in_range 48 57 b.
Definition is_ident_continue (b : byte) : bool :=
  is_digit b || (b =? 39) || is_ident_start b.
Definition is_hex (b : byte) : bool :=
  is_digit b || in_range 97 102 b || in_range 65 70 b.
Definition is_operator_byte (b : byte) : bool :=
  existsb (N.eqb b) [33; 35; 36; 37; 38; 42; 43; 45; 46; 47; 60; 61; 62; 63; 64; 92; 94; 124; 126; 58]%N.
(* `(ch as char).is_whitespace()` for a byte: U+0009-000D, U+0020, U+0085, U+00A0 *)
Definition is_ws_byte (b : byte) : bool :=
  in_range 9 13 b || (b =? 32) || (b =? 133) || (b =? 160).

(* ---- StrSuffix ---- *)
(* str_suffix.rs:69.  The loop looks at the first min(len,3) bytes only; when none of them is a
   boundary byte the unfixed code returns the EMPTY prefix. *)
Definition bytes_prefix (fx : bool) (r : list byte) : list byte :=
  match r with
  | b0 :: r1 =>
    if is_boundary_byte b0 then []
    else match r1 with
         | b1 :: r2 =>
           if is_boundary_byte b1 then [b0]
           else match r2 with
                | b2 :: _ => if is_boundary_byte b2 then [b0; b1] else if fx then [b0; b1; b2] else []
                | [] => if fx then [b0; b1] else []
                end
         | [] => if fx then [b0] else []
         end
  | [] => []
  end.

(* str_suffix.rs:78 with a one-byte prefix: buf = [b] ++ suffix ++ zeros (4 bytes),
   str::from_utf8(&buf).expect(..).chars().next() *)
Definition restore_char (fx : bool) (b : byte) (r : list byte) : res N :=
  let sfx := bytes_prefix fx r in
  let buf := (b :: sfx) ++ repeat 0%N (3 - length sfx)%nat in
  if utf8_valid buf then Ok (decode_first buf) else Panic PRestoreChar.

(* ---- primitive moves ---- *)
Definition bump (s : st) : option (nat * byte * st) :=
  match rest s with
  | [] => None
  | b :: r => Some (pos s, b, mkSt (S (pos s)) r (errs s))
  end.

Definition bump_ (s : st) : st :=
  match rest s with
  | [] => s
  | _ :: r => mkSt (S (pos s)) r (errs s)
  end.

Fixpoint bump_n (n : nat) (s : st) : st :=
  match n with O => s | S n' => bump_n n' (bump_ s) end.

Definition lookahead (s : st) : option byte :=
  match rest s with [] => None | b :: _ => Some b end.

Definition test_lookahead (p : byte -> bool) (s : st) : bool :=
  match rest s with [] => false | b :: _ => p b end.

(* token.rs:391 recover: push onto `errors` *)
Definition push_err (a b : nat) (c : lex_err) (s : st) : st :=
  mkSt (pos s) (rest s) (mkErr a b c :: errs s).

(* token.rs:382 *)
Definition skip_to_end (s : st) : st := mkSt (pos s + length (rest s))%nat [] (errs s).

(* token.rs:419  &self.input[a..b] *)
Definition slice_ok (input : list byte) (a b : nat) : bool :=
  Nat.leb a b && Nat.leb b (length input) && is_char_boundary input a && is_char_boundary input b.

Definition slice (input : list byte) (a b : nat) : res (list byte) :=
  if slice_ok input a b then Ok (firstn (b - a)%nat (skipn a input)) else Panic PSlice.

Fixpoint scan_until (term : byte -> bool) (p : nat) (r : list byte) : nat * list byte :=
  match r with
  | [] => (p, [])
  | b :: r' => if term b then (p, r) else scan_until term (S p) r'
  end.

(* token.rs:433 take_until / :426 take_while: returns (end, text, state) *)
Definition take_until (input : list byte) (term : byte -> bool) (start : nat) (s : st)
  : res (nat * list byte * st) :=
  let '(p, r) := scan_until term (pos s) (rest s) in
  do t <- slice input start p;
  Ok (p, t, mkSt p r (errs s)).

Definition take_while (input : list byte) (keep : byte -> bool) (start : nat) (s : st) :=
  take_until input (fun b => negb (keep b)) start s.

(* Patch helper `bump_char_rest`: restore the character whose first byte [b] was just consumed and,
   in the fixed tree, consume its remaining bytes. *)
Definition restore_and_skip (fx : bool) (b : byte) (s : st) : res (N * st) :=
  do c <- restore_char fx b (rest s);
  Ok (c, if fx then bump_n (len_utf8 c - 1)%nat s else s).

(* ---- comments ---- *)
(* token.rs:454 *)
Definition line_comment (input : list byte) (start : nat) (s : st) : res (option item * st) :=
  do (e, comment, s1) <- take_until input (N.eqb 10) start s;
  if starts_with [47; 47; 47]%N comment then
    let skip := if starts_with [47; 47; 47; 32]%N comment then 4%nat else 3%nat in
    Ok (Some (ITok (TDoc false (skipn skip comment)) start e), s1)
  else Ok (None, s1).

(* token.rs:469; one iteration of `loop` per unit of fuel *)
Fixpoint block_loop (fuel : nat) (input : list byte) (start : nat) (s : st) : res (option item * st) :=
  match fuel with
  | O => Fuel
  | S fuel' =>
    do (_, comment, s1) <- take_until input (N.eqb 42) start s;
    let s2 := bump_ s1 in
    match lookahead s2 with
    | Some b =>
      if b =? 47 then
        let s3 := bump_ s2 in
        if starts_with [47; 42; 42]%N comment && negb (list_eqb comment [47; 42; 42]%N) then
          Ok (Some (ITok (TDoc true (trim (skipn 3%nat comment))) start (pos s3)), s3)
        else Ok (None, s3)
      else block_loop fuel' input start s2
    | None => (* eof_error :414 *)
      Ok (Some (IErr EUnexpectedEof (pos s2) (pos s2)), skip_to_end s2)
    end
  end.

Definition block_comment (input : list byte) (start : nat) (s : st) : res (option item * st) :=
  block_loop (S (length (rest s))) input start (bump_ s).

(* token.rs:615 *)
Definition shebang_line (input : list byte) (start : nat) (s : st) : res (option item * st) :=
  do (e, line, s1) <- take_until input (N.eqb 10) start s;
  if starts_with [35; 33]%N line then
    Ok (Some (ITok (TShebang (trim_end (skipn 2%nat line))) start e), s1)
  else Ok (None, s1).

(* ---- operators, identifiers ---- *)
(* token.rs:496 *)
Definition operator (ob : bool) (input : list byte) (start : nat) (s : st) : res (option item * st) :=
  do (e, op, s1) <- take_while input is_operator_byte start s;
  let simple k := Ok (Some (ITok (TSimple k) start e), s1) in
  if list_eqb op [64]%N then simple KAt
  else if list_eqb op [46]%N then simple KDot
  else if list_eqb op [46; 46]%N then simple KDotDot
  else if list_eqb op [58]%N then simple KColon
  else if list_eqb op [61]%N then simple KEquals
  else if list_eqb op [124]%N then simple KPipe
  else if list_eqb op [45; 62]%N then simple KRArrow
  else if list_eqb op [35]%N then
    do (_, _, s2) <- take_while input is_ident_start start s1;
    do (e3, op2, s3) <- take_while input is_operator_byte start s2;
    (* the span ends after the `#` only; [ob = true]: tree after C08-builtin-operator-span.patch *)
    Ok (Some (ITok (TOp op2) start (if ob then e3 else e)), s3)
  else Ok (Some (ITok (TOp op) start e), s1).

Definition keyword (t : list byte) : option simple_tok :=
  if list_eqb t [114; 101; 99]%N then Some KRec
  else if list_eqb t [101; 108; 115; 101]%N then Some KElse
  else if list_eqb t [102; 111; 114; 97; 108; 108]%N then Some KForall
  else if list_eqb t [105; 102]%N then Some KIf
  else if list_eqb t [105; 110]%N then Some KIn
  else if list_eqb t [108; 101; 116]%N then Some KLet
  else if list_eqb t [100; 111]%N then Some KDo
  else if list_eqb t [115; 101; 113]%N then Some KSeq
  else if list_eqb t [109; 97; 116; 99; 104]%N then Some KMatch
  else if list_eqb t [116; 104; 101; 110]%N then Some KThen
  else if list_eqb t [116; 121; 112; 101]%N then Some KType
  else if list_eqb t [119; 105; 116; 104]%N then Some KWith
  else None.

(* token.rs:750 *)
Definition identifier (input : list byte) (start : nat) (s : st) : res (option item * st) :=
  do (e, ident, s1) <- take_while input is_ident_continue start s;
  do (e, ident, s2) <-
     (if test_lookahead (N.eqb 33) s1 then
        do t <- slice input start (S e); Ok (S e, t, bump_ s1)
      else Ok (e, ident, s1));
  Ok (Some (ITok (match keyword ident with Some k => TSimple k | None => TIdent ident end) start e), s2).

(* ---- escapes, strings, characters ---- *)
(* A character that is either still the single consumed byte (unfixed tree: restored later with
   restore_char on whatever follows at that time) or already a code point (fixed tree). *)
Definition pending_char := (byte + N)%type.

Definition finish_char (fx : bool) (ch : pending_char) (r : list byte) : res N :=
  match ch with inl b => restore_char fx b r | inr c => Ok c end.

Definition simple_escape (b : byte) : option byte :=
  if b =? 39 then Some 39%N else if b =? 34 then Some 34%N else if b =? 92 then Some 92%N
  else if b =? 47 then Some 47%N else if b =? 110 then Some 10%N else if b =? 114 then Some 13%N
  else if b =? 116 then Some 9%N else None.

(* token.rs:519; [start] is the location of the backslash *)
Definition escape_code (fx : bool) (start : nat) (s : st) : res (pending_char * st) :=
  match bump s with
  | Some (e, b, s1) =>
    match simple_escape b with
    | Some v => Ok (if fx then inr v else inl v, s1)
    | None =>
      do (c, s2) <- restore_and_skip fx b s1;
      Ok (if fx then inr c else inl b, push_err start e (EUnexpectedEscapeCode c) s2)
    end
  | None => (* eof_recover :403 *)
    Ok (if fx then inr 0%N else inl 0%N, push_err (pos s) (pos s) EUnexpectedEof s)
  end.

(* token.rs:212 unescape_string_literal, applied by the grammar to every escaped string token
   (StringLiteral::unescape :204).  `s.as_bytes()[i + 1]` panics on a trailing backslash,
   `panic!("Invalid escape")` on any other escape character.  Fixed tree
   (C09-unescape-invalid-escape.patch): both are copied unchanged. *)
Fixpoint unescape (fx : bool) (s : list byte) : res (list byte) :=
  match s with
  | [] => Ok []
  | b :: t =>
    if b =? 92 then
      match t with
      | [] => if fx then Ok [b] else Panic PIndex
      | e :: t' =>
        match simple_escape e with
        | Some v => do r <- unescape fx t'; Ok (v :: r)
        | None => if fx then (do r <- unescape fx t; Ok (b :: r)) else Panic PInvalidEscape
        end
      end
    else do r <- unescape fx t; Ok (b :: r)
  end.

Definition is_quote_or_backslash (b : byte) : bool := (b =? 34) || (b =? 92).

(* token.rs:538; one iteration of `loop` per unit of fuel *)
Fixpoint string_loop (fuel : nat) (fx : bool) (input : list byte) (start content_start : nat) (s : st)
  : res (option item * st) :=
  match fuel with
  | O => Fuel
  | S fuel' =>
    do (_, _, s1) <- take_until input is_quote_or_backslash (pos s) s;
    match bump s1 with
    | Some (p, b, s2) =>
      if b =? 92 then
        do (_, s3) <- escape_code fx p s2;
        string_loop fuel' fx input start content_start s3
      else if b =? 34 then
        let e := pos s2 in
        do t <- slice input content_start (e - 1)%nat;
        Ok (Some (ITok (TStr false t) start e), s2)
      else (* unreachable: take_until stops at a double quote or a backslash *)
        let e := pos s2 in
        do t <- slice input content_start e;
        Ok (Some (ITok (TStr false t) start e), push_err start e EUnterminatedStringLiteral s2)
    | None =>
      let e := pos s1 in
      do t <- slice input content_start e;
      Ok (Some (ITok (TStr false t) start e), push_err start e EUnterminatedStringLiteral s1)
    end
  end.

Definition string_literal (fx : bool) (input : list byte) (start : nat) (s : st) :=
  string_loop (S (length (rest s))) fx input start (pos s) s.

(* token.rs:570 the delimiter prefix (hashes then a double quote): Some (count, state) or None on an invalid delimiter *)
Fixpoint raw_delims (n : nat) (p : nat) (r : list byte) : option (nat * nat * list byte) :=
  match r with
  | [] => Some (n, p, [])
  | b :: r' =>
    if b =? 35 then raw_delims (S n) (S p) r'
    else if b =? 34 then Some (n, S p, r')
    else None
  end.

Inductive raw_end := RClosed (p : nat) (r : list byte) | REof (p : nat) | RPanic.

(* token.rs:579-607 as one scan.  [found = None]: inside take_until (looking for a double quote);
   [found = Some k]: in the inner loop after a double quote with k delimiters seen.  The take_until of every
   outer iteration slices (content_start, position of the double quote or EOF). *)
Fixpoint raw_body (input : list byte) (cs delims : nat) (found : option nat) (p : nat) (r : list byte)
  : raw_end :=
  match found with
  | Some k =>
    if Nat.eqb k delims then RClosed p r
    else match r with
         | [] => if slice_ok input cs p then REof p else RPanic
         | b :: r' =>
           if b =? 35 then raw_body input cs delims (Some (S k)) (S p) r'
           else if b =? 34 then raw_body input cs delims (Some 0%nat) (S p) r'
           else raw_body input cs delims None (S p) r'
         end
  | None =>
    match r with
    | [] => if slice_ok input cs p then REof p else RPanic
    | b :: r' =>
      if b =? 34 then
        if slice_ok input cs p then raw_body input cs delims (Some 0%nat) (S p) r' else RPanic
      else raw_body input cs delims None (S p) r'
    end
  end.

(* token.rs:568 *)
Definition raw_string_literal (input : list byte) (start : nat) (s : st) : res (option item * st) :=
  match raw_delims 0%nat (pos s) (rest s) with
  | None => (* self.error :386 *)
    Ok (Some (IErr EInvalidRawStringDelimiter start start), skip_to_end s)
  | Some (delims, cs, r) =>
    match raw_body input cs delims None cs r with
    | RPanic => Panic PSlice
    | RClosed e r' =>
      do t <- slice input cs (e - (delims + 1))%nat;
      Ok (Some (ITok (TStr true t) start e), mkSt e r' (errs s))
    | REof e =>
      do t <- slice input cs e;
      Ok (Some (ITok (TStr true t) start e),
          push_err start e EUnterminatedStringLiteral (mkSt e [] (errs s)))
    end
  end.

(* token.rs:403 eof_recover with a CharLiteral('\0') *)
Definition eof_char (s : st) : res (option item * st) :=
  Ok (Some (ITok (TChar 0) (pos s) (pos s)), push_err (pos s) (pos s) EUnexpectedEof s).

(* token.rs:638 second half of char_literal *)
Definition char_close (fx : bool) (start : nat) (ch : pending_char) (s : st) : res (option item * st) :=
  match bump s with
  | Some (e, b, s1) =>
    if b =? 39 then
      do c <- finish_char fx ch (rest s1);
      Ok (Some (ITok (TChar c) start (pos s1)), s1)
    else
      do c <- finish_char fx ch (rest s1);
      do s2 <- (if fx then do (_, s2) <- restore_and_skip fx b s1; Ok s2 else Ok s1);
      Ok (Some (ITok (TChar c) start e), push_err start e EUnterminatedCharLiteral s2)
  | None => eof_char s
  end.

(* token.rs:628 *)
Definition char_literal (fx : bool) (start : nat) (s : st) : res (option item * st) :=
  match bump s with
  | Some (p, b, s1) =>
    if b =? 92 then
      do (ch, s2) <- escape_code fx p s1;
      char_close fx start ch s2
    else if b =? 39 then
      Ok (Some (ITok (TChar 0) start p), push_err start p EEmptyCharLiteral s1)
    else if fx then
      do (c, s2) <- restore_and_skip fx b s1;
      char_close fx start (inr c) s2
    else char_close fx start (inl b) s1
  | None => eof_char s
  end.

(* ---- numbers ---- *)
Fixpoint digits_val (acc : Z) (l : list byte) : Z :=
  match l with
  | [] => acc
  | d :: l' => digits_val (acc * 10 + Z.of_N (d - 48)) l'
  end.

Definition i64_min : Z := (- 9223372036854775808)%Z.
Definition i64_max : Z := 9223372036854775807%Z.

(* str::parse::<i64> on `-?[0-9]+` *)
Definition parse_i64 (t : list byte) : option Z :=
  let v := match t with
           | b :: t' => if b =? 45 then (- digits_val 0 t')%Z else digits_val 0 t
           | [] => 0%Z
           end in
  if (Z.leb i64_min v && Z.leb v i64_max)%bool then Some v else None.

(* str::parse::<u8> on `-?[0-9]+`: a sign is an invalid digit *)
Definition parse_u8 (t : list byte) : option N :=
  match t with
  | b :: _ =>
    if b =? 45 then None
    else let v := digits_val 0 t in if Z.leb v 255 then Some (Z.to_N v) else None
  | [] => None
  end.

Definition hex_digit (b : byte) : Z :=
  if is_digit b then Z.of_N (b - 48)
  else if in_range 97 102 b then Z.of_N (b - 87) else Z.of_N (b - 55).

(* token.rs:859 i64_from_hex: checked_mul(16) then checked_add(x * sign) *)
Fixpoint i64_from_hex (acc : Z) (positive : bool) (l : list byte) : option Z :=
  match l with
  | [] => Some acc
  | d :: l' =>
    let m := (acc * 16)%Z in
    if (Z.leb i64_min m && Z.leb m i64_max)%bool then
      let a := (m + (if positive then hex_digit d else - hex_digit d))%Z in
      if (Z.leb i64_min a && Z.leb a i64_max)%bool then i64_from_hex a positive l' else None
    else None
  end.

(* `Some((loc, ch)) if is_ident_start(ch)` on the lookahead followed by restore_char on the
   suffix that still starts with ch (token.rs:663, 683, 718, 730) *)
Definition unexpected_ident_start (fx : bool) (a : nat) (s : st) : res st :=
  match rest s with
  | b :: _ =>
    if is_ident_start b then
      do c <- restore_char fx b (rest s);
      Ok (push_err a (pos s) (EUnexpectedChar c) s)
    else Ok s
  | [] => Ok s
  end.

Definition int_token (t : list byte) (a b : nat) (s : st) : res (option item * st) :=
  match parse_i64 t with
  | Some v => Ok (Some (ITok (TInt v) a b), s)
  | None => Ok (Some (ITok (TInt 0) a b), push_err a b ENonParseableInt s)
  end.

(* token.rs:655 *)
Definition numeric_literal (fx sp : bool) (input : list byte) (start : nat) (s : st)
  : res (option item * st) :=
  do (e, int, s1) <- take_while input is_digit start s;
  match lookahead s1 with
  | Some b =>
    if b =? 46 then
      let s2 := bump_ s1 in
      do (e2, float, s3) <- take_while input is_digit start s2;
      do s4 <- unexpected_ident_start fx e2 s3;
      Ok (Some (ITok (TFloat float) start e2), s4)
    else if b =? 120 then
      let s2 := bump_ s1 in
      let int_start := pos s2 in
      do (e2, hex, s3) <- take_while input is_hex int_start s2;
      if list_eqb int [48]%N || list_eqb int [45; 48]%N then
        do s4 <- unexpected_ident_start fx e2 s3;
        match hex with
        | [] => Ok (Some (ITok (TInt 0) start e2), push_err start e2 EHexLiteralIncomplete s4)
        | _ =>
          let positive := list_eqb int [48]%N in
          match i64_from_hex 0 positive hex with
          | Some v => Ok (Some (ITok (TInt v) start e2), s4)
          | None =>
            Ok (Some (ITok (TInt 0) start e2),
                push_err start e2 (if positive then EHexLiteralOverflow else EHexLiteralUnderflow) s4)
          end
        end
      else Ok (Some (ITok (TInt 0) start e), push_err start e EHexLiteralWrongPrefix s3)
    else if b =? 98 then
      let s2 := bump_ s1 in
      let e2 := pos s2 in
      do s3 <- unexpected_ident_start fx e2 s2;
      match parse_u8 int with
      | Some v => Ok (Some (ITok (TByte v) start e2), s3)
      | None => Ok (Some (ITok (TByte 0) start e2), push_err start e2 ENonParseableInt s3)
      end
    else if is_ident_start b then
      (* `Some((start, ch))` shadows `start` with the lookahead location (= e): the literal gets
         the empty span (e, e).  [sp = true]: tree after C09-int-literal-span.patch *)
      do s2 <- unexpected_ident_start fx (pos s1) s1;
      int_token int (if sp then start else pos s1) e s2
    else int_token int start e s1
  | None => int_token int start e s1
  end.

(* ---- Tokenizer::next, one iteration of its `while let` (token.rs:786).  [None] = `continue`. ---- *)
Definition single (k : simple_tok) (start : nat) (s : st) : res (option item * st) :=
  Ok (Some (ITok (TSimple k) start (pos s)), s).

Definition step (fx sp ob : bool) (input : list byte) (s : st) : res (option item * st) :=
  match bump s with
  | None => Ok (None, s)
  | Some (start, ch, s1) =>
    if ch =? 44 then single KComma start s1
    else if ch =? 92 then single KLambda start s1
    else if ch =? 123 then single KLBrace start s1
    else if ch =? 91 then single KLBracket start s1
    else if ch =? 40 then single KLParen start s1
    else if ch =? 125 then single KRBrace start s1
    else if ch =? 93 then single KRBracket start s1
    else if ch =? 41 then single KRParen start s1
    else if ch =? 63 then single KQuestion start s1
    else if (ch =? 114) && test_lookahead (fun b => (b =? 34) || (b =? 35)) s1 then
      raw_string_literal input start s1
    else if ch =? 34 then string_literal fx input start s1
    else if ch =? 39 then char_literal fx start s1
    else if (ch =? 47) && test_lookahead (N.eqb 47) s1 then line_comment input start s1
    else if (ch =? 47) && test_lookahead (N.eqb 42) s1 then block_comment input start s1
    else if (ch =? 35) && Nat.eqb start 0%nat && test_lookahead (N.eqb 33) s1 then shebang_line input start s1
    else if (ch =? 35) && test_lookahead (N.eqb 91) s1 then single KAttributeOpen start (bump_ s1)
    else if is_ident_start ch then identifier input start s1
    else if is_digit ch || ((ch =? 45) && test_lookahead is_digit s1) then numeric_literal fx sp input start s1
    else if is_operator_byte ch then operator ob input start s1
    else if is_ws_byte ch then Ok (None, s1)
    else
      do (c, s2) <- restore_and_skip fx ch s1;
      Ok (None, push_err start (pos s2) (EUnexpectedChar c) s2)
  end.

(* All results of repeated Tokenizer::next calls up to and including the first EOF token, and the
   final state (whose [errs] are the errors recorded on the side, newest first). *)
Fixpoint lex_all (fuel : nat) (fx sp ob : bool) (input : list byte) (s : st) (acc : list item)
  : res (list item * st) :=
  match fuel with
  | O => Fuel
  | S fuel' =>
    match rest s with
    | [] => Ok (rev (ITok (TSimple KEOF) (pos s) (pos s) :: acc), s)
    | _ :: _ =>
      do (oi, s') <- step fx sp ob input s;
      lex_all fuel' fx sp ob input s' (match oi with Some i => i :: acc | None => acc end)
    end
  end.

Definition init (input : list byte) : st := mkSt 0%nat input [].

Definition lex (fx sp ob : bool) (input : list byte) : res (list item * list sp_err) :=
  do (items, s) <- lex_all (S (length input)) fx sp ob input (init input) [];
  Ok (items, rev (errs s)).
