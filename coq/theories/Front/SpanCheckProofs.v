(* C08 — soundness of the span validator: what [spans_ok src t = true] guarantees. *)
From Coq Require Import List NArith ZArith Bool Lia.
From GV Require Import Front.SpanCheck.
Import ListNotations.
Local Open Scope N_scope.

(* ---- the specification ---- *)
Definition blank (c : N) : Prop := c = 32 \/ c = 9 \/ c = 10 \/ c = 13.

(* [t] is [c] inside any number of redundant parentheses *)
Inductive wrapped : list N -> list N -> Prop :=
| W_base t : wrapped t t
| W_paren b1 inner b2 c :
    Forall blank b1 -> Forall blank b2 -> wrapped inner c ->
    wrapped (40 :: b1 ++ inner ++ b2 ++ [41]) c.

Inductive leaf_spec (t : list N) : leaf -> Prop :=
| LS_none : leaf_spec t LNone
| LS_ident name : wrapped t name -> leaf_spec t (LIdent name)
| LS_int v c : wrapped t c -> int_value c = Some v -> leaf_spec t (LInt v)
| LS_byte v c : wrapped t c -> (exists ds, c = ds ++ [98] /\ ds <> [] /\ dec_value 0 ds = Some v) -> leaf_spec t (LByte v)
| LS_str c : wrapped t c -> (exists q body, (q = 34 \/ q = 114) /\ c = q :: body /\ body <> []) -> leaf_spec t LStr
| LS_char c : wrapped t c -> (exists body, c = 39 :: body ++ [39]) -> leaf_spec t LChar
| LS_float c : wrapped t c -> c <> [] -> leaf_spec t LFloat.

Inductive spans_wf (src : list N) : stree -> Prop :=
| SW lo hi lf cs :
    lo <= hi -> hi <= lenN src ->                                   (* in bounds *)
    leaf_spec (slice src lo hi) lf ->                               (* leaf text *)
    Forall (spans_wf src) cs ->                                     (* recursively *)
    Forall (fun c => lo <= lo_of c /\ hi_of c <= hi) cs ->          (* children inside the parent *)
    ForallOrdPairs (fun a b => hi_of a <= lo_of b) cs ->            (* siblings ordered, disjoint *)
    spans_wf src (SNode lo hi lf cs).

(* [slice] and [lenN] are the usual list operations *)
Lemma dropN_skipn : forall l n, dropN l n = skipn (N.to_nat n) l.
Proof.
  induction l as [|x l IH]; intros n; cbn [dropN].
  - destruct (N.to_nat n); reflexivity.
  - destruct (N.eqb_spec n 0) as [->|Hn]; [reflexivity|].
    rewrite IH. replace (N.to_nat n) with (S (N.to_nat (N.pred n))) by lia. reflexivity.
Qed.
Lemma takeN_firstn : forall l n, takeN l n = firstn (N.to_nat n) l.
Proof.
  induction l as [|x l IH]; intros n; cbn [takeN].
  - destruct (N.to_nat n); reflexivity.
  - destruct (N.eqb_spec n 0) as [->|Hn]; [reflexivity|].
    rewrite IH. replace (N.to_nat n) with (S (N.to_nat (N.pred n))) by lia. reflexivity.
Qed.
Lemma slice_spec src lo hi :
  slice src lo hi = firstn (N.to_nat hi - N.to_nat lo) (skipn (N.to_nat lo) src).
Proof. unfold slice. rewrite takeN_firstn, dropN_skipn. f_equal. lia. Qed.
Lemma lenN_length l : lenN l = N.of_nat (length l).
Proof. induction l as [|x l IH]; cbn [lenN length]; [reflexivity|]. rewrite IH. lia. Qed.

(* ---- byte list lemmas ---- *)
Lemma bytes_eqb_eq : forall a b, bytes_eqb a b = true -> a = b.
Proof.
  induction a as [|x a IH]; destruct b as [|y b]; cbn; try discriminate; [reflexivity|].
  intros H. apply andb_true_iff in H. destruct H as [E H]. apply N.eqb_eq in E. subst. f_equal. auto.
Qed.
Lemma is_blank_blank c : is_blank c = true -> blank c.
Proof.
  unfold is_blank, blank. intros H. repeat (apply orb_true_iff in H; destruct H as [H|H]);
    apply N.eqb_eq in H; auto.
Qed.
Lemma skip_blanks_split : forall l, exists b, Forall blank b /\ l = b ++ skip_blanks l.
Proof.
  induction l as [|c l [b [Hb E]]]; cbn [skip_blanks].
  - exists []. split; [constructor|reflexivity].
  - destruct (is_blank c) eqn:B.
    + exists (c :: b). split; [constructor; [apply is_blank_blank; exact B|exact Hb]|]. cbn. f_equal. exact E.
    + exists []. split; [constructor|reflexivity].
Qed.
Lemma strip_prefix_split : forall name l rest, strip_prefix name l = Some rest -> l = name ++ rest.
Proof.
  induction name as [|x name IH]; intros l rest H; cbn in H.
  - inversion H; reflexivity.
  - destruct l as [|y l]; [discriminate|]. destruct (N.eqb_spec x y) as [->|]; [|discriminate].
    cbn. f_equal. auto.
Qed.

Lemma Forall_rev_blank l : Forall blank l -> Forall blank (rev l).
Proof. intros H. apply Forall_forall. intros x Hx. apply in_rev in Hx. rewrite Forall_forall in H. auto. Qed.

Lemma unparen1_sound t t' : unparen1 t = Some t' ->
  exists b1 b2, Forall blank b1 /\ Forall blank b2 /\ t = 40 :: b1 ++ t' ++ b2 ++ [41].
Proof.
  unfold unparen1. destruct t as [|c t1]; [discriminate|].
  destruct (N.eqb_spec c 40) as [->|Hc].
  2:{ intros H. exfalso. destruct c as [|p]; [discriminate|].
      repeat (destruct p as [p|p|]; try discriminate); congruence. }
  destruct (skip_blanks_split t1) as [b1 [Hb1 E1]].
  destruct (rev (skip_blanks t1)) as [|d r] eqn:R; [discriminate|].
  destruct (N.eqb_spec d 41) as [->|Hd].
  2:{ intros H. exfalso. destruct d as [|p]; [discriminate|].
      repeat (destruct p as [p|p|]; try discriminate); congruence. }
  intros H. inversion H; subst t'. clear H.
  destruct (skip_blanks_split r) as [b2 [Hb2 E2]].
  exists b1, (rev b2). split; [exact Hb1|]. split; [apply Forall_rev_blank; exact Hb2|].
  f_equal. rewrite E1 at 1. f_equal.
  assert (S : skip_blanks t1 = rev r ++ [41]).
  { rewrite <- (rev_involutive (skip_blanks t1)), R. reflexivity. }
  rewrite S. rewrite E2 at 1. rewrite rev_app_distr. rewrite <- app_assoc. reflexivity.
Qed.

Lemma unparen_wrapped : forall fuel t, wrapped t (unparen fuel t).
Proof.
  induction fuel as [|f IH]; intros t; cbn [unparen]; [constructor|].
  destruct (unparen1 t) as [t'|] eqn:U; [|constructor].
  apply unparen1_sound in U. destruct U as (b1 & b2 & H1 & H2 & ->).
  apply W_paren; auto.
Qed.
Lemma core_wrapped t : wrapped t (core t).
Proof. apply unparen_wrapped. Qed.

Lemma ident_text_sound t name : ident_text t name = true -> wrapped t name.
Proof. unfold ident_text. intros H. apply bytes_eqb_eq in H. rewrite <- H. apply core_wrapped. Qed.

Lemma byte_value_sound : forall l acc v, byte_value acc l = Some v ->
  exists ds, l = ds ++ [98] /\ dec_value acc ds = Some v.
Proof.
  induction l as [|c l IH]; intros acc v H; cbn [byte_value] in H; [discriminate|].
  destruct l as [|c2 l2].
  - destruct (N.eqb_spec c 98) as [->|Hc].
    + inversion H; subst. exists []. split; reflexivity.
    + assert (E : (if is_digit c then byte_value (acc * 10 + (c - 48)) [] else None) = Some v).
      { destruct c as [|p]; [exact H|]. repeat (destruct p as [p|p|]; try exact H); congruence. }
      destruct (is_digit c); discriminate.
  - assert (E : (if is_digit c then byte_value (acc * 10 + (c - 48)) (c2 :: l2) else None) = Some v).
    { destruct c as [|p]; [exact H|]. repeat (destruct p as [p|p|]; try exact H). }
    destruct (is_digit c) eqn:D; [|discriminate].
    apply IH in E. destruct E as [ds [E1 E2]]. exists (c :: ds). split.
    + cbn. rewrite E1. reflexivity.
    + cbn [dec_value]. rewrite D. exact E2.
Qed.

Lemma last_snoc : forall (t : list N) d, t <> [] -> exists body, t = body ++ [last t d].
Proof.
  induction t as [|x t IH]; intros d H; [congruence|].
  destruct t as [|y t'].
  - exists []. reflexivity.
  - destruct (IH d ltac:(discriminate)) as [body E]. exists (x :: body).
    change (last (x :: y :: t') d) with (last (y :: t') d). cbn [app]. f_equal. exact E.
Qed.

Lemma leaf_ok_sound src lo hi lf : leaf_ok src lo hi lf = true -> leaf_spec (slice src lo hi) lf.
Proof.
  destruct lf; cbn [leaf_ok]; intros H; pose proof (core_wrapped (slice src lo hi)) as W;
    set (c := core (slice src lo hi)) in *.
  - constructor.
  - constructor. apply ident_text_sound; exact H.
  - apply LS_int with (c := c); [exact W|]. unfold int_text in H. destruct (int_value c) as [v'|]; [|discriminate].
    apply Z.eqb_eq in H. congruence.
  - apply LS_byte with (c := c); [exact W|]. unfold byte_text in H. destruct c as [|x t] eqn:E; [discriminate|].
    apply andb_true_iff in H. destruct H as [D H].
    destruct (byte_value 0 (x :: t)) as [v'|] eqn:B; [|discriminate].
    apply N.eqb_eq in H. subst v'. apply byte_value_sound in B. destruct B as [ds [E1 E2]].
    exists ds. split; [exact E1|]. split; [|exact E2].
    intros ->. cbn in E1. inversion E1; subst. discriminate.
  - apply LS_str with (c := c); [exact W|]. unfold str_text in H. destruct c as [|q [|x t]]; try discriminate.
    + destruct q as [|p]; [discriminate|]. repeat (destruct p as [p|p|]; try discriminate).
    + destruct (N.eqb_spec q 34) as [->|H34].
      * exists 34, (x :: t). split; [left; reflexivity|]. split; [reflexivity|discriminate].
      * destruct (N.eqb_spec q 114) as [->|H114].
        -- exists 114, (x :: t). split; [right; reflexivity|]. split; [reflexivity|discriminate].
        -- exfalso. destruct q as [|p]; [discriminate|].
           repeat (destruct p as [p|p|]; try discriminate); congruence.
  - apply LS_char with (c := c); [exact W|]. unfold char_text in H. destruct c as [|q [|x t]]; try discriminate.
    + destruct q as [|p]; [discriminate|]. repeat (destruct p as [p|p|]; try discriminate).
    + destruct (N.eqb_spec q 39) as [->|H39].
      * apply N.eqb_eq in H. unfold last_byte in H.
        destruct (last_snoc (x :: t) 0 ltac:(discriminate)) as [body E].
        change (last (39 :: x :: t) 0) with (last (x :: t) 0) in H. rewrite H in E.
        exists body. rewrite E. reflexivity.
      * exfalso. destruct q as [|p]; [discriminate|].
        repeat (destruct p as [p|p|]; try discriminate); congruence.
  - apply LS_float with (c := c); [exact W|]. unfold float_text in H. destruct c; [discriminate|discriminate].
Qed.

(* ---- the tree ---- *)
Section Ind.
  Variable P : stree -> Prop.
  Hypothesis HN : forall lo hi lf cs, Forall P cs -> P (SNode lo hi lf cs).
  Fixpoint stree_ind' (t : stree) : P t :=
    match t with
    | SNode lo hi lf cs =>
        HN lo hi lf cs
          ((fix f (cs : list stree) : Forall P cs :=
              match cs with
              | [] => Forall_nil P
              | c :: cs' => Forall_cons c (stree_ind' c) (f cs')
              end) cs)
    end.
End Ind.

Fixpoint oks (src : list N) (n hi : N) (cs : list stree) (from : N) : bool :=
  match cs with
  | [] => true
  | c :: cs' => (from <=? lo_of c) && (hi_of c <=? hi) && ok src n c && oks src n hi cs' (hi_of c)
  end.

Lemma ok_unfold src n lo hi lf cs :
  ok src n (SNode lo hi lf cs) =
  (lo <=? hi) && (hi <=? n) && leaf_ok src lo hi lf && oks src n hi cs lo.
Proof.
  cbn [ok]. f_equal. generalize lo. induction cs as [|c cs IH]; intros from; [reflexivity|].
  cbn [oks]. rewrite <- IH. reflexivity.
Qed.

Lemma ok_lo_hi src n c : ok src n c = true -> lo_of c <= hi_of c.
Proof.
  destruct c as [lo hi lf cs]. rewrite ok_unfold. intros H.
  repeat (apply andb_true_iff in H; destruct H as [H ?]). apply N.leb_le in H. exact H.
Qed.

Lemma oks_sound src n hi : forall cs from,
  Forall (fun c => ok src n c = true -> spans_wf src c) cs ->
  oks src n hi cs from = true ->
  Forall (spans_wf src) cs /\
  Forall (fun c => from <= lo_of c /\ hi_of c <= hi) cs /\
  ForallOrdPairs (fun a b => hi_of a <= lo_of b) cs.
Proof.
  induction cs as [|c cs IH]; intros from HF H.
  - repeat split; constructor.
  - cbn [oks] in H. repeat (apply andb_true_iff in H; destruct H as [H ?]).
    rename H into A, H2 into B, H1 into C, H0 into D.
    apply N.leb_le in A. apply N.leb_le in B.
    inversion HF as [|c' cs' Hc HF']; subst.
    destruct (IH (hi_of c) HF' D) as (W & I & O).
    pose proof (ok_lo_hi _ _ _ C) as L.
    split; [constructor; auto|]. split.
    + constructor; [split; assumption|].
      eapply Forall_impl; [|exact I]. cbn. intros d [X Y]. split; lia.
    + constructor; [|exact O].
      eapply Forall_impl; [|exact I]. cbn. intros d [X Y]. exact X.
Qed.

Lemma ok_sound src : forall t, ok src (lenN src) t = true -> spans_wf src t.
Proof.
  induction t as [lo hi lf cs IH] using stree_ind'. intros H.
  rewrite ok_unfold in H. repeat (apply andb_true_iff in H; destruct H as [H ?]).
  rename H into A, H2 into B, H1 into C, H0 into D.
  apply N.leb_le in A. apply N.leb_le in B.
  destruct (oks_sound src (lenN src) hi cs lo IH D) as (W & I & O).
  constructor; auto. apply leaf_ok_sound; exact C.
Qed.

(* What acceptance guarantees: spans in bounds, children nested in their parent, siblings ordered
   and disjoint, leaf text = token text. *)
Theorem spans_ok_sound src t : spans_ok src t = true -> spans_wf src t.
Proof. apply ok_sound. Qed.

(* A consequence spelled out: any two nodes one of which is a descendant of the other are nested;
   here for direct children, with the text of an identifier leaf. *)
Corollary spans_ok_child src lo hi lf cs c :
  spans_ok src (SNode lo hi lf cs) = true -> In c cs ->
  lo <= lo_of c /\ lo_of c <= hi_of c /\ hi_of c <= hi /\ hi <= lenN src.
Proof.
  intros H Hin. apply spans_ok_sound in H. inversion H; subst.
  rewrite Forall_forall in *. 
  match goal with HI : forall x, In x cs -> lo <= lo_of x /\ _ |- _ => destruct (HI c Hin) as [X Y] end.
  match goal with HW : forall x, In x cs -> spans_wf src x |- _ => pose proof (HW c Hin) as W end.
  inversion W; subst. cbn. repeat split; assumption.
Qed.
