(* C08 — the layout model: one call of layout_next_token needs at most 2·|contexts| + 3 loop
   iterations (every `continue` of layout.rs:291-603 either pops a context or turns the token into
   a CloseBlock, which pops one in the next iteration). *)
From Coq Require Import List NArith Bool Lia.
From GV Require Import Front.Layout.
Import ListNotations.

Definition mu (t : mtok) (st : state) : nat :=
  2 * length (stack st) + (match k t with TCloseBlock => 0 | _ => 1 end).

Lemma ret_push_no_cont t o t' st' : ret_push t o <> SCont t' st'.
Proof. destruct o; cbn; discriminate. Qed.

Lemma open_body_no_cont t loc st ret u t' st' : open_body t loc st ret u <> SCont t' st'.
Proof. unfold open_body. destruct (push_ctx st _); discriminate. Qed.

Lemma after_offside_no_cont t o st t' st' : after_offside t o st <> SCont t' st'.
Proof.
  unfold after_offside. destruct (push_context_of (k t)); [apply ret_push_no_cont|].
  destruct (k t); destruct (octx o); cbn;
    repeat match goal with
    | |- ret_push _ _ <> _ => apply ret_push_no_cont
    | |- SRet _ _ <> _ => discriminate
    | |- (if ?c then _ else _) <> _ => destruct c
    | |- (let (_, _) := ?p in _) <> _ => destruct p
    end.
Qed.

(* the look-ahead never touches the context stack *)
Lemma pull_stack : forall c st, stack (pull c st) = stack st.
Proof.
  induction c as [|c IH]; intros st; cbn [pull]; [reflexivity|].
  destruct (toks st); rewrite IH; reflexivity.
Qed.
Lemma peek_stack n st : stack (snd (peek_token n st)) = stack st.
Proof. unfold peek_token. cbn [snd]. apply pull_stack. Qed.

Lemma scan_continue_stack : forall f i a e first st b st',
  scan_continue f i a e first st = Some (b, st') -> stack st' = stack st.
Proof.
  induction f as [|f IH]; intros i a e first st b st' H; cbn [scan_continue] in H; [discriminate|].
  destruct i as [|j].
  - destruct (tk_eqb (k first) e); [inversion H; reflexivity|].
    destruct (k first); try (destruct a); try (inversion H; reflexivity); eapply IH; eauto.
  - destruct (peek_token j st) as [pk st1] eqn:P.
    assert (S1 : stack st1 = stack st) by (rewrite <- (peek_stack j st), P; reflexivity).
    destruct pk as [p|]; [|inversion H; subst; exact S1].
    destruct (tk_eqb (k p) e); [inversion H; subst; exact S1|].
    destruct (k p); try (destruct a); try (inversion H; subst; exact S1);
      (rewrite <- S1; eapply IH; eauto).
Qed.

Lemma continue_block_stack fuel c t st b st' :
  continue_block fuel c t st = Some (b, st') -> stack st' = stack st.
Proof.
  unfold continue_block. destruct (second_is_rec (stack st)); [|intros H; inversion H; reflexivity].
  destruct (k t); destruct c; intros H; try (inversion H; reflexivity);
    eapply scan_continue_stack; eauto.
Qed.

Ltac fin H S K :=
  first
    [ discriminate H
    | exfalso; eapply after_offside_no_cont; exact H
    | exfalso; eapply open_body_no_cont; exact H
    | inversion H; subst; clear H; unfold mu; cbn [stack set_stack set_unp k virt];
      rewrite ?S, ?K; cbn [length]; lia ].

Lemma step_decreases fuel t st t' st' :
  step fuel t st = SCont t' st' -> (mu t' st' < mu t st)%nat.
Proof.
  unfold step. intros H.
  destruct (stack st) as [|o rest] eqn:S.
  - destruct (k t); try discriminate H;
      destruct (push_ctx st (off_at t (CBlock false))); discriminate H.
  - destruct (k t) eqn:K; cbn [tk_eqb is_closing andb] in H; try discriminate H;
      destruct (octx o) as [b| | | | | | | | | | |] eqn:C; cbn [closes tk_eqb andb negb] in H.
    all: try match type of H with context [forallb ?f ?r] => destruct (forallb f r) end.
    all: try match type of H with context [N.compare ?x ?y] => destruct (N.compare x y) end.
    all: try (destruct b).
    all: try match type of H with context [continue_block ?f ?c ?x ?y] =>
               destruct (continue_block f c x y) as [[[|] st1]|] eqn:CB;
               [ | pose proof (continue_block_stack _ _ _ _ _ _ CB) as ES | ] end.
    all: try (rewrite ES in H); try (rewrite S in H); cbn [tl] in H.
    all: try match type of H with context [match ?r with [] => SPanic | _ :: _ => _ end] => destruct r end.
    all: try solve [fin H S K].
    all: try solve [inversion H; subst; clear H; unfold mu; cbn [stack set_stack set_unp k virt];
                    rewrite ?ES, ?S, ?K; cbn [length tl]; lia].
Qed.

Lemma run_loop_fuel : forall n fuel t st, (mu t st < n)%nat -> run_loop n fuel t st <> LFuel.
Proof.
  induction n as [|n IH]; intros fuel t st Hm; [lia|]. cbn [run_loop].
  destruct (step fuel t st) as [r s|t' st'| | |] eqn:E; try discriminate.
  apply IH. apply step_decreases in E. lia.
Qed.

Lemma mu_bound t st : (mu t st < loop_fuel st)%nat.
Proof. unfold mu, loop_fuel. destruct (k t); lia. Qed.

(* One call of layout_next_token never runs out of loop iterations: 2·|contexts| + 3 suffice. *)
Theorem layout_step_terminates fuel st : layout_next_token fuel st <> LFuel.
Proof.
  unfold layout_next_token. destruct (next_token st) as [t st1].
  destruct (k t) eqn:K; destruct (stack st1) eqn:S; try discriminate;
    apply run_loop_fuel; rewrite <- ?S;
    match goal with |- (mu ?x st1 < _)%nat => apply (mu_bound x st1) end.
Qed.

(* The only ways a call can end: a token, the UnindentedTooFar error, the `expect` panic, or the
   unbounded look-ahead of scan_continue_block. *)
Corollary layout_next_token_outcomes fuel st :
  (exists t st', layout_next_token fuel st = LTok t st') \/ layout_next_token fuel st = LErr \/
  layout_next_token fuel st = LPanic \/ layout_next_token fuel st = LHang.
Proof.
  pose proof (layout_step_terminates fuel st) as H.
  destruct (layout_next_token fuel st); eauto; congruence.
Qed.

(* ---- a witness: the statement after an `if .. else ..` ----

   The raw tokens of
       if a then b else c
       d
   (columns/lines as the tokenizer counts them).  The book's rule "a token that starts on the column
   of an earlier expression starts the next expression of the block" asks for a virtual `;`
   in front of `d`.  The model emits it exactly when the CloseBlock arm of layout_next_token does NOT
   clear `emit_semi` of the enclosing block (the flag is regenerated from layout.rs). *)
Local Open Scope N_scope.
Definition if_else_then_statement : list mtok :=
  [ MTok TIf 1001 0 1 0 2; MTok TOther 1002 0 4 3 4; MTok TThen 1003 0 6 5 9; MTok TOther 1004 0 11 10 11;
    MTok TElse 1005 0 13 12 16; MTok TOther 1006 0 18 17 18; MTok TOther 1007 1 1 19 20;
    MTok TEOF 12 2 1 21 21 ].

Definition has_semi (out : list mtok) : bool := existsb (fun t => tk_eqb (k t) TSemi) out.

Theorem if_else_statement_separator :
  exists out, layout if_else_then_statement = ROk out /\
              has_semi out = negb close_block_resets_semi.
Proof. eexists. split; vm_compute; reflexivity. Qed.
