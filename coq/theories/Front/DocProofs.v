(* Breaking lines never changes the token sequence (Front/Doc.v). *)
From Coq Require Import List NArith Bool Arith Lia.
From GV Require Import Front.CommentIter Front.Doc.
Import ListNotations.

(* two texts are interchangeable in any context as far as tokens are concerned *)
Definition tok_equiv (x y : bytes) : Prop := forall cur, feed cur x = feed cur y.

Lemma tok_equiv_refl : forall x, tok_equiv x x.
Proof. intros x cur. reflexivity. Qed.

Lemma tok_equiv_trans : forall x y z, tok_equiv x y -> tok_equiv y z -> tok_equiv x z.
Proof. intros x y z H1 H2 cur. now rewrite H1, H2. Qed.

Lemma tok_equiv_sym : forall x y, tok_equiv x y -> tok_equiv y x.
Proof. intros x y H cur. now rewrite H. Qed.

Lemma feed_app : forall x y cur,
  feed cur (x ++ y) =
  let '(e1, c1) := feed cur x in let '(e2, c2) := feed c1 y in (e1 ++ e2, c2).
Proof.
  induction x as [|b r IH]; intros y cur.
  - simpl. destruct (feed cur y). reflexivity.
  - simpl. destruct (is_ws b).
    + rewrite IH. destruct (feed [] r) as [e1 c1]. destruct (feed c1 y) as [e2 c2].
      destruct cur; reflexivity.
    + apply IH.
Qed.

Lemma tok_equiv_app : forall x x' y y', tok_equiv x x' -> tok_equiv y y' -> tok_equiv (x ++ y) (x' ++ y').
Proof.
  intros x x' y y' Hx Hy cur. rewrite !feed_app, Hx.
  destruct (feed cur x') as [e1 c1]. now rewrite Hy.
Qed.

Fixpoint all_ws (s : bytes) : bool :=
  match s with [] => true | b :: r => is_ws b && all_ws r end.

Lemma feed_ws : forall s cur, s <> [] -> all_ws s = true -> feed cur s = (flush cur, []).
Proof.
  induction s as [|b r IH]; intros cur Hne H; [congruence|].
  simpl in H. apply andb_true_iff in H as [Hb Hr]. simpl. rewrite Hb.
  destruct r as [|c r'].
  - simpl. destruct cur; reflexivity.
  - rewrite (IH [] ltac:(discriminate) Hr). simpl. destruct cur; reflexivity.
Qed.

Lemma tok_equiv_ws : forall x y, x <> [] -> y <> [] -> all_ws x = true -> all_ws y = true -> tok_equiv x y.
Proof. intros x y Hx Hy Ax Ay cur. now rewrite !feed_ws. Qed.

Lemma all_ws_newline : forall ind, all_ws (newline ind) = true.
Proof.
  intros ind. unfold newline. simpl. induction ind as [|n IH]; [reflexivity|]. simpl. exact IH.
Qed.

(* the canonical one-line text of a document *)
Fixpoint flat_text (d : doc) : bytes :=
  match d with
  | DNil => []
  | DText s => s
  | DLine | DHardLine => [32%N]
  | DCat a b => flat_text a ++ flat_text b
  | DNest _ d | DGroup d => flat_text d
  | DFlatAlt _ b => flat_text b
  end.

Lemma layout_tok_equiv : forall d w flat ind tail col, no_flat_alt d = true ->
  tok_equiv (fst (layout w flat ind d tail col)) (flat_text d).
Proof.
  induction d as [| s | | | a IHa b IHb | k d IH | d IH | a IHa b IHb];
    intros w flat ind tail col H; cbn [layout flat_text].
  - apply tok_equiv_refl.
  - apply tok_equiv_refl.
  - destruct flat; [apply tok_equiv_refl|].
    apply tok_equiv_ws; try discriminate; [apply all_ws_newline|reflexivity].
  - apply tok_equiv_ws; try discriminate; [apply all_ws_newline|reflexivity].
  - simpl in H. apply andb_true_iff in H as [Ha Hb].
    specialize (IHa w flat ind (head_width b tail) col Ha).
    destruct (layout w flat ind a (head_width b tail) col) as [oa c1].
    specialize (IHb w flat ind tail c1 Hb).
    destruct (layout w flat ind b tail c1) as [ob c2].
    simpl in *. now apply tok_equiv_app.
  - apply IH. exact H.
  - apply IH. exact H.
  - discriminate.
Qed.

Lemma tok_equiv_words : forall x y, tok_equiv x y -> words x = words y.
Proof. intros x y H. unfold words. now rewrite (H []). Qed.

(* For documents without alternative texts, the sequence of non-blank tokens of the rendered
   text does not depend on the page width: unbounded in the widths and in the document. *)
Theorem render_tokens_width_independent : forall w1 w2 d, no_flat_alt d = true ->
  words (render w1 d) = words (render w2 d).
Proof.
  intros w1 w2 d H. apply tok_equiv_words. unfold render.
  eapply tok_equiv_trans; [apply layout_tok_equiv, H|].
  apply tok_equiv_sym, layout_tok_equiv, H.
Qed.

(* ... and they are the tokens of the one-line text. *)
Theorem render_tokens_flat : forall w d, no_flat_alt d = true -> words (render w d) = words (flat_text d).
Proof. intros w d H. apply tok_equiv_words. apply layout_tok_equiv, H. Qed.

(* With alternative texts the statement is false: `flat_alt` is how the formatter prints a
   trailing comma only in broken records (pretty_print.rs:46). *)
Theorem render_tokens_width_dependent_with_flat_alt : exists w1 w2 d,
  words (render w1 d) <> words (render w2 d).
Proof.
  exists 1, 80, (DGroup (DCat (DText [97]%N) (DCat (DFlatAlt (DText [44]%N) DNil) (DCat DLine (DText [98]%N))))).
  vm_compute. discriminate.
Qed.
