(* Model of parser/src/infix.rs `reparse`: operator-precedence re-association.
   Definitions only (executable, extracted); proofs are in InfixProofs.v.

   Representation: the Rust code keeps an operand stack and an operator stack in
   lock-step (always |args| = |ops| + 1 between tokens).  The model keeps them as one
   list of (left operand, operator) pairs, innermost first, plus the current operand.
   The Rust `infixes.next_op = Some(next_op)` push-back after a reduce is the recursive
   call of [push_op]. *)
From Coq Require Import List ZArith Bool.
Import ListNotations.

Inductive fixity := FL | FR.
Record meta := { prec : Z; fix_ : fixity }.

Inductive tree := Leaf (a : nat) | Node (l : tree) (o : nat) (r : tree).
Inductive tok := TArg (a : nat) | TOp (o : nat).

Fixpoint yield (t : tree) : list tok :=
  match t with Leaf a => [TArg a] | Node l o r => yield l ++ TOp o :: yield r end.

Inductive act := Reduce | Shift | Conflict.

Inductive res (A : Type) := Ok (x : A) | ErrConflict (s n : nat).
Arguments Ok {A}. Arguments ErrConflict {A}.

Definition stack := list (tree * nat).   (* (left operand, operator), innermost first *)

Section S.
Variable tbl : nat -> meta.

(* infix.rs:395-438: i32::cmp(next.precedence, stack.precedence), then the fixity pair *)
Definition decide (next stk : nat) : act :=
  match Z.compare (prec (tbl next)) (prec (tbl stk)) with
  | Lt => Reduce
  | Gt => Shift
  | Eq => match fix_ (tbl next), fix_ (tbl stk) with
          | FL, FL => Reduce | FR, FR => Shift | _, _ => Conflict end
  end.

Fixpoint push_op (o : nat) (cur : tree) (st : stack) : res (tree * stack) :=
  match st with
  | [] => Ok (cur, [])
  | (l, s) :: st' =>
      match decide o s with
      | Shift => Ok (cur, st)
      | Conflict => ErrConflict s o
      | Reduce => push_op o (Node l s cur) st'
      end
  end.

(* infix.rs:444-448: drain the operator stack *)
Fixpoint unwind (cur : tree) (st : stack) : tree :=
  match st with [] => cur | (l, s) :: st' => unwind (Node l s cur) st' end.

Fixpoint go (cur : tree) (st : stack) (rest : list (nat * nat)) : res tree :=
  match rest with
  | [] => Ok (unwind cur st)
  | (o, a) :: rest' =>
      match push_op o cur st with
      | Ok (cur', st') => go (Leaf a) ((cur', o) :: st') rest'
      | ErrConflict s n => ErrConflict s n
      end
  end.

(* chain  a0 o1 a1 o2 a2 ...  given as a0 and [(o1,a1); (o2,a2); ...] *)
Definition reparse (a0 : nat) (rest : list (nat * nat)) : res tree := go (Leaf a0) [] rest.

End S.

Fixpoint ryield (rest : list (nat * nat)) : list tok :=
  match rest with [] => [] | (o, a) :: r => TOp o :: TArg a :: ryield r end.

(* ---- boolean consistency of a finite operator table (used for the built-in table) ---- *)
Definition fixity_eqb (a b : fixity) : bool :=
  match a, b with FL, FL => true | FR, FR => true | _, _ => false end.

Definition metas_consistent (ms : list meta) : bool :=
  forallb (fun a => forallb (fun b => negb (Z.eqb (prec a) (prec b)) || fixity_eqb (fix_ a) (fix_ b)) ms) ms.
