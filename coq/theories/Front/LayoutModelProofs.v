(* C08 — the layout model only INSERTS virtual tokens (proved on the Gallina port itself, for every
   token stream that ends in EOF and every outcome of the run).

   [ins x y]: the list x is the list y with tokens of the four virtual kinds (OpenBlock, CloseBlock,
   Semi, In) inserted — nothing of y is dropped, reordered or changed.  EOF tokens are disregarded on
   both sides ([real]): the tokenizer yields EOF forever and the algorithm re-reads / re-positions it. *)
From Coq Require Import List NArith Bool Lia.
From GV Require Import Front.Layout Front.LayoutProofs.
Import ListNotations.

Definition vkd (t : mtok) : Prop :=
  k t = TOpenBlock \/ k t = TCloseBlock \/ k t = TSemi \/ k t = TIn.

Inductive ins : list mtok -> list mtok -> Prop :=
| ins_nil : ins [] []
| ins_keep t x y : ins x y -> ins (t :: x) (t :: y)
| ins_add t x y : vkd t -> ins x y -> ins (t :: x) y.

Definition is_eof (t : mtok) : bool := tk_eqb (k t) TEOF.
Definition real (l : list mtok) : list mtok := filter (fun t => negb (is_eof t)) l.

(* x is y with virtual tokens inserted, EOF tokens disregarded *)
Definition G (x y : list mtok) : Prop := ins (real x) (real y).

Lemma ins_refl : forall x, ins x x.
Proof. induction x; constructor; auto. Qed.

Lemma ins_trans : forall x y, ins x y -> forall z, ins y z -> ins x z.
Proof.
  induction 1 as [|t x y H IH|t x y V H IH]; intros z Hz.
  - exact Hz.
  - inversion Hz; subst.
    + apply ins_keep; auto.
    + apply ins_add; auto.
  - apply ins_add; auto.
Qed.

Lemma ins_app : forall a b, ins a b -> forall c d, ins c d -> ins (a ++ c) (b ++ d).
Proof. induction 1; intros c d H2; cbn; [exact H2|apply ins_keep; auto|apply ins_add; auto]. Qed.

Lemma real_app x y : real (x ++ y) = real x ++ real y.
Proof. apply filter_app. Qed.

Lemma G_refl x : G x x.
Proof. apply ins_refl. Qed.
Lemma G_trans x y z : G x y -> G y z -> G x z.
Proof. unfold G. intros A B. eapply ins_trans; eauto. Qed.
Lemma G_app a b c d : G a b -> G c d -> G (a ++ c) (b ++ d).
Proof. unfold G. rewrite !real_app. intros A B. apply ins_app; assumption. Qed.
Lemma G_keep t x y : G x y -> G (t :: x) (t :: y).
Proof. unfold G, real. cbn [filter]. destruct (negb (is_eof t)); [apply ins_keep|]; auto. Qed.

(* kinds that may be inserted: the four virtual kinds, and EOF (disregarded) *)
Definition vk' (t : mtok) : Prop := vkd t \/ k t = TEOF.
Lemma G_add t x y : vk' t -> G x y -> G (t :: x) y.
Proof.
  unfold G, real. cbn [filter]. intros [V|E] H.
  - destruct (negb (is_eof t)); [apply ins_add|]; auto.
  - unfold is_eof. rewrite E. cbn. exact H.
Qed.
(* the end-of-input token is re-positioned (column 0) by layout_next_token *)
Lemma G_swap_eof t t' x y : k t = TEOF -> k t' = TEOF -> G x y -> G (t' :: x) (t :: y).
Proof. unfold G, real, is_eof. cbn [filter]. intros -> ->. cbn. auto. Qed.

Lemma vk_virt_open t : vk' (virt TOpenBlock t). Proof. left. left. reflexivity. Qed.
Lemma vk_virt_close t : vk' (virt TCloseBlock t). Proof. left. right. left. reflexivity. Qed.
Lemma vk_virt_semi t : vk' (virt TSemi t). Proof. left. right. right. left. reflexivity. Qed.
Lemma vk_virt_in t : vk' (virt TIn t). Proof. left. right. right. right. reflexivity. Qed.

(* the tokens the algorithm has not emitted yet *)
Definition P (st : state) : list mtok := unp st ++ toks st.

Ltac vks := first [apply vk_virt_open | apply vk_virt_close | apply vk_virt_semi | apply vk_virt_in
                  | (right; assumption) ].
Ltac gs := repeat first [ assumption | apply G_refl | apply G_keep | (apply G_add; [solve [vks]|]) ].

(* the state's [eof] field is an EOF token (it never changes) *)
Definition eof_ok (st : state) : Prop := k (eof st) = TEOF.

Lemma next_token_G st t st1 : eof_ok st -> next_token st = (t, st1) ->
  G (t :: P st1) (P st) /\ eof st1 = eof st.
Proof.
  destruct st as [tk e u s]. unfold next_token, P, eof_ok. cbn. intros E H.
  destruct u as [|x us].
  - destruct tk as [|y r]; inversion H; subst; cbn; split; auto.
    + apply G_add; [right; exact E|apply G_refl].
    + apply G_refl.
  - inversion H; subst. cbn. split; [apply G_refl|reflexivity].
Qed.

Lemma push_ctx_same st o st' : push_ctx st o = Some st' ->
  unp st' = unp st /\ toks st' = toks st /\ eof st' = eof st.
Proof. unfold push_ctx. destruct (check_unind _ _ _); [|discriminate]. intros H; inversion H; subst; cbn; auto. Qed.

Lemma push_ctx_P st o st' : push_ctx st o = Some st' -> P st' = P st /\ eof st' = eof st.
Proof. intros H. apply push_ctx_same in H. destruct H as (A & B & C). unfold P. rewrite A, B. auto. Qed.

Lemma scan_for_next_block_G st c st' : eof_ok st -> scan_for_next_block st c = Some st' ->
  G (P st') (P st) /\ eof st' = eof st.
Proof.
  unfold scan_for_next_block. intros E H. destruct (next_token st) as [next st1] eqn:NT.
  destruct (next_token_G _ _ _ E NT) as [HG HE].
  assert (X : forall u, P (set_unp (set_unp st1 (next :: unp st1)) (u ++ unp (set_unp st1 (next :: unp st1))))
                        = u ++ next :: P st1).
  { intros u. unfold P. cbn. rewrite <- app_assoc. reflexivity. }
  destruct (is_block c).
  - destruct (first_block_col _) as [lc|].
    + destruct (col next <=? lc)%N.
      * apply push_ctx_P in H. destruct H as [HP HE']. cbn in HE'. rewrite HP, HE'. split; [|exact HE].
        change (G (P (set_unp (set_unp st1 (next :: unp st1))
                   ([virt TOpenBlock next; virt TCloseBlock next] ++ unp (set_unp st1 (next :: unp st1))))) (P st)).
        rewrite X. cbn [app]. gs.
      * apply push_ctx_P in H. destruct H as [HP HE']. cbn in HE'. rewrite HP, HE'. split; [|exact HE].
        change (G (P (set_unp (set_unp st1 (next :: unp st1))
                   ([virt TOpenBlock next] ++ unp (set_unp st1 (next :: unp st1))))) (P st)).
        rewrite X. cbn [app]. gs.
    + apply push_ctx_P in H. destruct H as [HP HE']. cbn in HE'. rewrite HP, HE'. split; [|exact HE].
      change (G (P (set_unp (set_unp st1 (next :: unp st1))
                 ([virt TOpenBlock next] ++ unp (set_unp st1 (next :: unp st1))))) (P st)).
      rewrite X. cbn [app]. gs.
  - apply push_ctx_P in H. destruct H as [HP HE']. cbn in HE'. rewrite HP, HE'. split; [|exact HE].
    change (G (P (set_unp (set_unp st1 (next :: unp st1)) ([] ++ unp (set_unp st1 (next :: unp st1))))) (P st)).
    rewrite X. cbn [app]. gs.
Qed.

Lemma pull_G : forall c st, eof_ok st -> G (P (pull c st)) (P st) /\ eof (pull c st) = eof st.
Proof.
  induction c as [|c IH]; intros st E; cbn [pull]; [split; [apply G_refl|reflexivity]|].
  destruct (toks st) as [|t r] eqn:T.
  - destruct (IH (St [] (eof st) (unp st ++ [eof st]) (stack st)) E) as [A B]. split; [|exact B].
    eapply G_trans; [exact A|]. unfold P. cbn. rewrite T, !app_nil_r.
    rewrite <- (app_nil_r (unp st)) at 2. apply G_app; [apply G_refl|].
    apply G_add; [right; exact E|apply G_refl].
  - destruct (IH (St r (eof st) (unp st ++ [t]) (stack st)) E) as [A B]. split; [|exact B].
    eapply G_trans; [exact A|]. unfold P. cbn. rewrite T, <- app_assoc. apply G_refl.
Qed.

Lemma scan_continue_G : forall f i a e first st b st', eof_ok st ->
  scan_continue f i a e first st = Some (b, st') -> G (P st') (P st) /\ eof st' = eof st.
Proof.
  induction f as [|f IH]; intros i a e first st b st' E H; cbn [scan_continue] in H; [discriminate|].
  assert (R : G (P st) (P st) /\ eof st = eof st) by (split; [apply G_refl|reflexivity]).
  destruct i as [|j].
  - destruct (tk_eqb (k first) e); [inversion H; subst; exact R|].
    destruct (k first); try (destruct a); try (inversion H; subst; exact R); eapply IH; eauto.
  - unfold peek_token in H.
    set (st1 := pull (S j - length (unp st)) st) in *.
    destruct (pull_G (S j - length (unp st)) st E) as [A B]. fold st1 in A, B.
    assert (E1 : eof_ok st1) by (unfold eof_ok; rewrite B; exact E).
    assert (R1 : G (P st1) (P st) /\ eof st1 = eof st) by (split; assumption).
    destruct (last (map Some (unp st1)) None) as [p|]; [|inversion H; subst; exact R1].
    destruct (tk_eqb (k p) e); [inversion H; subst; exact R1|].
    destruct (k p); try (destruct a); try (inversion H; subst; exact R1);
      (destruct (IH _ _ _ _ _ _ _ E1 H) as [A2 B2]; split; [eapply G_trans; eauto|congruence]).
Qed.

Lemma continue_block_G fuel c t st b st' : eof_ok st ->
  continue_block fuel c t st = Some (b, st') -> G (P st') (P st) /\ eof st' = eof st.
Proof.
  unfold continue_block. intros E.
  assert (R : G (P st) (P st) /\ eof st = eof st) by (split; [apply G_refl|reflexivity]).
  destruct (second_is_rec (stack st)); [|intros H; inversion H; subst; exact R].
  destruct (k t); destruct c; intros H; try (inversion H; subst; exact R);
    eapply scan_continue_G; eauto.
Qed.

(* the relation between (token in hand, state) before and after a piece of the algorithm *)
Definition GS (r : mtok) (st' : state) (t : mtok) (st : state) : Prop :=
  G (r :: P st') (t :: P st) /\ eof st' = eof st.

Lemma ret_push_G t o r st' st : (forall s, o = Some s -> G (P s) (P st) /\ eof s = eof st) ->
  ret_push t o = SRet r st' -> GS r st' t st.
Proof.
  intros Ho H. destruct o as [s|]; [|discriminate]. inversion H; subst.
  destruct (Ho _ eq_refl) as [A B]. split; [apply G_keep; exact A|exact B].
Qed.

Lemma open_body_G t loc st ret u r st' :
  open_body t loc st ret u = SRet r st' ->
  r = ret /\ unp st' = virt TOpenBlock t :: u /\ toks st' = toks st /\ eof st' = eof st.
Proof.
  unfold open_body. destruct (push_ctx st _) as [s1|] eqn:PC; [|discriminate].
  intros H; inversion H; subst. apply push_ctx_same in PC. destruct PC as (A & B & C). cbn. auto.
Qed.

Lemma after_offside_G t o st r st' : eof_ok st ->
  after_offside t o st = SRet r st' -> GS r st' t st.
Proof.
  unfold after_offside. intros E H.
  destruct (push_context_of (k t)).
  - eapply ret_push_G; [|exact H]. intros s Hs.
    match type of Hs with push_ctx ?x _ = _ => assert (PX : P x = P st /\ eof x = eof st) end.
    { destruct (_ && _); cbn; auto. }
    apply push_ctx_P in Hs. destruct Hs as [A B]. destruct PX as [C D]. rewrite A, B, C, D. split; [apply G_refl|reflexivity].
  - assert (Rt : forall s, SRet t s = SRet r st' -> P s = P st -> eof s = eof st -> GS r st' t st).
    { intros s Hs HP HE. inversion Hs; subst. split; [rewrite HP; apply G_refl|exact HE]. }
    assert (Sc : forall c, ret_push t (scan_for_next_block st c) = SRet r st' -> GS r st' t st).
    { intros c Hc. eapply ret_push_G; [|exact Hc]. intros s Hs. eapply scan_for_next_block_G; eauto. }
    destruct (k t) eqn:K; destruct (octx o) eqn:C; cbn [tk_eqb] in H;
      try (eapply Rt; [exact H|reflexivity|reflexivity]); try (eapply Sc; exact H).
    (* remaining: TIn with a block (layout_token), TElse, TComma *)
    all: try (cbn [is_block layout_token] in H; inversion H; subst; split; [|reflexivity];
              unfold P; cbn; gs; fail).
    all: try (destruct (next_token st) as [next st1] eqn:NT;
              destruct (next_token_G _ _ _ E NT) as [HG HE];
              match type of H with (if ?c then _ else _) = _ => destruct c end;
              [ eapply ret_push_G; [|exact H]; intros s Hs;
                assert (E2 : eof_ok (set_unp st1 (next :: unp st1))) by (unfold eof_ok; cbn; rewrite HE; exact E);
                destruct (scan_for_next_block_G _ _ _ E2 Hs) as [A B]; split;
                [eapply G_trans; [exact A|exact HG]|cbn in B; congruence]
              | inversion H; subst; split; [apply G_keep; exact HG|cbn; exact HE] ]).
Qed.

Definition res_ok (x : step_res) (t : mtok) (st : state) : Prop :=
  match x with SRet r s | SCont r s => GS r s t st | _ => True end.

Lemma GS_direct r s t st : G (r :: P s) (t :: P st) -> eof s = eof st -> GS r s t st.
Proof. split; assumption. Qed.

Ltac ao E :=
  match goal with
  | |- res_ok (after_offside ?t ?o ?s) _ _ =>
      let AO := fresh "AO" in
      destruct (after_offside t o s) eqn:AO; cbn [res_ok]; try exact I;
      [ apply after_offside_G in AO; [exact AO|exact E]
      | exfalso; eapply after_offside_no_cont; exact AO ]
  end.
Ltac direct := cbn [res_ok]; apply GS_direct; [unfold P; cbn; gs|reflexivity].

Lemma step_G fuel t st : eof_ok st -> res_ok (step fuel t st) t st.
Proof.
  intros E. unfold step.
  destruct (stack st) as [|o rest] eqn:S.
  - destruct (k t); try direct;
      (destruct (push_ctx st (off_at t (CBlock false))) as [s1|] eqn:PC; [|exact I];
       apply push_ctx_same in PC; destruct PC as (A & B & C);
       cbn [layout_token res_ok]; apply GS_direct; [unfold P; cbn; rewrite A, B; gs|cbn; exact C]).
  - destruct (k t) eqn:K; cbn [tk_eqb is_closing andb]; try direct;
      destruct (octx o) as [b| | | | | | | | | | |] eqn:C; cbn [closes tk_eqb andb negb].
    all: try match goal with |- context [forallb ?f ?r] => destruct (forallb f r) end.
    all: try match goal with |- context [N.compare ?x ?y] => destruct (N.compare x y) end.
    all: try (destruct b).
    all: try direct.
    all: try ao E.
    (* explicit `in` closing a let / type / rec *)
    all: try (destruct rest as [|enc rest']; [exact I|];
              match goal with |- res_ok (open_body ?a ?b ?c ?d ?e) _ _ =>
                destruct (open_body a b c d e) eqn:OB; cbn [res_ok]; try exact I;
                [ apply open_body_G in OB; destruct OB as (R1 & R2 & R3 & R4); subst;
                  apply GS_direct; [unfold P; rewrite R2, R3; cbn; gs|rewrite R4; reflexivity]
                | exfalso; eapply open_body_no_cont; exact OB ] end).
    (* offside rule of let / type: continue the rec group, or insert `in` *)
    all: match goal with |- context [continue_block ?f ?c ?x ?y] =>
           destruct (continue_block f c x y) as [[[|] st1]|] eqn:CB; [ | | exact I];
           destruct (continue_block_G _ _ _ _ _ _ E CB) as [HG HE];
           assert (E1 : eof_ok st1) by (unfold eof_ok; rewrite HE; exact E) end.
    all: try (match goal with |- res_ok (after_offside ?t ?o ?s) _ _ =>
                destruct (after_offside t o s) eqn:AO; cbn [res_ok]; try exact I;
                [ apply after_offside_G in AO; [|exact E1]; destruct AO as [A1 A2];
                  split; [eapply G_trans; [exact A1|apply G_keep; exact HG]|congruence]
                | exfalso; eapply after_offside_no_cont; exact AO ] end).
    all: try (cbn [res_ok]; apply GS_direct; [unfold P in *; cbn; gs|cbn; exact HE]).
    all: destruct (tl (stack st1)); [exact I|];
         match goal with |- res_ok (open_body ?a ?b ?c ?d ?e) _ _ =>
           destruct (open_body a b c d e) eqn:OB; cbn [res_ok]; try exact I;
           [ apply open_body_G in OB; destruct OB as (R1 & R2 & R3 & R4); subst;
             apply GS_direct; [unfold P in *; rewrite R2, R3; cbn; gs|rewrite R4; cbn; exact HE]
           | exfalso; eapply open_body_no_cont; exact OB ] end.
Qed.

Lemma GS_trans r s t1 s1 t st : GS r s t1 s1 -> GS t1 s1 t st -> GS r s t st.
Proof. intros [A B] [C D]. split; [eapply G_trans; eauto|congruence]. Qed.

Lemma run_loop_G : forall n fuel t st r st', eof_ok st ->
  run_loop n fuel t st = LTok r st' -> GS r st' t st.
Proof.
  induction n as [|n IH]; intros fuel t st r st' E H; cbn [run_loop] in H; [discriminate|].
  pose proof (step_G fuel t st E) as S. destruct (step fuel t st) as [r1 s1|t1 s1| | |]; try discriminate.
  - inversion H; subst. exact S.
  - cbn [res_ok] in S. assert (E1 : eof_ok s1) by (unfold eof_ok; rewrite (proj2 S); exact E).
    eapply GS_trans; [eapply IH; eauto|exact S].
Qed.

Lemma layout_next_token_G fuel st r st' : eof_ok st ->
  layout_next_token fuel st = LTok r st' -> G (r :: P st') (P st) /\ eof st' = eof st.
Proof.
  unfold layout_next_token. intros E H. destruct (next_token st) as [t st1] eqn:NT.
  destruct (next_token_G _ _ _ E NT) as [HG HE].
  assert (E1 : eof_ok st1) by (unfold eof_ok; rewrite HE; exact E).
  assert (Plain : forall x,
            run_loop (loop_fuel st1) fuel x st1 = LTok r st' ->
            G (x :: P st1) (P st) -> G (r :: P st') (P st) /\ eof st' = eof st).
  { intros x RL Gx. apply run_loop_G in RL; [|exact E1]. destruct RL as [A B].
    split; [eapply G_trans; eauto|congruence]. }
  destruct (k t) eqn:K.
  2-30: (eapply Plain; [exact H|exact HG]).
  (* EOF: re-positioned to column 0 *)
  assert (Gz : G (MTok TEOF (code t) (line t) 0%N (mlo t) (mhi t) :: P st1) (P st)).
  { eapply G_trans; [|exact HG]. apply G_swap_eof; [exact K|reflexivity|apply G_refl]. }
  destruct (stack st1) eqn:S.
  + inversion H; subst. split; [exact Gz|exact HE].
  + eapply Plain; [exact H|exact Gz].
Qed.

Definition out_of (x : run_res) : list mtok :=
  match x with ROk o | RErr o | RPanic o | RHang o | RFuel o => o end.

Lemma run_G : forall n fuel st acc X, eof_ok st -> G (rev acc ++ P st) X ->
  exists rest, G (out_of (run n fuel st acc) ++ rest) X.
Proof.
  induction n as [|n IH]; intros fuel st acc X E HX; cbn [run].
  - exists (P st). exact HX.
  - destruct (layout_next_token fuel st) as [t st'| | | |] eqn:L; try (exists (P st); exact HX).
    destruct (layout_next_token_G _ _ _ _ E L) as [A B].
    assert (E1 : eof_ok st') by (unfold eof_ok; rewrite B; exact E).
    assert (HX' : G (rev (t :: acc) ++ P st') X).
    { cbn [rev]. rewrite <- app_assoc. cbn [app].
      eapply G_trans; [|exact HX]. apply G_app; [apply G_refl|exact A]. }
    destruct (k t); try (apply IH; assumption).
    exists (P st). exact HX.
Qed.

(* Whatever the outcome of the run (end of input, UnindentedTooFar, panic, ...), the tokens the model
   has emitted are, up to inserted virtual tokens, a prefix of the input: nothing is dropped from the
   middle, reordered or altered, and only OpenBlock / CloseBlock / Semi / In tokens are added. *)
Theorem layout_model_preserves_tokens_partial raw :
  k (last raw (MTok TEOF 12 0 1 0 0)) = TEOF ->
  exists rest, ins (real (out_of (layout raw) ++ rest)) (real raw).
Proof.
  intros E. unfold layout. apply run_G; [exact E|]. cbn. apply G_refl.
Qed.

(* ---------------------------------------------------------------------------------------------
   Completeness on runs that reach the end of the input.

   [tailok l]: behind an EOF token of l there are only block tokens and EOF tokens.  It holds of the
   pending tokens all along (the input ends with its only EOF; the algorithm pushes back / re-reads
   EOF and queues OpenBlock / CloseBlock only), so when EOF is finally emitted nothing real is left. *)
Definition oce (t : mtok) : Prop := k t = TOpenBlock \/ k t = TCloseBlock \/ k t = TEOF.

Fixpoint tailok (l : list mtok) : Prop :=
  match l with
  | [] => True
  | x :: l' => (k x = TEOF -> Forall oce l') /\ tailok l'
  end.

Lemma tailok_cons_ne x l : k x <> TEOF -> tailok l -> tailok (x :: l).
Proof. intros N H. cbn. split; [intros; contradiction|exact H]. Qed.
Lemma tailok_tl x l : tailok (x :: l) -> tailok l.
Proof. cbn. tauto. Qed.
Lemma tailok_same_kind x y l : k x = k y -> tailok (x :: l) -> tailok (y :: l).
Proof. cbn. intros E [A B]. split; [rewrite <- E; exact A|exact B]. Qed.
Lemma tailok_oce_all : forall l, Forall oce l -> tailok l.
Proof. induction 1; cbn; auto. Qed.

Lemma tailok_app_eof : forall l e, k e = TEOF -> tailok l -> tailok (l ++ [e]).
Proof.
  induction l as [|x l IH]; intros e E H; cbn.
  - split; [constructor|exact I].
  - cbn in H. destruct H as [A B]. split; [|apply IH; assumption].
    intros Kx. apply Forall_app. split; [auto|]. constructor; [right; right; exact E|constructor].
Qed.

Lemma virt_ne kd t : kd <> TEOF -> k (virt kd t) <> TEOF.
Proof. cbn. auto. Qed.

(* l' is l with block tokens queued in front and EOF tokens appended *)
Definition oc (t : mtok) : Prop := k t = TOpenBlock \/ k t = TCloseBlock.
Definition Ext (l l' : list mtok) : Prop :=
  exists vs es, l' = vs ++ l ++ es /\ Forall oc vs /\ Forall (fun t => k t = TEOF) es.

Lemma Ext_refl l : Ext l l.
Proof. exists [], []. rewrite app_nil_r. repeat split; constructor. Qed.
Lemma Ext_trans a b c : Ext a b -> Ext b c -> Ext a c.
Proof.
  intros (v1 & e1 & -> & V1 & E1) (v2 & e2 & -> & V2 & E2).
  exists (v2 ++ v1), (e1 ++ e2). split; [rewrite <- !app_assoc; reflexivity|].
  split; apply Forall_app; auto.
Qed.
Lemma Ext_front v l : oc v -> Ext l (v :: l).
Proof. intros V. exists [v], []. rewrite app_nil_r. repeat split; constructor; auto. Qed.
Lemma Ext_cons v l l' : oc v -> Ext l l' -> Ext l (v :: l').
Proof. intros V H. eapply Ext_trans; [exact H|apply Ext_front; exact V]. Qed.
Lemma Ext_back e l : k e = TEOF -> Ext l (l ++ [e]).
Proof. intros E. exists [], [e]. repeat split; constructor; auto. Qed.

Lemma oce_of_oc t : oc t -> oce t.
Proof. unfold oc, oce. tauto. Qed.

Lemma Ext_oce l l' : Ext l l' -> Forall oce l -> Forall oce l'.
Proof.
  intros (vs & es & -> & V & E) H. apply Forall_app. split.
  - eapply Forall_impl; [|exact V]. apply oce_of_oc.
  - apply Forall_app. split; [exact H|]. eapply Forall_impl; [|exact E]. intros a Ha. right; right; exact Ha.
Qed.

Lemma tailok_app_eofs : forall es l, Forall (fun t => k t = TEOF) es -> tailok l -> tailok (l ++ es).
Proof.
  induction es as [|e es IH]; intros l E H; [rewrite app_nil_r; exact H|].
  inversion E; subst. change (e :: es) with ([e] ++ es). rewrite app_assoc. apply IH; [assumption|].
  apply tailok_app_eof; assumption.
Qed.
Lemma tailok_front_oc : forall vs l, Forall oc vs -> tailok l -> tailok (vs ++ l).
Proof.
  induction 1 as [|v vs V _ IH]; intros H; cbn [app]; [exact H|].
  apply tailok_cons_ne; [destruct V as [V|V]; rewrite V; discriminate|auto].
Qed.
Lemma Ext_tailok l l' : Ext l l' -> tailok l -> tailok l'.
Proof. intros (vs & es & -> & V & E) H. apply tailok_front_oc; [exact V|]. apply tailok_app_eofs; assumption. Qed.

(* the token in hand *)
Lemma Ext_hand t l l' : Ext l l' -> tailok (t :: l) -> tailok (t :: l').
Proof.
  intros X [A B]. cbn. split; [intros Kt; eapply Ext_oce; eauto|eapply Ext_tailok; eauto].
Qed.
Lemma virt_hand kd t l : kd <> TEOF -> tailok (t :: l) -> tailok (virt kd t :: t :: l).
Proof. intros N H. apply tailok_cons_ne; [cbn; exact N|exact H]. Qed.

(* next_token: the token comes off the front of the pending list, or is the EOF that follows it *)
Lemma next_token_X st t st1 : eof_ok st -> next_token st = (t, st1) ->
  P st = t :: P st1 \/ (P st = [] /\ P st1 = [] /\ k t = TEOF).
Proof.
  destruct st as [tks e u s]. unfold next_token, P, eof_ok. cbn. intros E H.
  destruct u as [|x us].
  - destruct tks as [|y r]; inversion H; subst; cbn; auto.
  - inversion H; subst. left. reflexivity.
Qed.
Lemma next_token_Ext st t st1 : eof_ok st -> next_token st = (t, st1) -> Ext (P st) (t :: P st1).
Proof.
  intros E H. destruct (next_token_X _ _ _ E H) as [X|(X & Y & Z)].
  - rewrite X. apply Ext_refl.
  - rewrite X, Y. apply (Ext_back t []). exact Z.
Qed.
Lemma next_token_T st t st1 : eof_ok st -> next_token st = (t, st1) -> tailok (P st) -> tailok (t :: P st1).
Proof. intros E H. apply Ext_tailok. eapply next_token_Ext; eauto. Qed.

Lemma scan_for_next_block_X st c st' : eof_ok st -> scan_for_next_block st c = Some st' -> Ext (P st) (P st').
Proof.
  unfold scan_for_next_block. intros E H. destruct (next_token st) as [next st1] eqn:NT.
  pose proof (next_token_Ext _ _ _ E NT) as X1.
  destruct (is_block c); [destruct (first_block_col _) as [lc|]; [destruct (col next <=? lc)%N|]|];
    apply push_ctx_P in H; destruct H as [HP _]; rewrite HP; unfold P in *; cbn;
    repeat (apply Ext_cons; [first [left; reflexivity|right; reflexivity]|]); exact X1.
Qed.

Lemma pull_X : forall c st, eof_ok st -> Ext (P st) (P (pull c st)).
Proof.
  induction c as [|c IH]; intros st E; cbn [pull]; [apply Ext_refl|].
  destruct (toks st) as [|t r] eqn:T.
  - eapply Ext_trans; [|apply IH; exact E]. unfold P. cbn. rewrite T, !app_nil_r. apply Ext_back. exact E.
  - eapply Ext_trans; [|apply IH; exact E]. unfold P. cbn. rewrite T, <- app_assoc. apply Ext_refl.
Qed.

Lemma scan_continue_X : forall f i a e first st b st', eof_ok st ->
  scan_continue f i a e first st = Some (b, st') -> Ext (P st) (P st').
Proof.
  induction f as [|f IH]; intros i a e first st b st' E H; cbn [scan_continue] in H; [discriminate|].
  destruct i as [|j].
  - destruct (tk_eqb (k first) e); [inversion H; subst; apply Ext_refl|].
    destruct (k first); try (destruct a); try (inversion H; subst; apply Ext_refl); eapply IH; eauto.
  - unfold peek_token in H.
    set (st1 := pull (S j - length (unp st)) st) in *.
    pose proof (pull_X (S j - length (unp st)) st E) as X1. fold st1 in X1.
    destruct (pull_G (S j - length (unp st)) st E) as [_ B]. fold st1 in B.
    assert (E1 : eof_ok st1) by (unfold eof_ok; rewrite B; exact E).
    destruct (last (map Some (unp st1)) None) as [p|]; [|inversion H; subst; exact X1].
    destruct (tk_eqb (k p) e); [inversion H; subst; exact X1|].
    destruct (k p); try (destruct a); try (inversion H; subst; exact X1);
      (eapply Ext_trans; [exact X1|eapply IH; eauto]).
Qed.

Lemma continue_block_X fuel c t st b st' : eof_ok st ->
  continue_block fuel c t st = Some (b, st') -> Ext (P st) (P st').
Proof.
  unfold continue_block. intros E.
  destruct (second_is_rec (stack st)); [|intros H; inversion H; subst; apply Ext_refl].
  destruct (k t); destruct c; intros H; try (inversion H; subst; apply Ext_refl);
    eapply scan_continue_X; eauto.
Qed.

Lemma after_offside_T t o st r st' : eof_ok st ->
  after_offside t o st = SRet r st' -> tailok (t :: P st) -> tailok (r :: P st').
Proof.
  unfold after_offside. intros E H T.
  assert (RP : forall x, ret_push t x = SRet r st' -> (forall s, x = Some s -> Ext (P st) (P s)) ->
                         tailok (r :: P st')).
  { intros x Hx Hs. destruct x as [s|]; [|discriminate]. inversion Hx; subst.
    eapply Ext_hand; [apply Hs; reflexivity|exact T]. }
  destruct (push_context_of (k t)).
  - eapply RP; [exact H|]. intros s Hs. apply push_ctx_P in Hs. destruct Hs as [A _]. rewrite A.
    destruct (_ && _); cbn; apply Ext_refl.
  - assert (Rt : forall s, SRet t s = SRet r st' -> P s = P st -> tailok (r :: P st')).
    { intros s Hs HP. inversion Hs; subst. rewrite HP. exact T. }
    assert (Sc : forall c, ret_push t (scan_for_next_block st c) = SRet r st' -> tailok (r :: P st')).
    { intros c Hc. eapply RP; [exact Hc|]. intros s Hs. eapply scan_for_next_block_X; eauto. }
    destruct (k t) eqn:K; destruct (octx o) eqn:C; cbn [tk_eqb] in H;
      try (eapply Rt; [exact H|reflexivity]); try (eapply Sc; exact H).
    all: try (cbn [is_block layout_token] in H; inversion H; subst; unfold P in *; cbn;
              first [exact T | apply virt_hand; [discriminate|exact T]]; fail).
    all: try (destruct (next_token st) as [next st1] eqn:NT;
              pose proof (next_token_Ext _ _ _ E NT) as X1;
              destruct (next_token_G _ _ _ E NT) as [_ HE];
              match type of H with (if ?c then _ else _) = _ => destruct c end;
              [ eapply RP; [exact H|]; intros s Hs;
                assert (E2 : eof_ok (set_unp st1 (next :: unp st1))) by (unfold eof_ok; cbn; rewrite HE; exact E);
                eapply Ext_trans; [exact X1|]; apply (scan_for_next_block_X _ _ _ E2 Hs)
              | inversion H; subst; eapply Ext_hand; [exact X1|exact T] ]).
Qed.

Definition res_T (x : step_res) : Prop :=
  match x with SRet r s | SCont r s => tailok (r :: P s) | _ => True end.

Lemma step_T fuel t st : eof_ok st -> tailok (t :: P st) -> res_T (step fuel t st).
Proof.
  intros E T. unfold step.
  assert (D : forall r s, r = t -> P s = P st -> tailok (r :: P s)) by (intros; subst; congruence).
  assert (V : forall kd s, kd <> TEOF -> P s = t :: P st -> tailok (virt kd t :: P s)).
  { intros kd s N HP. rewrite HP. apply virt_hand; assumption. }
  destruct (stack st) as [|o rest] eqn:S.
  - destruct (k t); cbn [res_T]; try (apply D; reflexivity);
      (destruct (push_ctx st (off_at t (CBlock false))) as [s1|] eqn:PC; [|exact I];
       apply push_ctx_same in PC; destruct PC as (A & B & C);
       cbn [layout_token res_T]; apply V; [discriminate|unfold P; cbn; rewrite A, B; reflexivity]).
  - destruct (k t) eqn:K; cbn [tk_eqb is_closing andb]; try (cbn [res_T]; apply D; reflexivity);
      destruct (octx o) as [b| | | | | | | | | | |] eqn:C; cbn [closes tk_eqb andb negb].
    all: try match goal with |- context [forallb ?f ?r] => destruct (forallb f r) end.
    all: try match goal with |- context [N.compare ?x ?y] => destruct (N.compare x y) end.
    all: try (destruct b).
    all: try (cbn [res_T layout_token]; first [apply D; reflexivity | apply V; [discriminate|reflexivity]]).
    all: try match goal with |- res_T (after_offside ?t ?o ?s) =>
               let AO := fresh "AO" in
               destruct (after_offside t o s) eqn:AO; cbn [res_T]; try exact I;
               [ apply after_offside_T in AO; [exact AO|exact E|exact T]
               | exfalso; eapply after_offside_no_cont; exact AO ] end.
    all: try (destruct rest as [|enc rest']; [exact I|];
              match goal with |- res_T (open_body ?a ?b ?c ?d ?e) =>
                destruct (open_body a b c d e) eqn:OB; cbn [res_T]; try exact I;
                [ apply open_body_G in OB; destruct OB as (R1 & R2 & R3 & R4); subst;
                  eapply Ext_hand; [|exact T]; unfold P; rewrite R2, R3; cbn; apply Ext_front; left; reflexivity
                | exfalso; eapply open_body_no_cont; exact OB ] end).
    all: match goal with |- context [continue_block ?f ?c ?x ?y] =>
           destruct (continue_block f c x y) as [[[|] st1]|] eqn:CB; [ | | exact I];
           pose proof (continue_block_X _ _ _ _ _ _ E CB) as X1;
           destruct (continue_block_G _ _ _ _ _ _ E CB) as [_ HE];
           assert (E1 : eof_ok st1) by (unfold eof_ok; rewrite HE; exact E);
           pose proof (Ext_hand _ _ _ X1 T) as T1 end.
    all: try match goal with |- res_T (after_offside ?t ?o ?s) =>
               let AO := fresh "AO" in
               destruct (after_offside t o s) eqn:AO; cbn [res_T]; try exact I;
               [ apply after_offside_T in AO; [exact AO|exact E1|exact T1]
               | exfalso; eapply after_offside_no_cont; exact AO ] end.
    all: try (cbn [res_T]; exact T1).
    all: destruct (tl (stack st1)); [exact I|];
         match goal with |- res_T (open_body ?a ?b ?c ?d ?e) =>
           destruct (open_body a b c d e) eqn:OB; cbn [res_T]; try exact I;
           [ apply open_body_G in OB; destruct OB as (R1 & R2 & R3 & R4); subst;
             unfold P in *; rewrite R2, R3; cbn [app toks set_stack];
             apply tailok_cons_ne; [cbn; discriminate|]; apply tailok_cons_ne; [cbn; discriminate|]; exact T1
           | exfalso; eapply open_body_no_cont; exact OB ] end.
Qed.

Lemma run_loop_T : forall n fuel t st r st', eof_ok st -> tailok (t :: P st) ->
  run_loop n fuel t st = LTok r st' -> tailok (r :: P st').
Proof.
  induction n as [|n IH]; intros fuel t st r st' E T H; cbn [run_loop] in H; [discriminate|].
  pose proof (step_T fuel t st E T) as S. pose proof (step_G fuel t st E) as SG.
  destruct (step fuel t st) as [r1 s1|t1 s1| | |]; try discriminate.
  - inversion H; subst. exact S.
  - cbn [res_T] in S. cbn [res_ok] in SG.
    assert (E1 : eof_ok s1) by (unfold eof_ok; rewrite (proj2 SG); exact E).
    eapply IH; eauto.
Qed.

Lemma layout_next_token_T fuel st r st' : eof_ok st -> tailok (P st) ->
  layout_next_token fuel st = LTok r st' -> tailok (r :: P st').
Proof.
  unfold layout_next_token. intros E T H. destruct (next_token st) as [t st1] eqn:NT.
  pose proof (next_token_T _ _ _ E NT T) as T1.
  destruct (next_token_G _ _ _ E NT) as [_ HE].
  assert (E1 : eof_ok st1) by (unfold eof_ok; rewrite HE; exact E).
  destruct (k t) eqn:K.
  2-30: (eapply run_loop_T; [exact E1|exact T1|exact H]).
  assert (Tz : tailok (MTok TEOF (code t) (line t) 0%N (mlo t) (mhi t) :: P st1)).
  { eapply tailok_same_kind; [|exact T1]. rewrite K. reflexivity. }
  destruct (stack st1) eqn:S.
  + inversion H; subst. exact Tz.
  + eapply run_loop_T; [exact E1|exact Tz|exact H].
Qed.

Lemma run_ok : forall n fuel st acc X out, eof_ok st -> G (rev acc ++ P st) X -> tailok (P st) ->
  run n fuel st acc = ROk out -> exists rest, G (out ++ rest) X /\ Forall oce rest.
Proof.
  induction n as [|n IH]; intros fuel st acc X out E HX T H; cbn [run] in H; [discriminate|].
  destruct (layout_next_token fuel st) as [t st'| | | |] eqn:L; try discriminate.
  destruct (layout_next_token_G _ _ _ _ E L) as [A B].
  pose proof (layout_next_token_T _ _ _ _ E T L) as T'.
  assert (E1 : eof_ok st') by (unfold eof_ok; rewrite B; exact E).
  assert (HX' : G (rev (t :: acc) ++ P st') X).
  { cbn [rev]. rewrite <- app_assoc. cbn [app].
    eapply G_trans; [|exact HX]. apply G_app; [apply G_refl|exact A]. }
  destruct (k t) eqn:K.
  2-30: (eapply IH; [exact E1|exact HX'|exact (tailok_tl _ _ T')|exact H]).
  inversion H; subst. exists (t :: P st'). split.
  - cbn [rev] in HX'. rewrite <- app_assoc in HX'. exact HX'.
  - destruct T' as [T1 _]. constructor; [right; right; exact K|auto].
Qed.

Lemma ins_only_oc : forall v y, ins v y -> Forall oc v -> Forall (fun t => ~ oc t) y -> y = [].
Proof.
  induction 1 as [|t x y H IH|t x y V H IH]; intros Hv Hy; [reflexivity| |].
  - inversion Hv; subst. inversion Hy; subst. contradiction.
  - inversion Hv; subst. auto.
Qed.
Lemma ins_strip : forall a v y, ins (a ++ v) y -> Forall oc v -> Forall (fun t => ~ oc t) y -> ins a y.
Proof.
  induction a as [|t a IH]; intros v y H Hv Hy; cbn [app] in H.
  - rewrite (ins_only_oc _ _ H Hv Hy). constructor.
  - inversion H; subst.
    + inversion Hy; subst. apply ins_keep. eapply IH; eauto.
    + apply ins_add; [assumption|]. eapply IH; eauto.
Qed.

Lemma real_oce rest : Forall oce rest -> Forall oc (real rest).
Proof.
  intros H. apply Forall_forall. intros x Hx. apply filter_In in Hx. destruct Hx as [Hin Hne].
  rewrite Forall_forall in H. destruct (H x Hin) as [A|[A|A]]; [left; exact A|right; exact A|].
  unfold is_eof in Hne. rewrite A in Hne. discriminate.
Qed.

Lemma tailok_body : forall body e, Forall (fun t => k t <> TEOF) body -> k e = TEOF -> tailok (body ++ [e]).
Proof.
  induction 1 as [|x body Hx _ IH]; intros E; cbn.
  - split; [constructor|exact I].
  - split; [intros; contradiction|auto].
Qed.

(* On a run that reaches the end of the input the model has emitted exactly the input with virtual
   tokens inserted (EOF disregarded) — for every stream that consists of non-EOF, non-block tokens
   followed by one EOF, which is what the tokenizer produces. *)
Theorem layout_model_preserves_tokens body e out :
  Forall (fun t => k t <> TEOF) body -> k e = TEOF ->
  Forall (fun t => ~ oc t) body ->
  layout (body ++ [e]) = ROk out -> ins (real out) body.
Proof.
  intros Hb He Hoc H. unfold layout in H.
  assert (L : last (body ++ [e]) (MTok TEOF 12 0 1 0 0) = e) by apply last_last.
  rewrite L in H.
  assert (T0 : tailok (P (St (body ++ [e]) e [] []))) by (unfold P; cbn; apply tailok_body; assumption).
  assert (G0 : G (rev [] ++ P (St (body ++ [e]) e [] [])) (body ++ [e])) by (unfold P; cbn; apply G_refl).
  destruct (run_ok _ _ (St (body ++ [e]) e [] []) [] (body ++ [e]) out He G0 T0 H) as (rest & HG & Hr).
  unfold G in HG. rewrite real_app in HG.
  assert (Rb : real (body ++ [e]) = body).
  { rewrite real_app. assert (R1 : real [e] = []) by (unfold real, is_eof; cbn; rewrite He; reflexivity).
    rewrite R1, app_nil_r. clear -Hb. induction Hb as [|x l Hx _ IH]; [reflexivity|].
    unfold real in *. cbn [filter]. unfold is_eof at 1. destruct (k x); try (cbn; rewrite IH; reflexivity). contradiction. }
  rewrite Rb in HG. eapply ins_strip; [exact HG|apply real_oce; exact Hr|exact Hoc].
Qed.
